// compile turns TLC's EDGE output into a compact graph file (states interned once) that the replay
// shards load quickly:   compile <tlc.out> <graph.ndjson>
package main

import (
	"bufio"
	"encoding/json"
	"fmt"
	"os"
	"strings"
)

func canon(raw []byte) string {
	var v any
	if err := json.Unmarshal(raw, &v); err != nil {
		panic(err)
	}
	b, _ := json.Marshal(v)
	return string(b)
}

func unquoteTLA(s string) string {
	var b strings.Builder
	for i := 0; i < len(s); i++ {
		if s[i] == '\\' && i+1 < len(s) {
			i++
			switch s[i] {
			case 'n':
				b.WriteByte('\n')
			case 't':
				b.WriteByte('\t')
			default:
				b.WriteByte(s[i])
			}
			continue
		}
		b.WriteByte(s[i])
	}
	return b.String()
}

func main() {
	in, err := os.Open(os.Args[1])
	if err != nil {
		panic(err)
	}
	defer in.Close()
	out, err := os.Create(os.Args[2])
	if err != nil {
		panic(err)
	}
	defer out.Close()
	w := bufio.NewWriterSize(out, 1<<20)
	defer w.Flush()
	ids := map[string]int{}
	id := func(s string) int {
		if i, ok := ids[s]; ok {
			return i
		}
		i := len(ids)
		ids[s] = i
		fmt.Fprintf(w, "{\"s\":%d,\"st\":%s}\n", i, s)
		return i
	}
	sc := bufio.NewScanner(in)
	sc.Buffer(make([]byte, 1<<20), 1<<26)
	const pfx = `<<"EDGE", "`
	n := 0
	for sc.Scan() {
		line := sc.Text()
		if !strings.HasPrefix(line, pfx) || !strings.HasSuffix(line, `">>`) {
			continue
		}
		body := unquoteTLA(line[len(pfx) : len(line)-3])
		var rec struct {
			From json.RawMessage `json:"from"`
			To   json.RawMessage `json:"to"`
			Op   json.RawMessage `json:"op"`
		}
		if err := json.Unmarshal([]byte(body), &rec); err != nil {
			panic(fmt.Sprintf("bad EDGE line: %v", err))
		}
		f := id(canon(rec.From))
		t := id(canon(rec.To))
		fmt.Fprintf(w, "{\"e\":[%d,%d],\"op\":%s}\n", f, t, canon(rec.Op))
		n++
	}
	if err := sc.Err(); err != nil {
		panic(err)
	}
	fmt.Printf("compiled %d edges, %d states\n", n, len(ids))
}
