package frames

import (
	"fmt"
	"os"
	"testing"
	"time"
)

func TestBench(t *testing.T) {
	if os.Getenv("VERIF_BENCH") == "" {
		t.Skip()
	}
	a := New(t, Consts{})
	id := "d12_bridgeCall"
	c := a.Cases[id]
	data := a.build(c, 0, 0, nil).Encode()
	tm := func(name string, n int, f func()) {
		t0 := time.Now()
		for i := 0; i < n; i++ {
			f()
		}
		fmt.Printf("%-10s %.2f ms\n", name, float64(time.Since(t0).Microseconds())/1000/float64(n))
	}
	tm("trace", 50, func() { a.trace(a.root, data, 100000) })
	tm("ethtx", 50, func() { br, _ := a.root.CacheContext(); a.W.EthTx(br, a.user, &a.ex[0], nil, 100000, data) })
	tm("ethtx-ok", 50, func() { br, _ := a.root.CacheContext(); a.W.EthTx(br, a.user, &a.ex[0], nil, ampleGas, data) })
	tm("dump", 50, func() { a.dump(a.root) })
	tm("observe", 400, func() { a.observe(a.root) })
	tm("project", 50, func() { a.Project(a.root) })
	tm("tokbal", 50, func() { a.E.TokenBalance(a.root, a.ex[0]) })
	tm("deleg", 50, func() { a.W.App.StakingKeeper.GetDelegation(a.root, a.ex[0].Bytes(), a.E.Val[0]) })
	tm("ubd", 50, func() { a.W.App.StakingKeeper.GetUnbondingDelegation(a.root, a.ex[0].Bytes(), a.E.Val[0]) })
	tm("start", 50, func() { a.W.App.DistrKeeper.GetDelegatorStartingInfo(a.root, a.E.Val[0], a.ex[0].Bytes()) })
	tm("allow", 50, func() { a.W.App.StakingKeeper.GetAllowance(a.root, a.E.Val[0], a.ex[0].Bytes(), a.ex[1].Bytes()) })
	tm("red", 50, func() { a.W.App.StakingKeeper.GetRedelegation(a.root, a.ex[0].Bytes(), a.E.Val[0], a.E.Val[3]) })
	tm("supply", 50, func() { a.E.TokenSupply(a.root) })
	tm("nonce", 50, func() { a.W.App.EvmKeeper.GetNonce(a.root, a.user.Address()) })
	tm("hex", 50, func() { _ = a.ex[0].Hex() })
	tm("getpriv", 50, func() { a.getPriv(a.root) })
	d := a.dump(a.root)
	n := 0
	for _, l := range d {
		n += len(l)
	}
	fmt.Println("dump entries", n)
}
