package frames

import (
	"encoding/json"
	"fmt"
	"os"
	"strconv"
	"testing"
	"time"

	"verifharness/graph"
	"verifharness/pcenv"
)

func shardKey(op graph.Op) string { return op.Str("p") }

func TestReplay(t *testing.T) {
	var c Consts
	graph.Const(&c)
	a := New(t, c)
	pcenv.RunReplaySharded(t, a, a.root, shardKey)
}

func TestPath(t *testing.T) {
	var c Consts
	graph.Const(&c)
	a := New(t, c)
	graph.RunPath(t, a, a.root)
}

// TestProfile is the measuring pre-pass: the out-of-gas classes of this shard's cases (VERIF_PROFILE_OUT).
func TestProfile(t *testing.T) {
	var c Consts
	graph.Const(&c)
	a := New(t, c)
	shard, _ := strconv.Atoi(os.Getenv("VERIF_SHARD"))
	shards, _ := strconv.Atoi(os.Getenv("VERIF_SHARDS"))
	if shards == 0 {
		shards = 1
	}
	out := map[string]*CaseCuts{}
	t0 := time.Now()
	for _, id := range c.IDs {
		if pcenv.ShardOf(id, shards) != shard {
			continue
		}
		cc := a.Profile(id)
		out[id] = cc
		if os.Getenv("VERIF_DEBUG") != "" {
			fmt.Printf("profile %s: intrinsic %d ample %d probed %d classes %d\n", id, cc.Intrinsic, cc.Ample, cc.Probed, len(cc.Classes))
			for _, cl := range cc.Classes {
				fmt.Printf("   %s  %d limits [%d..%d]\n", patKey(cl.Oog), len(cl.L), cl.L[0], cl.L[len(cl.L)-1])
			}
		}
	}
	fmt.Printf("profiled %d cases in %s\n", len(out), time.Since(t0))
	b, err := json.Marshal(out)
	pcenv.Must(err)
	pcenv.Must(os.WriteFile(os.Getenv("VERIF_PROFILE_OUT"), b, 0o644))
}

// TestDev runs a few cases directly (development aid): VERIF_CASES=id,id
func TestDev(t *testing.T) {
	ids := os.Getenv("VERIF_CASES")
	if ids == "" {
		t.Skip()
	}
	a := New(t, Consts{CutMode: os.Getenv("VERIF_CUTMODE")})
	a.debug = true
	for _, id := range splitComma(ids) {
		ctx, _ := a.root.CacheContext()
		br, res := a.Apply(ctx, graph.Op{"name": "RunProgram", "p": id, "c": []any{}})
		fmt.Println(id, res, graph.CanonV(a.Project(br)))
		cc := a.Profile(id)
		fmt.Printf("  intrinsic %d ample %d probed %d\n", cc.Intrinsic, cc.Ample, cc.Probed)
		for _, cl := range cc.Classes {
			pat := make([]any, len(cl.Oog))
			for i, x := range cl.Oog {
				pat[i] = x
			}
			ctx, _ := a.root.CacheContext()
			br, res := a.Apply(ctx, graph.Op{"name": "RunProgramGas", "p": id, "c": pat})
			fmt.Printf("   %s %d limits [%d..%d] -> %s %s\n", patKey(cl.Oog), len(cl.L), cl.L[0], cl.L[len(cl.L)-1], res, graph.CanonV(a.Project(br)))
		}
	}
}

func splitComma(s string) []string {
	var out []string
	cur := ""
	for _, r := range s {
		if r == ',' {
			out = append(out, cur)
			cur = ""
		} else {
			cur += string(r)
		}
	}
	return append(out, cur)
}
