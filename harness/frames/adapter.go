// Package frames binds spec/Frames.tla (C09) to the real application: every case (call-tree shape x
// method variant) is executed as ONE real EVM transaction user -> executor A -> (B -> (C)) with
// native calls to the staking / cross-chain precompiles, under ample gas and under gas limits around
// every executed opcode; the persisted effects are read back from the real stores.
package frames

import (
	_ "embed"
	"encoding/json"
	"fmt"
	"math/big"
	"os"
	"sort"
	"strings"
	"testing"

	sdkmath "cosmossdk.io/math"
	storetypes "cosmossdk.io/store/types"
	codectypes "github.com/cosmos/cosmos-sdk/codec/types"
	sdk "github.com/cosmos/cosmos-sdk/types"
	distrtypes "github.com/cosmos/cosmos-sdk/x/distribution/types"
	"github.com/ethereum/go-ethereum/common"
	"github.com/ethereum/go-ethereum/core"
	ethtypes "github.com/ethereum/go-ethereum/core/types"
	evmtypes "github.com/evmos/ethermint/x/evm/types"

	"github.com/functionx/fx-core/v8/testutil/helpers"
	fxtypes "github.com/functionx/fx-core/v8/types"
	cctypes "github.com/functionx/fx-core/v8/x/crosschain/types"
	erc20types "github.com/functionx/fx-core/v8/x/erc20/types"

	"verifharness/evmasm"
	"verifharness/graph"
	"verifharness/pcenv"
	"verifharness/world"
)

//go:embed cases.json
var casesJSON []byte

type StepJ struct {
	T    string `json:"t"`
	K    int    `json:"k"`
	Mode string `json:"mode"`
	Fail string `json:"fail"` // "no" | "err" (fails inside the native action) | "panic" (the action panics midway)
	ID   int    `json:"id"`
}
type FrameJ struct {
	ID    int     `json:"id"`
	Steps []StepJ `json:"steps"`
}
type Case struct {
	Frames  []FrameJ `json:"frames"`
	Methods []string `json:"methods"`
}

type Consts struct {
	IDs     []string `json:"ids"`
	Cuts    string   `json:"cuts"`    // file written by the profiling pre-pass (optional cache)
	CutMode string   `json:"cutmode"` // "sample" | "all"
}

const (
	MaxNat, MaxEvm = 3, 2
	ampleGas       = 9_000_000
	subGas1        = 2_500_000 // fixed gas forwarded to a CAUGHT sub-call made by the root frame
	subGas2        = 900_000   // ... made by a depth-2 frame
	failGas        = 250_000   // fixed gas forwarded to a caught native call that fails (a failing precompile eats all it got)
	nEx            = 3
	feeUnits       = 1
)

var privKey = []byte{0xFE, 'c', '0', '9'}

type priv struct {
	Case   string `json:"case"`
	Status string `json:"status"`
	Leak   bool   `json:"leak"`
	Split  bool   `json:"split"`
	Mixed  bool   `json:"mixed"` // gas limits of one class produced different projections
	proj   string // canonical projection of the branch (not stored)
	Ntx    int64  `json:"ntx"` // transactions executed (a CALL transaction's nonce is bumped by the ante handler, which keeper-level execution skips)
}

type Adapter struct {
	W       *world.W
	E       *pcenv.Env
	C       Consts
	Cases   map[string]Case
	user    *helpers.Signer
	owner   *helpers.Signer // delegator that approved shares to every executor
	owner2  *helpers.Signer // allowance larger than its shares: transferFromShares fails late
	userA   common.Address  // cached: Signer.Address() derives the public key on every call
	ownerA  common.Address
	owner2A common.Address
	ex      [nEx]common.Address
	recv    common.Address // receiver of transferred shares
	recvC   common.Address // receiver of the parked deposits
	spender common.Address
	sinkE   common.Address // receiver of the plain EVM effects
	dest    string
	txCan   [nEx][MaxNat]uint64
	txFee   [nEx]uint64
	claims  [MaxNat]uint64
	tokenP  common.Address // second registered token (USDC); its conversion is disabled by governance at the end of the setup
	claimP  uint64         // parked failed bridge-call result whose refund (of tokenP) cannot be completed: executing it panics midway
	callP   uint64         // nonce of the outgoing bridge call claimP reports on
	root    sdk.Context
	base    *obs
	cuts    map[string]*CaseCuts
	debug   bool
	skey    storetypes.StoreKey
}

func amt(k int) *big.Int { return pcenv.Units(int64(1) << (k - 1)) }

// New provisions the world: three executors with FX, USDT tokens (approved to the cross-chain precompile),
// delegations to the effect validators with pending rewards, pooled transfers to cancel / top up, an owner
// who approved shares, parked deposits.
func New(t *testing.T, c Consts) *Adapter {
	w := world.New(t, 5)
	e := pcenv.New(t, w)
	a := &Adapter{W: w, E: e, C: c, Cases: map[string]Case{}, cuts: map[string]*CaseCuts{}, debug: os.Getenv("VERIF_DEBUG") != ""}
	pcenv.Must(json.Unmarshal(casesJSON, &a.Cases))
	a.skey = w.App.GetKey(pcenv.Chain)
	ctx := w.Ctx
	a.user, a.owner, a.owner2 = w.Key("c09/user"), w.Key("c09/owner"), w.Key("c09/owner2")
	a.userA, a.ownerA, a.owner2A = a.user.Address(), a.owner.Address(), a.owner2.Address()
	for _, k := range []*helpers.Signer{a.user, a.owner, a.owner2} {
		w.Fund(ctx, k.AccAddress(), 100_000)
	}
	a.recv = common.HexToAddress(world.DetExt("c09/recv"))
	a.recvC = common.HexToAddress(world.DetExt("c09/recvclaim"))
	a.spender = common.HexToAddress(world.DetExt("c09/spender"))
	a.sinkE = common.HexToAddress(world.DetExt("c09/sinkE"))
	a.dest = world.DetExt("c09/dest")
	st, cc := pcenv.StakingAddr, pcenv.CrosschainAddr
	eoa := func(s *helpers.Signer, to common.Address, data []byte) {
		ok, msg := w.EthCall(ctx, s, to, 3_000_000, data)
		pcenv.Mustf(ok, "setup call: %s", msg)
	}
	for k := 1; k <= MaxNat; k++ {
		eoa(a.owner, st, pcenv.DelegateV2(e.Val[k-1], pcenv.Units(64)))
		eoa(a.owner2, st, pcenv.DelegateV2(e.Val[k-1], pcenv.Units(1)))
	}
	nextTx := func() uint64 { return a.seq(ctx, cctypes.KeyLastTxPoolID) }
	for i := 0; i < nEx; i++ {
		x := e.Deploy(ctx, nil)
		a.ex[i] = x
		w.Fund(ctx, sdk.AccAddress(x.Bytes()), 10_000)
		e.GiveToken(ctx, x, pcenv.Units(10_000))
		steps := []evmasm.Step{pcenv.Call(e.Token, pcenv.TokenApprove(cc, pcenv.Units(1_000_000_000)))}
		for k := 1; k <= MaxNat; k++ {
			steps = append(steps, pcenv.Call(st, pcenv.DelegateV2(e.Val[k-1], pcenv.Units(64))))
		}
		ok, msg := w.EthCall(ctx, a.user, x, ampleGas, pcenv.Prog(steps...))
		pcenv.Mustf(ok, "provisioning executor %d: %s", i, msg)
		for k := 1; k <= MaxNat; k++ {
			a.txCan[i][k-1] = nextTx()
			ok, msg = w.EthCall(ctx, a.user, x, ampleGas, pcenv.Prog(pcenv.Call(cc, pcenv.CrossChain(e.Token, a.dest, amt(k), pcenv.Units(feeUnits)))))
			pcenv.Mustf(ok, "pool tx: %s", msg)
		}
		a.txFee[i] = nextTx()
		s := pcenv.Call(cc, pcenv.CrossChain(common.Address{}, a.dest, pcenv.Units(1), pcenv.Units(feeUnits)))
		s.Value = pcenv.Units(1 + feeUnits)
		ok, msg = w.EthCall(ctx, a.user, x, ampleGas, pcenv.Prog(s))
		pcenv.Mustf(ok, "FX pool tx: %s", msg)
		for k := 1; k <= MaxNat; k++ {
			eoa(a.owner, st, pcenv.ApproveShares(e.Val[k-1], x, pcenv.Units(32)))
			eoa(a.owner2, st, pcenv.ApproveShares(e.Val[k-1], x, pcenv.Units(100)))
		}
	}
	for k := 1; k <= MaxNat; k++ {
		a.claims[k-1] = e.Park(ctx, e.TokU, sdk.AccAddress(a.recvC.Bytes()), amt(k))
	}
	a.setupPanicClaim(ctx)
	ctx = e.RewardBlock(ctx, 5000)
	a.putPriv(ctx, &priv{Case: "none", Status: "none"})
	a.root = ctx
	w.Ctx = ctx
	a.base = a.observe(ctx)
	return a
}

func (a *Adapter) seq(ctx sdk.Context, key []byte) uint64 {
	bz := ctx.KVStore(a.skey).Get(key)
	if len(bz) == 0 {
		return 1
	}
	return sdk.BigEndianToUint64(bz)
}

func (a *Adapter) getPriv(ctx sdk.Context) *priv {
	var p priv
	pcenv.Must(json.Unmarshal(ctx.KVStore(a.skey).Get(privKey), &p))
	return &p
}

func (a *Adapter) putPriv(ctx sdk.Context, p *priv) {
	b, err := json.Marshal(p)
	pcenv.Must(err)
	ctx.KVStore(a.skey).Set(privKey, b)
}

// ---------------------------------------------------------------------------------------------
// programs

// nativeData: call data (and value) of effect k realised by method m, called by executor x.
func (a *Adapter) nativeData(m string, k int, x int) (to common.Address, data []byte, value *big.Int) {
	e := a.E
	v := e.Val[k-1]
	X := a.ex[x]
	switch m {
	case "delegateV2":
		return pcenv.StakingAddr, pcenv.DelegateV2(v, amt(k)), nil
	case "undelegateV2":
		return pcenv.StakingAddr, pcenv.UndelegateV2(v, amt(k)), nil
	case "redelegateV2":
		return pcenv.StakingAddr, pcenv.RedelegateV2(v, e.Val[3], amt(k)), nil
	case "withdraw":
		return pcenv.StakingAddr, pcenv.Withdraw(v), nil
	case "approveShares":
		return pcenv.StakingAddr, pcenv.ApproveShares(v, a.spender, amt(k)), nil
	case "transferShares":
		return pcenv.StakingAddr, pcenv.TransferShares(v, a.recv, amt(k)), nil
	case "transferFromShares":
		return pcenv.StakingAddr, pcenv.TransferFromShares(v, a.ownerA, a.recv, amt(k)), nil
	case "crossChain":
		return pcenv.CrosschainAddr, pcenv.CrossChain(e.Token, a.dest, amt(k), pcenv.Units(feeUnits)), nil
	case "crossChainFX":
		return pcenv.CrosschainAddr, pcenv.CrossChain(common.Address{}, a.dest, amt(k), pcenv.Units(feeUnits)), new(big.Int).Add(amt(k), pcenv.Units(feeUnits))
	case "bridgeCall":
		return pcenv.CrosschainAddr, pcenv.BridgeCall(X, []common.Address{e.Token}, []*big.Int{amt(k)}, common.HexToAddress(a.dest)), nil
	case "cancelSendToExternal":
		return pcenv.CrosschainAddr, pcenv.CancelSendToExternal(a.txCan[x][k-1]), nil
	case "increaseBridgeFee":
		return pcenv.CrosschainAddr, pcenv.IncreaseBridgeFee(a.txFee[x], common.Address{}, amt(k)), amt(k)
	case "executeClaim":
		return pcenv.CrosschainAddr, pcenv.ExecuteClaimData(a.claims[k-1]), nil
	}
	panic("method " + m)
}

// setupPanicClaim provisions the native call whose action PANICS after partial work, through public entry
// points only: a second coin (USDC) is registered by governance and bridged in, executor 0 sends some of it out
// with the bridgeCall precompile, the external chain reports the call as failed (observed claim, parked for
// executeClaim), and governance disables the conversion of the token pair.  executeClaim of that result
// consumes the pending claim, releases the bridge tokens to the refund address, converts them to the base coin
// and then cannot convert the coin back to the ERC-20: HandleOutgoingBridgeCallRefund panics.
func (a *Adapter) setupPanicClaim(ctx sdk.Context) {
	w, e := a.W, a.E
	tokP := world.DetExt("c09/token/USDC")
	md := fxtypes.GetCrossChainMetadataManyToOne("USD Coin", "USDC", 18, cctypes.NewBridgeDenom(pcenv.Chain, tokP))
	pcenv.Must(w.Handle(ctx, &erc20types.MsgRegisterCoin{Authority: world.GovAddr(), Metadata: md}))
	e.Observe(ctx, &cctypes.MsgBridgeTokenClaim{ChainName: pcenv.Chain, BlockHeight: 200 + e.LastObserved(ctx), TokenContract: tokP, Name: "USD Coin", Symbol: "USDC", Decimals: 18})
	pair, found := w.App.Erc20Keeper.GetTokenPair(ctx, "usdc")
	pcenv.Mustf(found, "usdc token pair missing")
	a.tokenP = pair.GetERC20Contract()
	e.Deposit(ctx, tokP, e.Deployer.AccAddress(), pcenv.Units(100))
	pcenv.Must(w.Handle(ctx, &erc20types.MsgConvertCoin{Coin: sdk.NewCoin("usdc", sdkmath.NewIntFromBigInt(pcenv.Units(100))), Receiver: a.ex[0].Hex(), Sender: e.Deployer.AccAddress().String()}))
	before := map[uint64]bool{}
	for n := range a.outgoingCalls(ctx) {
		before[n] = true
	}
	ok, msg := w.EthCall(ctx, a.user, a.ex[0], ampleGas, pcenv.Prog(
		pcenv.Call(a.tokenP, pcenv.TokenApprove(pcenv.CrosschainAddr, pcenv.Units(100))),
		pcenv.Call(pcenv.CrosschainAddr, pcenv.BridgeCall(a.ex[0], []common.Address{a.tokenP}, []*big.Int{pcenv.Units(40)}, common.HexToAddress(a.dest)))))
	pcenv.Mustf(ok, "bridgeCall of the second token: %s", msg)
	for n := range a.outgoingCalls(ctx) {
		if !before[n] {
			a.callP = n
		}
	}
	pcenv.Mustf(a.callP != 0, "outgoing bridge call of the second token not found")
	n := e.LastObserved(ctx) + 1
	b := e.Bridger.AccAddress().String()
	anyc, err := codectypes.NewAnyWithValue(&cctypes.MsgBridgeCallResultClaim{ChainName: pcenv.Chain, BridgerAddress: b, EventNonce: n, BlockHeight: 200 + n,
		Nonce: a.callP, TxOrigin: world.DetExt("c09/txorigin"), Success: false, Cause: ""})
	pcenv.Must(err)
	pcenv.Must(w.Handle(ctx, &cctypes.MsgClaim{ChainName: pcenv.Chain, BridgerAddress: b, Claim: anyc}))
	pcenv.Mustf(e.LastObserved(ctx) == n, "result claim %d not observed", n)
	pcenv.Mustf(ctx.KVStore(a.skey).Has(cctypes.GetPendingExecuteClaimKey(n)), "result claim %d not parked", n)
	a.claimP = n
	pcenv.Must(w.Handle(ctx, &erc20types.MsgToggleTokenConversion{Authority: world.GovAddr(), Token: "usdc"}))
}

// outgoingCalls: nonce -> record of the outgoing bridge calls in the store.
func (a *Adapter) outgoingCalls(ctx sdk.Context) map[uint64]cctypes.OutgoingBridgeCall {
	out := map[uint64]cctypes.OutgoingBridgeCall{}
	it := storetypes.KVStorePrefixIterator(ctx.KVStore(a.skey), cctypes.OutgoingBridgeCallNonceKey)
	defer it.Close()
	for ; it.Valid(); it.Next() {
		var oc cctypes.OutgoingBridgeCall
		a.W.App.AppCodec().MustUnmarshal(it.Value(), &oc)
		out[oc.Nonce] = oc
	}
	return out
}

// panicData: the native call whose action panics after partial work (see setupPanicClaim); executeClaim is the
// only method with such a path reachable from valid state, whatever methods realise the program's effects.
func (a *Adapter) panicData() (to common.Address, data []byte, value *big.Int) {
	return pcenv.CrosschainAddr, pcenv.ExecuteClaimData(a.claimP), nil
}

// failData: a call of method m that fails INSIDE the native action, as late as the method allows.
func (a *Adapter) failData(m string, x int) (to common.Address, data []byte, value *big.Int) {
	e := a.E
	v := e.Val[0]
	switch m {
	case "delegateV2":
		return pcenv.StakingAddr, pcenv.DelegateV2(v, pcenv.Units(50_000_000)), nil // more than the balance
	case "undelegateV2":
		return pcenv.StakingAddr, pcenv.UndelegateV2(v, pcenv.Units(50_000_000)), nil
	case "redelegateV2":
		return pcenv.StakingAddr, pcenv.RedelegateV2(v, e.Val[3], pcenv.Units(50_000_000)), nil
	case "withdraw":
		return pcenv.StakingAddr, pcenv.Withdraw(e.Val[3]), nil // no delegation there
	case "approveShares":
		// approveShares cannot fail inside the action; the nearest failure is an allowance-consuming call
		fallthrough
	case "transferFromShares":
		// allowance (100) covers it, the owner's shares (1) do not: fails after the allowance was decremented
		return pcenv.StakingAddr, pcenv.TransferFromShares(v, a.owner2A, a.recv, pcenv.Units(2)), nil
	case "transferShares":
		return pcenv.StakingAddr, pcenv.TransferShares(v, a.recv, pcenv.Units(50_000_000)), nil
	case "crossChain":
		// invalid external receiver: detected after the tokens were pulled and converted
		return pcenv.CrosschainAddr, pcenv.CrossChain(e.Token, "not-an-address", pcenv.Units(1), pcenv.Units(feeUnits)), nil
	case "crossChainFX":
		return pcenv.CrosschainAddr, pcenv.CrossChain(common.Address{}, "not-an-address", pcenv.Units(1), pcenv.Units(feeUnits)), pcenv.Units(1 + feeUnits)
	case "bridgeCall":
		// second token is not registered: fails after the first token was converted
		return pcenv.CrosschainAddr, pcenv.BridgeCall(a.ex[x], []common.Address{e.Token, a.sinkE}, []*big.Int{pcenv.Units(1), pcenv.Units(1)}, common.HexToAddress(a.dest)), nil
	case "cancelSendToExternal":
		return pcenv.CrosschainAddr, pcenv.CancelSendToExternal(9999), nil
	case "increaseBridgeFee":
		// unknown transaction: detected after the fee was taken from msg.value
		return pcenv.CrosschainAddr, pcenv.IncreaseBridgeFee(9999, common.Address{}, pcenv.Units(1)), pcenv.Units(1)
	case "executeClaim":
		return pcenv.CrosschainAddr, pcenv.ExecuteClaimData(9999), nil
	}
	panic("method " + m)
}

// build renders static frame f (executor depth d) of case c; drop[slot] removes a call step (twin).
func (a *Adapter) build(c Case, f, d int, drop map[int]bool) evmasm.Program {
	var p evmasm.Program
	for _, s := range c.Frames[f].Steps {
		switch s.T {
		case "rev":
			p.End = evmasm.KindRevert
			continue
		case "inv":
			p.End = evmasm.KindInvalid
			continue
		}
		if drop[s.ID] {
			continue
		}
		st := evmasm.Step{Kind: evmasm.KindCall, Catch: s.Mode == "catch"}
		switch s.T {
		case "nat":
			var to common.Address
			switch s.Fail {
			case "err":
				to, st.Data, st.Value = a.failData(c.Methods[0], d)
			case "panic":
				to, st.Data, st.Value = a.panicData()
			default:
				to, st.Data, st.Value = a.nativeData(c.Methods[s.K-1], s.K, d)
			}
			st.To = evmasm.Addr(to.Bytes())
			if st.Catch {
				st.Gas = failGas
			}
		case "evm":
			st.To = evmasm.Addr(a.E.Token.Bytes())
			st.Data = pcenv.TokenTransfer(a.sinkE, amt(s.K))
		case "sub":
			st.To = evmasm.Addr(a.ex[d+1].Bytes())
			st.Data = a.build(c, s.K-1, d+1, drop).Encode()
			if st.Catch {
				st.Gas = subGas1
				if d >= 1 {
					st.Gas = subGas2
				}
			}
		}
		p.Steps = append(p.Steps, st)
	}
	if drop[0] { // the root itself is dropped: the empty program
		return evmasm.Program{}
	}
	return p
}

func nslots(c Case) int {
	n := 0
	for _, f := range c.Frames {
		if f.ID > n {
			n = f.ID
		}
		for _, s := range f.Steps {
			if s.ID > n {
				n = s.ID
			}
		}
	}
	return n
}

// fates maps the dynamic call frames of a trace to the static slots of the case:
// fate[slot] = "" (not reached) | "ok" | error text; oog[slot-1] = the frame ran out of gas.
func (a *Adapter) fates(c Case, tr *pcenv.Trace) (fate []string, oog []bool) {
	n := nslots(c)
	fate, oog = make([]string, n+1), make([]bool, n)
	isEx := map[common.Address]bool{}
	for _, x := range a.ex {
		isEx[x] = true
	}
	type dyn struct {
		static int // static frame index, -1 = leaf / internal
		next   int // next call step to match
	}
	ds := make([]dyn, len(tr.Frames))
	set := func(slot int, err string) {
		if err == "" {
			fate[slot] = "ok"
		} else {
			fate[slot] = err
			if err == "out of gas" {
				oog[slot-1] = true
			}
		}
	}
	for i, fr := range tr.Frames {
		if fr.Parent < 0 {
			ds[i] = dyn{static: 0}
			set(c.Frames[0].ID, fr.Err)
			continue
		}
		par := &ds[fr.Parent]
		if par.static < 0 {
			ds[i] = dyn{static: -1}
			continue
		}
		// the next call step of the parent's static frame
		steps := c.Frames[par.static].Steps
		for par.next < len(steps) && (steps[par.next].T == "rev" || steps[par.next].T == "inv") {
			par.next++
		}
		if par.next >= len(steps) {
			panic(fmt.Sprintf("trace has more calls than the program: %+v", tr.Frames))
		}
		s := steps[par.next]
		par.next++
		if s.T == "sub" {
			pcenv.Mustf(isEx[fr.To], "sub step went to %s", fr.To)
			ds[i] = dyn{static: s.K - 1}
		} else {
			ds[i] = dyn{static: -1}
		}
		set(s.ID, fr.Err)
	}
	return fate, oog
}

// dropSet: the slots whose frames did not complete (the twin program omits them); slot 0 = root failed.
func dropSet(c Case, fate []string) map[int]bool {
	drop := map[int]bool{}
	for slot := 1; slot < len(fate); slot++ {
		if fate[slot] != "ok" {
			drop[slot] = true
		}
	}
	if fate[c.Frames[0].ID] != "ok" {
		drop[0] = true
	}
	return drop
}

func patKey(oog []bool) string {
	b := make([]byte, len(oog))
	for i, x := range oog {
		b[i] = '0'
		if x {
			b[i] = '1'
		}
	}
	return string(b)
}

// ---------------------------------------------------------------------------------------------
// gas profile

type CutClass struct {
	Oog []bool   `json:"oog"`
	L   []uint64 `json:"L"`
}
type CaseCuts struct {
	Intrinsic uint64     `json:"intrinsic"` // smallest gas limit the transaction is executed with
	Ample     uint64     `json:"ample"`     // gas used with ample gas
	Classes   []CutClass `json:"classes"`
	Probed    int        `json:"probed"`
	Panics    bool       `json:"panics"` // the ample-gas execution is aborted by a panic
}

// trace runs the case's message (user -> executor 0) with gas limit `gas` on a throw-away branch of ctx under the
// frame tracer (same message fields as world.EthTx / pcenv.TraceMsg).  panicked: the execution was aborted by a
// Go panic of the application (baseapp fails such a transaction and discards everything); the trace is then
// PARTIAL - the opcodes up to the aborting call and the frames completed before it (frames still open have no
// fate).
func (a *Adapter) trace(ctx sdk.Context, data []byte, gas uint64) (tr *pcenv.Trace, panicked bool, err error) {
	cctx, _ := ctx.CacheContext()
	to := a.ex[0]
	msg := &core.Message{From: a.userA, To: &to, Nonce: a.W.App.EvmKeeper.GetNonce(cctx, a.userA), Value: big.NewInt(0), GasLimit: gas,
		GasPrice: big.NewInt(0), GasFeeCap: big.NewInt(0), GasTipCap: big.NewInt(0), Data: data, AccessList: ethtypes.AccessList{}}
	tr = &pcenv.Trace{Free: map[common.Address]bool{pcenv.StakingAddr: true, pcenv.CrosschainAddr: true}}
	var res *evmtypes.MsgEthereumTxResponse
	func() {
		defer func() {
			if r := recover(); r != nil {
				panicked = true
				if a.debug {
					fmt.Printf("DEBUG gas=%d: execution aborted by panic: %v\n", gas, r)
				}
			}
		}()
		res, err = a.W.App.EvmKeeper.ApplyMessage(cctx, msg, tr, false)
	}()
	if panicked {
		return tr, true, nil
	}
	if err != nil {
		return nil, false, err
	}
	tr.VmError, tr.GasUsed, tr.Failed = res.VmError, res.GasUsed, res.Failed()
	return tr, false, nil
}

// Profile measures the out-of-gas classes of one case on the root world.
func (a *Adapter) Profile(id string) *CaseCuts {
	if cc, ok := a.cuts[id]; ok {
		return cc
	}
	c := a.Cases[id]
	data := a.build(c, 0, 0, nil).Encode()
	// with ample gas; when the execution is aborted by a panic the profile covers the gas limits up to the
	// aborting call (beyond it every limit behaves like ample gas)
	full, pan, err := a.trace(a.root, data, ampleGas)
	pcenv.Must(err)
	_, oog0 := a.fates(c, full)
	pcenv.Mustf(patKey(oog0) == strings.Repeat("0", len(oog0)), "case %s runs out of gas with ample gas: %+v", id, full.Frames)
	cc := &CaseCuts{Panics: pan}
	// intrinsic gas: smallest limit that is not refused
	lo, hi := uint64(20_000), uint64(21_000+16*len(data)+1)
	for lo+1 < hi {
		mid := (lo + hi) / 2
		if _, _, err := a.trace(a.root, data, mid); err != nil {
			lo = mid
		} else {
			hi = mid
		}
	}
	cc.Intrinsic = hi
	used := full.Ops[len(full.Ops)-1].Cum + full.Ops[len(full.Ops)-1].Cost
	cc.Ample = used
	cand := map[uint64]bool{cc.Intrinsic: true}
	add := func(l uint64) {
		if l >= cc.Intrinsic && l <= used+2000 {
			cand[l] = true
		}
	}
	near := make([]bool, len(full.Ops))
	for i, o := range full.Ops {
		if o.Call {
			for j := i - 3; j <= i+3; j++ {
				if j >= 0 && j < len(near) {
					near[j] = true
				}
			}
		}
	}
	for i, o := range full.Ops {
		if a.C.CutMode != "all" && !near[i] && i%8 != 0 && i != len(full.Ops)-1 {
			continue
		}
		// limit = (cumulative gas before the opcode) - 1: the run dies no later than at the previous opcode;
		// for call opcodes also the limits that just pay / just do not pay for the call itself
		add(o.Cum - 1)
		if o.Call {
			add(o.Cum)
			add(o.Cum + o.Cost - 1)
			add(o.Cum + o.Cost)
		}
	}
	add(used)
	add(used + 1000)
	ls := make([]uint64, 0, len(cand))
	for l := range cand {
		ls = append(ls, l)
	}
	sort.Slice(ls, func(i, j int) bool { return ls[i] < ls[j] })
	pat := map[uint64]string{}
	pats := map[string][]bool{}
	probe := func(l uint64) string {
		if p, ok := pat[l]; ok {
			return p
		}
		tr, _, err := a.trace(a.root, data, l)
		pcenv.Must(err)
		_, oog := a.fates(c, tr)
		k := patKey(oog)
		pat[l], pats[k] = k, oog
		cc.Probed++
		return k
	}
	for _, l := range ls {
		probe(l)
	}
	if a.C.CutMode == "all" {
		// refine: between neighbouring limits with different fates find the exact boundary
		for i := 0; i+1 < len(ls); i++ {
			lo, hi := ls[i], ls[i+1]
			for probe(lo) != probe(hi) && lo+1 < hi {
				mid := (lo + hi) / 2
				if probe(mid) == probe(lo) {
					lo = mid
				} else {
					hi = mid
				}
			}
		}
	}
	by := map[string][]uint64{}
	for l, k := range pat {
		by[k] = append(by[k], l)
	}
	keys := make([]string, 0, len(by))
	for k := range by {
		keys = append(keys, k)
	}
	sort.Strings(keys)
	for _, k := range keys {
		if !strings.Contains(k, "1") {
			continue // sufficient gas: the ample-gas operation
		}
		l := by[k]
		sort.Slice(l, func(i, j int) bool { return l[i] < l[j] })
		cc.Classes = append(cc.Classes, CutClass{Oog: pats[k], L: l})
	}
	a.cuts[id] = cc
	return cc
}

// ---------------------------------------------------------------------------------------------
// Apply

func (a *Adapter) loadCuts() {
	if a.C.Cuts == "" || len(a.cuts) > 0 {
		return
	}
	raw, err := os.ReadFile(a.C.Cuts)
	if err != nil {
		return // no cache: profiled lazily
	}
	pcenv.Must(json.Unmarshal(raw, &a.cuts))
}

func logsOf(res *evmtypes.MsgEthereumTxResponse) string {
	var sb strings.Builder
	for _, l := range res.Logs {
		fmt.Fprintf(&sb, "%s|%v|%x;", l.Address, l.Topics, l.Data)
	}
	return sb.String()
}

// dump: complete multistore content without the harness-private keys; `skipSeq` additionally blanks the
// sender's account record (nonce).
func (a *Adapter) dump(ctx sdk.Context) map[string][]string {
	d := a.W.Dump(ctx)
	lines := d[pcenv.Chain]
	out := lines[:0:0]
	for _, l := range lines {
		if !strings.HasPrefix(l, "fe") {
			out = append(out, l)
		}
	}
	d[pcenv.Chain] = out
	return d
}

// one executes the case with gas limit L on a branch of ctx and evaluates the real-state oracles.
func (a *Adapter) one(ctx sdk.Context, id string, c Case, data []byte, gas uint64, twinDump map[string][]string, twinLogs string, pre map[string][]string) (sdk.Context, *priv, string) {
	br, _ := ctx.CacheContext()
	res, err := a.W.EthTx(br, a.user, &a.ex[0], nil, gas, data)
	if err != nil {
		return br, nil, err.Error()
	}
	p := &priv{Case: id, Status: "success", Ntx: a.getPriv(ctx).Ntx + 1}
	if res.Failed() {
		p.Status = "failed"
	}
	post := a.dump(br)
	if diff := world.DiffDump(twinDump, post); len(diff) > 0 {
		p.Leak = true
		if a.debug {
			fmt.Printf("DEBUG %s gas=%d: dump differs from the kept-frames twin: %v\n", id, gas, diff[:min(len(diff), 6)])
		}
	}
	if l := logsOf(res); l != twinLogs {
		p.Leak = true
		if a.debug {
			fmt.Printf("DEBUG %s gas=%d: logs differ from the twin's:\n %s\n %s\n", id, gas, l, twinLogs)
		}
	}
	if res.Failed() {
		// failed transaction: the complete dump is the one before (keeper-level execution: no fee, and the
		// sender's sequence is the ante handler's business)
		for _, d := range world.DiffDump(pre, post) {
			p.Leak = true
			if a.debug {
				fmt.Printf("DEBUG %s gas=%d: failed transaction changed %s\n", id, gas, d)
			}
		}
		if len(res.Logs) > 0 {
			p.Leak = true
		}
	}
	o := a.observe(br)
	p.Split = a.splitCheck(o, c)
	a.putPriv(br, p)
	p.proj = graph.CanonV(a.projectWith(p, o))
	return br, p, ""
}

// twin: the transaction reduced to the frames the tracer reports as completed, with ample gas.
func (a *Adapter) twin(ctx sdk.Context, c Case, fate []string) (map[string][]string, string) {
	br, _ := ctx.CacheContext()
	data := a.build(c, 0, 0, dropSet(c, fate)).Encode()
	res, err := a.W.EthTx(br, a.user, &a.ex[0], nil, ampleGas, data)
	pcenv.Must(err)
	pcenv.Mustf(!res.Failed(), "the kept-frames twin fails: %s", res.VmError)
	return a.dump(br), logsOf(res)
}

func (a *Adapter) Apply(ctx sdk.Context, op graph.Op) (sdk.Context, string) {
	id := op.Str("p")
	c, ok := a.Cases[id]
	pcenv.Mustf(ok, "unknown case %s", id)
	data := a.build(c, 0, 0, nil).Encode()
	switch op.Name() {
	case "RunProgram":
		tr, pan, err := a.trace(ctx, data, ampleGas)
		pcenv.Must(err)
		if pan {
			// the application aborts the transaction: it must not be executed, nothing may be written
			_, p, e := a.one(ctx, id, c, data, ampleGas, nil, "", nil)
			pcenv.Mustf(p == nil, "%s: the traced run panicked, the transaction did not", id)
			if a.debug {
				fmt.Println("DEBUG", id, e)
			}
			return ctx, "rej"
		}
		fate, _ := a.fates(c, tr)
		td, tl := a.twin(ctx, c, fate)
		br, p, e := a.one(ctx, id, c, data, ampleGas, td, tl, a.dump(ctx))
		if p == nil {
			if a.debug {
				fmt.Println("DEBUG", id, e)
			}
			return ctx, "rej"
		}
		if a.debug {
			fmt.Printf("DEBUG %s: %s fates=%v\n", id, p.Status, fate[1:])
		}
		return br, "ok"
	case "Intrinsic":
		cc := a.cutsOf(id)
		br, p, _ := a.one(ctx, id, c, data, cc.Intrinsic-1, nil, "", a.dump(ctx))
		if p == nil {
			return ctx, "rej"
		}
		return br, "ok"
	case "RunProgramGas":
		raw, _ := op["c"].([]any)
		want := make([]bool, len(raw))
		for i, x := range raw {
			want[i], _ = x.(bool)
		}
		cc := a.cutsOf(id)
		var ls []uint64
		for _, cl := range cc.Classes {
			if patKey(cl.Oog) == patKey(want) {
				ls = cl.L
			}
		}
		if len(ls) == 0 {
			if a.debug {
				fmt.Printf("DEBUG %s: no gas limit realises pattern %s\n", id, patKey(want))
			}
			return ctx, "rej"
		}
		if a.C.CutMode != "all" && len(ls) > 5 {
			ls = []uint64{ls[0], ls[len(ls)/4], ls[len(ls)/2], ls[3*len(ls)/4], ls[len(ls)-1]}
		}
		pre := a.dump(ctx)
		var out sdk.Context
		var first string
		var tdump map[string][]string
		var tlogs, fkey string
		mixed := false
		nok, npan := 0, 0
		for _, l := range ls {
			tr, pan, err := a.trace(ctx, data, l)
			pcenv.Must(err)
			fate, oog := a.fates(c, tr)
			if patKey(oog) != patKey(want) {
				panic(fmt.Sprintf("%s gas %d: pattern %s, profiled %s", id, l, patKey(oog), patKey(want)))
			}
			if pan {
				_, p, _ := a.one(ctx, id, c, data, l, nil, "", nil)
				pcenv.Mustf(p == nil, "%s gas %d: the traced run panicked, the transaction did not", id, l)
				npan++
				continue
			}
			if fk := strings.Join(fate, ","); fk != fkey {
				// fates beyond out-of-gas are static (REVERT/INVALID/designed failures): equal within a class,
				// except for frames not reached; recompute the twin when they differ
				tdump, tlogs = a.twin(ctx, c, fate)
				fkey = fk
			}
			br, p, e := a.one(ctx, id, c, data, l, tdump, tlogs, pre)
			pcenv.Mustf(p != nil, "%s gas %d: %s", id, l, e)
			pcenv.Mustf((p.Status == "failed") == tr.Failed, "%s gas %d: traced run and transaction disagree", id, l)
			s := p.proj
			nok++
			if nok == 1 {
				first, out = s, br
			} else if s != first {
				mixed = true
				if a.debug {
					fmt.Printf("DEBUG %s pattern %s: gas %d gives %s, gas %d gave %s\n", id, patKey(want), l, s, ls[0], first)
				}
			}
		}
		if nok == 0 {
			// every gas limit of the class reaches the panicking action: the transaction is aborted
			return ctx, "rej"
		}
		if npan > 0 {
			mixed = true // the same out-of-gas pattern with and without an abort: not a function of the pattern
		}
		if mixed {
			p := a.getPriv(out)
			p.Mixed = true
			a.putPriv(out, p)
		}
		return out, "ok"
	}
	panic("unknown op " + op.Name())
}

func (a *Adapter) cutsOf(id string) *CaseCuts {
	a.loadCuts()
	if cc, ok := a.cuts[id]; ok {
		return cc
	}
	return a.Profile(id)
}

// ---------------------------------------------------------------------------------------------
// observation of the real stores

type obs struct {
	shares  map[string]sdkmath.LegacyDec // addr/val -> shares
	ubd     map[string]sdkmath.Int       // addr/val -> sum of unbonding entry balances
	red     map[string]sdkmath.Int       // addr/val -> sum of redelegation entry initial balances (to validator 4)
	allow   map[string]*big.Int          // val/owner/spender
	start   map[string]string            // val/addr -> starting info (period, height)
	pool    map[uint64][2]sdkmath.Int    // pool tx id -> amount, fee
	poolSnd map[uint64]string
	calls   map[uint64]sdkmath.Int // outgoing bridge call nonce -> token amount
	pending map[uint64]bool
	tok     map[string]*big.Int // ERC-20 balances
	supply  *big.Int
	nonce   uint64
	nextTx  uint64
	nextBC  uint64
}

func (a *Adapter) holders() []common.Address {
	return []common.Address{a.ex[0], a.ex[1], a.ex[2], a.ownerA, a.owner2A, a.recv, a.recvC, a.spender, a.sinkE}
}

// allowPairs: the spenders whose allowance from owner h is part of the observation (everything else is
// covered by the dump comparison).
func (a *Adapter) allowPairs(h common.Address) []common.Address {
	switch h {
	case a.ownerA, a.owner2A:
		return a.ex[:]
	case a.ex[0], a.ex[1], a.ex[2]:
		return []common.Address{a.spender}
	}
	return nil
}

func (a *Adapter) observe(ctx sdk.Context) *obs {
	w, e := a.W, a.E
	o := &obs{shares: map[string]sdkmath.LegacyDec{}, ubd: map[string]sdkmath.Int{}, red: map[string]sdkmath.Int{}, allow: map[string]*big.Int{},
		start: map[string]string{}, pool: map[uint64][2]sdkmath.Int{}, poolSnd: map[uint64]string{}, calls: map[uint64]sdkmath.Int{}, pending: map[uint64]bool{}, tok: map[string]*big.Int{}}
	cdc := w.App.AppCodec()
	for _, h := range a.holders() {
		acc := sdk.AccAddress(h.Bytes())
		for k := 0; k < 4; k++ {
			v := e.Val[k]
			key := fmt.Sprintf("%s/%d", h.Hex(), k)
			if d, err := w.App.StakingKeeper.GetDelegation(ctx, acc, v); err == nil {
				o.shares[key] = d.Shares
			} else {
				o.shares[key] = sdkmath.LegacyZeroDec()
			}
			sum := sdkmath.ZeroInt()
			if u, err := w.App.StakingKeeper.GetUnbondingDelegation(ctx, acc, v); err == nil {
				for _, en := range u.Entries {
					sum = sum.Add(en.Balance)
				}
			}
			o.ubd[key] = sum
			sum = sdkmath.ZeroInt()
			if r, err := w.App.StakingKeeper.GetRedelegation(ctx, acc, v, e.Val[3]); err == nil {
				for _, en := range r.Entries {
					sum = sum.Add(en.InitialBalance)
				}
			}
			o.red[key] = sum
			if si, err := w.App.DistrKeeper.GetDelegatorStartingInfo(ctx, v, acc); err == nil {
				o.start[key] = fmt.Sprintf("%d/%d", si.PreviousPeriod, si.Height)
			}
			for _, s := range a.allowPairs(h) {
				o.allow[fmt.Sprintf("%d/%s/%s", k, h.Hex(), s.Hex())] = w.App.StakingKeeper.GetAllowance(ctx, v, acc, s.Bytes())
			}
		}
		o.tok[h.Hex()] = e.TokenBalance(ctx, h)
	}
	o.supply = e.TokenSupply(ctx)
	st := ctx.KVStore(a.skey)
	it := storetypes.KVStorePrefixIterator(st, cctypes.OutgoingTxPoolKey)
	for ; it.Valid(); it.Next() {
		var tx cctypes.OutgoingTransferTx
		cdc.MustUnmarshal(it.Value(), &tx)
		o.pool[tx.Id] = [2]sdkmath.Int{tx.Token.Amount, tx.Fee.Amount}
		o.poolSnd[tx.Id] = tx.Sender
	}
	it.Close()
	it = storetypes.KVStorePrefixIterator(st, cctypes.OutgoingBridgeCallNonceKey)
	for ; it.Valid(); it.Next() {
		var oc cctypes.OutgoingBridgeCall
		cdc.MustUnmarshal(it.Value(), &oc)
		sum := sdkmath.ZeroInt()
		for _, t := range oc.Tokens {
			sum = sum.Add(t.Amount)
		}
		o.calls[oc.Nonce] = sum
	}
	it.Close()
	for _, n := range a.claims {
		o.pending[n] = st.Has(cctypes.GetPendingExecuteClaimKey(n))
	}
	o.nonce = w.App.EvmKeeper.GetNonce(ctx, a.userA)
	o.nextTx, o.nextBC = a.seq(ctx, cctypes.KeyLastTxPoolID), a.seq(ctx, cctypes.KeyLastBridgeCallID)
	return o
}

const bad = -777

func ratio(delta, unit sdkmath.Int) int64 {
	if delta.IsNegative() || !delta.Mod(unit).IsZero() {
		return bad
	}
	q := delta.Quo(unit)
	if !q.IsInt64() || q.Int64() > 100 {
		return bad
	}
	return q.Int64()
}

// count: how often native effect k (realised by method m) is persisted, read from the stores.
func (a *Adapter) count(b, o *obs, m string, k int) int64 {
	unit := sdkmath.NewIntFromBigInt(amt(k))
	kk := k - 1
	sumEx := func(f func(x common.Address, key string) sdkmath.Int) sdkmath.Int {
		s := sdkmath.ZeroInt()
		for _, x := range a.ex {
			s = s.Add(f(x, fmt.Sprintf("%s/%d", x.Hex(), kk)))
		}
		return s
	}
	key := func(h common.Address) string { return fmt.Sprintf("%s/%d", h.Hex(), kk) }
	switch m {
	case "delegateV2":
		return ratio(sumEx(func(x common.Address, key string) sdkmath.Int { return o.shares[key].Sub(b.shares[key]).TruncateInt() }), unit)
	case "undelegateV2":
		n := ratio(sumEx(func(x common.Address, key string) sdkmath.Int { return o.ubd[key].Sub(b.ubd[key]) }), unit)
		if n != ratio(sumEx(func(x common.Address, key string) sdkmath.Int { return b.shares[key].Sub(o.shares[key]).TruncateInt() }), unit) {
			return bad
		}
		return n
	case "redelegateV2":
		n := ratio(sumEx(func(x common.Address, key string) sdkmath.Int { return o.red[key].Sub(b.red[key]) }), unit)
		if n != ratio(sumEx(func(x common.Address, key string) sdkmath.Int { return b.shares[key].Sub(o.shares[key]).TruncateInt() }), unit) {
			return bad
		}
		return n
	case "withdraw":
		n := int64(0)
		for _, x := range a.ex {
			if o.start[key(x)] != b.start[key(x)] {
				n++
			}
		}
		return n
	case "approveShares":
		s := sdkmath.ZeroInt()
		for _, x := range a.ex {
			ak := fmt.Sprintf("%d/%s/%s", kk, x.Hex(), a.spender.Hex())
			s = s.Add(sdkmath.NewIntFromBigInt(new(big.Int).Sub(o.allow[ak], b.allow[ak])))
		}
		return ratio(s, unit)
	case "transferShares":
		n := ratio(o.shares[key(a.recv)].Sub(b.shares[key(a.recv)]).TruncateInt(), unit)
		if n != ratio(sumEx(func(x common.Address, key string) sdkmath.Int { return b.shares[key].Sub(o.shares[key]).TruncateInt() }), unit) {
			return bad
		}
		return n
	case "transferFromShares":
		n := ratio(o.shares[key(a.recv)].Sub(b.shares[key(a.recv)]).TruncateInt(), unit)
		if n != ratio(b.shares[key(a.ownerA)].Sub(o.shares[key(a.ownerA)]).TruncateInt(), unit) {
			return bad
		}
		s := sdkmath.ZeroInt()
		for _, x := range a.ex {
			ak := fmt.Sprintf("%d/%s/%s", kk, a.ownerA.Hex(), x.Hex())
			s = s.Add(sdkmath.NewIntFromBigInt(new(big.Int).Sub(b.allow[ak], o.allow[ak])))
		}
		if n != ratio(s, unit) { // the allowance went down by exactly what was moved
			return bad
		}
		return n
	case "crossChain", "crossChainFX":
		n := int64(0)
		for id, af := range o.pool {
			if id >= b.nextTx && af[0].Equal(unit) {
				n++
			}
		}
		return n
	case "bridgeCall":
		n := int64(0)
		for id, v := range o.calls {
			if _, old := b.calls[id]; !old && v.Equal(unit) {
				n++
			}
		}
		return n
	case "cancelSendToExternal":
		n := int64(0)
		for x := range a.ex {
			if _, there := o.pool[a.txCan[x][kk]]; !there {
				n++
			}
		}
		return n
	case "increaseBridgeFee":
		// the fee of the executors' top-up transactions grew by the sum of distinct powers of two
		s := sdkmath.ZeroInt()
		for x := range a.ex {
			cur, there := o.pool[a.txFee[x]]
			if !there {
				return bad
			}
			s = s.Add(cur[1].Sub(b.pool[a.txFee[x]][1]))
		}
		u := sdkmath.NewIntFromBigInt(pcenv.Units(1))
		if s.IsNegative() || !s.Mod(u).IsZero() || !s.Quo(u).IsInt64() || s.Quo(u).Int64() >= 1<<MaxNat {
			return bad
		}
		return (s.Quo(u).Int64() >> kk) & 1
	case "executeClaim":
		if b.pending[a.claims[kk]] && !o.pending[a.claims[kk]] {
			return 1
		}
		return 0
	}
	panic("method " + m)
}

// splitCheck: the ERC-20 side agrees with the persisted native effects: every executor's token balance and
// the total supply moved by exactly what the persisted effects (native and EVM) of that executor account for.
func (a *Adapter) splitCheck(o *obs, c Case) bool {
	b := a.base
	u := pcenv.Unit.BigInt()
	split := false
	supplyDelta := new(big.Int)
	var walk func(f, d int)
	exp := [nEx]*big.Int{new(big.Int), new(big.Int), new(big.Int)}
	walk = func(f, d int) {
		for _, s := range c.Frames[f].Steps {
			switch s.T {
			case "sub":
				walk(s.K-1, d+1)
			case "evm":
				n := evmCount(b, o, a.sinkE, s.K)
				if n == 1 {
					exp[d].Sub(exp[d], amt(s.K))
				}
			case "nat":
				if s.Fail != "no" {
					continue
				}
				m := c.Methods[s.K-1]
				if a.count(b, o, m, s.K) != 1 {
					continue
				}
				switch m {
				case "crossChain":
					t := new(big.Int).Add(amt(s.K), new(big.Int).Mul(big.NewInt(feeUnits), u))
					exp[d].Sub(exp[d], t)
					supplyDelta.Sub(supplyDelta, t)
				case "bridgeCall":
					exp[d].Sub(exp[d], amt(s.K))
					supplyDelta.Sub(supplyDelta, amt(s.K))
				case "cancelSendToExternal":
					t := new(big.Int).Add(amt(s.K), new(big.Int).Mul(big.NewInt(feeUnits), u))
					exp[d].Add(exp[d], t)
					supplyDelta.Add(supplyDelta, t)
				}
			}
		}
	}
	walk(0, 0)
	for i, x := range a.ex {
		got := new(big.Int).Sub(o.tok[x.Hex()], b.tok[x.Hex()])
		if got.Cmp(exp[i]) != 0 {
			split = true
			if a.debug {
				fmt.Printf("DEBUG split: executor %d token balance moved by %s, persisted effects account for %s\n", i, got, exp[i])
			}
		}
	}
	if got := new(big.Int).Sub(o.supply, b.supply); got.Cmp(supplyDelta) != 0 {
		split = true
		if a.debug {
			fmt.Printf("DEBUG split: token supply moved by %s, persisted effects account for %s\n", got, supplyDelta)
		}
	}
	return split
}

func evmCount(b, o *obs, sink common.Address, j int) int64 {
	d := new(big.Int).Sub(o.tok[sink.Hex()], b.tok[sink.Hex()])
	u := pcenv.Unit.BigInt()
	if d.Sign() < 0 || new(big.Int).Mod(d, u).Sign() != 0 {
		return bad
	}
	q := new(big.Int).Quo(d, u)
	if !q.IsInt64() || q.Int64() >= 1<<MaxEvm {
		return bad
	}
	return (q.Int64() >> (j - 1)) & 1
}

// Project implements graph.Adapter: Frames.tla's Abs.
func (a *Adapter) Project(ctx sdk.Context) any {
	return a.projectWith(a.getPriv(ctx), a.observe(ctx))
}

func (a *Adapter) projectWith(p *priv, o *obs) any {
	b := a.base
	nat := make([]int64, MaxNat)
	evm := make([]int64, MaxEvm)
	if c, ok := a.Cases[p.Case]; ok {
		for k := 1; k <= MaxNat; k++ {
			nat[k-1] = a.count(b, o, c.Methods[k-1], k)
		}
	} else {
		// no transaction yet: nothing may differ from the provisioned world, whatever the method
		for k := 1; k <= MaxNat; k++ {
			for _, m := range append(append([]string{}, pcenv.StakingMethods...), pcenv.CrosschainMethods...) {
				if n := a.count(b, o, m, k); n != 0 {
					nat[k-1] = bad
				}
			}
		}
	}
	for j := 1; j <= MaxEvm; j++ {
		evm[j-1] = evmCount(b, o, a.sinkE, j)
	}
	if p.Mixed {
		nat[0] = bad
	}
	return map[string]any{"nat": nat, "evm": evm, "status": p.Status, "ntx": p.Ntx, "leak": p.Leak, "split": p.Split}
}

var _ = distrtypes.ModuleName
var _ = fxtypes.DefaultDenom
