// Package graph replays a TLC-generated labelled transition graph on the real application.
//
// Input: the stdout of a TLC run whose ACTION_CONSTRAINT prints every explored transition as
//
//	<<"EDGE", "{\"from\":…,\"op\":…,\"to\":…}">>
//
// (see spec/*_gen.cfg).  from/to are the specification's abstract state (operator Abs), op is the
// operation just attempted including the specification's result class op.res ∈ {"ok","rej"}.
//
// The walk is a depth-first traversal of the breadth-first spanning tree: every abstract state
// gets one real representative (a CacheContext branch of the chain's multistore); every outgoing
// edge is executed on a fresh branch; the real stores are projected back to the abstract state
// and compared with the edge's target.  A disagreement is a *deviation*: the real step is written
// to the trace file and the real behaviour is explored a few more steps from the deviating
// state with the same operation alphabet; TLC then evaluates the property formulas of the
// specification on these real behaviours (bin/check.py), which is what decides the verdict.
package graph

import (
	"bufio"
	"crypto/sha1"
	"encoding/json"
	"fmt"
	"hash/fnv"
	"os"
	"sort"
	"strings"

	sdk "github.com/cosmos/cosmos-sdk/types"
)

type Op map[string]any

func (o Op) Name() string { s, _ := o["name"].(string); return s }
func (o Op) Res() string  { s, _ := o["res"].(string); return s }
func (o Op) Str(k string) string {
	s, _ := o[k].(string)
	return s
}
func (o Op) Int(k string) int64 {
	switch v := o[k].(type) {
	case float64:
		return int64(v)
	case int64:
		return v
	case int:
		return int64(v)
	case json.Number:
		n, _ := v.Int64()
		return n
	}
	return 0
}

type Edge struct {
	From string // canonical JSON
	To   string
	Op   Op
	OpS  string // canonical JSON of Op without res
}

type Graph struct {
	Init string
	// Expanded: states TLC expanded (they carry a Probe self-loop); other states are the frontier
	// cut off by the CONSTRAINT and are not expanded by the replayer either.
	Expanded map[string]bool
	Out      map[string][]*Edge
	Order    []string // states in first-seen order
	N        int
	// Alphabet is the set of distinct operations (without res) in first-seen order.
	Alphabet []Op
}

// Canon re-marshals JSON with sorted keys.
func Canon(raw []byte) (string, error) {
	var v any
	if err := json.Unmarshal(raw, &v); err != nil {
		return "", err
	}
	b, err := json.Marshal(v)
	return string(b), err
}

func CanonV(v any) string {
	b, err := json.Marshal(v)
	if err != nil {
		panic(err)
	}
	s, err := Canon(b)
	if err != nil {
		panic(err)
	}
	return s
}

// unquoteTLA turns the TLC rendering of a string value into the string.
func unquoteTLA(s string) string {
	var b strings.Builder
	for i := 0; i < len(s); i++ {
		if s[i] == '\\' && i+1 < len(s) {
			i++
			switch s[i] {
			case 'n':
				b.WriteByte('\n')
			case 't':
				b.WriteByte('\t')
			default:
				b.WriteByte(s[i])
			}
			continue
		}
		b.WriteByte(s[i])
	}
	return b.String()
}

// Load reads either TLC's raw output or the compact graph written by cmd/compile
// ({"s":id,"st":state} / {"e":[from,to],"op":op} lines).
func Load(path string) (*Graph, error) {
	f, err := os.Open(path)
	if err != nil {
		return nil, err
	}
	defer f.Close()
	g := &Graph{Out: map[string][]*Edge{}, Expanded: map[string]bool{}}
	seenEdge := map[[20]byte]bool{}
	seenOp := map[string]bool{}
	var states []string
	intern := map[string]string{}
	sc := bufio.NewScanner(f)
	sc.Buffer(make([]byte, 1<<20), 1<<26)
	const pfx = `<<"EDGE", "`
	add := func(from, to string, op Op) {
		if op.Name() == "Probe" {
			if _, ok := g.Out[from]; !ok {
				g.Order = append(g.Order, from)
				g.Out[from] = nil
			}
			g.Expanded[from] = true
			return
		}
		opNoRes := Op{}
		for k, v := range op {
			if k != "res" {
				opNoRes[k] = v
			}
		}
		ops := CanonV(opNoRes)
		if s, ok := intern[ops]; ok {
			ops = s
		} else {
			intern[ops] = ops
		}
		h := sha1.New()
		h.Write([]byte(from))
		h.Write([]byte{0})
		h.Write([]byte(ops))
		h.Write([]byte(op.Res()))
		h.Write([]byte(to))
		var key [20]byte
		copy(key[:], h.Sum(nil))
		if seenEdge[key] {
			return
		}
		seenEdge[key] = true
		if !seenOp[ops] {
			seenOp[ops] = true
			g.Alphabet = append(g.Alphabet, opNoRes)
		}
		if _, ok := g.Out[from]; !ok {
			g.Order = append(g.Order, from)
		}
		g.Out[from] = append(g.Out[from], &Edge{From: from, To: to, Op: op, OpS: ops})
		g.N++
	}
	for sc.Scan() {
		line := sc.Bytes()
		if len(line) > 5 && line[0] == '{' && line[2] == 's' {
			var rec struct {
				S  int             `json:"s"`
				St json.RawMessage `json:"st"`
			}
			if err := json.Unmarshal(line, &rec); err != nil {
				return nil, err
			}
			if rec.S != len(states) {
				return nil, fmt.Errorf("state ids out of order")
			}
			states = append(states, string(rec.St)) // already canonical
			continue
		}
		if len(line) > 5 && line[0] == '{' && line[2] == 'e' {
			var rec struct {
				E  [2]int `json:"e"`
				Op Op     `json:"op"`
			}
			if err := json.Unmarshal(line, &rec); err != nil {
				return nil, err
			}
			add(states[rec.E[0]], states[rec.E[1]], rec.Op)
			continue
		}
		text := string(line)
		if !strings.HasPrefix(text, pfx) || !strings.HasSuffix(text, `">>`) {
			continue
		}
		body := unquoteTLA(text[len(pfx) : len(text)-3])
		var rec struct {
			From json.RawMessage `json:"from"`
			To   json.RawMessage `json:"to"`
			Op   Op              `json:"op"`
		}
		if err := json.Unmarshal([]byte(body), &rec); err != nil {
			return nil, fmt.Errorf("bad EDGE line: %w: %s", err, body)
		}
		from, err := Canon(rec.From)
		if err != nil {
			return nil, err
		}
		to, err := Canon(rec.To)
		if err != nil {
			return nil, err
		}
		if s, ok := intern[from]; ok {
			from = s
		} else {
			intern[from] = from
		}
		if s, ok := intern[to]; ok {
			to = s
		} else {
			intern[to] = to
		}
		add(from, to, rec.Op)
	}
	if err := sc.Err(); err != nil {
		return nil, err
	}
	if g.Init == "" && len(g.Order) > 0 {
		g.Init = g.Order[0]
	}
	return g, nil
}

// okIndex builds, per state, op (without res) -> accepted edge.
func (g *Graph) okIndex() map[string]map[string]*Edge {
	idx := map[string]map[string]*Edge{}
	for from, es := range g.Out {
		for _, e := range es {
			if e.Op.Res() != "ok" {
				continue
			}
			if idx[from] == nil {
				idx[from] = map[string]*Edge{}
			}
			idx[from][e.OpS] = e
		}
	}
	return idx
}

// CheckDeterministic verifies that no two edges share (from, op) with different targets.
func (g *Graph) CheckDeterministic() error {
	for from, es := range g.Out {
		m := map[string]string{}
		for _, e := range es {
			if t, ok := m[e.OpS]; ok && t != e.To+e.Op.Res() {
				return fmt.Errorf("specification not deterministic at %s op %s", from, e.OpS)
			}
			m[e.OpS] = e.To + e.Op.Res()
		}
	}
	return nil
}

// Adapter binds one specification to the real application.
type Adapter interface {
	// Apply executes op on ctx (writing into it) and returns the real result class and the context
	// later operations continue from (normally ctx itself; a different block time/height otherwise).
	Apply(ctx sdk.Context, op Op) (sdk.Context, string)
	// Project reads the real stores into the specification's abstract state (JSON-able).
	Project(ctx sdk.Context) any
}

type Step struct {
	Op Op  `json:"op"` // includes the REAL result class in "res"
	St any `json:"st"`
}

type Stats struct {
	States, Edges, OkEdges, RejEdges int
	Deviations                       int
	ExtraSteps                       int
	ByOp                             map[string][2]int // name -> [ok, rej] as executed on the real code
	Samples                          []any
	FirstDeviation                   string
	Depth                            int
	Frontier                         int
}

type Options struct {
	// ExploreDepth: after a deviation, explore the real behaviour this many more steps (all ops).
	ExploreDepth  int
	ExploreBudget int
	// MaxDeviations stops the walk early (the traces so far are still evaluated).
	MaxDeviations int
	// TraceOut receives one JSON document per line: {"trace":[Step…], "why":…}
	TraceOut *os.File
	// Shard/Shards split the non-tree work among parallel processes.
	Shard, Shards int
	// RejSample: per state, how many operations the specification rejects are tried on the real
	// code (0 = all of them).  Chosen by a hash of (seed, state, op) so runs are reproducible.
	RejSample int
	Seed      int64
	// AfterEdge, if set, is called on the branch after every executed edge (extra real-state oracles).
	AfterEdge func(post sdk.Context, pre sdk.Context, op Op, res string) error
	// KeepOkTraces: also record this many conforming root-to-leaf real traces.
	KeepOkTraces int
}

type walker struct {
	g     *Graph
	ad    Adapter
	opt   Options
	st    Stats
	path  []Step
	okOut int
}

func withRes(op Op, res string) Op {
	o := Op{}
	for k, v := range op {
		o[k] = v
	}
	o["res"] = res
	return o
}

func pick(seed int64, state, op string, mod int) int {
	h := fnv.New64a()
	fmt.Fprintf(h, "%d|%s|%s", seed, state, op)
	return int(h.Sum64() % uint64(mod))
}

// Replay walks g from the real state root (which must project to g.Init).
func Replay(ad Adapter, root sdk.Context, g *Graph, opt Options) (Stats, error) {
	w := &walker{g: g, ad: ad, opt: opt}
	w.st.ByOp = map[string][2]int{}
	if opt.MaxDeviations == 0 {
		w.opt.MaxDeviations = 20
	}
	if w.opt.Shards == 0 {
		w.opt.Shards = 1
	}
	initReal := CanonV(ad.Project(root))
	if initReal != g.Init {
		return w.st, fmt.Errorf("initial state mismatch:\n real %s\n spec %s", initReal, g.Init)
	}
	okIdx := g.okIndex()
	// breadth-first spanning tree over accepted edges
	isTree := map[*Edge]bool{}
	depthOf := map[string]int{g.Init: 0}
	children := map[string][]string{}
	queue := []string{g.Init}
	for len(queue) > 0 {
		s := queue[0]
		queue = queue[1:]
		for _, e := range g.Out[s] {
			if e.Op.Res() != "ok" {
				continue
			}
			if _, seen := depthOf[e.To]; !seen {
				depthOf[e.To] = depthOf[s] + 1
				isTree[e] = true
				children[s] = append(children[s], e.To)
				queue = append(queue, e.To)
			}
		}
	}
	w.st.States = len(depthOf)
	// sharding by subtree: pick the first depth D with enough nodes; a shard owns the subtrees of the
	// depth-D nodes assigned to it and the shallower nodes assigned to it; it walks only the paths
	// leading to what it owns, so no real transition is executed by two shards except those paths.
	shards, shard := w.opt.Shards, w.opt.Shard
	splitDepth := 0
	if shards > 1 {
		count := map[int]int{}
		maxd := 0
		for _, d := range depthOf {
			count[d]++
			if d > maxd {
				maxd = d
			}
		}
		splitDepth = maxd
		for d := 0; d <= maxd; d++ {
			if count[d] >= shards*8 {
				splitDepth = d
				break
			}
		}
	}
	owner := func(state string) int {
		h := fnv.New64a()
		h.Write([]byte(state))
		x := h.Sum64()
		// FNV-1a's low bit is the parity of the input's low bits: mix before reducing
		x ^= x >> 33
		x *= 0xff51afd7ed558ccd
		x ^= x >> 33
		return int(x % uint64(shards))
	}
	need := map[string]bool{} // shallow states whose subtree contains something this shard owns
	if shards > 1 {
		var mark func(s string) bool
		mark = func(s string) bool {
			d := depthOf[s]
			if d >= splitDepth {
				need[s] = owner(s) == shard
				return need[s]
			}
			n := owner(s) == shard
			for _, c := range children[s] {
				if mark(c) {
					n = true
				}
			}
			need[s] = n
			return n
		}
		mark(g.Init)
	}
	nAlpha := len(g.Alphabet)
	var rec func(state string, ctx sdk.Context, depth int)
	rec = func(state string, ctx sdk.Context, depth int) {
		if depth > w.st.Depth {
			w.st.Depth = depth
		}
		pre := ad.Project(ctx)
		leaf := true
		if !g.Expanded[state] {
			w.st.Frontier++
			return
		}
		mine := shards <= 1 || depth > splitDepth || owner(state) == shard
		for _, op := range g.Alphabet {
			if w.st.Deviations >= w.opt.MaxDeviations {
				return
			}
			ops := CanonV(op)
			e := okIdx[state][ops]
			tree := e != nil && isTree[e]
			expRes, expTo := "rej", state
			if e != nil {
				expRes, expTo = "ok", e.To
			}
			descend := tree
			if tree && shards > 1 && depth < splitDepth && !need[e.To] {
				descend = false
			}
			if !mine && !descend {
				continue
			}
			if mine && !tree && e == nil && w.opt.RejSample > 0 && pick(w.opt.Seed, state, ops, nAlpha) >= w.opt.RejSample {
				continue
			}
			br, _ := ctx.CacheContext()
			br, res := ad.Apply(br, op)
			post := ad.Project(br)
			postS := CanonV(post)
			w.st.Edges++
			c := w.st.ByOp[op.Name()]
			if res == "ok" {
				w.st.OkEdges++
				c[0]++
			} else {
				w.st.RejEdges++
				c[1]++
			}
			w.st.ByOp[op.Name()] = c
			if len(w.st.Samples) < 4 && res == "ok" && w.st.OkEdges%37 == 1 {
				w.st.Samples = append(w.st.Samples, map[string]any{"from": pre, "op": withRes(op, res), "to": post})
			}
			step := Step{Op: withRes(op, res), St: post}
			var extraErr error
			if w.opt.AfterEdge != nil {
				extraErr = w.opt.AfterEdge(br, ctx, op, res)
			}
			if res != expRes || postS != expTo || extraErr != nil {
				if !mine {
					continue // the owner of this state reports it
				}
				w.st.Deviations++
				why := fmt.Sprintf("op %s: spec res=%s real res=%s; spec to=%s real to=%s", ops, expRes, res, expTo, postS)
				if extraErr != nil {
					why = "real-state oracle: " + extraErr.Error() + "; " + why
				}
				if w.st.FirstDeviation == "" {
					w.st.FirstDeviation = why
				}
				w.path = append(w.path, step)
				w.emit(why)
				w.explore(br, w.opt.ExploreDepth)
				w.path = w.path[:len(w.path)-1]
				continue
			}
			if descend {
				leaf = false
				w.path = append(w.path, step)
				rec(e.To, br, depth+1)
				w.path = w.path[:len(w.path)-1]
			}
		}
		if leaf && mine && w.okOut < w.opt.KeepOkTraces && len(w.path) > 0 {
			w.okOut++
			w.emit("")
		}
	}
	rec(g.Init, root, 0)
	return w.st, nil
}

func (w *walker) emit(why string) {
	if w.opt.TraceOut == nil {
		return
	}
	doc := map[string]any{"trace": w.path, "why": why}
	b, _ := json.Marshal(doc)
	w.opt.TraceOut.Write(append(b, '\n'))
}

// explore continues from a deviating real state with every operation of the alphabet, breadth-first
// over distinct real projected states, within a budget of real operations; the path to every new
// state is emitted as a trace (TLC evaluates the property formulas on all of them).
func (w *walker) explore(ctx sdk.Context, depth int) {
	if depth <= 0 {
		return
	}
	budget := w.opt.ExploreBudget
	if budget == 0 {
		budget = 6000
	}
	type node struct {
		ctx  sdk.Context
		path []Step
		d    int
	}
	base := append([]Step{}, w.path...)
	seen := map[string]bool{CanonV(w.ad.Project(ctx)): true}
	queue := []node{{ctx, base, 0}}
	saved := w.path
	defer func() { w.path = saved }()
	for len(queue) > 0 && budget > 0 {
		n := queue[0]
		queue = queue[1:]
		if n.d >= depth {
			continue
		}
		for _, op := range w.g.Alphabet {
			if budget <= 0 {
				break
			}
			br, _ := n.ctx.CacheContext()
			br, res := w.ad.Apply(br, op)
			post := w.ad.Project(br)
			ps := CanonV(post)
			w.st.ExtraSteps++
			budget--
			if seen[ps] {
				continue
			}
			seen[ps] = true
			p := append(append([]Step{}, n.path...), Step{Op: withRes(op, res), St: post})
			w.path = p
			w.emit("explore")
			queue = append(queue, node{br, p, n.d + 1})
		}
	}
}

// SortedOps renders ByOp deterministically.
func (s Stats) SortedOps() []string {
	var out []string
	for k, v := range s.ByOp {
		out = append(out, fmt.Sprintf("%s ok=%d rej=%d", k, v[0], v[1]))
	}
	sort.Strings(out)
	return out
}
