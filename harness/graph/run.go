package graph

import (
	"crypto/sha256"
	"encoding/hex"
	"encoding/json"
	"fmt"
	"os"
	"sort"
	"strconv"
	"testing"

	sdk "github.com/cosmos/cosmos-sdk/types"
)

func envInt(k string, def int) int {
	if s := os.Getenv(k); s != "" {
		if v, err := strconv.Atoi(s); err == nil {
			return v
		}
	}
	return def
}

// Const reads VERIF_CONST (JSON) into v.
func Const(v any) {
	s := os.Getenv("VERIF_CONST")
	if s == "" {
		panic("VERIF_CONST not set")
	}
	if err := json.Unmarshal([]byte(s), v); err != nil {
		panic(err)
	}
}

// RunReplay is the common body of every adapter's TestReplay: it loads VERIF_EDGES, walks the
// graph on the real application and writes VERIF_STATS (json) and VERIF_TRACES (ndjson of real
// behaviours that deviate from the specification, plus a few conforming ones).
// It never fails the test for a deviation: the verdict is taken by TLC evaluating the
// specification's property formulas on the recorded real behaviours (bin/check.py).
func RunReplay(t *testing.T, ad Adapter, root sdk.Context, after func(post, pre sdk.Context, op Op, res string) error) {
	g, err := Load(os.Getenv("VERIF_EDGES"))
	if err != nil {
		t.Fatalf("load edges: %v", err)
	}
	if err := g.CheckDeterministic(); err != nil {
		t.Fatalf("%v", err)
	}
	var out *os.File
	if p := os.Getenv("VERIF_TRACES"); p != "" {
		out, err = os.Create(p)
		if err != nil {
			t.Fatal(err)
		}
		defer out.Close()
	}
	seed := int64(envInt("VERIF_SEED", 1))
	st, err := Replay(ad, root, g, Options{
		ExploreDepth: envInt("VERIF_EXPLORE", 4), ExploreBudget: envInt("VERIF_EXPLORE_BUDGET", 6000), MaxDeviations: envInt("VERIF_MAXDEV", 3), TraceOut: out,
		Shard: envInt("VERIF_SHARD", 0), Shards: envInt("VERIF_SHARDS", 1), RejSample: envInt("VERIF_REJ_SAMPLE", 0),
		Seed: seed, AfterEdge: after, KeepOkTraces: envInt("VERIF_OKTRACES", 20),
	})
	res := map[string]any{
		"graph_states": len(g.Out), "graph_ok_edges": g.N, "alphabet": len(g.Alphabet),
		"states": st.States, "edges": st.Edges, "ok": st.OkEdges, "rej": st.RejEdges, "deviations": st.Deviations,
		"extra_steps": st.ExtraSteps, "by_op": st.SortedOps(), "samples": st.Samples, "first_deviation": st.FirstDeviation,
		"depth": st.Depth, "frontier": st.Frontier, "graph_expanded": len(g.Expanded),
	}
	if err != nil {
		res["error"] = err.Error()
	}
	b, _ := json.MarshalIndent(res, "", " ")
	if p := os.Getenv("VERIF_STATS"); p != "" {
		if e := os.WriteFile(p, b, 0o644); e != nil {
			t.Fatal(e)
		}
	}
	fmt.Printf("replay: states=%d edges=%d ok=%d rej=%d deviations=%d extra=%d\n", st.States, st.Edges, st.OkEdges, st.RejEdges, st.Deviations, st.ExtraSteps)
	if st.FirstDeviation != "" {
		fmt.Println("first deviation:", st.FirstDeviation)
	}
	if err != nil {
		t.Fatalf("replay infrastructure error: %v", err)
	}
}

// RunPath re-executes one recorded path (VERIF_PATH: JSON {"steps":[{"op":…},…]}) on the real
// application and writes the real behaviour to VERIF_TRACES (used by --replay).
func RunPath(t *testing.T, ad Adapter, root sdk.Context) {
	raw, err := os.ReadFile(os.Getenv("VERIF_PATH"))
	if err != nil {
		t.Fatal(err)
	}
	var doc struct {
		Steps []Step `json:"steps"`
	}
	if err := json.Unmarshal(raw, &doc); err != nil {
		t.Fatal(err)
	}
	out, err := os.Create(os.Getenv("VERIF_TRACES"))
	if err != nil {
		t.Fatal(err)
	}
	defer out.Close()
	ctx := root
	init := ad.Project(ctx)
	var path []Step
	for _, s := range doc.Steps {
		op := Op{}
		for k, v := range s.Op {
			if k != "res" {
				op[k] = v
			}
		}
		var res string
		ctx, res = ad.Apply(ctx, op)
		path = append(path, Step{Op: withRes(op, res), St: ad.Project(ctx)})
		fmt.Printf("step %v -> %s\n", op, res)
	}
	b, _ := json.Marshal(map[string]any{"trace": path, "why": "replay", "init": init})
	out.Write(append(b, '\n'))
}

// RunWalks executes VERIF_WALKS seeded random walks over the accepted edges of the graph in
// VERIF_EDGES on the real application and writes, per step, the operation, the real result class, a
// digest of the COMPLETE multistore content and a digest of the events emitted so far to VERIF_TRACES
// (ndjson).  Run in several independent processes, the files must be identical (C17).
func RunWalks(t *testing.T, ad Adapter, root sdk.Context, dump func(sdk.Context) string) {
	g, err := Load(os.Getenv("VERIF_EDGES"))
	if err != nil {
		t.Fatalf("load edges: %v", err)
	}
	out, err := os.Create(os.Getenv("VERIF_TRACES"))
	if err != nil {
		t.Fatal(err)
	}
	defer out.Close()
	nWalks, maxLen := envInt("VERIF_WALKS", 20), envInt("VERIF_WALKLEN", 12)
	base := uint64(envInt("VERIF_SEED", 1))*2654435761 + 12345
	seed := base
	next := func() uint64 { // xorshift64*: identical in every process
		seed ^= seed >> 12
		seed ^= seed << 25
		seed ^= seed >> 27
		return seed * 2685821657736338717
	}
	okIdx := g.okIndex()
	// VERIF_WALK_ORDER=rev executes the same walks in the opposite order: every walk runs on its own branch of the
	// same root state, so its result must not depend on what the PROCESS executed (and discarded) before
	rev := os.Getenv("VERIF_WALK_ORDER") == "rev"
	for i := 0; i < nWalks; i++ {
		wk := i
		if rev {
			wk = nWalks - 1 - i
		}
		seed = base + uint64(wk+1)*0x9E3779B97F4A7C15 // the walk's choices depend on its index only
		ctx, _ := root.CacheContext()
		ctx = ctx.WithEventManager(sdk.NewEventManager())
		state := g.Init
		for step := 0; step < maxLen; step++ {
			var cands []*Edge
			for _, e := range g.Out[state] {
				if e.Op.Res() == "ok" && okIdx[state][e.OpS] == e {
					cands = append(cands, e)
				}
			}
			if len(cands) == 0 {
				break
			}
			sort.Slice(cands, func(i, j int) bool { return cands[i].OpS < cands[j].OpS })
			e := cands[int(next()%uint64(len(cands)))]
			op := Op{}
			for k, v := range e.Op {
				if k != "res" {
					op[k] = v
				}
			}
			var res string
			ctx, res = ad.Apply(ctx, op)
			evs, _ := json.Marshal(ctx.EventManager().ABCIEvents())
			h := sha256.Sum256(evs)
			rec := map[string]any{"walk": wk, "step": step, "op": withRes(op, res), "state": dump(ctx), "events": hex.EncodeToString(h[:8]),
				"height": ctx.BlockHeight()}
			b, _ := json.Marshal(rec)
			out.Write(append(b, '\n'))
			if res != "ok" {
				break
			}
			state = e.To
		}
	}
}

// Bounder is implemented by adapters whose projection has fixed-size tables: the recorder does not
// attempt operations that would create an object beyond them.
type Bounder interface {
	WithinBounds(ctx sdk.Context, op Op) bool
}

// RunRecord drives the real application with seeded random operations drawn from the alphabet of the
// graph in VERIF_EDGES (generated with LARGER constants than the model-checking runs and zero
// budgets, so it holds just the initial state and every operation) and records the real behaviour:
// one ndjson document per walk {"trace":[{op (with the real result), st}…], "init": projection}.
// TLC then (a) validates each behaviour against the specification's own next-state relation
// (<X>Trace.tla) and (b) evaluates the property formulas on it (<X>Prop.tla).
func RunRecord(t *testing.T, ad Adapter, root sdk.Context) {
	g, err := Load(os.Getenv("VERIF_EDGES"))
	if err != nil {
		t.Fatalf("load edges: %v", err)
	}
	out, err := os.Create(os.Getenv("VERIF_TRACES"))
	if err != nil {
		t.Fatal(err)
	}
	defer out.Close()
	nWalks, maxLen := envInt("VERIF_WALKS", 10), envInt("VERIF_WALKLEN", 60)
	seed := uint64(envInt("VERIF_SEED", 1))*0x9E3779B97F4A7C15 + uint64(envInt("VERIF_SHARD", 0))*7919 + 1
	next := func() uint64 {
		seed ^= seed >> 12
		seed ^= seed << 25
		seed ^= seed >> 27
		return seed * 2685821657736338717
	}
	init := ad.Project(root)
	accepted := 0
	bounder, _ := ad.(Bounder)
	for wk := 0; wk < nWalks; wk++ {
		ctx, _ := root.CacheContext()
		var path []Step
		for step := 0; step < maxLen; step++ {
			// prefer operations the real code accepts: try up to 4 candidates on throw-away branches
			var op Op
			for try := 0; try < 4; try++ {
				op = g.Alphabet[int(next()%uint64(len(g.Alphabet)))]
				if bounder != nil && !bounder.WithinBounds(ctx, op) {
					try--
					continue
				}
				probe, _ := ctx.CacheContext()
				if _, r := ad.Apply(probe, op); r == "ok" {
					break
				}
			}
			var res string
			ctx, res = ad.Apply(ctx, op)
			if res == "ok" {
				accepted++
			}
			path = append(path, Step{Op: withRes(op, res), St: ad.Project(ctx)})
		}
		b, _ := json.Marshal(map[string]any{"trace": path, "why": "recorded", "init": init})
		out.Write(append(b, '\n'))
	}
	fmt.Printf("recorded %d walks of %d steps, %d accepted operations\n", nWalks, maxLen, accepted)
}
