package world

import (
	"crypto/sha256"
	"encoding/json"
	"testing"
	"time"

	sdkmath "cosmossdk.io/math"
	abci "github.com/cometbft/cometbft/abci/types"
	tmed25519 "github.com/cometbft/cometbft/crypto/ed25519"
	tmtypes "github.com/cometbft/cometbft/types"
	codectypes "github.com/cosmos/cosmos-sdk/codec/types"
	cryptocodec "github.com/cosmos/cosmos-sdk/crypto/codec"
	"github.com/cosmos/cosmos-sdk/crypto/keys/secp256k1"
	sdk "github.com/cosmos/cosmos-sdk/types"
	authtypes "github.com/cosmos/cosmos-sdk/x/auth/types"
	banktypes "github.com/cosmos/cosmos-sdk/x/bank/types"
	stakingtypes "github.com/cosmos/cosmos-sdk/x/staking/types"

	"github.com/functionx/fx-core/v8/app"
	"github.com/functionx/fx-core/v8/testutil/helpers"
	fxtypes "github.com/functionx/fx-core/v8/types"
)

// NewDet builds the same chain as New but from FIXED key material and genesis time, so that two
// processes produce byte-identical genesis states (needed to compare executions, C17).  It mirrors
// testutil/helpers.setupWithGenesisValSet with deterministic keys.
func NewDet(t *testing.T, nVal int) *W {
	cfgOnce.Do(func() { fxtypes.SetConfig(true) })
	w := &W{keys: map[string]*helpers.Signer{}}
	w.MintValNumber = nVal
	w.SetT(t)

	validators := make([]*tmtypes.Validator, nVal)
	genAccs := make(authtypes.GenesisAccounts, nVal)
	balances := make([]banktypes.Balance, nVal)
	initCoins := sdk.NewCoins(sdk.NewCoin(fxtypes.DefaultDenom, sdkmath.NewInt(10_000).MulRaw(1e18)))
	for i := 0; i < nVal; i++ {
		seed := sha256.Sum256([]byte{'v', 'a', 'l', byte(i)})
		validators[i] = tmtypes.NewValidator(tmed25519.GenPrivKeyFromSecret(seed[:]).PubKey(), 1)
		ks := sha256.Sum256([]byte{'a', 'c', 'c', byte(i)})
		priv := &secp256k1.PrivKey{Key: ks[:]}
		acc := authtypes.NewBaseAccount(priv.PubKey().Address().Bytes(), priv.PubKey(), 0, 0)
		genAccs[i] = acc
		balances[i] = banktypes.Balance{Address: acc.GetAddress().String(), Coins: initCoins}
	}
	valSet := tmtypes.NewValidatorSet(validators)
	w.ValSet = valSet
	w.ValAddr = make([]sdk.ValAddress, nVal)
	for i := 0; i < nVal; i++ {
		w.ValAddr[i] = genAccs[i].GetAddress().Bytes()
	}

	myApp := helpers.NewApp()
	genesisState := app.NewDefAppGenesisByDenom(myApp.AppCodec(), myApp.ModuleBasics)

	var authGenesis authtypes.GenesisState
	myApp.AppCodec().MustUnmarshalJSON(genesisState[authtypes.ModuleName], &authGenesis)
	packAccounts, err := authtypes.PackAccounts(genAccs)
	must(err)
	authGenesis.Accounts = packAccounts
	genesisState[authtypes.ModuleName] = myApp.AppCodec().MustMarshalJSON(&authGenesis)

	vals := make([]stakingtypes.Validator, 0, nVal)
	delegations := make([]stakingtypes.Delegation, 0, nVal)
	bondAmt := sdk.DefaultPowerReduction
	for i, val := range valSet.Validators {
		pk, err := cryptocodec.FromCmtPubKeyInterface(val.PubKey)
		must(err)
		pkAny, err := codectypes.NewAnyWithValue(pk)
		must(err)
		// valSet sorts validators: find the account for this validator by index of creation
		idx := -1
		for j := range validators {
			if validators[j].PubKey.Equals(val.PubKey) {
				idx = j
			}
		}
		_ = i
		validator := stakingtypes.Validator{
			OperatorAddress: sdk.ValAddress(genAccs[idx].GetAddress()).String(), ConsensusPubkey: pkAny, Jailed: false,
			Status: stakingtypes.Bonded, Tokens: bondAmt, DelegatorShares: sdkmath.LegacyNewDecFromInt(bondAmt),
			Description: stakingtypes.Description{}, UnbondingHeight: 0, UnbondingTime: time.Unix(0, 0).UTC(),
			Commission:        stakingtypes.NewCommission(sdkmath.LegacyZeroDec(), sdkmath.LegacyZeroDec(), sdkmath.LegacyZeroDec()),
			MinSelfDelegation: sdkmath.OneInt().Mul(sdkmath.NewInt(10)),
		}
		vals = append(vals, validator)
		delegations = append(delegations, stakingtypes.NewDelegation(genAccs[idx].GetAddress().String(), validator.GetOperator(), sdkmath.LegacyNewDecFromInt(bondAmt)))
	}
	var stakingGenesis stakingtypes.GenesisState
	myApp.AppCodec().MustUnmarshalJSON(genesisState[stakingtypes.ModuleName], &stakingGenesis)
	stakingGenesis.Params.MaxValidators = uint32(len(vals))
	stakingGenesis.Validators = vals
	stakingGenesis.Delegations = delegations
	genesisState[stakingtypes.ModuleName] = myApp.AppCodec().MustMarshalJSON(&stakingGenesis)

	var bankGenesis banktypes.GenesisState
	myApp.AppCodec().MustUnmarshalJSON(genesisState[banktypes.ModuleName], &bankGenesis)
	// the default genesis supply exceeds its balances by 4000 FX; testutil/helpers gives them to a random
	// account, here a fixed one
	filler := sha256.Sum256([]byte("verif-genesis-filler"))
	bankGenesis.Balances = append(bankGenesis.Balances, banktypes.Balance{
		Address: sdk.AccAddress(filler[:20]).String(),
		Coins:   sdk.NewCoins(sdk.NewCoin(fxtypes.DefaultDenom, sdkmath.NewIntFromUint64(4_000).MulRaw(1e18))),
	})
	for _, b := range balances {
		bankGenesis.Supply = bankGenesis.Supply.Add(b.Coins...)
	}
	for range vals {
		bankGenesis.Supply = bankGenesis.Supply.Add(sdk.NewCoin(stakingGenesis.Params.BondDenom, bondAmt))
	}
	bankGenesis.Balances = append(bankGenesis.Balances, balances...)
	bankGenesis.Balances = append(bankGenesis.Balances, banktypes.Balance{
		Address: authtypes.NewModuleAddress(stakingtypes.BondedPoolName).String(),
		Coins:   sdk.Coins{sdk.NewCoin(stakingGenesis.Params.BondDenom, bondAmt.MulRaw(int64(len(vals))))},
	})
	genesisState[banktypes.ModuleName] = myApp.AppCodec().MustMarshalJSON(&bankGenesis)

	stateBytes, err := json.MarshalIndent(genesisState, "", " ")
	must(err)
	consensusParams := app.CustomGenesisConsensusParams().ToProto()
	_, err = myApp.InitChain(&abci.RequestInitChain{ConsensusParams: &consensusParams, AppStateBytes: stateBytes, InitialHeight: 1, Time: baseTime})
	must(err)
	w.App = myApp
	w.Ctx = myApp.GetContextForFinalizeBlock(nil).WithProposer(valSet.Proposer.Address.Bytes())
	if w.Ctx.BlockTime().Unix() <= 0 {
		w.Ctx = w.Ctx.WithBlockTime(baseTime)
	}
	return w
}

func must(err error) {
	if err != nil {
		panic(err)
	}
}
