// Package world builds a real in-memory fxcore chain and offers the few primitives every
// adapter needs: deterministic keys, funding, message routing with per-message atomicity,
// EVM transactions, real blocks, and store dumps.
package world

import (
	"crypto/sha256"
	"encoding/hex"
	"fmt"
	"math/big"
	"os"
	"sort"
	"strconv"
	"sync"
	"testing"
	"time"

	sdkmath "cosmossdk.io/math"
	storetypes "cosmossdk.io/store/types"
	abci "github.com/cometbft/cometbft/abci/types"
	clienttx "github.com/cosmos/cosmos-sdk/client/tx"
	cryptotypes "github.com/cosmos/cosmos-sdk/crypto/types"
	sdk "github.com/cosmos/cosmos-sdk/types"
	"github.com/cosmos/cosmos-sdk/types/tx/signing"
	authsigning "github.com/cosmos/cosmos-sdk/x/auth/signing"
	authtypes "github.com/cosmos/cosmos-sdk/x/auth/types"
	govtypes "github.com/cosmos/cosmos-sdk/x/gov/types"
	"github.com/ethereum/go-ethereum/common"
	ethtypes "github.com/ethereum/go-ethereum/core/types"
	"github.com/evmos/ethermint/crypto/ethsecp256k1"
	evmtypes "github.com/evmos/ethermint/x/evm/types"

	"github.com/functionx/fx-core/v8/testutil/helpers"
	fxtypes "github.com/functionx/fx-core/v8/types"
)

var cfgOnce sync.Once

// Seed returns VERIF_SEED (default 1).
func Seed() int64 {
	if s := os.Getenv("VERIF_SEED"); s != "" {
		if v, err := strconv.ParseInt(s, 10, 64); err == nil {
			return v
		}
	}
	return 1
}

// Tier returns VERIF_TIER (default quick).
func Tier() string {
	if s := os.Getenv("VERIF_TIER"); s != "" {
		return s
	}
	return "quick"
}

type W struct {
	helpers.BaseSuite
	keys map[string]*helpers.Signer
}

// New builds a fresh chain with nVal genesis validators.
func New(t *testing.T, nVal int) *W {
	if os.Getenv("VERIF_DET") != "" {
		return NewDet(t, nVal) // fixed key material and genesis: executions comparable across processes
	}
	cfgOnce.Do(func() {
		// VERIF_ADDR_CFG=sdk (opt-in, used by harness/authority only): leave the SDK's default address configuration
		// (no 20-byte address verifier), as the repository's own keeper tests run
		if os.Getenv("VERIF_ADDR_CFG") != "sdk" {
			fxtypes.SetConfig(true)
		}
	})
	w := &W{keys: map[string]*helpers.Signer{}}
	w.MintValNumber = nVal
	w.SetT(t)
	w.SetupTest()
	if w.Ctx.BlockTime().Unix() <= 0 {
		w.Ctx = w.Ctx.WithBlockTime(baseTime) // the test genesis has no block time; modules reject year 1
	}
	return w
}

// Key returns a deterministic eth_secp256k1 key for a label (stable across runs and processes).
func (w *W) Key(label string) *helpers.Signer {
	if s, ok := w.keys[label]; ok {
		return s
	}
	s := DetKey(label)
	w.keys[label] = s
	return s
}

func DetKey(label string) *helpers.Signer {
	h := sha256.Sum256([]byte("verif-key/" + label))
	return helpers.NewSigner(&ethsecp256k1.PrivKey{Key: h[:]})
}

// DetExt returns a deterministic external (0x…) address for a label.
func DetExt(label string) string {
	h := sha256.Sum256([]byte("verif-ext/" + label))
	return common.BytesToAddress(h[:20]).Hex()
}

func FX(n int64) sdk.Coin {
	return sdk.NewCoin(fxtypes.DefaultDenom, sdkmath.NewInt(n).MulRaw(1e18))
}

// Fund mints n FX (whole units) to addr in ctx.
func (w *W) Fund(ctx sdk.Context, addr sdk.AccAddress, n int64) {
	w.MintCoins(ctx, addr, FX(n))
}

func (w *W) MintCoins(ctx sdk.Context, addr sdk.AccAddress, coins ...sdk.Coin) {
	if err := w.App.BankKeeper.MintCoins(ctx, "mint", sdk.NewCoins(coins...)); err != nil {
		panic(err)
	}
	if err := w.App.BankKeeper.SendCoinsFromModuleToAccount(ctx, "mint", addr, sdk.NewCoins(coins...)); err != nil {
		panic(err)
	}
}

func GovAddr() string { return authtypes.NewModuleAddress(govtypes.ModuleName).String() }

// Handle routes msg through the application's message router with the atomicity baseapp gives a
// message: executed in a cache that is written only on success.  Panics are converted to errors
// prefixed "PANIC:" (baseapp's runTx recovers them the same way).
func (w *W) Handle(ctx sdk.Context, msg sdk.Msg) (err error) {
	defer func() {
		if r := recover(); r != nil {
			err = fmt.Errorf("PANIC: %v", r)
		}
	}()
	// baseapp.validateBasicTxMsgs
	if v, ok := msg.(sdk.HasValidateBasic); ok {
		if err = v.ValidateBasic(); err != nil {
			return err
		}
	}
	return w.HandleNoValidate(ctx, msg)
}

// HandleNoValidate is Handle without the stateless validation step.
func (w *W) HandleNoValidate(ctx sdk.Context, msg sdk.Msg) (err error) {
	h := w.App.MsgServiceRouter().Handler(msg)
	if h == nil {
		return fmt.Errorf("no handler for %T", msg)
	}
	cctx, write := ctx.CacheContext()
	defer func() {
		if r := recover(); r != nil {
			err = fmt.Errorf("PANIC: %v", r)
		}
	}()
	if _, err = h(cctx, msg); err == nil {
		write()
	}
	return err
}

// Atomic runs f in a cache of ctx, written only if f returns nil.
func Atomic(ctx sdk.Context, f func(sdk.Context) error) (err error) {
	cctx, write := ctx.CacheContext()
	defer func() {
		if r := recover(); r != nil {
			err = fmt.Errorf("PANIC: %v", r)
		}
	}()
	if err = f(cctx); err == nil {
		write()
	}
	return err
}

// EthTx signs and executes an EVM transaction at keeper level (real interpreter and state DB).
func (w *W) EthTx(ctx sdk.Context, signer *helpers.Signer, to *common.Address, value *big.Int, gas uint64, data []byte) (res *evmtypes.MsgEthereumTxResponse, err error) {
	// a panic inside a transaction is recovered by baseapp.runTx, which fails the transaction and
	// discards everything it wrote; a transaction that returns (even with a vm error) is written.
	cctx, write := ctx.CacheContext()
	defer func() {
		if r := recover(); r != nil {
			res, err = nil, fmt.Errorf("PANIC: %v", r)
		}
	}()
	chainID := w.App.EvmKeeper.ChainID()
	nonce := w.App.EvmKeeper.GetNonce(cctx, signer.Address())
	tx := evmtypes.NewTx(chainID, nonce, to, value, gas, nil, nil, nil, data, nil)
	tx.From = signer.Address().Bytes()
	if err := tx.Sign(ethtypes.LatestSignerForChainID(chainID), signer); err != nil {
		return nil, err
	}
	res, err = w.App.EvmKeeper.EthereumTx(cctx, tx)
	if err == nil {
		write()
	}
	return res, err
}

// EthCall is EthTx that reports success as a bool (no error and no vm error).
func (w *W) EthCall(ctx sdk.Context, signer *helpers.Signer, to common.Address, gas uint64, data []byte) (bool, string) {
	res, err := w.EthTx(ctx, signer, &to, nil, gas, data)
	if err != nil {
		return false, err.Error()
	}
	if res.VmError != "" {
		return false, res.VmError
	}
	return true, ""
}

var baseTime = time.Unix(1_700_000_000, 0).UTC()

// Block runs one real block (FinalizeBlock + Commit) containing txs, dt after the previous one, and
// refreshes w.Ctx.  A FinalizeBlock error or panic is returned (C07's oracle).
func (w *W) Block(dt time.Duration, txs ...[]byte) (res *abci.ResponseFinalizeBlock, err error) {
	defer func() {
		if r := recover(); r != nil {
			err = fmt.Errorf("PANIC in block: %v", r)
		}
	}()
	h := w.Ctx.BlockHeight()
	bt := w.Ctx.BlockTime()
	if bt.Unix() <= 0 {
		bt = baseTime
	}
	now := bt.Add(dt)
	prop := w.Ctx.BlockHeader().ProposerAddress
	res, err = w.App.FinalizeBlock(&abci.RequestFinalizeBlock{Height: h, Time: now, Txs: txs, ProposerAddress: prop})
	if err != nil {
		return nil, err
	}
	if _, err = w.App.Commit(); err != nil {
		return nil, err
	}
	if _, err = w.App.ProcessProposal(&abci.RequestProcessProposal{Height: h + 1, Time: now, ProposerAddress: prop}); err != nil {
		return nil, err
	}
	w.Ctx = w.App.GetContextForFinalizeBlock(nil).WithProposer(prop)
	return res, nil
}

// SignTx builds a signed cosmos transaction (SIGN_MODE_DIRECT).
func (w *W) SignTx(priv cryptotypes.PrivKey, gas uint64, fee sdk.Coins, msgs ...sdk.Msg) ([]byte, error) {
	txCfg := w.App.GetTxConfig()
	b := txCfg.NewTxBuilder()
	if err := b.SetMsgs(msgs...); err != nil {
		return nil, err
	}
	b.SetGasLimit(gas)
	if fee == nil {
		fee = sdk.NewCoins(sdk.NewCoin(fxtypes.DefaultDenom, sdkmath.NewInt(int64(gas)).MulRaw(4_000_000_000_000)))
	}
	b.SetFeeAmount(fee)
	addr := sdk.AccAddress(priv.PubKey().Address())
	acc := w.App.AccountKeeper.GetAccount(w.Ctx, addr)
	if acc == nil {
		return nil, fmt.Errorf("account %s does not exist", addr)
	}
	sigV2 := signing.SignatureV2{PubKey: priv.PubKey(), Data: &signing.SingleSignatureData{SignMode: signing.SignMode_SIGN_MODE_DIRECT}, Sequence: acc.GetSequence()}
	if err := b.SetSignatures(sigV2); err != nil {
		return nil, err
	}
	sd := authsigning.SignerData{ChainID: w.Ctx.ChainID(), AccountNumber: acc.GetAccountNumber(), Sequence: acc.GetSequence(), PubKey: priv.PubKey(), Address: addr.String()}
	sig, err := clienttx.SignWithPrivKey(w.Ctx, signing.SignMode_SIGN_MODE_DIRECT, sd, b, priv, txCfg, acc.GetSequence())
	if err != nil {
		return nil, err
	}
	if err = b.SetSignatures(sig); err != nil {
		return nil, err
	}
	return txCfg.TxEncoder()(b.GetTx())
}

// StoreKeys returns the application's KV store keys sorted by name.
func (w *W) StoreKeys() []*storetypes.KVStoreKey {
	m := w.App.GetKVStoreKey()
	names := make([]string, 0, len(m))
	for n := range m {
		names = append(names, n)
	}
	sort.Strings(names)
	out := make([]*storetypes.KVStoreKey, 0, len(names))
	for _, n := range names {
		out = append(out, m[n])
	}
	return out
}

// Dump returns, per store, every key/value pair in hex ("k=v" lines) for byte-exact comparison.
func (w *W) Dump(ctx sdk.Context) map[string][]string {
	out := map[string][]string{}
	for _, k := range w.StoreKeys() {
		st := ctx.KVStore(k)
		it := st.Iterator(nil, nil)
		var lines []string
		for ; it.Valid(); it.Next() {
			lines = append(lines, hex.EncodeToString(it.Key())+"="+hex.EncodeToString(it.Value()))
		}
		it.Close()
		out[k.Name()] = lines
	}
	return out
}

// DumpHash is a digest of Dump.
func (w *W) DumpHash(ctx sdk.Context) string {
	d := w.Dump(ctx)
	h := sha256.New()
	for _, k := range w.StoreKeys() {
		h.Write([]byte(k.Name()))
		for _, l := range d[k.Name()] {
			h.Write([]byte(l))
			h.Write([]byte{'\n'})
		}
	}
	return hex.EncodeToString(h.Sum(nil))
}

// DiffDump lists the stores (and first differing line) in which two dumps differ.
func DiffDump(a, b map[string][]string) []string {
	var out []string
	names := map[string]bool{}
	for n := range a {
		names[n] = true
	}
	for n := range b {
		names[n] = true
	}
	sorted := make([]string, 0, len(names))
	for n := range names {
		sorted = append(sorted, n)
	}
	sort.Strings(sorted)
	for _, n := range sorted {
		x, y := a[n], b[n]
		mx := map[string]bool{}
		for _, l := range x {
			mx[l] = true
		}
		my := map[string]bool{}
		for _, l := range y {
			my[l] = true
		}
		for _, l := range x {
			if !my[l] {
				out = append(out, n+": -"+l)
			}
		}
		for _, l := range y {
			if !mx[l] {
				out = append(out, n+": +"+l)
			}
		}
	}
	return out
}
