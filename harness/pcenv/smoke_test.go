package pcenv_test

import (
	"fmt"
	"math/big"
	"testing"

	sdk "github.com/cosmos/cosmos-sdk/types"
	"github.com/ethereum/go-ethereum/common"

	"verifharness/evmasm"
	"verifharness/pcenv"
	"verifharness/world"
)

// Every state-changing method of both precompiles succeeds when called by a provisioned executor
// (self-test of the environment; the observables used by the frames/caller projections are printed
// with -v).
func TestAllMethodsThroughExecutor(t *testing.T) {
	w := world.New(t, 4)
	e := pcenv.New(t, w)
	ctx := w.Ctx
	user := w.Key("smoke/user")
	w.Fund(ctx, user.AccAddress(), 1000)
	X := e.Deploy(ctx, nil)
	w.Fund(ctx, sdk.AccAddress(X.Bytes()), 1000)
	e.GiveToken(ctx, X, pcenv.Units(1000))
	owner := w.Key("smoke/owner")
	w.Fund(ctx, owner.AccAddress(), 1000)
	recv := common.HexToAddress(world.DetExt("smoke/recv"))
	dest := world.DetExt("smoke/dest")
	v0, v1 := e.Val[0], e.Val[1]
	run := func(name string, steps ...evmasm.Step) {
		ok, msg := w.EthCall(ctx, user, X, 3_000_000, pcenv.Prog(steps...))
		if !ok {
			why := ""
			for _, s := range steps {
				why += " | " + e.Reason(ctx, X, common.BytesToAddress(s.To[:]), s.Data)
			}
			t.Fatalf("%s: %s%s", name, msg, why)
		}
		fmt.Println("ok", name)
	}
	st, cc := pcenv.StakingAddr, pcenv.CrosschainAddr
	run("approve token", pcenv.Call(e.Token, pcenv.TokenApprove(cc, pcenv.Units(1_000_000))))
	run("delegateV2", pcenv.Call(st, pcenv.DelegateV2(v0, pcenv.Units(16))))
	// owner delegates and approves X
	ok, msg := w.EthCall(ctx, owner, st, 3_000_000, pcenv.DelegateV2(v0, pcenv.Units(16)))
	pcenv.Mustf(ok, "owner delegate: %s", msg)
	ok, msg = w.EthCall(ctx, owner, st, 3_000_000, pcenv.ApproveShares(v0, X, pcenv.Units(8)))
	pcenv.Mustf(ok, "owner approve: %s", msg)
	ctx = e.RewardBlock(ctx, 1000)
	run("withdraw", pcenv.Call(st, pcenv.Withdraw(v0)))
	run("undelegateV2", pcenv.Call(st, pcenv.UndelegateV2(v0, pcenv.Units(1))))
	run("redelegateV2", pcenv.Call(st, pcenv.RedelegateV2(v0, v1, pcenv.Units(2))))
	run("approveShares", pcenv.Call(st, pcenv.ApproveShares(v0, recv, pcenv.Units(4))))
	run("transferShares", pcenv.Call(st, pcenv.TransferShares(v0, recv, pcenv.Units(1))))
	run("transferFromShares", pcenv.Call(st, pcenv.TransferFromShares(v0, owner.Address(), recv, pcenv.Units(2))))
	run("crossChain", pcenv.Call(cc, pcenv.CrossChain(e.Token, dest, pcenv.Units(4), pcenv.Units(1))))
	run("bridgeCall", pcenv.Call(cc, pcenv.BridgeCall(X, []common.Address{e.Token}, []*big.Int{pcenv.Units(2)}, common.HexToAddress(dest))))
	fmt.Println("increaseBridgeFee with the ERC-20 (deprecated path):", e.Reason(ctx, X, cc, pcenv.IncreaseBridgeFee(1, e.Token, pcenv.Units(1))))
	val := func(s evmasm.Step, n int64) evmasm.Step { s.Value = pcenv.Units(n); return s }
	run("crossChain FX value", val(pcenv.Call(cc, pcenv.CrossChain(common.Address{}, dest, pcenv.Units(4), pcenv.Units(1))), 5))
	run("increaseBridgeFee FX value", val(pcenv.Call(cc, pcenv.IncreaseBridgeFee(2, common.Address{}, pcenv.Units(2))), 2))
	run("cancelSendToExternal", pcenv.Call(cc, pcenv.CancelSendToExternal(1)))
	run("cancelSendToExternal FX", pcenv.Call(cc, pcenv.CancelSendToExternal(2)))
	fmt.Println("FX of X", w.App.BankKeeper.GetBalance(ctx, X.Bytes(), "FX").Amount.Quo(pcenv.Unit))
	n := e.Park(ctx, e.TokU, sdk.AccAddress(recv.Bytes()), pcenv.Units(3))
	run("executeClaim", pcenv.Call(cc, pcenv.ExecuteClaimData(n)))
	fmt.Println("token balance X", new(big.Int).Quo(e.TokenBalance(ctx, X), pcenv.Unit.BigInt()), "supply", new(big.Int).Quo(e.TokenSupply(ctx), pcenv.Unit.BigInt()))
	fmt.Println("usdt coin X", w.App.BankKeeper.GetBalance(ctx, X.Bytes(), "usdt"), "recv", w.App.BankKeeper.GetBalance(ctx, recv.Bytes(), "usdt"),
		"recv token", e.TokenBalance(ctx, recv))

	// the lead's candidate (C08/C04): transfer ALL tokens away, then bridgeCall the same amount, in one transaction
	Y := e.Deploy(ctx, nil)
	e.GiveToken(ctx, Y, pcenv.Units(100))
	supply0 := e.TokenSupply(ctx)
	ok, msg = w.EthCall(ctx, user, Y, 3_000_000, pcenv.Prog(
		pcenv.Call(e.Token, pcenv.TokenTransfer(recv, pcenv.Units(100))),
		pcenv.Call(cc, pcenv.BridgeCall(Y, []common.Address{e.Token}, []*big.Int{pcenv.Units(100)}, common.HexToAddress(dest)))))
	fmt.Printf("transfer(100)+bridgeCall(100) with 100 tokens: ok=%v %s; Y=%s recv=%s supply %s -> %s\n", ok, msg,
		e.TokenBalance(ctx, Y), e.TokenBalance(ctx, recv), supply0, e.TokenSupply(ctx))
}
