package pcenv

import (
	"encoding/json"
	"fmt"
	"hash/fnv"
	"os"
	"reflect"
	"strconv"
	"testing"

	sdk "github.com/cosmos/cosmos-sdk/types"

	"verifharness/graph"
)

func envInt(k string, def int) int {
	if s := os.Getenv(k); s != "" {
		if v, err := strconv.Atoi(s); err == nil {
			return v
		}
	}
	return def
}

// ShardOf spreads a key over VERIF_SHARDS processes.
func ShardOf(key string, shards int) int {
	h := fnv.New64a()
	h.Write([]byte(key))
	x := h.Sum64()
	x ^= x >> 33
	x *= 0xff51afd7ed558ccd
	x ^= x >> 33
	return int(x % uint64(shards))
}

// storeIdentity: an identity of the context's (cache) multistore, 0 when it cannot be determined.
func storeIdentity(ctx sdk.Context) (id uintptr) {
	defer func() {
		if recover() != nil {
			id = 0
		}
	}()
	v := reflect.ValueOf(ctx.MultiStore())
	for v.Kind() == reflect.Interface || v.Kind() == reflect.Pointer {
		v = v.Elem()
	}
	return v.FieldByName("stores").Pointer()
}

// RunReplaySharded is graph.RunReplay for star-shaped graphs (few states, a large operation alphabet):
// the generic walker shards by sub-tree, which leaves all the work of the initial state to one process;
// here every process replays the whole graph restricted to ITS share of the alphabet (shardKey(op) == ""
// keeps an operation in every process, e.g. the ones that lead to other states).  With shardKey == nil the
// generic sharding is used.  In both modes every executed real transition is recorded for TLC.  Output files
// are those of graph.RunReplay.
func RunReplaySharded(t *testing.T, ad graph.Adapter, root sdk.Context, shardKey func(op graph.Op) string) {
	g, err := graph.Load(os.Getenv("VERIF_EDGES"))
	if err != nil {
		t.Fatalf("load edges: %v", err)
	}
	if err := g.CheckDeterministic(); err != nil {
		t.Fatalf("%v", err)
	}
	shard, shards := envInt("VERIF_SHARD", 0), envInt("VERIF_SHARDS", 1)
	full := len(g.Alphabet)
	byState := shardKey == nil // graphs with many states: the generic walker's sharding by sub-tree
	if shards > 1 && !byState {
		var mine []graph.Op
		for _, op := range g.Alphabet {
			if k := shardKey(op); k == "" || ShardOf(k, shards) == shard {
				mine = append(mine, op)
			}
		}
		g.Alphabet = mine
	}
	var out *os.File
	if p := os.Getenv("VERIF_TRACES"); p != "" {
		out, err = os.Create(p)
		if err != nil {
			t.Fatal(err)
		}
		defer out.Close()
	}
	// every executed real transition is also recorded as a one-step behaviour (initial state = the projected
	// pre-state), so that TLC evaluates the property formulas on conforming transitions too
	// the recorded behaviour is the path of accepted operations from the initial state (breadth-first tree of
	// the graph; its states were confirmed when the walk descended) followed by the executed step, so that a
	// saved violation can be re-executed from genesis with --replay.
	pathTo := map[string][]graph.Step{g.Init: {}}
	for queue := []string{g.Init}; len(queue) > 0; queue = queue[1:] {
		for _, e := range g.Out[queue[0]] {
			if _, seen := pathTo[e.To]; e.Op.Res() != "ok" || seen {
				continue
			}
			pathTo[e.To] = append(append([]graph.Step{}, pathTo[queue[0]]...), graph.Step{Op: e.Op, St: json.RawMessage(e.To)})
			queue = append(queue, e.To)
		}
	}
	capN, nrec := envInt("VERIF_EDGETRACES", 6000), 0
	var lastMS uintptr
	var lastPre any
	var lastPath []graph.Step
	var lastKnown bool
	after := func(post, pre sdk.Context, op graph.Op, res string) error {
		if out == nil || nrec >= capN {
			return nil
		}
		nrec++
		if id := storeIdentity(pre); id == 0 || id != lastMS { // all operations of a state start from the same branch
			lastMS, lastPre = id, ad.Project(pre)
			lastPath, lastKnown = pathTo[graph.CanonV(lastPre)]
		}
		o := graph.Op{}
		for k, v := range op {
			o[k] = v
		}
		o["res"] = res
		doc := map[string]any{"trace": append(append([]graph.Step{}, lastPath...), graph.Step{Op: o, St: ad.Project(post)}), "why": ""}
		if !lastKnown {
			doc["init"] = lastPre
		}
		b, _ := json.Marshal(doc)
		out.Write(append(b, '\n'))
		return nil
	}
	st, err := graph.Replay(ad, root, g, graph.Options{AfterEdge: after,
		ExploreDepth: envInt("VERIF_EXPLORE", 0), ExploreBudget: envInt("VERIF_EXPLORE_BUDGET", 2000), MaxDeviations: envInt("VERIF_MAXDEV", 3), TraceOut: out,
		Shard: map[bool]int{true: shard, false: 0}[byState], Shards: map[bool]int{true: shards, false: 1}[byState], RejSample: envInt("VERIF_REJ_SAMPLE", 0), Seed: int64(envInt("VERIF_SEED", 1)), KeepOkTraces: 0,
	})
	byOp := st.SortedOps()
	if byOp == nil {
		byOp = []string{} // a shard whose share of the alphabet is empty
	}
	res := map[string]any{
		"graph_states": len(g.Out), "graph_ok_edges": g.N, "alphabet": full, "alphabet_here": len(g.Alphabet),
		"states": st.States, "edges": st.Edges, "ok": st.OkEdges, "rej": st.RejEdges, "deviations": st.Deviations,
		"extra_steps": st.ExtraSteps, "by_op": byOp, "samples": st.Samples, "first_deviation": st.FirstDeviation,
		"depth": st.Depth, "frontier": st.Frontier, "graph_expanded": len(g.Expanded),
	}
	if err != nil {
		res["error"] = err.Error()
	}
	b, _ := json.MarshalIndent(res, "", " ")
	if p := os.Getenv("VERIF_STATS"); p != "" {
		if e := os.WriteFile(p, b, 0o644); e != nil {
			t.Fatal(e)
		}
	}
	fmt.Printf("replay shard %d/%d: states=%d edges=%d ok=%d rej=%d deviations=%d extra=%d\n", shard, shards, st.States, st.Edges, st.OkEdges, st.RejEdges, st.Deviations, st.ExtraSteps)
	if st.FirstDeviation != "" {
		fmt.Println("first deviation:", st.FirstDeviation)
	}
	if err != nil {
		t.Fatalf("replay infrastructure error: %v", err)
	}
}
