package pcenv

import (
	"math/big"

	sdk "github.com/cosmos/cosmos-sdk/types"
	"github.com/ethereum/go-ethereum/common"

	"github.com/functionx/fx-core/v8/contract"
	fxtypes "github.com/functionx/fx-core/v8/types"
	ccprecompile "github.com/functionx/fx-core/v8/x/crosschain/precompile"
	cctypes "github.com/functionx/fx-core/v8/x/crosschain/types"
	stprecompile "github.com/functionx/fx-core/v8/x/staking/precompile"
	sttypes "github.com/functionx/fx-core/v8/x/staking/types"

	"verifharness/evmasm"
)

var (
	StakingAddr    = sttypes.GetAddress()
	CrosschainAddr = cctypes.GetAddress()
)

// StakingMethods / CrosschainMethods: the state-changing methods of the two precompiles.
var (
	StakingMethods    = []string{"delegateV2", "undelegateV2", "redelegateV2", "withdraw", "approveShares", "transferShares", "transferFromShares"}
	CrosschainMethods = []string{"crossChain", "bridgeCall", "cancelSendToExternal", "increaseBridgeFee", "executeClaim"}
)

func IsStaking(m string) bool {
	for _, x := range StakingMethods {
		if x == m {
			return true
		}
	}
	return m == "delegation" || m == "allowanceShares" || m == "delegationRewards"
}

func PrecompileOf(m string) common.Address {
	if IsStaking(m) {
		return StakingAddr
	}
	return CrosschainAddr
}

// MethodID returns the 4-byte selector of a precompile method.
func MethodID(m string) []byte {
	if IsStaking(m) {
		return sttypes.GetABI().Methods[m].ID
	}
	return cctypes.GetABI().Methods[m].ID
}

func must2(b []byte, err error) []byte {
	Must(err)
	return b
}

func DelegateV2(val sdk.ValAddress, amt *big.Int) []byte {
	return must2(stprecompile.NewDelegateV2Method(nil).PackInput(sttypes.DelegateV2Args{Validator: val.String(), Amount: amt}))
}
func UndelegateV2(val sdk.ValAddress, amt *big.Int) []byte {
	return must2(stprecompile.NewUndelegateV2Method(nil).PackInput(sttypes.UndelegateV2Args{Validator: val.String(), Amount: amt}))
}
func RedelegateV2(src, dst sdk.ValAddress, amt *big.Int) []byte {
	return must2(stprecompile.NewRedelegateV2Method(nil).PackInput(sttypes.RedelegateV2Args{ValidatorSrc: src.String(), ValidatorDst: dst.String(), Amount: amt}))
}
func Withdraw(val sdk.ValAddress) []byte {
	return must2(stprecompile.NewWithdrawMethod(nil).PackInput(sttypes.WithdrawArgs{Validator: val.String()}))
}
func ApproveShares(val sdk.ValAddress, spender common.Address, shares *big.Int) []byte {
	return must2(stprecompile.NewApproveSharesMethod(nil).PackInput(sttypes.ApproveSharesArgs{Validator: val.String(), Spender: spender, Shares: shares}))
}
func TransferShares(val sdk.ValAddress, to common.Address, shares *big.Int) []byte {
	return must2(stprecompile.NewTransferSharesMethod(nil).PackInput(sttypes.TransferSharesArgs{Validator: val.String(), To: to, Shares: shares}))
}
func TransferFromShares(val sdk.ValAddress, from, to common.Address, shares *big.Int) []byte {
	return must2(stprecompile.NewTransferFromSharesMethod(nil).PackInput(sttypes.TransferFromSharesArgs{Validator: val.String(), From: from, To: to, Shares: shares}))
}
func Delegation(val sdk.ValAddress, del common.Address) []byte {
	return must2(stprecompile.NewDelegationMethod(nil).PackInput(sttypes.DelegationArgs{Validator: val.String(), Delegator: del}))
}

func CrossChain(token common.Address, receipt string, amt, fee *big.Int) []byte {
	return must2(ccprecompile.NewCrossChainMethod(nil).PackInput(cctypes.CrossChainArgs{Token: token, Receipt: receipt, Amount: amt, Fee: fee,
		Target: fxtypes.MustStrToByte32(Chain), Memo: ""}))
}
func BridgeCall(refund common.Address, tokens []common.Address, amounts []*big.Int, to common.Address) []byte {
	return must2(ccprecompile.NewBridgeCallMethod(nil).PackInput(cctypes.BridgeCallArgs{DstChain: Chain, Refund: refund, Tokens: tokens, Amounts: amounts,
		To: to, Data: []byte{}, Value: big.NewInt(0), Memo: []byte{}}))
}
func CancelSendToExternal(txid uint64) []byte {
	return must2(ccprecompile.NewCancelSendToExternalMethod(nil).PackInput(Chain, new(big.Int).SetUint64(txid)))
}
func IncreaseBridgeFee(txid uint64, token common.Address, fee *big.Int) []byte {
	return must2(ccprecompile.NewIncreaseBridgeFeeMethod(nil).PackInput(Chain, new(big.Int).SetUint64(txid), token, fee))
}

func TokenTransfer(to common.Address, amt *big.Int) []byte {
	return must2(contract.GetFIP20().ABI.Pack("transfer", to, amt))
}
func TokenApprove(spender common.Address, amt *big.Int) []byte {
	return must2(contract.GetFIP20().ABI.Pack("approve", spender, amt))
}

// Call is a plain propagate CALL step with all gas.
func Call(to common.Address, data []byte) evmasm.Step {
	return evmasm.Step{Kind: evmasm.KindCall, To: evmasm.Addr(to.Bytes()), Data: data}
}

// Prog builds a program of propagate CALL steps ending in STOP.
func Prog(steps ...evmasm.Step) []byte { return evmasm.Program{Steps: steps}.Encode() }
