// Package pcenv is the world shared by the precompile checks (C09 harness/frames, C10
// harness/caller): a real chain with several bonded validators, one bridge module (eth) with an
// honest oracle holding all power, the FX bridge token and a governance-registered coin USDT
// (module-owned ERC-20) bridged in through observed claims, and deployed executor contracts
// (harness/evmasm) that call the staking / cross-chain precompiles.
package pcenv

import (
	"fmt"
	"math/big"
	"time"

	sdkmath "cosmossdk.io/math"
	storetypes "cosmossdk.io/store/types"
	abci "github.com/cometbft/cometbft/abci/types"
	codectypes "github.com/cosmos/cosmos-sdk/codec/types"
	sdk "github.com/cosmos/cosmos-sdk/types"
	authtypes "github.com/cosmos/cosmos-sdk/x/auth/types"
	slashingtypes "github.com/cosmos/cosmos-sdk/x/slashing/types"
	"github.com/ethereum/go-ethereum/accounts/abi"
	"github.com/ethereum/go-ethereum/common"
	"github.com/ethereum/go-ethereum/core"
	ethtypes "github.com/ethereum/go-ethereum/core/types"
	"github.com/ethereum/go-ethereum/core/vm"
	"github.com/ethereum/go-ethereum/crypto"
	evmtypes "github.com/evmos/ethermint/x/evm/types"

	"github.com/functionx/fx-core/v8/contract"
	"github.com/functionx/fx-core/v8/testutil/helpers"
	fxtypes "github.com/functionx/fx-core/v8/types"
	crosschainkeeper "github.com/functionx/fx-core/v8/x/crosschain/keeper"
	"github.com/functionx/fx-core/v8/x/crosschain/precompile"
	"github.com/functionx/fx-core/v8/x/crosschain/types"
	erc20types "github.com/functionx/fx-core/v8/x/erc20/types"

	"verifharness/evmasm"
	"verifharness/world"
)

const Chain = "eth"

var Unit = sdkmath.NewInt(1_000_000_000_000_000_000)

type Env struct {
	W        *world.W
	K        crosschainkeeper.Keeper
	StoreKey storetypes.StoreKey
	Val      []sdk.ValAddress
	Votes    []abci.VoteInfo
	TokFX    string         // external contract of the FX bridge token
	TokU     string         // external contract of USDT
	Token    common.Address // USDT ERC-20 on fxcore (module-owned)
	Oracle   *helpers.Signer
	Bridger  *helpers.Signer
	Deployer *helpers.Signer
	nonce    uint64 // last observed event nonce (setup only; Observe reads the store)
}

func Must(err error) {
	if err != nil {
		panic(err)
	}
}

func Mustf(ok bool, f string, a ...any) {
	if !ok {
		panic(fmt.Sprintf(f, a...))
	}
}

func Units(n int64) *big.Int { return Unit.MulRaw(n).BigInt() }

// New builds the chain.  Everything is created through governance-authority messages, user
// messages and observed claims, except the oracle's token registrations for FX (keeper call,
// as in the other adapters).
func New(t interface {
	Helper()
	Fatalf(string, ...any)
}, w *world.W) *Env {
	e := &Env{W: w, K: w.App.EthKeeper, StoreKey: w.App.GetKey(Chain)}
	ctx := w.Ctx
	for i := range w.ValAddr {
		e.Val = append(e.Val, w.ValAddr[i])
		val, err := w.App.StakingKeeper.GetValidator(ctx, w.ValAddr[i])
		Must(err)
		cons, err := val.GetConsAddr()
		Must(err)
		Must(w.App.SlashingKeeper.SetValidatorSigningInfo(ctx, cons, slashingtypes.NewValidatorSigningInfo(cons, ctx.BlockHeight(), 0, time.Unix(0, 0), false, 0)))
		e.Votes = append(e.Votes, abci.VoteInfo{Validator: abci.Validator{Address: cons, Power: 1}, BlockIdFlag: 2})
	}
	p := e.K.GetParams(ctx)
	p.DelegateThreshold = types.NewDelegateAmount(Unit.MulRaw(100))
	p.DelegateMultiple = 1000
	Must(w.Handle(ctx, &types.MsgUpdateParams{ChainName: Chain, Authority: world.GovAddr(), Params: p}))
	e.Oracle, e.Bridger, e.Deployer = w.Key("pc/oracle"), w.Key("pc/bridger"), w.Key("pc/deployer")
	w.Fund(ctx, e.Oracle.AccAddress(), 1_000_000)
	w.Fund(ctx, e.Bridger.AccAddress(), 1000)
	w.Fund(ctx, e.Deployer.AccAddress(), 1_000_000)
	Must(w.Handle(ctx, &types.MsgUpdateChainOracles{ChainName: Chain, Authority: world.GovAddr(), Oracles: []string{e.Oracle.AccAddress().String()}}))
	Must(w.Handle(ctx, &types.MsgBondedOracle{ChainName: Chain, OracleAddress: e.Oracle.AccAddress().String(), BridgerAddress: e.Bridger.AccAddress().String(),
		ExternalAddress: world.DetExt("pc/ext/oracle"), ValidatorAddress: w.ValAddr[len(w.ValAddr)-1].String(),
		DelegateAmount: types.NewDelegateAmount(Unit.MulRaw(1000))}))
	e.TokFX, e.TokU = world.DetExt("pc/token/FX"), world.DetExt("pc/token/USDT")
	e.Observe(ctx, &types.MsgBridgeTokenClaim{ChainName: Chain, BlockHeight: 100, TokenContract: e.TokFX, Name: "Function X", Symbol: fxtypes.DefaultDenom, Decimals: 18})
	md := fxtypes.GetCrossChainMetadataManyToOne("Tether USD", "USDT", 18, types.NewBridgeDenom(Chain, e.TokU))
	Must(w.Handle(ctx, &erc20types.MsgRegisterCoin{Authority: world.GovAddr(), Metadata: md}))
	e.Observe(ctx, &types.MsgBridgeTokenClaim{ChainName: Chain, BlockHeight: 101, TokenContract: e.TokU, Name: "Tether USD", Symbol: "USDT", Decimals: 18})
	pair, found := w.App.Erc20Keeper.GetTokenPair(ctx, "usdt")
	Mustf(found, "usdt token pair missing")
	e.Token = pair.GetERC20Contract()
	// FX previously bridged out and locked in the module: liquidity for FX deposits
	Must(w.App.BankKeeper.MintCoins(ctx, "mint", sdk.NewCoins(world.FX(100_000))))
	Must(w.App.BankKeeper.SendCoinsFromModuleToModule(ctx, "mint", Chain, sdk.NewCoins(world.FX(100_000))))
	return e
}

func (e *Env) LastObserved(ctx sdk.Context) uint64 {
	bz := ctx.KVStore(e.StoreKey).Get(types.LastObservedEventNonceKey)
	if len(bz) == 0 {
		return 0
	}
	return sdk.BigEndianToUint64(bz)
}

// Observe submits claim (event nonce filled in) as the only oracle's vote: observed at once.
func (e *Env) Observe(ctx sdk.Context, claim types.ExternalClaim) uint64 {
	n := e.LastObserved(ctx) + 1
	b := e.Bridger.AccAddress().String()
	switch m := claim.(type) {
	case *types.MsgBridgeTokenClaim:
		m.EventNonce, m.BridgerAddress = n, b
	case *types.MsgSendToFxClaim:
		m.EventNonce, m.BridgerAddress = n, b
	case *types.MsgSendToExternalClaim:
		m.EventNonce, m.BridgerAddress = n, b
	default:
		panic(fmt.Sprintf("claim %T", claim))
	}
	anyc, err := codectypes.NewAnyWithValue(claim)
	Must(err)
	Must(e.W.Handle(ctx, &types.MsgClaim{ChainName: Chain, BridgerAddress: b, Claim: anyc}))
	Mustf(e.LastObserved(ctx) == n, "claim %d not observed", n)
	return n
}

// Park observes a deposit of amt units of token (external contract) for receiver and leaves it
// parked for executeClaim; returns its event nonce.
func (e *Env) Park(ctx sdk.Context, tokenExt string, receiver sdk.AccAddress, amt *big.Int) uint64 {
	return e.Observe(ctx, &types.MsgSendToFxClaim{ChainName: Chain, BlockHeight: 200 + e.LastObserved(ctx), TokenContract: tokenExt,
		Amount: sdkmath.NewIntFromBigInt(amt), Sender: world.DetExt("pc/extsender"), Receiver: receiver.String()})
}

func ExecuteClaimData(nonce uint64) []byte {
	data, err := precompile.NewExecuteClaimMethod(nil).PackInput(types.ExecuteClaimArgs{Chain: Chain, EventNonce: new(big.Int).SetUint64(nonce)})
	Must(err)
	return data
}

// Deposit = Park + executeClaim by the deployer: receiver gets amt of the base coin.
func (e *Env) Deposit(ctx sdk.Context, tokenExt string, receiver sdk.AccAddress, amt *big.Int) {
	n := e.Park(ctx, tokenExt, receiver, amt)
	ok, msg := e.W.EthCall(ctx, e.Deployer, types.GetAddress(), 8_000_000, ExecuteClaimData(n))
	Mustf(ok, "executeClaim %d: %s", n, msg)
}

// GiveToken bridges amt USDT in for the deployer and converts it to the ERC-20 held by `to`.
func (e *Env) GiveToken(ctx sdk.Context, to common.Address, amt *big.Int) {
	e.Deposit(ctx, e.TokU, e.Deployer.AccAddress(), amt)
	Must(e.W.Handle(ctx, &erc20types.MsgConvertCoin{Coin: sdk.NewCoin("usdt", sdkmath.NewIntFromBigInt(amt)), Receiver: to.Hex(), Sender: e.Deployer.AccAddress().String()}))
}

// GiveCoin bridges amt USDT in as bank coin of `to`.
func (e *Env) GiveCoin(ctx sdk.Context, to sdk.AccAddress, amt *big.Int) {
	e.Deposit(ctx, e.TokU, to, amt)
}

func (e *Env) TokenBalance(ctx sdk.Context, addr common.Address) *big.Int {
	cctx, _ := ctx.CacheContext()
	b, err := e.W.App.EvmKeeper.ERC20BalanceOf(cctx, e.Token, addr)
	Must(err)
	return b
}

func (e *Env) TokenAllowance(ctx sdk.Context, owner, spender common.Address) *big.Int {
	cctx, _ := ctx.CacheContext()
	var res struct{ Value *big.Int }
	Must(e.W.App.EvmKeeper.QueryContract(cctx, common.BytesToAddress(authtypes.NewModuleAddress(evmtypes.ModuleName)), e.Token, contract.GetFIP20().ABI, "allowance", &res, owner, spender))
	return res.Value
}

func (e *Env) TokenSupply(ctx sdk.Context) *big.Int {
	cctx, _ := ctx.CacheContext()
	var res struct{ Value *big.Int }
	Must(e.W.App.EvmKeeper.QueryContract(cctx, common.BytesToAddress(authtypes.NewModuleAddress(evmtypes.ModuleName)), e.Token, contract.GetFIP20().ABI, "totalSupply", &res))
	return res.Value
}

// Deploy creates an executor with default program def from the deployer (no gas accounting).
func (e *Env) Deploy(ctx sdk.Context, def []byte) common.Address {
	return e.DeployCode(ctx, evmasm.ExecutorInit(def))
}

func (e *Env) DeployCode(ctx sdk.Context, init []byte) common.Address {
	from := e.Deployer.Address()
	nonce := e.W.App.EvmKeeper.GetNonce(ctx, from)
	_, err := e.W.App.EvmKeeper.CallEVMWithoutGas(ctx, from, nil, nil, init, true)
	Must(err)
	addr := crypto.CreateAddress(from, nonce)
	Mustf(e.W.App.EvmKeeper.IsContract(ctx, addr), "contract not deployed")
	return addr
}

// RewardBlock lets one block pass whose begin blocker allocates `fees` (sub-unit amount of FX, in
// 1e-6 FX) to the validators' delegators.
func (e *Env) RewardBlock(ctx sdk.Context, microFX int64) sdk.Context {
	w := e.W
	nctx := ctx.WithBlockHeight(ctx.BlockHeight() + 1).WithBlockTime(ctx.BlockTime().Add(5 * time.Second)).WithVoteInfos(e.Votes)
	fees := sdk.NewCoins(sdk.NewCoin(fxtypes.DefaultDenom, sdkmath.NewInt(microFX).MulRaw(1_000_000_000_000)))
	Must(w.App.BankKeeper.MintCoins(nctx, "mint", fees))
	Must(w.App.BankKeeper.SendCoinsFromModuleToModule(nctx, "mint", authtypes.FeeCollectorName, fees))
	_, err := w.App.BeginBlocker(nctx)
	Must(err)
	return nctx
}

// ---- tracing: one EVM message under a logger that records every opcode's gas and every frame's fate

type Frame struct {
	Depth  int
	Type   string
	To     common.Address
	Gas    uint64
	Err    string // "" = completed
	Parent int    // index into Trace.Frames, -1 for the top frame
}

type OpRec struct {
	Cum   uint64 // gas the transaction has consumed (incl. intrinsic) BEFORE this opcode
	Cost  uint64 // cost charged for the opcode (for call opcodes: includes the gas handed to the callee)
	Call  bool   // CALL / CALLCODE / DELEGATECALL / STATICCALL
	Depth int
}

type Trace struct {
	Frames []Frame
	// Ops: every opcode executed with the TRANSACTION's gas (opcodes of ERC-20 calls made by a precompile
	// from Go run on a separate gas cap and are left out)
	Ops     []OpRec
	Limit   uint64
	VmError string
	GasUsed uint64
	Failed  bool
	// Free marks addresses whose frames spend gas that is not the transaction's (the stateful precompiles)
	Free     map[common.Address]bool
	stack    []int
	retained []uint64
	pending  uint64
	free     int // number of frames on the stack that are precompile frames
}

func (t *Trace) CaptureTxStart(gasLimit uint64) { t.Limit = gasLimit }
func (t *Trace) CaptureTxEnd(restGas uint64)    {}
func (t *Trace) CaptureStart(env *vm.EVM, from, to common.Address, create bool, input []byte, gas uint64, value *big.Int) {
	t.Frames = append(t.Frames, Frame{Depth: 0, Type: "CALL", To: to, Gas: gas, Parent: -1})
	t.stack = []int{0}
	t.retained = []uint64{0}
}
func (t *Trace) CaptureEnd(output []byte, gasUsed uint64, err error) {
	if err != nil {
		t.Frames[0].Err = err.Error()
	}
}
func (t *Trace) CaptureEnter(typ vm.OpCode, from, to common.Address, input []byte, gas uint64, value *big.Int) {
	parent := t.stack[len(t.stack)-1]
	t.Frames = append(t.Frames, Frame{Depth: len(t.stack), Type: typ.String(), To: to, Gas: gas, Parent: parent})
	t.stack = append(t.stack, len(t.Frames)-1)
	t.retained = append(t.retained, t.pending)
	if t.free > 0 || t.Free[to] {
		t.free++
	}
}
func (t *Trace) CaptureExit(output []byte, gasUsed uint64, err error) {
	i := t.stack[len(t.stack)-1]
	t.stack = t.stack[:len(t.stack)-1]
	t.retained = t.retained[:len(t.retained)-1]
	if t.free > 0 {
		t.free--
	}
	if err != nil {
		t.Frames[i].Err = err.Error()
	}
}
func (t *Trace) CaptureState(pc uint64, op vm.OpCode, gas, cost uint64, scope *vm.ScopeContext, rData []byte, depth int, err error) {
	if t.free > 0 {
		return
	}
	// gas left in the whole transaction = gas of this frame + what the ancestors kept back at their call opcodes
	left := gas
	for _, r := range t.retained[1:] {
		left += r
	}
	call := op == vm.CALL || op == vm.CALLCODE || op == vm.DELEGATECALL || op == vm.STATICCALL
	if call && gas >= cost {
		t.pending = gas - cost
	}
	t.Ops = append(t.Ops, OpRec{Cum: t.Limit - left, Cost: cost, Call: call, Depth: len(t.stack)})
}
func (t *Trace) CaptureFault(pc uint64, op vm.OpCode, gas, cost uint64, scope *vm.ScopeContext, depth int, err error) {
}

// TraceMsg runs (from -> to, data, gas limit) on a throw-away branch of ctx under the frame tracer.
// It mirrors world.EthTx (same message fields), without committing.
func (e *Env) TraceMsg(ctx sdk.Context, from common.Address, to common.Address, value *big.Int, gas uint64, data []byte) (*Trace, error) {
	cctx, _ := ctx.CacheContext()
	if value == nil {
		value = big.NewInt(0)
	}
	msg := &core.Message{From: from, To: &to, Nonce: e.W.App.EvmKeeper.GetNonce(cctx, from), Value: value, GasLimit: gas,
		GasPrice: big.NewInt(0), GasFeeCap: big.NewInt(0), GasTipCap: big.NewInt(0), Data: data, AccessList: ethtypes.AccessList{}}
	tr := &Trace{Free: map[common.Address]bool{StakingAddr: true, CrosschainAddr: true}}
	var res *evmtypes.MsgEthereumTxResponse
	var err error
	func() {
		defer func() {
			if r := recover(); r != nil {
				err = fmt.Errorf("PANIC: %v", r)
			}
		}()
		res, err = e.W.App.EvmKeeper.ApplyMessage(cctx, msg, tr, false)
	}()
	if err != nil {
		return nil, err
	}
	tr.VmError, tr.GasUsed, tr.Failed = res.VmError, res.GasUsed, res.Failed()
	return tr, nil
}

// Reason runs (from -> to, data) on a throw-away branch and returns the decoded revert reason
// ("" when the call succeeds); debugging aid.
func (e *Env) Reason(ctx sdk.Context, from, to common.Address, data []byte) string {
	cctx, _ := ctx.CacheContext()
	msg := &core.Message{From: from, To: &to, Nonce: e.W.App.EvmKeeper.GetNonce(cctx, from), Value: big.NewInt(0), GasLimit: 10_000_000,
		GasPrice: big.NewInt(0), GasFeeCap: big.NewInt(0), GasTipCap: big.NewInt(0), Data: data, AccessList: ethtypes.AccessList{}}
	res, err := e.W.App.EvmKeeper.ApplyMessage(cctx, msg, evmtypes.NewNoOpTracer(), false)
	if err != nil {
		return "ERR " + err.Error()
	}
	if !res.Failed() {
		return ""
	}
	if s, err := abi.UnpackRevert(common.CopyBytes(res.Ret)); err == nil {
		return res.VmError + ": " + s
	}
	return fmt.Sprintf("%s: %x", res.VmError, res.Ret)
}
