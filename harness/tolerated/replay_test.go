package tolerated

import (
	"encoding/json"
	"fmt"
	"os"
	"testing"

	"verifharness/graph"
)

func TestReplay(t *testing.T) {
	var c Consts
	graph.Const(&c)
	a := New(t, c)
	graph.RunReplay(t, a, a.W.Ctx, nil)
}

func TestPath(t *testing.T) {
	var c Consts
	graph.Const(&c)
	a := New(t, c)
	graph.RunPath(t, a, a.W.Ctx)
}

// TestSmoke is a development aid: VERIF_SMOKE holds a JSON list of operations, executed linearly on a branch.
func TestSmoke(t *testing.T) {
	if os.Getenv("VERIF_SMOKE") == "" {
		t.Skip()
	}
	var c Consts
	graph.Const(&c)
	a := New(t, c)
	fmt.Println("gas points", a.gasPts, "low", a.lowGas)
	var ops []graph.Op
	if err := json.Unmarshal([]byte(os.Getenv("VERIF_SMOKE")), &ops); err != nil {
		t.Fatal(err)
	}
	ctx, _ := a.W.Ctx.CacheContext()
	show := func() {
		b, _ := json.Marshal(a.Project(ctx))
		fmt.Println("  ", string(b))
	}
	show()
	for _, op := range ops {
		var res string
		ctx, res = a.Apply(ctx, op)
		fmt.Printf("%v -> %s %s\n", op, res, a.LastErr)
		show()
	}
}
