// Package tolerated binds spec/Tolerated.tla (C18) to the four places where fxcore deliberately
// continues after a failed sub-step:
//
//	att  : an observed event whose handler fails          (crosschain attestation.go processAttestation)
//	call : an inbound bridge call whose contract call fails (bridge_call_in.go, through executeClaim)
//	gov  : a passed proposal one of whose messages fails   (x/gov/abci.go)
//	ibc  : an IBC packet whose follow-up fails              (x/ibc/middleware, through IBC core)
//
// Every Step(boundary, failure point) is executed twice from the same pre-state: branch A with the
// provoked failure, branch B with the boundary's designated outcome only, produced by the same real
// code with a sub-step that fails (or, for att, succeeds) trivially without writing anything of its
// own.  The complete multistore dumps of A and B are compared key by key; keys that legitimately
// carry the identity of the input (the attestation record holding the claim, the proposal record
// holding its messages, the packet commitment/acknowledgement hash, harness-private 0xFE keys) are
// masked and checked separately.  The number of other differing keys is the projected "residue".
package tolerated

import (
	"bytes"
	"encoding/binary"
	"encoding/hex"
	"fmt"
	"math/big"
	"os"
	"sort"
	"strings"
	"testing"
	"time"

	sdkmath "cosmossdk.io/math"
	storetypes "cosmossdk.io/store/types"
	cmtproto "github.com/cometbft/cometbft/proto/tendermint/types"
	codectypes "github.com/cosmos/cosmos-sdk/codec/types"
	sdk "github.com/cosmos/cosmos-sdk/types"
	authtypes "github.com/cosmos/cosmos-sdk/x/auth/types"
	govtypes "github.com/cosmos/cosmos-sdk/x/gov/types"
	govv1 "github.com/cosmos/cosmos-sdk/x/gov/types/v1"
	host "github.com/cosmos/ibc-go/v8/modules/core/24-host"
	"github.com/cosmos/ibc-go/v8/modules/core/exported"
	"github.com/ethereum/go-ethereum/common"
	"github.com/ethereum/go-ethereum/core"
	ethtypes "github.com/ethereum/go-ethereum/core/types"
	"github.com/ethereum/go-ethereum/eth/tracers/logger"

	"github.com/functionx/fx-core/v8/contract"
	"github.com/functionx/fx-core/v8/testutil/helpers"
	fxtypes "github.com/functionx/fx-core/v8/types"
	crosschainkeeper "github.com/functionx/fx-core/v8/x/crosschain/keeper"
	"github.com/functionx/fx-core/v8/x/crosschain/precompile"
	"github.com/functionx/fx-core/v8/x/crosschain/types"
	erc20types "github.com/functionx/fx-core/v8/x/erc20/types"
	fxgov "github.com/functionx/fx-core/v8/x/gov"
	fxgovtypes "github.com/functionx/fx-core/v8/x/gov/types"

	"verifharness/graph"
	"verifharness/ibctransfer"
	"verifharness/world"
)

const (
	chain      = "eth"
	ibcChan    = "channel-0"
	extHeight  = 1000       // external block height of every claim (constant: no bridge-call timeout ever fires)
	storeSpace = "feegrant" // store the proposals' MsgUpdateStore messages write their marker keys to
)

var (
	unit       = sdkmath.NewInt(1_000_000_000_000_000_000)
	residueKey = []byte{0xFE, 'r', 'e', 's'}
	callAmts   = []int64{1, 2, 3}
	syms       = []string{"AAA", "BBB", "CCC"}
	holders    = []string{"worker", "rev0", "rev1", "rA", "rB", "sender", "inv0", "inv1", "under", "jump", "loop"}
	// callees that fail with a VM error other than REVERT (failure point = name of the callee)
	vmFail = map[string]string{
		"inv0":  "fe",           // INVALID at once
		"inv1":  "6001600155fe", // PUSH1 1 PUSH1 1 SSTORE INVALID
		"under": "50",           // POP on an empty stack
		"jump":  "60ff56",       // PUSH1 0xff JUMP: not a JUMPDEST
		"loop":  "5b600056",     // JUMPDEST PUSH1 0 JUMP: burns the whole gas limit inside the callee
	}
)

type Consts struct {
	MaxSteps int `json:"MaxSteps"`
	NGas     int `json:"NGas"` // number of opcode boundaries of the worker contract (checked)
}

type Adapter struct {
	W        *world.W
	C        Consts
	I        *ibctransfer.Adapter
	K        crosschainkeeper.Keeper
	ethKey   storetypes.StoreKey
	erc20Key storetypes.StoreKey
	govKey   storetypes.StoreKey
	ibcKey   storetypes.StoreKey
	feeKey   storetypes.StoreKey
	oracle   *helpers.Signer
	bridger  *helpers.Signer
	relayer  *helpers.Signer
	proposer *helpers.Signer
	tok      []string         // external token contracts A, B, C
	base     []string         // their base denoms
	erc      []common.Address // their ERC-20 contracts
	addr     map[string]common.Address
	baseObs  uint64
	baseRef  uint64
	baseProp uint64
	baseTok  int
	baseIn   uint64
	gasPts   []uint64
	lowGas   uint64
	LastErr  string
}

func must(err error) {
	if err != nil {
		panic(err)
	}
}

func mustf(ok bool, f string, a ...any) {
	if !ok {
		panic(fmt.Sprintf(f, a...))
	}
}

func New(t *testing.T, c Consts) *Adapter {
	w := world.New(t, 2)
	a := &Adapter{W: w, C: c, K: w.App.EthKeeper, addr: map[string]common.Address{}}
	// ---- boundary ibc: the C19 world (one channel; runs one real block)
	a.I = ibctransfer.NewOn(w, ibctransfer.Consts{Acct: []string{"u1", "u2"}, Chan: []string{ibcChan}, MaxSeq: 0, MaxIn: c.MaxSteps,
		InitFx: 1, InitCoin: 0, InitErc: 0, InitEsc: int64(c.MaxSteps) + 2, InitPool: 1})
	a.ethKey, a.erc20Key, a.govKey = w.App.GetKey(chain), w.App.GetKey(erc20types.StoreKey), w.App.GetKey(govtypes.StoreKey)
	a.ibcKey, a.feeKey = w.App.GetKey(exported.StoreKey), w.App.GetKey(storeSpace)
	ctx := w.Ctx
	// ---- boundaries att / call: one honest oracle holds all power of the eth bridge
	p := a.K.GetParams(ctx)
	p.DelegateThreshold = types.NewDelegateAmount(sdkmath.NewInt(1e18).MulRaw(100))
	p.DelegateMultiple = 1000
	must(w.Handle(ctx, &types.MsgUpdateParams{ChainName: chain, Authority: world.GovAddr(), Params: p}))
	a.oracle, a.bridger, a.relayer, a.proposer = w.Key("c18/oracle"), w.Key("c18/bridger"), w.Key("c18/relayer"), w.Key("c18/proposer")
	w.Fund(ctx, a.oracle.AccAddress(), 1_000_000)
	w.Fund(ctx, a.bridger.AccAddress(), 1000)
	w.Fund(ctx, a.relayer.AccAddress(), 100_000)
	w.Fund(ctx, a.proposer.AccAddress(), 1_000_000)
	must(w.Handle(ctx, &types.MsgUpdateChainOracles{ChainName: chain, Authority: world.GovAddr(), Oracles: []string{a.oracle.AccAddress().String()}}))
	must(w.Handle(ctx, &types.MsgBondedOracle{ChainName: chain, OracleAddress: a.oracle.AccAddress().String(), BridgerAddress: a.bridger.AccAddress().String(),
		ExternalAddress: world.DetExt("c18/ext/oracle"), ValidatorAddress: w.ValAddr[0].String(),
		DelegateAmount: types.NewDelegateAmount(sdkmath.NewInt(1e18).MulRaw(1000))}))
	// contracts: worker (three SSTOREs, STOP), rev0 (REVERT at once), rev1 (SSTORE then REVERT)
	a.addr["worker"] = a.I.Deploy(ctx, common.FromHex("600160005560026001556003600255"+"00"))
	a.addr["rev0"] = a.I.Deploy(ctx, common.FromHex("60006000fd"))
	a.addr["rev1"] = a.I.Reverter
	a.addr["rA"] = common.HexToAddress(world.DetExt("c18/refund/A")) // holds nothing
	a.addr["rB"] = common.HexToAddress(world.DetExt("c18/refund/B")) // holds 10 of each token of its own
	a.addr["sender"] = common.HexToAddress(world.DetExt("c18/callsender"))
	for name, code := range vmFail {
		a.addr[name] = a.I.Deploy(ctx, common.FromHex(code))
	}
	// bridge tokens A, B, C: coins registered by governance (alias = bridge denom) + observed MsgBridgeTokenClaim
	for i, s := range syms {
		tc := world.DetExt("c18/token/" + s)
		a.tok = append(a.tok, tc)
		a.base = append(a.base, strings.ToLower(s))
		must(w.Handle(ctx, &erc20types.MsgRegisterCoin{Authority: world.GovAddr(),
			Metadata: fxtypes.GetCrossChainMetadataManyToOne("Token "+s, s, 18, types.NewBridgeDenom(chain, tc))}))
		pair, ok := w.App.Erc20Keeper.GetTokenPair(ctx, a.base[i])
		mustf(ok, "pair %s", s)
		a.erc = append(a.erc, pair.GetERC20Contract())
		must(a.claim(ctx, &types.MsgBridgeTokenClaim{TokenContract: tc, Name: "Token " + s, Symbol: s, Decimals: 18}))
	}
	// rB's own holdings: observed deposits, executed
	for i := range syms {
		n := a.lastObs(ctx) + 1
		must(a.claim(ctx, &types.MsgSendToFxClaim{TokenContract: a.tok[i], Amount: unit.MulRaw(10), Sender: world.DetExt("c18/extsender"),
			Receiver: sdk.AccAddress(a.addr["rB"].Bytes()).String()}))
		ok, msg := a.execute(ctx, n)
		mustf(ok, "world: deposit: %s", msg)
	}
	// ---- boundary gov: short voting period, both validators vote
	gp, err := w.App.GovKeeper.Params.Get(ctx)
	must(err)
	vp, ep := time.Hour, 30*time.Minute
	gp.VotingPeriod, gp.ExpeditedVotingPeriod = &vp, &ep
	gp.MinDeposit = sdk.NewCoins(sdk.NewCoin(fxtypes.DefaultDenom, unit.MulRaw(10)))
	gp.ExpeditedMinDeposit = sdk.NewCoins(sdk.NewCoin(fxtypes.DefaultDenom, unit.MulRaw(20)))
	must(w.Handle(ctx, &govv1.MsgUpdateParams{Authority: world.GovAddr(), Params: gp}))
	must(w.Handle(ctx, &fxgovtypes.MsgUpdateCustomParams{Authority: world.GovAddr(), MsgUrl: sdk.MsgTypeURL(&fxgovtypes.MsgUpdateStore{}), CustomParams: fxgovtypes.CustomParams{}}))

	// ---- opcode boundaries of the worker contract for the callback of a three-token call
	a.gasPts, a.lowGas = a.traceWorker(ctx, "rA")
	mustf(len(a.gasPts) == c.NGas, "worker has %d opcode boundaries, the specification says NGas = %d", len(a.gasPts), c.NGas)

	a.baseObs, a.baseRef = a.lastObs(ctx), a.countPrefix(ctx, a.ethKey, types.OutgoingBridgeCallNonceKey)
	next, err := w.App.GovKeeper.ProposalID.Peek(ctx)
	must(err)
	a.baseProp = next - 1
	a.baseTok = int(a.countPrefix(ctx, a.ethKey, types.BridgeDenomKey))
	a.baseIn = a.I.BaseIn(ibcChan)
	mustf(w.App.EvmKeeper.GetState(ctx, a.I.Recorder, common.Hash{}) == (common.Hash{}), "world: the recorder contract has been called already")
	return a
}

func (a *Adapter) lastObs(ctx sdk.Context) uint64 {
	bz := ctx.KVStore(a.ethKey).Get(types.LastObservedEventNonceKey)
	if len(bz) == 0 {
		return 0
	}
	return binary.BigEndian.Uint64(bz)
}

func (a *Adapter) countPrefix(ctx sdk.Context, key storetypes.StoreKey, prefix []byte) uint64 {
	it := storetypes.KVStorePrefixIterator(ctx.KVStore(key), prefix)
	defer it.Close()
	n := uint64(0)
	for ; it.Valid(); it.Next() {
		n++
	}
	return n
}

// claim fills in nonce/height/bridger/chain and submits the claim as the single oracle's MsgClaim: observed at once.
func (a *Adapter) claim(ctx sdk.Context, c types.ExternalClaim) error {
	n := a.lastObs(ctx) + 1
	b := a.bridger.AccAddress().String()
	switch x := c.(type) {
	case *types.MsgBridgeTokenClaim:
		x.ChainName, x.BridgerAddress, x.EventNonce, x.BlockHeight = chain, b, n, extHeight
	case *types.MsgSendToFxClaim:
		x.ChainName, x.BridgerAddress, x.EventNonce, x.BlockHeight = chain, b, n, extHeight
	case *types.MsgOracleSetUpdatedClaim:
		x.ChainName, x.BridgerAddress, x.EventNonce, x.BlockHeight = chain, b, n, extHeight
	case *types.MsgBridgeCallClaim:
		x.ChainName, x.BridgerAddress, x.EventNonce, x.BlockHeight = chain, b, n, extHeight
	default:
		panic(fmt.Sprintf("claim %T", c))
	}
	any, err := codectypes.NewAnyWithValue(c)
	must(err)
	if err = a.W.Handle(ctx, &types.MsgClaim{ChainName: chain, BridgerAddress: b, Claim: any}); err != nil {
		return err
	}
	mustf(a.lastObs(ctx) == n, "claim %d accepted but not observed", n)
	return nil
}

// execute runs the parked claim through the executeClaim precompile in a real EVM transaction.
func (a *Adapter) execute(ctx sdk.Context, nonce uint64) (bool, string) {
	data, err := precompile.NewExecuteClaimMethod(nil).PackInput(types.ExecuteClaimArgs{Chain: chain, EventNonce: new(big.Int).SetUint64(nonce)})
	must(err)
	return a.W.EthCall(ctx, a.relayer, types.GetAddress(), 8_000_000, data)
}

// traceWorker runs the bridge callback of a three-token call against the worker contract with a
// struct logger and returns, per executed opcode, the smallest gas limit that lets exactly the
// opcodes before it run (= intrinsic gas + cost of the preceding opcodes), and a limit below the
// intrinsic gas.
func (a *Adapter) traceWorker(ctx sdk.Context, rf string) ([]uint64, uint64) {
	br, _ := ctx.CacheContext()
	amts := make([]*big.Int, len(callAmts))
	for i, n := range callAmts {
		amts[i] = unit.MulRaw(n).BigInt()
	}
	args, err := types.PackBridgeCallback(common.HexToAddress(world.DetExt("c18/callsender")), a.addr[rf], a.erc, amts, []byte{}, []byte{})
	must(err)
	const ample = 5_000_000
	from := a.K.GetCallbackFrom()
	nonce, err := a.W.App.AccountKeeper.GetSequence(br, from.Bytes())
	must(err)
	to := a.addr["worker"]
	tr := logger.NewStructLogger(&logger.Config{DisableStorage: true, DisableStack: true, EnableMemory: false})
	msg := &core.Message{To: &to, From: from, Nonce: nonce, Value: big.NewInt(0), GasLimit: ample, GasPrice: big.NewInt(0), GasFeeCap: big.NewInt(0),
		GasTipCap: big.NewInt(0), Data: args, AccessList: ethtypes.AccessList{}}
	res, err := a.W.App.EvmKeeper.ApplyMessage(br, msg, tr, true)
	must(err)
	mustf(!res.Failed(), "worker trace failed: %s", res.VmError)
	var pts []uint64
	logs := tr.StructLogs()
	for len(logs) > 0 && logs[len(logs)-1].GasCost == 0 { // a limit that only stops short of a free opcode (STOP) is enough
		logs = logs[:len(logs)-1]
	}
	for _, l := range logs {
		if l.Depth == 1 {
			pts = append(pts, ample-l.Gas)
		}
	}
	mustf(len(pts) > 0, "no opcodes traced")
	return pts, pts[0] - 1
}

func (a *Adapter) toggle(ctx sdk.Context, token string) {
	must(a.W.Handle(ctx, &erc20types.MsgToggleTokenConversion{Authority: world.GovAddr(), Token: token}))
}

func (a *Adapter) setCallGas(ctx sdk.Context, limit uint64) sdk.Context {
	p := a.K.GetParams(ctx)
	p.BridgeCallMaxGasLimit = limit
	must(a.W.Handle(ctx, &types.MsgUpdateParams{ChainName: chain, Authority: world.GovAddr(), Params: p}))
	// keeper.CallEVM replaces every limit by the block's maximum gas whenever the consensus parameters carry one
	// (that would also starve the ERC-20 mint calls of the conversion): the step runs under consensus parameters
	// without a block gas limit (max_gas = -1), where the module's BridgeCallMaxGasLimit bounds the callee alone
	cp := ctx.ConsensusParams()
	if cp.Block != nil && cp.Block.MaxGas > 0 {
		blk := *cp.Block
		blk.MaxGas = -1
		ncp := cp
		ncp.Block = &blk
		return ctx.WithConsensusParams(ncp)
	}
	return ctx
}

var _ = cmtproto.ConsensusParams{}

// ---- the four boundaries.  designated = produce the boundary's designated outcome only (branch B).

func (a *Adapter) runAtt(ctx sdk.Context, fp string, designated bool) string {
	n := a.lastObs(ctx) + 1
	var c types.ExternalClaim
	switch {
	case designated: // a claim of the same nonce whose handler only parks it (one known key, masked)
		c = &types.MsgSendToFxClaim{TokenContract: a.tok[0], Amount: unit, Sender: world.DetExt("c18/extsender"), Receiver: a.relayer.AccAddress().String()}
	case fp == "none":
		c = &types.MsgBridgeTokenClaim{TokenContract: world.DetExt(fmt.Sprintf("c18/token/new/%d", n)), Name: "New", Symbol: fmt.Sprintf("NEW%d", n), Decimals: 18}
	case fp == "exists":
		c = &types.MsgBridgeTokenClaim{TokenContract: a.tok[1], Name: "Token BBB", Symbol: "BBB", Decimals: 18}
	case fp == "fxdec":
		c = &types.MsgBridgeTokenClaim{TokenContract: world.DetExt(fmt.Sprintf("c18/token/fx/%d", n)), Name: "Function X", Symbol: fxtypes.DefaultDenom, Decimals: 6}
	case fp == "oset":
		c = &types.MsgOracleSetUpdatedClaim{OracleSetNonce: 99, Members: []types.BridgeValidator{{Power: 1, ExternalAddress: world.DetExt("c18/ext/oracle")}}}
	default:
		panic("att failure point " + fp)
	}
	if err := a.claim(ctx, c); err != nil {
		a.LastErr = err.Error()
		return "rej"
	}
	return "ok"
}

func gasIndex(fp string) (int, bool) {
	var i int
	if _, err := fmt.Sscanf(fp, "gas%d", &i); err == nil && strings.HasPrefix(fp, "gas") && fp != "gaslow" {
		return i, true
	}
	return 0, false
}

func (a *Adapter) runCall(ctx sdk.Context, fp, rf string, designated bool) string {
	target, memo := "worker", ""
	toks := append([]string{}, a.tok...)
	var off []int // token pairs disabled for the duration of the step
	limit := uint64(0)
	switch {
	case fp == "none":
	case fp == "revert0":
		target = "rev0"
	case fp == "revert1":
		target = "rev1"
	case vmFail[fp] != "":
		target = fp
	case fp == "sct0": // "send call to" memo: the tokens go to the sender, who calls the target himself
		target, memo = "rev0", hex.EncodeToString(types.MemoSendCallTo.Bytes())
	case fp == "sct1":
		target, memo = "rev1", hex.EncodeToString(types.MemoSendCallTo.Bytes())
	case fp == "unknown":
		toks[1] = world.DetExt("c18/token/unregistered")
	case fp == "gaslow":
		_, limit = a.traceWorker(ctx, rf)
	case strings.HasPrefix(fp, "pair"):
		var k int
		_, err := fmt.Sscanf(fp, "pair%d", &k)
		must(err)
		off = []int{k - 1}
		if designated && k != 1 {
			off = []int{0, k - 1} // the very first conversion fails: nothing was written before it
		}
	default:
		// the opcode boundaries depend on the state (SSTORE to a slot already set is cheaper) and on the call data:
		// traced on a scratch branch of this very pre-state
		i, ok := gasIndex(fp)
		pts, _ := a.traceWorker(ctx, rf)
		mustf(ok && i < len(pts), "call failure point %s", fp)
		limit = pts[i]
	}
	if designated && !strings.HasPrefix(fp, "pair") {
		target = "rev0" // the contract call fails at once, before writing anything
	}
	for _, k := range off {
		a.toggle(ctx, a.base[k])
	}
	run := ctx
	if limit > 0 {
		run = a.setCallGas(ctx, limit)
	}
	amts := make([]sdkmath.Int, len(callAmts))
	for i, n := range callAmts {
		amts[i] = unit.MulRaw(n)
	}
	n := a.lastObs(ctx) + 1
	err := a.claim(ctx, &types.MsgBridgeCallClaim{Sender: world.DetExt("c18/callsender"), Refund: a.addr[rf].Hex(), TokenContracts: toks, Amounts: amts,
		To: a.addr[target].Hex(), Data: "", Value: sdkmath.ZeroInt(), Memo: memo, TxOrigin: world.DetExt("c18/txorigin")})
	if err != nil {
		a.LastErr = err.Error()
		return "rej"
	}
	// anybody executes the parked claim; a refusal leaves it parked
	if ok, msg := a.execute(run, n); !ok {
		a.LastErr = msg
	}
	if limit > 0 {
		a.setCallGas(ctx, types.MaxGasLimit)
	}
	for _, k := range off {
		a.toggle(ctx, a.base[k])
	}
	return "ok"
}

func markerKey(p uint64, i int) []byte { return []byte(fmt.Sprintf("verif/c18/%d/%d", p, i)) }

func (a *Adapter) storeMsg(ups ...fxgovtypes.UpdateStore) sdk.Msg {
	return &fxgovtypes.MsgUpdateStore{Authority: world.GovAddr(), UpdateStores: ups}
}

func goodUpdate(p uint64, i int) fxgovtypes.UpdateStore {
	return fxgovtypes.UpdateStore{Space: storeSpace, Key: hex.EncodeToString(markerKey(p, i)), OldValue: "", Value: "01"}
}

func badUpdate(p uint64, i int) fxgovtypes.UpdateStore { // the old value does not match: refused at the handler's first check
	return fxgovtypes.UpdateStore{Space: storeSpace, Key: hex.EncodeToString(markerKey(p, i)), OldValue: "ff", Value: "01"}
}

// runGov submits a proposal of three messages, lets both validators vote yes, and ends the block in
// which the voting period is over (real gov EndBlocker).  Returns the block time reached.
func (a *Adapter) runGov(ctx sdk.Context, fp string, designated bool) (string, time.Time) {
	w := a.W
	next, err := w.App.GovKeeper.ProposalID.Peek(ctx)
	must(err)
	pos := map[string]int{"first": 0, "middle": 1, "last": 2}
	var msgs []sdk.Msg
	switch {
	case fp == "none":
		msgs = []sdk.Msg{a.storeMsg(goodUpdate(next, 0)), a.storeMsg(goodUpdate(next, 1)), a.storeMsg(goodUpdate(next, 2))}
	case designated: // the first message fails before anything was written
		msgs = []sdk.Msg{a.storeMsg(badUpdate(next, 0)), a.storeMsg(goodUpdate(next, 1)), a.storeMsg(goodUpdate(next, 2))}
	case fp == "midwrite": // the second message writes one key, then fails on its second update
		msgs = []sdk.Msg{a.storeMsg(goodUpdate(next, 0)), a.storeMsg(goodUpdate(next, 1), badUpdate(next, 2)), a.storeMsg(goodUpdate(next, 3))}
	default:
		k, ok := pos[fp]
		mustf(ok, "gov failure point %s", fp)
		for i := 0; i < 3; i++ {
			if i == k {
				msgs = append(msgs, a.storeMsg(badUpdate(next, i)))
			} else {
				msgs = append(msgs, a.storeMsg(goodUpdate(next, i)))
			}
		}
	}
	gp, err := w.App.GovKeeper.Params.Get(ctx)
	must(err)
	sub, err := govv1.NewMsgSubmitProposal(msgs, gp.MinDeposit, a.proposer.AccAddress().String(), "", "C18", "tolerated failure "+fp, false)
	must(err)
	if err = w.Handle(ctx, sub); err != nil {
		a.LastErr = err.Error()
		return "rej", ctx.BlockTime()
	}
	for _, v := range w.ValAddr {
		if err = w.Handle(ctx, &govv1.MsgVote{ProposalId: next, Voter: sdk.AccAddress(v).String(), Option: govv1.OptionYes}); err != nil {
			a.LastErr = err.Error()
			return "rej", ctx.BlockTime()
		}
	}
	prop, err := w.App.GovKeeper.Proposals.Get(ctx, next)
	must(err)
	mustf(prop.VotingEndTime != nil, "proposal %d is not in its voting period", next)
	end := prop.VotingEndTime.Add(time.Second)
	if e := fxgov.EndBlocker(ctx.WithBlockTime(end), w.App.GovKeeper); e != nil {
		panic(fmt.Sprintf("gov EndBlocker failed: %v", e))
	}
	return "ok", end
}

// ibcFails classifies a packet from its two follow-ups alone (mirrors IbcFails of the specification; used only to
// decide whether the differential oracle runs - the verdict comes from the formulas).
func ibcFails(fp, mk string) bool {
	return (fp != "none" && fp != "fx") || mk == "rev0" || mk == "rev1" || mk == "invalid"
}

// runIbc receives one packet: fp is its coin / receiver class (what becomes of the first follow-up, the move of the
// received coin into the EVM), mk its memo (what becomes of the second follow-up).  Every combination is a packet.
func (a *Adapter) runIbc(ctx sdk.Context, fp, mk string, designated bool) string {
	u := a.I.User("u1")
	receiver, class, memo := u.Address().Hex(), "t1", ""
	pairOff := false
	switch mk {
	case "none":
	case "text": // free text: not an ibc call, ignored by design
		memo = "invoice 0000"
	case "json": // JSON of another protocol: not an ibc call, ignored by design
		memo = `{"wasm":{"contract":"x","msg":{}}}`
	case "call": // the called contract records its caller
		memo = a.I.CallMemo(a.I.Recorder.Hex())
	case "rev0": // the called contract reverts at once
		memo = a.I.CallMemo(a.addr["rev0"].Hex())
	case "rev1": // the called contract writes and reverts
		memo = a.I.CallMemo(a.addr["rev1"].Hex())
	case "invalid": // the call packet fails its validation
		memo = a.I.CallMemo("0xzz")
	default:
		panic("ibc memo kind " + mk)
	}
	switch fp {
	case "none": // voucher with a token pair: minted, converted to ERC-20
	case "fx": // the native coin comes home: paid out, nothing to convert
		class = "fx"
	case "alias": // voucher minted, then the conversion of the bridged alias fails
		class = "tb"
	case "unknown": // voucher minted, no such token
		class = "vx"
	case "bech": // voucher minted to a bech32 receiver: only hex receivers are converted
		receiver = u.AccAddress().String()
	case "pairOff": // voucher minted and parked, then the token pair is disabled
		pairOff = true
	default:
		panic("ibc failure point " + fp)
	}
	if designated { // refused by the middleware's first check, before the transfer application runs
		receiver, memo = "zz", ""
	}
	if pairOff {
		a.toggle(ctx, ibctransfer.VoucherV(ibcChan))
	}
	_, res := a.I.Recv(ctx, ibcChan, receiver, ibctransfer.DenomOf(class, ibcChan), 1, a.I.ExtAddr(), memo)
	if res != "ok" {
		a.LastErr = a.I.LastErr
		return "rej"
	}
	if pairOff {
		a.toggle(ctx, ibctransfer.VoucherV(ibcChan))
	}
	return "ok"
}

func (a *Adapter) run(ctx sdk.Context, b, fp, rf, mk string, designated bool) (string, time.Time) {
	switch b {
	case "att":
		return a.runAtt(ctx, fp, designated), ctx.BlockTime()
	case "call":
		return a.runCall(ctx, fp, rf, designated), ctx.BlockTime()
	case "gov":
		return a.runGov(ctx, fp, designated)
	case "ibc":
		return a.runIbc(ctx, fp, mk, designated), ctx.BlockTime()
	}
	panic("boundary " + b)
}

// ---- differential oracle

type kv = map[string]map[string]string

func (a *Adapter) dump(ctx sdk.Context) kv {
	out := kv{}
	for _, k := range a.W.StoreKeys() {
		m := map[string]string{}
		it := ctx.KVStore(k).Iterator(nil, nil)
		for ; it.Valid(); it.Next() {
			m[string(it.Key())] = string(it.Value())
		}
		it.Close()
		out[k.Name()] = m
	}
	return out
}

// masked: keys that carry the identity of the step's input (checked by the boundary's own formula) or are harness-private.
// valueOnly keys must exist on both sides but may differ in value (hash of the error acknowledgement).
func (a *Adapter) masked(pre sdk.Context, b, fp string) (skip func(store, key string) bool, valueOnly func(store, key string) bool) {
	exact := map[string]bool{}
	vonly := map[string]bool{}
	var prefixes [][2]string
	switch b {
	case "att":
		prefixes = append(prefixes, [2]string{chain, string(types.OracleAttestationKey)}, [2]string{chain, string(types.PendingExecuteClaimKey)})
	case "call":
		prefixes = append(prefixes, [2]string{chain, string(types.OracleAttestationKey)}, [2]string{chain, string(types.PendingExecuteClaimKey)})
		if strings.HasPrefix(fp, "pair") { // B additionally disables the first pair for the duration of the step; restored afterwards
			if pair, ok := a.W.App.Erc20Keeper.GetTokenPair(pre, a.base[0]); ok {
				exact[erc20types.StoreKey+"|"+string(append(append([]byte{}, erc20types.KeyPrefixTokenPair...), pair.GetID()...))] = true
			}
		}
	case "gov":
		next, err := a.W.App.GovKeeper.ProposalID.Peek(pre)
		must(err)
		exact[govtypes.StoreKey+"|"+string(append(govtypes.ProposalsKeyPrefix.Bytes(), sdk.Uint64ToBigEndian(next)...))] = true
	case "ibc":
		seq := a.I.NextIn(pre, ibcChan)
		exact[exported.StoreKey+"|"+string(host.PacketCommitmentKey("transfer", ibctransfer.Their(ibcChan), seq))] = true
		vonly[exported.StoreKey+"|"+string(host.PacketAcknowledgementKey("transfer", ibcChan, seq))] = true
	}
	skip = func(store, key string) bool {
		if len(key) > 0 && key[0] == 0xFE {
			return true
		}
		if exact[store+"|"+key] {
			return true
		}
		for _, p := range prefixes {
			if p[0] == store && strings.HasPrefix(key, p[1]) {
				return true
			}
		}
		return false
	}
	valueOnly = func(store, key string) bool { return vonly[store+"|"+key] }
	return
}

func diff(x, y kv, skip, valueOnly func(store, key string) bool) []string {
	var out []string
	for _, s := range sortedKeys(x) {
		for k, v := range x[s] {
			if skip(s, k) {
				continue
			}
			w, ok := y[s][k]
			if !ok {
				out = append(out, fmt.Sprintf("%s: only A has %x=%x", s, k, v))
			} else if w != v && !valueOnly(s, k) {
				out = append(out, fmt.Sprintf("%s: %x A=%x B=%x", s, k, v, w))
			}
		}
		for k, w := range y[s] {
			if _, ok := x[s][k]; !ok && !skip(s, k) {
				out = append(out, fmt.Sprintf("%s: only B has %x=%x", s, k, w))
			}
		}
	}
	sort.Strings(out)
	return out
}

func sortedKeys(m kv) []string {
	var out []string
	for k := range m {
		out = append(out, k)
	}
	sort.Strings(out)
	return out
}

func (a *Adapter) Apply(ctx sdk.Context, op graph.Op) (sdk.Context, string) {
	if op.Name() != "Step" {
		panic("unknown op " + op.Name())
	}
	b, fp, rf, mk := op.Str("b"), op.Str("fp"), op.Str("rf"), op.Str("mk")
	failing := fp != "none"
	if b == "ibc" {
		failing = ibcFails(fp, mk)
	}
	a.LastErr = ""
	brA, writeA := ctx.CacheContext()
	resA, tA := a.run(brA, b, fp, rf, mk, false)
	if resA != "ok" {
		if os.Getenv("VERIF_DEBUG") != "" {
			fmt.Printf("DEBUG %v -> %s\n", op, a.LastErr)
		}
		return ctx, "rej"
	}
	errA := a.LastErr
	residue := int64(0)
	if failing {
		brB, _ := ctx.CacheContext()
		resB, _ := a.run(brB, b, fp, rf, mk, true)
		if resB != "ok" {
			panic(fmt.Sprintf("designated outcome of %s/%s/%s could not be produced: %s", b, fp, mk, a.LastErr))
		}
		skip, vonly := a.masked(ctx, b, fp)
		d := diff(a.dump(brA), a.dump(brB), skip, vonly)
		residue = int64(len(d))
		if os.Getenv("VERIF_DEBUG") != "" && len(d) > 0 {
			fmt.Printf("DEBUG residue of %v (%s):\n  %s\n", op, errA, strings.Join(d, "\n  "))
		}
	}
	writeA()
	bz := make([]byte, 8)
	binary.BigEndian.PutUint64(bz, uint64(residue))
	ctx.KVStore(a.ethKey).Set(residueKey, bz)
	if os.Getenv("VERIF_DEBUG") == "2" {
		fmt.Printf("DEBUG %v -> ok (%s) residue %d\n", op, errA, residue)
	}
	if tA.After(ctx.BlockTime()) {
		return ctx.WithBlockTime(tA), "ok"
	}
	return ctx, "ok"
}

type refAbs struct {
	Who string  `json:"who"`
	Amt []int64 `json:"amt"`
}

func units(x sdkmath.Int) int64 {
	q := x.Quo(unit)
	if !q.Mul(unit).Equal(x) {
		return -777
	}
	return q.Int64()
}

// Project reads the crosschain store (0x24 last observed nonce, 0x54 parked claims, 0x48 outgoing bridge
// calls, 0x60 bridge denoms), bank + ERC-20 balances of the call's parties, contract storage, the gov
// proposals, the marker keys, the IBC acknowledgements, slot 0 of the recorder contract (target of the
// packets' successful memo calls) and the residue of the last step.
func (a *Adapter) Project(ctx sdk.Context) any {
	w, c := a.W, a.C
	cdc := w.App.AppCodec()
	eth := ctx.KVStore(a.ethKey)
	n := c.MaxSteps + 1
	who := func(ext string) string {
		for _, h := range []string{"rA", "rB"} {
			if strings.EqualFold(a.addr[h].Hex(), ext) {
				return h
			}
		}
		return "?" + ext
	}
	refs := make([]refAbs, n)
	for i := range refs {
		refs[i] = refAbs{Who: "none", Amt: []int64{0, 0, 0}}
	}
	nref := int64(0)
	it := storetypes.KVStorePrefixIterator(eth, types.OutgoingBridgeCallNonceKey)
	for ; it.Valid(); it.Next() {
		var oc types.OutgoingBridgeCall
		cdc.MustUnmarshal(it.Value(), &oc)
		if oc.Nonce <= a.baseRef {
			continue
		}
		nref++
		i := int(oc.Nonce-a.baseRef) - 1
		if i >= n {
			continue
		}
		r := refAbs{Who: who(oc.Refund), Amt: []int64{0, 0, 0}}
		if oc.Sender != oc.Refund {
			r.Who += "!sender"
		}
		for _, t := range oc.Tokens {
			known := false
			for j := range a.tok {
				if strings.EqualFold(a.tok[j], t.Contract) {
					r.Amt[j] += units(t.Amount)
					known = true
				}
			}
			if !known {
				r.Who += "!token"
			}
		}
		refs[i] = r
	}
	it.Close()
	held := map[string]int64{}
	evmFrom := common.BytesToAddress(authtypes.NewModuleAddress("evm"))
	for _, h := range holders {
		addr := a.addr[h]
		tot := int64(0)
		for i := range a.tok {
			tot += units(w.App.BankKeeper.GetBalance(ctx, addr.Bytes(), a.base[i]).Amount)
			tot += units(w.App.BankKeeper.GetBalance(ctx, addr.Bytes(), types.NewBridgeDenom(chain, a.tok[i])).Amount)
			var out struct{ Value *big.Int }
			must(w.App.EvmKeeper.QueryContract(ctx, evmFrom, a.erc[i], contract.GetFIP20().ABI, "balanceOf", &out, addr))
			tot += units(sdkmath.NewIntFromBigInt(out.Value))
		}
		held[h] = tot
	}
	wslot := int64(0)
	for i := 0; i < 3; i++ {
		if w.App.EvmKeeper.GetState(ctx, a.addr["worker"], common.BigToHash(big.NewInt(int64(i)))) != (common.Hash{}) {
			wslot++
		}
	}
	rslot := int64(0)
	for _, c := range []string{"rev1", "inv1"} {
		if w.App.EvmKeeper.GetState(ctx, a.addr[c], common.BigToHash(big.NewInt(1))) != (common.Hash{}) {
			rslot++
		}
	}
	pstat := make([]string, n)
	for i := range pstat {
		pstat[i] = "none"
		if prop, err := w.App.GovKeeper.Proposals.Get(ctx, a.baseProp+uint64(i+1)); err == nil {
			switch prop.Status {
			case govv1.StatusPassed:
				pstat[i] = "passed"
			case govv1.StatusFailed:
				pstat[i] = "failed"
			default:
				pstat[i] = "?" + prop.Status.String()
			}
		}
	}
	next, err := w.App.GovKeeper.ProposalID.Peek(ctx)
	must(err)
	acks := make([]string, n)
	for i := range acks {
		acks[i] = a.I.AckOf(ctx, ibcChan, a.baseIn+uint64(i+1))
	}
	vcred := int64(0)
	for _, u := range []string{"u1", "u2"} {
		vcred += a.I.BalanceOf(ctx, a.I.TokV(ibcChan), a.I.User(u).Address())
	}
	residue := int64(0)
	if bz := eth.Get(residueKey); len(bz) == 8 {
		residue = int64(binary.BigEndian.Uint64(bz))
	}
	return map[string]any{
		"nobs": int64(a.lastObs(ctx) - a.baseObs), "parked": int64(a.countPrefix(ctx, a.ethKey, types.PendingExecuteClaimKey)),
		"nref": nref, "refs": refs, "held": held, "wslot": wslot, "rslot": rslot,
		"ntok": int64(int(a.countPrefix(ctx, a.ethKey, types.BridgeDenomKey)) - a.baseTok),
		"np":   int64(next-1) - int64(a.baseProp), "pstat": pstat, "gmark": int64(a.countPrefix(ctx, a.feeKey, []byte("verif/c18/"))),
		"nin": int64(a.I.NextIn(ctx, ibcChan)-1) - int64(a.baseIn), "ack": acks, "vcred": vcred,
		"icall": w.App.EvmKeeper.GetState(ctx, a.I.Recorder, common.Hash{}) != (common.Hash{}), "residue": residue,
	}
}

var _ = bytes.Equal
