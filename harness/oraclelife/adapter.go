// Package oraclelife binds spec/OracleLife.tla (property C13) to the real crosschain keeper of one
// chain module and to the real staking, bank and distribution modules underneath it.
package oraclelife

import (
	"encoding/hex"
	"fmt"
	"os"
	"time"

	sdkmath "cosmossdk.io/math"
	storetypes "cosmossdk.io/store/types"
	sdk "github.com/cosmos/cosmos-sdk/types"
	distrtypes "github.com/cosmos/cosmos-sdk/x/distribution/types"
	"github.com/evmos/ethermint/crypto/ethsecp256k1"

	"github.com/functionx/fx-core/v8/testutil/helpers"
	fxtypes "github.com/functionx/fx-core/v8/types"
	crosschainkeeper "github.com/functionx/fx-core/v8/x/crosschain/keeper"
	"github.com/functionx/fx-core/v8/x/crosschain/types"

	"verifharness/graph"
	"verifharness/world"
)

// one coin of the specification = one power unit = 1e20 base units
var coin = sdkmath.NewInt(1).MulRaw(1e18).MulRaw(100)

const (
	startFX      = 10_000 // every oracle account starts with 100 coins
	signedWindow = 2
)

type Adapter struct {
	W        *world.W
	Chain    string
	K        crosschainkeeper.Keeper
	Oracles  []string
	Bridgers []string
	Exts     []string
	Vals     []string
	Thr      int64
	Mult     int64
	storeKey storetypes.StoreKey
	start    map[string]sdkmath.Int // oracle account balance at the start
	supply0  sdkmath.Int
	faucet   *helpers.Signer
}

func (a *Adapter) oracleKey(o string) *helpers.Signer  { return a.W.Key(a.Chain + "/oracle/" + o) }
func (a *Adapter) bridgerKey(b string) *helpers.Signer { return a.W.Key(a.Chain + "/bridger/" + b) }
func (a *Adapter) extKey(e string) *helpers.Signer     { return a.W.Key(a.Chain + "/extkey/" + e) }
func (a *Adapter) extAddr(e string) string             { return a.extKey(e).Address().Hex() }
func (a *Adapter) valAddr(v string) sdk.ValAddress {
	for i, n := range a.Vals {
		if n == v {
			return a.W.ValAddr[i]
		}
	}
	panic("unknown validator " + v)
}

func keeperOf(w *world.W, chain string) crosschainkeeper.Keeper {
	switch chain {
	case "eth":
		return w.App.EthKeeper
	case "bsc":
		return w.App.BscKeeper
	case "polygon":
		return w.App.PolygonKeeper
	case "avalanche":
		return w.App.AvalancheKeeper
	case "arbitrum":
		return w.App.ArbitrumKeeper
	case "optimism":
		return w.App.OptimismKeeper
	case "layer2":
		return w.App.Layer2Keeper
	}
	panic("unknown chain " + chain)
}

func must(err error) {
	if err != nil {
		panic(err)
	}
}

type Consts struct {
	Chain   string   `json:"chain"`
	Oracle  []string `json:"Oracle"`
	Bridger []string `json:"Bridger"`
	Ext     []string `json:"Ext"`
	Val     []string `json:"Val"`
	Thr     int64    `json:"Thr"`
	Mult    int64    `json:"Mult"`
}

// Build creates the world of OracleLife.tla's Init through governance-authority messages: nobody registered,
// everybody approved, stake bounds [Thr, Thr*Mult] coins, slash fraction 1/2, signed window 2 blocks, an oracle
// set request on every end block in which online oracles exist (power-change threshold 0).
func Build(w *world.W, c Consts) *Adapter {
	a := &Adapter{W: w, Chain: c.Chain, K: keeperOf(w, c.Chain), Oracles: c.Oracle, Bridgers: c.Bridger, Exts: c.Ext, Vals: c.Val,
		Thr: c.Thr, Mult: c.Mult, start: map[string]sdkmath.Int{}}
	if len(c.Val) > len(w.ValAddr) {
		panic("not enough validators")
	}
	a.storeKey = w.App.GetKey(c.Chain)
	ctx := w.Ctx
	p := a.K.GetParams(ctx)
	p.DelegateThreshold = types.NewDelegateAmount(coin.MulRaw(c.Thr))
	p.DelegateMultiple = c.Mult
	p.SlashFraction = sdkmath.LegacyNewDecWithPrec(5, 1)
	p.SignedWindow = signedWindow
	p.OracleSetUpdatePowerChangePercent = sdkmath.LegacyZeroDec()
	must(w.Handle(ctx, &types.MsgUpdateParams{ChainName: c.Chain, Authority: world.GovAddr(), Params: p}))
	var all []string
	for _, o := range c.Oracle {
		k := a.oracleKey(o)
		w.Fund(ctx, k.AccAddress(), startFX)
		a.start[o] = w.App.BankKeeper.GetBalance(ctx, k.AccAddress(), fxtypes.DefaultDenom).Amount
		all = append(all, k.AccAddress().String())
	}
	must(w.Handle(ctx, &types.MsgUpdateChainOracles{ChainName: c.Chain, Authority: world.GovAddr(), Oracles: all}))
	a.faucet = w.Key(c.Chain + "/faucet")
	w.Fund(ctx, a.faucet.AccAddress(), 1000)
	a.supply0 = w.App.BankKeeper.GetSupply(ctx, fxtypes.DefaultDenom).Amount
	return a
}

func (a *Adapter) record(ctx sdk.Context, o string) (types.Oracle, bool) {
	bz := ctx.KVStore(a.storeKey).Get(types.GetOracleKey(a.oracleKey(o).AccAddress()))
	if bz == nil {
		return types.Oracle{}, false
	}
	var or types.Oracle
	a.W.App.AppCodec().MustUnmarshal(bz, &or)
	return or, true
}

// penalty owed according to the specification's formula (fraction 1/2), from the raw record
func penaltyOf(or types.Oracle) sdkmath.Int {
	if or.SlashTimes <= 0 {
		return sdkmath.ZeroInt()
	}
	p := or.DelegateAmount.MulRaw(or.SlashTimes).QuoRaw(2)
	return sdkmath.MinInt(p, or.DelegateAmount)
}

func (a *Adapter) setOf(op graph.Op) map[string]bool {
	set, _ := op["set"].(map[string]any)
	out := map[string]bool{}
	for _, o := range a.Oracles {
		if in, _ := set[o].(bool); in {
			out[o] = true
		}
	}
	return out
}

func debugf(format string, args ...any) {
	if os.Getenv("VERIF_DEBUG") != "" {
		fmt.Printf("DEBUG "+format+"\n", args...)
	}
}

// confirmOutstanding lets every oracle of `who` confirm, with a real signature of its external key over the
// real checkpoint, every not yet slashed oracle-set request it is a MEMBER of (requests list the oracles that were
// online when they were created, i.e. those that had joined by then).  Deliberately not decided from the record's
// StartHeight: that field is what the code under test maintains.
func (a *Adapter) confirmOutstanding(ctx sdk.Context, who map[string]bool) {
	extName := map[string]string{}
	for _, e := range a.Exts {
		extName[a.extAddr(e)] = e
	}
	var sets []*types.OracleSet
	a.K.IterateOracleSetByNonce(ctx, a.K.GetLastSlashedOracleSetNonce(ctx)+1, func(s *types.OracleSet) bool {
		sets = append(sets, s)
		return false
	})
	for _, o := range a.Oracles {
		if !who[o] {
			continue
		}
		or, found := a.record(ctx, o)
		if !found {
			continue
		}
		e, ok := extName[or.ExternalAddress]
		if !ok {
			continue
		}
		priv, err := a.extKey(e).PrivKey().(*ethsecp256k1.PrivKey).ToECDSA()
		must(err)
		for _, s := range sets {
			member := false
			for _, m := range s.Members {
				if m.ExternalAddress == or.ExternalAddress {
					member = true
				}
			}
			if !member || a.K.GetOracleSetConfirm(ctx, s.Nonce, or.GetOracle()) != nil {
				continue
			}
			checkpoint, err := s.GetCheckpoint(a.K.GetGravityID(ctx))
			must(err)
			sig, err := types.NewEthereumSignature(checkpoint, priv)
			must(err)
			msg := &types.MsgOracleSetConfirm{Nonce: s.Nonce, BridgerAddress: or.BridgerAddress, ExternalAddress: or.ExternalAddress,
				Signature: hex.EncodeToString(sig), ChainName: a.Chain}
			if err = a.W.Handle(ctx, msg); err != nil {
				debugf("confirm of set %d by %s refused: %v", s.Nonce, o, err)
			}
		}
	}
}

// Apply implements graph.Adapter.
func (a *Adapter) Apply(ctx sdk.Context, op graph.Op) (sdk.Context, string) {
	w := a.W
	var err error
	switch op.Name() {
	case "Bond":
		o, b, e, v := op.Str("o"), op.Str("b"), op.Str("e"), op.Str("v")
		err = w.Handle(ctx, &types.MsgBondedOracle{
			ChainName: a.Chain, OracleAddress: a.oracleKey(o).AccAddress().String(), BridgerAddress: a.bridgerKey(b).AccAddress().String(),
			ExternalAddress: a.extAddr(e), ValidatorAddress: a.valAddr(v).String(),
			DelegateAmount: types.NewDelegateAmount(coin.MulRaw(op.Int("n"))),
		})
	case "AddDelegate":
		o := op.Str("o")
		amt := coin.MulRaw(op.Int("n"))
		if or, found := a.record(ctx, o); found {
			amt = amt.Add(penaltyOf(or))
		}
		// the coin is built without sdk.NewCoin's own validation so that a non-positive amount reaches ValidateBasic
		err = w.Handle(ctx, &types.MsgAddDelegate{ChainName: a.Chain, OracleAddress: a.oracleKey(o).AccAddress().String(),
			Amount: sdk.Coin{Denom: fxtypes.DefaultDenom, Amount: amt}})
	case "ReDelegate":
		err = w.Handle(ctx, &types.MsgReDelegate{ChainName: a.Chain, OracleAddress: a.oracleKey(op.Str("o")).AccAddress().String(),
			ValidatorAddress: a.valAddr(op.Str("v")).String()})
	case "EditBridger":
		// MsgEditBridger.ValidateBasic parses the bridger as a validator address and can never pass the router on this tree
		// (DESIGN §7 row 15); the handler is driven directly, as the repository's own tests do.
		msg := &types.MsgEditBridger{ChainName: a.Chain, OracleAddress: a.oracleKey(op.Str("o")).AccAddress().String(),
			BridgerAddress: a.bridgerKey(op.Str("b")).AccAddress().String()}
		err = world.Atomic(ctx, func(c sdk.Context) error {
			_, e := crosschainkeeper.NewMsgServerImpl(a.K).EditBridger(c, msg)
			return e
		})
	case "WithdrawReward":
		err = w.Handle(ctx, &types.MsgWithdrawReward{ChainName: a.Chain, OracleAddress: a.oracleKey(op.Str("o")).AccAddress().String()})
	case "Unbond":
		err = w.Handle(ctx, &types.MsgUnbondedOracle{ChainName: a.Chain, OracleAddress: a.oracleKey(op.Str("o")).AccAddress().String()})
	case "GovSet":
		set := a.setOf(op)
		var list []string
		for _, o := range a.Oracles {
			if set[o] {
				list = append(list, a.oracleKey(o).AccAddress().String())
			}
		}
		err = w.Handle(ctx, &types.MsgUpdateChainOracles{ChainName: a.Chain, Authority: world.GovAddr(), Oracles: list})
	case "Slash":
		// what keeper.slashing does for one oracle that missed its confirmations
		addr := a.oracleKey(op.Str("o")).AccAddress()
		or, found := a.K.GetOracle(ctx, addr)
		if !found || !or.Online {
			return ctx, "rej"
		}
		a.K.SlashOracle(ctx, addr.String())
		a.K.SetLastTotalPower(ctx)
	case "ObjectAges":
		who := a.setOf(op)
		err = world.Atomic(ctx, func(c sdk.Context) error {
			a.confirmOutstanding(c, who) // requests left over from earlier end blocks
			a.K.EndBlocker(c)            // creates the oracle-set request of this block
			a.confirmOutstanding(c, who)
			return nil
		})
		if err != nil {
			break
		}
		aged := withHeight(ctx, ctx.BlockHeight()+signedWindow+1)
		err = world.Atomic(aged, func(c sdk.Context) error {
			a.K.EndBlocker(c)
			return nil
		})
		if err != nil {
			break
		}
		return withHeight(aged, aged.BlockHeight()+1), "ok"
	case "TimePasses":
		ut, e := w.App.StakingKeeper.UnbondingTime(ctx)
		must(e)
		later := withTime(ctx, ctx.BlockTime().Add(ut+time.Hour))
		if _, e = w.App.StakingKeeper.BlockValidatorUpdates(later); e != nil {
			panic(e)
		}
		return later, "ok"
	case "Reward":
		// what distribution's begin blocker does with the fees collected in the previous block, per validator
		// (a new block: a delegation earns nothing in the block it was created in)
		ctx = withHeight(ctx, ctx.BlockHeight()+1)
		for _, v := range a.Vals {
			val, e := w.App.StakingKeeper.GetValidator(ctx, a.valAddr(v))
			must(e)
			coins := sdk.NewCoins(world.FX(1))
			must(w.App.BankKeeper.SendCoinsFromAccountToModule(ctx, a.faucet.AccAddress(), distrtypes.ModuleName, coins))
			must(w.App.DistrKeeper.AllocateTokensToValidator(ctx, val, sdk.NewDecCoinsFromCoins(coins...)))
		}
	default:
		panic("unknown op " + op.Name())
	}
	if err != nil {
		debugf("%v -> %v", op, err)
		return ctx, "rej"
	}
	return ctx, "ok"
}

// withTime / withHeight derive the context of a later block: block header AND header info (staking's
// redelegation queue reads the latter), as a real block sets both.
func withTime(ctx sdk.Context, t time.Time) sdk.Context {
	hi := ctx.HeaderInfo()
	hi.Time = t
	return ctx.WithBlockTime(t).WithHeaderInfo(hi)
}

func withHeight(ctx sdk.Context, h int64) sdk.Context {
	hi := ctx.HeaderInfo()
	hi.Height = h
	return ctx.WithBlockHeight(h).WithHeaderInfo(hi)
}

// units splits an amount into whole coins and a remainder (floor division, also for negative amounts).
func units(x sdkmath.Int) (int64, sdkmath.Int) {
	q := x.Quo(coin)
	r := x.Sub(q.Mul(coin))
	if r.IsNegative() {
		q = q.SubRaw(1)
		r = r.Add(coin)
	}
	return q.Int64(), r
}

// Project reads the crosschain store prefixes 0x12 0x13 0x14 0x38 raw, the staking delegations / unbonding
// delegations / redelegations of every oracle's delegate address, bank balances and supply, and the pending
// distribution rewards into OracleLife.tla's Abs.
func (a *Adapter) Project(ctx sdk.Context) any {
	st := ctx.KVStore(a.storeKey)
	cdc := a.W.App.AppCodec()
	sk := a.W.App.StakingKeeper
	bank := a.W.App.BankKeeper
	oname, bname, ename, vname := map[string]string{}, map[string]string{}, map[string]string{}, map[string]string{}
	for _, o := range a.Oracles {
		oname[a.oracleKey(o).AccAddress().String()] = o
	}
	for _, b := range a.Bridgers {
		bname[a.bridgerKey(b).AccAddress().String()] = b
	}
	for _, e := range a.Exts {
		ename[a.extAddr(e)] = e
	}
	for _, v := range a.Vals {
		vname[a.valAddr(v).String()] = v
	}
	nameOr := func(m map[string]string, k string) string {
		if n, ok := m[k]; ok {
			return n
		}
		return "?" + k
	}
	reg, online, approved := map[string]bool{}, map[string]bool{}, map[string]bool{}
	bridger, ext, val, redelTo := map[string]string{}, map[string]string{}, map[string]string{}, map[string]string{}
	rec, slashTimes := map[string]int64{}, map[string]int64{}
	bidx, eidx := map[string]string{}, map[string]string{}
	deleg, stray, unb, dbal, bal := map[string]int64{}, map[string]int64{}, map[string]int64{}, map[string]int64{}, map[string]int64{}
	pend, drew, orew := map[string]bool{}, map[string]bool{}, map[string]bool{}
	alien := int64(0)
	odd := false
	whole := func(x sdkmath.Int) int64 {
		q, r := units(x)
		if !r.IsZero() {
			odd = true
		}
		return q
	}

	var po types.ProposalOracle
	if bz := st.Get(types.ProposalOracleKey); bz != nil {
		cdc.MustUnmarshal(bz, &po)
	}
	for _, s := range po.Oracles {
		if n, ok := oname[s]; ok {
			approved[n] = true
		}
	}
	// records: raw scan of 0x12
	records := map[string]types.Oracle{}
	it := storetypes.KVStorePrefixIterator(st, types.OracleKey)
	for ; it.Valid(); it.Next() {
		var or types.Oracle
		cdc.MustUnmarshal(it.Value(), &or)
		keyAddr := sdk.AccAddress(it.Key()[len(types.OracleKey):]).String()
		n, ok := oname[keyAddr]
		if !ok || or.OracleAddress != keyAddr {
			alien++
			continue
		}
		records[n] = or
	}
	it.Close()
	// indexes: raw scans of 0x14 (bridger -> oracle) and 0x13 (external -> oracle)
	for _, b := range a.Bridgers {
		bidx[b] = "none"
	}
	it = storetypes.KVStorePrefixIterator(st, types.OracleAddressByBridgerKey)
	for ; it.Valid(); it.Next() {
		k := sdk.AccAddress(it.Key()[len(types.OracleAddressByBridgerKey):]).String()
		if b, ok := bname[k]; ok {
			bidx[b] = nameOr(oname, sdk.AccAddress(it.Value()).String())
		} else {
			alien++
		}
	}
	it.Close()
	for _, e := range a.Exts {
		eidx[e] = "none"
	}
	it = storetypes.KVStorePrefixIterator(st, types.OracleAddressByExternalKey)
	for ; it.Valid(); it.Next() {
		k := string(it.Key()[len(types.OracleAddressByExternalKey):])
		if e, ok := ename[k]; ok {
			eidx[e] = nameOr(oname, sdk.AccAddress(it.Value()).String())
		} else {
			alien++
		}
	}
	it.Close()

	for _, o := range a.Oracles {
		addr := a.oracleKey(o).AccAddress()
		or, found := records[o]
		reg[o] = found
		approved[o] = approved[o]
		bridger[o], ext[o], val[o] = "none", "none", "none"
		if found {
			online[o] = or.Online
			bridger[o] = nameOr(bname, or.BridgerAddress)
			ext[o] = nameOr(ename, or.ExternalAddress)
			val[o] = nameOr(vname, or.DelegateValidator)
			rec[o] = whole(or.DelegateAmount)
			slashTimes[o] = or.SlashTimes
		} else {
			online[o], rec[o], slashTimes[o] = false, 0, 0
		}
		da := (&types.Oracle{OracleAddress: addr.String()}).GetDelegateAddress(a.Chain)
		// delegations of the delegate address
		atRec, elsewhere := sdkmath.ZeroInt(), sdkmath.ZeroInt()
		dels, err := sk.GetDelegatorDelegations(ctx, da, 100)
		must(err)
		pending := false
		for _, d := range dels {
			va, e := sdk.ValAddressFromBech32(d.ValidatorAddress)
			must(e)
			v, e := sk.GetValidator(ctx, va)
			must(e)
			tok := v.TokensFromShares(d.Shares)
			if !tok.IsInteger() {
				odd = true
			}
			if found && d.ValidatorAddress == or.DelegateValidator {
				atRec = atRec.Add(tok.TruncateInt())
			} else {
				elsewhere = elsewhere.Add(tok.TruncateInt())
			}
			if a.pendingReward(ctx, da, va) {
				pending = true
			}
		}
		deleg[o], stray[o] = whole(atRec), whole(elsewhere)
		pend[o] = pending
		ub := sdkmath.ZeroInt()
		ubds, err := sk.GetUnbondingDelegations(ctx, da, 100)
		must(err)
		for _, u := range ubds {
			for _, en := range u.Entries {
				ub = ub.Add(en.Balance)
			}
		}
		unb[o] = whole(ub)
		redelTo[o] = "none"
		reds, err := sk.GetRedelegations(ctx, da, 100)
		must(err)
		for _, r := range reds {
			n := nameOr(vname, r.ValidatorDstAddress)
			if redelTo[o] != "none" && redelTo[o] != n {
				n = "?several"
			}
			redelTo[o] = n
		}
		q, r := units(bank.GetBalance(ctx, da, fxtypes.DefaultDenom).Amount)
		dbal[o], drew[o] = q, !r.IsZero()
		if all := bank.GetAllBalances(ctx, da); len(all) > 1 || (len(all) == 1 && all[0].Denom != fxtypes.DefaultDenom) {
			odd = true
		}
		q, r = units(bank.GetBalance(ctx, addr, fxtypes.DefaultDenom).Amount.Sub(a.start[o]))
		bal[o], orew[o] = q, !r.IsZero()
	}
	burned := whole(a.supply0.Sub(bank.GetSupply(ctx, fxtypes.DefaultDenom).Amount))
	// outstanding (not yet slashed) oracle-set requests and who joined after all of them
	obj, newest := false, uint64(0)
	a.K.IterateOracleSetByNonce(ctx, a.K.GetLastSlashedOracleSetNonce(ctx)+1, func(s *types.OracleSet) bool {
		obj = true
		if s.Height > newest {
			newest = s.Height
		}
		return false
	})
	late := map[string]bool{}
	for _, o := range a.Oracles {
		or, found := records[o]
		late[o] = found && obj && uint64(or.StartHeight) > newest
	}
	return map[string]any{
		"reg": reg, "online": online, "approved": approved, "bridger": bridger, "ext": ext, "val": val, "rec": rec,
		"slashTimes": slashTimes, "bidx": bidx, "eidx": eidx, "deleg": deleg, "stray": stray, "unb": unb, "dbal": dbal,
		"bal": bal, "redelTo": redelTo, "pend": pend, "drew": drew, "orew": orew, "burned": burned, "alien": alien, "odd": odd,
		"obj": obj, "late": late,
	}
}

// pendingReward: does the delegation have a non-zero reward waiting in the distribution module?
// (computed on a discarded branch: the calculation closes the validator's current reward period)
func (a *Adapter) pendingReward(ctx sdk.Context, del sdk.AccAddress, va sdk.ValAddress) (yes bool) {
	defer func() {
		if r := recover(); r != nil {
			debugf("pendingReward panic: %v", r)
			yes = false
		}
	}()
	c, _ := ctx.CacheContext()
	dk := a.W.App.DistrKeeper
	sk := a.W.App.StakingKeeper
	v, err := sk.GetValidator(c, va)
	if err != nil {
		return false
	}
	d, err := sk.GetDelegation(c, del, va)
	if err != nil {
		return false
	}
	end, err := dk.IncrementValidatorPeriod(c, v)
	if err != nil {
		return false
	}
	rw, err := dk.CalculateDelegationRewards(c, v, d, end)
	if err != nil {
		debugf("pendingReward: %v", err)
		return false
	}
	debugf("pendingReward %s: %s", del, rw)
	coins, _ := rw.TruncateDecimal()
	return !coins.IsZero()
}
