package oraclelife

import (
	"testing"

	"verifharness/graph"
)

// TestWalks: seeded walks for the determinism check (C17).
func TestWalks(t *testing.T) {
	a := build(t)
	graph.RunWalks(t, a, a.W.Ctx, a.W.DumpHash)
}
