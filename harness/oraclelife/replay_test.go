package oraclelife

import (
	"testing"

	"verifharness/graph"
	"verifharness/world"
)

func build(t *testing.T) *Adapter {
	var c Consts
	graph.Const(&c)
	return Build(world.New(t, len(c.Val)), c)
}

func TestReplay(t *testing.T) {
	a := build(t)
	graph.RunReplay(t, a, a.W.Ctx, nil)
}

func TestPath(t *testing.T) {
	a := build(t)
	graph.RunPath(t, a, a.W.Ctx)
}
