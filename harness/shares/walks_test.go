package shares

import (
	"testing"

	"verifharness/graph"
)

// TestWalks: seeded walks for the determinism check (C17).
func TestWalks(t *testing.T) {
	var c Consts
	graph.Const(&c)
	a := New(t, c)
	graph.RunWalks(t, a, a.W.Ctx, a.W.DumpHash)
}
