// Package shares binds spec/Shares.tla to the real staking precompile (delegateV2, undelegateV2,
// redelegateV2, withdraw, approveShares, transferShares, transferFromShares) of a chain with real
// staking / distribution / mint / slashing modules.
//
// Every user operation is a REAL EVM transaction to the staking precompile signed by the acting
// delegator's key.  One model unit = 100 FX (one unit of consensus power).
package shares

import (
	"crypto/sha256"
	"encoding/binary"
	"fmt"
	"math/big"
	"os"
	"sort"
	"strings"
	"testing"
	"time"

	sdkmath "cosmossdk.io/math"
	storetypes "cosmossdk.io/store/types"
	abci "github.com/cometbft/cometbft/abci/types"
	sdk "github.com/cosmos/cosmos-sdk/types"
	authtypes "github.com/cosmos/cosmos-sdk/x/auth/types"
	distrkeeper "github.com/cosmos/cosmos-sdk/x/distribution/keeper"
	distrtypes "github.com/cosmos/cosmos-sdk/x/distribution/types"
	paramstypes "github.com/cosmos/cosmos-sdk/x/params/types"
	slashingtypes "github.com/cosmos/cosmos-sdk/x/slashing/types"
	stakingtypes "github.com/cosmos/cosmos-sdk/x/staking/types"
	"github.com/ethereum/go-ethereum/common"

	"github.com/functionx/fx-core/v8/testutil/helpers"
	fxtypes "github.com/functionx/fx-core/v8/types"
	"github.com/functionx/fx-core/v8/x/staking/precompile"
	fxstakingtypes "github.com/functionx/fx-core/v8/x/staking/types"

	"verifharness/graph"
	"verifharness/world"
)

var (
	powerUnit = sdkmath.NewInt(1).MulRaw(1e18).MulRaw(100) // 100 FX = sdk.DefaultPowerReduction in fxcore
	payKey    = []byte("verif/shares/pay")                 // observation register in the branch's transient store
	refKey    = "verif/shares/ref/"                        // + validator: reference rewards after every reward block of this branch
	// phi = 0.111111111111111111: the fraction of a share one base token buys on a validator slashed by 10%
	phiInt = sdkmath.NewIntFromUint64(111111111111111111)
	e18    = sdkmath.NewInt(1).MulRaw(1e18)
)

const gasLimit = 5_000_000

type Consts struct {
	Delegator  []string                    `json:"Delegator"`
	Validator  []string                    `json:"Validator"`
	InitShares map[string]map[string]int64 `json:"InitShares"`
	// Drain: evaluate the "everybody withdraws and fully undelegates" oracle in every projection
	Drain bool `json:"Drain"`
	// Unit: base units per model unit (decimal string; default 100 FX = 1e20).  "1" in the family with
	// fractional shares.
	Unit string `json:"Unit"`
	// PreSlash = "tenth": validator v1 is slashed by 10% of its power while the world is built, before any
	// modelled delegation, so that one token buys 1.111111111111111111 shares.
	PreSlash string `json:"PreSlash"`
}

type Adapter struct {
	W     *world.W
	C     Consts
	val   map[string]sdk.ValAddress
	self  map[string]sdkmath.LegacyDec // genesis self-delegation shares per validator
	skey  storetypes.StoreKey
	tkey  storetypes.StoreKey
	votes []abci.VoteInfo
	debug bool
	unit  sdkmath.Int
	tok0  map[string]sdkmath.Int // validator tokens when the modelled delegators had none (PreSlash families)
	// memo of the two expensive observation functions (crisis invariants, drain), keyed by a digest of the
	// stores they can depend on (staking, distribution, bank, gov, ibc-transfer, mint, slashing, params) and
	// the block header's height and time: byte-identical inputs give identical results.
	obsKeys []storetypes.StoreKey
	memo    map[[32]byte][2]string
	// ref0[v]: rewards owed to the reference delegation of v (the validator's genesis self-delegation, which no
	// modelled operation touches) when the world was handed over, i.e. before the first modelled reward block
	ref0 map[string]sdkmath.LegacyDec
}

func (a *Adapter) key(d string) *helpers.Signer { return a.W.Key("shares/" + d) }
func (a *Adapter) acc(d string) sdk.AccAddress  { return a.key(d).AccAddress() }
func (a *Adapter) eth(d string) common.Address  { return a.key(d).Address() }

func must(err error) {
	if err != nil {
		panic(err)
	}
}

func (a *Adapter) units(n int64) *big.Int { return a.unit.MulRaw(n).BigInt() }

// New builds the world of Shares.tla's Init: two bonded genesis validators (self-delegation 100 FX each),
// amply funded delegators, and the InitShares delegations made through delegateV2.
func New(t *testing.T, c Consts) *Adapter {
	sort.Strings(c.Delegator)
	sort.Strings(c.Validator)
	w := world.New(t, len(c.Validator))
	a := &Adapter{W: w, C: c, val: map[string]sdk.ValAddress{}, self: map[string]sdkmath.LegacyDec{}, debug: os.Getenv("VERIF_DEBUG") != "",
		unit: powerUnit, tok0: map[string]sdkmath.Int{}}
	if c.Unit != "" {
		u, ok := sdkmath.NewIntFromString(c.Unit)
		if !ok || !u.IsPositive() {
			t.Fatalf("bad Unit %q", c.Unit)
		}
		a.unit = u
	}
	a.skey = w.App.GetKey(stakingtypes.StoreKey)
	a.tkey = w.App.GetTKey(paramstypes.TStoreKey)
	for _, n := range []string{"staking", "distribution", "bank", "gov", "transfer", "mint", "slashing", "params"} {
		k := w.App.GetKey(n)
		if k == nil {
			panic("no store " + n)
		}
		a.obsKeys = append(a.obsKeys, k)
	}
	a.memo = map[[32]byte][2]string{}
	ctx := w.Ctx
	if ctx.BlockTime().Unix() <= 0 {
		ctx = ctx.WithBlockTime(time.Unix(1_700_000_000, 0).UTC())
	}
	for i, v := range c.Validator {
		a.val[v] = w.ValAddr[i]
		val, err := w.App.StakingKeeper.GetValidator(ctx, w.ValAddr[i])
		must(err)
		a.self[v] = val.DelegatorShares
		cons, err := val.GetConsAddr()
		must(err)
		// what the chain has for every bonded validator once it has signed a block
		must(w.App.SlashingKeeper.SetValidatorSigningInfo(ctx, cons, slashingtypes.NewValidatorSigningInfo(cons, ctx.BlockHeight(), 0, time.Unix(0, 0), false, 0)))
		a.votes = append(a.votes, abci.VoteInfo{Validator: abci.Validator{Address: cons, Power: 1}, BlockIdFlag: 2})
	}
	if c.PreSlash == "tenth" {
		// a block begins with evidence against v1: 10% of its power (100 FX self-delegation) is slashed
		v := c.Validator[0]
		val, err := w.App.StakingKeeper.GetValidator(ctx, a.val[v])
		must(err)
		cons, err := val.GetConsAddr()
		must(err)
		ctx = ctx.WithBlockHeight(ctx.BlockHeight() + 1).WithBlockTime(ctx.BlockTime().Add(5 * time.Second))
		if _, err = w.App.StakingKeeper.Slash(ctx, cons, ctx.BlockHeight(), val.Tokens.Quo(powerUnit).Int64(), sdkmath.LegacyNewDecWithPrec(1, 1)); err != nil {
			panic(err)
		}
		ctx = ctx.WithBlockHeight(ctx.BlockHeight() + 1).WithBlockTime(ctx.BlockTime().Add(5 * time.Second))
	} else if c.PreSlash != "" {
		t.Fatalf("unknown PreSlash %q", c.PreSlash)
	}
	for _, v := range c.Validator {
		val, err := w.App.StakingKeeper.GetValidator(ctx, a.val[v])
		must(err)
		a.tok0[v] = val.Tokens
	}
	for _, d := range c.Delegator {
		w.Fund(ctx, a.acc(d), 1_000_000)
	}
	for _, d := range c.Delegator {
		for _, v := range c.Validator {
			if n := c.InitShares[d][v]; n > 0 {
				var res string
				ctx, res = a.Apply(ctx, graph.Op{"name": "Delegate", "d": d, "v": v, "n": float64(n)})
				if res != "ok" {
					t.Fatalf("initial delegation %s %s %d refused", d, v, n)
				}
			}
		}
	}
	a.ref0 = map[string]sdkmath.LegacyDec{}
	for _, v := range c.Validator {
		o, ok := a.owedAcc(ctx, sdk.AccAddress(a.val[v]), v)
		if !ok {
			t.Fatalf("reference rewards of %s uncomputable", v)
		}
		a.ref0[v] = o
	}
	w.Ctx = ctx
	return a
}

// refHist returns the rewards owed to the reference delegation of v at hand-over and after each reward block
// of this branch (L[0..T]); the reference is never paid, so L[T]-L[T-j] is what its (constant) shares a.self[v]
// earned in the last j reward blocks.
func (a *Adapter) refHist(ctx sdk.Context, v string) []sdkmath.LegacyDec {
	out := []sdkmath.LegacyDec{a.ref0[v]}
	if bz := ctx.KVStore(a.tkey).Get([]byte(refKey + v)); len(bz) > 0 {
		for _, x := range strings.Split(string(bz), ",") {
			out = append(out, sdkmath.LegacyMustNewDecFromStr(x))
		}
	}
	return out
}

func (a *Adapter) pushRef(ctx sdk.Context, v string, x sdkmath.LegacyDec) {
	st := ctx.KVStore(a.tkey)
	if bz := st.Get([]byte(refKey + v)); len(bz) > 0 {
		st.Set([]byte(refKey+v), []byte(string(bz)+","+x.String()))
	} else {
		st.Set([]byte(refKey+v), []byte(x.String()))
	}
}

// blocksEarned expresses the rewards `owed` to a delegation of `shares` at v as the number j of most recent
// reward blocks for which   owed = shares * (rewards one share of v earned in those j blocks),
// the latter measured on the reference delegation; -1 when there is no such j (tolerance: 1e-9 relative +
// 1e-16 base units for the distribution module's truncations).
func (a *Adapter) blocksEarned(ctx sdk.Context, v string, shares, owed sdkmath.LegacyDec) int64 {
	hist := a.refHist(ctx, v)
	T := len(hist) - 1
	for j := 0; j <= T; j++ {
		exp := shares.Mul(hist[T].Sub(hist[T-j])).Quo(a.self[v])
		tol := exp.Abs().QuoInt64(1_000_000_000).Add(sdkmath.LegacyNewDecWithPrec(1, 16))
		if owed.Sub(exp).Abs().LTE(tol) {
			return int64(j)
		}
	}
	if a.debug {
		var exps []string
		for j := 0; j <= T; j++ {
			exps = append(exps, shares.Mul(hist[T].Sub(hist[T-j])).Quo(a.self[v]).String())
		}
		fmt.Printf("DEBUG rewards at %s: owed %s on %s shares is none of %v\n", v, owed, shares, exps)
	}
	return -1
}

// call executes one EVM transaction to the staking precompile signed by d.  Like baseapp.runTx it runs in a
// cache of ctx that is dropped when the execution panics (the panic is recovered and the transaction fails).
func (a *Adapter) call(ctx sdk.Context, d string, data []byte, err error) (ok bool) {
	must(err)
	cctx, write := ctx.CacheContext()
	defer func() {
		if r := recover(); r != nil {
			ok = false
			if a.debug {
				fmt.Printf("DEBUG %s: PANIC %v\n", d, r)
			}
		}
	}()
	ok, msg := a.W.EthCall(cctx, a.key(d), fxstakingtypes.GetAddress(), gasLimit, data)
	write()
	if !ok && a.debug {
		fmt.Printf("DEBUG %s: %s\n", d, msg)
	}
	return ok
}

func (a *Adapter) setPay(ctx sdk.Context, s string) { ctx.KVStore(a.tkey).Set(payKey, []byte(s)) }
func (a *Adapter) getPay(ctx sdk.Context) string {
	if bz := ctx.KVStore(a.tkey).Get(payKey); bz != nil {
		return string(bz)
	}
	return "ok"
}

// owed returns the rewards (staking denom) the distribution module computes for (d, v) now; ok=false when
// the computation itself fails (panics) on this state.
func (a *Adapter) owed(ctx sdk.Context, d, v string) (amt sdkmath.LegacyDec, ok bool) {
	return a.owedAcc(ctx, a.acc(d), v)
}

func (a *Adapter) owedAcc(ctx sdk.Context, acc sdk.AccAddress, v string) (amt sdkmath.LegacyDec, ok bool) {
	amt = sdkmath.LegacyZeroDec()
	defer func() {
		if r := recover(); r != nil {
			ok = false
		}
	}()
	if _, err := a.W.App.StakingKeeper.GetDelegation(ctx, acc, a.val[v]); err != nil {
		return amt, true
	}
	cctx, _ := ctx.CacheContext()
	res, err := distrkeeper.NewQuerier(a.W.App.DistrKeeper).DelegationRewards(cctx, &distrtypes.QueryDelegationRewardsRequest{
		DelegatorAddress: acc.String(), ValidatorAddress: a.val[v].String(),
	})
	if err != nil {
		return amt, false
	}
	return res.Rewards.AmountOf(fxtypes.DefaultDenom), true
}

func (a *Adapter) bal(ctx sdk.Context, d string) sdkmath.Int {
	return a.W.App.BankKeeper.GetBalance(ctx, a.acc(d), fxtypes.DefaultDenom).Amount
}

// Apply implements graph.Adapter.
func (a *Adapter) Apply(ctx sdk.Context, op graph.Op) (sdk.Context, string) {
	w := a.W
	a.setPay(ctx, "ok")
	d, v, n := op.Str("d"), op.Str("v"), op.Int("n")
	ok := false
	switch op.Name() {
	case "Delegate":
		data, err := precompile.NewDelegateV2Method(nil).PackInput(fxstakingtypes.DelegateV2Args{Validator: a.val[v].String(), Amount: a.units(n)})
		ok = a.call(ctx, d, data, err)
	case "Undelegate":
		data, err := precompile.NewUndelegateV2Method(nil).PackInput(fxstakingtypes.UndelegateV2Args{Validator: a.val[v].String(), Amount: a.units(n)})
		ok = a.call(ctx, d, data, err)
	case "Redelegate":
		data, err := precompile.NewRedelegateV2Method(nil).PackInput(fxstakingtypes.RedelegateV2Args{
			ValidatorSrc: a.val[v].String(), ValidatorDst: a.val[op.Str("w")].String(), Amount: a.units(n)})
		ok = a.call(ctx, d, data, err)
	case "Withdraw":
		data, err := precompile.NewWithdrawMethod(nil).PackInput(fxstakingtypes.WithdrawArgs{Validator: a.val[v].String()})
		ok = a.call(ctx, d, data, err)
	case "Approve":
		data, err := precompile.NewApproveSharesMethod(nil).PackInput(fxstakingtypes.ApproveSharesArgs{
			Validator: a.val[v].String(), Spender: a.eth(op.Str("t")), Shares: a.units(n)})
		ok = a.call(ctx, d, data, err)
	case "Transfer", "TransferFrom":
		f, t := op.Str("f"), op.Str("t")
		parties := []string{f}
		if t != f {
			parties = append(parties, t)
		}
		type snap struct {
			owed sdkmath.LegacyDec
			bal  sdkmath.Int
			ok   bool
		}
		take := func() map[string]snap {
			m := map[string]snap{}
			for _, p := range parties {
				o, k := a.owed(ctx, p, v)
				m[p] = snap{o, a.bal(ctx, p), k}
			}
			return m
		}
		before := take()
		var data []byte
		var err error
		if op.Name() == "Transfer" {
			data, err = precompile.NewTransferSharesMethod(nil).PackInput(fxstakingtypes.TransferSharesArgs{
				Validator: a.val[v].String(), To: a.eth(t), Shares: a.units(n)})
		} else {
			data, err = precompile.NewTransferFromSharesMethod(nil).PackInput(fxstakingtypes.TransferFromSharesArgs{
				Validator: a.val[v].String(), From: a.eth(f), To: a.eth(t), Shares: a.units(n)})
		}
		ok = a.call(ctx, d, data, err)
		if ok {
			// reward entitlement is conserved for both parties: received = owed before - owed after
			after := take()
			var bad []string
			for i, p := range parties {
				b, c := before[p], after[p]
				role := []string{"from", "to"}[i]
				if !b.ok || !c.ok {
					bad = append(bad, role+":uncomputable")
					continue
				}
				got := c.bal.Sub(b.bal)
				want := b.owed.TruncateInt().Sub(c.owed.TruncateInt())
				if !got.Equal(want) {
					bad = append(bad, fmt.Sprintf("%s:got %s want %s", role, got, want))
				}
			}
			if len(bad) > 0 {
				a.setPay(ctx, strings.Join(bad, ";"))
			}
		}
	case "RewardTick":
		// the next block begins: fees of the previous block sit in the fee collector, the application's real
		// BeginBlocker mints, allocates to the validators that voted, handles signing infos ...
		nctx := ctx.WithBlockHeight(ctx.BlockHeight() + 1).WithBlockTime(ctx.BlockTime().Add(5 * time.Second)).WithVoteInfos(a.votes)
		fees := sdk.NewCoins(world.FX(10))
		must(w.App.BankKeeper.MintCoins(nctx, "mint", fees))
		must(w.App.BankKeeper.SendCoinsFromModuleToModule(nctx, "mint", authtypes.FeeCollectorName, fees))
		if _, err := w.App.BeginBlocker(nctx); err != nil {
			panic(fmt.Sprintf("BeginBlocker: %v", err))
		}
		a.setPay(nctx, "ok")
		// what the reference delegation of every validator is owed after this block
		for _, rv := range a.C.Validator {
			o, computable := a.owedAcc(nctx, sdk.AccAddress(a.val[rv]), rv)
			if !computable {
				panic("reference rewards of " + rv + " uncomputable")
			}
			a.pushRef(nctx, rv, o)
		}
		return nctx, "ok"
	case "Slash":
		// the next block begins with evidence against v: 50% of its current power is slashed (at most once per
		// validator: an environment choice, keeps the exchange rate a power of two)
		val, err := w.App.StakingKeeper.GetValidator(ctx, a.val[v])
		must(err)
		if !val.DelegatorShares.Equal(sdkmath.LegacyNewDecFromInt(val.Tokens)) {
			return ctx, "rej"
		}
		nctx := ctx.WithBlockHeight(ctx.BlockHeight() + 1).WithBlockTime(ctx.BlockTime().Add(5 * time.Second))
		cons, err := val.GetConsAddr()
		must(err)
		power := val.Tokens.Quo(powerUnit).Int64()
		if _, err = w.App.StakingKeeper.Slash(nctx, cons, nctx.BlockHeight(), power, sdkmath.LegacyNewDecWithPrec(5, 1)); err != nil {
			panic(err)
		}
		return nctx, "ok"
	default:
		panic("unknown op " + op.Name())
	}
	if !ok {
		return ctx, "rej"
	}
	return ctx, "ok"
}

// scaledDec returns x/u as an integer and whether the division is exact.
func scaledDec(x sdkmath.LegacyDec, u sdkmath.Int) (int64, bool) {
	q := x.QuoInt(u)
	return q.TruncateInt64(), q.IsInteger() && !x.IsNegative()
}

// split writes a share quantity x as w*unit + k*phi (phi = 0.111111111111111111 base shares) with small
// non-negative integers w, k; k can only be non-zero when the unit is one base share.  ok=false when x is not
// of that form (then w is the truncated quotient).
func (a *Adapter) split(x sdkmath.LegacyDec) (w, k int64, ok bool) {
	if x.IsNegative() {
		return 0, 0, false
	}
	if q := x.QuoInt(a.unit); q.IsInteger() {
		return q.TruncateInt64(), 0, true
	}
	if !a.unit.Equal(sdkmath.OneInt()) {
		return x.QuoInt(a.unit).TruncateInt64(), 0, false
	}
	// X = x*1e18 = w*1e18 + k*phiInt and 1e18 = 9*phiInt + 1, so X = w (mod phiInt)
	X := sdkmath.NewIntFromBigInt(x.BigInt())
	wi := X.Mod(phiInt)
	rest := X.Sub(wi.Mul(e18))
	if rest.IsNegative() || !rest.Mod(phiInt).IsZero() || !wi.IsInt64() || !rest.Quo(phiInt).IsInt64() || rest.Quo(phiInt).Int64() > 1000 {
		return x.TruncateInt64(), 0, false
	}
	return wi.Int64(), rest.Quo(phiInt).Int64(), true
}

func scaledInt(x, u sdkmath.Int) (int64, bool) {
	return x.Quo(u).Int64(), x.Mod(u).IsZero() && !x.IsNegative()
}

// Project reads the real stores into Shares.tla's Abs.
func (a *Adapter) Project(ctx sdk.Context) any {
	w := a.W
	sk := w.App.StakingKeeper
	var inexact []string
	note := func(ok bool, f string, args ...any) {
		if !ok {
			inexact = append(inexact, fmt.Sprintf(f, args...))
		}
	}
	shares, accrued, recv, ubd := map[string]map[string]int64{}, map[string]map[string]int64{}, map[string]map[string]bool{}, map[string]map[string]int64{}
	frac, valFrac, fden := map[string]map[string]int64{}, map[string]int64{}, map[string]int64{}
	valShares, valTokens, den := map[string]int64{}, map[string]int64{}, map[string]int64{}
	allow := map[string]map[string]map[string]int64{}
	st := ctx.KVStore(a.skey)
	// The observation functions (rewards owed, crisis invariants, drain) are evaluated in the NEXT block (height
	// + 1, no begin-blocker): x/distribution skips its stake sanity check in the block in which a delegation's
	// starting info was written, so damage done by the last operation only shows one block later.
	octx, _ := ctx.CacheContext()
	octx = octx.WithBlockHeight(ctx.BlockHeight() + 1).WithBlockTime(ctx.BlockTime().Add(5 * time.Second))
	for _, d := range a.C.Delegator {
		shares[d], accrued[d], recv[d], ubd[d] = map[string]int64{}, map[string]int64{}, map[string]bool{}, map[string]int64{}
		frac[d] = map[string]int64{}
		for _, v := range a.C.Validator {
			var ok bool
			shares[d][v], frac[d][v] = 0, 0
			held := sdkmath.LegacyZeroDec()
			if del, err := sk.GetDelegation(ctx, a.acc(d), a.val[v]); err == nil {
				held = del.Shares
				shares[d][v], frac[d][v], ok = a.split(del.Shares)
				note(ok, "shares %s %s %s", d, v, del.Shares)
			}
			// reward entitlement: the number of reward blocks whose rewards, earned on the shares held now, make up
			// what the distribution module owes (-1: no whole number of blocks does)
			o, computable := a.owed(octx, d, v)
			note(computable, "rewards %s %s uncomputable", d, v)
			accrued[d][v] = -1
			if computable {
				accrued[d][v] = a.blocksEarned(ctx, v, held, o)
			}
			has, err := sk.HasReceivingRedelegation(ctx, a.acc(d), a.val[v])
			must(err)
			recv[d][v] = has
			ubd[d][v] = 0
			if u, err := sk.GetUnbondingDelegation(ctx, a.acc(d), a.val[v]); err == nil {
				tot := sdkmath.ZeroInt()
				for _, e := range u.Entries {
					tot = tot.Add(e.Balance)
				}
				ubd[d][v], ok = scaledInt(tot, a.unit)
				note(ok, "ubd %s %s %s", d, v, tot)
			}
		}
	}
	for _, v := range a.C.Validator {
		val, err := sk.GetValidator(ctx, a.val[v])
		must(err)
		var ok bool
		valShares[v], valFrac[v], ok = a.split(val.DelegatorShares.Sub(a.self[v]))
		note(ok, "valShares %s %s", v, val.DelegatorShares)
		// tokens backing the modelled delegators' shares, in HALF units
		var mod sdkmath.LegacyDec
		if a.C.PreSlash != "" {
			// (no slash after the world is built in these families) all tokens - tokens before any modelled delegation
			mod = sdkmath.LegacyNewDecFromInt(val.Tokens.Sub(a.tok0[v]))
		} else {
			// all tokens - tokens of the genesis self-delegation
			mod = sdkmath.LegacyNewDecFromInt(val.Tokens).Sub(val.TokensFromShares(a.self[v]))
		}
		valTokens[v], ok = scaledDec(mod.MulInt64(2), a.unit)
		note(ok, "valTokens %s %s", v, val.Tokens)
		// exchange rate = what one unit of tokens buys
		den[v], fden[v] = 0, 0
		if val.Tokens.IsPositive() {
			buys, err := val.SharesFromTokens(a.unit)
			must(err)
			var w, k int64
			w, k, ok = a.split(buys)
			den[v], fden[v] = w, k
			note(ok, "rate %s %s/%s", v, val.DelegatorShares, val.Tokens)
		}
		allow[v] = map[string]map[string]int64{}
		for _, o := range a.C.Delegator {
			allow[v][o] = map[string]int64{}
			for _, s := range a.C.Delegator {
				x := new(big.Int).SetBytes(st.Get(fxstakingtypes.GetAllowanceKey(a.val[v], a.acc(o), a.acc(s))))
				allow[v][o][s], ok = scaledInt(sdkmath.NewIntFromBigInt(x), a.unit)
				note(ok, "allow %s %s %s %s", v, o, s, x)
			}
		}
	}
	exact := "ok"
	if len(inexact) > 0 {
		exact = strings.Join(inexact, ";")
	}
	dg := a.digest(octx)
	obs, hit := a.memo[dg]
	if !hit {
		obs = [2]string{a.invariants(octx), "ok"}
		if a.C.Drain {
			obs[1] = a.drain(octx)
		}
		a.memo[dg] = obs
	}
	return map[string]any{
		"shares": shares, "valShares": valShares, "valTokens": valTokens, "den": den, "allow": allow,
		"accrued": accrued, "recv": recv, "ubd": ubd,
		"inv": obs[0], "pay": a.getPay(ctx), "drain": obs[1], "exact": exact,
		"frac": frac, "valFrac": valFrac, "fden": fden,
	}
}

// digest hashes the content of the stores the observation functions can depend on, plus height and time.
func (a *Adapter) digest(ctx sdk.Context) (out [32]byte) {
	h := sha256.New()
	var n [8]byte
	put := func(b []byte) {
		binary.BigEndian.PutUint64(n[:], uint64(len(b)))
		h.Write(n[:])
		h.Write(b)
	}
	for _, k := range a.obsKeys {
		put([]byte(k.Name()))
		it := ctx.KVStore(k).Iterator(nil, nil)
		for ; it.Valid(); it.Next() {
			put(it.Key())
			put(it.Value())
		}
		it.Close()
	}
	binary.BigEndian.PutUint64(n[:], uint64(ctx.BlockHeight()))
	h.Write(n[:])
	binary.BigEndian.PutUint64(n[:], uint64(ctx.BlockTime().UnixNano()))
	h.Write(n[:])
	copy(out[:], h.Sum(nil))
	return out
}

// invariants evaluates every invariant registered with the crisis keeper (staking, distribution, bank, gov, ...)
// on a branch of ctx, exactly as CrisisKeeper.AssertInvariants does, but reports the first broken route
// instead of panicking.
func (a *Adapter) invariants(ctx sdk.Context) (out string) {
	name := "?"
	defer func() {
		if r := recover(); r != nil {
			out = fmt.Sprintf("%s: PANIC %v", name, r)
			if len(out) > 200 {
				out = out[:200]
			}
		}
	}()
	for _, ir := range a.W.App.CrisisKeeper.Routes() {
		name = ir.FullRoute()
		c, _ := ctx.CacheContext()
		if msg, broken := ir.Invar(c); broken {
			if a.debug {
				fmt.Println("DEBUG invariant", name, msg)
			}
			return name
		}
	}
	return "ok"
}

// drain: on a branch, every delegator withdraws its rewards from and fully undelegates from every validator
// it delegates to (real EVM transactions); then the unbonding period passes and the staking end-blocker
// matures the entries.  Reports the first refusal / leftover, "ok" otherwise.
func (a *Adapter) drain(ctx sdk.Context) (out string) {
	defer func() {
		if r := recover(); r != nil {
			out = fmt.Sprintf("PANIC %v", r)
			if len(out) > 200 {
				out = out[:200]
			}
		}
	}()
	c, _ := ctx.CacheContext()
	sk := a.W.App.StakingKeeper
	for _, d := range a.C.Delegator {
		for _, v := range a.C.Validator {
			_, err := sk.GetDelegation(c, a.acc(d), a.val[v])
			if err != nil {
				continue
			}
			data, err := precompile.NewWithdrawMethod(nil).PackInput(fxstakingtypes.WithdrawArgs{Validator: a.val[v].String()})
			if !a.call(c, d, data, err) {
				return "withdraw " + d + " " + v
			}
			// undelegate what the delegation is worth, in whole base tokens; the SDK's decimal rounding can leave a
			// remainder worth another token, so repeat (bounded) until less than one base token is left
			for round := 0; ; round++ {
				left, err := sk.GetDelegation(c, a.acc(d), a.val[v])
				if err != nil {
					break
				}
				val, err := sk.GetValidator(c, a.val[v])
				must(err)
				tokens := val.TokensFromShares(left.Shares).TruncateInt()
				if !tokens.IsPositive() {
					break
				}
				if round == 3 {
					return "leftover " + d + " " + v
				}
				data, err = precompile.NewUndelegateV2Method(nil).PackInput(fxstakingtypes.UndelegateV2Args{Validator: a.val[v].String(), Amount: tokens.BigInt()})
				if !a.call(c, d, data, err) {
					return "undelegate " + d + " " + v
				}
			}
		}
	}
	ut, err := sk.UnbondingTime(c)
	must(err)
	// what every delegator has in unbonding entries must arrive in its account when the entries mature
	due, before := map[string]sdkmath.Int{}, map[string]sdkmath.Int{}
	for _, d := range a.C.Delegator {
		due[d], before[d] = sdkmath.ZeroInt(), a.bal(c, d)
		for _, v := range a.C.Validator {
			if u, err := sk.GetUnbondingDelegation(c, a.acc(d), a.val[v]); err == nil {
				for _, e := range u.Entries {
					due[d] = due[d].Add(e.Balance)
				}
			}
		}
	}
	later := c.WithBlockHeight(c.BlockHeight() + 1).WithBlockTime(c.BlockTime().Add(ut + time.Hour))
	if _, err = sk.BlockValidatorUpdates(later); err != nil {
		return "endblock: " + err.Error()
	}
	for _, d := range a.C.Delegator {
		for _, v := range a.C.Validator {
			if _, err := sk.GetUnbondingDelegation(later, a.acc(d), a.val[v]); err == nil {
				return "immature " + d + " " + v
			}
		}
		if got := a.bal(later, d).Sub(before[d]); !got.Equal(due[d]) {
			return fmt.Sprintf("matured %s: got %s due %s", d, got, due[d])
		}
	}
	if r := a.invariants(later); r != "ok" {
		return "after drain: " + r
	}
	return "ok"
}
