package endblock

import (
	"encoding/json"
	"fmt"
	"math/rand"
	"os"
	"strconv"
	"testing"

	sdk "github.com/cosmos/cosmos-sdk/types"

	"verifharness/graph"
	"verifharness/world"
)

func TestReplay(t *testing.T) {
	var c Consts
	graph.Const(&c)
	a := New(t, c)
	graph.RunReplay(t, a, a.W.Ctx, nil)
}

func TestPath(t *testing.T) {
	var c Consts
	graph.Const(&c)
	a := New(t, c)
	graph.RunPath(t, a, a.W.Ctx)
}

func envInt(k string, def int) int {
	if s := os.Getenv(k); s != "" {
		if v, err := strconv.Atoi(s); err == nil {
			return v
		}
	}
	return def
}

// samplePath is a seeded random walk over the accepted edges of the (possibly partial: TLC simulation)
// graph of the specification (block ends
// are taken with weight 3 so that objects age beyond the signed window on most paths).
func samplePath(g *graph.Graph, rng *rand.Rand, maxLen int) []*graph.Edge {
	var path []*graph.Edge
	state := g.Init
	for len(path) < maxLen {
		var cand []*graph.Edge
		for _, e := range g.Out[state] {
			if e.Op.Res() != "ok" {
				continue
			}
			w := 1
			if e.Op.Name() == "Tick" {
				w = 3
			}
			for i := 0; i < w; i++ {
				cand = append(cand, e)
			}
		}
		if len(cand) == 0 {
			break
		}
		e := cand[rng.Intn(len(cand))]
		path = append(path, e)
		state = e.To
	}
	return path
}

func opNoRes(op graph.Op) graph.Op {
	o := graph.Op{}
	for k, v := range op {
		if k != "res" {
			o[k] = v
		}
	}
	return o
}

func opWithRes(op graph.Op, res string) graph.Op {
	o := opNoRes(op)
	o["res"] = res
	return o
}

// TestBlocks replays sampled paths of the specification through REAL blocks (FinalizeBlock + Commit via
// world.Block) on a fresh chain each, and, on a branch of the same chain, through the emulation of block
// boundaries graph replay uses (EndBlocker / PreBlocker / BeginBlocker on a cache context).  The two real
// behaviours must agree step by step (otherwise the emulation is not faithful: the test fails); the
// real-block behaviour is written to VERIF_TRACES so that TLC evaluates the C07 formulas on it (a block
// that fails is recorded as Tick with res "rej"), and is compared with the specification's states.
func TestBlocks(t *testing.T) {
	var c Consts
	graph.Const(&c)
	g, err := graph.Load(os.Getenv("VERIF_EDGES"))
	if err != nil {
		t.Fatalf("load edges: %v", err)
	}
	out, err := os.Create(os.Getenv("VERIF_TRACES"))
	if err != nil {
		t.Fatal(err)
	}
	defer out.Close()
	nPaths, maxLen := envInt("VERIF_PATHS", 8), envInt("VERIF_PATHLEN", 16)
	shard, shards := envInt("VERIF_SHARD", 0), envInt("VERIF_SHARDS", 1)
	rng := rand.New(rand.NewSource(world.Seed()*1000 + int64(shard)))
	st := map[string]any{}
	var paths, steps, blocks, emuMismatch, modelMismatch, blockFailures int
	var firstEmu, firstModel, firstFailure string
	for p := 0; p < nPaths; p++ {
		path := samplePath(g, rng, maxLen)
		if len(path) == 0 {
			continue
		}
		_ = shards
		paths++
		a := New(t, c)
		init := a.Project(a.W.Ctx)
		if graph.CanonV(init) != g.Init {
			t.Fatalf("initial state mismatch:\n real %s\n spec %s", graph.CanonV(init), g.Init)
		}
		// 1. the emulation, on a branch (nothing is written to the chain)
		var emu []string
		cur, _ := a.W.Ctx.CacheContext()
		for _, e := range path {
			var res string
			cur, res = a.Apply(cur, opNoRes(e.Op))
			emu = append(emu, res+" "+graph.CanonV(a.Project(cur)))
			if res != "ok" && e.Op.Name() == "Tick" {
				break
			}
		}
		// 2. real blocks.  Messages of the block about to be finalized see its height and its time.
		ctxOf := func() sdk.Context { return a.W.Ctx.WithBlockTime(a.W.Ctx.BlockTime().Add(BlockTime)) }
		var trace []graph.Step
		var lastGood any = init
		for i, e := range path {
			op := opNoRes(e.Op)
			res := "ok"
			halted := false
			if op.Name() == "Tick" {
				for k := int64(0); k < op.Int("n"); k++ {
					blocks++
					if _, err := a.W.Block(BlockTime); err != nil {
						res, halted = "rej", true
						blockFailures++
						if firstFailure == "" {
							firstFailure = fmt.Sprintf("path %d step %d: %v", p, i, err)
						}
						break
					}
					lastGood = a.Project(ctxOf())
				}
			} else if err := a.ApplyMsg(ctxOf(), op); err != nil {
				res = "rej"
			}
			steps++
			// a block that failed was not committed: the chain stays at the state before it
			post := lastGood
			if !halted {
				post = a.Project(ctxOf())
				lastGood = post
			}
			trace = append(trace, graph.Step{Op: opWithRes(op, res), St: post})
			got := res + " " + graph.CanonV(post)
			if i < len(emu) && got != emu[i] {
				emuMismatch++
				if firstEmu == "" {
					firstEmu = fmt.Sprintf("path %d step %d op %v:\n real blocks %s\n emulation   %s", p, i, op, got, emu[i])
				}
			}
			if got != "ok "+e.To {
				modelMismatch++
				if firstModel == "" {
					firstModel = fmt.Sprintf("path %d step %d op %v:\n real blocks %s\n spec        ok %s", p, i, op, got, e.To)
				}
			}
			if halted {
				break
			}
		}
		b, _ := json.Marshal(map[string]any{"trace": trace, "why": "real blocks", "init": init})
		out.Write(append(b, '\n'))
	}
	st["paths"], st["steps"], st["blocks"] = paths, steps, blocks
	st["emulation_mismatches"], st["model_mismatches"], st["block_failures"] = emuMismatch, modelMismatch, blockFailures
	st["first_emulation_mismatch"], st["first_model_mismatch"], st["first_block_failure"] = firstEmu, firstModel, firstFailure
	b, _ := json.MarshalIndent(st, "", " ")
	if p := os.Getenv("VERIF_STATS"); p != "" {
		if e := os.WriteFile(p, b, 0o644); e != nil {
			t.Fatal(e)
		}
	}
	fmt.Printf("blocks: paths=%d steps=%d blocks=%d emulation_mismatches=%d model_mismatches=%d block_failures=%d\n",
		paths, steps, blocks, emuMismatch, modelMismatch, blockFailures)
	if firstFailure != "" {
		fmt.Println("first block failure:", firstFailure)
	}
	if firstModel != "" {
		fmt.Println("first model mismatch:", firstModel)
	}
	if emuMismatch > 0 {
		t.Fatalf("branch emulation of block boundaries disagrees with real FinalizeBlock+Commit: %s", firstEmu)
	}
}
