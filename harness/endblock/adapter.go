// Package endblock binds spec/EndBlock.tla (property C07: block processing never halts) to the real
// application: one crosschain module's end-blocker (slashing cursors, oracle-set requests, pruning)
// and the gov end-blocker, driven through the application's real EndBlocker/BeginBlocker (graph
// replay on branches) and through real FinalizeBlock+Commit (TestBlocks).
package endblock

import (
	"crypto/ecdsa"
	"crypto/sha256"
	"encoding/hex"
	"fmt"
	"os"
	"testing"
	"time"

	sdkmath "cosmossdk.io/math"
	storetypes "cosmossdk.io/store/types"
	sdk "github.com/cosmos/cosmos-sdk/types"
	govv1 "github.com/cosmos/cosmos-sdk/x/gov/types/v1"
	"github.com/ethereum/go-ethereum/crypto"

	"github.com/functionx/fx-core/v8/testutil/helpers"
	fxtypes "github.com/functionx/fx-core/v8/types"
	crosschainkeeper "github.com/functionx/fx-core/v8/x/crosschain/keeper"
	"github.com/functionx/fx-core/v8/x/crosschain/types"
	fxgovtypes "github.com/functionx/fx-core/v8/x/gov/types"
	trontypes "github.com/functionx/fx-core/v8/x/tron/types"

	"verifharness/graph"
	"verifharness/world"
)

var powerUnit = sdkmath.NewInt(1).MulRaw(1e18).MulRaw(100) // sdk.DefaultPowerReduction in fxcore = 1e20

// BlockTime is the time that passes per block in Tick (gov periods are multiples of it).
const BlockTime = 5 * time.Second

type Consts struct {
	Chain         string           `json:"chain"`
	Oracle        []string         `json:"Oracle"`
	Stake         map[string]int64 `json:"Stake"`
	W             int64            `json:"W"`
	Unit          int64            `json:"Unit"`       // stake units per power unit (Stake, AddStake amounts and thresholds are in stake units)
	Threshold0    int64            `json:"Threshold0"` // initial params.DelegateThreshold, stake units
	Multiple      int64            `json:"Multiple"`   // params.DelegateMultiple
	DepositBlocks int64            `json:"DepositBlocks"`
	VotingBlocks  int64            `json:"VotingBlocks"`
	ExpBlocks     int64            `json:"ExpBlocks"`
}

type Adapter struct {
	W        *world.W
	C        Consts
	Chain    string
	K        crosschainkeeper.Keeper
	storeKey storetypes.StoreKey
	tok      string // external token contract (FX bridge token)
	user     *helpers.Signer
	reqr     *helpers.Signer // approved oracle address that never bonds: may request batches
	proposer *helpers.Signer
	extDest  string
	propBase uint64 // first proposal id used by the model
	// LastTickErr is the error/panic of the last failed Tick (diagnostics).
	LastTickErr string
}

// stakeUnit is one stake unit of the specification in base units of FX (powerUnit / Unit).
func (a *Adapter) stakeUnit() sdkmath.Int { return powerUnit.QuoRaw(a.C.Unit) }

func (a *Adapter) oracleKey(o string) *helpers.Signer  { return a.W.Key(a.Chain + "/oracle/" + o) }
func (a *Adapter) bridgerKey(o string) *helpers.Signer { return a.W.Key(a.Chain + "/bridger/" + o) }

// extKey is the oracle's external (secp256k1) signing key.
func (a *Adapter) extKey(o string) *ecdsa.PrivateKey {
	h := sha256.Sum256([]byte("verif-extkey/" + a.Chain + "/" + o))
	k, err := crypto.ToECDSA(h[:])
	must(err)
	return k
}

func (a *Adapter) ext(o string) string {
	return types.ExternalAddrToStr(a.Chain, crypto.PubkeyToAddress(a.extKey(o).PublicKey).Bytes())
}

func (a *Adapter) extAddr(label string) string {
	h := sha256.Sum256([]byte("verif-ext/" + a.Chain + "/" + label))
	return types.ExternalAddrToStr(a.Chain, h[:20])
}

func keeperOf(w *world.W, chain string) crosschainkeeper.Keeper {
	switch chain {
	case "eth":
		return w.App.EthKeeper
	case "bsc":
		return w.App.BscKeeper
	case "polygon":
		return w.App.PolygonKeeper
	case "avalanche":
		return w.App.AvalancheKeeper
	case "arbitrum":
		return w.App.ArbitrumKeeper
	case "optimism":
		return w.App.OptimismKeeper
	case "layer2":
		return w.App.Layer2Keeper
	case "tron":
		return w.App.TronKeeper
	}
	panic("unknown chain " + chain)
}

func must(err error) {
	if err != nil {
		panic(err)
	}
}

// New builds the world of EndBlock.tla's Init: a few real blocks have passed (height > signed window),
// SignedWindow = W and short gov periods set through the real governance-authority messages, all model
// oracles approved but none bonded, FX bridge token known, an external height observed.
func New(t *testing.T, c Consts) *Adapter {
	w := world.New(t, 2)
	if c.Unit == 0 {
		c.Unit = 1
	}
	if c.Threshold0 == 0 {
		c.Threshold0 = c.Unit
	}
	if c.Multiple == 0 {
		c.Multiple = 1000
	}
	if !powerUnit.QuoRaw(c.Unit).MulRaw(c.Unit).Equal(powerUnit) {
		t.Fatalf("Unit %d does not divide the power unit", c.Unit)
	}
	a := &Adapter{W: w, C: c, Chain: c.Chain, K: keeperOf(w, c.Chain)}
	a.storeKey = w.App.GetKey(c.Chain)
	for i := int64(0); i < c.W+2; i++ {
		if _, err := w.Block(BlockTime); err != nil {
			t.Fatalf("setup block: %v", err)
		}
	}
	ctx := w.Ctx
	// crosschain params through the governance-authority message
	p := a.K.GetParams(ctx)
	p.SignedWindow = uint64(c.W)
	p.DelegateThreshold = types.NewDelegateAmount(a.stakeUnit().MulRaw(c.Threshold0))
	p.DelegateMultiple = c.Multiple
	must(w.Handle(ctx, &types.MsgUpdateParams{ChainName: c.Chain, Authority: world.GovAddr(), Params: p}))
	// gov params: periods in blocks
	gp, err := w.App.GovKeeper.Params.Get(ctx)
	must(err)
	dep, vot, exp := time.Duration(c.DepositBlocks)*BlockTime, time.Duration(c.VotingBlocks)*BlockTime, time.Duration(c.ExpBlocks)*BlockTime
	gp.MaxDepositPeriod, gp.VotingPeriod, gp.ExpeditedVotingPeriod = &dep, &vot, &exp
	gp.MinDeposit = sdk.NewCoins(world.FX(1000))
	gp.ExpeditedMinDeposit = sdk.NewCoins(world.FX(2000))
	gp.Quorum = "0.600000000000000000" // one of the two validators alone (the smaller one) is below quorum
	must(w.Handle(ctx, &govv1.MsgUpdateParams{Authority: world.GovAddr(), Params: gp}))

	a.reqr = w.Key(c.Chain + "/requester")
	a.user = w.Key(c.Chain + "/user")
	a.proposer = w.Key("gov/proposer")
	w.Fund(ctx, a.user.AccAddress(), 1_000_000)
	w.Fund(ctx, a.reqr.AccAddress(), 1000)
	w.Fund(ctx, a.proposer.AccAddress(), 10_000_000)
	all := []string{a.reqr.AccAddress().String()}
	for _, o := range c.Oracle {
		w.Fund(ctx, a.oracleKey(o).AccAddress(), 10_000_000)
		w.Fund(ctx, a.bridgerKey(o).AccAddress(), 1000)
		all = append(all, a.oracleKey(o).AccAddress().String())
	}
	must(w.Handle(ctx, &types.MsgUpdateChainOracles{ChainName: c.Chain, Authority: world.GovAddr(), Oracles: all}))
	// FX bridge token (what an observed MsgBridgeTokenClaim for symbol FX executes) and an observed external height
	a.tok = a.extAddr("token/FX")
	must(a.K.AddBridgeTokenExecuted(ctx, &types.MsgBridgeTokenClaim{ChainName: c.Chain, TokenContract: a.tok, Name: "Function X", Symbol: fxtypes.DefaultDenom, Decimals: 18}))
	a.K.SetLastObservedBlockHeight(ctx, 1000, uint64(ctx.BlockHeight()))
	a.extDest = a.extAddr("dest")
	id, err := w.App.GovKeeper.ProposalID.Peek(ctx)
	must(err)
	a.propBase = id
	return a
}

func (a *Adapter) approvedList(ctx sdk.Context, without string) []string {
	po, _ := a.K.GetProposalOracle(ctx)
	var out []string
	for _, s := range po.Oracles {
		if s != without {
			out = append(out, s)
		}
	}
	return out
}

func (a *Adapter) sign(o string, checkpoint []byte) string {
	var sig []byte
	var err error
	if a.Chain == trontypes.ModuleName {
		sig, err = trontypes.NewTronSignature(checkpoint, a.extKey(o))
	} else {
		sig, err = types.NewEthereumSignature(checkpoint, a.extKey(o))
	}
	must(err)
	return hex.EncodeToString(sig)
}

// confirmMsg builds the real confirmation message of oracle o for object (kind, n): a secp256k1 signature by
// o's external key over the real checkpoint of the stored object (over a dummy hash if the object is not in
// the store: the code must refuse that on its own).
func (a *Adapter) confirmMsg(ctx sdk.Context, o, kind string, n uint64) sdk.Msg {
	gid := a.K.GetGravityID(ctx)
	dummy := sha256.Sum256([]byte("no such object"))
	cp := dummy[:]
	var err error
	bridger, ext := a.bridgerKey(o).AccAddress().String(), a.ext(o)
	switch kind {
	case "set":
		if os := a.K.GetOracleSet(ctx, n); os != nil {
			if a.Chain == trontypes.ModuleName {
				cp, err = trontypes.GetCheckpointOracleSet(os, gid)
			} else {
				cp, err = os.GetCheckpoint(gid)
			}
			must(err)
		}
		return &types.MsgOracleSetConfirm{Nonce: n, BridgerAddress: bridger, ExternalAddress: ext, Signature: a.sign(o, cp), ChainName: a.Chain}
	case "batch":
		if b := a.K.GetOutgoingTxBatch(ctx, a.tok, n); b != nil {
			if a.Chain == trontypes.ModuleName {
				cp, err = trontypes.GetCheckpointConfirmBatch(b, gid)
			} else {
				cp, err = b.GetCheckpoint(gid)
			}
			must(err)
		}
		return &types.MsgConfirmBatch{Nonce: n, TokenContract: a.tok, BridgerAddress: bridger, ExternalAddress: ext, Signature: a.sign(o, cp), ChainName: a.Chain}
	case "call":
		if c, ok := a.K.GetOutgoingBridgeCallByNonce(ctx, n); ok {
			if a.Chain == trontypes.ModuleName {
				cp, err = trontypes.GetCheckpointBridgeCall(c, gid)
			} else {
				cp, err = c.GetCheckpoint(gid)
			}
			must(err)
		}
		return &types.MsgBridgeCallConfirm{Nonce: n, BridgerAddress: bridger, ExternalAddress: ext, Signature: a.sign(o, cp), ChainName: a.Chain}
	}
	panic("unknown kind " + kind)
}

// proposal message per kind
func (a *Adapter) proposalMsgs(kind string) []sdk.Msg {
	switch kind {
	case "bad":
		// passes ValidateBasic, fails in the handler (unknown store space): proposal must end FAILED
		return []sdk.Msg{&fxgovtypes.MsgUpdateStore{Authority: world.GovAddr(), UpdateStores: []fxgovtypes.UpdateStore{{Space: "nosuchstore", Key: "00", OldValue: "", Value: "01"}}}}
	default:
		return []sdk.Msg{&fxgovtypes.MsgUpdateSwitchParams{Authority: world.GovAddr(), Params: fxgovtypes.SwitchParams{}}}
	}
}

func (a *Adapter) submit(ctx sdk.Context, kind string) error {
	return world.Atomic(ctx, func(c sdk.Context) error {
		deposit := sdk.NewCoins(world.FX(1000))
		expedited := false
		switch kind {
		case "dep":
			deposit = sdk.NewCoins(world.FX(100))
		case "exp":
			expedited, deposit = true, sdk.NewCoins(world.FX(2000))
		}
		id, err := a.W.App.GovKeeper.ProposalID.Peek(c)
		if err != nil {
			return err
		}
		msg, err := govv1.NewMsgSubmitProposal(a.proposalMsgs(kind), deposit, a.proposer.AccAddress().String(), "", kind, "verif "+kind, expedited)
		if err != nil {
			return err
		}
		if err = a.W.Handle(c, msg); err != nil {
			return err
		}
		vote := func(i int, opt govv1.VoteOption) error {
			return a.W.Handle(c, govv1.NewMsgVote(sdk.AccAddress(a.W.ValAddr[i]), id, opt, ""))
		}
		weighted := func(i int, opts ...*govv1.WeightedVoteOption) error {
			return a.W.Handle(c, govv1.NewMsgVoteWeighted(sdk.AccAddress(a.W.ValAddr[i]), id, opts, ""))
		}
		pattern := kind
		switch kind {
		case "dep", "--":
			pattern = "--"
		case "bad":
			pattern = "YY"
		case "exp":
			// validator 0 also carries the oracles' delegations: its No keeps yes <= 50% whatever they are
			pattern = "NY"
		case "W":
			half := "0.500000000000000000"
			if err = weighted(0, &govv1.WeightedVoteOption{Option: govv1.OptionYes, Weight: half}, &govv1.WeightedVoteOption{Option: govv1.OptionNo, Weight: half}); err != nil {
				return err
			}
			return weighted(1, &govv1.WeightedVoteOption{Option: govv1.OptionYes, Weight: half}, &govv1.WeightedVoteOption{Option: govv1.OptionAbstain, Weight: half})
		}
		if len(pattern) != 2 {
			return fmt.Errorf("unknown proposal kind %q", kind)
		}
		for i := 0; i < 2; i++ {
			var opt govv1.VoteOption
			switch pattern[i] {
			case 'Y':
				opt = govv1.OptionYes
			case 'N':
				opt = govv1.OptionNo
			case 'A':
				opt = govv1.OptionAbstain
			case 'V':
				opt = govv1.OptionNoWithVeto
			case '-':
				continue
			default:
				return fmt.Errorf("unknown proposal kind %q", kind)
			}
			if err = vote(i, opt); err != nil {
				return err
			}
		}
		return nil
	})
}

// EndBeginBlock runs the application's real EndBlocker for the current block and PreBlocker+BeginBlocker for
// the next one on a cache of ctx, written only if nothing failed; a panic or error is what a halting chain is.
func (a *Adapter) EndBeginBlock(ctx sdk.Context) (next sdk.Context, err error) {
	cctx, write := ctx.CacheContext()
	defer func() {
		if r := recover(); r != nil {
			err = fmt.Errorf("PANIC: %v", r)
			next = ctx
		}
	}()
	if _, err = a.W.App.EndBlocker(cctx); err != nil {
		return ctx, fmt.Errorf("EndBlocker: %w", err)
	}
	h, t := ctx.BlockHeight()+1, ctx.BlockTime().Add(BlockTime)
	nctx := cctx.WithBlockHeight(h).WithBlockTime(t)
	if _, err = a.W.App.PreBlocker(nctx, nil); err != nil {
		return ctx, fmt.Errorf("PreBlocker: %w", err)
	}
	if _, err = a.W.App.BeginBlocker(nctx); err != nil {
		return ctx, fmt.Errorf("BeginBlocker: %w", err)
	}
	write()
	return ctx.WithBlockHeight(h).WithBlockTime(t), nil
}

// ApplyMsg executes every operation except Tick (shared by graph replay and the real-block test).
func (a *Adapter) ApplyMsg(ctx sdk.Context, op graph.Op) error {
	w := a.W
	switch op.Name() {
	case "Bond":
		o := op.Str("o")
		return w.Handle(ctx, &types.MsgBondedOracle{
			ChainName: a.Chain, OracleAddress: a.oracleKey(o).AccAddress().String(), BridgerAddress: a.bridgerKey(o).AccAddress().String(),
			ExternalAddress: a.ext(o), ValidatorAddress: w.ValAddr[0].String(),
			DelegateAmount: types.NewDelegateAmount(a.stakeUnit().MulRaw(a.C.Stake[o])),
		})
	case "GovRemove":
		o := op.Str("o")
		addr := a.oracleKey(o).AccAddress().String()
		if !a.K.IsProposalOracle(ctx, addr) {
			// MsgUpdateChainOracles is idempotent for an address that is not on the list; the model's operation
			// "remove o" has nothing to remove
			return fmt.Errorf("%s is not on the approved list", o)
		}
		return w.Handle(ctx, &types.MsgUpdateChainOracles{ChainName: a.Chain, Authority: world.GovAddr(), Oracles: a.approvedList(ctx, addr)})
	case "AddStake":
		return w.Handle(ctx, &types.MsgAddDelegate{ChainName: a.Chain, OracleAddress: a.oracleKey(op.Str("o")).AccAddress().String(),
			Amount: types.NewDelegateAmount(a.stakeUnit().MulRaw(op.Int("n")))})
	case "SetThreshold":
		// the crosschain MsgUpdateParams of the governance authority: current params, new DelegateThreshold
		p := a.K.GetParams(ctx)
		p.DelegateThreshold = types.NewDelegateAmount(a.stakeUnit().MulRaw(op.Int("n")))
		return w.Handle(ctx, &types.MsgUpdateParams{ChainName: a.Chain, Authority: world.GovAddr(), Params: p})
	case "CreateBatch":
		// one transaction: MsgSendToExternal then MsgRequestBatch
		return world.Atomic(ctx, func(c sdk.Context) error {
			if err := w.Handle(c, &types.MsgSendToExternal{Sender: a.user.AccAddress().String(), Dest: a.extDest, Amount: world.FX(10), BridgeFee: world.FX(1), ChainName: a.Chain}); err != nil {
				return err
			}
			return w.Handle(c, &types.MsgRequestBatch{Sender: a.reqr.AccAddress().String(), Denom: fxtypes.DefaultDenom, MinimumFee: sdkmath.NewInt(1), FeeReceive: a.extDest, ChainName: a.Chain, BaseFee: sdkmath.ZeroInt()})
		})
	case "CreateCall":
		return w.Handle(ctx, &types.MsgBridgeCall{ChainName: a.Chain, Sender: a.user.AccAddress().String(), Refund: a.user.AccAddress().String(),
			Coins: sdk.NewCoins(world.FX(1)), To: a.extDest, Data: "00", Value: sdkmath.ZeroInt(), Memo: ""})
	case "Confirm":
		return w.Handle(ctx, a.confirmMsg(ctx, op.Str("o"), op.Str("k"), uint64(op.Int("n"))))
	case "ObserveSet":
		// what an observed MsgOracleSetUpdatedClaim executes (AttestationHandler -> UpdateOracleSetExecuted);
		// the attestation itself is Attest.tla's subject
		n := uint64(op.Int("n"))
		os := a.K.GetOracleSet(ctx, n)
		if os == nil {
			return fmt.Errorf("oracle set %d not in store", n)
		}
		return world.Atomic(ctx, func(c sdk.Context) error {
			return a.K.UpdateOracleSetExecuted(c, &types.MsgOracleSetUpdatedClaim{ChainName: a.Chain, OracleSetNonce: n, Members: os.Members})
		})
	case "Submit":
		return a.submit(ctx, op.Str("k"))
	}
	panic("unknown op " + op.Name())
}

// Apply implements graph.Adapter.
func (a *Adapter) Apply(ctx sdk.Context, op graph.Op) (sdk.Context, string) {
	if op.Name() == "Tick" {
		// a failing block halts the chain at the state before that block (each block is atomic)
		cur := ctx
		for i := int64(0); i < op.Int("n"); i++ {
			next, err := a.EndBeginBlock(cur)
			if err != nil {
				a.LastTickErr = err.Error()
				if os.Getenv("VERIF_DEBUG") != "" {
					fmt.Printf("DEBUG Tick at height %d -> %v\n", cur.BlockHeight(), err)
				}
				return cur, "rej"
			}
			cur = next
		}
		return cur, "ok"
	}
	if err := a.ApplyMsg(ctx, op); err != nil {
		if os.Getenv("VERIF_DEBUG") != "" {
			fmt.Printf("DEBUG %v -> %v\n", op, err)
		}
		return ctx, "rej"
	}
	return ctx, "ok"
}

// unitsOf renders an amount in stake units; an amount that is not a whole number of stake units is outside the
// model's name space.
func unitsOf(amount, unit sdkmath.Int) any {
	if !amount.Mod(unit).IsZero() {
		return "?" + amount.String()
	}
	return amount.Quo(unit).Int64()
}

func (a *Adapter) capAge(now int64, h uint64) int64 {
	age := now - int64(h)
	if age > a.C.W+1 {
		age = a.C.W + 1
	}
	if age < 0 {
		age = -1
	}
	return age
}

// Project reads the crosschain store raw (prefixes 0x12 0x15 0x16 0x20 0x21 0x22 0x28 0x29 0x30 0x33 0x38 0x39 0x40
// 0x45 0x46 0x48) and the gov proposals into EndBlock.tla's Abs.
func (a *Adapter) Project(ctx sdk.Context) any {
	st := ctx.KVStore(a.storeKey)
	cdc := a.W.App.AppCodec()
	now := ctx.BlockHeight()
	u64 := func(key []byte) int64 {
		bz := st.Get(key)
		if len(bz) != 8 {
			return 0
		}
		return int64(sdk.BigEndianToUint64(bz))
	}
	reg, online, approved := map[string]bool{}, map[string]bool{}, map[string]bool{}
	start := map[string]int64{}
	power, stake := map[string]int64{}, map[string]any{}
	byAddr, byExt := map[string]string{}, map[string]string{}
	var po types.ProposalOracle
	if bz := st.Get(types.ProposalOracleKey); bz != nil {
		cdc.MustUnmarshal(bz, &po)
	}
	appr := map[string]bool{}
	for _, s := range po.Oracles {
		appr[s] = true
	}
	for _, o := range a.C.Oracle {
		addr := a.oracleKey(o).AccAddress()
		byAddr[string(addr.Bytes())] = o
		byExt[a.ext(o)] = o
		approved[o] = appr[addr.String()]
		reg[o], online[o], power[o], stake[o] = false, false, 0, int64(0)
		if bz := st.Get(types.GetOracleKey(addr)); bz != nil {
			var or types.Oracle
			cdc.MustUnmarshal(bz, &or)
			reg[o], online[o], start[o] = true, or.Online, or.StartHeight
			power[o] = or.DelegateAmount.Quo(powerUnit).Int64()
			stake[o] = unitsOf(or.DelegateAmount, a.stakeUnit())
		}
	}
	// params.DelegateThreshold (raw params record, prefix 0x40) in stake units
	var threshold any = "?no params"
	if bz := st.Get(types.ParamsKey); bz != nil {
		var pr types.Params
		cdc.MustUnmarshal(bz, &pr)
		threshold = unitsOf(pr.DelegateThreshold.Amount, a.stakeUnit())
	}
	var total int64
	if bz := st.Get(types.LastTotalPowerKey); bz != nil {
		ip := sdk.IntProto{}
		cdc.MustUnmarshal(bz, &ip)
		total = ip.Int.Int64()
	}
	flags := func() map[string]bool {
		m := map[string]bool{}
		for _, o := range a.C.Oracle {
			m[o] = false
		}
		return m
	}
	zeros := func() map[string]int64 {
		m := map[string]int64{}
		for _, o := range a.C.Oracle {
			m[o] = 0
		}
		return m
	}
	elig := func(h uint64) map[string]bool {
		m := flags()
		for _, o := range a.C.Oracle {
			m[o] = reg[o] && start[o] <= int64(h)
		}
		return m
	}
	// confirmations: keys <prefix><...nonce><oracle address>; the oracle address is the key suffix
	confs := func(prefix []byte) map[string]bool {
		m := flags()
		it := storetypes.KVStorePrefixIterator(st, prefix)
		defer it.Close()
		for ; it.Valid(); it.Next() {
			suffix := it.Key()[len(prefix):]
			if o, ok := byAddr[string(suffix)]; ok {
				m[o] = true
			} else {
				m["?"+hex.EncodeToString(suffix)] = true
			}
		}
		return m
	}
	// ---- oracle sets
	latest := u64(types.LatestOracleSetNonce)
	found := map[uint64]*types.OracleSet{}
	maxN := uint64(latest)
	it := storetypes.KVStorePrefixIterator(st, types.OracleSetRequestKey)
	for ; it.Valid(); it.Next() {
		var os types.OracleSet
		cdc.MustUnmarshal(it.Value(), &os)
		found[os.Nonce] = &os
		if os.Nonce > maxN {
			maxN = os.Nonce
		}
	}
	it.Close()
	sets := []any{}
	for n := uint64(1); n <= maxN; n++ {
		cf := confs(types.GetOracleSetConfirmKey(n, sdk.AccAddress{}))
		os, ok := found[n]
		if !ok {
			sets = append(sets, map[string]any{"ex": false, "age": a.C.W + 1, "conf": cf, "elig": flags(), "mem": flags(), "np": zeros()})
			continue
		}
		// members' normalised powers (32 bit in the store) at 20 bits
		np, mem := zeros(), flags()
		for _, m := range os.Members {
			if o, ok := byExt[m.ExternalAddress]; ok {
				np[o], mem[o] = int64(m.Power/4096), true
			} else {
				np["?"+m.ExternalAddress], mem["?"+m.ExternalAddress] = int64(m.Power/4096), true
			}
		}
		sets = append(sets, map[string]any{"ex": true, "age": a.capAge(now, os.Height), "conf": cf, "elig": elig(os.Height), "mem": mem, "np": np})
	}
	var lastObs int64
	if bz := st.Get(types.LastObservedOracleSetKey); bz != nil {
		var os types.OracleSet
		cdc.MustUnmarshal(bz, &os)
		lastObs = int64(os.Nonce)
	}
	// ---- batches (by nonce; none is ever executed or cancelled in this model)
	bfound := map[uint64]*types.OutgoingTxBatch{}
	var maxB uint64
	it = storetypes.KVStorePrefixIterator(st, types.OutgoingTxBatchKey)
	for ; it.Valid(); it.Next() {
		var b types.OutgoingTxBatch
		cdc.MustUnmarshal(it.Value(), &b)
		bfound[b.BatchNonce] = &b
		if b.BatchNonce > maxB {
			maxB = b.BatchNonce
		}
	}
	it.Close()
	batches := []any{}
	cursorBlock := u64(types.LastSlashedBatchBlock)
	var slashedBatch any = int64(0)
	cnt, exact := int64(0), cursorBlock == 0
	for n := uint64(1); n <= maxB; n++ {
		b, ok := bfound[n]
		if !ok {
			batches = append(batches, map[string]any{"age": -1, "conf": flags(), "elig": flags()})
			continue
		}
		// the block index must point at this batch
		idx := st.Get(types.GetOutgoingTxBatchBlockKey(b.Block))
		age := a.capAge(now, b.Block)
		if idx == nil {
			age = -2
		}
		if int64(b.Block) <= cursorBlock {
			cnt++
		}
		if int64(b.Block) == cursorBlock {
			exact = true
		}
		cf := confs(append(append(append([]byte{}, types.BatchConfirmKey...), []byte(b.TokenContract)...), sdk.Uint64ToBigEndian(n)...))
		batches = append(batches, map[string]any{"age": age, "conf": cf, "elig": elig(b.Block)})
	}
	slashedBatch = cnt
	if !exact {
		slashedBatch = fmt.Sprintf("?block %d", cursorBlock)
	}
	// ---- outgoing bridge calls
	cfound := map[uint64]*types.OutgoingBridgeCall{}
	var maxC uint64
	it = storetypes.KVStorePrefixIterator(st, types.OutgoingBridgeCallNonceKey)
	for ; it.Valid(); it.Next() {
		var c types.OutgoingBridgeCall
		cdc.MustUnmarshal(it.Value(), &c)
		cfound[c.Nonce] = &c
		if c.Nonce > maxC {
			maxC = c.Nonce
		}
	}
	it.Close()
	calls := []any{}
	for n := uint64(1); n <= maxC; n++ {
		c, ok := cfound[n]
		cf := confs(types.GetBridgeCallConfirmNonceKey(n))
		if !ok {
			calls = append(calls, map[string]any{"age": -1, "conf": cf, "elig": flags()})
			continue
		}
		calls = append(calls, map[string]any{"age": a.capAge(now, c.BlockHeight), "conf": cf, "elig": elig(c.BlockHeight)})
	}
	// ---- proposals
	props := []any{}
	next, err := a.W.App.GovKeeper.ProposalID.Peek(ctx)
	must(err)
	for id := a.propBase; id < next; id++ {
		p, err := a.W.App.GovKeeper.Proposals.Get(ctx, id)
		if err != nil {
			props = append(props, map[string]any{"kind": "gone", "status": "gone", "left": 0})
			continue
		}
		status, left := "?"+p.Status.String(), int64(0)
		rem := func(t *time.Time) int64 {
			if t == nil {
				return -1
			}
			d := t.Sub(ctx.BlockTime())
			if d < 0 {
				return -1 // overdue: the end-blocker should have resolved it
			}
			return int64((d + BlockTime - 1) / BlockTime)
		}
		switch p.Status {
		case govv1.StatusDepositPeriod:
			status, left = "deposit", rem(p.DepositEndTime)
		case govv1.StatusVotingPeriod:
			status, left = "voting", rem(p.VotingEndTime)
			if p.Expedited {
				status = "votingx"
			}
		case govv1.StatusPassed:
			status = "passed"
		case govv1.StatusRejected:
			status = "rejected"
		case govv1.StatusFailed:
			status = "failed"
		}
		props = append(props, map[string]any{"kind": p.Title, "status": status, "left": left})
	}
	return map[string]any{
		"reg": reg, "online": online, "approved": approved, "stake": stake, "power": power, "totalPower": total, "threshold": threshold,
		"sets": sets, "latest": latest, "slashedSet": u64(types.LastSlashedOracleSetNonce), "lastObsSet": lastObs,
		"batches": batches, "slashedBatch": slashedBatch, "calls": calls, "slashedCall": u64(types.LastSlashedBridgeCallNonce),
		"props": props,
	}
}
