// Package gov binds spec/Gov.tla (C15) to the real governance module of fx-core.
//
// Every operation is a real gov v1 / fx gov message routed through the application's message
// router (world.Handle); Tick runs the real fx gov EndBlocker on the branch and moves the block
// time one slot forward.  The world (parameters, custom parameters, stake, community pool) is built
// through real messages too; see New.
package gov

import (
	"encoding/hex"
	"fmt"
	"os"
	"testing"
	"time"

	"cosmossdk.io/collections"
	sdkmath "cosmossdk.io/math"
	sdk "github.com/cosmos/cosmos-sdk/types"
	authtypes "github.com/cosmos/cosmos-sdk/x/auth/types"
	distrtypes "github.com/cosmos/cosmos-sdk/x/distribution/types"
	govtypes "github.com/cosmos/cosmos-sdk/x/gov/types"
	govv1 "github.com/cosmos/cosmos-sdk/x/gov/types/v1"
	stakingtypes "github.com/cosmos/cosmos-sdk/x/staking/types"

	fxtypes "github.com/functionx/fx-core/v8/types"
	fxgov "github.com/functionx/fx-core/v8/x/gov"
	fxgovtypes "github.com/functionx/fx-core/v8/x/gov/types"

	"verifharness/graph"
	"verifharness/world"
)

const (
	slot       = time.Hour
	storeSpace = "feegrant" // store the "custom" proposals write their marker keys to
)

var (
	unit     = sdkmath.NewInt(10).MulRaw(1e18) // one model deposit unit = 10 FX
	baseTime = time.Unix(1_700_000_000, 0).UTC()
)

// numbers of the fixed world of Gov.tla
const (
	minDep, expMin = 2, 4
	voteD, voteE   = 2, 1
	pool0          = 5
)

type variant struct {
	ratio, quorum string
	period        int
}

var variants = map[string]variant{
	"A": {"0.750000000000000000", "0.200000000000000000", 3},
	"B": {"0.250000000000000000", "0.700000000000000000", 1},
}

type Consts struct {
	MaxProp     int  `json:"MaxProp"`
	DepPeriod   int  `json:"DepPeriod"`
	BurnPrevote bool `json:"BurnPrevote"`
	BurnQuorum  bool `json:"BurnQuorum"`
	BurnVeto    bool `json:"BurnVeto"`
}

type Adapter struct {
	W       *world.W
	C       Consts
	Root    sdk.Context
	acc     map[string]sdk.AccAddress // depositors a, b; voters v1, d
	govAcc  sdk.AccAddress
	govBase sdkmath.Int
	supply0 sdkmath.Int
	balBase map[string]sdkmath.Int
	urls    map[string]string
}

func must(err error) {
	if err != nil {
		panic(err)
	}
}

func units(n int64) sdk.Coins {
	return sdk.NewCoins(sdk.NewCoin(fxtypes.DefaultDenom, unit.MulRaw(n)))
}

func New(t *testing.T, c Consts) *Adapter {
	w := world.New(t, 2)
	a := &Adapter{W: w, C: c, acc: map[string]sdk.AccAddress{}, balBase: map[string]sdkmath.Int{}}
	a.urls = map[string]string{
		"spend":  sdk.MsgTypeURL(&distrtypes.MsgCommunityPoolSpend{}),
		"custom": sdk.MsgTypeURL(&fxgovtypes.MsgUpdateStore{}),
	}
	ctx := w.Ctx.WithBlockTime(baseTime)
	a.govAcc = authtypes.NewModuleAddress(govtypes.ModuleName)
	for _, n := range []string{"a", "b", "d", "funder"} {
		a.acc[n] = w.Key("gov/" + n).AccAddress()
		w.Fund(ctx, a.acc[n], 100_000)
		w.MintCoins(ctx, a.acc[n], sdk.NewCoin("other", unit.MulRaw(1000)))
	}
	a.acc["v1"] = sdk.AccAddress(w.ValAddr[0])
	// gov parameters through the real MsgUpdateParams (authority = gov module account)
	p, err := w.App.GovKeeper.Params.Get(ctx)
	must(err)
	dp, vp, ep := time.Duration(c.DepPeriod)*slot, voteD*slot, voteE*slot
	p.MinDeposit = units(minDep)
	p.ExpeditedMinDeposit = units(expMin)
	p.MaxDepositPeriod, p.VotingPeriod, p.ExpeditedVotingPeriod = &dp, &vp, &ep
	p.Quorum, p.Threshold, p.ExpeditedThreshold, p.VetoThreshold = "0.5", "0.5", "0.7", "0.334"
	p.MinInitialDepositRatio, p.MinDepositRatio = "0.5", "0.5"
	p.BurnProposalDepositPrevote, p.BurnVoteQuorum, p.BurnVoteVeto = c.BurnPrevote, c.BurnQuorum, c.BurnVeto
	must(w.Handle(ctx, &govv1.MsgUpdateParams{Authority: world.GovAddr(), Params: p}))
	// no custom parameters for the two message types of the model (genesis configures the spend type)
	for _, u := range a.urls {
		must(w.Handle(ctx, &fxgovtypes.MsgUpdateCustomParams{Authority: world.GovAddr(), MsgUrl: u, CustomParams: fxgovtypes.CustomParams{}}))
	}
	// stake: validator 0 = 100 FX self + 50 FX from d; validator 1 = 100 FX
	must(w.Handle(ctx, &stakingtypes.MsgDelegate{DelegatorAddress: a.acc["d"].String(), ValidatorAddress: w.ValAddr[0].String(),
		Amount: sdk.NewCoin(fxtypes.DefaultDenom, sdkmath.NewInt(50).MulRaw(1e18))}))
	tb, err := w.App.StakingKeeper.TotalBondedTokens(ctx)
	must(err)
	if !tb.Equal(sdkmath.NewInt(250).MulRaw(1e18)) {
		panic("total bonded " + tb.String())
	}
	// community pool
	must(w.Handle(ctx, &distrtypes.MsgFundCommunityPool{Amount: units(pool0), Depositor: a.acc["funder"].String()}))
	fp, err := w.App.DistrKeeper.FeePool.Get(ctx)
	must(err)
	if !fp.CommunityPool.AmountOf(fxtypes.DefaultDenom).TruncateInt().Equal(unit.MulRaw(pool0)) {
		panic("community pool " + fp.CommunityPool.String())
	}
	a.govBase = w.App.BankKeeper.GetBalance(ctx, a.govAcc, fxtypes.DefaultDenom).Amount
	a.supply0 = w.App.BankKeeper.GetSupply(ctx, fxtypes.DefaultDenom).Amount
	for _, n := range []string{"a", "b"} {
		a.balBase[n] = w.App.BankKeeper.GetBalance(ctx, a.acc[n], fxtypes.DefaultDenom).Amount
	}
	a.Root = ctx
	return a
}

func (a *Adapter) recipient(p uint64, which string) sdk.AccAddress {
	return world.DetKey(fmt.Sprintf("gov/recv/%d/%s", p, which)).AccAddress()
}

func markerKey(p uint64, which string) []byte { return []byte(fmt.Sprintf("verif/c15/%d/%s", p, which)) }

func (a *Adapter) spendMsg(p uint64, which string, n int64) sdk.Msg {
	return &distrtypes.MsgCommunityPoolSpend{Authority: world.GovAddr(), Recipient: a.recipient(p, which).String(), Amount: units(n)}
}

func (a *Adapter) storeMsg(p uint64, which string) sdk.Msg {
	return &fxgovtypes.MsgUpdateStore{Authority: world.GovAddr(), UpdateStores: []fxgovtypes.UpdateStore{
		{Space: storeSpace, Key: hex.EncodeToString(markerKey(p, which)), OldValue: "", Value: "01"},
	}}
}

func (a *Adapter) proposalMsgs(t string, p uint64) []sdk.Msg {
	switch t {
	case "text":
		return nil
	case "spend":
		return []sdk.Msg{a.spendMsg(p, "x", 1), a.spendMsg(p, "y", 3)}
	case "small":
		return []sdk.Msg{a.spendMsg(p, "x", 1)}
	case "custom":
		return []sdk.Msg{a.storeMsg(p, "x"), a.storeMsg(p, "y")}
	case "mixed":
		return []sdk.Msg{a.spendMsg(p, "x", 1), a.storeMsg(p, "y")}
	}
	panic("type " + t)
}

func coinsOf(n int64, denom string) sdk.Coins {
	d := fxtypes.DefaultDenom
	if denom != "fx" {
		d = denom
	}
	return sdk.NewCoins(sdk.NewCoin(d, unit.MulRaw(n)))
}

func voteOptions(o string) govv1.WeightedVoteOptions {
	switch o {
	case "yes":
		return govv1.NewNonSplitVoteOption(govv1.OptionYes)
	case "no":
		return govv1.NewNonSplitVoteOption(govv1.OptionNo)
	case "veto":
		return govv1.NewNonSplitVoteOption(govv1.OptionNoWithVeto)
	case "abstain":
		return govv1.NewNonSplitVoteOption(govv1.OptionAbstain)
	case "split":
		return govv1.WeightedVoteOptions{
			{Option: govv1.OptionYes, Weight: "0.500000000000000000"},
			{Option: govv1.OptionNo, Weight: "0.500000000000000000"},
		}
	}
	panic("option " + o)
}

func (a *Adapter) Apply(ctx sdk.Context, op graph.Op) (sdk.Context, string) {
	w := a.W
	var err error
	switch op.Name() {
	case "Submit":
		next, e := w.App.GovKeeper.ProposalID.Peek(ctx)
		must(e)
		if int(next) > a.C.MaxProp {
			return ctx, "rej" // environment bound of the model: at most MaxProp proposals are submitted
		}
		exp, _ := op["e"].(bool)
		t := op.Str("t")
		var msg *govv1.MsgSubmitProposal
		msg, err = govv1.NewMsgSubmitProposal(a.proposalMsgs(t, next), coinsOf(op.Int("n"), "fx"), a.acc[op.Str("a")].String(),
			"verif "+t, "proposal "+t, "summary "+t, exp)
		must(err)
		err = w.Handle(ctx, msg)
	case "Deposit":
		err = w.Handle(ctx, &govv1.MsgDeposit{ProposalId: uint64(op.Int("p")), Depositor: a.acc[op.Str("a")].String(), Amount: coinsOf(op.Int("n"), op.Str("dn"))})
	case "Vote":
		opts := voteOptions(op.Str("o"))
		if len(opts) == 1 {
			err = w.Handle(ctx, &govv1.MsgVote{ProposalId: uint64(op.Int("p")), Voter: a.acc[op.Str("a")].String(), Option: opts[0].Option})
		} else {
			err = w.Handle(ctx, &govv1.MsgVoteWeighted{ProposalId: uint64(op.Int("p")), Voter: a.acc[op.Str("a")].String(), Options: opts})
		}
	case "SetCustom":
		v := variants[op.Str("o")]
		per := time.Duration(v.period) * slot
		err = w.Handle(ctx, &fxgovtypes.MsgUpdateCustomParams{Authority: world.GovAddr(), MsgUrl: a.urls[op.Str("t")],
			CustomParams: fxgovtypes.CustomParams{DepositRatio: v.ratio, VotingPeriod: &per, Quorum: v.quorum}})
	case "RemoveCustom":
		err = w.Handle(ctx, &fxgovtypes.MsgUpdateCustomParams{Authority: world.GovAddr(), MsgUrl: a.urls[op.Str("t")], CustomParams: fxgovtypes.CustomParams{}})
	case "Tick":
		// the block ends: real gov EndBlocker at the current block time; then the next block begins
		if e := fxgov.EndBlocker(ctx, w.App.GovKeeper); e != nil {
			panic(fmt.Sprintf("gov EndBlocker failed: %v", e))
		}
		return ctx.WithBlockTime(ctx.BlockTime().Add(slot)).WithBlockHeight(ctx.BlockHeight() + 1), "ok"
	default:
		panic("unknown op " + op.Name())
	}
	if err != nil {
		if os.Getenv("VERIF_DEBUG") != "" {
			fmt.Printf("DEBUG %v -> %v\n", op, err)
		}
		return ctx, "rej"
	}
	return ctx, "ok"
}

// amount/unit as an integer, or a "?…" string when it is not a whole number of units
func inUnits(x sdkmath.Int) any {
	if !x.Mod(unit).IsZero() {
		return "?" + x.String()
	}
	return x.Quo(unit).Int64()
}

func slots(t, now time.Time) any {
	d := t.Sub(now)
	if d%slot != 0 {
		return "?" + d.String()
	}
	return int64(d / slot)
}

func optionName(opts []*govv1.WeightedVoteOption) string {
	if len(opts) == 1 && sdkmath.LegacyMustNewDecFromStr(opts[0].Weight).Equal(sdkmath.LegacyOneDec()) {
		switch opts[0].Option {
		case govv1.OptionYes:
			return "yes"
		case govv1.OptionNo:
			return "no"
		case govv1.OptionNoWithVeto:
			return "veto"
		case govv1.OptionAbstain:
			return "abstain"
		}
	}
	half := sdkmath.LegacyNewDecWithPrec(5, 1)
	if len(opts) == 2 && opts[0].Option == govv1.OptionYes && opts[1].Option == govv1.OptionNo &&
		sdkmath.LegacyMustNewDecFromStr(opts[0].Weight).Equal(half) && sdkmath.LegacyMustNewDecFromStr(opts[1].Weight).Equal(half) {
		return "split"
	}
	return fmt.Sprintf("?%v", opts)
}

// Project reads the gov collections (proposals, deposits, votes, both queues, custom parameters), bank
// balances and supply, the community pool and the marker keys into Gov.tla's Abs.
func (a *Adapter) Project(ctx sdk.Context) any {
	k := a.W.App.GovKeeper
	now := ctx.BlockTime()
	n := a.C.MaxProp
	next, err := k.ProposalID.Peek(ctx)
	must(err)
	nid := int64(next) - 1
	inactive, active := map[uint64]time.Time{}, map[uint64]time.Time{}
	must(k.InactiveProposalsQueue.Walk(ctx, nil, func(key collections.Pair[time.Time, uint64], v uint64) (bool, error) {
		inactive[v] = key.K1()
		return false, nil
	}))
	must(k.ActiveProposalsQueue.Walk(ctx, nil, func(key collections.Pair[time.Time, uint64], v uint64) (bool, error) {
		active[v] = key.K1()
		return false, nil
	}))
	name := map[string]string{}
	for _, x := range []string{"a", "b", "v1", "d"} {
		name[a.acc[x].String()] = x
	}
	ptype, phase, ex := make([]string, n), make([]string, n), make([]bool, n)
	dep, tot, timer, per := make([]map[string]any, n), make([]any, n), make([]any, n), make([]any, n)
	votes, eff := make([]map[string]string, n), make([]map[string]any, n)
	feeStore := ctx.KVStore(a.W.App.GetKey(storeSpace))
	for i := 0; i < n; i++ {
		p := uint64(i + 1)
		ptype[i], phase[i], ex[i] = "none", "none", false
		dep[i] = map[string]any{"a": int64(0), "b": int64(0)}
		tot[i], timer[i], per[i] = int64(0), int64(0), int64(0)
		votes[i] = map[string]string{"v1": "none", "d": "none"}
		prop, e := k.Proposals.Get(ctx, p)
		if e != nil {
			if int64(p) <= nid {
				phase[i] = "dropped"
			}
		} else {
			msgs, e2 := prop.GetMsgs()
			must(e2)
			ptype[i] = "text"
			for j, m := range msgs {
				t := "?" + sdk.MsgTypeURL(m)
				for nm, u := range a.urls {
					if u == sdk.MsgTypeURL(m) {
						t = nm
					}
				}
				if j > 0 && t != ptype[i] {
					t = "mixed"
				}
				ptype[i] = t
			}
			if ptype[i] == "spend" && len(msgs) == 1 {
				ptype[i] = "small" // same message type, one spend of 1 unit
			}
			ex[i] = prop.Expedited
			tot[i] = inUnits(sdk.NewCoins(prop.TotalDeposit...).AmountOf(fxtypes.DefaultDenom))
			if len(prop.TotalDeposit) > 1 {
				tot[i] = "?" + sdk.NewCoins(prop.TotalDeposit...).String()
			}
			switch prop.Status {
			case govv1.StatusDepositPeriod:
				phase[i] = "deposit"
				if t, ok := inactive[p]; ok && prop.DepositEndTime != nil && t.Equal(*prop.DepositEndTime) {
					timer[i] = slots(t, now)
				} else {
					timer[i] = "?not-queued"
				}
			case govv1.StatusVotingPeriod:
				phase[i] = "voting"
				if t, ok := active[p]; ok && prop.VotingEndTime != nil && t.Equal(*prop.VotingEndTime) {
					timer[i] = slots(t, now)
				} else {
					timer[i] = "?not-queued"
				}
				if has, _ := k.VotingPeriodProposals.Has(ctx, p); !has {
					timer[i] = "?no-voting-index"
				}
				if prop.Expedited {
					per[i] = slots(*prop.VotingEndTime, *prop.VotingStartTime)
				}
			case govv1.StatusPassed:
				phase[i] = "passed"
			case govv1.StatusRejected:
				phase[i] = "rejected"
			case govv1.StatusFailed:
				phase[i] = "failed"
			default:
				phase[i] = "?" + prop.Status.String()
			}
			if phase[i] != "deposit" {
				if _, q := inactive[p]; q {
					phase[i] += "!inactive-queue"
				}
			}
			if phase[i] != "voting" {
				if _, q := active[p]; q {
					phase[i] += "!active-queue"
				}
			}
		}
		must(k.Deposits.Walk(ctx, collections.NewPrefixedPairRange[uint64, sdk.AccAddress](p), func(key collections.Pair[uint64, sdk.AccAddress], d govv1.Deposit) (bool, error) {
			who, ok := name[key.K2().String()]
			if !ok {
				who = "?" + key.K2().String()
			}
			dep[i][who] = inUnits(sdk.NewCoins(d.Amount...).AmountOf(fxtypes.DefaultDenom))
			return false, nil
		}))
		must(k.Votes.Walk(ctx, collections.NewPrefixedPairRange[uint64, sdk.AccAddress](p), func(key collections.Pair[uint64, sdk.AccAddress], v govv1.Vote) (bool, error) {
			who, ok := name[key.K2().String()]
			if !ok {
				who = "?" + key.K2().String()
			}
			votes[i][who] = optionName(v.Options)
			return false, nil
		}))
		e1 := map[string]any{}
		for _, which := range []string{"x", "y"} {
			got := a.W.App.BankKeeper.GetBalance(ctx, a.recipient(p, which), fxtypes.DefaultDenom).Amount
			v := inUnits(got)
			if feeStore.Has(markerKey(p, which)) {
				if iv, ok := v.(int64); ok {
					v = iv + 1
				}
			}
			e1[which] = v
		}
		eff[i] = e1
	}
	custom := map[string]string{}
	for nm, u := range a.urls {
		custom[nm] = "none"
		cp, e := k.CustomerParams.Get(ctx, u)
		if e == nil {
			custom[nm] = "?" + cp.String()
			for vn, v := range variants {
				if cp.DepositRatio == v.ratio && cp.Quorum == v.quorum && cp.VotingPeriod != nil && *cp.VotingPeriod == time.Duration(v.period)*slot {
					custom[nm] = vn
				}
			}
		}
	}
	bank := a.W.App.BankKeeper
	bal := map[string]any{}
	for _, x := range []string{"a", "b"} {
		bal[x] = inUnits(bank.GetBalance(ctx, a.acc[x], fxtypes.DefaultDenom).Amount.Sub(a.balBase[x]))
	}
	fp, err := a.W.App.DistrKeeper.FeePool.Get(ctx)
	must(err)
	poolDec := fp.CommunityPool.AmountOf(fxtypes.DefaultDenom)
	var pool any = "?" + poolDec.String()
	if poolDec.IsInteger() {
		pool = inUnits(poolDec.TruncateInt())
	}
	return map[string]any{
		"nid": nid, "ptype": ptype, "phase": phase, "ex": ex, "dep": dep, "tot": tot, "timer": timer, "per": per,
		"votes": votes, "custom": custom,
		"gov":    inUnits(bank.GetBalance(ctx, a.govAcc, fxtypes.DefaultDenom).Amount.Sub(a.govBase)),
		"bal":    bal,
		"burned": inUnits(a.supply0.Sub(bank.GetSupply(ctx, fxtypes.DefaultDenom).Amount)),
		"pool":   pool, "eff": eff,
	}
}
