// Package attest binds spec/Attest.tla to the real crosschain keeper of one chain module.
package attest

import (
	"encoding/binary"
	"fmt"
	"math/big"
	"os"
	"sort"
	"testing"
	"time"

	sdkmath "cosmossdk.io/math"
	storetypes "cosmossdk.io/store/types"
	codectypes "github.com/cosmos/cosmos-sdk/codec/types"
	sdk "github.com/cosmos/cosmos-sdk/types"
	"github.com/ethereum/go-ethereum/common"
	"github.com/ethereum/go-ethereum/crypto"

	"github.com/functionx/fx-core/v8/testutil/helpers"
	fxtypes "github.com/functionx/fx-core/v8/types"
	crosschainkeeper "github.com/functionx/fx-core/v8/x/crosschain/keeper"
	"github.com/functionx/fx-core/v8/x/crosschain/precompile"
	"github.com/functionx/fx-core/v8/x/crosschain/types"

	"verifharness/graph"
	"verifharness/world"
)

var powerUnit = sdkmath.NewInt(1).MulRaw(1e18).MulRaw(100) // sdk.DefaultPowerReduction in fxcore = 1e20

type Adapter struct {
	W        *world.W
	Chain    string
	K        crosschainkeeper.Keeper
	Oracles  []string
	Bridgers []string
	Variants []string
	MaxNonce int
	Stake    map[string]int64
	tok      string // external token contract (FX bridge token)
	recv     sdk.AccAddress
	user     *helpers.Signer
	storeKey storetypes.StoreKey
	// reent[n-1]: for the LAST variant the event of nonce n is a bridge call INTO a contract that counts its
	// invocations and re-enters executeClaim(chain, n) from inside its callback (ignoring the result)
	reent []common.Address
	wfx   common.Address
}

func (a *Adapter) oracleKey(o string) *helpers.Signer  { return a.W.Key(a.Chain + "/oracle/" + o) }
func (a *Adapter) bridgerKey(b string) *helpers.Signer { return a.W.Key(a.Chain + "/bridger/" + b) }
func (a *Adapter) ext(o string) string {
	if a.Chain == "tron" {
		return helpers.HexAddrToTronAddr(world.DetExt(a.Chain + "/ext/" + o))
	}
	return world.DetExt(a.Chain + "/ext/" + o)
}

func keeperOf(w *world.W, chain string) crosschainkeeper.Keeper {
	switch chain {
	case "eth":
		return w.App.EthKeeper
	case "bsc":
		return w.App.BscKeeper
	case "polygon":
		return w.App.PolygonKeeper
	case "avalanche":
		return w.App.AvalancheKeeper
	case "arbitrum":
		return w.App.ArbitrumKeeper
	case "optimism":
		return w.App.OptimismKeeper
	case "layer2":
		return w.App.Layer2Keeper
	case "tron":
		return w.App.TronKeeper
	}
	panic("unknown chain " + chain)
}

// New builds the world of Attest.tla's Init: no oracle registered, all approved, FX bridge token known,
// delegate threshold = one power unit so that model stakes are small integers.
func New(t *testing.T, chain string, oracles, bridgers, variants []string, maxNonce int, stake map[string]int64) *Adapter {
	w := world.New(t, 2)
	a := &Adapter{W: w, Chain: chain, K: keeperOf(w, chain), Oracles: oracles, Bridgers: bridgers, Variants: variants, MaxNonce: maxNonce, Stake: stake}
	a.storeKey = w.App.GetKey(chain)
	ctx := w.Ctx
	// params through the governance-authority message
	p := a.K.GetParams(ctx)
	p.DelegateThreshold = types.NewDelegateAmount(powerUnit)
	p.DelegateMultiple = 1000
	must(w.Handle(ctx, &types.MsgUpdateParams{ChainName: chain, Authority: world.GovAddr(), Params: p}))
	var all []string
	for _, o := range oracles {
		k := a.oracleKey(o)
		w.Fund(ctx, k.AccAddress(), 10_000_000)
		all = append(all, k.AccAddress().String())
	}
	for _, b := range bridgers {
		w.Fund(ctx, a.bridgerKey(b).AccAddress(), 1000)
	}
	must(w.Handle(ctx, &types.MsgUpdateChainOracles{ChainName: chain, Authority: world.GovAddr(), Oracles: all}))
	// FX bridge token (what an observed MsgBridgeTokenClaim for symbol FX does) and module liquidity
	a.tok = world.DetExt(chain + "/token/FX")
	if chain == "tron" {
		a.tok = helpers.HexAddrToTronAddr(a.tok)
	}
	must(a.K.AddBridgeTokenExecuted(ctx, &types.MsgBridgeTokenClaim{ChainName: chain, TokenContract: a.tok, Name: "Function X", Symbol: fxtypes.DefaultDenom, Decimals: 18}))
	must(w.App.BankKeeper.MintCoins(ctx, "mint", sdk.NewCoins(world.FX(1_000_000))))
	must(w.App.BankKeeper.SendCoinsFromModuleToModule(ctx, "mint", chain, sdk.NewCoins(world.FX(1_000_000))))
	a.recv = w.Key(chain + "/receiver").AccAddress()
	a.user = w.Key(chain + "/user")
	w.Fund(ctx, a.user.AccAddress(), 100_000)
	pair, ok := w.App.Erc20Keeper.GetTokenPair(ctx, fxtypes.DefaultDenom)
	if !ok {
		panic("no FX token pair")
	}
	a.wfx = pair.GetERC20Contract()
	hasB := false
	for _, v := range variants {
		hasB = hasB || v == "B"
	}
	for n := 1; n <= maxNonce && hasB; n++ {
		data, e := precompile.NewExecuteClaimMethod(nil).PackInput(types.ExecuteClaimArgs{Chain: chain, EventNonce: big.NewInt(int64(n))})
		must(e)
		nonce := w.App.EvmKeeper.GetNonce(ctx, a.user.Address())
		amt := a.amount(n, "B").BigInt()
		_, e = w.App.EvmKeeper.CallEVMWithoutGas(ctx, a.user.Address(), nil, nil, initCode(reentrantRuntime(types.GetAddress(), a.wfx, amt, data)), true)
		must(e)
		addr := crypto.CreateAddress(a.user.Address(), nonce)
		if !w.App.EvmKeeper.IsContract(ctx, addr) {
			panic("re-entrant receiver not deployed")
		}
		a.reent = append(a.reent, addr)
	}
	return a
}

func must(err error) {
	if err != nil {
		panic(err)
	}
}

// amount deposited by the claim (n, v): a distinct power of 8, so that the receiver's balance
// encodes how many times each (nonce, variant) was applied.
func (a *Adapter) amount(n int, v string) sdkmath.Int {
	if v == "H" {
		v = "A"
	}
	vi := sort.SearchStrings(a.Variants, v)
	e := (n-1)*len(a.Variants) + vi
	return sdkmath.NewIntFromBigInt(new(big.Int).Exp(big.NewInt(8), big.NewInt(int64(e)), nil))
}

func push2(v int) []byte { return []byte{0x61, byte(v >> 8), byte(v)} }

// reentrantRuntime: if token.balanceOf(self) == amt (i.e. this is the FIRST run of the claim's effects)
// then CALL(gas, target, 0, calldata) with the result ignored; STOP.
// The token balance is written by keeper-level conversions that are committed before the callback
// runs, so (unlike the contract's own storage) it is visible to every nested execution: a correct
// implementation refuses the nested executeClaim, a broken one runs the effects a second time (balance
// 2*amt) and the recursion stops there.
func reentrantRuntime(target, token common.Address, amt *big.Int, calldata []byte) []byte {
	var c []byte
	sel := make([]byte, 32)
	copy(sel, []byte{0x70, 0xa0, 0x82, 0x31}) // balanceOf(address)
	c = append(c, 0x7f)
	c = append(c, sel...)
	c = append(c, 0x60, 0x00, 0x52)       // MSTORE(0, selector)
	c = append(c, 0x30, 0x60, 0x04, 0x52) // MSTORE(4, ADDRESS)
	c = append(c, 0x60, 0x20, 0x60, 0x40, 0x60, 0x24, 0x60, 0x00, 0x73)
	c = append(c, token.Bytes()...)
	c = append(c, 0x5a, 0xfa, 0x50) // STATICCALL ; POP
	c = append(c, 0x60, 0x40, 0x51, 0x7f)
	c = append(c, common.LeftPadBytes(amt.Bytes(), 32)...)
	c = append(c, 0x14, 0x15) // EQ ; ISZERO
	endPos := len(c) + 4 + 9 + 35
	c = append(c, push2(endPos)...)
	c = append(c, 0x57) // JUMPI end
	dataOff := endPos + 2
	c = append(c, push2(len(calldata))...)
	c = append(c, push2(dataOff)...)
	c = append(c, 0x60, 0x00, 0x39)
	c = append(c, 0x60, 0x00, 0x60, 0x00)
	c = append(c, push2(len(calldata))...)
	c = append(c, 0x60, 0x00, 0x60, 0x00, 0x73)
	c = append(c, target.Bytes()...)
	c = append(c, 0x5a, 0xf1, 0x50)
	if len(c) != endPos {
		panic(fmt.Sprintf("assembler offset %d != %d", len(c), endPos))
	}
	c = append(c, 0x5b, 0x00)
	return append(c, calldata...)
}

func initCode(runtime []byte) []byte {
	const hdr = 3 + 3 + 2 + 1 + 3 + 2 + 1
	var c []byte
	c = append(c, push2(len(runtime))...)
	c = append(c, push2(hdr)...)
	c = append(c, 0x60, 0x00, 0x39)
	c = append(c, push2(len(runtime))...)
	c = append(c, 0x60, 0x00, 0xf3)
	return append(c, runtime...)
}

func (a *Adapter) extAddr(hexAddr string) string {
	if a.Chain == "tron" {
		return helpers.HexAddrToTronAddr(hexAddr)
	}
	return hexAddr
}

// variants: "A" a deposit; "B" a bridge call into the re-entrant receiver; "H" the deposit of "A" reported at
// another external height (same amount: what it pays is indistinguishable from "A")
func (a *Adapter) isCallVariant(v string) bool { return v == "B" }

func (a *Adapter) height(n int, v string) uint64 {
	if v == "H" {
		return uint64(1050 + n)
	}
	return uint64(1000 + n)
}

func (a *Adapter) claim(b string, n int, v string) types.ExternalClaim {
	sender := world.DetExt(a.Chain + "/extsender")
	if a.Chain == "tron" {
		sender = helpers.HexAddrToTronAddr(sender)
	}
	if a.isCallVariant(v) {
		return &types.MsgBridgeCallClaim{
			ChainName: a.Chain, BridgerAddress: a.bridgerKey(b).AccAddress().String(), EventNonce: uint64(n), BlockHeight: a.height(n, v),
			Sender: sender, Refund: sender, To: a.extAddr(a.reent[n-1].Hex()), TokenContracts: []string{a.tok}, Amounts: []sdkmath.Int{a.amount(n, v)},
			Data: "01", Value: sdkmath.ZeroInt(), Memo: "", TxOrigin: sender,
		}
	}
	return &types.MsgSendToFxClaim{
		ChainName: a.Chain, BridgerAddress: a.bridgerKey(b).AccAddress().String(),
		EventNonce: uint64(n), BlockHeight: a.height(n, v), TokenContract: a.tok,
		Amount: a.amount(n, v), Sender: sender, Receiver: a.recv.String(), TargetIbc: "",
	}
}

// Apply implements graph.Adapter.
func (a *Adapter) Apply(ctx sdk.Context, op graph.Op) (sdk.Context, string) {
	w := a.W
	var err error
	switch op.Name() {
	case "Bond":
		o, b := op.Str("o"), op.Str("b")
		err = w.Handle(ctx, &types.MsgBondedOracle{
			ChainName: a.Chain, OracleAddress: a.oracleKey(o).AccAddress().String(), BridgerAddress: a.bridgerKey(b).AccAddress().String(),
			ExternalAddress: a.ext(o), ValidatorAddress: w.ValAddr[0].String(),
			DelegateAmount: types.NewDelegateAmount(powerUnit.MulRaw(a.Stake[o])),
		})
	case "AddDelegate":
		o := op.Str("o")
		addr := a.oracleKey(o).AccAddress()
		amt := powerUnit.MulRaw(op.Int("n"))
		if or, found := a.K.GetOracle(ctx, addr); found {
			amt = amt.Add(or.GetSlashAmount(a.K.GetSlashFraction(ctx)))
		}
		err = w.Handle(ctx, &types.MsgAddDelegate{ChainName: a.Chain, OracleAddress: addr.String(), Amount: types.NewDelegateAmount(amt)})
	case "Slash":
		// what keeper.slashing does for one oracle that missed its confirmations (cause: EndBlock.tla)
		o := op.Str("o")
		addr := a.oracleKey(o).AccAddress()
		or, found := a.K.GetOracle(ctx, addr)
		if !found || !or.Online {
			return ctx, "rej"
		}
		a.K.SlashOracle(ctx, addr.String())
		a.K.SetLastTotalPower(ctx)
	case "GovSet":
		set, _ := op["set"].(map[string]any)
		var list []string
		for _, o := range a.Oracles {
			if in, _ := set[o].(bool); in {
				list = append(list, a.oracleKey(o).AccAddress().String())
			}
		}
		err = w.Handle(ctx, &types.MsgUpdateChainOracles{ChainName: a.Chain, Authority: world.GovAddr(), Oracles: list})
	case "Unbond":
		// after the unbonding period: let staking mature the undelegation, then unbond
		o := op.Str("o")
		ut, e := w.App.StakingKeeper.UnbondingTime(ctx)
		must(e)
		later := ctx.WithBlockTime(ctx.BlockTime().Add(ut + time.Hour))
		if _, e = w.App.StakingKeeper.BlockValidatorUpdates(later); e != nil {
			panic(e)
		}
		err = w.Handle(later, &types.MsgUnbondedOracle{ChainName: a.Chain, OracleAddress: a.oracleKey(o).AccAddress().String()})
	case "EditBridger":
		o, b := op.Str("o"), op.Str("b")
		// MsgEditBridger.ValidateBasic parses the bridger as a *validator* address, so the message can never
		// pass the router on this tree (functional defect outside the listed properties, DESIGN §7 row 15);
		// the handler itself is driven directly, as the repository's own tests do.
		msg := &types.MsgEditBridger{ChainName: a.Chain, OracleAddress: a.oracleKey(o).AccAddress().String(), BridgerAddress: a.bridgerKey(b).AccAddress().String()}
		err = world.Atomic(ctx, func(c sdk.Context) error {
			_, e := crosschainkeeper.NewMsgServerImpl(a.K).EditBridger(c, msg)
			return e
		})
	case "Claim":
		s, b, n, v := op.Str("s"), op.Str("b"), int(op.Int("n")), op.Str("v")
		inner := a.claim(b, n, v)
		any, e := codectypes.NewAnyWithValue(inner)
		must(e)
		msg := &types.MsgClaim{ChainName: a.Chain, BridgerAddress: a.bridgerKey(s).AccAddress().String(), Claim: any}
		// the signer the application's signing context requires for this very message must be s
		signers, _, e := w.App.AppCodec().GetMsgV1Signers(msg)
		must(e)
		if len(signers) != 1 || !sdk.AccAddress(signers[0]).Equals(a.bridgerKey(s).AccAddress()) {
			panic(fmt.Sprintf("signing context: required signers %x, harness signer %s", signers, s))
		}
		err = w.Handle(ctx, msg)
	case "Execute":
		data, e := precompile.NewExecuteClaimMethod(nil).PackInput(types.ExecuteClaimArgs{Chain: a.Chain, EventNonce: big.NewInt(op.Int("n"))})
		must(e)
		ok, _ := w.EthCall(ctx, a.user, types.GetAddress(), 3_000_000, data)
		if !ok {
			return ctx, "rej"
		}
	default:
		panic("unknown op " + op.Name())
	}
	if err != nil {
		if os.Getenv("VERIF_DEBUG") != "" {
			fmt.Printf("DEBUG %v -> %v\n", op, err)
		}
		return ctx, "rej"
	}
	return ctx, "ok"
}

// Project reads the stores raw (prefixes 0x12 0x13 0x14 0x17 0x23 0x24 0x38 0x39 0x54) into Attest.tla's Abs.
func (a *Adapter) Project(ctx sdk.Context) any {
	st := ctx.KVStore(a.storeKey)
	cdc := a.W.App.AppCodec()
	name := map[string]string{} // bech32 oracle address -> model name
	for _, o := range a.Oracles {
		name[a.oracleKey(o).AccAddress().String()] = o
	}
	reg, online, approved, power := map[string]bool{}, map[string]bool{}, map[string]bool{}, map[string]int64{}
	bridger, bidx, last, delegated := map[string]string{}, map[string]string{}, map[string]int64{}, map[string]bool{}
	pen := map[string]bool{}
	var po types.ProposalOracle
	if bz := st.Get(types.ProposalOracleKey); bz != nil {
		cdc.MustUnmarshal(bz, &po)
	}
	appr := map[string]bool{}
	for _, s := range po.Oracles {
		appr[s] = true
	}
	bname := map[string]string{}
	for _, b := range a.Bridgers {
		bname[a.bridgerKey(b).AccAddress().String()] = b
		bidx[b] = "none"
		if bz := st.Get(types.GetOracleAddressByBridgerKey(a.bridgerKey(b).AccAddress())); bz != nil {
			if n, ok := name[sdk.AccAddress(bz).String()]; ok {
				bidx[b] = n
			} else {
				bidx[b] = "?" + sdk.AccAddress(bz).String()
			}
		}
	}
	for _, o := range a.Oracles {
		addr := a.oracleKey(o).AccAddress()
		approved[o] = appr[addr.String()]
		bridger[o] = "none"
		last[o] = -1
		if bz := st.Get(types.GetOracleKey(addr)); bz != nil {
			var or types.Oracle
			cdc.MustUnmarshal(bz, &or)
			reg[o] = true
			online[o] = or.Online
			power[o] = or.DelegateAmount.Quo(powerUnit).Int64()
			pen[o] = or.SlashTimes > 0
			if n, ok := bname[or.BridgerAddress]; ok {
				bridger[o] = n
			} else {
				bridger[o] = "?" + or.BridgerAddress
			}
			// external index must point back
			if bz2 := st.Get(types.GetOracleAddressByExternalKey(or.ExternalAddress)); bz2 == nil || !sdk.AccAddress(bz2).Equals(addr) {
				bridger[o] += "!ext-index"
			}
			if _, e := a.W.App.StakingKeeper.GetDelegation(ctx, or.GetDelegateAddress(a.Chain), or.GetValidator()); e == nil {
				delegated[o] = true
			} else {
				delegated[o] = false
			}
		} else {
			reg[o], online[o], power[o], delegated[o], pen[o] = false, false, 0, false, false
		}
		if bz := st.Get(types.GetLastEventNonceByOracleKey(addr)); len(bz) > 0 {
			last[o] = int64(binary.BigEndian.Uint64(bz))
		}
	}
	var total int64
	if bz := st.Get(types.LastTotalPowerKey); bz != nil {
		ip := sdk.IntProto{}
		cdc.MustUnmarshal(bz, &ip)
		total = ip.Int.Int64()
	}
	var lastObs int64
	if bz := st.Get(types.LastObservedEventNonceKey); len(bz) > 0 {
		lastObs = int64(binary.BigEndian.Uint64(bz))
	}
	var obsExt int64
	if bz := st.Get(types.LastObservedBlockHeightKey); len(bz) > 0 {
		var h types.LastObservedBlockHeight
		cdc.MustUnmarshal(bz, &h)
		obsExt = int64(h.ExternalBlockHeight)
	}
	votes := make([]map[string][]string, a.MaxNonce)
	observed := make([]map[string]bool, a.MaxNonce)
	pending := make([]bool, a.MaxNonce)
	effects := make([]map[string]int64, a.MaxNonce)
	for n := 1; n <= a.MaxNonce; n++ {
		votes[n-1] = map[string][]string{}
		observed[n-1] = map[string]bool{}
		effects[n-1] = map[string]int64{}
		for _, v := range a.Variants {
			votes[n-1][v] = []string{}
			observed[n-1][v] = false
		}
		pending[n-1] = st.Has(types.GetPendingExecuteClaimKey(uint64(n)))
	}
	// attestations: raw prefix scan; map claim (nonce, amount) back to the variant
	it := storetypes.KVStorePrefixIterator(st, types.OracleAttestationKey)
	for ; it.Valid(); it.Next() {
		var att types.Attestation
		cdc.MustUnmarshal(it.Value(), &att)
		claim, e := types.UnpackAttestationClaim(cdc, &att)
		must(e)
		n := int(claim.GetEventNonce())
		v := "?"
		switch c := claim.(type) {
		case *types.MsgSendToFxClaim:
			for _, x := range a.Variants {
				if !a.isCallVariant(x) && c.Amount.Equal(a.amount(n, x)) && c.BlockHeight == a.height(n, x) {
					v = x
				}
			}
		case *types.MsgBridgeCallClaim:
			if n >= 1 && n <= a.MaxNonce && len(a.reent) >= n && c.To == a.extAddr(a.reent[n-1].Hex()) {
				v = "B"
			}
		}
		if n < 1 || n > a.MaxNonce {
			continue
		}
		vs := []string{}
		for _, s := range att.Votes {
			if nm, ok := name[s]; ok {
				vs = append(vs, nm)
			} else {
				vs = append(vs, "?"+s)
			}
		}
		votes[n-1][v] = vs
		observed[n-1][v] = att.Observed
	}
	it.Close()
	// effects: base-8 digits of the receiver's balance
	bal := a.W.App.BankKeeper.GetBalance(ctx, a.recv, fxtypes.DefaultDenom).Amount.BigInt()
	eight := big.NewInt(8)
	for n := 1; n <= a.MaxNonce; n++ {
		for _, v := range a.Variants {
			d := new(big.Int)
			bal.DivMod(bal, eight, d)
			effects[n-1][v] += d.Int64()
		}
		// "H" pays the same amount as "A": the digit belongs to whichever of the two was observed
		if _, hasH := effects[n-1]["H"]; hasH && observed[n-1]["H"] && !observed[n-1]["A"] {
			effects[n-1]["H"], effects[n-1]["A"] = effects[n-1]["A"], 0
		}
	}
	if bal.Sign() != 0 {
		effects[0][a.Variants[0]] += 1000 // value beyond every modelled deposit: something else paid the receiver
	}
	// the bridge-call variant: how often the claim's deposit into the receiving contract was applied
	if len(a.reent) > 0 {
		cv := "B"
		for n := 1; n <= a.MaxNonce; n++ {
			b, err := a.W.App.EvmKeeper.ERC20BalanceOf(ctx, a.wfx, a.reent[n-1])
			must(err)
			q, r := new(big.Int).QuoRem(b, a.amount(n, cv).BigInt(), new(big.Int))
			effects[n-1][cv] += q.Int64()
			if r.Sign() != 0 {
				effects[n-1][cv] += 1000
			}
		}
	}
	return map[string]any{
		"reg": reg, "online": online, "approved": approved, "power": power, "bridger": bridger, "bidx": bidx,
		"last": last, "delegated": delegated, "pen": pen, "totalPower": total, "lastObs": lastObs, "obsExt": obsExt,
		"votes": votes, "observed": observed, "pending": pending, "effects": effects,
	}
}
