package attest

import (
	"testing"

	"verifharness/graph"
)

type consts struct {
	Chain    string           `json:"chain"`
	Oracle   []string         `json:"Oracle"`
	Bridger  []string         `json:"Bridger"`
	Variant  []string         `json:"Variant"`
	MaxNonce int              `json:"MaxNonce"`
	Stake    map[string]int64 `json:"Stake"`
}

func TestReplay(t *testing.T) {
	var c consts
	graph.Const(&c)
	a := New(t, c.Chain, c.Oracle, c.Bridger, c.Variant, c.MaxNonce, c.Stake)
	graph.RunReplay(t, a, a.W.Ctx, nil)
}

func TestPath(t *testing.T) {
	var c consts
	graph.Const(&c)
	a := New(t, c.Chain, c.Oracle, c.Bridger, c.Variant, c.MaxNonce, c.Stake)
	graph.RunPath(t, a, a.W.Ctx)
}

func TestWalks(t *testing.T) {
	var c consts
	graph.Const(&c)
	a := New(t, c.Chain, c.Oracle, c.Bridger, c.Variant, c.MaxNonce, c.Stake)
	graph.RunWalks(t, a, a.W.Ctx, a.W.DumpHash)
}

func TestRecord(t *testing.T) {
	var c consts
	graph.Const(&c)
	a := New(t, c.Chain, c.Oracle, c.Bridger, c.Variant, c.MaxNonce, c.Stake)
	graph.RunRecord(t, a, a.W.Ctx)
}
