// Package inputs: C20 — hostile input never crashes a node and cannot dodge the minimum fee.
//
// node.go builds a REAL fxcore application the way a node does: the operator's app.toml is rendered
// with the repository's own template (server/config), parsed by viper, handed to app.New as the
// application options, and the minimum gas price is installed with baseapp.SetMinGasPrices exactly
// as cmd/root.go:newApp does.  Nothing of the fee logic is re-implemented here.
package inputs

import (
	"bytes"
	"encoding/json"
	"fmt"
	"testing"
	"text/template"
	"time"

	"cosmossdk.io/log"
	sdkmath "cosmossdk.io/math"
	abci "github.com/cometbft/cometbft/abci/types"
	tmed25519 "github.com/cometbft/cometbft/crypto/ed25519"
	tmtypes "github.com/cometbft/cometbft/types"
	dbm "github.com/cosmos/cosmos-db"
	"github.com/cosmos/cosmos-sdk/baseapp"
	codectypes "github.com/cosmos/cosmos-sdk/codec/types"
	cryptocodec "github.com/cosmos/cosmos-sdk/crypto/codec"
	"github.com/cosmos/cosmos-sdk/crypto/keys/secp256k1"
	sdkserver "github.com/cosmos/cosmos-sdk/server"
	sdk "github.com/cosmos/cosmos-sdk/types"
	txtypes "github.com/cosmos/cosmos-sdk/types/tx"
	"github.com/cosmos/cosmos-sdk/types/tx/signing"
	authtypes "github.com/cosmos/cosmos-sdk/x/auth/types"
	banktypes "github.com/cosmos/cosmos-sdk/x/bank/types"
	stakingtypes "github.com/cosmos/cosmos-sdk/x/staking/types"
	"github.com/spf13/cast"
	"github.com/spf13/viper"

	"github.com/functionx/fx-core/v8/app"
	fxcfg "github.com/functionx/fx-core/v8/server/config"
	"github.com/functionx/fx-core/v8/testutil/helpers"
	fxtypes "github.com/functionx/fx-core/v8/types"

	"verifharness/world"
)

// OtherDenom is a second, valid fee denomination the node does not price gas in.
const OtherDenom = "usdv"

// NodeCfg is what a node operator writes into app.toml.
type NodeCfg struct {
	Exempt       []string // [bypass-min-fee] msg-types
	Allowance    uint64   // [bypass-min-fee] msg-max-gas-usage
	MinGasPrices string   // minimum-gas-prices, e.g. "3FX"
}

// Node is a real application with one committed block, ready for CheckTx.
// captureLogger keeps what the application logs at error level (the ante handler and baseapp log the stack of a
// panic they recover), so that a recovered panic can be attributed to a source line.
type captureLogger struct{ last *string }

func (c captureLogger) Info(string, ...any)  {}
func (c captureLogger) Warn(string, ...any)  {}
func (c captureLogger) Debug(string, ...any) {}
func (c captureLogger) Error(msg string, kv ...any) {
	*c.last = msg + " " + fmt.Sprint(kv...)
}
func (c captureLogger) With(...any) log.Logger { return c }
func (c captureLogger) Impl() any              { return nil }

// LastError returns and clears the last error-level log entry.
func (n *Node) LastError() string {
	s := *n.logbuf
	*n.logbuf = ""
	return s
}

type Node struct {
	logbuf  *string
	App     *app.App
	Opts    *viper.Viper
	Signer  *helpers.Signer
	ValAddr sdk.ValAddress
	AccNum  uint64
	Seq     uint64 // sequence of Signer in the application's check state
}

// RenderAppToml renders the operator's app.toml with the repository's template.
func RenderAppToml(cfg NodeCfg) ([]byte, error) {
	c := fxcfg.DefaultConfig()
	c.MinGasPrices = cfg.MinGasPrices
	c.BypassMinFee.MsgTypes = cfg.Exempt
	c.BypassMinFee.MsgMaxGasUsage = cfg.Allowance
	tmpl, err := template.New("app.toml").Parse(fxcfg.DefaultConfigTemplate())
	if err != nil {
		return nil, err
	}
	var buf bytes.Buffer
	if err = tmpl.Execute(&buf, c); err != nil {
		return nil, err
	}
	return buf.Bytes(), nil
}

// NewNode constructs the application with the node configuration, initialises a one-validator
// chain whose genesis funds `signer`, and commits block 1 (the ante handler treats height 0 specially).
func NewNode(t testing.TB, cfg NodeCfg, signer *helpers.Signer) *Node {
	toml, err := RenderAppToml(cfg)
	if err != nil {
		t.Fatalf("render app.toml: %v", err)
	}
	v := viper.New()
	v.SetConfigType("toml")
	if err = v.ReadConfig(bytes.NewReader(toml)); err != nil {
		t.Fatalf("parse app.toml: %v\n%s", err, toml)
	}
	// cmd/root.go:newApp
	gasPrice := cast.ToString(v.Get(sdkserver.FlagMinGasPrices))
	logbuf := new(string)
	a := app.New(captureLogger{last: logbuf}, dbm.NewMemDB(), nil, true, map[int64]bool{}, fxtypes.GetDefaultNodeHome(), v,
		baseapp.SetMinGasPrices(gasPrice))

	// ---- genesis (as testutil/helpers.setupWithGenesisValSet, plus the funded signer)
	cdc := a.AppCodec()
	genesis := app.NewDefAppGenesisByDenom(cdc, a.ModuleBasics)
	valKey := tmed25519.GenPrivKeyFromSecret([]byte("verif-c20-validator"))
	validator := tmtypes.NewValidator(valKey.PubKey(), 1)
	valSet := tmtypes.NewValidatorSet([]*tmtypes.Validator{validator})
	opKey := secp256k1.GenPrivKeyFromSecret([]byte("verif-c20-operator"))
	opAcc := authtypes.NewBaseAccount(opKey.PubKey().Address().Bytes(), opKey.PubKey(), 0, 0)
	sigAcc := authtypes.NewBaseAccount(signer.AccAddress(), nil, 1, 0)
	genAccs := authtypes.GenesisAccounts{opAcc, sigAcc}

	var authGenesis authtypes.GenesisState
	cdc.MustUnmarshalJSON(genesis[authtypes.ModuleName], &authGenesis)
	packed, err := authtypes.PackAccounts(genAccs)
	if err != nil {
		t.Fatal(err)
	}
	authGenesis.Accounts = packed
	genesis[authtypes.ModuleName] = cdc.MustMarshalJSON(&authGenesis)

	bondAmt := sdk.DefaultPowerReduction
	pk, err := cryptocodec.FromCmtPubKeyInterface(valSet.Validators[0].PubKey)
	if err != nil {
		t.Fatal(err)
	}
	pkAny, err := codectypes.NewAnyWithValue(pk)
	if err != nil {
		t.Fatal(err)
	}
	valAddr := sdk.ValAddress(opAcc.GetAddress())
	val := stakingtypes.Validator{
		OperatorAddress: valAddr.String(), ConsensusPubkey: pkAny, Status: stakingtypes.Bonded, Tokens: bondAmt,
		DelegatorShares: sdkmath.LegacyNewDecFromInt(bondAmt), UnbondingTime: time.Unix(0, 0).UTC(),
		Commission:        stakingtypes.NewCommission(sdkmath.LegacyZeroDec(), sdkmath.LegacyZeroDec(), sdkmath.LegacyZeroDec()),
		MinSelfDelegation: sdkmath.NewInt(10),
	}
	var stakingGenesis stakingtypes.GenesisState
	cdc.MustUnmarshalJSON(genesis[stakingtypes.ModuleName], &stakingGenesis)
	stakingGenesis.Params.MaxValidators = 1
	stakingGenesis.Validators = []stakingtypes.Validator{val}
	stakingGenesis.Delegations = []stakingtypes.Delegation{stakingtypes.NewDelegation(opAcc.GetAddress().String(), valAddr.String(), sdkmath.LegacyNewDecFromInt(bondAmt))}
	genesis[stakingtypes.ModuleName] = cdc.MustMarshalJSON(&stakingGenesis)

	big := sdkmath.NewIntWithDecimal(1, 30)
	balances := []banktypes.Balance{
		{Address: opAcc.GetAddress().String(), Coins: sdk.NewCoins(sdk.NewCoin(fxtypes.DefaultDenom, sdkmath.NewInt(10_000).MulRaw(1e18)))},
		{Address: signer.AccAddress().String(), Coins: sdk.NewCoins(sdk.NewCoin(fxtypes.DefaultDenom, big), sdk.NewCoin(OtherDenom, big))},
		{Address: authtypes.NewModuleAddress(stakingtypes.BondedPoolName).String(), Coins: sdk.NewCoins(sdk.NewCoin(fxtypes.DefaultDenom, bondAmt))},
	}
	var bankGenesis banktypes.GenesisState
	cdc.MustUnmarshalJSON(genesis[banktypes.ModuleName], &bankGenesis)
	for _, b := range balances {
		bankGenesis.Supply = bankGenesis.Supply.Add(b.Coins...)
	}
	bankGenesis.Balances = append(bankGenesis.Balances, balances...)
	// the default genesis declares 4000 FX of supply that no default balance holds (testutil/helpers.newGenesisState
	// gives it to a throw-away account)
	bankGenesis.Balances = append(bankGenesis.Balances, banktypes.Balance{
		Address: sdk.AccAddress(secp256k1.GenPrivKeyFromSecret([]byte("verif-c20-spare")).PubKey().Address()).String(),
		Coins:   sdk.NewCoins(sdk.NewCoin(fxtypes.DefaultDenom, sdkmath.NewInt(4_000).MulRaw(1e18))),
	})
	genesis[banktypes.ModuleName] = cdc.MustMarshalJSON(&bankGenesis)

	stateBytes, err := json.Marshal(genesis)
	if err != nil {
		t.Fatal(err)
	}
	cp := app.CustomGenesisConsensusParams().ToProto()
	if _, err = a.InitChain(&abci.RequestInitChain{ConsensusParams: &cp, AppStateBytes: stateBytes, InitialHeight: 1}); err != nil {
		t.Fatalf("InitChain: %v", err)
	}
	prop := valSet.Proposer.Address.Bytes()
	if _, err = a.FinalizeBlock(&abci.RequestFinalizeBlock{Height: 1, Time: time.Unix(1_700_000_000, 0).UTC(), ProposerAddress: prop}); err != nil {
		t.Fatalf("FinalizeBlock: %v", err)
	}
	if _, err = a.Commit(); err != nil {
		t.Fatalf("Commit: %v", err)
	}
	n := &Node{App: a, Opts: v, Signer: signer, ValAddr: valAddr, logbuf: logbuf}
	ctx := a.NewContext(true)
	acc := a.AccountKeeper.GetAccount(ctx, signer.AccAddress())
	if acc == nil {
		t.Fatalf("signer account missing after genesis")
	}
	n.AccNum, n.Seq = acc.GetAccountNumber(), acc.GetSequence()
	return n
}

// SignRaw builds a signed transaction (SIGN_MODE_DIRECT) whose body carries the given packed
// messages VERBATIM (the Any values are not re-encoded), signed by n.Signer with the check-state sequence.
func (n *Node) SignRaw(chainID string, gas uint64, fee sdk.Coins, msgs []*codectypes.Any) ([]byte, error) {
	return signRaw(n.Signer, chainID, n.AccNum, n.Seq, gas, fee, msgs)
}

func signRaw(signer *helpers.Signer, chainID string, accNum, seq, gas uint64, fee sdk.Coins, msgs []*codectypes.Any) ([]byte, error) {
	body := &txtypes.TxBody{Messages: msgs}
	bodyBz, err := body.Marshal()
	if err != nil {
		return nil, err
	}
	pkAny, err := codectypes.NewAnyWithValue(signer.PrivKey().PubKey())
	if err != nil {
		return nil, err
	}
	ai := &txtypes.AuthInfo{
		SignerInfos: []*txtypes.SignerInfo{{PublicKey: pkAny, ModeInfo: &txtypes.ModeInfo{Sum: &txtypes.ModeInfo_Single_{Single: &txtypes.ModeInfo_Single{Mode: signing.SignMode_SIGN_MODE_DIRECT}}}, Sequence: seq}},
		Fee:         &txtypes.Fee{Amount: fee, GasLimit: gas},
	}
	aiBz, err := ai.Marshal()
	if err != nil {
		return nil, err
	}
	sd := &txtypes.SignDoc{BodyBytes: bodyBz, AuthInfoBytes: aiBz, ChainId: chainID, AccountNumber: accNum}
	sdBz, err := sd.Marshal()
	if err != nil {
		return nil, err
	}
	sig, err := signer.PrivKey().Sign(sdBz)
	if err != nil {
		return nil, err
	}
	raw := &txtypes.TxRaw{BodyBytes: bodyBz, AuthInfoBytes: aiBz, Signatures: [][]byte{sig}}
	return raw.Marshal()
}

// PackMsgs packs real message objects.
func PackMsgs(msgs ...sdk.Msg) ([]*codectypes.Any, error) {
	out := make([]*codectypes.Any, len(msgs))
	for i, m := range msgs {
		a, err := codectypes.NewAnyWithValue(m)
		if err != nil {
			return nil, err
		}
		out[i] = a
	}
	return out, nil
}

// CheckTx runs the application's real CheckTx and keeps the local sequence in step with the check state.
func (n *Node) CheckTx(tx []byte) (*abci.ResponseCheckTx, error) {
	res, err := n.App.CheckTx(&abci.RequestCheckTx{Tx: tx, Type: abci.CheckTxType_New})
	if err == nil && res.Code == 0 {
		n.Seq++
	}
	return res, err
}

func ensureConfig(t *testing.T) {
	// world.New seals the bech32 configuration exactly once per process
	_ = world.New(t, 1)
}

var _ = fmt.Sprintf
