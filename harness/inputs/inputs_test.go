package inputs

import (
	"bufio"
	"encoding/hex"
	"encoding/json"
	"fmt"
	"math/big"
	"os"
	"reflect"
	"regexp"
	"runtime/debug"
	"sort"
	"strings"
	"testing"

	errorsmod "cosmossdk.io/errors"
	abci "github.com/cometbft/cometbft/abci/types"
	codectypes "github.com/cosmos/cosmos-sdk/codec/types"
	sdk "github.com/cosmos/cosmos-sdk/types"
	txtypes "github.com/cosmos/cosmos-sdk/types/tx"
	"github.com/cosmos/cosmos-sdk/types/tx/signing"
	banktypes "github.com/cosmos/cosmos-sdk/x/bank/types"
	govv1beta1 "github.com/cosmos/cosmos-sdk/x/gov/types/v1beta1"
	gogoproto "github.com/cosmos/gogoproto/proto"
	"github.com/ethereum/go-ethereum/accounts/abi"
	"github.com/ethereum/go-ethereum/common"
	"google.golang.org/protobuf/encoding/protojson"
	"google.golang.org/protobuf/proto"
	"google.golang.org/protobuf/reflect/protoreflect"
	"google.golang.org/protobuf/types/dynamicpb"

	"github.com/functionx/fx-core/v8/testutil/helpers"
	fxtypes "github.com/functionx/fx-core/v8/types"
	crosschaintypes "github.com/functionx/fx-core/v8/x/crosschain/types"
	ibcmwtypes "github.com/functionx/fx-core/v8/x/ibc/middleware/types"
	stakingtypes "github.com/functionx/fx-core/v8/x/staking/types"

	"verifharness/world"
)

type suite struct {
	t         *testing.T
	w         *world.W
	node      *Node
	signer    *helpers.Signer
	env       *Env
	table     []TypeEntry
	byName    map[string]*TypeEntry
	missing   []string
	baselines map[string]gogoproto.Message
	baseBytes map[string][]byte
	descs     map[string]protoreflect.MessageDescriptor
	abis      map[string]abiMethod
}

type abiMethod struct {
	addr   common.Address
	method abi.Method
	base   []any
	blob   []byte // ABI encoding of the baseline arguments (without selector)
}

func newSuite(t *testing.T) *suite {
	s := &suite{t: t, byName: map[string]*TypeEntry{}, baseBytes: map[string][]byte{}, descs: map[string]protoreflect.MessageDescriptor{}, abis: map[string]abiMethod{}}
	s.w = world.New(t, 1)
	s.signer = world.DetKey("c20-signer")
	s.w.Fund(s.w.Ctx, s.signer.AccAddress(), 1_000_000)
	s.env = NewEnv(s.signer, s.w.ValAddr[0])
	s.node = NewNode(t, NodeCfg{Exempt: nil, Allowance: 0, MinGasPrices: "0" + fxtypes.DefaultDenom}, s.signer)
	s.table, s.missing = BuildTable(s.w.App.InterfaceRegistry())
	s.baselines = Baselines(s.env, s.signer)
	for i := range s.table {
		e := &s.table[i]
		s.byName[e.Name] = e
		switch e.Group {
		case "msg":
			url := strings.TrimPrefix(e.Name, "msg:")
			b, ok := s.baselines[url]
			if !ok {
				s.missing = append(s.missing, fmt.Sprintf("registered type %s has no generator (baseline) in the harness", url))
				continue
			}
			bz, err := gogoproto.Marshal(b)
			if err != nil {
				t.Fatalf("marshal baseline %s: %v", url, err)
			}
			s.baseBytes[url] = bz
			md, err := descriptorOf(url)
			if err != nil {
				t.Fatalf("descriptor %s: %v", url, err)
			}
			s.descs[url] = md
		case "tx":
			url := strings.TrimPrefix(e.Name, "tx:")
			md, err := descriptorOf(url)
			if err != nil {
				t.Fatalf("descriptor %s: %v", url, err)
			}
			s.descs[url] = md
		case "abi":
			cn, mn, _ := strings.Cut(strings.TrimPrefix(e.Name, "abi:"), ".")
			var a abi.ABI
			var addr common.Address
			if cn == "staking" {
				a, addr = stakingtypes.GetABI(), stakingtypes.GetAddress()
			} else {
				a, addr = crosschaintypes.GetABI(), crosschaintypes.GetAddress()
			}
			m := a.Methods[mn]
			am := abiMethod{addr: addr, method: m}
			ok := true
			for _, in := range m.Inputs {
				v, err := s.env.abiBaseline(cn, in)
				if err != nil {
					s.missing = append(s.missing, err.Error())
					ok = false
					break
				}
				am.base = append(am.base, v)
			}
			if !ok {
				continue
			}
			blob, err := m.Inputs.Pack(am.base...)
			if err != nil {
				t.Fatalf("pack baseline %s: %v", e.Name, err)
			}
			am.blob = blob
			e.NWords = len(blob) / 32
			e.DynWords = dynWords(m, blob)
			s.abis[e.Name] = am
		}
	}
	for url := range s.baselines {
		if _, ok := s.byName["msg:"+url]; !ok {
			s.missing = append(s.missing, fmt.Sprintf("baseline for %s, which is not a registered fx-core type", url))
		}
	}
	return s
}

// dynWords: indices (in 32-byte words of the argument blob) of every offset word and every length word.
func dynWords(m abi.Method, blob []byte) []int {
	out := []int{}
	slot := 0
	for _, in := range m.Inputs {
		switch in.Type.T {
		case abi.StringTy, abi.BytesTy, abi.SliceTy:
			out = append(out, slot)
			off := new(big.Int).SetBytes(blob[32*slot : 32*slot+32]).Int64()
			out = append(out, int(off/32))
		}
		slot++
	}
	sort.Ints(out)
	return out
}

type outcome struct {
	Outcome string `json:"outcome"` // accept | reject | panic: …
	Stage   string `json:"stage"`
	Passed  string `json:"passed,omitempty"` // stages that accepted before the deciding one
	Detail  string `json:"detail,omitempty"`
	Where   string `json:"where,omitempty"` // first fx-core frame of a recovered panic
	// Recovered: a panic raised inside a dependency that the application recovered and returned as an error
	Recovered bool `json:"recovered_dependency_panic,omitempty"`
}

var fxFrame = regexp.MustCompile(`(?m)^(github\.com/functionx/fx-core/[^\n]*)\n\t([^\n]*)`)

// frame renders "function @ file:line" of the first fx-core frame in a stack (arguments stripped).
func frame(stack string) string {
	m := fxFrame.FindStringSubmatch(stack)
	if m == nil {
		return ""
	}
	fn := strings.TrimPrefix(strings.TrimSpace(m[1]), "github.com/functionx/fx-core/v8/")
	if i := strings.LastIndex(fn, "("); i > 0 && strings.HasSuffix(fn, ")") {
		fn = fn[:i]
	}
	return fn + " @ " + strings.TrimSpace(strings.Split(m[2], " +")[0])
}

var stackFrame = regexp.MustCompile(`(?m)^(\S[^\n]*)\n\t(\S+):(\d+)`)

func cleanFn(fn string) string {
	fn = strings.TrimPrefix(strings.TrimSpace(fn), "github.com/functionx/fx-core/v8/")
	if i := strings.LastIndex(fn, "("); i > 0 && strings.HasSuffix(fn, ")") {
		fn = fn[:i]
	}
	return fn
}

// anyFrame attributes a logged stack: the frame that raised the ORIGINAL panic (the one below the last panic() frame;
// decorators that recover and re-panic sit above it) and, if different, the first frame below it whose source file
// belongs to the repository under test.
func anyFrame(stack string) string {
	w, _ := attribute(stack)
	return w
}

// attribute returns the rendered location and whether the ORIGINAL panic was raised by code of the repository under
// test ("repo"), by a dependency ("dependency") or cannot be told ("unknown").
func attribute(stack string) (string, string) {
	fr := stackFrame.FindAllStringSubmatch(stack, -1)
	last := -1
	for i, f := range fr {
		if strings.HasPrefix(f[1], "panic(") {
			last = i
		}
	}
	if last < 0 {
		return frame(stack), "unknown"
	}
	origin := -1
	for i := last + 1; i < len(fr); i++ {
		if !strings.HasPrefix(fr[i][1], "runtime.") {
			origin = i
			break
		}
	}
	if origin < 0 {
		return "", "unknown"
	}
	at := func(i int) string { return cleanFn(fr[i][1]) + " @ " + fr[i][2] + ":" + fr[i][3] }
	for i := origin; i < len(fr); i++ {
		if strings.HasPrefix(fr[i][2], repoDir()+"/") {
			if i == origin {
				return at(i), "repo"
			}
			return at(i) + " (raised in " + at(origin) + ")", "dependency"
		}
	}
	return at(origin), "dependency"
}

// checkTxOutcome classifies the response of the real CheckTx.  A panic that the application recovered (ErrPanic) is
// the outcome "panic" when it was raised by fx-core code (or its origin cannot be told); a panic raised inside a
// dependency and converted into an error by fx-core's ante handler (its deferred Recover) is a rejection, recorded apart.
func (s *suite) checkTxOutcome(res *abci.ResponseCheckTx, err error) outcome {
	switch {
	case err != nil:
		return outcome{Outcome: "reject", Stage: "checktx", Detail: short(err.Error(), 120)}
	case res.Code == 0:
		return outcome{Outcome: "accept", Stage: "checktx"}
	case isPanicCode(res.Codespace, res.Code):
		where, origin := attribute(res.Log + "\n" + s.node.LastError())
		msg := short(strings.SplitN(res.Log, "\n", 2)[0], 200)
		if origin == "dependency" {
			return outcome{Outcome: "reject", Stage: "checktx", Detail: "dependency panic recovered by the application and returned as an error: " + msg, Where: where, Recovered: true}
		}
		return outcome{Outcome: "panic: " + msg, Stage: "checktx", Where: where}
	}
	return outcome{Outcome: "reject", Stage: "checktx", Detail: short(res.Log, 120)}
}

// guard runs f; a panic is recovered ONLY to be reported as the outcome.
func guard(stage string, f func() error) (o outcome) {
	defer func() {
		if r := recover(); r != nil {
			o = outcome{Outcome: fmt.Sprintf("panic: %v", r), Stage: stage}
			o.Where = anyFrame(string(debug.Stack()))
		}
	}()
	if err := f(); err != nil {
		return outcome{Outcome: "reject", Stage: stage, Detail: short(err.Error(), 120)}
	}
	return outcome{Outcome: "accept", Stage: stage}
}

func isPanicCode(space string, code uint32) bool {
	return space == errorsmod.ErrPanic.Codespace() && code == errorsmod.ErrPanic.ABCICode()
}

// offer hands wire bytes claiming to be a message of type url to the real code: real decoder, real
// ValidateBasic, and - when stateless validation accepts - the real CheckTx (ante handler in check-tx mode).
func (s *suite) offer(e *TypeEntry, url string, bz []byte, dm *dynamicpb.Message) (final outcome) {
	passed := []string{}
	defer func() { final.Passed = strings.Join(passed, ",") }()
	rt := gogoproto.MessageType(strings.TrimPrefix(url, "/"))
	if rt == nil {
		s.t.Fatalf("no Go type for %s", url)
	}
	isIface := func(name string) bool {
		for _, i := range e.Ifaces {
			if i == name {
				return true
			}
		}
		return false
	}
	if isIface("fx.ibc.applications.transfer.v1.MemoPacket") {
		// memo packets reach a node as proto-JSON in the memo of an IBC transfer (x/ibc/middleware/keeper.HandlerIbcCall):
		// the real interface-JSON decoder, then the real ValidateBasic.  (Values JSON cannot express are offered as protobuf only.)
		if js, err := memoJSON(url, dm); err == nil {
			var mp ibcmwtypes.MemoPacket
			o := guard("memo_json_decode", func() error { return s.node.App.AppCodec().UnmarshalInterfaceJSON(js, &mp) })
			if o.Outcome == "accept" {
				o = guard("memo_json_validate_basic", mp.ValidateBasic)
			}
			if o.Outcome != "accept" && o.Outcome != "reject" {
				return o
			}
		}
	}
	msg := reflect.New(rt.Elem()).Interface().(gogoproto.Message)
	if o := guard("decode", func() error { return s.node.App.AppCodec().Unmarshal(bz, msg) }); o.Outcome != "accept" {
		return o
	}
	passed = append(passed, "decode")
	if v, ok := msg.(interface{ ValidateBasic() error }); ok {
		if o := guard("validate_basic", v.ValidateBasic); o.Outcome != "accept" {
			if o.Outcome != "reject" && isIface("cosmos.base.v1beta1.Msg") {
				// show what the node's entry point does with the very same bytes
				if tx, err := s.node.SignRaw("", 20_000_000, sdk.Coins{}, []*codectypes.Any{{TypeUrl: url, Value: bz}}); err == nil {
					if r, err := s.node.CheckTx(tx); err == nil {
						o.Detail = fmt.Sprintf("real CheckTx of a signed tx carrying these bytes: codespace=%s code=%d log=%q", r.Codespace, r.Code, short(r.Log, 90))
					}
				}
			}
			return o
		}
		passed = append(passed, "validate_basic")
	}
	var packed *codectypes.Any
	switch {
	case isIface("cosmos.base.v1beta1.Msg"):
		packed = &codectypes.Any{TypeUrl: url, Value: bz}
	case isIface("gravity.v1beta1.ExternalClaim"):
		claim := msg.(crosschaintypes.ExternalClaim)
		chain := ""
		if c, ok := msg.(crosschaintypes.CrossChainMsg); ok {
			chain = c.GetChainName()
		}
		var bridger string
		if o := guard("claimer", func() error { bridger = claim.GetClaimer().String(); return nil }); o.Outcome != "accept" {
			return o
		}
		wrap := &crosschaintypes.MsgClaim{ChainName: chain, BridgerAddress: bridger, Claim: &codectypes.Any{TypeUrl: url, Value: bz}}
		wbz, err := gogoproto.Marshal(wrap)
		if err != nil {
			s.t.Fatal(err)
		}
		packed = &codectypes.Any{TypeUrl: urlMsgClaim, Value: wbz}
	case isIface("cosmos.gov.v1beta1.Content"):
		wrap := &govv1beta1.MsgSubmitProposal{Content: &codectypes.Any{TypeUrl: url, Value: bz}, InitialDeposit: sdk.NewCoins(fxCoin(1)), Proposer: s.env.Fx}
		wbz, err := gogoproto.Marshal(wrap)
		if err != nil {
			s.t.Fatal(err)
		}
		packed = &codectypes.Any{TypeUrl: "/cosmos.gov.v1beta1.MsgSubmitProposal", Value: wbz}
	default:
		return outcome{Outcome: "accept", Stage: "validate_basic"}
	}
	tx, err := s.node.SignRaw("", 20_000_000, sdk.Coins{}, []*codectypes.Any{packed})
	if err != nil {
		s.t.Fatal(err)
	}
	s.node.LastError()
	return s.checkTxOutcome(s.node.CheckTx(tx))
}

type icase struct {
	Type string   `json:"type"`
	Fam  string   `json:"fam"`
	Cls  []string `json:"cls"`
	K    int      `json:"k"`
	D    int      `json:"d"`
	V    string   `json:"v"`
}

func (s *suite) runMsg(e *TypeEntry, c icase) outcome {
	url := strings.TrimPrefix(e.Name, "msg:")
	dm := dynamicpb.NewMessage(s.descs[url])
	if err := proto.Unmarshal(s.baseBytes[url], dm); err != nil {
		s.t.Fatalf("baseline of %s does not parse with its own descriptor: %v", url, err)
	}
	if err := s.env.Mutate(dm, e.Fields, c.Cls); err != nil {
		s.t.Fatalf("INCOMPLETE: %s: %v", url, err)
	}
	bz, err := proto.MarshalOptions{AllowPartial: true, Deterministic: true}.Marshal(dm)
	if err != nil {
		s.t.Fatalf("marshal %s %v: %v", url, c.Cls, err)
	}
	return s.offer(e, url, bz, dm)
}

// memoJSON renders the (hostile) message as the proto-JSON an IBC counterparty would put into the memo.
func memoJSON(url string, dm *dynamicpb.Message) ([]byte, error) {
	if dm == nil {
		return nil, fmt.Errorf("no message")
	}
	js, err := protojson.MarshalOptions{UseProtoNames: true}.Marshal(dm)
	if err != nil {
		return nil, err
	}
	var m map[string]json.RawMessage
	if err = json.Unmarshal(js, &m); err != nil {
		return nil, err
	}
	t, _ := json.Marshal(url)
	m["@type"] = t
	return json.Marshal(m)
}

// runTx: one part of the transaction envelope (TxBody / AuthInfo / TxRaw) is replaced by its hostile variant, the
// transaction is signed by the harness key over exactly those bytes and offered to the real CheckTx.
func (s *suite) runTx(e *TypeEntry, c icase) outcome {
	url := strings.TrimPrefix(e.Name, "tx:")
	k2 := world.DetKey("c20-second").AccAddress()
	send := banktypes.NewMsgSend(s.signer.AccAddress(), k2, sdk.NewCoins(fxCoin(1)))
	body := &txtypes.TxBody{Messages: []*codectypes.Any{mustAny(send)}, Memo: "memo"}
	pk, err := codectypes.NewAnyWithValue(s.signer.PrivKey().PubKey())
	if err != nil {
		s.t.Fatal(err)
	}
	ai := &txtypes.AuthInfo{
		SignerInfos: []*txtypes.SignerInfo{{PublicKey: pk, ModeInfo: &txtypes.ModeInfo{Sum: &txtypes.ModeInfo_Single_{Single: &txtypes.ModeInfo_Single{Mode: signing.SignMode_SIGN_MODE_DIRECT}}}, Sequence: s.node.Seq}},
		Fee:         &txtypes.Fee{Amount: sdk.NewCoins(fxCoin(1)), GasLimit: 20_000_000},
	}
	bodyBz, _ := body.Marshal()
	aiBz, _ := ai.Marshal()
	mutate := func(src []byte) []byte {
		dm := dynamicpb.NewMessage(s.descs[url])
		if err := proto.Unmarshal(src, dm); err != nil {
			s.t.Fatalf("baseline of %s does not parse: %v", url, err)
		}
		if err := s.env.Mutate(dm, e.Fields, c.Cls); err != nil {
			s.t.Fatalf("INCOMPLETE: %s: %v", url, err)
		}
		out, err := proto.MarshalOptions{AllowPartial: true, Deterministic: true}.Marshal(dm)
		if err != nil {
			s.t.Fatalf("marshal %s %v: %v", url, c.Cls, err)
		}
		return out
	}
	sign := func(b, a []byte) []byte {
		sd := &txtypes.SignDoc{BodyBytes: b, AuthInfoBytes: a, ChainId: "", AccountNumber: s.node.AccNum}
		sdBz, _ := sd.Marshal()
		sig, err := s.signer.PrivKey().Sign(sdBz)
		if err != nil {
			s.t.Fatal(err)
		}
		return sig
	}
	var txBz []byte
	switch url {
	case "/cosmos.tx.v1beta1.TxBody":
		bodyBz = mutate(bodyBz)
		raw := &txtypes.TxRaw{BodyBytes: bodyBz, AuthInfoBytes: aiBz, Signatures: [][]byte{sign(bodyBz, aiBz)}}
		txBz, _ = raw.Marshal()
	case "/cosmos.tx.v1beta1.AuthInfo":
		aiBz = mutate(aiBz)
		raw := &txtypes.TxRaw{BodyBytes: bodyBz, AuthInfoBytes: aiBz, Signatures: [][]byte{sign(bodyBz, aiBz)}}
		txBz, _ = raw.Marshal()
	case "/cosmos.tx.v1beta1.TxRaw":
		raw := &txtypes.TxRaw{BodyBytes: bodyBz, AuthInfoBytes: aiBz, Signatures: [][]byte{sign(bodyBz, aiBz)}}
		rawBz, _ := raw.Marshal()
		txBz = mutate(rawBz)
	default:
		s.t.Fatalf("INCOMPLETE: no runner for %s", e.Name)
	}
	s.node.LastError()
	return s.checkTxOutcome(s.node.CheckTx(txBz))
}

var wordVals = map[string]*big.Int{
	"0": big.NewInt(0), "1": big.NewInt(1), "31": big.NewInt(31), "32": big.NewInt(32),
	"2^31":    new(big.Int).Lsh(big.NewInt(1), 31),
	"2^64-1":  new(big.Int).Sub(new(big.Int).Lsh(big.NewInt(1), 64), big.NewInt(1)),
	"2^256-1": new(big.Int).Sub(new(big.Int).Lsh(big.NewInt(1), 256), big.NewInt(1)),
}

func (s *suite) callData(e *TypeEntry, c icase) []byte {
	am, ok := s.abis[e.Name]
	if !ok {
		s.t.Fatalf("INCOMPLETE: no baseline arguments for %s", e.Name)
	}
	var args []byte
	switch c.Fam {
	case "fields":
		vals := make([]any, len(am.base))
		copy(vals, am.base)
		for i, cl := range c.Cls {
			if cl == "valid" {
				continue
			}
			v, err := s.env.abiClass(am.method.Inputs[i], e.Fields[i].Kind, cl, am.base[i])
			if err != nil {
				s.t.Fatalf("INCOMPLETE: %s: %v", e.Name, err)
			}
			vals[i] = v
		}
		p, err := am.method.Inputs.Pack(vals...)
		if err != nil {
			s.t.Fatalf("pack %s %v: %v", e.Name, c.Cls, err)
		}
		args = p
	case "trunc":
		n := 32*c.K + c.D
		args = make([]byte, n)
		copy(args, am.blob) // n > len(blob): zero padded
	case "word":
		args = append([]byte{}, am.blob...)
		v, ok := wordVals[c.V]
		if !ok {
			s.t.Fatalf("INCOMPLETE: no word value %q", c.V)
		}
		v.FillBytes(args[32*c.K : 32*c.K+32])
	default:
		s.t.Fatalf("unknown family %q", c.Fam)
	}
	return append(append([]byte{}, am.method.ID...), args...)
}

// runABI sends the call data to the real precompile in a real EVM transaction (branch of the real store, discarded).
func (s *suite) runABI(e *TypeEntry, c icase) outcome {
	data := s.callData(e, c)
	am := s.abis[e.Name]
	cctx, _ := s.w.Ctx.CacheContext()
	res, err := s.w.EthTx(cctx, s.signer, &am.addr, nil, 8_000_000, data)
	switch {
	case err != nil && strings.HasPrefix(err.Error(), "PANIC:"):
		o := outcome{Outcome: "panic: " + short(strings.TrimPrefix(err.Error(), "PANIC: "), 200), Stage: "precompile"}
		// re-run unguarded by world.EthTx to obtain the frame
		return s.locate(o, func() { c2, _ := s.w.Ctx.CacheContext(); _, _ = s.rawEthTx(c2, am.addr, data) })
	case err != nil:
		return outcome{Outcome: "reject", Stage: "evm_tx", Detail: short(err.Error(), 120)}
	case res.VmError != "":
		return outcome{Outcome: "reject", Stage: "precompile", Detail: short(res.VmError, 120)}
	}
	return outcome{Outcome: "accept", Stage: "precompile"}
}

func (s *suite) locate(o outcome, f func()) outcome {
	defer func() {
		if r := recover(); r != nil {
			o.Where = anyFrame(string(debug.Stack()))
		}
	}()
	f()
	return o
}

func (s *suite) rawEthTx(ctx sdk.Context, to common.Address, data []byte) (any, error) {
	return s.w.App.EvmKeeper.CallEVMWithoutGas(ctx, s.signer.Address(), &to, nil, data, false)
}

func (s *suite) runStr(e *TypeEntry, c icase) outcome {
	get := func(i int) string {
		f := e.Fields[i]
		cl := c.Cls[i]
		switch f.Kind {
		case "target":
			v, ok := s.env.TargetClass(cl)
			if !ok {
				s.t.Fatalf("INCOMPLETE: no target class %q", cl)
			}
			return v
		case "string":
			if cl == "valid" {
				return s.env.Fx
			}
			v, ok := s.env.StringClass(cl)
			if !ok {
				s.t.Fatalf("INCOMPLETE: no string class %q", cl)
			}
			return v
		case "bool":
			return cl
		}
		s.t.Fatalf("INCOMPLETE: string parser field kind %q", f.Kind)
		return ""
	}
	acc := s.signer.AccAddress()
	switch strings.TrimPrefix(e.Name, "str:") {
	case "ParseFxTarget":
		target, isHex := get(0), get(1) == "true"
		return guard("ParseFxTarget", func() error {
			for _, in := range []string{target, hex.EncodeToString([]byte(target))} {
				ft := fxtypes.ParseFxTarget(in, isHex)
				_, _, _, _ = ft.GetTarget(), ft.String(), ft.IsIBC(), ft.IBCValidate()
				_, _ = ft.ReceiveAddrToStr(acc)
			}
			return nil
		})
	case "GetIbcDenomTrace":
		denom, ch := get(0), get(1)
		return guard("GetIbcDenomTrace", func() error {
			_, err1 := fxtypes.GetIbcDenomTrace(denom, ch)
			_, err2 := fxtypes.GetIbcDenomTrace(denom, hex.EncodeToString([]byte(ch)))
			if err1 != nil && err2 != nil {
				return err2
			}
			return nil
		})
	case "ParseAddress":
		a := get(0)
		return guard("ParseAddress", func() error {
			_, _, err := fxtypes.ParseAddress(a)
			return err
		})
	}
	s.t.Fatalf("INCOMPLETE: no runner for %s", e.Name)
	return outcome{}
}

// TestDump writes the field tables (input of Inputs.tla's Table constant) and checks completeness.
func TestDump(t *testing.T) {
	outFile := os.Getenv("VERIF_OUT")
	if outFile == "" {
		t.Skip("VERIF_OUT not set")
	}
	s := newSuite(t)
	baseOK := map[string]string{}
	for i := range s.table {
		e := &s.table[i]
		switch e.Group {
		case "msg":
			url := strings.TrimPrefix(e.Name, "msg:")
			if bz, ok := s.baseBytes[url]; ok {
				dm := dynamicpb.NewMessage(s.descs[url])
				_ = proto.Unmarshal(bz, dm)
				o := s.offer(e, url, bz, dm)
				baseOK[e.Name] = o.Outcome + "@" + o.Stage
				if o.Outcome != "accept" {
					baseOK[e.Name] += " (" + o.Detail + ")"
				}
			}
		case "tx":
			valid := make([]string, len(e.Fields))
			for j := range valid {
				valid[j] = "valid"
			}
			o := s.runTx(e, icase{Type: e.Name, Fam: "fields", Cls: valid})
			baseOK[e.Name] = o.Outcome + "@" + o.Stage
			if o.Outcome != "accept" {
				baseOK[e.Name] += " (" + o.Detail + ")"
			}
		case "abi":
			if _, ok := s.abis[e.Name]; ok {
				valid := make([]string, len(e.Fields))
				for j := range valid {
					valid[j] = "valid"
				}
				o := s.runABI(e, icase{Type: e.Name, Fam: "fields", Cls: valid})
				baseOK[e.Name] = o.Outcome + "@" + o.Stage
				if o.Outcome != "accept" {
					baseOK[e.Name] += " (" + o.Detail + ")"
				}
			}
		}
	}
	b, _ := json.MarshalIndent(map[string]any{"table": s.table, "missing": s.missing, "baseline": baseOK}, "", " ")
	if err := os.WriteFile(outFile, b, 0o644); err != nil {
		t.Fatal(err)
	}
}

// TestInputs executes every case of the cases file (VERIF_SHARD of VERIF_SHARDS by line) on the real code.
func TestInputs(t *testing.T) {
	casesFile, outFile, statsFile := os.Getenv("VERIF_CASES"), os.Getenv("VERIF_OUT"), os.Getenv("VERIF_STATS")
	if casesFile == "" {
		t.Skip("VERIF_CASES not set")
	}
	shard, shards := envInt("VERIF_SHARD", 0), envInt("VERIF_SHARDS", 1)
	sampleEvery := envInt("VERIF_SAMPLE_EVERY", 50)
	s := newSuite(t)
	if len(s.missing) > 0 {
		t.Fatalf("INCOMPLETE: %v", s.missing)
	}
	f, err := os.Open(casesFile)
	if err != nil {
		t.Fatal(err)
	}
	defer f.Close()
	out, err := os.Create(outFile)
	if err != nil {
		t.Fatal(err)
	}
	defer out.Close()
	w := bufio.NewWriterSize(out, 1<<20)
	defer w.Flush()

	type tstat struct {
		Cases, Accept, Reject, Panic int
		PassedVB                     int // stateless validation accepted (whatever happened afterwards)
		RecoveredDep                 int // rejected because the application recovered a panic raised inside a dependency
		Stages                       map[string]int
	}
	stats := map[string]*tstat{}
	type pinfo struct {
		Case    json.RawMessage `json:"case"`
		Real    outcome         `json:"real"`
		Count   int             `json:"count"`
		Weight  int             `json:"nonvalid_fields"`
		Mutated []string        `json:"mutated"`
	}
	panics := map[string]*pinfo{}
	recovered := map[string]*pinfo{}
	sc := bufio.NewScanner(f)
	sc.Buffer(make([]byte, 1<<20), 1<<26)
	n, executed := 0, 0
	seenType := map[string]bool{}
	for sc.Scan() {
		n++
		if (n-1)%shards != shard {
			continue
		}
		raw := append([]byte{}, sc.Bytes()...)
		var c icase
		if err = json.Unmarshal(raw, &c); err != nil {
			t.Fatalf("bad case line %d: %v", n, err)
		}
		e, ok := s.byName[c.Type]
		if !ok {
			t.Fatalf("INCOMPLETE: case for unknown type %s", c.Type)
		}
		var o outcome
		switch e.Group {
		case "msg":
			o = s.runMsg(e, c)
		case "abi":
			o = s.runABI(e, c)
		case "tx":
			o = s.runTx(e, c)
		case "str":
			o = s.runStr(e, c)
		}
		executed++
		st := stats[c.Type]
		if st == nil {
			st = &tstat{Stages: map[string]int{}}
			stats[c.Type] = st
		}
		st.Cases++
		st.Stages[o.Outcome[:min(6, len(o.Outcome))]+"@"+o.Stage]++
		if strings.Contains(o.Passed, "validate_basic") || (o.Outcome == "accept" && e.Group != "msg") {
			st.PassedVB++
		}
		isPanic := false
		switch {
		case o.Outcome == "accept":
			st.Accept++
		case o.Outcome == "reject":
			st.Reject++
		default:
			st.Panic++
			isPanic = true
		}
		if o.Recovered {
			st.RecoveredDep++
		}
		if isPanic || o.Recovered {
			weight := 0
			var mut []string
			for i, cl := range c.Cls {
				if cl != "valid" {
					weight++
					mut = append(mut, e.Fields[i].Path+"="+cl)
				}
			}
			if c.Fam != "fields" {
				weight = 1
				mut = []string{fmt.Sprintf("%s k=%d d=%d v=%s", c.Fam, c.K, c.D, c.V)}
			}
			key := c.Type + " | " + o.Stage + " | " + o.Where + " | " + short(o.Outcome, 80)
			book := panics
			if o.Recovered {
				book = recovered
				key = c.Type + " | " + o.Where
			}
			p := book[key]
			if p == nil || weight < p.Weight {
				cnt := 0
				if p != nil {
					cnt = p.Count
				}
				p = &pinfo{Case: raw, Real: o, Weight: weight, Mutated: mut, Count: cnt}
				book[key] = p
			}
			p.Count++
		}
		if isPanic || !seenType[c.Type] || executed%sampleEvery == 0 {
			seenType[c.Type] = true
			line, _ := json.Marshal(map[string]any{"case": json.RawMessage(raw), "real": o})
			w.Write(line)
			w.WriteByte('\n')
		}
	}
	b, _ := json.Marshal(map[string]any{"executed": executed, "types": stats, "panics": panics, "recovered_dependency_panics": recovered})
	if err = os.WriteFile(statsFile, b, 0o644); err != nil {
		t.Fatal(err)
	}
}
