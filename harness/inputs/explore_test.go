package inputs

import (
	"fmt"
	"sort"
	"strings"
	"testing"

	gogoproto "github.com/cosmos/gogoproto/proto"
	"google.golang.org/protobuf/reflect/protoreflect"

	"verifharness/world"
)

func TestExplore(t *testing.T) {
	w := world.New(t, 1)
	reg := w.App.InterfaceRegistry()
	seen := map[string][]string{}
	for _, iface := range reg.ListAllInterfaces() {
		for _, impl := range reg.ListImplementations(iface) {
			if strings.HasPrefix(impl, "/fx.") {
				seen[impl] = append(seen[impl], iface)
			}
		}
	}
	names := []string{}
	for n := range seen {
		names = append(names, n)
	}
	sort.Strings(names)
	for _, n := range names {
		fmt.Println("TYPE", n, seen[n])
		d, err := gogoproto.HybridResolver.FindDescriptorByName(protoreflect.FullName(n[1:]))
		if err != nil {
			fmt.Println("  no descriptor:", err)
			continue
		}
		md := d.(protoreflect.MessageDescriptor)
		for i := 0; i < md.Fields().Len(); i++ {
			f := md.Fields().Get(i)
			mn := ""
			if f.Message() != nil {
				mn = string(f.Message().FullName())
			}
			fmt.Printf("   %s kind=%s card=%s msg=%s opts=%v\n", f.Name(), f.Kind(), f.Cardinality(), mn, f.Options())
		}
		gt := gogoproto.MessageType(n[1:])
		fmt.Println("   gotype", gt)
	}
}
