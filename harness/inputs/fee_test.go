package inputs

import (
	"bufio"
	"encoding/json"
	"fmt"
	"math"
	"os"
	"sort"
	"strconv"
	"testing"

	sdkmath "cosmossdk.io/math"
	sdk "github.com/cosmos/cosmos-sdk/types"
	sdkerrors "github.com/cosmos/cosmos-sdk/types/errors"
	banktypes "github.com/cosmos/cosmos-sdk/x/bank/types"
	distrtypes "github.com/cosmos/cosmos-sdk/x/distribution/types"
	"github.com/spf13/cast"

	fxante "github.com/functionx/fx-core/v8/ante"
	fxcfg "github.com/functionx/fx-core/v8/server/config"
	fxtypes "github.com/functionx/fx-core/v8/types"

	"verifharness/world"
)

type feeCfg struct {
	Exempt    map[string]bool `json:"exempt"`
	Allowance uint64          `json:"allowance"`
	Price     struct {
		Num int64 `json:"num"`
		Den int64 `json:"den"`
	} `json:"price"`
}

type feeCase struct {
	Cfg   feeCfg   `json:"cfg"`
	Msgs  []string `json:"msgs"`
	Gas   uint64   `json:"gas"`
	Fee   int64    `json:"fee"`
	Denom string   `json:"denom"`
}

type feeLine struct {
	Case  json.RawMessage `json:"case"`
	Admit bool            `json:"admit"`
	Rule  string          `json:"rule"`
}

type feeReal struct {
	Rule    string `json:"rule"`
	CheckTx string `json:"checktx"`
	Code    uint32 `json:"code"`
	Space   string `json:"codespace"`
	Log     string `json:"log"`
}

func envInt(name string, def int) int {
	if s := os.Getenv(name); s != "" {
		if v, err := strconv.Atoi(s); err == nil {
			return v
		}
	}
	return def
}

func short(s string, n int) string {
	if len(s) > n {
		return s[:n]
	}
	return s
}

// TestFee: for every case TLC generated from Fee.tla, a REAL signed transaction is offered to the real
// CheckTx of an application constructed with the case's node configuration; the outcome is recorded
// for TLC (FeeProp.tla), which decides.
func TestFee(t *testing.T) {
	casesFile, outFile, statsFile := os.Getenv("VERIF_CASES"), os.Getenv("VERIF_OUT"), os.Getenv("VERIF_STATS")
	if casesFile == "" {
		t.Skip("VERIF_CASES not set")
	}
	shard, shards := envInt("VERIF_SHARD", 0), envInt("VERIF_SHARDS", 1)
	ensureConfig(t)

	f, err := os.Open(casesFile)
	if err != nil {
		t.Fatal(err)
	}
	defer f.Close()
	byCfg := map[string][]feeLine{}
	sc := bufio.NewScanner(f)
	sc.Buffer(make([]byte, 1<<20), 1<<26)
	for sc.Scan() {
		var l feeLine
		if err = json.Unmarshal(sc.Bytes(), &l); err != nil {
			t.Fatalf("bad case line: %v", err)
		}
		var c feeCase
		if err = json.Unmarshal(l.Case, &c); err != nil {
			t.Fatal(err)
		}
		k, _ := json.Marshal(c.Cfg)
		byCfg[string(k)] = append(byCfg[string(k)], l)
	}
	keys := make([]string, 0, len(byCfg))
	for k := range byCfg {
		keys = append(keys, k)
	}
	sort.Strings(keys)

	out, err := os.Create(outFile)
	if err != nil {
		t.Fatal(err)
	}
	defer out.Close()
	w := bufio.NewWriterSize(out, 1<<20)
	defer w.Flush()

	signer := world.DetKey("c20-fee-signer")
	other := world.DetKey("c20-fee-other").AccAddress()
	stats := map[string]int{}
	var firstDis, firstUnexpectedOther string
	nCfg := 0
	for i, k := range keys {
		if i%shards != shard {
			continue
		}
		nCfg++
		var cfg feeCfg
		_ = json.Unmarshal([]byte(k), &cfg)
		var exempt []string
		for u, on := range cfg.Exempt {
			if on {
				exempt = append(exempt, u)
			}
		}
		sort.Strings(exempt)
		price := sdkmath.LegacyNewDec(cfg.Price.Num).QuoInt64(cfg.Price.Den)
		node := NewNode(t, NodeCfg{Exempt: exempt, Allowance: cfg.Allowance, MinGasPrices: price.String() + fxtypes.DefaultDenom}, signer)
		// the fee checker exactly as app.go:setAnteHandler builds it from the same application options
		checker := fxante.NewCheckTxFeees(cast.ToStringSlice(node.Opts.Get(fxcfg.BypassMinFeeMsgTypesKey)),
			cast.ToUint64(node.Opts.Get(fxcfg.BypassMinFeeMsgMaxGasUsageKey))).Check
		build := map[string]func() sdk.Msg{
			"/cosmos.distribution.v1beta1.MsgSetWithdrawAddress": func() sdk.Msg {
				return distrtypes.NewMsgSetWithdrawAddress(signer.AccAddress(), signer.AccAddress())
			},
			"/cosmos.distribution.v1beta1.MsgWithdrawDelegatorReward": func() sdk.Msg {
				return distrtypes.NewMsgWithdrawDelegatorReward(signer.AccAddress().String(), node.ValAddr.String())
			},
			"/cosmos.bank.v1beta1.MsgSend": func() sdk.Msg {
				return banktypes.NewMsgSend(signer.AccAddress(), other, sdk.NewCoins(sdk.NewCoin(fxtypes.DefaultDenom, sdkmath.NewInt(1))))
			},
		}
		for _, l := range byCfg[k] {
			var c feeCase
			_ = json.Unmarshal(l.Case, &c)
			msgs := make([]sdk.Msg, len(c.Msgs))
			for j, u := range c.Msgs {
				b, ok := build[u]
				if !ok {
					t.Fatalf("no builder for message type %s", u)
				}
				msgs[j] = b()
			}
			packed, err := PackMsgs(msgs...)
			if err != nil {
				t.Fatal(err)
			}
			fee := sdk.Coins{}
			if c.Fee > 0 {
				d := fxtypes.DefaultDenom
				if c.Denom == "other" {
					d = OtherDenom
				}
				fee = sdk.NewCoins(sdk.NewCoin(d, sdkmath.NewInt(c.Fee)))
			}
			tx, err := node.SignRaw("", c.Gas, fee, packed)
			if err != nil {
				t.Fatal(err)
			}
			real := feeReal{Rule: "unreachable"}
			// (1) the installed fee checker, consulted by the SDK's DeductFeeDecorator for 0 < gas <= MaxGasWanted
			if c.Gas > 0 && c.Gas <= math.MaxInt64 {
				real.Rule = func() (v string) {
					defer func() {
						if r := recover(); r != nil {
							v = fmt.Sprintf("panic: %v", r)
						}
					}()
					dec, derr := node.App.GetTxConfig().TxDecoder()(tx)
					if derr != nil {
						return "undecodable: " + short(derr.Error(), 80)
					}
					if _, _, cerr := checker(node.App.NewContext(true), dec); cerr != nil {
						return "rejected"
					}
					return "admitted"
				}()
			}
			// (2) the complete real CheckTx
			res, err := node.CheckTx(tx)
			if err != nil {
				t.Fatalf("CheckTx error: %v", err)
			}
			real.Code, real.Space = res.Code, res.Codespace
			switch {
			case res.Code == 0:
				real.CheckTx = "admitted"
			case res.Codespace == sdkerrors.ErrInsufficientFee.Codespace() && res.Code == sdkerrors.ErrInsufficientFee.ABCICode():
				real.CheckTx = "insufficient_fee"
			case res.Codespace == sdkerrors.ErrPanic.Codespace() && res.Code == sdkerrors.ErrPanic.ABCICode():
				real.CheckTx = "panic"
				real.Log = short(res.Log, 200)
			default:
				real.CheckTx = "other"
				real.Log = short(res.Log, 100)
			}
			stats["checktx_"+real.CheckTx]++
			stats["rule_"+short(real.Rule, 11)]++
			stats["cases"]++
			want := "insufficient_fee"
			if l.Admit {
				want = "admitted"
			}
			dis := real.Rule != l.Rule || (real.CheckTx != "other" && real.CheckTx != want)
			if dis {
				stats["disagreements"]++
				if firstDis == "" {
					firstDis = fmt.Sprintf("%s -> real %+v, specified admit=%v rule=%s", l.Case, real, l.Admit, l.Rule)
				}
			}
			// the fee stage must be what decides for every workable transaction (otherwise the run observes nothing)
			if real.CheckTx == "other" && len(c.Msgs) > 0 && c.Gas >= 99_999 && c.Gas <= 30_000_000 {
				stats["unexpected_other"]++
				if firstUnexpectedOther == "" {
					firstUnexpectedOther = fmt.Sprintf("%s -> %+v", l.Case, real)
				}
			}
			line, _ := json.Marshal(map[string]any{"case": l.Case, "real": real})
			w.Write(line)
			w.WriteByte('\n')
		}
	}
	st := map[string]any{"counts": stats, "cfgs": nCfg, "first_disagreement": firstDis, "first_unexpected_other": firstUnexpectedOther}
	b, _ := json.Marshal(st)
	if err = os.WriteFile(statsFile, b, 0o644); err != nil {
		t.Fatal(err)
	}
	t.Logf("fee: %s", b)
}
