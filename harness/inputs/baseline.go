package inputs

// baseline.go: one WELL-FORMED example per registered fx-core message type (the "generator" of the
// type) and per precompile argument name.  A case of Inputs.tla is the baseline with the fields named
// by the case replaced by their value classes.  A registered type without a baseline makes the run
// incomplete (exit 2).

import (
	"crypto/ecdsa"
	"encoding/hex"
	"fmt"
	"math/big"
	"time"

	sdkmath "cosmossdk.io/math"
	codectypes "github.com/cosmos/cosmos-sdk/codec/types"
	sdk "github.com/cosmos/cosmos-sdk/types"
	banktypes "github.com/cosmos/cosmos-sdk/x/bank/types"
	gogoproto "github.com/cosmos/gogoproto/proto"
	"github.com/ethereum/go-ethereum/accounts/abi"
	"github.com/ethereum/go-ethereum/common"
	"github.com/ethereum/go-ethereum/crypto"

	"github.com/functionx/fx-core/v8/testutil/helpers"
	fxtypes "github.com/functionx/fx-core/v8/types"
	"github.com/functionx/fx-core/v8/types/legacy"
	crosschaintypes "github.com/functionx/fx-core/v8/x/crosschain/types"
	erc20types "github.com/functionx/fx-core/v8/x/erc20/types"
	fxevmtypes "github.com/functionx/fx-core/v8/x/evm/types"
	fxgovtypes "github.com/functionx/fx-core/v8/x/gov/types"
	ibcmwtypes "github.com/functionx/fx-core/v8/x/ibc/middleware/types"
	migratetypes "github.com/functionx/fx-core/v8/x/migrate/types"

	"verifharness/world"
)

const chainEth = "eth"

func NewEnv(signer *helpers.Signer, val sdk.ValAddress) *Env {
	k2 := world.DetKey("c20-second")
	e := &Env{
		Fx: signer.AccAddress().String(), Fx2: k2.AccAddress().String(), Val: val.String(),
		Hex: signer.Address().Hex(), Hex2: k2.Address().Hex(), FxBytes: signer.AccAddress().Bytes(),
		AnyOK: map[string][]byte{},
	}
	e.Tron = crosschaintypes.ExternalAddrToStr("tron", signer.Address().Bytes())
	send := banktypes.NewMsgSend(signer.AccAddress(), k2.AccAddress(), sdk.NewCoins(sdk.NewCoin(fxtypes.DefaultDenom, sdkmath.NewInt(1))))
	bz, _ := gogoproto.Marshal(send)
	e.AnyOK[urlMsgSend] = bz
	// a MsgClaim whose claim is itself a (wrong) MsgSend: "nested wrong type"
	inner := &crosschaintypes.MsgClaim{ChainName: chainEth, BridgerAddress: e.Fx, Claim: &codectypes.Any{TypeUrl: urlMsgSend, Value: bz}}
	nbz, _ := gogoproto.Marshal(inner)
	e.AnyOK["nested:"+urlMsgClaim] = nbz
	return e
}

func mustAny(m gogoproto.Message) *codectypes.Any {
	a, err := codectypes.NewAnyWithValue(m)
	if err != nil {
		panic(err)
	}
	return a
}

func fxCoin(n int64) sdk.Coin { return sdk.NewCoin(fxtypes.DefaultDenom, sdkmath.NewInt(n)) }

// Baselines returns type URL -> well-formed message.
func Baselines(e *Env, signer *helpers.Signer) map[string]gogoproto.Message {
	gov := world.GovAddr()
	sig65 := hex.EncodeToString(make([]byte, 65))
	md := fxtypes.GetCrossChainMetadataManyToOne("Test Token", "TEST", 18, "eth"+e.Hex)
	dur := 24 * time.Hour
	one := sdkmath.NewInt(1)

	// a genuine migrate signature: key k2 (the eth-style destination) signs (from, to)
	from := world.DetKey("c20-migrate-from").AccAddress()
	toKey := world.DetKey("c20-second")
	migSig, err := crypto.Sign(migratetypes.MigrateAccountSignatureHash(from, toKey.Address().Bytes()), mustECDSA(toKey))
	if err != nil {
		panic(err)
	}

	sendToFx := &crosschaintypes.MsgSendToFxClaim{EventNonce: 1, BlockHeight: 1, TokenContract: e.Hex2, Amount: one, Sender: e.Hex2, Receiver: e.Fx, TargetIbc: "", BridgerAddress: e.Fx, ChainName: chainEth}
	confirmBatch := &crosschaintypes.MsgConfirmBatch{Nonce: 1, TokenContract: e.Hex2, BridgerAddress: e.Fx, ExternalAddress: e.Hex, Signature: sig65, ChainName: chainEth}
	ccParams := crosschaintypes.DefaultParams()
	ccParams.GravityId = "fx-bridge-eth"

	m := []gogoproto.Message{
		// ---- erc20
		&erc20types.MsgConvertCoin{Coin: fxCoin(1), Receiver: e.Hex2, Sender: e.Fx},
		&erc20types.MsgConvertDenom{Sender: e.Fx, Receiver: e.Fx2, Coin: fxCoin(1), Target: "eth"},
		&erc20types.MsgConvertERC20{ContractAddress: e.Hex2, Amount: one, Receiver: e.Fx2, Sender: e.Hex},
		&erc20types.MsgRegisterCoin{Authority: gov, Metadata: md},
		&erc20types.MsgRegisterERC20{Authority: gov, Erc20Address: e.Hex2, Aliases: []string{"eth" + e.Hex}},
		&erc20types.MsgToggleTokenConversion{Authority: gov, Token: e.Hex2},
		&erc20types.MsgUpdateDenomAlias{Authority: gov, Denom: "test", Alias: "eth" + e.Hex},
		&erc20types.MsgUpdateParams{Authority: gov, Params: erc20types.DefaultParams()},
		&erc20types.RegisterCoinProposal{Title: "t", Description: "d", Metadata: md},
		&erc20types.RegisterERC20Proposal{Title: "t", Description: "d", Erc20Address: e.Hex2, Aliases: []string{"eth" + e.Hex}},
		&erc20types.ToggleTokenConversionProposal{Title: "t", Description: "d", Token: e.Hex2},
		&erc20types.UpdateDenomAliasProposal{Title: "t", Description: "d", Denom: "test", Alias: "eth" + e.Hex},
		// ---- evm
		&fxevmtypes.MsgCallContract{Authority: gov, ContractAddress: e.Hex2, Data: "deadbeef"},
		&legacy.InitEvmParamsProposal{Title: "t", Description: "d",
			EvmParams:       &legacy.EVMParams{EvmDenom: fxtypes.DefaultDenom, EnableCreate: true, EnableCall: true, ExtraEIPs: []int64{3855}, ChainConfig: legacy.EVMChainConfig{HomesteadBlock: &one, EIP150Hash: "0x00"}},
			FeemarketParams: &legacy.FeemarketParams{BaseFeeChangeDenominator: 8, ElasticityMultiplier: 2, InitialBaseFee: 1}},
		// ---- gov
		&fxgovtypes.MsgUpdateCustomParams{Authority: gov, MsgUrl: urlMsgSend, CustomParams: *fxgovtypes.NewCustomParams("0.1", dur, "0.4")},
		&fxgovtypes.MsgUpdateStore{Authority: gov, UpdateStores: []fxgovtypes.UpdateStore{{Space: "eth", Key: "01", OldValue: "02", Value: "03"}}},
		&fxgovtypes.MsgUpdateSwitchParams{Authority: gov, Params: fxgovtypes.SwitchParams{DisablePrecompiles: []string{"0x0000000000000000000000000000000000001003/0a0b0c0d"}, DisableMsgTypes: []string{urlMsgSend}}},
		&legacy.MsgUpdateEGFParams{Authority: gov, Params: legacy.EGFParams{EgfDepositThreshold: fxCoin(10), ClaimRatio: "0.1"}},
		&legacy.MsgUpdateFXParams{Authority: gov, Params: legacy.Params{MsgType: urlMsgSend, MinDeposit: []sdk.Coin{fxCoin(10)}, MinInitialDeposit: fxCoin(1), VotingPeriod: &dur,
			Quorum: "0.4", MaxDepositPeriod: &dur, Threshold: "0.5", VetoThreshold: "0.334", MinInitialDepositRatio: "0.1"}},
		&legacy.MsgUpdateParams{Authority: gov, Params: legacy.LegacyParams{MsgType: urlMsgSend, MinDeposit: []sdk.Coin{fxCoin(10)}, MinInitialDeposit: fxCoin(1), VotingPeriod: &dur,
			Quorum: sdkmath.LegacyNewDecWithPrec(4, 1), MaxDepositPeriod: &dur, Threshold: sdkmath.LegacyNewDecWithPrec(5, 1), VetoThreshold: sdkmath.LegacyNewDecWithPrec(334, 3), MinInitialDepositRatio: "0.1"}},
		// ---- crosschain messages
		&crosschaintypes.InitCrossChainParamsProposal{Title: "t", Description: "d", Params: &ccParams, ChainName: chainEth},
		&crosschaintypes.UpdateChainOraclesProposal{Title: "t", Description: "d", Oracles: []string{e.Fx}, ChainName: chainEth},
		&crosschaintypes.MsgAddDelegate{ChainName: chainEth, OracleAddress: e.Fx, Amount: fxCoin(1)},
		&crosschaintypes.MsgAddOracleDeposit{OracleAddress: e.Fx, Amount: fxCoin(1), ChainName: chainEth},
		&crosschaintypes.MsgBondedOracle{ChainName: chainEth, OracleAddress: e.Fx, BridgerAddress: e.Fx2, ExternalAddress: e.Hex, ValidatorAddress: e.Val, DelegateAmount: fxCoin(1)},
		&crosschaintypes.MsgBridgeCall{ChainName: chainEth, Sender: e.Fx, Refund: e.Fx, Coins: sdk.NewCoins(fxCoin(1)), To: e.Hex2, Data: "deadbeef", Value: sdkmath.ZeroInt(), Memo: "00"},
		&crosschaintypes.MsgBridgeCallConfirm{ChainName: chainEth, BridgerAddress: e.Fx, ExternalAddress: e.Hex, Nonce: 1, Signature: sig65},
		&crosschaintypes.MsgCancelSendToExternal{TransactionId: 1, Sender: e.Fx, ChainName: chainEth},
		&crosschaintypes.MsgClaim{ChainName: chainEth, BridgerAddress: e.Fx, Claim: mustAny(sendToFx)},
		&crosschaintypes.MsgConfirm{ChainName: chainEth, BridgerAddress: e.Fx, Confirm: mustAny(confirmBatch)},
		confirmBatch,
		&crosschaintypes.MsgEditBridger{ChainName: chainEth, OracleAddress: e.Fx, BridgerAddress: e.Fx2},
		&crosschaintypes.MsgIncreaseBridgeFee{ChainName: chainEth, TransactionId: 1, Sender: e.Fx, AddBridgeFee: fxCoin(1)},
		&crosschaintypes.MsgOracleSetConfirm{Nonce: 1, BridgerAddress: e.Fx, ExternalAddress: e.Hex, Signature: sig65, ChainName: chainEth},
		&crosschaintypes.MsgReDelegate{ChainName: chainEth, OracleAddress: e.Fx, ValidatorAddress: e.Val},
		&crosschaintypes.MsgRequestBatch{Sender: e.Fx, Denom: "eth" + e.Hex2, MinimumFee: one, FeeReceive: e.Hex, ChainName: chainEth, BaseFee: sdkmath.ZeroInt()},
		&crosschaintypes.MsgSendToExternal{Sender: e.Fx, Dest: e.Hex2, Amount: fxCoin(2), BridgeFee: fxCoin(1), ChainName: chainEth},
		&crosschaintypes.MsgSetOrchestratorAddress{OracleAddress: e.Fx, BridgerAddress: e.Fx2, ExternalAddress: e.Hex, Deposit: fxCoin(1), ChainName: chainEth},
		&crosschaintypes.MsgUnbondedOracle{ChainName: chainEth, OracleAddress: e.Fx},
		&crosschaintypes.MsgUpdateChainOracles{ChainName: chainEth, Authority: gov, Oracles: []string{e.Fx}},
		&crosschaintypes.MsgUpdateParams{ChainName: chainEth, Authority: gov, Params: ccParams},
		&crosschaintypes.MsgWithdrawReward{ChainName: chainEth, OracleAddress: e.Fx},
		// ---- claims
		sendToFx,
		&crosschaintypes.MsgBridgeCallClaim{ChainName: chainEth, BridgerAddress: e.Fx, EventNonce: 1, BlockHeight: 1, Sender: e.Hex2, Refund: e.Hex2, TokenContracts: []string{e.Hex2},
			Amounts: []sdkmath.Int{one}, To: e.Hex, Data: "deadbeef", Value: sdkmath.ZeroInt(), Memo: "00", TxOrigin: e.Hex2},
		&crosschaintypes.MsgBridgeCallResultClaim{ChainName: chainEth, BridgerAddress: e.Fx, EventNonce: 1, BlockHeight: 1, Nonce: 1, TxOrigin: e.Hex2, Success: true, Cause: ""},
		&crosschaintypes.MsgBridgeTokenClaim{EventNonce: 1, BlockHeight: 1, TokenContract: e.Hex2, Name: "Test", Symbol: "TEST", Decimals: 18, BridgerAddress: e.Fx, ChannelIbc: "", ChainName: chainEth},
		&crosschaintypes.MsgOracleSetUpdatedClaim{EventNonce: 1, BlockHeight: 1, OracleSetNonce: 1, Members: []crosschaintypes.BridgeValidator{{Power: 1, ExternalAddress: e.Hex}}, BridgerAddress: e.Fx, ChainName: chainEth},
		&crosschaintypes.MsgSendToExternalClaim{EventNonce: 1, BlockHeight: 1, BatchNonce: 1, TokenContract: e.Hex2, BridgerAddress: e.Fx, ChainName: chainEth},
		// ---- ibc memo packet, migrate
		&ibcmwtypes.IbcCallEvmPacket{To: e.Hex2, Data: "deadbeef", Value: sdkmath.ZeroInt()},
		&migratetypes.MsgMigrateAccount{From: from.String(), To: toKey.Address().Hex(), Signature: hex.EncodeToString(migSig)},
	}
	out := map[string]gogoproto.Message{}
	for _, x := range m {
		out["/"+gogoproto.MessageName(x)] = x
	}
	return out
}

type ecdsaKey = ecdsa.PrivateKey

func mustECDSA(s *helpers.Signer) *ecdsaKey {
	k, err := crypto.ToECDSA(s.PrivKey().Bytes())
	if err != nil {
		panic(err)
	}
	return k
}

// ---- precompile argument baselines, by argument name

func (e *Env) abiBaseline(contract string, in abi.Argument) (any, error) {
	k := hexToAddr(e.Hex)
	switch in.Name {
	case "_val", "_valSrc", "_valDst":
		return e.Val, nil
	case "_chain", "_dstChain":
		return chainEth, nil
	case "_receipt":
		return e.Hex2, nil
	case "_owner", "_spender", "_del", "_from", "_to", "_refund", "_externalAddress":
		return k, nil
	case "_token":
		return common.Address{}, nil // the native coin
	case "_shares", "_amount", "_txID", "_fee", "_eventNonce":
		return big.NewInt(1), nil
	case "_value":
		return big.NewInt(0), nil
	case "_target":
		var b [32]byte
		copy(b[:], chainEth)
		return b, nil
	case "_tokens":
		return []common.Address{hexToAddr(e.Hex2)}, nil
	case "_amounts":
		return []*big.Int{big.NewInt(1)}, nil
	case "_data":
		return []byte{1, 2, 3, 4}, nil
	case "_memo":
		if in.Type.T == abi.StringTy {
			return "memo", nil
		}
		return []byte{}, nil
	case "_sortBy":
		return uint8(0), nil
	}
	return nil, fmt.Errorf("precompile %s: no baseline for argument %q (%s)", contract, in.Name, in.Type.String())
}

// abiClass returns the Go value for an ABI argument class.
func (e *Env) abiClass(in abi.Argument, kind, class string, base any) (any, error) {
	bad := fmt.Errorf("no generator for kind %q class %q (argument %s)", kind, class, in.Name)
	maxU := new(big.Int).Sub(new(big.Int).Lsh(big.NewInt(1), 256), big.NewInt(1))
	switch kind {
	case "string":
		s, ok := e.StringClass(class)
		if !ok {
			return nil, bad
		}
		return s, nil
	case "abi_address":
		switch class {
		case "zero":
			return common.Address{}, nil
		case "ones":
			return common.BytesToAddress(bytesOf(0xff, 20)), nil
		}
	case "abi_uint":
		switch class {
		case "zero":
			return big.NewInt(0), nil
		case "one":
			return big.NewInt(1), nil
		case "u64":
			return new(big.Int).Lsh(big.NewInt(1), 64), nil
		case "max":
			return maxU, nil
		}
	case "abi_uint8":
		v := map[string]uint8{"zero": 0, "one": 1, "two": 2, "max": 255}
		if x, ok := v[class]; ok {
			return x, nil
		}
	case "abi_bool":
		return class == "true", nil
	case "abi_bytes32":
		var b [32]byte
		switch class {
		case "zero":
			return b, nil
		case "garbage":
			copy(b[:], bytesOf(0xff, 32))
			return b, nil
		}
	case "abi_bytes":
		switch class {
		case "empty":
			return []byte{}, nil
		case "one":
			return []byte{0xab}, nil
		case "huge":
			return bytesOf(0xab, hugeLen), nil
		}
	case "abi_addrlist":
		a, b := hexToAddr(e.Hex), hexToAddr(e.Hex2)
		switch class {
		case "empty":
			return []common.Address{}, nil
		case "one":
			return []common.Address{a}, nil
		case "two":
			return []common.Address{a, b}, nil
		case "dup":
			return []common.Address{a, a}, nil
		}
	case "abi_uintlist":
		switch class {
		case "empty":
			return []*big.Int{}, nil
		case "one":
			return []*big.Int{big.NewInt(1)}, nil
		case "two":
			return []*big.Int{big.NewInt(1), big.NewInt(2)}, nil
		case "max_elem":
			return []*big.Int{maxU}, nil
		}
	}
	return nil, bad
}

func bytesOf(b byte, n int) []byte {
	out := make([]byte, n)
	for i := range out {
		out[i] = b
	}
	return out
}
