package inputs

// table.go derives the field tables of Inputs.tla from the REAL descriptors: every protobuf message
// type registered in the application's interface registry whose Go type lives in fx-core (all
// interfaces except transaction responses), with its fields classified by wire kind and options
// (gogoproto.customtype, cosmos_proto.scalar); every method of the staking and cross-chain
// precompile ABIs; every exported string parser of types/target.go and types/address.go.

import (
	"fmt"
	"go/ast"
	"go/parser"
	"go/token"
	"os"
	"path/filepath"
	"sort"
	"strings"

	codectypes "github.com/cosmos/cosmos-sdk/codec/types"
	gogoproto "github.com/cosmos/gogoproto/proto"
	"github.com/ethereum/go-ethereum/accounts/abi"
	"google.golang.org/protobuf/encoding/protowire"
	"google.golang.org/protobuf/proto"
	"google.golang.org/protobuf/reflect/protodesc"
	"google.golang.org/protobuf/reflect/protoreflect"
	"google.golang.org/protobuf/reflect/protoregistry"
	"google.golang.org/protobuf/types/descriptorpb"

	crosschaintypes "github.com/functionx/fx-core/v8/x/crosschain/types"
	stakingtypes "github.com/functionx/fx-core/v8/x/staking/types"
)

type Field struct {
	Path string `json:"path"`
	Kind string `json:"kind"`
}

type TypeEntry struct {
	Name     string   `json:"name"`  // "msg:/fx.…", "abi:staking.delegateV2", "str:ParseFxTarget"
	Group    string   `json:"group"` // msg | abi | str
	Fields   []Field  `json:"fields"`
	NWords   int      `json:"nwords"`
	DynWords []int    `json:"dynwords"`
	Ifaces   []string `json:"ifaces,omitempty"`
}

const fxPkg = "github.com/functionx/fx-core/"

// TxEnvelopeTypes: the parts of a signed transaction (SDK types consumed by fx-core's ante handler).
var TxEnvelopeTypes = []string{"/cosmos.tx.v1beta1.TxBody", "/cosmos.tx.v1beta1.AuthInfo", "/cosmos.tx.v1beta1.TxRaw"}

// FxMessageTypes lists the registered fx-core message type URLs (with the interfaces they implement).
func FxMessageTypes(reg codectypes.InterfaceRegistry) map[string][]string {
	out := map[string][]string{}
	for _, iface := range reg.ListAllInterfaces() {
		if iface == "cosmos.tx.v1beta1.MsgResponse" {
			continue // outputs, never offered to a node
		}
		for _, url := range reg.ListImplementations(iface) {
			rt := gogoproto.MessageType(strings.TrimPrefix(url, "/"))
			if rt == nil {
				continue
			}
			if rt.Kind().String() == "ptr" {
				rt = rt.Elem()
			}
			if !strings.HasPrefix(rt.PkgPath(), fxPkg) {
				continue
			}
			out[url] = append(out[url], iface)
		}
	}
	return out
}

// The registry's descriptors may reference messages of other .proto files through placeholders (no
// fields).  linkFile rebuilds a file and, recursively, its imports into a private registry so that
// every message reference is resolved; options (incl. unknown gogoproto extensions) are preserved.
var linked = &protoregistry.Files{}

func linkFile(path string) error {
	if _, err := linked.FindFileByPath(path); err == nil {
		return nil
	}
	src, err := gogoproto.HybridResolver.FindFileByPath(path)
	if err != nil {
		return fmt.Errorf("file %s: %w", path, err)
	}
	fdp := protodesc.ToFileDescriptorProto(src)
	for _, dep := range fdp.Dependency {
		if err = linkFile(dep); err != nil {
			return err
		}
	}
	fd, err := protodesc.NewFile(fdp, linked)
	if err != nil {
		return fmt.Errorf("link %s: %w", path, err)
	}
	return linked.RegisterFile(fd)
}

func descriptorOf(url string) (protoreflect.MessageDescriptor, error) {
	name := protoreflect.FullName(strings.TrimPrefix(url, "/"))
	d, err := gogoproto.HybridResolver.FindDescriptorByName(name)
	if err != nil {
		return nil, err
	}
	if err = linkFile(d.ParentFile().Path()); err != nil {
		return nil, err
	}
	ld, err := linked.FindDescriptorByName(name)
	if err != nil {
		return nil, err
	}
	md, ok := ld.(protoreflect.MessageDescriptor)
	if !ok {
		return nil, fmt.Errorf("%s is not a message", url)
	}
	return md, nil
}

// optString scans a field's options for a string-valued (extension) field number, whether the runtime parsed it or not.
func optString(fd protoreflect.FieldDescriptor, want protowire.Number) string {
	opts, ok := fd.Options().(*descriptorpb.FieldOptions)
	if !ok || opts == nil {
		return ""
	}
	b, err := proto.Marshal(opts)
	if err != nil {
		return ""
	}
	for len(b) > 0 {
		num, typ, n := protowire.ConsumeTag(b)
		if n < 0 {
			return ""
		}
		b = b[n:]
		if num == want && typ == protowire.BytesType {
			v, m := protowire.ConsumeBytes(b)
			if m < 0 {
				return ""
			}
			return string(v)
		}
		m := protowire.ConsumeFieldValue(num, typ, b)
		if m < 0 {
			return ""
		}
		b = b[m:]
	}
	return ""
}

// gogoproto.customtype = 65003, cosmos_proto.scalar = 93002
func customType(fd protoreflect.FieldDescriptor) string { return optString(fd, 65003) }
func scalarOf(fd protoreflect.FieldDescriptor) string   { return optString(fd, 93002) }

// classify returns the kind of a field; "" for a nested message that has to be flattened.
func classify(fd protoreflect.FieldDescriptor) string {
	if fd.IsMap() {
		return "unknown:map"
	}
	ct := customType(fd)
	rep := fd.Cardinality() == protoreflect.Repeated
	switch fd.Kind() {
	case protoreflect.StringKind, protoreflect.BytesKind:
		if fd.Kind() == protoreflect.BytesKind && ct == "" {
			if rep {
				return "byteslist"
			}
			return "bytes"
		}
		switch {
		case strings.HasSuffix(ct, "math.Int") || strings.HasSuffix(ct, "types.Int"):
			if rep {
				return "intlist"
			}
			return "int"
		case strings.HasSuffix(ct, "Dec"):
			if rep {
				return "unknown:declist"
			}
			return "dec"
		case ct != "":
			return "unknown:customtype " + ct
		case rep:
			return "strlist"
		case scalarOf(fd) == "cosmos.AddressString":
			return "address"
		}
		return "string"
	case protoreflect.MessageKind, protoreflect.GroupKind:
		switch fd.Message().FullName() {
		case "cosmos.base.v1beta1.Coin":
			if rep {
				return "coins"
			}
			return "coin"
		case "google.protobuf.Any":
			if rep {
				return "anylist"
			}
			return "any"
		}
		return ""
	case protoreflect.Uint64Kind, protoreflect.Uint32Kind, protoreflect.Fixed32Kind, protoreflect.Fixed64Kind:
		if rep {
			return "uintlist"
		}
		return "uint"
	case protoreflect.Int64Kind, protoreflect.Int32Kind, protoreflect.Sint32Kind, protoreflect.Sint64Kind, protoreflect.Sfixed32Kind, protoreflect.Sfixed64Kind:
		if rep {
			return "sintlist"
		}
		return "sint"
	case protoreflect.BoolKind:
		if rep {
			return "unknown:boollist"
		}
		return "bool"
	case protoreflect.EnumKind:
		if rep {
			return "unknown:enumlist"
		}
		return "enum"
	case protoreflect.FloatKind, protoreflect.DoubleKind:
		if rep {
			return "unknown:floatlist"
		}
		return "float"
	}
	return "unknown:" + fd.Kind().String()
}

func flatten(md protoreflect.MessageDescriptor, prefix string, depth int, seen map[protoreflect.FullName]bool) []Field {
	var out []Field
	fds := md.Fields()
	for i := 0; i < fds.Len(); i++ {
		fd := fds.Get(i)
		path := prefix + string(fd.Name())
		k := classify(fd)
		if k != "" {
			out = append(out, Field{Path: path, Kind: k})
			continue
		}
		sub := fd.Message()
		if fd.Cardinality() == protoreflect.Repeated {
			out = append(out, Field{Path: path, Kind: "listshape"})
			path += "[]"
		} else {
			out = append(out, Field{Path: path, Kind: "presence"})
		}
		if depth >= 5 || seen[sub.FullName()] {
			continue
		}
		seen[sub.FullName()] = true
		out = append(out, flatten(sub, path+".", depth+1, seen)...)
		delete(seen, sub.FullName())
	}
	return out
}

// ---- precompile ABIs

type abiContract struct {
	Name string
	ABI  abi.ABI
}

func precompileABIs() []abiContract {
	return []abiContract{{"staking", stakingtypes.GetABI()}, {"crosschain", crosschaintypes.GetABI()}}
}

func abiKind(t abi.Type) string {
	switch t.T {
	case abi.AddressTy:
		return "abi_address"
	case abi.UintTy, abi.IntTy:
		if t.Size == 8 {
			return "abi_uint8"
		}
		return "abi_uint"
	case abi.BoolTy:
		return "abi_bool"
	case abi.StringTy:
		return "string"
	case abi.FixedBytesTy:
		if t.Size == 32 {
			return "abi_bytes32"
		}
	case abi.BytesTy:
		return "abi_bytes"
	case abi.SliceTy:
		switch t.Elem.T {
		case abi.AddressTy:
			return "abi_addrlist"
		case abi.UintTy:
			return "abi_uintlist"
		}
	}
	return "unknown:abi " + t.String()
}

// ---- string parsers: the exported functions of types/target.go and types/address.go taking a string

var stringParsers = map[string][]Field{
	"ParseFxTarget":    {{"target", "target"}, {"is_hex", "bool"}},
	"GetIbcDenomTrace": {{"denom", "string"}, {"channel_ibc", "target"}},
	"ParseAddress":     {{"addr", "string"}},
}

func repoDir() string {
	if d := os.Getenv("VERIF_REPO"); d != "" {
		return d
	}
	return "/repo"
}

// exportedStringFuncs lists exported top-level functions with a string first parameter in the given file.
func exportedStringFuncs(file string) ([]string, error) {
	fs := token.NewFileSet()
	f, err := parser.ParseFile(fs, file, nil, 0)
	if err != nil {
		return nil, err
	}
	var out []string
	for _, d := range f.Decls {
		fn, ok := d.(*ast.FuncDecl)
		if !ok || fn.Recv != nil || !fn.Name.IsExported() || fn.Type.Params == nil || len(fn.Type.Params.List) == 0 {
			continue
		}
		if id, ok := fn.Type.Params.List[0].Type.(*ast.Ident); ok && id.Name == "string" {
			out = append(out, fn.Name.Name)
		}
	}
	return out, nil
}

// BuildTable returns the table and the list of reasons why it is incomplete (empty = complete).
func BuildTable(reg codectypes.InterfaceRegistry) ([]TypeEntry, []string) {
	var table []TypeEntry
	var missing []string
	types := FxMessageTypes(reg)
	urls := make([]string, 0, len(types))
	for u := range types {
		urls = append(urls, u)
	}
	sort.Strings(urls)
	for _, u := range urls {
		md, err := descriptorOf(u)
		if err != nil {
			missing = append(missing, fmt.Sprintf("%s: no descriptor: %v", u, err))
			continue
		}
		ifs := types[u]
		sort.Strings(ifs)
		e := TypeEntry{Name: "msg:" + u, Group: "msg", Fields: flatten(md, "", 0, map[protoreflect.FullName]bool{md.FullName(): true}), DynWords: []int{}, Ifaces: ifs}
		for _, f := range e.Fields {
			if strings.HasPrefix(f.Kind, "unknown:") {
				missing = append(missing, fmt.Sprintf("%s field %s: no value classes for kind %q", u, f.Path, f.Kind))
			}
		}
		table = append(table, e)
	}
	// the transaction envelope every message arrives in: what the ante handler (ante/ante.go, ante/pubkey.go, …) reads
	for _, u := range TxEnvelopeTypes {
		md, err := descriptorOf(u)
		if err != nil {
			missing = append(missing, fmt.Sprintf("%s: no descriptor: %v", u, err))
			continue
		}
		e := TypeEntry{Name: "tx:" + u, Group: "tx", Fields: flatten(md, "", 0, map[protoreflect.FullName]bool{md.FullName(): true}), DynWords: []int{}}
		for _, f := range e.Fields {
			if strings.HasPrefix(f.Kind, "unknown:") {
				missing = append(missing, fmt.Sprintf("%s field %s: no value classes for kind %q", u, f.Path, f.Kind))
			}
		}
		table = append(table, e)
	}
	for _, c := range precompileABIs() {
		names := make([]string, 0, len(c.ABI.Methods))
		for n := range c.ABI.Methods {
			names = append(names, n)
		}
		sort.Strings(names)
		for _, n := range names {
			m := c.ABI.Methods[n]
			e := TypeEntry{Name: "abi:" + c.Name + "." + n, Group: "abi", DynWords: []int{}}
			for _, in := range m.Inputs {
				k := abiKind(in.Type)
				if strings.HasPrefix(k, "unknown:") {
					missing = append(missing, fmt.Sprintf("%s argument %s: no value classes for %q", e.Name, in.Name, k))
				}
				e.Fields = append(e.Fields, Field{Path: in.Name, Kind: k})
			}
			table = append(table, e)
		}
	}
	var found []string
	for _, file := range []string{"types/target.go", "types/address.go"} {
		fns, err := exportedStringFuncs(filepath.Join(repoDir(), file))
		if err != nil {
			missing = append(missing, fmt.Sprintf("%s: %v", file, err))
			continue
		}
		found = append(found, fns...)
	}
	sort.Strings(found)
	for _, fn := range found {
		fields, ok := stringParsers[fn]
		if !ok {
			missing = append(missing, fmt.Sprintf("string parser %s (types/target.go, types/address.go) has no generator", fn))
			continue
		}
		table = append(table, TypeEntry{Name: "str:" + fn, Group: "str", Fields: fields, DynWords: []int{}})
	}
	for fn := range stringParsers {
		ok := false
		for _, f := range found {
			ok = ok || f == fn
		}
		if !ok {
			missing = append(missing, fmt.Sprintf("string parser %s not found in types/target.go / types/address.go", fn))
		}
	}
	return table, missing
}
