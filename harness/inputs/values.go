package inputs

// values.go: the concrete value for every (kind, class) of Inputs.tla's ClassTable, applied to a
// protobuf message at WIRE level (dynamicpb over the real descriptors), so that "absent" really is
// absent on the wire and the real decoder produces what a node would see.

import (
	"fmt"
	"math"
	"strings"

	"github.com/cosmos/cosmos-sdk/types/bech32"
	"github.com/ethereum/go-ethereum/common"
	"google.golang.org/protobuf/proto"
	"google.golang.org/protobuf/reflect/protoreflect"
	"google.golang.org/protobuf/types/dynamicpb"
)

const (
	u64Str     = "18446744073709551616"                                                           // 2^64
	u256MaxStr = "115792089237316195423570985008687907853269984665640564039457584007913129639935" // 2^256-1
	hugeLen    = 100_000
)

type Env struct {
	Fx, Fx2   string // bech32 account addresses (Fx is the harness signer)
	Val       string // bech32 validator operator address
	Hex, Hex2 string // EIP-55 hex addresses
	Tron      string
	FxBytes   []byte
	AnyOK     map[string][]byte // type URL -> bytes of a well-formed message of that type (for Any classes)
}

func flipCase(s string) string {
	b := []byte(s)
	for i := 2; i < len(b); i++ {
		switch {
		case b[i] >= 'a' && b[i] <= 'f':
			b[i] -= 32
			return string(b)
		case b[i] >= 'A' && b[i] <= 'F':
			b[i] += 32
			return string(b)
		}
	}
	return s
}

func breakChecksum(s string) string {
	last := s[len(s)-1]
	r := byte('q')
	if last == 'q' {
		r = 'p'
	}
	return s[:len(s)-1] + string(r)
}

// StringClass returns the string for a class of kind "string"/"address"; ok=false if there is none.
func (e *Env) StringClass(class string) (string, bool) {
	switch class {
	case "empty":
		return "", true
	case "fxaddr":
		return e.Fx, true
	case "valaddr":
		return e.Val, true
	case "hexaddr":
		return e.Hex, true
	case "hexaddr_badsum":
		return flipCase(e.Hex), true
	case "tronaddr":
		return e.Tron, true
	case "wrongprefix":
		s, _ := bech32.ConvertAndEncode("cosmos", e.FxBytes)
		return s, true
	case "badchecksum":
		return breakChecksum(e.Fx), true
	case "toolong":
		s, _ := bech32.ConvertAndEncode("fx", make([]byte, 256))
		return s, true
	case "hexodd":
		return "abc", true
	case "nonhex":
		return "zz11", true
	case "hexstr":
		return "deadbeef", true
	case "huge":
		return strings.Repeat("ab", hugeLen/2), true
	case "slash":
		return "a/b/c", true
	case "colon":
		return "a:b", true
	case "nul":
		return "a\x00b", true
	case "chain_eth":
		return "eth", true
	case "chain_tron":
		return "tron", true
	case "unknownchain":
		return "nochain", true
	case "denom":
		return "FX", true
	}
	return "", false
}

func (e *Env) TargetClass(class string) (string, bool) {
	switch class {
	case "valid":
		return "px/transfer/channel-0", true
	case "empty":
		return "", true
	case "legacy_evm":
		return "module/evm", true
	case "chain_gravity":
		return "chain/gravity", true
	case "chain_only":
		return "chain/", true
	case "ibc3":
		return "ibc/0/px", true
	case "ibc4":
		return "ibc/px/transfer/channel-0", true
	case "ibc_only":
		return "ibc/", true
	case "ibc_empty_parts":
		return "ibc//", true
	case "ibc_bad_channel":
		return "ibc/x y/px", true
	case "ibc_blank_prefix":
		return "ibc/0/ ", true
	case "slashes":
		return "////", true
	case "five_parts":
		return "ibc/a/b/c/d", true
	case "nul":
		return "ibc/\x00/\x00", true
	case "huge":
		return strings.Repeat("ibc/", hugeLen/4), true
	case "nonhex":
		return "zz/transfer/channel-0", true
	}
	return "", false
}

func strVal(fd protoreflect.FieldDescriptor, s string) protoreflect.Value {
	if fd.Kind() == protoreflect.BytesKind {
		return protoreflect.ValueOfBytes([]byte(s))
	}
	return protoreflect.ValueOfString(s)
}

func (e *Env) coin(md protoreflect.MessageDescriptor, denom string, amount *string) protoreflect.Value {
	m := dynamicpb.NewMessage(md)
	if denom != "" {
		m.Set(md.Fields().ByName("denom"), protoreflect.ValueOfString(denom))
	}
	if amount != nil {
		m.Set(md.Fields().ByName("amount"), protoreflect.ValueOfString(*amount))
	}
	return protoreflect.ValueOfMessage(m)
}

func sp(s string) *string { return &s }

func (e *Env) anyMsg(md protoreflect.MessageDescriptor, url string, value []byte) protoreflect.Value {
	m := dynamicpb.NewMessage(md)
	m.Set(md.Fields().ByName("type_url"), protoreflect.ValueOfString(url))
	if value != nil {
		m.Set(md.Fields().ByName("value"), protoreflect.ValueOfBytes(value))
	}
	return protoreflect.ValueOfMessage(m)
}

const (
	urlMsgSend  = "/cosmos.bank.v1beta1.MsgSend"
	urlMsgClaim = "/fx.gravity.crosschain.v1.MsgClaim"
)

// anyClass builds the Any for a class; base is the baseline Any (may be nil).
func (e *Env) anyClass(md protoreflect.MessageDescriptor, class string, baseURL string) (protoreflect.Value, bool) {
	switch class {
	case "wrong_type":
		return e.anyMsg(md, urlMsgSend, e.AnyOK[urlMsgSend]), true
	case "nested_wrong":
		return e.anyMsg(md, urlMsgClaim, e.AnyOK["nested:"+urlMsgClaim]), true
	case "unknown_url":
		return e.anyMsg(md, "/no.such.Type", []byte{1, 2, 3}), true
	case "empty_value":
		return e.anyMsg(md, baseURL, nil), true
	case "garbage_value":
		return e.anyMsg(md, baseURL, []byte{0xff, 0xff, 0xff, 0x01}), true
	}
	return protoreflect.Value{}, false
}

// applyLeaf sets field fd of message m according to (kind, class).  class "valid" is never passed.
func (e *Env) applyLeaf(m protoreflect.Message, fd protoreflect.FieldDescriptor, kind, class string) error {
	bad := func() error { return fmt.Errorf("no generator for kind %q class %q (field %s)", kind, class, fd.FullName()) }
	setList := func(vals ...protoreflect.Value) {
		m.Clear(fd)
		l := m.Mutable(fd).List()
		for _, v := range vals {
			l.Append(v)
		}
	}
	firstElem := func(def protoreflect.Value) protoreflect.Value {
		if m.Has(fd) && m.Get(fd).List().Len() > 0 {
			return m.Get(fd).List().Get(0)
		}
		return def
	}
	switch kind {
	case "address", "string":
		if kind == "address" {
			switch class {
			case "empty", "wrongprefix", "badchecksum", "toolong":
			default:
				return bad()
			}
		}
		s, ok := e.StringClass(class)
		if !ok {
			return bad()
		}
		if s == "" {
			m.Clear(fd)
		} else {
			m.Set(fd, strVal(fd, s))
		}
	case "target":
		s, ok := e.TargetClass(class)
		if !ok {
			return bad()
		}
		m.Set(fd, strVal(fd, s))
	case "int":
		v := map[string]string{"negative": "-1", "zero": "0", "u64": u64Str, "u256max": u256MaxStr, "nonnumeric": "abc"}
		switch {
		case class == "absent":
			m.Clear(fd)
		case v[class] != "":
			m.Set(fd, strVal(fd, v[class]))
		default:
			return bad()
		}
	case "dec":
		v := map[string]string{"negative": "-1", "zero": "0", "gt_one": "2000000000000000000", "huge": "1" + strings.Repeat("0", 90), "nonnumeric": "abc"}
		switch {
		case class == "absent":
			m.Clear(fd)
		case v[class] != "":
			m.Set(fd, strVal(fd, v[class]))
		default:
			return bad()
		}
	case "intlist":
		switch class {
		case "empty":
			m.Clear(fd)
		case "nil_elem":
			setList(strVal(fd, ""))
		case "negative":
			setList(strVal(fd, "-1"))
		case "two":
			setList(strVal(fd, "1"), strVal(fd, "2"))
		case "u256max":
			setList(strVal(fd, u256MaxStr))
		default:
			return bad()
		}
	case "coin":
		md := fd.Message()
		switch class {
		case "absent":
			m.Clear(fd)
		case "nil_amount":
			m.Set(fd, e.coin(md, "FX", nil))
		case "negative":
			m.Set(fd, e.coin(md, "FX", sp("-1")))
		case "zero":
			m.Set(fd, e.coin(md, "FX", sp("0")))
		case "bad_denom":
			m.Set(fd, e.coin(md, "1 bad/denom!", sp("1")))
		case "empty_denom":
			m.Set(fd, e.coin(md, "", sp("1")))
		case "u256max":
			m.Set(fd, e.coin(md, "FX", sp(u256MaxStr)))
		default:
			return bad()
		}
	case "coins":
		md := fd.Message()
		switch class {
		case "empty":
			m.Clear(fd)
		case "nil_amount":
			setList(e.coin(md, "FX", nil))
		case "negative":
			setList(e.coin(md, "FX", sp("-1")))
		case "zero":
			setList(e.coin(md, "FX", sp("0")))
		case "bad_denom":
			setList(e.coin(md, "1 bad/denom!", sp("1")))
		case "duplicate":
			setList(e.coin(md, "FX", sp("1")), e.coin(md, "FX", sp("2")))
		case "unsorted":
			setList(e.coin(md, "bbb", sp("1")), e.coin(md, "aaa", sp("1")))
		default:
			return bad()
		}
	case "any":
		if class == "absent" {
			m.Clear(fd)
			return nil
		}
		baseURL := urlMsgSend
		if m.Has(fd) {
			baseURL = m.Get(fd).Message().Get(fd.Message().Fields().ByName("type_url")).String()
		}
		v, ok := e.anyClass(fd.Message(), class, baseURL)
		if !ok {
			return bad()
		}
		m.Set(fd, v)
	case "anylist":
		md := fd.Message()
		base := firstElem(e.anyMsg(md, urlMsgSend, e.AnyOK[urlMsgSend]))
		baseURL := base.Message().Get(md.Fields().ByName("type_url")).String()
		switch class {
		case "empty":
			m.Clear(fd)
		case "wrong_type", "garbage_value":
			v, _ := e.anyClass(md, class, baseURL)
			setList(v)
		case "dup":
			setList(base, base)
		case "eth_ext":
			// the extension option that routes a transaction to the EVM ante handler
			setList(e.anyMsg(md, "/ethermint.evm.v1.ExtensionOptionsEthereumTx", nil))
		default:
			return bad()
		}
	case "strlist":
		base := firstElem(protoreflect.ValueOfString(e.Fx))
		switch class {
		case "empty":
			m.Clear(fd)
		case "dup":
			setList(base, base)
		case "empty_elem":
			setList(protoreflect.ValueOfString(""))
		case "garbage":
			setList(protoreflect.ValueOfString("\x00/:"))
		case "two":
			setList(protoreflect.ValueOfString(e.Fx), protoreflect.ValueOfString(e.Fx2))
		case "many":
			vals := make([]protoreflect.Value, 2000)
			for i := range vals {
				vals[i] = base
			}
			setList(vals...)
		default:
			return bad()
		}
	case "uintlist", "sintlist":
		mk := func(u uint64, s int64) protoreflect.Value { return intVal(fd, u, s) }
		switch class {
		case "empty":
			m.Clear(fd)
		case "zero":
			setList(mk(0, 0))
		case "min":
			setList(mk(0, math.MinInt64))
		case "max":
			setList(mk(math.MaxUint64, math.MaxInt64))
		case "dup":
			setList(mk(1, 1), mk(1, 1))
		default:
			return bad()
		}
	case "byteslist":
		switch class {
		case "empty":
			m.Clear(fd)
		case "empty_elem":
			setList(protoreflect.ValueOfBytes([]byte{}))
		case "huge":
			setList(protoreflect.ValueOfBytes(make([]byte, hugeLen)))
		default:
			return bad()
		}
	case "uint", "sint":
		switch class {
		case "zero":
			m.Clear(fd)
		case "one":
			m.Set(fd, intVal(fd, 1, 1))
		case "min":
			m.Set(fd, intVal(fd, 0, math.MinInt64))
		case "max":
			m.Set(fd, intVal(fd, math.MaxUint64, math.MaxInt64))
		default:
			return bad()
		}
	case "bool":
		switch class {
		case "false":
			m.Clear(fd)
		case "true":
			m.Set(fd, protoreflect.ValueOfBool(true))
		default:
			return bad()
		}
	case "enum":
		n := map[string]int32{"zero": 0, "neg": -1, "big": math.MaxInt32}
		v, ok := n[class]
		if !ok {
			return bad()
		}
		m.Set(fd, protoreflect.ValueOfEnum(protoreflect.EnumNumber(v)))
	case "float":
		n := map[string]float64{"zero": 0, "nan": math.NaN(), "inf": math.Inf(1)}
		v, ok := n[class]
		if !ok {
			return bad()
		}
		if fd.Kind() == protoreflect.FloatKind {
			m.Set(fd, protoreflect.ValueOfFloat32(float32(v)))
		} else {
			m.Set(fd, protoreflect.ValueOfFloat64(v))
		}
	case "bytes":
		n := map[string]int{"empty": 0, "one": 1, "b20": 20, "b32": 32, "huge": hugeLen}
		v, ok := n[class]
		if !ok {
			return bad()
		}
		if v == 0 {
			m.Clear(fd)
		} else {
			b := make([]byte, v)
			for i := range b {
				b[i] = 0xab
			}
			m.Set(fd, protoreflect.ValueOfBytes(b))
		}
	case "presence":
		if class != "absent" {
			return bad()
		}
		m.Clear(fd)
	case "listshape":
		md := fd.Message()
		base := firstElem(protoreflect.ValueOfMessage(dynamicpb.NewMessage(md)))
		clone := func() protoreflect.Value {
			return protoreflect.ValueOfMessage(proto.Clone(base.Message().Interface()).ProtoReflect())
		}
		switch class {
		case "empty":
			m.Clear(fd)
		case "dup":
			setList(clone(), clone())
		case "many":
			vals := make([]protoreflect.Value, 1000)
			for i := range vals {
				vals[i] = clone()
			}
			setList(vals...)
		default:
			return bad()
		}
	default:
		return bad()
	}
	return nil
}

func intVal(fd protoreflect.FieldDescriptor, u uint64, s int64) protoreflect.Value {
	switch fd.Kind() {
	case protoreflect.Uint64Kind, protoreflect.Fixed64Kind:
		return protoreflect.ValueOfUint64(u)
	case protoreflect.Uint32Kind, protoreflect.Fixed32Kind:
		return protoreflect.ValueOfUint32(uint32(u))
	case protoreflect.Int64Kind, protoreflect.Sint64Kind, protoreflect.Sfixed64Kind:
		return protoreflect.ValueOfInt64(s)
	default:
		if s == math.MinInt64 {
			return protoreflect.ValueOfInt32(math.MinInt32)
		}
		if s == math.MaxInt64 {
			return protoreflect.ValueOfInt32(math.MaxInt32)
		}
		return protoreflect.ValueOfInt32(int32(s))
	}
}

// Mutate applies the class vector to the message (fields in table order).
func (e *Env) Mutate(m protoreflect.Message, fields []Field, cls []string) error {
	if len(fields) != len(cls) {
		return fmt.Errorf("case has %d classes, table has %d fields", len(cls), len(fields))
	}
	var absent []string // path prefixes of containers removed by this case
	for i, f := range fields {
		if cls[i] == "valid" {
			continue
		}
		skip := false
		for _, p := range absent {
			if strings.HasPrefix(f.Path, p) {
				skip = true
			}
		}
		if skip {
			continue
		}
		if err := e.applyAt(m, strings.Split(f.Path, "."), f.Kind, cls[i]); err != nil {
			return err
		}
		if (f.Kind == "presence" && cls[i] == "absent") || (f.Kind == "listshape" && cls[i] == "empty") {
			if f.Kind == "presence" {
				absent = append(absent, f.Path+".")
			} else {
				absent = append(absent, f.Path+"[].")
			}
		}
	}
	return nil
}

func (e *Env) applyAt(m protoreflect.Message, segs []string, kind, class string) error {
	name := strings.TrimSuffix(segs[0], "[]")
	fd := m.Descriptor().Fields().ByName(protoreflect.Name(name))
	if fd == nil {
		return fmt.Errorf("no field %s in %s", name, m.Descriptor().FullName())
	}
	if len(segs) == 1 {
		return e.applyLeaf(m, fd, kind, class)
	}
	if strings.HasSuffix(segs[0], "[]") {
		if !m.Has(fd) {
			return nil
		}
		l := m.Mutable(fd).List()
		for i := 0; i < l.Len(); i++ {
			if err := e.applyAt(l.Get(i).Message(), segs[1:], kind, class); err != nil {
				return err
			}
		}
		return nil
	}
	return e.applyAt(m.Mutable(fd).Message(), segs[1:], kind, class)
}

// ---- EVM helpers

func hexToAddr(s string) common.Address { return common.HexToAddress(s) }
