// Package multi binds spec/Multi.tla: operations that push several entries at once through
// collection-iterating code paths.  It exists to give the determinism check (C17) histories in
// which an iteration order could matter.
package multi

import (
	"encoding/binary"
	"encoding/hex"
	"fmt"
	"math/big"
	"os"
	"testing"
	"time"

	sdkmath "cosmossdk.io/math"
	storetypes "cosmossdk.io/store/types"
	codectypes "github.com/cosmos/cosmos-sdk/codec/types"
	sdk "github.com/cosmos/cosmos-sdk/types"

	"github.com/functionx/fx-core/v8/testutil/helpers"
	fxtypes "github.com/functionx/fx-core/v8/types"
	crosschainkeeper "github.com/functionx/fx-core/v8/x/crosschain/keeper"
	"github.com/functionx/fx-core/v8/x/crosschain/precompile"
	"github.com/functionx/fx-core/v8/x/crosschain/types"
	erc20types "github.com/functionx/fx-core/v8/x/erc20/types"

	"verifharness/graph"
	"verifharness/ibctransfer"
	"verifharness/world"
)

type Consts struct {
	Chain string `json:"chain"`
	N     int    `json:"N"`
}

var unit = sdkmath.NewInt(1_000_000_000_000_000_000)
var powerUnit = unit.MulRaw(100)

type Adapter struct {
	W        *world.W
	C        Consts
	K        crosschainkeeper.Keeper
	storeKey storetypes.StoreKey
	tokFX    string
	tokU     string   // eth contract of the token that also has an IBC voucher form on channel-0
	denoms   []string // FX + two pair base denominations
	base     int64
	timeout0 uint64 // genesis value of the batch timeout parameter (= 1 unit)
}

func must(err error) {
	if err != nil {
		panic(err)
	}
}

func (a *Adapter) oracle(i int) *helpers.Signer {
	return a.W.Key(fmt.Sprintf("%s/multi/oracle/%d", a.C.Chain, i))
}
func (a *Adapter) bridger(i int) *helpers.Signer {
	return a.W.Key(fmt.Sprintf("%s/multi/bridger/%d", a.C.Chain, i))
}
func (a *Adapter) user(i int) *helpers.Signer {
	return a.W.Key(fmt.Sprintf("%s/multi/user/%d", a.C.Chain, i))
}

func New(t *testing.T, c Consts) *Adapter {
	w := world.New(t, 2)
	// an open IBC channel (channel-0 over the localhost connection); runs one real block
	ibctransfer.NewOn(w, ibctransfer.Consts{Acct: []string{"u1"}, Chan: []string{"channel-0"}, MaxSeq: 4, MaxIn: 1, InitPool: 10})
	a := &Adapter{W: w, C: c, K: w.App.EthKeeper}
	a.storeKey = w.App.GetKey(c.Chain)
	ctx := w.Ctx
	p := a.K.GetParams(ctx)
	p.DelegateThreshold = types.NewDelegateAmount(powerUnit)
	p.DelegateMultiple = 1000
	a.timeout0 = p.ExternalBatchTimeout
	must(w.Handle(ctx, &types.MsgUpdateParams{ChainName: c.Chain, Authority: world.GovAddr(), Params: p}))
	var all []string
	for i := 0; i < c.N; i++ {
		w.Fund(ctx, a.oracle(i).AccAddress(), 1_000_000)
		w.Fund(ctx, a.bridger(i).AccAddress(), 100)
		all = append(all, a.oracle(i).AccAddress().String())
	}
	must(w.Handle(ctx, &types.MsgUpdateChainOracles{ChainName: c.Chain, Authority: world.GovAddr(), Oracles: all}))
	a.tokFX = world.DetExt(c.Chain + "/multi/token/FX")
	must(a.K.AddBridgeTokenExecuted(ctx, &types.MsgBridgeTokenClaim{ChainName: c.Chain, TokenContract: a.tokFX, Name: "Function X", Symbol: fxtypes.DefaultDenom, Decimals: 18}))
	// the IBC world's token "usdt" (voucher alias on channel-0, vouchers parked in the transfer module) also becomes a bridge token of this chain
	a.tokU = world.DetExt(c.Chain + "/multi/token/USDT")
	must(w.Handle(ctx, &erc20types.MsgUpdateDenomAlias{Authority: world.GovAddr(), Denom: "usdt", Alias: types.NewBridgeDenom(c.Chain, a.tokU)}))
	must(a.K.AddBridgeTokenExecuted(ctx, &types.MsgBridgeTokenClaim{ChainName: c.Chain, TokenContract: a.tokU, Name: "Tether USD", Symbol: "USDT", Decimals: 18}))
	// FX bridged out earlier and locked in the module: liquidity for inbound deposits
	must(w.App.BankKeeper.MintCoins(ctx, "mint", sdk.NewCoins(world.FX(1000))))
	must(w.App.BankKeeper.SendCoinsFromModuleToModule(ctx, "mint", c.Chain, sdk.NewCoins(world.FX(1000))))
	a.denoms = []string{fxtypes.DefaultDenom}
	for i, sym := range []string{"TKA", "TKB"} {
		tok := world.DetExt(fmt.Sprintf("%s/multi/token/%d", c.Chain, i))
		bd := types.NewBridgeDenom(c.Chain, tok)
		md := fxtypes.GetCrossChainMetadataManyToOne("Token "+sym, sym, 18, bd)
		must(w.Handle(ctx, &erc20types.MsgRegisterCoin{Authority: world.GovAddr(), Metadata: md}))
		must(a.K.AddBridgeTokenExecuted(ctx, &types.MsgBridgeTokenClaim{ChainName: c.Chain, TokenContract: tok, Name: "Token " + sym, Symbol: sym, Decimals: 18}))
		must(w.App.BankKeeper.MintCoins(ctx, c.Chain, sdk.NewCoins(sdk.NewCoin(bd, unit.MulRaw(1000)))))
		a.denoms = append(a.denoms, md.Base)
	}
	for i := 0; i < 4; i++ {
		w.Fund(ctx, a.user(i).AccAddress(), 1000)
		for _, d := range a.denoms[1:] {
			w.MintCoins(ctx, a.user(i).AccAddress(), sdk.NewCoin(d, unit.MulRaw(100)))
		}
	}
	a.K.SetLastObservedBlockHeight(ctx, 100, uint64(ctx.BlockHeight()))
	a.base = ctx.BlockHeight()
	return a
}

func (a *Adapter) nextBlock(ctx sdk.Context) (sdk.Context, error) {
	if err := world.Atomic(ctx, func(c sdk.Context) error { _, e := a.W.App.EndBlocker(c); return e }); err != nil {
		return ctx, err
	}
	next := ctx.WithBlockHeight(ctx.BlockHeight() + 1).WithBlockTime(ctx.BlockTime().Add(5 * time.Second))
	if err := world.Atomic(next, func(c sdk.Context) error { _, e := a.W.App.BeginBlocker(c); return e }); err != nil {
		return ctx, err
	}
	return next, nil
}

func (a *Adapter) Apply(ctx sdk.Context, op graph.Op) (sdk.Context, string) {
	w, ch := a.W, a.C.Chain
	var err error
	k := int(op.Int("k"))
	switch op.Name() {
	case "BondAll":
		err = world.Atomic(ctx, func(c sdk.Context) error {
			for i := 0; i < a.C.N; i++ {
				if e := w.Handle(c, &types.MsgBondedOracle{ChainName: ch, OracleAddress: a.oracle(i).AccAddress().String(), BridgerAddress: a.bridger(i).AccAddress().String(),
					ExternalAddress: world.DetExt(fmt.Sprintf("%s/multi/ext/%d", ch, i)), ValidatorAddress: w.ValAddr[i%2].String(),
					DelegateAmount: types.NewDelegateAmount(powerUnit.MulRaw(10))}); e != nil {
					return e
				}
			}
			return nil
		})
	case "Drop":
		po, _ := a.K.GetProposalOracle(ctx)
		approved := map[string]bool{}
		for _, o := range po.Oracles {
			approved[o] = true
		}
		var keep []string
		dropped := 0
		for i := 0; i < a.C.N; i++ {
			addr := a.oracle(i).AccAddress()
			if !approved[addr.String()] {
				continue
			}
			or, found := a.K.GetOracle(ctx, addr)
			if dropped < k && found && or.Online {
				dropped++
				continue
			}
			keep = append(keep, addr.String())
		}
		if dropped < k {
			return ctx, "rej"
		}
		err = w.Handle(ctx, &types.MsgUpdateChainOracles{ChainName: ch, Authority: world.GovAddr(), Oracles: keep})
	case "Call":
		coins := sdk.NewCoins()
		for _, d := range a.denoms[:k] {
			coins = coins.Add(sdk.NewCoin(d, unit))
		}
		u := a.user(0).AccAddress().String()
		err = w.Handle(ctx, &types.MsgBridgeCall{ChainName: ch, Sender: u, Refund: u, Coins: coins, To: world.DetExt(ch + "/multi/dest"), Data: "", Value: sdkmath.ZeroInt(), Memo: ""})
	case "SendMany":
		err = world.Atomic(ctx, func(c sdk.Context) error {
			for i := 0; i < k; i++ {
				if e := w.Handle(c, &types.MsgSendToExternal{ChainName: ch, Sender: a.user(i).AccAddress().String(), Dest: world.DetExt(ch + "/multi/dest"),
					Amount: sdk.NewCoin(fxtypes.DefaultDenom, unit.MulRaw(int64(i+1))), BridgeFee: sdk.NewCoin(fxtypes.DefaultDenom, unit.MulRaw(int64(k-i)))}); e != nil {
					return e
				}
			}
			return nil
		})
	case "Batch":
		next, e := a.nextBlock(ctx) // at most one batch per block
		if e != nil {
			err = e
			break
		}
		ctx = next
		err = w.Handle(ctx, &types.MsgRequestBatch{ChainName: ch, Sender: a.bridger(a.C.N - 1).AccAddress().String(), Denom: fxtypes.DefaultDenom,
			MinimumFee: unit, FeeReceive: world.DetExt(ch + "/multi/feereceive"), BaseFee: sdkmath.ZeroInt()})
	case "FxBlock":
		next, e := a.nextBlock(ctx)
		if e != nil {
			err = e
			break
		}
		return next, "ok"
	case "SetParam":
		p := a.K.GetParams(ctx)
		if p.ExternalBatchTimeout == a.timeout0*uint64(k) {
			return ctx, "rej"
		}
		p.ExternalBatchTimeout = a.timeout0 * uint64(k)
		err = w.Handle(ctx, &types.MsgUpdateParams{ChainName: ch, Authority: world.GovAddr(), Params: p})
	case "DepositIbc":
		// every online oracle's bridger reports the same deposit; its target is the IBC channel
		n := a.K.GetLastObservedEventNonce(ctx) + 1
		voted := 0
		err = world.Atomic(ctx, func(c sdk.Context) error {
			for i := 0; i < a.C.N; i++ {
				or, found := a.K.GetOracle(c, a.oracle(i).AccAddress())
				if !found || !or.Online {
					continue
				}
				claim := &types.MsgSendToFxClaim{ChainName: ch, BridgerAddress: a.bridger(i).AccAddress().String(), EventNonce: n, BlockHeight: 100 + n,
					TokenContract: a.tokU, Amount: unit, Sender: world.DetExt(ch + "/multi/extsender"), Receiver: a.user(0).AccAddress().String(),
					TargetIbc: hex.EncodeToString([]byte("cosmos/transfer/channel-0"))}
				any, e := codectypes.NewAnyWithValue(claim)
				must(e)
				if e := w.Handle(c, &types.MsgClaim{ChainName: ch, BridgerAddress: claim.BridgerAddress, Claim: any}); e != nil {
					if a.K.GetLastObservedEventNonce(c) >= n {
						continue // observed already: later votes are refused, like a late oracle's
					}
					return e
				}
				voted++
			}
			if voted == 0 {
				return fmt.Errorf("no online oracle")
			}
			// the observed claim is parked; anybody executes it through the bridge precompile
			data, e := precompile.NewExecuteClaimMethod(nil).PackInput(types.ExecuteClaimArgs{Chain: ch, EventNonce: new(big.Int).SetUint64(n)})
			must(e)
			if ok, msg := w.EthCall(c, a.user(1), types.GetAddress(), 3_000_000, data); !ok {
				return fmt.Errorf("executeClaim: %s", msg)
			}
			return nil
		})
	default:
		panic("unknown op " + op.Name())
	}
	if err != nil {
		if os.Getenv("VERIF_DEBUG") != "" {
			fmt.Printf("DEBUG %v -> %v\n", op, err)
		}
		return ctx, "rej"
	}
	return ctx, "ok"
}

func (a *Adapter) Project(ctx sdk.Context) any {
	st := ctx.KVStore(a.storeKey)
	cdc := a.W.App.AppCodec()
	bonded, online := 0, 0
	it := storetypes.KVStorePrefixIterator(st, types.OracleKey)
	for ; it.Valid(); it.Next() {
		var o types.Oracle
		cdc.MustUnmarshal(it.Value(), &o)
		bonded++
		if o.Online {
			online++
		}
	}
	it.Close()
	count := func(prefix []byte) int {
		n := 0
		i := storetypes.KVStorePrefixIterator(st, prefix)
		for ; i.Valid(); i.Next() {
			n++
		}
		i.Close()
		return n
	}
	batches := int64(0)
	if bz := st.Get(types.KeyLastOutgoingBatchID); len(bz) > 0 {
		batches = int64(binary.BigEndian.Uint64(bz)) - 1
	}
	param := int64(0)
	if a.timeout0 > 0 {
		param = int64(a.K.GetParams(ctx).ExternalBatchTimeout / a.timeout0)
	}
	ibc := len(a.W.App.IBCKeeper.ChannelKeeper.GetAllPacketCommitmentsAtChannel(ctx, "transfer", "channel-0"))
	return map[string]any{"bonded": bonded, "online": online, "calls": count(types.OutgoingBridgeCallNonceKey), "sends": count(types.OutgoingTxPoolKey),
		"batches": batches, "blocks": 0, "param": param, "ibc": ibc}
}
