package multi

import (
	"testing"

	"verifharness/graph"
)

func TestWalks(t *testing.T) {
	var c Consts
	graph.Const(&c)
	a := New(t, c)
	graph.RunWalks(t, a, a.W.Ctx, a.W.DumpHash)
}
