package erc20

import (
	"bytes"
	"fmt"
	"os"
	"sort"
	"testing"

	storetypes "cosmossdk.io/store/types"
	sdk "github.com/cosmos/cosmos-sdk/types"
	"github.com/ethereum/go-ethereum/common"

	"github.com/functionx/fx-core/v8/contract"
	"github.com/functionx/fx-core/v8/testutil/helpers"
	fxtypes "github.com/functionx/fx-core/v8/types"
	cctypes "github.com/functionx/fx-core/v8/x/crosschain/types"
	erc20types "github.com/functionx/fx-core/v8/x/erc20/types"

	"verifharness/graph"
	"verifharness/world"
)

// RegAdapter binds spec/Erc20Reg.tla: several pairs registered by governance-authority messages with alias sets
// drawn from one pool (two coins c1/c2 via MsgRegisterCoin, one externally-owned ERC-20 e via MsgRegisterERC20)
// and MsgUpdateDenomAlias in between.
type RegAdapter struct {
	W      *world.W
	C      Consts
	ekey   storetypes.StoreKey
	pairs  []string
	denoms []string          // model names: bases of the pairs + free aliases
	real   map[string]string // model denom -> real denom
	name   map[string]string // real denom -> model denom
	sym    map[string][2]string
	tokE   common.Address
	owner  *helpers.Signer
}

func pairBase(p string) string {
	switch p {
	case "c1":
		return "b1"
	case "c2":
		return "b2"
	}
	return "be"
}

func NewReg(t *testing.T, c Consts) *RegAdapter {
	w := world.New(t, 1)
	a := &RegAdapter{W: w, C: c, ekey: w.App.GetKey(erc20types.StoreKey), pairs: c.Pair,
		real: map[string]string{"b1": "tka", "b2": "tkb", "be": "tke"}, name: map[string]string{},
		sym: map[string][2]string{"c1": {"Token A", "TKA"}, "c2": {"Token B", "TKB"}}}
	ctx := w.Ctx
	for _, p := range c.Pair {
		a.denoms = append(a.denoms, pairBase(p))
	}
	for _, f := range c.Free {
		a.denoms = append(a.denoms, f)
		a.real[f] = cctypes.NewBridgeDenom(chain, world.DetExt("c08/reg/alias/"+f)) // a bridge denomination eth0x…
	}
	sort.Strings(a.denoms)
	for m, r := range a.real {
		a.name[r] = m
	}
	a.owner = w.Key("c08/owner")
	w.Fund(ctx, a.owner.AccAddress(), 1000)
	fip := contract.GetFIP20()
	tok, err := w.App.EvmKeeper.DeployUpgradableContract(ctx, a.owner.Address(), fip.Address, nil, &fip.ABI, "Token E", "TKE", uint8(18), a.owner.Address())
	must(err)
	a.tokE = tok
	w.Ctx = ctx
	return a
}

func (a *RegAdapter) setOf(op graph.Op) []string {
	var out []string
	m, _ := op["set"].(map[string]any)
	for _, d := range a.denoms {
		if b, _ := m[d].(bool); b {
			out = append(out, a.real[d])
		}
	}
	return out
}

func (a *RegAdapter) Apply(ctx sdk.Context, op graph.Op) (sdk.Context, string) {
	w := a.W
	var err error
	p := op.Str("p")
	switch op.Name() {
	case "Register":
		if p == "e" {
			err = w.Handle(ctx, &erc20types.MsgRegisterERC20{Authority: world.GovAddr(), Erc20Address: a.tokE.Hex(), Aliases: a.setOf(op)})
		} else {
			err = w.Handle(ctx, &erc20types.MsgRegisterCoin{Authority: world.GovAddr(),
				Metadata: fxtypes.GetCrossChainMetadataManyToOne(a.sym[p][0], a.sym[p][1], 18, a.setOf(op)...)})
		}
	case "UpdateAlias":
		err = w.Handle(ctx, &erc20types.MsgUpdateDenomAlias{Authority: world.GovAddr(), Denom: a.real[pairBase(p)], Alias: a.real[op.Str("al")]})
	default:
		panic("unknown op " + op.Name())
	}
	if err != nil {
		if os.Getenv("VERIF_DEBUG") != "" {
			fmt.Printf("DEBUG %v -> %v\n", op, err)
		}
		return ctx, "rej"
	}
	return ctx, "ok"
}

// Project reads the erc20 store prefixes 0x01 0x02 0x03 0x05 raw and the bank metadata of every pair's base coin.
func (a *RegAdapter) Project(ctx sdk.Context) any {
	st := ctx.KVStore(a.ekey)
	recs := map[string]erc20types.TokenPair{}
	it := storetypes.KVStorePrefixIterator(st, erc20types.KeyPrefixTokenPair)
	for ; it.Valid(); it.Next() {
		var tp erc20types.TokenPair
		a.W.App.AppCodec().MustUnmarshal(it.Value(), &tp)
		for _, p := range a.pairs {
			if tp.Denom == a.real[pairBase(p)] {
				recs[p] = tp
			}
		}
	}
	it.Close()
	idName := func(id []byte) string {
		if len(id) == 0 {
			return "none"
		}
		for _, p := range a.pairs {
			if r, ok := recs[p]; ok && bytes.Equal(r.GetID(), id) {
				return p
			}
		}
		return fmt.Sprintf("?%x", id[:4])
	}
	reg, byTok := map[string]bool{}, map[string]string{}
	byDenom, aliasIdx := map[string]string{}, map[string]string{}
	md := map[string]map[string]bool{}
	for _, p := range a.pairs {
		r, ok := recs[p]
		reg[p] = ok
		byTok[p] = "none"
		var tok common.Address
		known := false
		if p == "e" {
			tok, known = a.tokE, true
			if ok && r.GetERC20Contract() != a.tokE {
				byTok[p] = "?othertoken"
				known = false
			}
		} else if ok {
			tok, known = r.GetERC20Contract(), true
		}
		if known {
			byTok[p] = idName(st.Get(append(append([]byte{}, erc20types.KeyPrefixTokenPairByERC20...), tok.Bytes()...)))
		}
		md[p] = map[string]bool{}
		meta, _ := a.W.App.BankKeeper.GetDenomMetaData(ctx, a.real[pairBase(p)])
		for _, d := range a.denoms {
			md[p][d] = false
			if len(meta.DenomUnits) > 0 {
				for _, al := range meta.DenomUnits[0].Aliases {
					if al == a.real[d] {
						md[p][d] = true
					}
				}
			}
		}
	}
	for _, d := range a.denoms {
		byDenom[d] = idName(st.Get(append(append([]byte{}, erc20types.KeyPrefixTokenPairByDenom...), []byte(a.real[d])...)))
		v := string(st.Get(append(append([]byte{}, erc20types.KeyPrefixAliasDenom...), []byte(a.real[d])...)))
		switch {
		case v == "":
			aliasIdx[d] = "none"
		case a.name[v] != "":
			aliasIdx[d] = a.name[v]
		default:
			aliasIdx[d] = "?" + v
		}
	}
	return map[string]any{"reg": reg, "byDenom": byDenom, "byTok": byTok, "aliasIdx": aliasIdx, "md": md}
}
