package erc20

import (
	"math/big"

	"github.com/ethereum/go-ethereum/crypto"

	"verifharness/evmasm"
)

// A hand-assembled EIP-20 token (no Solidity compiler is installed) for the externally-owned pair of the Soft / Mortal
// families of spec/Erc20.tla.  Unlike FIP20 it is an ORDINARY third-party token:
//
//   - soft = true : transfer / transferFrom signal failure (insufficient balance or allowance, zero receiver) by RETURNING
//     FALSE and changing nothing, as EIP-20 allows, instead of reverting;
//   - kill()      : its owner (the deployer) can destroy it with SELFDESTRUCT (only offered by the model when Mortal).
//
// Interface (the selectors of the FIP20 ABI, which is what fx-core and the abstraction function use to talk to any
// ERC-20): name symbol decimals totalSupply balanceOf transfer approve allowance transferFrom, plus kill().
// Storage: balance of X at slot X; total supply at 1<<160; owner at 2<<160; allowance(o, s) at keccak256(o . s).
const (
	opKECCAK256    = 0x20
	opSELFDESTRUCT = 0xff

	mA, mB, mC, mD = 0x80, 0xa0, 0xc0, 0xe0 // memory temporaries
)

var (
	slotSupply = new(big.Int).Lsh(big.NewInt(1), 160)
	slotOwner  = new(big.Int).Lsh(big.NewInt(2), 160)
	selKill    = crypto.Keccak256([]byte("kill()"))[:4]
)

type tokAsm struct{ *evmasm.Asm }

func (a tokAsm) op(ops ...byte) tokAsm     { a.Asm.Op(ops...); return a }
func (a tokAsm) push(v uint64) tokAsm      { a.Asm.Push(v); return a }
func (a tokAsm) jumpI(l string) tokAsm     { a.Asm.JumpI(l); return a }
func (a tokAsm) jump(l string) tokAsm      { a.Asm.Jump(l); return a }
func (a tokAsm) label(l string) tokAsm     { a.Asm.Label(l); return a }
func (a tokAsm) dup(n int) tokAsm          { a.Asm.Dup(n); return a }
func (a tokAsm) swap(n int) tokAsm         { a.Asm.Swap(n); return a }
func (a tokAsm) pushBig(v *big.Int) tokAsm { a.Asm.PushBig(v); return a }
func (a tokAsm) pushBytes(b []byte) tokAsm { a.Asm.PushBytes(b); return a }
func (a tokAsm) arg(i uint64) tokAsm       { a.push(4 + 32*i).op(evmasm.CALLDATALOAD); return a }
func (a tokAsm) put(m uint64) tokAsm       { a.push(m).op(evmasm.MSTORE); return a } // [v] -> mem[m] = v
func (a tokAsm) get(m uint64) tokAsm       { a.push(m).op(evmasm.MLOAD); return a }
func (a tokAsm) retWord() tokAsm {
	a.push(0).op(evmasm.MSTORE).push(0x20).push(0).op(evmasm.RETURN)
	return a
}
func (a tokAsm) retBool(b bool) tokAsm { // return one abi word 0 / 1
	if b {
		a.push(1)
	} else {
		a.push(0)
	}
	return a.retWord()
}

// allowSlot: [owner, spender] on the stack (spender on top) -> [keccak256(owner . spender)]
func (a tokAsm) allowSlot() tokAsm {
	a.push(0x20).op(evmasm.MSTORE) // spender -> mem[0x20]
	a.push(0).op(evmasm.MSTORE)    // owner   -> mem[0]
	a.push(0x40).push(0).op(opKECCAK256)
	return a
}

func (a tokAsm) retString(s string) tokAsm {
	if len(s) > 32 {
		panic("string too long")
	}
	data := make([]byte, 32)
	copy(data, s)
	a.push(0x20).push(0).op(evmasm.MSTORE)
	a.push(uint64(len(s))).push(0x20).op(evmasm.MSTORE)
	a.pushBytes(data).push(0x40).op(evmasm.MSTORE)
	a.push(0x60).push(0).op(evmasm.RETURN)
	return a
}

// TokenRuntime assembles the token's runtime code.
func TokenRuntime(name, symbol string, soft bool) []byte {
	a := tokAsm{evmasm.New()}
	a.push(0).op(evmasm.CALLDATALOAD).push(0xe0).op(evmasm.SHR)
	for _, m := range []struct {
		sel   []byte
		label string
	}{
		{[]byte{0x06, 0xfd, 0xde, 0x03}, "name"},
		{[]byte{0x95, 0xd8, 0x9b, 0x41}, "symbol"},
		{[]byte{0x31, 0x3c, 0xe5, 0x67}, "decimals"},
		{[]byte{0x18, 0x16, 0x0d, 0xdd}, "totalSupply"},
		{[]byte{0x70, 0xa0, 0x82, 0x31}, "balanceOf"},
		{[]byte{0xa9, 0x05, 0x9c, 0xbb}, "transfer"},
		{[]byte{0x09, 0x5e, 0xa7, 0xb3}, "approve"},
		{[]byte{0xdd, 0x62, 0xed, 0x3e}, "allowance"},
		{[]byte{0x23, 0xb8, 0x72, 0xdd}, "transferFrom"},
		{selKill, "kill"},
	} {
		a.dup(1).pushBytes(m.sel).op(evmasm.EQ).jumpI(m.label)
	}
	a.label("revert").push(0).push(0).op(evmasm.REVERT)
	// how a transfer that cannot be made is signalled
	a.label("fail")
	if soft {
		a.retBool(false)
	} else {
		a.push(0).push(0).op(evmasm.REVERT)
	}

	a.label("name").retString(name)
	a.label("symbol").retString(symbol)
	a.label("decimals").push(18)
	a.retWord()
	a.label("totalSupply").pushBig(slotSupply).op(evmasm.SLOAD)
	a.retWord()
	a.label("balanceOf").arg(0).op(evmasm.SLOAD)
	a.retWord()
	a.label("allowance").arg(0).arg(1).allowSlot().op(evmasm.SLOAD)
	a.retWord()

	a.label("approve") // allowance(caller, arg0) = arg1
	a.arg(1)
	a.op(evmasm.CALLER).arg(0).allowSlot()
	a.op(evmasm.SSTORE)
	a.retBool(true)

	a.label("transfer") // to = arg0, amount = arg1
	a.arg(0).put(mA).arg(1).put(mB)
	a.op(evmasm.CALLER, evmasm.SLOAD).put(mC)     // sender's balance
	a.get(mA).op(evmasm.ISZERO).jumpI("fail")     // zero receiver
	a.get(mB).get(mC).op(evmasm.LT).jumpI("fail") // balance < amount
	a.get(mB).get(mC).op(evmasm.SUB).op(evmasm.CALLER, evmasm.SSTORE)
	a.get(mA).op(evmasm.SLOAD).get(mB).op(evmasm.ADD).get(mA).op(evmasm.SSTORE)
	a.retBool(true)

	a.label("transferFrom") // from = arg0, to = arg1, amount = arg2
	a.arg(0).put(mA).arg(1).put(mB).arg(2).put(mC)
	a.get(mA).op(evmasm.SLOAD).put(mD)                       // from's balance
	a.get(mB).op(evmasm.ISZERO).jumpI("fail")                // zero receiver
	a.get(mC).get(mD).op(evmasm.LT).jumpI("fail")            // balance < amount
	a.get(mA).op(evmasm.CALLER).allowSlot().op(evmasm.SLOAD) // [allowance]
	a.dup(1).get(mC).swap(1).op(evmasm.LT)                   // [allowance, allowance < amount]
	a.jumpI("failpop")
	a.get(mC).swap(1).op(evmasm.SUB) // [allowance - amount]
	a.get(mA).op(evmasm.CALLER).allowSlot().op(evmasm.SSTORE)
	a.get(mC).get(mD).op(evmasm.SUB).get(mA).op(evmasm.SSTORE)
	a.get(mB).op(evmasm.SLOAD).get(mC).op(evmasm.ADD).get(mB).op(evmasm.SSTORE)
	a.retBool(true)
	a.label("failpop").op(evmasm.POP).jump("fail")

	a.label("kill") // owner only; no soft failure: there is no return value
	a.pushBig(slotOwner).op(evmasm.SLOAD, evmasm.CALLER, evmasm.EQ, evmasm.ISZERO).jumpI("revert")
	a.op(evmasm.CALLER, opSELFDESTRUCT)
	return a.Bytes()
}

// TokenInit: deployment code; the whole supply goes to the deployer, who becomes the owner.
func TokenInit(name, symbol string, soft bool, supply *big.Int) []byte {
	rt := TokenRuntime(name, symbol, soft)
	a := evmasm.New()
	a.PushBig(supply).Op(evmasm.CALLER, evmasm.SSTORE)
	a.PushBig(supply).PushBig(slotSupply).Op(evmasm.SSTORE)
	a.Op(evmasm.CALLER).PushBig(slotOwner).Op(evmasm.SSTORE)
	a.Push2(len(rt)).PushLabel("rt").Push(0).Op(evmasm.CODECOPY)
	a.Push2(len(rt)).Push(0).Op(evmasm.RETURN)
	a.Mark("rt").Data(rt)
	return a.Bytes()
}
