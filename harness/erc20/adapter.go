// Package erc20 binds spec/Erc20.tla (property C08) to the real application: the x/erc20 message
// server driven through the message router, direct ERC-20 calls as real EVM transactions, and
// straight-line contract programs (harness/evmasm executor holding tokens) that mix token calls with
// the crosschain precompile's crossChain / bridgeCall in ONE transaction.
package erc20

import (
	"bytes"
	"encoding/hex"
	"fmt"
	"math/big"
	"os"
	"testing"

	sdkmath "cosmossdk.io/math"
	storetypes "cosmossdk.io/store/types"
	codectypes "github.com/cosmos/cosmos-sdk/codec/types"
	sdk "github.com/cosmos/cosmos-sdk/types"
	authtypes "github.com/cosmos/cosmos-sdk/x/auth/types"
	"github.com/ethereum/go-ethereum/accounts/abi"
	"github.com/ethereum/go-ethereum/common"
	"github.com/ethereum/go-ethereum/crypto"
	evmtypes "github.com/evmos/ethermint/x/evm/types"

	"github.com/functionx/fx-core/v8/contract"
	"github.com/functionx/fx-core/v8/testutil/helpers"
	fxtypes "github.com/functionx/fx-core/v8/types"
	cctypes "github.com/functionx/fx-core/v8/x/crosschain/types"
	erc20types "github.com/functionx/fx-core/v8/x/erc20/types"

	"verifharness/evmasm"
	"verifharness/graph"
	"verifharness/pcenv"
	"verifharness/world"
)

const chain = "eth"
const gasLimit = 8_000_000

var unit = sdkmath.NewInt(1_000_000_000_000_000_000)

// giftKey: the environment's ledger of gratuitous hand-overs to the pair's escrow account (harness-private key in the erc20
// store, so it follows the branch): a direct token transfer to the module of an externally-owned pair, a conversion that
// names the wrapper contract as coin receiver.  The specification's `gift`.
var giftKey = []byte{0xFE, 'g', 'i', 'f', 't'}

// lostKey: the environment's ledger of the token claims (balances outside the module's escrow) that existed when the
// token's owner destroyed the contract.  The specification's `lost`.
var lostKey = []byte{0xFE, 'l', 'o', 's', 't'}

type Consts struct {
	Kind     string `json:"Kind"` // fx | module | external
	HasAlias bool   `json:"HasAlias"`
	InitU1   int64  `json:"InitU1"`
	InitU2   int64  `json:"InitU2"`
	// Kind = "external": the token is the hand-assembled ordinary ERC-20 of token.go instead of FIP20 behind a proxy when
	// either trait is asked for: Soft = returns false instead of reverting, Mortal = the owner's kill() is offered
	Soft   bool `json:"Soft"`
	Mortal bool `json:"Mortal"`
	// Kind = "reg" (spec/Erc20Reg.tla): the pairs and the pool of free alias denominations
	Pair []string `json:"Pair"`
	Free []string `json:"Free"`
}

type Adapter struct {
	W        *world.W
	C        Consts
	ekey     storetypes.StoreKey // erc20
	ckey     storetypes.StoreKey // eth
	base     string              // real base denomination
	alias    string              // real alias / bridge denomination ("" when the world has none)
	token    common.Address      // fx, external: known from the start; module: read from the pair record
	exe      common.Address
	relayer  *helpers.Signer
	owner    *helpers.Signer // owner of the externally-owned ERC-20
	dest     string
	holders  []string
	denoms   []string
	off      map[string]sdkmath.Int // bank supply not held by tracked holders at construction (FX only)
	hoff     map[string]sdkmath.Int // holder/denom: what a non-user holder held at construction (FX only: e.g. the bridge module's genesis FX)
	evmMod   common.Address
	erc20Mod common.Address
	pre      common.Address
	fip20    abi.ABI
	wfx      abi.ABI
}

func must(err error) {
	if err != nil {
		panic(err)
	}
}

func mustf(ok bool, f string, a ...any) {
	if !ok {
		panic(fmt.Sprintf(f, a...))
	}
}

func amt(n int64) sdkmath.Int { return unit.MulRaw(n) }
func big1(n int64) *big.Int   { return unit.MulRaw(n).BigInt() }

func units(x sdkmath.Int) int64 {
	q := x.Quo(unit)
	if !q.Mul(unit).Equal(x) {
		return -777 // a fraction of a model unit moved
	}
	return q.Int64()
}

func (a *Adapter) user(u string) *helpers.Signer { return a.W.Key("c08/user/" + u) }

// addrOf maps a model holder / spender name to its address (ok=false: the address does not exist yet).
func (a *Adapter) addrOf(ctx sdk.Context, h string) (common.Address, bool) {
	switch h {
	case "u1", "u2":
		return a.user(h).Address(), true
	case "exe":
		return a.exe, true
	case "mod":
		return a.erc20Mod, true
	case "eth":
		return common.BytesToAddress(authtypes.NewModuleAddress(chain)), true
	case "pre":
		return a.pre, true
	case "zero":
		return common.Address{}, true
	case "wrap":
		return a.tokenAddr(ctx)
	}
	panic("holder " + h)
}

func (a *Adapter) realDenom(d string) string {
	if d == "b" {
		return a.base
	}
	return a.alias
}

// mainPair returns the pair record whose denomination is the base coin (raw prefix 0x01 iteration).
func (a *Adapter) mainPair(ctx sdk.Context) (erc20types.TokenPair, bool) {
	it := storetypes.KVStorePrefixIterator(ctx.KVStore(a.ekey), erc20types.KeyPrefixTokenPair)
	defer it.Close()
	for ; it.Valid(); it.Next() {
		var p erc20types.TokenPair
		a.W.App.AppCodec().MustUnmarshal(it.Value(), &p)
		if p.Denom == a.base {
			return p, true
		}
	}
	return erc20types.TokenPair{}, false
}

// tokenAddr: the pair's ERC-20 contract (module kind: exists only once registered).
func (a *Adapter) tokenAddr(ctx sdk.Context) (common.Address, bool) {
	if a.C.Kind != "module" {
		return a.token, true
	}
	if p, ok := a.mainPair(ctx); ok {
		return p.GetERC20Contract(), true
	}
	return common.Address{}, false
}

func (a *Adapter) observe(ctx sdk.Context, claim cctypes.ExternalClaim) {
	any, err := codectypes.NewAnyWithValue(claim)
	must(err)
	must(a.W.Handle(ctx, &cctypes.MsgClaim{ChainName: chain, BridgerAddress: a.W.Key("c08/bridger").AccAddress().String(), Claim: any}))
}

func New(t *testing.T, c Consts) *Adapter {
	w := world.New(t, 2)
	a := &Adapter{W: w, C: c, ekey: w.App.GetKey(erc20types.StoreKey), ckey: w.App.GetKey(chain),
		holders: []string{"u1", "u2", "exe", "mod", "wrap", "eth", "pre", "zero"}, denoms: []string{"b"},
		fip20: contract.GetFIP20().ABI, wfx: contract.GetWFX().ABI, pre: cctypes.GetAddress(), off: map[string]sdkmath.Int{}, hoff: map[string]sdkmath.Int{}}
	if c.HasAlias {
		a.denoms = append(a.denoms, "a")
	}
	ctx := w.Ctx
	a.evmMod = common.BytesToAddress(authtypes.NewModuleAddress(evmtypes.ModuleName))
	a.erc20Mod = common.BytesToAddress(authtypes.NewModuleAddress(erc20types.ModuleName))
	a.dest = world.DetExt("c08/dest")
	// ---- the eth bridge module: one oracle with all the power; the FX bridge token is observed (this also records an
	// observed external height, without which no outgoing bridge call can be built)
	k := w.App.EthKeeper
	p := k.GetParams(ctx)
	p.DelegateThreshold = cctypes.NewDelegateAmount(unit.MulRaw(100))
	p.DelegateMultiple = 1000
	must(w.Handle(ctx, &cctypes.MsgUpdateParams{ChainName: chain, Authority: world.GovAddr(), Params: p}))
	oracle, bridger, deployer := w.Key("c08/oracle"), w.Key("c08/bridger"), w.Key("c08/deployer")
	a.relayer, a.owner = w.Key("c08/relayer"), w.Key("c08/owner")
	w.Fund(ctx, oracle.AccAddress(), 1_000_000)
	for _, s := range []*helpers.Signer{bridger, deployer, a.relayer, a.owner} {
		w.Fund(ctx, s.AccAddress(), 1000)
	}
	must(w.Handle(ctx, &cctypes.MsgUpdateChainOracles{ChainName: chain, Authority: world.GovAddr(), Oracles: []string{oracle.AccAddress().String()}}))
	must(w.Handle(ctx, &cctypes.MsgBondedOracle{ChainName: chain, OracleAddress: oracle.AccAddress().String(), BridgerAddress: bridger.AccAddress().String(),
		ExternalAddress: world.DetExt("c08/ext/oracle"), ValidatorAddress: w.ValAddr[0].String(), DelegateAmount: cctypes.NewDelegateAmount(unit.MulRaw(1000))}))
	a.observe(ctx, &cctypes.MsgBridgeTokenClaim{ChainName: chain, BridgerAddress: bridger.AccAddress().String(), EventNonce: 1, BlockHeight: 100,
		TokenContract: world.DetExt("c08/token/FX"), Name: "Function X", Symbol: fxtypes.DefaultDenom, Decimals: 18})
	extTok := world.DetExt("c08/token/" + c.Kind)
	// ---- the pair's denominations, initial holdings
	switch c.Kind {
	case "fx":
		a.base = fxtypes.DefaultDenom
		if c.HasAlias {
			a.alias = cctypes.NewBridgeDenom(chain, world.DetExt("c08/alias/FX")) // an alias denomination of FX added by governance
		}
		pair, ok := w.App.Erc20Keeper.GetTokenPair(ctx, fxtypes.DefaultDenom)
		mustf(ok, "the native coin's pair is not registered at genesis")
		a.token = pair.GetERC20Contract()
		w.Fund(ctx, a.user("u1").AccAddress(), c.InitU1)
		w.Fund(ctx, a.user("u2").AccAddress(), c.InitU2)
	case "module":
		a.base = "tkm"
		if c.HasAlias {
			a.alias = cctypes.NewBridgeDenom(chain, extTok)
			a.observe(ctx, &cctypes.MsgBridgeTokenClaim{ChainName: chain, BridgerAddress: bridger.AccAddress().String(), EventNonce: 2, BlockHeight: 101,
				TokenContract: extTok, Name: "Token M", Symbol: "TKM", Decimals: 18})
			// what the deposits that created the users' base coins left behind: the bridge coins locked in the bridge module
			must(w.App.BankKeeper.MintCoins(ctx, "mint", sdk.NewCoins(sdk.NewCoin(a.alias, amt(c.InitU1+c.InitU2)))))
			must(w.App.BankKeeper.SendCoinsFromModuleToModule(ctx, "mint", chain, sdk.NewCoins(sdk.NewCoin(a.alias, amt(c.InitU1+c.InitU2)))))
		}
		for u, n := range map[string]int64{"u1": c.InitU1, "u2": c.InitU2} {
			w.Fund(ctx, a.user(u).AccAddress(), 1000)
			w.MintCoins(ctx, a.user(u).AccAddress(), sdk.NewCoin(a.base, amt(n)))
		}
	case "external":
		a.base = "tke"
		if c.HasAlias {
			a.alias = cctypes.NewBridgeDenom(chain, extTok)
			a.observe(ctx, &cctypes.MsgBridgeTokenClaim{ChainName: chain, BridgerAddress: bridger.AccAddress().String(), EventNonce: 2, BlockHeight: 101,
				TokenContract: extTok, Name: "Token E", Symbol: "TKE", Decimals: 18})
		}
		if c.Soft || c.Mortal {
			// an ordinary third-party ERC-20 (token.go), deployed by its owner with the whole supply, which the owner hands out
			nonce := w.App.EvmKeeper.GetNonce(ctx, a.owner.Address())
			_, err := w.App.EvmKeeper.CallEVMWithoutGas(ctx, a.owner.Address(), nil, nil, TokenInit("Token E", "TKE", c.Soft, big1(c.InitU1+c.InitU2)), true)
			must(err)
			a.token = crypto.CreateAddress(a.owner.Address(), nonce)
			mustf(w.App.EvmKeeper.IsContract(ctx, a.token), "token not deployed")
			for _, u := range []string{"u1", "u2"} {
				n := map[string]int64{"u1": c.InitU1, "u2": c.InitU2}[u]
				w.Fund(ctx, a.user(u).AccAddress(), 1000)
				ok, msg := a.tokenCall(ctx, a.owner, a.token, a.pack(a.fip20, "transfer", a.user(u).Address(), big1(n)))
				mustf(ok, "owner transfer: %s", msg)
			}
			break
		}
		// an ERC-20 owned by an ordinary account: the FIP20 logic behind its own proxy, initialised by the owner
		fip := contract.GetFIP20()
		tok, err := w.App.EvmKeeper.DeployUpgradableContract(ctx, a.owner.Address(), fip.Address, nil, &fip.ABI, "Token E", "TKE", uint8(18), a.owner.Address())
		must(err)
		a.token = tok
		for u, n := range map[string]int64{"u1": c.InitU1, "u2": c.InitU2} {
			w.Fund(ctx, a.user(u).AccAddress(), 1000)
			data, err := a.fip20.Pack("mint", a.user(u).Address(), big1(n))
			must(err)
			ok, msg := w.EthCall(ctx, a.owner, a.token, gasLimit, data)
			mustf(ok, "owner mint: %s", msg)
		}
	default:
		panic("kind " + c.Kind)
	}
	// ---- the executor contract (program taken from the call data)
	nonce := w.App.EvmKeeper.GetNonce(ctx, deployer.Address())
	_, err := w.App.EvmKeeper.CallEVMWithoutGas(ctx, deployer.Address(), nil, nil, evmasm.ExecutorInit(nil), true)
	must(err)
	a.exe = crypto.CreateAddress(deployer.Address(), nonce)
	mustf(w.App.EvmKeeper.IsContract(ctx, a.exe), "executor not deployed")
	// ---- supply offsets: coins of the pair's denominations held by anybody not tracked (only FX has such holders)
	for _, d := range a.denoms {
		tracked := sdkmath.ZeroInt()
		for _, h := range a.holders {
			if addr, ok := a.addrOf(ctx, h); ok {
				bal := w.App.BankKeeper.GetBalance(ctx, addr.Bytes(), a.realDenom(d)).Amount
				if a.realDenom(d) == fxtypes.DefaultDenom && h != "u1" && h != "u2" {
					a.hoff[h+"/"+d] = bal // FX a module account holds since genesis is not part of this pair's books
					continue
				}
				tracked = tracked.Add(bal)
			}
		}
		a.off[d] = w.App.BankKeeper.GetSupply(ctx, a.realDenom(d)).Amount.Sub(tracked)
	}
	w.Ctx = ctx
	return a
}

func (a *Adapter) authority(by string) string {
	if by == "gov" {
		return world.GovAddr()
	}
	return a.user(by).AccAddress().String()
}

func (a *Adapter) aliases() []string {
	if a.C.HasAlias {
		return []string{a.alias}
	}
	return nil
}

type step struct {
	K string `json:"k"`
	N int64  `json:"n"`
}

func steps(op graph.Op) []step {
	var out []step
	raw, _ := op["p"].([]any)
	for _, x := range raw {
		m := x.(map[string]any)
		out = append(out, step{K: m["k"].(string), N: int64(m["n"].(float64))})
	}
	return out
}

func (a *Adapter) pack(ab abi.ABI, m string, args ...any) []byte {
	b, err := ab.Pack(m, args...)
	must(err)
	return b
}

// tokenCall: an account's transfer / approve / transferFrom as a real EVM transaction.  Accepted = the transaction did
// not revert AND the token answered true (EIP-20: callers must handle `false`; a destroyed contract answers nothing).
func (a *Adapter) tokenCall(ctx sdk.Context, from *helpers.Signer, token common.Address, data []byte) (bool, string) {
	res, err := a.W.EthTx(ctx, from, &token, nil, gasLimit, data)
	if err != nil {
		return false, err.Error()
	}
	if res.VmError != "" {
		return false, res.VmError
	}
	if len(res.Ret) != 32 || new(big.Int).SetBytes(res.Ret).Cmp(big.NewInt(1)) != 0 {
		return false, fmt.Sprintf("the token answered %x", res.Ret)
	}
	return true, ""
}

func (a *Adapter) Apply(ctx sdk.Context, op graph.Op) (sdk.Context, string) {
	w := a.W
	var err error
	n := op.Int("n")
	token, tokOK := a.tokenAddr(ctx)
	noToken := common.HexToAddress(world.DetExt("c08/no-such-token"))
	call := func(from *helpers.Signer, to common.Address, data []byte) error {
		if ok, msg := w.EthCall(ctx, from, to, gasLimit, data); !ok {
			return fmt.Errorf("%s", msg)
		}
		return nil
	}
	tcall := func(from *helpers.Signer, data []byte) error {
		if ok, msg := a.tokenCall(ctx, from, token, data); !ok {
			return fmt.Errorf("%s", msg)
		}
		return nil
	}
	var lostNow int64 // Kill: the claims that go down with the contract
	switch op.Name() {
	case "Register":
		switch a.C.Kind {
		case "fx":
			err = w.Handle(ctx, &erc20types.MsgRegisterCoin{Authority: a.authority(op.Str("by")), Metadata: fxtypes.GetFXMetaData()})
		case "module":
			err = w.Handle(ctx, &erc20types.MsgRegisterCoin{Authority: a.authority(op.Str("by")),
				Metadata: fxtypes.GetCrossChainMetadataManyToOne("Token M", "TKM", 18, a.aliases()...)})
		default:
			err = w.Handle(ctx, &erc20types.MsgRegisterERC20{Authority: a.authority(op.Str("by")), Erc20Address: a.token.Hex(), Aliases: a.aliases()})
		}
	case "Toggle":
		tk := a.base
		if op.Str("k") == "token" {
			tk = noToken.Hex()
			if tokOK {
				tk = token.Hex()
			}
		}
		err = w.Handle(ctx, &erc20types.MsgToggleTokenConversion{Authority: a.authority(op.Str("by")), Token: tk})
	case "UpdateAlias":
		err = w.Handle(ctx, &erc20types.MsgUpdateDenomAlias{Authority: a.authority(op.Str("by")), Denom: a.base, Alias: a.realDenom(op.Str("k"))})
	case "ConvertCoin":
		r, _ := a.addrOf(ctx, op.Str("r"))
		err = w.Handle(ctx, &erc20types.MsgConvertCoin{Coin: sdk.NewCoin(a.base, amt(n)), Receiver: r.Hex(), Sender: a.user(op.Str("u")).AccAddress().String()})
	case "ConvertERC20":
		r, _ := a.addrOf(ctx, op.Str("r"))
		tk := noToken
		if tokOK {
			tk = token
		}
		err = w.Handle(ctx, &erc20types.MsgConvertERC20{ContractAddress: tk.Hex(), Amount: amt(n), Receiver: sdk.AccAddress(r.Bytes()).String(),
			Sender: a.user(op.Str("u")).Address().Hex()})
	case "ConvertDenom":
		u := a.user(op.Str("u")).AccAddress().String()
		src, target := a.base, chain
		if op.Str("k") == "toBase" {
			src, target = a.alias, ""
		}
		err = w.Handle(ctx, &erc20types.MsgConvertDenom{Sender: u, Receiver: u, Coin: sdk.NewCoin(src, amt(n)), Target: target})
	case "Deposit", "Withdraw", "Transfer", "Approve", "TransferFrom", "RunProgram":
		if !tokOK {
			err = fmt.Errorf("the pair's token contract does not exist yet")
			break
		}
		if (op.Name() == "Deposit" || op.Name() == "Withdraw") && !w.App.EvmKeeper.IsContract(ctx, token) {
			// the wrapper's functions sent to an address without code (a destroyed token): a message call that executes nothing
			// cannot fail; nothing was deposited or withdrawn, reported as refused (same convention as Kill)
			err = fmt.Errorf("no contract at the token's address")
			break
		}
		switch op.Name() {
		case "Deposit":
			var res *evmtypes.MsgEthereumTxResponse
			res, err = w.EthTx(ctx, a.user(op.Str("u")), &token, big1(n), gasLimit, a.pack(a.wfx, "deposit"))
			if err == nil && res.VmError != "" {
				err = fmt.Errorf("%s", res.VmError)
			}
		case "Withdraw":
			err = call(a.user(op.Str("u")), token, a.pack(a.wfx, "withdraw", big1(n)))
		case "Transfer":
			r, _ := a.addrOf(ctx, op.Str("r"))
			err = tcall(a.user(op.Str("u")), a.pack(a.fip20, "transfer", r, big1(n)))
		case "Approve":
			s, _ := a.addrOf(ctx, op.Str("r"))
			err = tcall(a.user(op.Str("u")), a.pack(a.fip20, "approve", s, big1(n)))
		case "TransferFrom":
			err = tcall(a.user("u2"), a.pack(a.fip20, "transferFrom", a.user("u1").Address(), a.user("u2").Address(), big1(n)))
		case "RunProgram":
			err = call(a.relayer, a.exe, a.program(token, steps(op)))
		}
	case "Kill":
		// kill() of the hand-assembled token, sent by its owner or by somebody else.  Convention: a message call to an address
		// without code cannot fail, so "the contract is already gone" is decided here and reported as refused.
		if !tokOK || !w.App.EvmKeeper.IsContract(ctx, token) {
			err = fmt.Errorf("there is no contract to destroy")
			break
		}
		from := a.owner
		if op.Str("by") != "owner" {
			from = a.user(op.Str("by"))
		}
		for h, v := range a.Project(ctx).(map[string]any)["tok"].(map[string]int64) {
			if h != "mod" {
				lostNow += v
			}
		}
		err = call(from, token, selKill)
	default:
		panic("unknown op " + op.Name())
	}
	if err != nil {
		if os.Getenv("VERIF_DEBUG") != "" {
			fmt.Printf("DEBUG %v -> %v\n", op, err)
		}
		return ctx, "rej"
	}
	if (op.Name() == "Transfer" && a.C.Kind == "external" && op.Str("r") == "mod") || (op.Name() == "ConvertERC20" && a.C.Kind == "fx" && op.Str("r") == "wrap") {
		a.setGift(ctx, a.gift(ctx)+n)
	}
	if op.Name() == "Kill" {
		ctx.KVStore(a.ekey).Set(lostKey, sdk.Uint64ToBigEndian(uint64(a.lost(ctx)+lostNow)))
	}
	return ctx, "ok"
}

func (a *Adapter) lost(ctx sdk.Context) int64 {
	bz := ctx.KVStore(a.ekey).Get(lostKey)
	if len(bz) == 0 {
		return 0
	}
	return int64(sdk.BigEndianToUint64(bz))
}

func (a *Adapter) gift(ctx sdk.Context) int64 {
	bz := ctx.KVStore(a.ekey).Get(giftKey)
	if len(bz) == 0 {
		return 0
	}
	return int64(sdk.BigEndianToUint64(bz))
}

func (a *Adapter) setGift(ctx sdk.Context, g int64) {
	ctx.KVStore(a.ekey).Set(giftKey, sdk.Uint64ToBigEndian(uint64(g)))
}

// program compiles the model's steps to the executor's wire format (harness/evmasm): propagate CALLs, STOP or REVERT.
func (a *Adapter) program(token common.Address, ss []step) []byte {
	p := evmasm.Program{End: evmasm.KindStop}
	for _, s := range ss {
		v := big1(s.N)
		switch s.K {
		case "tr":
			p.Steps = append(p.Steps, pcenv.Call(token, a.pack(a.fip20, "transfer", a.user("u2").Address(), v)))
		case "ap":
			p.Steps = append(p.Steps, pcenv.Call(token, a.pack(a.fip20, "approve", a.pre, v)))
		case "tf":
			p.Steps = append(p.Steps, pcenv.Call(token, a.pack(a.fip20, "transferFrom", a.user("u1").Address(), a.exe, v)))
		case "cc":
			p.Steps = append(p.Steps, pcenv.Call(a.pre, pcenv.CrossChain(token, a.dest, v, big.NewInt(0))))
		case "bc":
			p.Steps = append(p.Steps, pcenv.Call(a.pre, pcenv.BridgeCall(a.exe, []common.Address{token}, []*big.Int{v}, common.HexToAddress(a.dest))))
		case "rv":
			p.End = evmasm.KindRevert
		default:
			panic("step " + s.K)
		}
	}
	return p.Encode()
}

// Project reads: erc20 store prefixes 0x01 (pairs) 0x02 (by token) 0x03 (by denom) 0x05 (alias -> denom) raw, the bank
// metadata of the base coin, bank balances and supply, the token contract's totalSupply / balanceOf / allowance, and the
// eth module's outgoing pool (0x18) and outgoing bridge calls (0x48).
func (a *Adapter) Project(ctx sdk.Context) any {
	cctx, _ := ctx.CacheContext()
	w := a.W
	st := ctx.KVStore(a.ekey)
	pair, reg := a.mainPair(ctx)
	token, tokOK := a.tokenAddr(ctx)
	idName := func(id []byte) string {
		if len(id) == 0 {
			return "none"
		}
		if reg && bytes.Equal(id, pair.GetID()) {
			return "main"
		}
		return "?" + hex.EncodeToString(id[:4])
	}
	byDenom, aliasIdx, mdAlias := map[string]string{}, map[string]string{}, map[string]bool{}
	md, _ := w.App.BankKeeper.GetDenomMetaData(ctx, a.base)
	for _, d := range a.denoms {
		rd := a.realDenom(d)
		byDenom[d] = idName(st.Get(append(append([]byte{}, erc20types.KeyPrefixTokenPairByDenom...), []byte(rd)...)))
		switch v := string(st.Get(append(append([]byte{}, erc20types.KeyPrefixAliasDenom...), []byte(rd)...))); {
		case v == "":
			aliasIdx[d] = "none"
		case v == a.base:
			aliasIdx[d] = "b"
		case v == a.alias:
			aliasIdx[d] = "a"
		default:
			aliasIdx[d] = "?" + v
		}
		mdAlias[d] = false
		if len(md.DenomUnits) > 0 {
			for _, al := range md.DenomUnits[0].Aliases {
				if al == rd {
					mdAlias[d] = true
				}
			}
		}
	}
	byToken := "none"
	if tokOK {
		byToken = idName(st.Get(append(append([]byte{}, erc20types.KeyPrefixTokenPairByERC20...), token.Bytes()...)))
	}
	if reg && tokOK && pair.GetERC20Contract() != token {
		byToken = "?othertoken"
	}
	coin := map[string]map[string]int64{}
	csupply := map[string]int64{}
	for _, h := range a.holders {
		coin[h] = map[string]int64{}
		addr, ok := a.addrOf(ctx, h)
		for _, d := range a.denoms {
			coin[h][d] = 0
			if ok {
				bal := w.App.BankKeeper.GetBalance(ctx, addr.Bytes(), a.realDenom(d)).Amount
				if o, has := a.hoff[h+"/"+d]; has {
					bal = bal.Sub(o)
				}
				coin[h][d] = units(bal)
			}
		}
	}
	for _, d := range a.denoms {
		csupply[d] = units(w.App.BankKeeper.GetSupply(ctx, a.realDenom(d)).Amount.Sub(a.off[d]))
	}
	tok := map[string]int64{}
	allow := map[string]map[string]int64{"u1": {}, "exe": {}}
	supply := int64(0)
	live := tokOK && w.App.EvmKeeper.IsContract(ctx, token)
	query := func(method string, args ...any) int64 {
		var res struct{ Value *big.Int }
		must(w.App.EvmKeeper.QueryContract(cctx, a.evmMod, token, a.fip20, method, &res, args...))
		return units(sdkmath.NewIntFromBigInt(res.Value))
	}
	for _, h := range a.holders {
		tok[h] = 0
		if addr, ok := a.addrOf(ctx, h); ok && live {
			tok[h] = query("balanceOf", addr)
		}
	}
	for _, o := range []string{"u1", "exe"} {
		for _, s := range []string{"u2", "exe", "pre"} {
			allow[o][s] = 0
			if live {
				oa, _ := a.addrOf(ctx, o)
				sa, _ := a.addrOf(ctx, s)
				allow[o][s] = query("allowance", oa, sa)
			}
		}
	}
	if live {
		supply = query("totalSupply")
	}
	// the eth module's books
	cst := ctx.KVStore(a.ckey)
	cdc := w.App.AppCodec()
	pool, calls := sdkmath.ZeroInt(), sdkmath.ZeroInt()
	it := storetypes.KVStorePrefixIterator(cst, cctypes.OutgoingTxPoolKey)
	for ; it.Valid(); it.Next() {
		var tx cctypes.OutgoingTransferTx
		cdc.MustUnmarshal(it.Value(), &tx)
		pool = pool.Add(tx.Token.Amount).Add(tx.Fee.Amount)
	}
	it.Close()
	it = storetypes.KVStorePrefixIterator(cst, cctypes.OutgoingBridgeCallNonceKey)
	for ; it.Valid(); it.Next() {
		var oc cctypes.OutgoingBridgeCall
		cdc.MustUnmarshal(it.Value(), &oc)
		for _, t := range oc.Tokens {
			calls = calls.Add(t.Amount)
		}
	}
	it.Close()
	return map[string]any{
		"coin": coin, "csupply": csupply, "tok": tok, "supply": supply, "allow": allow, "reg": reg, "enabled": reg && pair.Enabled,
		"byDenom": byDenom, "byToken": byToken, "aliasIdx": aliasIdx, "mdAlias": mdAlias, "pool": units(pool), "calls": units(calls), "gift": a.gift(ctx),
		"dead": tokOK && !live, "lost": a.lost(ctx),
	}
}
