package erc20

import (
	"encoding/json"
	"fmt"
	"os"
	"testing"

	"verifharness/graph"
)

func TestReplay(t *testing.T) {
	var c Consts
	graph.Const(&c)
	if c.Kind == "reg" {
		a := NewReg(t, c)
		graph.RunReplay(t, a, a.W.Ctx, nil)
		return
	}
	a := New(t, c)
	graph.RunReplay(t, a, a.W.Ctx, nil)
}

func TestPath(t *testing.T) {
	var c Consts
	graph.Const(&c)
	if c.Kind == "reg" {
		a := NewReg(t, c)
		graph.RunPath(t, a, a.W.Ctx)
		return
	}
	a := New(t, c)
	graph.RunPath(t, a, a.W.Ctx)
}

// TestDevScenario (development aid, VERIF_DEV=1): runs a fixed path per kind and prints the projections.
func TestDevScenario(t *testing.T) {
	if os.Getenv("VERIF_DEV") == "" {
		t.Skip()
	}
	for _, kind := range []string{"fx", "module", "external"} {
		a := New(t, Consts{Kind: kind, HasAlias: true, InitU1: 2, InitU2: 1})
		ctx := a.W.Ctx
		show := func(tag string) {
			b, _ := json.Marshal(a.Project(ctx))
			fmt.Printf("%s %-28s %s\n", kind, tag, b)
		}
		do := func(op graph.Op) {
			var res string
			ctx, res = a.Apply(ctx, op)
			b, _ := json.Marshal(op)
			show(string(b) + " -> " + res)
		}
		show("init")
		do(graph.Op{"name": "Register", "by": "gov"})
		if kind == "external" {
			do(graph.Op{"name": "Transfer", "u": "u1", "r": "exe", "n": 2.0})
		} else {
			do(graph.Op{"name": "ConvertCoin", "u": "u1", "r": "exe", "n": 2.0})
		}
		do(graph.Op{"name": "RunProgram", "p": []any{map[string]any{"k": "ap", "n": 2.0}, map[string]any{"k": "cc", "n": 1.0}}})
		do(graph.Op{"name": "RunProgram", "p": []any{map[string]any{"k": "bc", "n": 1.0}, map[string]any{"k": "rv", "n": 0.0}}})
		do(graph.Op{"name": "RunProgram", "p": []any{map[string]any{"k": "tr", "n": 1.0}, map[string]any{"k": "bc", "n": 1.0}}})
	}
}

// TestDevToken (development aid, VERIF_DEV=1): the hand-assembled token (soft failure, kill) on a fixed path.
func TestDevToken(t *testing.T) {
	if os.Getenv("VERIF_DEV") == "" {
		t.Skip()
	}
	for _, soft := range []bool{true, false} {
		a := New(t, Consts{Kind: "external", HasAlias: true, InitU1: 2, InitU2: 1, Soft: soft, Mortal: true})
		ctx := a.W.Ctx
		show := func(tag string) {
			b, _ := json.Marshal(a.Project(ctx))
			fmt.Printf("soft=%v %-28s %s\n", soft, tag, b)
		}
		do := func(op graph.Op) {
			var res string
			ctx, res = a.Apply(ctx, op)
			b, _ := json.Marshal(op)
			show(string(b) + " -> " + res)
		}
		prog := func(ss ...any) graph.Op {
			var p []any
			for i := 0; i < len(ss); i += 2 {
				p = append(p, map[string]any{"k": ss[i], "n": ss[i+1]})
			}
			return graph.Op{"name": "RunProgram", "p": p}
		}
		show("init")
		do(graph.Op{"name": "Register", "by": "gov"})
		do(graph.Op{"name": "ConvertERC20", "u": "u1", "r": "u1", "n": 1.0})
		do(graph.Op{"name": "ConvertERC20", "u": "u2", "r": "u2", "n": 2.0})
		do(graph.Op{"name": "Transfer", "u": "u2", "r": "u1", "n": 2.0})
		do(graph.Op{"name": "Transfer", "u": "u2", "r": "exe", "n": 1.0})
		do(graph.Op{"name": "Approve", "u": "u1", "r": "u2", "n": 1.0})
		do(graph.Op{"name": "TransferFrom", "n": 2.0})
		do(graph.Op{"name": "TransferFrom", "n": 1.0})
		do(prog("tr", 2.0, "ap", 2.0))
		do(prog("ap", 2.0, "cc", 1.0))
		do(graph.Op{"name": "Kill", "by": "u1"})
		do(graph.Op{"name": "Kill", "by": "owner"})
		do(graph.Op{"name": "Kill", "by": "owner"})
		do(graph.Op{"name": "Transfer", "u": "u2", "r": "u1", "n": 1.0})
		do(prog("tr", 1.0, "ap", 2.0))
		do(prog("cc", 1.0))
		do(prog("bc", 1.0))
		do(graph.Op{"name": "ConvertDenom", "u": "u1", "n": 1.0, "k": "toAlias"})
		do(graph.Op{"name": "ConvertCoin", "u": "u1", "r": "mod", "n": 1.0})
		do(graph.Op{"name": "ConvertCoin", "u": "u1", "r": "zero", "n": 2.0})
		do(graph.Op{"name": "ConvertCoin", "u": "u1", "r": "u1", "n": 1.0})
		do(graph.Op{"name": "Register", "by": "gov"})
	}
}

