// Package confirm binds spec/Confirm.tla (C12, part 1) to the real confirm handlers of one crosschain
// module, and spec/AbiCheckpoint.tla (C12, part 2) to the real checkpoint encoders.
package confirm

import (
	"bytes"
	"crypto/ecdsa"
	"crypto/sha256"
	"encoding/hex"
	"fmt"
	"math/big"
	"os"
	"sort"
	"sync"
	"testing"

	sdkmath "cosmossdk.io/math"
	storetypes "cosmossdk.io/store/types"
	codectypes "github.com/cosmos/cosmos-sdk/codec/types"
	sdk "github.com/cosmos/cosmos-sdk/types"
	"github.com/ethereum/go-ethereum/crypto"

	"github.com/functionx/fx-core/v8/testutil/helpers"
	fxtypes "github.com/functionx/fx-core/v8/types"
	crosschainkeeper "github.com/functionx/fx-core/v8/x/crosschain/keeper"
	"github.com/functionx/fx-core/v8/x/crosschain/types"

	"verifharness/graph"
	"verifharness/world"
)

var powerUnit = sdkmath.NewInt(1).MulRaw(1e18).MulRaw(100)

const (
	prefixEth  = "\x19Ethereum Signed Message:\n32"
	prefixTron = "\x19TRON Signed Message:\n32"
)

// Classes are the abstract signature classes of Confirm.tla, in a fixed order.
var Classes = []string{"good", "other-object", "other-kind", "other-gravity-id", "other-chain", "other-prefix", "other-key",
	"malleated", "v01", "trailing-byte", "garbage"}

type Consts struct {
	Chain     string            `json:"chain"`
	Oracle    []string          `json:"Oracle"`
	Sender    []string          `json:"Sender"`    // bridger names ∪ unrelated accounts
	Ext       []string          `json:"Ext"`       // external address names ∪ unregistered
	Object    []string          `json:"Object"`    // e.g. os1 tb1 bc1 bc2
	Late      []string          `json:"Late"`      // objects created by the Create operation, the others in setup
	BridgerOf map[string]string `json:"BridgerOf"` // oracle -> sender name
	ExtOf     map[string]string `json:"ExtOf"`     // oracle -> ext name
	Verifying []string          `json:"Verifying"` // classes the independent verifier accepts (computed by TestClasses)
}

type Adapter struct {
	W        *world.W
	C        Consts
	Chain    string
	Other    string // the "other chain" module whose gravity id / prefix a transplanted signature uses
	K        crosschainkeeper.Keeper
	storeKey storetypes.StoreKey
	tok      string // FX bridge token contract on this chain
	user     *helpers.Signer
	late     map[string]bool
	verif    map[string]bool
	sigCache map[string][]byte
	accCache map[*helpers.Signer]sdk.AccAddress
	extStr   map[string]string
	oracleOf map[string]string // ext name -> oracle
}

func must(err error) {
	if err != nil {
		panic(err)
	}
}

// ---------------------------------------------------------------- naming

func kindOf(obj string) string { return obj[:2] } // "os" | "tb" | "bc"
func nonceOf(obj string) uint64 {
	var n uint64
	fmt.Sscanf(obj[2:], "%d", &n)
	return n
}

func (a *Adapter) oracleKey(o string) *helpers.Signer { return a.W.Key(a.Chain + "/c12/oracle/" + o) }
func (a *Adapter) senderKey(s string) *helpers.Signer { return a.W.Key(a.Chain + "/c12/sender/" + s) }

// acc caches bech32 account addresses (deriving one costs a scalar multiplication).
func (a *Adapter) acc(k *helpers.Signer) sdk.AccAddress {
	if v, ok := a.accCache[k]; ok {
		return v
	}
	v := k.AccAddress()
	a.accCache[k] = v
	return v
}
func (a *Adapter) oracleAcc(o string) sdk.AccAddress { return a.acc(a.oracleKey(o)) }
func (a *Adapter) senderAcc(s string) string         { return a.acc(a.senderKey(s)).String() }

type extK struct {
	key  *ecdsa.PrivateKey
	addr [20]byte
}

var (
	extMu    sync.Mutex
	extCache = map[string]extK{}
)

func extKeyOf(chain, e string) extK {
	extMu.Lock()
	defer extMu.Unlock()
	if v, ok := extCache[chain+"/"+e]; ok {
		return v
	}
	h := sha256.Sum256([]byte("verif-extkey/" + chain + "/" + e))
	k, err := crypto.ToECDSA(h[:])
	must(err)
	pub := crypto.FromECDSAPub(&k.PublicKey) // 0x04 ‖ X ‖ Y
	v := extK{key: k}
	copy(v.addr[:], keccak(pub[1:])[12:])
	extCache[chain+"/"+e] = v
	return v
}

// extKey is the external secp256k1 key behind an external address name (held by the harness only).
func extKey(chain, e string) *ecdsa.PrivateKey { return extKeyOf(chain, e).key }

// extAddr20 is the 20-byte address of that key: keccak256(X ‖ Y)[12:].
func extAddr20(chain, e string) [20]byte { return extKeyOf(chain, e).addr }

func (a *Adapter) addrStr(b [20]byte) string { return types.ExternalAddrToStr(a.Chain, b[:]) }
func (a *Adapter) extAddr(e string) string {
	if v, ok := a.extStr[e]; ok {
		return v
	}
	v := a.addrStr(extAddr20(a.Chain, e))
	a.extStr[e] = v
	return v
}
func (a *Adapter) prefix() string {
	if a.Chain == "tron" {
		return prefixTron
	}
	return prefixEth
}

func keeperOf(w *world.W, chain string) crosschainkeeper.Keeper {
	switch chain {
	case "eth":
		return w.App.EthKeeper
	case "bsc":
		return w.App.BscKeeper
	case "polygon":
		return w.App.PolygonKeeper
	case "avalanche":
		return w.App.AvalancheKeeper
	case "arbitrum":
		return w.App.ArbitrumKeeper
	case "optimism":
		return w.App.OptimismKeeper
	case "layer2":
		return w.App.Layer2Keeper
	case "tron":
		return w.App.TronKeeper
	}
	panic("unknown chain " + chain)
}

// ---------------------------------------------------------------- world

// New builds Confirm.tla's Init: both oracles bonded (external address = address of a key the harness
// holds), the FX bridge token registered by an observed MsgBridgeTokenClaim, and every object that is not
// in Late created through the real entry points.
func New(t *testing.T, c Consts) *Adapter {
	w := world.New(t, 2)
	a := &Adapter{W: w, C: c, Chain: c.Chain, K: keeperOf(w, c.Chain), late: map[string]bool{}, verif: map[string]bool{},
		sigCache: map[string][]byte{}, oracleOf: map[string]string{}, accCache: map[*helpers.Signer]sdk.AccAddress{}, extStr: map[string]string{}}
	a.Other = "bsc"
	if c.Chain == "bsc" {
		a.Other = "eth"
	}
	a.storeKey = w.App.GetKey(c.Chain)
	for _, o := range c.Late {
		a.late[o] = true
	}
	for _, v := range c.Verifying {
		a.verif[v] = true
	}
	for o, e := range c.ExtOf {
		a.oracleOf[e] = o
	}
	ctx := w.Ctx
	p := a.K.GetParams(ctx)
	p.DelegateThreshold = types.NewDelegateAmount(powerUnit)
	p.DelegateMultiple = 1000
	must(w.Handle(ctx, &types.MsgUpdateParams{ChainName: a.Chain, Authority: world.GovAddr(), Params: p}))
	var all []string
	for _, o := range c.Oracle {
		k := a.oracleKey(o)
		w.Fund(ctx, k.AccAddress(), 10_000_000)
		all = append(all, k.AccAddress().String())
	}
	for _, s := range c.Sender {
		w.Fund(ctx, a.senderKey(s).AccAddress(), 1000)
	}
	must(w.Handle(ctx, &types.MsgUpdateChainOracles{ChainName: a.Chain, Authority: world.GovAddr(), Oracles: all}))
	a.user = w.Key(a.Chain + "/c12/user")
	w.Fund(ctx, a.user.AccAddress(), 100_000)

	wantOS2 := false
	for _, o := range c.Object {
		if o == "os2" {
			wantOS2 = true
		}
	}
	bond := func(o string) {
		must(w.Handle(ctx, &types.MsgBondedOracle{
			ChainName: a.Chain, OracleAddress: a.oracleAcc(o).String(),
			BridgerAddress:  a.senderAcc(c.BridgerOf[o]),
			ExternalAddress: a.extAddr(c.ExtOf[o]), ValidatorAddress: w.ValAddr[0].String(),
			DelegateAmount: types.NewDelegateAmount(powerUnit.MulRaw(10)),
		}))
	}
	endBlock := func() {
		if _, err := w.App.EndBlocker(ctx); err != nil {
			panic(err)
		}
		ctx = ctx.WithBlockHeight(ctx.BlockHeight() + 1)
	}
	oracles := append([]string{}, c.Oracle...)
	sort.Strings(oracles)
	if wantOS2 {
		// oracle set 1 = {o1}, oracle set 2 = {o1,o2}: both created by the real EndBlocker
		bond(oracles[0])
		endBlock()
		for _, o := range oracles[1:] {
			bond(o)
		}
		endBlock()
	} else {
		for _, o := range oracles {
			bond(o)
		}
		endBlock()
	}
	// FX bridge token: observed MsgBridgeTokenClaim (event nonce 1) voted by every oracle's bridger
	a.tok = a.addrStr(extAddr20(a.Chain, "token/FX"))
	for _, o := range oracles {
		claim := &types.MsgBridgeTokenClaim{ChainName: a.Chain, BridgerAddress: a.senderAcc(c.BridgerOf[o]),
			EventNonce: 1, BlockHeight: 1000, TokenContract: a.tok, Name: "Function X", Symbol: fxtypes.DefaultDenom, Decimals: 18}
		any, err := codectypes.NewAnyWithValue(claim)
		must(err)
		must(w.Handle(ctx, &types.MsgClaim{ChainName: a.Chain, BridgerAddress: claim.BridgerAddress, Claim: any}))
	}
	if _, found := a.K.GetBridgeDenomByContract(ctx, a.tok); !found {
		panic("bridge token claim was not observed")
	}
	w.Ctx = ctx
	for _, o := range c.Object {
		if !a.late[o] && kindOf(o) != "os" {
			if err := a.create(ctx, o); err != nil {
				panic(fmt.Sprintf("setup create %s: %v", o, err))
			}
		}
	}
	for _, o := range c.Object {
		if !a.late[o] && a.loadObject(ctx, o) == nil {
			panic("setup: object " + o + " not stored")
		}
	}
	return a
}

// create makes the batch / bridge call with the next nonce through the real messages.
func (a *Adapter) create(ctx sdk.Context, obj string) error {
	w := a.W
	n := nonceOf(obj)
	one := sdkmath.NewInt(1e9)
	switch kindOf(obj) {
	case "tb":
		// n transfers (so that the two batches differ in length), then a batch request by a bridger
		for i := uint64(0); i < n; i++ {
			dest := a.addrStr(extAddr20(a.Chain, fmt.Sprintf("dest/%d/%d", n, i)))
			if err := w.Handle(ctx, &types.MsgSendToExternal{ChainName: a.Chain, Sender: a.acc(a.user).String(), Dest: dest,
				Amount: sdk.NewCoin(fxtypes.DefaultDenom, one.MulRaw(int64(10*n+i+1))), BridgeFee: sdk.NewCoin(fxtypes.DefaultDenom, one.MulRaw(int64(n)))}); err != nil {
				return err
			}
		}
		// requested by an oracle account (a batch request must come from a bridger or an oracle; bridgers are replaced
		// by EditBridger, the oracle accounts are not)
		if err := w.Handle(ctx, &types.MsgRequestBatch{ChainName: a.Chain, Sender: a.oracleAcc(a.C.Oracle[0]).String(), Denom: fxtypes.DefaultDenom,
			MinimumFee: sdkmath.NewInt(1), FeeReceive: a.addrStr(extAddr20(a.Chain, "feeReceive")), BaseFee: sdkmath.ZeroInt()}); err != nil {
			return err
		}
	case "bc":
		to := a.addrStr(extAddr20(a.Chain, "callTo"))
		data := bytes.Repeat([]byte{0xd0 + byte(n)}, int(31+n)) // 32 and 33 bytes: straddles the word boundary
		memo := bytes.Repeat([]byte{0xe0 + byte(n)}, int(n))
		if err := w.Handle(ctx, &types.MsgBridgeCall{ChainName: a.Chain, Sender: a.acc(a.user).String(), Refund: a.acc(a.user).String(),
			Coins: sdk.NewCoins(sdk.NewCoin(fxtypes.DefaultDenom, one.MulRaw(int64(n)))), To: to, Data: hex.EncodeToString(data),
			Value: sdkmath.ZeroInt(), Memo: hex.EncodeToString(memo)}); err != nil {
			return err
		}
	default:
		return fmt.Errorf("cannot create %s by operation", obj)
	}
	if a.loadObject(ctx, obj) == nil {
		return fmt.Errorf("object %s not stored after its creation messages", obj)
	}
	return nil
}

// ---------------------------------------------------------------- raw store access

func (a *Adapter) objectKey(obj string) []byte {
	n := nonceOf(obj)
	switch kindOf(obj) {
	case "os":
		return append([]byte{0x15}, sdk.Uint64ToBigEndian(n)...)
	case "tb":
		return append(append([]byte{0x20}, []byte(a.tok)...), sdk.Uint64ToBigEndian(n)...)
	case "bc":
		return append([]byte{0x48}, sdk.Uint64ToBigEndian(n)...)
	}
	panic("kind of " + obj)
}

// object is a stored object decoded from its raw store value, as plain values for the own encoder.
type object struct {
	kind string
	os   *types.OracleSet
	tb   *types.OutgoingTxBatch
	bc   *types.OutgoingBridgeCall
}

func (a *Adapter) loadObject(ctx sdk.Context, obj string) *object {
	bz := ctx.KVStore(a.storeKey).Get(a.objectKey(obj))
	if bz == nil {
		return nil
	}
	cdc := a.W.App.AppCodec()
	o := &object{kind: kindOf(obj)}
	switch o.kind {
	case "os":
		o.os = new(types.OracleSet)
		cdc.MustUnmarshal(bz, o.os)
	case "tb":
		o.tb = new(types.OutgoingTxBatch)
		cdc.MustUnmarshal(bz, o.tb)
	case "bc":
		o.bc = new(types.OutgoingBridgeCall)
		cdc.MustUnmarshal(bz, o.bc)
	}
	return o
}

func (o *object) withNonce(n uint64) *object {
	c := &object{kind: o.kind}
	switch o.kind {
	case "os":
		x := *o.os
		x.Nonce = n
		c.os = &x
	case "tb":
		x := *o.tb
		x.BatchNonce = n
		c.tb = &x
	case "bc":
		x := *o.bc
		x.Nonce = n
		c.bc = &x
	}
	return c
}

// gravityID reads Params.GravityId raw (store key 0x40).
func gravityIDRaw(ctx sdk.Context, w *world.W, chain string) string {
	bz := ctx.KVStore(w.App.GetKey(chain)).Get([]byte{0x40})
	var p types.Params
	w.App.AppCodec().MustUnmarshal(bz, &p)
	return p.GravityId
}

// ownCheckpoint recomputes the digest with the harness's own ABI encoder (abienc.go).
func ownCheckpoint(chain, gravityID string, o *object) ([]byte, error) {
	pa := func(s string) ([20]byte, error) { return parseAddr(chain, s) }
	u := func(v uint64) *big.Int { return new(big.Int).SetUint64(v) }
	switch o.kind {
	case "os":
		var ms []memberV
		for _, m := range o.os.Members {
			ad, err := pa(m.ExternalAddress)
			if err != nil {
				return nil, err
			}
			ms = append(ms, memberV{ad, u(m.Power)})
		}
		return digestOracleSet(gravityID, u(o.os.Nonce), ms), nil
	case "tb":
		var txs []transferV
		for _, t := range o.tb.Transactions {
			d, err := pa(t.DestAddress)
			if err != nil {
				return nil, err
			}
			txs = append(txs, transferV{t.Token.Amount.BigInt(), d, t.Fee.Amount.BigInt()})
		}
		tok, err := pa(o.tb.TokenContract)
		if err != nil {
			return nil, err
		}
		fr, err := pa(o.tb.FeeReceive)
		if err != nil {
			return nil, err
		}
		return digestBatch(gravityID, txs, u(o.tb.BatchNonce), tok, u(o.tb.BatchTimeout), fr), nil
	case "bc":
		var toks []tokenV
		for _, t := range o.bc.Tokens {
			c, err := pa(t.Contract)
			if err != nil {
				return nil, err
			}
			toks = append(toks, tokenV{c, t.Amount.BigInt()})
		}
		s, err := pa(o.bc.Sender)
		if err != nil {
			return nil, err
		}
		r, err := pa(o.bc.Refund)
		if err != nil {
			return nil, err
		}
		to, err := pa(o.bc.To)
		if err != nil {
			return nil, err
		}
		data, err := hex.DecodeString(o.bc.Data)
		if err != nil {
			return nil, err
		}
		memo, err := hex.DecodeString(o.bc.Memo)
		if err != nil {
			return nil, err
		}
		return digestBridgeCall(gravityID, s, r, toks, to, data, memo, u(o.bc.Nonce), u(o.bc.Timeout), u(o.bc.EventNonce)), nil
	}
	return nil, fmt.Errorf("kind")
}

// ---------------------------------------------------------------- signatures

// verifyIndependent is what FxBridgeLogic.verifySig does, on a 65-byte r‖s‖v signature: the signer
// recovered (ecrecover) over keccak256(prefix ‖ checkpoint) must be the expected address.  v is taken in
// either convention (27/28 as the contract receives it, 0/1 as go-ethereum's crypto.Sign produces it and
// fx-core stores it); anything that is not exactly 65 bytes is not a signature.
func verifyIndependent(prefix string, checkpoint, sig []byte, want [20]byte) bool {
	// a pure function of its arguments: memoised (graph replay asks the same question many times)
	ck := prefix + "|" + string(checkpoint) + "|" + string(sig) + "|" + string(want[:])
	verMu.Lock()
	v, ok := verCache[ck]
	verMu.Unlock()
	if ok {
		return v
	}
	v = verifyUncached(prefix, checkpoint, sig, want)
	verMu.Lock()
	verCache[ck] = v
	verMu.Unlock()
	return v
}

var (
	verMu    sync.Mutex
	verCache = map[string]bool{}
)

func verifyUncached(prefix string, checkpoint, sig []byte, want [20]byte) bool {
	if len(sig) != 65 {
		return false
	}
	s := append([]byte{}, sig...)
	if s[64] == 27 || s[64] == 28 {
		s[64] -= 27
	}
	if s[64] > 1 {
		return false
	}
	pub, err := crypto.Ecrecover(keccak([]byte(prefix), checkpoint), s)
	if err != nil || len(pub) != 65 {
		return false
	}
	var got [20]byte
	copy(got[:], keccak(pub[1:])[12:])
	return got == want
}

func sign(prefix string, checkpoint []byte, k *ecdsa.PrivateKey) []byte {
	sig, err := crypto.Sign(keccak([]byte(prefix), checkpoint), k)
	must(err)
	sig[64] += 27
	return sig
}

var secpN, _ = new(big.Int).SetString("fffffffffffffffffffffffffffffffebaaedce6af48a03bbfd25e8cd0364141", 16)

// realise turns an abstract signature class into signature bytes for Confirm(ext, obj).
// o is the stored object (nil if obj is not stored: then nothing can verify and a digest of the name is signed).
func (a *Adapter) realise(ctx sdk.Context, class, ext, obj string, o *object) []byte {
	gid := gravityIDRaw(ctx, a.W, a.Chain)
	var base []byte
	if o == nil {
		base = keccak([]byte("absent/" + obj))
	} else {
		var err error
		base, err = ownCheckpoint(a.Chain, gid, o)
		must(err)
	}
	ck := fmt.Sprintf("%s|%s|%x", class, ext, base)
	if s, ok := a.sigCache[ck]; ok {
		return s
	}
	key := extKey(a.Chain, ext)
	pfx := a.prefix()
	cp := base
	other := func(f func() ([]byte, error)) {
		if o != nil {
			var err error
			cp, err = f()
			must(err)
		} else {
			cp = keccak([]byte(class), base)
		}
	}
	var sig []byte
	switch class {
	case "good", "malleated", "v01", "trailing-byte":
	case "other-object": // same kind and content, the other nonce
		other(func() ([]byte, error) { return ownCheckpoint(a.Chain, gid, o.withNonce(3-nonceOf(obj))) })
	case "other-kind": // a stored object of another kind carrying the same nonce
		other(func() ([]byte, error) {
			order := map[string][]string{"os": {"tb", "bc"}, "tb": {"bc", "os"}, "bc": {"os", "tb"}}[kindOf(obj)]
			for _, k := range order {
				for _, cand := range []string{k + "1", k + "2"} {
					if x := a.loadObject(ctx, cand); x != nil {
						return ownCheckpoint(a.Chain, gid, x.withNonce(nonceOf(obj)))
					}
				}
			}
			return nil, fmt.Errorf("no stored object of another kind")
		})
	case "other-gravity-id":
		other(func() ([]byte, error) { return ownCheckpoint(a.Chain, gid+"2", o) })
	case "other-chain": // what the other module computes for the same object: its gravity id
		other(func() ([]byte, error) { return ownCheckpoint(a.Chain, gravityIDRaw(ctx, a.W, a.Other), o) })
	case "other-prefix": // the other chain family's signed-message prefix over the right checkpoint
		if a.Chain == "tron" {
			pfx = prefixEth
		} else {
			pfx = prefixTron
		}
	case "other-key":
		k2 := a.C.ExtOf[a.C.Oracle[0]]
		if k2 == ext {
			k2 = a.C.ExtOf[a.C.Oracle[1]]
		}
		key = extKey(a.Chain, k2)
	case "garbage":
		h1, h2 := sha256.Sum256([]byte("garbage1"+ck)), sha256.Sum256([]byte("garbage2"+ck))
		sig = append(append(h1[:], h2[:]...), 27)
	default:
		panic("class " + class)
	}
	if sig == nil {
		sig = sign(pfx, cp, key)
	}
	switch class {
	case "malleated": // (r, n-s, flipped v)
		s := new(big.Int).SetBytes(sig[32:64])
		s.Sub(secpN, s)
		s.FillBytes(sig[32:64])
		sig[64] = 27 + (1 - (sig[64] - 27))
	case "v01":
		sig[64] -= 27
	case "trailing-byte":
		sig = append(sig, 0)
	}
	a.sigCache[ck] = sig
	return sig
}

// ---------------------------------------------------------------- operations

func (a *Adapter) Apply(ctx sdk.Context, op graph.Op) (sdk.Context, string) {
	w := a.W
	var err error
	switch op.Name() {
	case "Create":
		if a.loadObject(ctx, op.Str("obj")) != nil {
			return ctx, "rej"
		}
		// a block boundary first (one batch request per block): the application's real EndBlocker, next height
		if _, e := w.App.EndBlocker(ctx); e != nil {
			panic(e)
		}
		ctx = ctx.WithBlockHeight(ctx.BlockHeight() + 1)
		err = world.Atomic(ctx, func(c sdk.Context) error { return a.create(c, op.Str("obj")) })
	case "Confirm":
		sender, ext, obj, class, form, ws := op.Str("sender"), op.Str("ext"), op.Str("obj"), op.Str("sig"), op.Str("form"), op.Str("wsender")
		o := a.loadObject(ctx, obj)
		sig := a.realise(ctx, class, ext, obj, o)
		if o != nil {
			// the model's constant Verifying must be what the independent verifier says about this very signature
			cp, e := ownCheckpoint(a.Chain, gravityIDRaw(ctx, w, a.Chain), o)
			must(e)
			if v := verifyIndependent(a.prefix(), cp, sig, extAddr20(a.Chain, ext)); v != a.verif[class] {
				panic(fmt.Sprintf("class %s: independent verification says %v, constant Verifying says %v", class, v, a.verif[class]))
			}
		}
		bridger := a.senderAcc(sender)
		sigHex := hex.EncodeToString(sig)
		var inner sdk.Msg
		switch kindOf(obj) {
		case "os":
			inner = &types.MsgOracleSetConfirm{Nonce: nonceOf(obj), BridgerAddress: bridger, ExternalAddress: a.extAddr(ext), Signature: sigHex, ChainName: a.Chain}
		case "tb":
			inner = &types.MsgConfirmBatch{Nonce: nonceOf(obj), TokenContract: a.tok, BridgerAddress: bridger, ExternalAddress: a.extAddr(ext), Signature: sigHex, ChainName: a.Chain}
		case "bc":
			inner = &types.MsgBridgeCallConfirm{Nonce: nonceOf(obj), BridgerAddress: bridger, ExternalAddress: a.extAddr(ext), Signature: sigHex, ChainName: a.Chain}
		}
		msg, signer := inner, sender
		if form == "wrapped" {
			any, e := codectypes.NewAnyWithValue(inner)
			must(e)
			msg, signer = &types.MsgConfirm{ChainName: a.Chain, BridgerAddress: a.senderAcc(ws), Confirm: any}, ws
		}
		// the signer the application's signing context requires for this very message is the model's signer
		signers, _, e := w.App.AppCodec().GetMsgV1Signers(msg)
		must(e)
		if len(signers) != 1 || !sdk.AccAddress(signers[0]).Equals(a.acc(a.senderKey(signer))) {
			panic(fmt.Sprintf("signing context: required signers %x, model signer %s", signers, signer))
		}
		err = w.Handle(ctx, msg)
	case "EditBridger":
		// MsgEditBridger.ValidateBasic parses the bridger as a validator address, so the message cannot pass the
		// router on this tree; the handler is driven directly (atomically), as the repository's own tests do.
		// Its signer, per the application's signing context, is the oracle.
		o, s := op.Str("oracle"), op.Str("sender")
		msg := &types.MsgEditBridger{ChainName: a.Chain, OracleAddress: a.oracleAcc(o).String(), BridgerAddress: a.senderAcc(s)}
		signers, _, e := w.App.AppCodec().GetMsgV1Signers(msg)
		must(e)
		if len(signers) != 1 || !sdk.AccAddress(signers[0]).Equals(a.oracleAcc(o)) {
			panic(fmt.Sprintf("signing context: required signers %x, model signer oracle %s", signers, o))
		}
		err = world.Atomic(ctx, func(c sdk.Context) error {
			_, e := crosschainkeeper.NewMsgServerImpl(a.K).EditBridger(c, msg)
			return e
		})
	default:
		panic("unknown op " + op.Name())
	}
	if err != nil {
		if os.Getenv("VERIF_DEBUG") != "" {
			fmt.Printf("DEBUG %v -> %v\n", op, err)
		}
		return ctx, "rej"
	}
	return ctx, "ok"
}

// ---------------------------------------------------------------- projection

// Project reads prefixes 0x12 (oracles) 0x14 (bridger index) 0x15 0x20 0x48 (objects) 0x16 0x22 0x45 (confirmations) 0x40 (params) raw.
func (a *Adapter) Project(ctx sdk.Context) any {
	st := ctx.KVStore(a.storeKey)
	cdc := a.W.App.AppCodec()
	gid := gravityIDRaw(ctx, a.W, a.Chain)
	senderName, extName := map[string]string{}, map[string]string{}
	for _, s := range a.C.Sender {
		senderName[a.senderAcc(s)] = s
	}
	for _, e := range a.C.Ext {
		extName[a.extAddr(e)] = e
	}
	bridgerOf, extOf := map[string]string{}, map[string]string{}
	regExt := map[string]string{} // oracle -> registered external address string
	for _, o := range a.C.Oracle {
		bridgerOf[o], extOf[o] = "none", "none"
		if bz := st.Get(types.GetOracleKey(a.oracleAcc(o))); bz != nil {
			var or types.Oracle
			cdc.MustUnmarshal(bz, &or)
			regExt[o] = or.ExternalAddress
			if n, ok := senderName[or.BridgerAddress]; ok {
				bridgerOf[o] = n
			} else {
				bridgerOf[o] = "?" + or.BridgerAddress
			}
			if n, ok := extName[or.ExternalAddress]; ok {
				extOf[o] = n
			} else {
				extOf[o] = "?" + or.ExternalAddress
			}
		}
	}
	// bridger index (0x14 ‖ account -> oracle account), read raw for every account of the model
	oracleName := map[string]string{}
	for _, o := range a.C.Oracle {
		oracleName[string(a.oracleAcc(o))] = o
	}
	bridgerIdx := map[string]string{}
	for _, s := range a.C.Sender {
		bridgerIdx[s] = "none"
		if bz := st.Get(append([]byte{0x14}, a.acc(a.senderKey(s))...)); bz != nil {
			if n, ok := oracleName[string(bz)]; ok {
				bridgerIdx[s] = n
			} else {
				bridgerIdx[s] = "?" + hex.EncodeToString(bz)
			}
		}
	}
	stored := map[string]bool{}
	confirms := map[string]map[string]string{}
	valid := map[string]map[string]bool{}
	canonical := map[string]bool{}
	for _, obj := range a.C.Object {
		o := a.loadObject(ctx, obj)
		stored[obj] = o != nil
		confirms[obj], valid[obj] = map[string]string{}, map[string]bool{}
		for _, or := range a.C.Oracle {
			confirms[obj][or], valid[obj][or] = "none", true
			oaddr := a.oracleAcc(or)
			var key []byte
			n := sdk.Uint64ToBigEndian(nonceOf(obj))
			switch kindOf(obj) {
			case "os":
				key = append(append([]byte{0x16}, n...), oaddr...)
			case "tb":
				key = append(append(append([]byte{0x22}, []byte(a.tok)...), n...), oaddr...)
			case "bc":
				key = append(append([]byte{0x45}, n...), oaddr...)
			}
			canonical[string(key)] = true
			bz := st.Get(key)
			if bz == nil {
				continue
			}
			var sigHex, cExt string
			var cNonce uint64
			cTok := a.tok
			switch kindOf(obj) {
			case "os":
				var m types.MsgOracleSetConfirm
				cdc.MustUnmarshal(bz, &m)
				sigHex, cExt, cNonce = m.Signature, m.ExternalAddress, m.Nonce
			case "tb":
				var m types.MsgConfirmBatch
				cdc.MustUnmarshal(bz, &m)
				sigHex, cExt, cNonce, cTok = m.Signature, m.ExternalAddress, m.Nonce, m.TokenContract
			case "bc":
				var m types.MsgBridgeCallConfirm
				cdc.MustUnmarshal(bz, &m)
				sigHex, cExt, cNonce = m.Signature, m.ExternalAddress, m.Nonce
			}
			sig, err := hex.DecodeString(sigHex)
			// which class of signature is stored (by bytes)
			cls := "?" + sigHex
			if len(cls) > 24 {
				cls = cls[:24]
			}
			if e, ok := extName[regExt[or]]; ok && err == nil {
				for _, c := range Classes {
					if bytes.Equal(a.realise(ctx, c, e, obj, o), sig) {
						cls = c
						break
					}
				}
			}
			confirms[obj][or] = cls
			// valid: names this object, this oracle's registered external address, and the signature recovers to
			// that address over the checkpoint recomputed with the own encoder from the raw stored object
			v := err == nil && o != nil && cNonce == nonceOf(obj) && cTok == a.tok && cExt == regExt[or] && regExt[or] != ""
			if v {
				want, e1 := parseAddr(a.Chain, regExt[or])
				cp, e2 := ownCheckpoint(a.Chain, gid, o)
				v = e1 == nil && e2 == nil && verifyIndependent(a.prefix(), cp, sig, want)
			}
			valid[obj][or] = v
		}
	}
	// every other entry under the three confirmation prefixes is a stray confirmation
	stray := 0
	for _, p := range [][]byte{{0x16}, {0x22}, {0x45}} {
		it := storetypes.KVStorePrefixIterator(st, p)
		for ; it.Valid(); it.Next() {
			if !canonical[string(it.Key())] {
				stray++
			}
		}
		it.Close()
	}
	return map[string]any{"stored": stored, "bridgerOf": bridgerOf, "bridgerIdx": bridgerIdx, "extOf": extOf, "confirms": confirms, "valid": valid, "stray": stray}
}

// ---------------------------------------------------------------- real-state oracle after every edge

func (a *Adapter) moduleDump(ctx sdk.Context) map[string]string {
	out := map[string]string{}
	it := ctx.KVStore(a.storeKey).Iterator(nil, nil)
	for ; it.Valid(); it.Next() {
		out[string(it.Key())] = string(it.Value())
	}
	it.Close()
	return out
}

// AfterEdge: a rejected Confirm leaves the module's complete store byte-identical; an accepted Confirm adds
// exactly one entry, under one of the three confirmation prefixes, and changes or deletes nothing.
func (a *Adapter) AfterEdge(post, pre sdk.Context, op graph.Op, res string) error {
	if op.Name() == "EditBridger" {
		return a.afterEdit(post, pre, res)
	}
	if op.Name() != "Confirm" {
		return nil
	}
	before, after := a.moduleDump(pre), a.moduleDump(post)
	added := 0
	for k, v := range after {
		old, had := before[k]
		switch {
		case !had:
			added++
			if res != "ok" || !(k[0] == 0x16 || k[0] == 0x22 || k[0] == 0x45) {
				return fmt.Errorf("%s Confirm wrote key %x", res, k)
			}
		case old != v:
			return fmt.Errorf("%s Confirm changed the value of key %x", res, k)
		}
	}
	for k := range before {
		if _, ok := after[k]; !ok {
			return fmt.Errorf("%s Confirm deleted key %x", res, k)
		}
	}
	if res == "ok" && added != 1 {
		return fmt.Errorf("accepted Confirm added %d entries", added)
	}
	return nil
}

// afterEdit: a rejected EditBridger leaves the module's complete store byte-identical; an accepted one touches
// only oracle records (0x12) and the bridger index (0x14), in particular no confirmation and no object.
func (a *Adapter) afterEdit(post, pre sdk.Context, res string) error {
	before, after := a.moduleDump(pre), a.moduleDump(post)
	bad := func(k string) bool { return res != "ok" || !(k[0] == 0x12 || k[0] == 0x14) }
	for k, v := range after {
		if old, had := before[k]; (!had || old != v) && bad(k) {
			return fmt.Errorf("%s EditBridger wrote key %x", res, k)
		}
	}
	for k := range before {
		if _, ok := after[k]; !ok && bad(k) {
			return fmt.Errorf("%s EditBridger deleted key %x", res, k)
		}
	}
	return nil
}
