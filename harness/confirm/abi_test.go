package confirm

import (
	"bufio"
	"bytes"
	"crypto/sha256"
	"encoding/hex"
	"encoding/json"
	"fmt"
	"math/big"
	"os"
	"strings"
	"testing"

	sdkmath "cosmossdk.io/math"

	"github.com/functionx/fx-core/v8/x/crosschain/types"
	trontypes "github.com/functionx/fx-core/v8/x/tron/types"
)

// ---- rendering of AbiCheckpoint.tla's words to bytes

type word struct {
	T   string          `json:"t"`
	V   json.RawMessage `json:"v"`
	ID  string          `json:"id"`
	Off int             `json:"off"`
	N   int             `json:"n"`
}

func tagAddr(tag string) [20]byte {
	var a [20]byte
	switch tag {
	case "A0":
	case "AF":
		for i := range a {
			a[i] = 0xff
		}
	case "AL": // leading zero bytes
		a[19] = 1
	default:
		h := sha256.Sum256([]byte("verif-abi-addr/" + tag))
		copy(a[:], h[:20])
	}
	return a
}

// byteString is the concrete content of the symbolic byte string (id, length): no zero bytes, so that
// padding and content cannot be confused.
func byteString(id string, n int) []byte {
	out := make([]byte, n)
	for i := range out {
		out[i] = byte(1 + (i*7+n+len(id)*13+int(id[0]))%255)
	}
	return out
}

func dec(s string) *big.Int {
	v, ok := new(big.Int).SetString(s, 10)
	if !ok {
		panic("decimal: " + s)
	}
	return v
}

func render(ws []word, lens map[string]int) []byte {
	var out []byte
	for _, w := range ws {
		b := make([]byte, 32)
		switch w.T {
		case "num":
			var s string
			must(json.Unmarshal(w.V, &s))
			dec(s).FillBytes(b)
		case "int":
			var n int64
			must(json.Unmarshal(w.V, &n))
			big.NewInt(n).FillBytes(b)
		case "addr":
			var s string
			must(json.Unmarshal(w.V, &s))
			a := tagAddr(s)
			copy(b[12:], a[:])
		case "str":
			var s string
			must(json.Unmarshal(w.V, &s))
			if len(s) > 32 {
				panic("str word too long")
			}
			copy(b, s)
		case "hex":
			var s string
			must(json.Unmarshal(w.V, &s))
			h, err := hex.DecodeString(s)
			must(err)
			if len(h) != 32 {
				panic("hex word is not 32 bytes")
			}
			copy(b, h)
		case "chunk":
			full := byteString(w.ID, lens[w.ID])
			copy(b, full[w.Off:w.Off+w.N])
		default:
			panic("word type " + w.T)
		}
		out = append(out, b...)
	}
	return out
}

// ---- the objects of the family

type abiLine struct {
	Kind  string          `json:"kind"`
	Gid   string          `json:"gid"`
	Obj   json.RawMessage `json:"obj"`
	Words []word          `json:"words"`
}

type osObj struct {
	Nonce   string `json:"nonce"`
	Members []struct {
		Addr  string `json:"addr"`
		Power string `json:"power"`
	} `json:"members"`
}
type tbObj struct {
	Txs []struct {
		Amount string `json:"amount"`
		Dest   string `json:"dest"`
		Fee    string `json:"fee"`
	} `json:"txs"`
	Nonce      string `json:"nonce"`
	Token      string `json:"token"`
	Timeout    string `json:"timeout"`
	FeeReceive string `json:"feeReceive"`
}
type bcObj struct {
	Sender string `json:"sender"`
	Refund string `json:"refund"`
	To     string `json:"to"`
	Tokens []struct {
		Contract string `json:"contract"`
		Amount   string `json:"amount"`
	} `json:"tokens"`
	DataLen    int    `json:"dataLen"`
	MemoLen    int    `json:"memoLen"`
	Nonce      string `json:"nonce"`
	Timeout    string `json:"timeout"`
	EventNonce string `json:"eventNonce"`
}

var two63 = new(big.Int).Lsh(big.NewInt(1), 63)

func u64of(s string, big63 *bool) uint64 {
	v := dec(s)
	if !v.IsUint64() {
		panic("not a uint64: " + s)
	}
	if v.Cmp(two63) >= 0 {
		*big63 = true
	}
	return v.Uint64()
}

func addrFor(chain, tag string) string {
	a := tagAddr(tag)
	return types.ExternalAddrToStr(chain, a[:])
}

// digests returns (fx-core Ethereum encoder, fx-core Tron encoder, harness own encoder) for one line;
// big63 reports whether a uint64 field of the object is >= 2^63.
func digests(l abiLine) (eth, tron, own []byte, ethErr, tronErr error, big63 bool) {
	ad := func(chain, tag string) string { return addrFor(chain, tag) }
	switch l.Kind {
	case "os":
		var o osObj
		must(json.Unmarshal(l.Obj, &o))
		mk := func(chain string) *types.OracleSet {
			s := &types.OracleSet{Nonce: u64of(o.Nonce, &big63)}
			for _, m := range o.Members {
				s.Members = append(s.Members, types.BridgeValidator{Power: u64of(m.Power, &big63), ExternalAddress: ad(chain, m.Addr)})
			}
			return s
		}
		eth, ethErr = mk("eth").GetCheckpoint(l.Gid)
		tron, tronErr = trontypes.GetCheckpointOracleSet(mk("tron"), l.Gid)
		var ms []memberV
		for _, m := range o.Members {
			ms = append(ms, memberV{tagAddr(m.Addr), dec(m.Power)})
		}
		own = digestOracleSet(l.Gid, dec(o.Nonce), ms)
	case "tb":
		var o tbObj
		must(json.Unmarshal(l.Obj, &o))
		mk := func(chain string) *types.OutgoingTxBatch {
			b := &types.OutgoingTxBatch{BatchNonce: u64of(o.Nonce, &big63), BatchTimeout: u64of(o.Timeout, &big63),
				TokenContract: ad(chain, o.Token), FeeReceive: ad(chain, o.FeeReceive)}
			for i, t := range o.Txs {
				b.Transactions = append(b.Transactions, &types.OutgoingTransferTx{Id: uint64(i + 1), Sender: "", DestAddress: ad(chain, t.Dest),
					Token: types.NewERC20Token(sdkmath.NewIntFromBigInt(dec(t.Amount)), b.TokenContract),
					Fee:   types.NewERC20Token(sdkmath.NewIntFromBigInt(dec(t.Fee)), b.TokenContract)})
			}
			return b
		}
		eth, ethErr = mk("eth").GetCheckpoint(l.Gid)
		tron, tronErr = trontypes.GetCheckpointConfirmBatch(mk("tron"), l.Gid)
		var txs []transferV
		for _, t := range o.Txs {
			txs = append(txs, transferV{dec(t.Amount), tagAddr(t.Dest), dec(t.Fee)})
		}
		own = digestBatch(l.Gid, txs, dec(o.Nonce), tagAddr(o.Token), dec(o.Timeout), tagAddr(o.FeeReceive))
	case "bc":
		var o bcObj
		must(json.Unmarshal(l.Obj, &o))
		data, memo := byteString("data", o.DataLen), byteString("memo", o.MemoLen)
		mk := func(chain string) *types.OutgoingBridgeCall {
			c := &types.OutgoingBridgeCall{Sender: ad(chain, o.Sender), Refund: ad(chain, o.Refund), To: ad(chain, o.To),
				Data: hex.EncodeToString(data), Memo: hex.EncodeToString(memo),
				Nonce: u64of(o.Nonce, &big63), Timeout: u64of(o.Timeout, &big63), EventNonce: u64of(o.EventNonce, &big63)}
			for _, t := range o.Tokens {
				c.Tokens = append(c.Tokens, types.NewERC20Token(sdkmath.NewIntFromBigInt(dec(t.Amount)), ad(chain, t.Contract)))
			}
			return c
		}
		eth, ethErr = mk("eth").GetCheckpoint(l.Gid)
		tron, tronErr = trontypes.GetCheckpointBridgeCall(mk("tron"), l.Gid)
		var toks []tokenV
		for _, t := range o.Tokens {
			toks = append(toks, tokenV{tagAddr(t.Contract), dec(t.Amount)})
		}
		own = digestBridgeCall(l.Gid, tagAddr(o.Sender), tagAddr(o.Refund), toks, tagAddr(o.To), data, memo, dec(o.Nonce), dec(o.Timeout), dec(o.EventNonce))
	default:
		panic("kind " + l.Kind)
	}
	return
}

func unquoteTLA(s string) string {
	var b strings.Builder
	for i := 0; i < len(s); i++ {
		if s[i] == '\\' && i+1 < len(s) {
			i++
		}
		b.WriteByte(s[i])
	}
	return b.String()
}

// TestAbi reads the lines TLC printed while evaluating AbiCheckpointMC (VERIF_ABI: TLC's output, or a file of
// bare JSON lines), renders each word sequence to bytes, hashes it with keccak256 and compares the digest with
// what fx-core's real GetCheckpoint functions (Ethereum encoder and Tron encoder) return for the same object,
// byte for byte; it also checks injectivity on the family and that the harness's own Go encoder (used for the
// `valid` projection of part 1) agrees with the TLA+ definition.  It never fails on a mismatch: the numbers go
// to VERIF_ABI_STATS and bin/spec_confirm.py takes the verdict.
func TestAbi(t *testing.T) {
	f, err := os.Open(os.Getenv("VERIF_ABI"))
	if err != nil {
		t.Fatal(err)
	}
	defer f.Close()
	sc := bufio.NewScanner(f)
	sc.Buffer(make([]byte, 1<<20), 1<<26)
	type mismatch struct {
		Encoder string `json:"encoder"`
		Line    string `json:"line"`
		Spec    string `json:"digest_of_contract_definition"`
		Real    string `json:"digest_of_fxcore"`
		Err     string `json:"error,omitempty"`
		Big63   bool   `json:"has_uint64_field_ge_2^63"`
	}
	byKind := map[string]int{}
	seen := map[string]string{}
	var mism []mismatch
	n, nEthOK, nTronOK, nOwnOK, nBig63, nMismBig63, nMismOther, collisions, maxWords := 0, 0, 0, 0, 0, 0, 0, 0, 0
	var firstCollision string
	for sc.Scan() {
		line := sc.Text()
		const pfx = `<<"ABI", "`
		if strings.HasPrefix(line, pfx) {
			line = unquoteTLA(line[len(pfx) : len(line)-3])
		} else if !strings.HasPrefix(line, "{") {
			continue
		}
		var l abiLine
		if err := json.Unmarshal([]byte(line), &l); err != nil {
			t.Fatalf("bad ABI line: %v: %s", err, line)
		}
		n++
		byKind[l.Kind]++
		lens := map[string]int{}
		if l.Kind == "bc" {
			var o bcObj
			must(json.Unmarshal(l.Obj, &o))
			lens["data"], lens["memo"] = o.DataLen, o.MemoLen
		}
		if len(l.Words) > maxWords {
			maxWords = len(l.Words)
		}
		spec := keccak(render(l.Words, lens))
		eth, tron, own, ethErr, tronErr, big63 := digests(l)
		if big63 {
			nBig63++
		}
		id := l.Kind + "|" + l.Gid + "|" + string(l.Obj)
		if prev, dup := seen[string(spec)]; dup && prev != id {
			collisions++
			if firstCollision == "" {
				firstCollision = prev + "  ==  " + id
			}
		}
		seen[string(spec)] = id
		rec := func(enc string, real []byte, e error) bool {
			if e == nil && bytes.Equal(real, spec) {
				return true
			}
			if big63 {
				nMismBig63++
			} else {
				nMismOther++
			}
			if len(mism) < 12 || (!big63 && len(mism) < 40) {
				m := mismatch{Encoder: enc, Line: line, Spec: hex.EncodeToString(spec), Real: hex.EncodeToString(real), Big63: big63}
				if e != nil {
					m.Err = e.Error()
				}
				mism = append(mism, m)
			}
			return false
		}
		if rec("x/crosschain/types GetCheckpoint (go-ethereum abi)", eth, ethErr) {
			nEthOK++
		}
		if rec("x/tron/types GetCheckpoint* (gotron-sdk abi)", tron, tronErr) {
			nTronOK++
		}
		if bytes.Equal(own, spec) {
			nOwnOK++
		}
	}
	if err := sc.Err(); err != nil {
		t.Fatal(err)
	}
	res := map[string]any{
		"objects": n, "by_kind": byKind, "eth_encoder_equal": nEthOK, "tron_encoder_equal": nTronOK, "own_encoder_equal": nOwnOK,
		"objects_with_uint64_field_ge_2^63": nBig63, "mismatches_with_uint64_field_ge_2^63": nMismBig63, "mismatches_other": nMismOther,
		"digest_collisions": collisions, "first_collision": firstCollision, "distinct_digests": len(seen), "max_words": maxWords,
		"mismatch_samples": mism,
	}
	b, _ := json.MarshalIndent(res, "", " ")
	if p := os.Getenv("VERIF_ABI_STATS"); p != "" {
		must(os.WriteFile(p, b, 0o644))
	}
	fmt.Printf("abi: objects=%d eth_equal=%d tron_equal=%d own_equal=%d mismatches(u64>=2^63)=%d mismatches(other)=%d collisions=%d\n",
		n, nEthOK, nTronOK, nOwnOK, nMismBig63, nMismOther, collisions)
	if n == 0 {
		t.Fatal("no ABI lines")
	}
	if nOwnOK != n {
		t.Fatalf("harness's own Go encoder disagrees with AbiCheckpoint.tla on %d objects (infrastructure error)", n-nOwnOK)
	}
}
