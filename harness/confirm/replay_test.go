package confirm

import (
	"encoding/json"
	"fmt"
	"os"
	"testing"

	"verifharness/graph"
)

func TestReplay(t *testing.T) {
	var c Consts
	graph.Const(&c)
	a := New(t, c)
	graph.RunReplay(t, a, a.W.Ctx, a.AfterEdge)
}

func TestPath(t *testing.T) {
	var c Consts
	graph.Const(&c)
	a := New(t, c)
	graph.RunPath(t, a, a.W.Ctx)
}

// TestClasses realises every abstract signature class for (ext of the first oracle, every stored object) and
// lets the independent verifier (ecrecover over the prefixed digest of the own-encoder checkpoint, as
// FxBridgeLogic.verifySig) decide whether it verifies.  The result (VERIF_CLASSES) becomes the model's
// constant Verifying.
func TestClasses(t *testing.T) {
	var c Consts
	graph.Const(&c)
	a := New(t, c)
	ctx := a.W.Ctx
	res := map[string]bool{}
	for _, cl := range Classes {
		first := true
		for _, obj := range c.Object {
			o := a.loadObject(ctx, obj)
			if o == nil {
				continue
			}
			for _, or := range c.Oracle {
				ext := c.ExtOf[or]
				cp, err := ownCheckpoint(a.Chain, gravityIDRaw(ctx, a.W, a.Chain), o)
				must(err)
				v := verifyIndependent(a.prefix(), cp, a.realise(ctx, cl, ext, obj, o), extAddr20(a.Chain, ext))
				if !first && v != res[cl] {
					t.Fatalf("class %s does not verify uniformly (%s %s)", cl, obj, ext)
				}
				res[cl], first = v, false
			}
		}
	}
	b, _ := json.Marshal(res)
	fmt.Println("classes:", string(b))
	if p := os.Getenv("VERIF_CLASSES"); p != "" {
		must(os.WriteFile(p, b, 0o644))
	}
}
