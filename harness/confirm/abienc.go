package confirm

// An ABI encoder written from the Solidity ABI specification as FxBridgeLogic.sol uses it
// (abi.encode of bytes32, uint256, address, uint256[], address[], bytes), independent of
// go-ethereum's accounts/abi and of gotron-sdk's abi package (the two encoders fx-core uses).
// It mirrors spec/AbiCheckpoint.tla operator by operator; TestAbi checks that both agree on
// every object TLC evaluates.

import (
	"bytes"
	"crypto/sha256"
	"encoding/hex"
	"fmt"
	"math/big"
	"strings"

	"github.com/btcsuite/btcd/btcutil/base58"
	"golang.org/x/crypto/sha3"
)

func keccak(parts ...[]byte) []byte {
	h := sha3.NewLegacyKeccak256()
	for _, p := range parts {
		h.Write(p)
	}
	return h.Sum(nil)
}

type (
	aB32   [32]byte
	aUint  struct{ v *big.Int }
	aAddr  [20]byte
	aUints []*big.Int
	aAddrs [][20]byte
	aBytes []byte
)

func wordUint(v *big.Int) []byte {
	if v.Sign() < 0 || v.BitLen() > 256 {
		panic(fmt.Sprintf("not a uint256: %s", v))
	}
	w := make([]byte, 32)
	v.FillBytes(w)
	return w
}

func wordAddr(a [20]byte) []byte {
	w := make([]byte, 32)
	copy(w[12:], a[:])
	return w
}

func b32str(s string) aB32 {
	if len(s) > 32 {
		panic("bytes32 string too long: " + s)
	}
	var b aB32
	copy(b[:], s)
	return b
}

func isDynamic(a any) bool {
	switch a.(type) {
	case aUints, aAddrs, aBytes:
		return true
	}
	return false
}

// enc is the encoding of one value: for static types its single head word, for dynamic types its tail.
func enc(a any) []byte {
	switch v := a.(type) {
	case aB32:
		return append([]byte{}, v[:]...)
	case aUint:
		return wordUint(v.v)
	case aAddr:
		return wordAddr(v)
	case aUints:
		out := wordUint(big.NewInt(int64(len(v))))
		for _, x := range v {
			out = append(out, wordUint(x)...)
		}
		return out
	case aAddrs:
		out := wordUint(big.NewInt(int64(len(v))))
		for _, x := range v {
			out = append(out, wordAddr(x)...)
		}
		return out
	case aBytes:
		out := wordUint(big.NewInt(int64(len(v))))
		out = append(out, v...)
		if r := len(v) % 32; r != 0 {
			out = append(out, make([]byte, 32-r)...)
		}
		return out
	}
	panic(fmt.Sprintf("abi: unsupported %T", a))
}

// abiEncode is Solidity's abi.encode(args...): one head word per argument (the value itself for static
// types, the byte offset of the tail from the start of the encoding for dynamic ones), then the tails in
// argument order.
func abiEncode(args ...any) []byte {
	headLen := 32 * len(args)
	var head, tail []byte
	for _, a := range args {
		if isDynamic(a) {
			head = append(head, wordUint(big.NewInt(int64(headLen+len(tail))))...)
			tail = append(tail, enc(a)...)
		} else {
			head = append(head, enc(a)...)
		}
	}
	return append(head, tail...)
}

func u64(v uint64) aUint { return aUint{new(big.Int).SetUint64(v)} }

// ---- addresses: own parsers (eth: 0x + 40 hex digits; tron: base58check of 0x41 ‖ 20 bytes)

func parseEthAddr(s string) ([20]byte, error) {
	var a [20]byte
	if !strings.HasPrefix(s, "0x") || len(s) != 42 {
		return a, fmt.Errorf("not an 0x address: %q", s)
	}
	bz, err := hex.DecodeString(s[2:])
	if err != nil {
		return a, err
	}
	copy(a[:], bz)
	return a, nil
}

func parseTronAddr(s string) ([20]byte, error) {
	var a [20]byte
	raw := base58.Decode(s)
	if len(raw) != 25 || raw[0] != 0x41 {
		return a, fmt.Errorf("not a tron address: %q", s)
	}
	h1 := sha256.Sum256(raw[:21])
	h2 := sha256.Sum256(h1[:])
	if !bytes.Equal(h2[:4], raw[21:]) {
		return a, fmt.Errorf("tron address checksum: %q", s)
	}
	copy(a[:], raw[1:21])
	return a, nil
}

func tronAddrString(a [20]byte) string {
	raw := append([]byte{0x41}, a[:]...)
	h1 := sha256.Sum256(raw)
	h2 := sha256.Sum256(h1[:])
	return base58.Encode(append(raw, h2[:4]...))
}

func parseAddr(chain, s string) ([20]byte, error) {
	if chain == "tron" {
		return parseTronAddr(s)
	}
	return parseEthAddr(s)
}

// ---- the three digests of FxBridgeLogic.sol over plain field values

type memberV struct {
	Addr  [20]byte
	Power *big.Int
}

// makeCheckpoint(_oracles, _powers, _oracleSetNonce, _fxBridgeId):
// keccak256(abi.encode(_fxBridgeId, "checkpoint", _oracleSetNonce, _oracles, _powers))
func digestOracleSet(gravityID string, nonce *big.Int, members []memberV) []byte {
	addrs, powers := aAddrs{}, aUints{}
	for _, m := range members {
		addrs = append(addrs, m.Addr)
		powers = append(powers, m.Power)
	}
	return keccak(abiEncode(b32str(gravityID), b32str("checkpoint"), aUint{nonce}, addrs, powers))
}

type transferV struct {
	Amount *big.Int
	Dest   [20]byte
	Fee    *big.Int
}

// submitBatch: keccak256(abi.encode(state_fxBridgeId, "transactionBatch", _amounts, _destinations, _fees,
// _nonceArray[1], _tokenContract, _batchTimeout, _feeReceive))
func digestBatch(gravityID string, txs []transferV, nonce *big.Int, token [20]byte, timeout *big.Int, feeReceive [20]byte) []byte {
	amounts, dests, fees := aUints{}, aAddrs{}, aUints{}
	for _, t := range txs {
		amounts = append(amounts, t.Amount)
		dests = append(dests, t.Dest)
		fees = append(fees, t.Fee)
	}
	return keccak(abiEncode(b32str(gravityID), b32str("transactionBatch"), amounts, dests, fees, aUint{nonce}, aAddr(token), aUint{timeout}, aAddr(feeReceive)))
}

type tokenV struct {
	Contract [20]byte
	Amount   *big.Int
}

// bridgeCallSigHash: keccak256(abi.encode(state_fxBridgeId, "bridgeCall", sender, refund, tokens, amounts, to,
// data, memo, nonce, timeout, eventNonce))
func digestBridgeCall(gravityID string, sender, refund [20]byte, tokens []tokenV, to [20]byte, data, memo []byte, nonce, timeout, eventNonce *big.Int) []byte {
	contracts, amounts := aAddrs{}, aUints{}
	for _, t := range tokens {
		contracts = append(contracts, t.Contract)
		amounts = append(amounts, t.Amount)
	}
	return keccak(abiEncode(b32str(gravityID), b32str("bridgeCall"), aAddr(sender), aAddr(refund), contracts, amounts, aAddr(to),
		aBytes(data), aBytes(memo), aUint{nonce}, aUint{timeout}, aUint{eventNonce}))
}
