package authority

import (
	"encoding/json"
	"fmt"
	"os"
	"sort"
	"testing"

	"verifharness/graph"
	"verifharness/world"
)

// TestList writes the privileged message kinds of the running application to VERIF_LIST (JSON);
// bin/spec_authority.py turns it into the constants of Authority.tla.
func TestList(t *testing.T) {
	w := world.New(t, 1)
	kinds := Discover(w)
	for _, k := range kinds {
		fmt.Printf("privileged kind %-70s routable=%-5v fxcore=%-5v generator=%v\n", k.Kind, k.Routable, k.FxCore, k.HasGen)
	}
	b, _ := json.MarshalIndent(map[string]any{"kinds": kinds}, "", " ")
	if p := os.Getenv("VERIF_LIST"); p != "" {
		if err := os.WriteFile(p, b, 0o644); err != nil {
			t.Fatal(err)
		}
	}
}

func checkKinds(t *testing.T, a *Adapter) {
	got := append([]string{}, a.Order...)
	want := append([]string{}, a.C.Kind...)
	sort.Strings(got)
	sort.Strings(want)
	if fmt.Sprint(got) != fmt.Sprint(want) {
		t.Fatalf("the specification's Kind set differs from the kinds discovered on this application:\n spec %v\n app  %v", want, got)
	}
}

func TestReplay(t *testing.T) {
	var c Consts
	graph.Const(&c)
	a := New(t, c)
	checkKinds(t, a)
	graph.RunReplay(t, a, a.W.Ctx, nil)
}

func TestPath(t *testing.T) {
	var c Consts
	graph.Const(&c)
	a := New(t, c)
	checkKinds(t, a)
	graph.RunPath(t, a, a.W.Ctx)
}
