// Package authority binds spec/Authority.tla (C16) to the real message router of fx-core.
//
// The set of privileged message kinds is DISCOVERED from the running application: every sdk.Msg
// implementation of the interface registry whose protobuf descriptor declares the option
// cosmos.msg.v1.signer on a field named "authority"; crosschain types are instantiated once per chain
// module registered on the crosschain router.  Every fx-core kind needs a payload generator here; a
// discovered fx-core kind without one makes the run fail as incomplete.
package authority

import (
	"context"
	"encoding/hex"
	"fmt"
	"math/big"
	"os"
	"reflect"
	"sort"
	"strings"
	"testing"
	"time"

	msgv1 "cosmossdk.io/api/cosmos/msg/v1"
	sdkmath "cosmossdk.io/math"
	sdk "github.com/cosmos/cosmos-sdk/types"
	"github.com/cosmos/cosmos-sdk/types/bech32"
	"github.com/cosmos/cosmos-sdk/types/module"
	authtypes "github.com/cosmos/cosmos-sdk/x/auth/types"
	banktypes "github.com/cosmos/cosmos-sdk/x/bank/types"
	gogogrpc "github.com/cosmos/gogoproto/grpc"
	gogoproto "github.com/cosmos/gogoproto/proto"
	"github.com/ethereum/go-ethereum/common"
	"google.golang.org/grpc"
	"google.golang.org/protobuf/proto"
	"google.golang.org/protobuf/reflect/protoreflect"

	"github.com/functionx/fx-core/v8/contract"
	fxtypes "github.com/functionx/fx-core/v8/types"
	crosschaintypes "github.com/functionx/fx-core/v8/x/crosschain/types"
	erc20types "github.com/functionx/fx-core/v8/x/erc20/types"
	fxevmtypes "github.com/functionx/fx-core/v8/x/evm/types"
	fxgovtypes "github.com/functionx/fx-core/v8/x/gov/types"

	"verifharness/graph"
	"verifharness/world"
)

const (
	storeSpace  = "feegrant" // store the raw store update writes its two counters to
	dirtySpace  = "feegrant"
	dirtyMarker = "verif/c16/dirty"
	customURL   = "/verif.c16.Custom"
)

var (
	urlXParams  = sdk.MsgTypeURL(&crosschaintypes.MsgUpdateParams{})
	urlXOracles = sdk.MsgTypeURL(&crosschaintypes.MsgUpdateChainOracles{})
	urlEParams  = sdk.MsgTypeURL(&erc20types.MsgUpdateParams{})
	urlERegCoin = sdk.MsgTypeURL(&erc20types.MsgRegisterCoin{})
	urlERegErc  = sdk.MsgTypeURL(&erc20types.MsgRegisterERC20{})
	urlEToggle  = sdk.MsgTypeURL(&erc20types.MsgToggleTokenConversion{})
	urlEAlias   = sdk.MsgTypeURL(&erc20types.MsgUpdateDenomAlias{})
	urlEvmCall  = sdk.MsgTypeURL(&fxevmtypes.MsgCallContract{})
	urlGStore   = sdk.MsgTypeURL(&fxgovtypes.MsgUpdateStore{})
	urlGSwitch  = sdk.MsgTypeURL(&fxgovtypes.MsgUpdateSwitchParams{})
	urlGCustom  = sdk.MsgTypeURL(&fxgovtypes.MsgUpdateCustomParams{})
)

// KindInfo describes one discovered privileged message kind.
type KindInfo struct {
	Kind     string `json:"kind"` // type url, "@chain" appended for crosschain types
	URL      string `json:"url"`
	Chain    string `json:"chain,omitempty"`
	Routable bool   `json:"routable"` // has a handler on the message router
	FxCore   bool   `json:"fxcore"`
	HasGen   bool   `json:"has_gen"` // the harness can build valid/invalid payloads and observe the effect
	Store    bool   `json:"store"`   // raw store update (old-value classes)
	Reset    bool   `json:"reset"`   // has a delete/reset form that is driven too (payload class "reset")
}

// kinds with a delete / reset form: gov custom params removal (zero-value params), erc20 alias removal (alias already
// registered for the denom), gov switch params entry removal, raw store overwrite of an existing value
var resettable = map[string]bool{urlGCustom: true, urlEAlias: true, urlGSwitch: true, urlGStore: true}

// generators for routable fx-core types (by type url)
var generated = map[string]bool{
	urlXParams: true, urlXOracles: true, urlEParams: true, urlERegCoin: true, urlERegErc: true, urlEToggle: true,
	urlEAlias: true, urlEvmCall: true, urlGStore: true, urlGSwitch: true, urlGCustom: true,
}

func signerFields(name string) []string {
	d, err := gogoproto.HybridResolver.FindDescriptorByName(protoreflect.FullName(name))
	if err != nil {
		return nil
	}
	md, ok := d.(protoreflect.MessageDescriptor)
	if !ok {
		return nil
	}
	s, _ := proto.GetExtension(md.Options(), msgv1.E_Signer).([]string)
	return s
}

// Discover lists the privileged kinds of the running application.
func Discover(w *world.W) []KindInfo {
	var chains []string
	for name := range w.App.GetKVStoreKey() {
		if w.App.CrosschainRouterKeeper.Router().HasRoute(name) {
			chains = append(chains, name)
		}
	}
	sort.Strings(chains)
	urls := w.App.InterfaceRegistry().ListImplementations(sdk.MsgInterfaceProtoName)
	sort.Strings(urls)
	var out []KindInfo
	for _, u := range urls {
		f := signerFields(strings.TrimPrefix(u, "/"))
		if len(f) != 1 || f[0] != "authority" {
			continue
		}
		routable := w.App.MsgServiceRouter().HandlerByTypeURL(u) != nil
		fx := strings.HasPrefix(u, "/fx.")
		ki := KindInfo{Kind: u, URL: u, Routable: routable, FxCore: fx, HasGen: generated[u] || !routable, Store: u == urlGStore, Reset: routable && resettable[u]}
		// crosschain types carry chain_name and are routed to one keeper per chain module
		msg, err := w.App.InterfaceRegistry().Resolve(u)
		if err == nil && reflect.ValueOf(msg).Elem().FieldByName("ChainName").IsValid() {
			for _, c := range chains {
				k := ki
				k.Kind, k.Chain = u+"@"+c, c
				out = append(out, k)
			}
			continue
		}
		out = append(out, ki)
	}
	return out
}

// service is the implementation a module registered for one message type: the method's generated handler and the server
// object it is bound to.
type service struct {
	srv    any
	method grpc.MethodDesc
}

// recorder is a module.Configurator that records the message services instead of installing them on a router.
type recorder struct {
	msg   recServer
	query nopServer
}

type recServer struct{ byURL map[string]service }

type nopServer struct{}

func (nopServer) RegisterService(*grpc.ServiceDesc, interface{}) {}

var errProbe = fmt.Errorf("probe")

func (r recServer) RegisterService(sd *grpc.ServiceDesc, ss interface{}) {
	for _, md := range sd.Methods {
		// the request type of the method, found the way baseapp's MsgServiceRouter finds it: the generated handler hands a
		// fresh request to the decoder before it touches the server
		var url string
		_, _ = md.Handler(nil, context.Background(), func(i interface{}) error {
			if m, ok := i.(sdk.Msg); ok {
				url = sdk.MsgTypeURL(m)
			}
			return errProbe
		}, nil)
		if url != "" {
			r.byURL[url] = service{srv: ss, method: md}
		}
	}
}

func (r *recorder) RegisterService(sd *grpc.ServiceDesc, ss interface{}) {
	r.msg.RegisterService(sd, ss)
}
func (r *recorder) Error() error                 { return nil }
func (r *recorder) MsgServer() gogogrpc.Server   { return r.msg }
func (r *recorder) QueryServer() gogogrpc.Server { return r.query }
func (r *recorder) RegisterMigration(string, uint64, module.MigrationHandler) error {
	return nil
}

// Services runs the application's own service registration (app.RegisterServices: every module's RegisterServices plus
// the crosschain router message server) against a recording configurator: type url -> registered implementation.
func Services(w *world.W) map[string]service {
	r := &recorder{msg: recServer{byURL: map[string]service{}}}
	must(w.App.RegisterServices(r))
	return r.msg.byURL
}

// HandleDirect invokes the registered service implementation for msg directly: no router, hence no stateless validation
// (other modules, in-process callers and the repository's keeper tests reach the handlers this way); same per-message
// atomicity and panic recovery as world.Handle.
func (a *Adapter) HandleDirect(ctx sdk.Context, msg sdk.Msg) error {
	s, ok := a.services[sdk.MsgTypeURL(msg)]
	if !ok {
		return fmt.Errorf("no service implementation registered for %T", msg)
	}
	return world.Atomic(ctx, func(c sdk.Context) error {
		_, err := s.method.Handler(s.srv, c, func(i interface{}) error {
			dst, src := reflect.ValueOf(i), reflect.ValueOf(msg)
			if dst.Type() != src.Type() {
				return fmt.Errorf("request type %T, message %T", i, msg)
			}
			dst.Elem().Set(src.Elem())
			return nil
		}, nil)
		return err
	})
}

type Consts struct {
	MaxApplied int      `json:"MaxApplied"`
	Kind       []string `json:"Kind"`
	// AddrCfg "sdk": run without fx-core's 20-byte address verifier (SDK default configuration, as the repository's
	// keeper tests do), so that longer look-alike addresses reach the handlers instead of failing stateless validation
	AddrCfg string `json:"AddrCfg"`
}

type Adapter struct {
	W     *world.W
	C     Consts
	Kinds map[string]KindInfo
	Order []string
	K     int // number of pre-built targets per kind
	// services: type url -> service implementation registered by the application (direct delivery, via "server")
	services map[string]service
	gov      sdk.AccAddress
	// world
	baseABT    map[string]uint64
	baseOracle map[string]int
	baseIbc    time.Duration
	erc20s     []common.Address // deployed, unregistered ERC-20 tokens (MsgRegisterERC20 targets)
	callTarget common.Address
	spender    common.Address
	evmModule  common.Address
}

func must(err error) {
	if err != nil {
		panic(err)
	}
}

func New(t *testing.T, c Consts) *Adapter {
	if c.AddrCfg == "sdk" {
		os.Setenv("VERIF_ADDR_CFG", "sdk")
	}
	w := world.New(t, 1)
	a := &Adapter{W: w, C: c, Kinds: map[string]KindInfo{}, K: c.MaxApplied + 1, gov: authtypes.NewModuleAddress("gov"),
		baseABT: map[string]uint64{}, baseOracle: map[string]int{}}
	for _, k := range Discover(w) {
		a.Kinds[k.Kind] = k
		a.Order = append(a.Order, k.Kind)
	}
	a.services = Services(w)
	ctx := w.Ctx
	cdc := w.App.AppCodec()
	for _, k := range a.Kinds {
		if k.Chain == "" {
			continue
		}
		st := ctx.KVStore(w.App.GetKey(k.Chain))
		var p crosschaintypes.Params
		cdc.MustUnmarshal(st.Get(crosschaintypes.ParamsKey), &p)
		a.baseABT[k.Chain] = p.AverageBlockTime
		var po crosschaintypes.ProposalOracle
		if bz := st.Get(crosschaintypes.ProposalOracleKey); bz != nil {
			cdc.MustUnmarshal(bz, &po)
		}
		a.baseOracle[k.Chain] = len(po.Oracles)
	}
	a.baseIbc = w.App.Erc20Keeper.GetParams(ctx).IbcTimeout
	// targets, built with the real governance-authority messages
	for i := 1; i <= a.K; i++ {
		must(w.Handle(ctx, &erc20types.MsgRegisterCoin{Authority: world.GovAddr(),
			Metadata: fxtypes.GetCrossChainMetadataManyToOne(fmt.Sprintf("Verif Toggle %d", i), fmt.Sprintf("VERIFTOG%d", i), 18)}))
	}
	aliases := []string{"verifali0"}
	for i := 1; i <= a.K; i++ {
		aliases = append(aliases, resetAlias(i))
	}
	must(w.Handle(ctx, &erc20types.MsgRegisterCoin{Authority: world.GovAddr(),
		Metadata: fxtypes.GetCrossChainMetadataManyToOne("Verif Alias", "VERIFALI", 18, aliases...)}))
	// reset targets: stored custom params, disabled-precompile entries, existing raw store values
	hour := time.Hour
	var pre []string
	var stores []fxgovtypes.UpdateStore
	for i := 1; i <= a.K; i++ {
		must(w.Handle(ctx, &fxgovtypes.MsgUpdateCustomParams{Authority: world.GovAddr(), MsgUrl: resetURL(i),
			CustomParams: fxgovtypes.CustomParams{DepositRatio: "0.000000000000000000", VotingPeriod: &hour, Quorum: "0.200000000000000000"}}))
		pre = append(pre, resetPrecompile(i))
		for j := 1; j <= 2; j++ {
			stores = append(stores, fxgovtypes.UpdateStore{Space: storeSpace, Key: hex.EncodeToString(resetStoreKey(i, j)), OldValue: "", Value: "01"})
		}
	}
	must(w.Handle(ctx, &fxgovtypes.MsgUpdateSwitchParams{Authority: world.GovAddr(), Params: fxgovtypes.SwitchParams{DisablePrecompiles: pre}}))
	must(w.Handle(ctx, &fxgovtypes.MsgUpdateStore{Authority: world.GovAddr(), UpdateStores: stores}))
	erc20Module := common.BytesToAddress(authtypes.NewModuleAddress(erc20types.ModuleName))
	for i := 1; i <= a.K; i++ {
		addr, err := w.App.Erc20Keeper.DeployUpgradableToken(ctx, erc20Module, fmt.Sprintf("Verif Token %d", i), fmt.Sprintf("VTK%d", i), 18)
		must(err)
		a.erc20s = append(a.erc20s, addr)
	}
	var err error
	a.callTarget, err = w.App.Erc20Keeper.DeployUpgradableToken(ctx, erc20Module, "Verif Call", "VCALL", 18)
	must(err)
	a.spender = common.HexToAddress(world.DetExt("c16/spender"))
	a.evmModule = common.BytesToAddress(authtypes.NewModuleAddress("evm"))
	return a
}

func (a *Adapter) authority(class string) string {
	switch class {
	case "gov":
		return a.gov.String()
	case "othermodule":
		return authtypes.NewModuleAddress("distribution").String()
	case "user":
		return a.W.Key("c16/user").AccAddress().String()
	case "empty":
		return ""
	case "gov-uppercase": // not an authority class of the check (decodes to the gov account itself); kept for ad-hoc paths
		return strings.ToUpper(a.gov.String())
	case "gov-hex":
		return common.BytesToAddress(a.gov).Hex()
	case "user-hex": // the 0x form of an ordinary account
		return common.BytesToAddress(a.W.Key("c16/user").AccAddress()).Hex()
	case "garbage": // no address in any encoding
		return "not an address"
	case "gov-otherprefix":
		other := "cosmos"
		if sdk.GetConfig().GetBech32AccountAddrPrefix() == other {
			other = "fx"
		}
		s, err := bech32.ConvertAndEncode(other, a.gov)
		must(err)
		return s
	case "gov-suffix-21": // one leading byte + the gov bytes: a different (21-byte) account, valid bech32 with the chain prefix
		return chainBech32(append([]byte{0x01}, a.gov...))
	case "gov-suffix-32": // 12 leading bytes + the gov bytes
		return chainBech32(append(bytesOf(0x02, 12), a.gov...))
	case "gov-prefix-32": // the gov bytes + 12 trailing bytes
		return chainBech32(append(append([]byte{}, a.gov...), bytesOf(0x03, 12)...))
	}
	panic("authority class " + class)
}

func chainBech32(bz []byte) string {
	s, err := bech32.ConvertAndEncode(sdk.GetConfig().GetBech32AccountAddrPrefix(), bz)
	must(err)
	return s
}

func bytesOf(b byte, n int) []byte {
	out := make([]byte, n)
	for i := range out {
		out[i] = b
	}
	return out
}

func resetAlias(i int) string { return fmt.Sprintf("verifrm%d", i) }
func resetURL(i int) string   { return fmt.Sprintf("/verif.c16.Reset%d", i) }
func resetPrecompile(i int) string {
	return strings.ToLower(world.DetExt(fmt.Sprintf("c16/precompile/%d", i)))
}
func resetStoreKey(i, j int) []byte { return []byte(fmt.Sprintf("verif/c16/rs/%d/%d", i, j)) }

func oracleAddr(chain string, i int) string {
	return world.DetKey(fmt.Sprintf("c16/%s/oracle/%d", chain, i)).AccAddress().String()
}

func coinDenom(i int64) string { return fmt.Sprintf("verifc%d", i) }

func storeKeyN(i int) []byte { return []byte(fmt.Sprintf("verif/c16/store/%d", i)) }

// count: how often kind k has taken effect in ctx (kind-specific observable), or a "?…" string
func (a *Adapter) count(ctx sdk.Context, k KindInfo) any {
	w := a.W
	cdc := w.App.AppCodec()
	switch k.URL {
	case urlXParams:
		var p crosschaintypes.Params
		cdc.MustUnmarshal(ctx.KVStore(w.App.GetKey(k.Chain)).Get(crosschaintypes.ParamsKey), &p)
		return int64(p.AverageBlockTime) - int64(a.baseABT[k.Chain])
	case urlXOracles:
		var po crosschaintypes.ProposalOracle
		if bz := ctx.KVStore(w.App.GetKey(k.Chain)).Get(crosschaintypes.ProposalOracleKey); bz != nil {
			cdc.MustUnmarshal(bz, &po)
		}
		return int64(len(po.Oracles) - a.baseOracle[k.Chain])
	case urlEParams:
		d := w.App.Erc20Keeper.GetParams(ctx).IbcTimeout - a.baseIbc
		if d%time.Second != 0 {
			return "?" + d.String()
		}
		return int64(d / time.Second)
	case urlERegCoin:
		n := int64(0)
		for i := int64(1); i <= int64(a.K)+1; i++ {
			if w.App.Erc20Keeper.IsDenomRegistered(ctx, coinDenom(i)) {
				n++
			}
		}
		return n
	case urlERegErc:
		n := int64(0)
		for _, addr := range a.erc20s {
			if w.App.Erc20Keeper.IsERC20Registered(ctx, addr) {
				n++
			}
		}
		return n
	case urlEToggle:
		n := int64(0)
		for i := 1; i <= a.K; i++ {
			p, found := w.App.Erc20Keeper.GetTokenPair(ctx, fmt.Sprintf("veriftog%d", i))
			if !found {
				return "?pair-missing"
			}
			if !p.Enabled {
				n++
			}
		}
		return n
	case urlEAlias:
		md, found := w.App.BankKeeper.GetDenomMetaData(ctx, "verifali")
		if !found || len(md.DenomUnits) == 0 {
			return "?metadata-missing"
		}
		n := int64(0)
		for _, al := range md.DenomUnits[0].Aliases {
			if strings.HasPrefix(al, "verifalias") {
				n++
			}
		}
		return n
	case urlEvmCall:
		var out struct{ Value *big.Int }
		if err := w.App.EvmKeeper.QueryContract(ctx, a.evmModule, a.callTarget, contract.GetFIP20().ABI, "allowance", &out, a.evmModule, a.spender); err != nil {
			return "?" + err.Error()
		}
		return out.Value.Int64()
	case urlGStore:
		st := ctx.KVStore(w.App.GetKey(storeSpace))
		v1, v2 := st.Get(storeKeyN(1)), st.Get(storeKeyN(2))
		if hex.EncodeToString(v1) != hex.EncodeToString(v2) || len(v1) > 1 {
			return fmt.Sprintf("?%x/%x", v1, v2)
		}
		if len(v1) == 0 {
			return int64(0)
		}
		return int64(v1[0])
	case urlGSwitch:
		return int64(len(w.App.GovKeeper.GetSwitchParams(ctx).DisableMsgTypes))
	case urlGCustom:
		cp, err := w.App.GovKeeper.CustomerParams.Get(ctx, customURL)
		if err != nil {
			return int64(0)
		}
		if cp.VotingPeriod == nil || *cp.VotingPeriod%time.Hour != 0 {
			return "?" + cp.String()
		}
		return int64(*cp.VotingPeriod / time.Hour)
	}
	return int64(0) // kinds without a handler / reject-only kinds have no effect to observe
}

// cleared: how many reset targets of kind k have been consumed in ctx (0 for kinds without a reset form)
func (a *Adapter) cleared(ctx sdk.Context, k KindInfo) any {
	w := a.W
	if !k.Reset {
		return int64(0)
	}
	n := int64(0)
	switch k.URL {
	case urlGCustom:
		for i := 1; i <= a.K; i++ {
			if _, err := w.App.GovKeeper.CustomerParams.Get(ctx, resetURL(i)); err != nil {
				n++
			}
		}
	case urlEAlias:
		md, found := w.App.BankKeeper.GetDenomMetaData(ctx, "verifali")
		if !found || len(md.DenomUnits) == 0 {
			return "?metadata-missing"
		}
		have := map[string]bool{}
		for _, al := range md.DenomUnits[0].Aliases {
			have[al] = true
		}
		for i := 1; i <= a.K; i++ {
			_, indexed := w.App.Erc20Keeper.GetAliasDenom(ctx, resetAlias(i))
			if have[resetAlias(i)] != indexed {
				return "?alias-index-disagrees"
			}
			if !indexed {
				n++
			}
		}
	case urlGSwitch:
		have := map[string]bool{}
		for _, p := range w.App.GovKeeper.GetSwitchParams(ctx).DisablePrecompiles {
			have[p] = true
		}
		for i := 1; i <= a.K; i++ {
			if !have[resetPrecompile(i)] {
				n++
			}
		}
	case urlGStore:
		st := ctx.KVStore(w.App.GetKey(storeSpace))
		for i := 1; i <= a.K; i++ {
			v1, v2 := hex.EncodeToString(st.Get(resetStoreKey(i, 1))), hex.EncodeToString(st.Get(resetStoreKey(i, 2)))
			switch {
			case v1 == "01" && v2 == "01":
			case v1 == "00" && v2 == "00":
				n++
			default:
				return fmt.Sprintf("?%s/%s", v1, v2)
			}
		}
	}
	return n
}

func hexByte(n int64) string {
	if n == 0 {
		return ""
	}
	return hex.EncodeToString([]byte{byte(n)})
}

// build constructs the message of kind k with the given authority string; n = current count of k
// entry is one [cell, old, new] entry of a raw store update as the specification states it (symbolic values)
type entry struct{ Cell, Old, New string }

func entries(op graph.Op) []entry {
	var out []entry
	l, _ := op["ent"].([]any)
	for _, x := range l {
		m, _ := x.(map[string]any)
		c, _ := m["cell"].(string)
		o, _ := m["old"].(string)
		n, _ := m["new"].(string)
		out = append(out, entry{c, o, n})
	}
	return out
}

// holds: every stated old value equals the value of its cell when the entry is reached (harness-side twin of Holds in
// Authority.tla, used only to decide whether the multistore must be untouched)
func holds(ent []entry) bool {
	cur := map[string]string{"a": "cur", "b": "cur"}
	for _, e := range ent {
		if cur[e.Cell] != e.Old {
			return false
		}
		cur[e.Cell] = e.New
	}
	return true
}

// storeMsg maps the symbolic entries to a MsgUpdateStore: cells a/b -> keys[0]/keys[1], cur/next -> the given hex values,
// tmp -> ee, other -> ff
func storeMsg(auth string, ent []entry, keys [2][]byte, cur, next string, badSpaceLast bool) *fxgovtypes.MsgUpdateStore {
	val := map[string]string{"cur": cur, "next": next, "tmp": "ee", "other": "ff"}
	cell := map[string][]byte{"a": keys[0], "b": keys[1]}
	var us []fxgovtypes.UpdateStore
	for _, e := range ent {
		key, ok1 := cell[e.Cell]
		o, ok2 := val[e.Old]
		n, ok3 := val[e.New]
		if !ok1 || !ok2 || !ok3 {
			panic(fmt.Sprintf("store entry %+v", e))
		}
		us = append(us, fxgovtypes.UpdateStore{Space: storeSpace, Key: hex.EncodeToString(key), OldValue: o, Value: n})
	}
	if badSpaceLast && len(us) > 0 {
		us[len(us)-1].Space = "nosuchstore" // after the earlier entries have been written
	}
	return &fxgovtypes.MsgUpdateStore{Authority: auth, UpdateStores: us}
}

func (a *Adapter) build(ctx sdk.Context, k KindInfo, auth, pay string, ent []entry, n int64) sdk.Msg {
	w := a.W
	valid := pay == "valid"
	if pay == "reset" { // n = number of reset targets already consumed; the form acts on target n+1
		i := int(n) + 1
		switch k.URL {
		case urlGCustom:
			return &fxgovtypes.MsgUpdateCustomParams{Authority: auth, MsgUrl: resetURL(i), CustomParams: fxgovtypes.CustomParams{}}
		case urlEAlias:
			return &erc20types.MsgUpdateDenomAlias{Authority: auth, Denom: "verifali", Alias: resetAlias(i)}
		case urlGSwitch:
			p := w.App.GovKeeper.GetSwitchParams(ctx)
			var keep []string
			for _, x := range p.DisablePrecompiles {
				if x != resetPrecompile(i) {
					keep = append(keep, x)
				}
			}
			p.DisablePrecompiles = keep
			return &fxgovtypes.MsgUpdateSwitchParams{Authority: auth, Params: p}
		case urlGStore:
			return storeMsg(auth, ent, [2][]byte{resetStoreKey(i, 1), resetStoreKey(i, 2)}, "01", "00", false)
		}
		panic("no reset form for " + k.URL)
	}
	switch k.URL {
	case urlXParams:
		var p crosschaintypes.Params
		w.App.AppCodec().MustUnmarshal(ctx.KVStore(w.App.GetKey(k.Chain)).Get(crosschaintypes.ParamsKey), &p)
		p.AverageBlockTime = a.baseABT[k.Chain] + uint64(n) + 1
		p.Oracles = nil
		if !valid {
			p.GravityId = ""
		}
		return &crosschaintypes.MsgUpdateParams{ChainName: k.Chain, Authority: auth, Params: p}
	case urlXOracles:
		var list []string
		for i := 0; i < a.baseOracle[k.Chain]+int(n)+1; i++ {
			list = append(list, oracleAddr(k.Chain, i))
		}
		if !valid {
			list = append(list, list[0]) // duplicate
		}
		return &crosschaintypes.MsgUpdateChainOracles{ChainName: k.Chain, Authority: auth, Oracles: list}
	case urlEParams:
		p := w.App.Erc20Keeper.GetParams(ctx)
		p.IbcTimeout = a.baseIbc + time.Duration(n+1)*time.Second
		if !valid {
			p.IbcTimeout = 0
		}
		return &erc20types.MsgUpdateParams{Authority: auth, Params: p}
	case urlERegCoin:
		md := fxtypes.GetCrossChainMetadataManyToOne(fmt.Sprintf("Verif Coin %d", n+1), strings.ToUpper(coinDenom(n+1)), 18)
		if !valid {
			md.Name = ""
		}
		return &erc20types.MsgRegisterCoin{Authority: auth, Metadata: md}
	case urlERegErc:
		addr := common.HexToAddress(world.DetExt("c16/not-a-contract"))
		if valid && int(n) < len(a.erc20s) {
			addr = a.erc20s[n]
		}
		return &erc20types.MsgRegisterERC20{Authority: auth, Erc20Address: addr.Hex()}
	case urlEToggle:
		tok := "verifunknown"
		if valid {
			tok = fmt.Sprintf("veriftog%d", n+1)
		}
		return &erc20types.MsgToggleTokenConversion{Authority: auth, Token: tok}
	case urlEAlias:
		d := "verifunknown"
		if valid {
			d = "verifali"
		}
		return &erc20types.MsgUpdateDenomAlias{Authority: auth, Denom: d, Alias: fmt.Sprintf("verifalias%d", n+1)}
	case urlEvmCall:
		data, err := contract.GetFIP20().ABI.Pack("approve", a.spender, big.NewInt(n+1))
		must(err)
		target := a.callTarget
		if !valid {
			target = common.HexToAddress(world.DetExt("c16/not-a-contract"))
		}
		return &fxevmtypes.MsgCallContract{Authority: auth, ContractAddress: target.Hex(), Data: hex.EncodeToString(data)}
	case urlGStore:
		return storeMsg(auth, ent, [2][]byte{storeKeyN(1), storeKeyN(2)}, hexByte(n), hexByte(n+1), !valid)
	case urlGSwitch:
		var list []string
		for i := int64(1); i <= n+1; i++ {
			list = append(list, fmt.Sprintf("/verif.c16.Msg%d", i))
		}
		if !valid {
			list = append(list, list[0])
		}
		p := w.App.GovKeeper.GetSwitchParams(ctx) // the disabled-precompile entries (reset targets) are kept
		p.DisableMsgTypes = list
		return &fxgovtypes.MsgUpdateSwitchParams{Authority: auth, Params: p}
	case urlGCustom:
		per := time.Duration(n+1) * time.Hour
		q := "0.200000000000000000"
		if !valid {
			q = "1.500000000000000000"
		}
		return &fxgovtypes.MsgUpdateCustomParams{Authority: auth, MsgUrl: customURL,
			CustomParams: fxgovtypes.CustomParams{DepositRatio: "0.000000000000000000", VotingPeriod: &per, Quorum: q}}
	}
	// kinds without a generator (no handler on the router, or third-party reject-only): empty body + authority
	msg, err := w.App.InterfaceRegistry().Resolve(k.URL)
	must(err)
	f := reflect.ValueOf(msg).Elem().FieldByName("Authority")
	if !f.IsValid() || f.Kind() != reflect.String {
		panic("no Authority field in " + k.URL)
	}
	f.SetString(auth)
	return msg.(sdk.Msg)
}

func (a *Adapter) Apply(ctx sdk.Context, op graph.Op) (sdk.Context, string) {
	if op.Name() != "Priv" {
		panic("unknown op " + op.Name())
	}
	k, ok := a.Kinds[op.Str("kind")]
	if !ok {
		panic("kind not discovered on this application: " + op.Str("kind"))
	}
	auth, pay, via, ent := op.Str("auth"), op.Str("pay"), op.Str("via"), entries(op)
	n, _ := a.count(ctx, k).(int64)
	if pay == "reset" {
		n, _ = a.cleared(ctx, k).(int64)
	}
	msg := a.build(ctx, k, a.authority(auth), pay, ent, n)
	before := a.W.DumpHash(ctx)
	var err error
	switch via {
	case "router":
		err = a.W.Handle(ctx, msg)
	case "server":
		err = a.HandleDirect(ctx, msg)
	default:
		panic("delivery " + via)
	}
	res := "ok"
	if err != nil {
		res = "rej"
		if os.Getenv("VERIF_DEBUG") != "" {
			fmt.Printf("DEBUG %v -> %v\n", op, err)
		}
	}
	// real-state oracle: whatever the property says must not take effect leaves the complete multistore untouched
	mustBeClean := res == "rej" || auth != "gov" || (k.Store && !holds(ent))
	if mustBeClean && a.W.DumpHash(ctx) != before {
		if os.Getenv("VERIF_DEBUG") != "" {
			fmt.Printf("DEBUG DIRTY %v (res=%s)\n", op, res)
		}
		ctx.KVStore(a.W.App.GetKey(dirtySpace)).Set([]byte(dirtyMarker), []byte{1})
	}
	return ctx, res
}

func (a *Adapter) Project(ctx sdk.Context) any {
	applied, cleared := map[string]any{}, map[string]any{}
	for _, name := range a.Order {
		applied[name] = a.count(ctx, a.Kinds[name])
		cleared[name] = a.cleared(ctx, a.Kinds[name])
	}
	return map[string]any{"applied": applied, "cleared": cleared, "dirty": ctx.KVStore(a.W.App.GetKey(dirtySpace)).Has([]byte(dirtyMarker))}
}

var _ = banktypes.Metadata{}
var _ = sdkmath.ZeroInt
