// Package caller binds spec/Caller.tla (C10) to the real application: four accounts with identical
// portfolios (EOAs "user" and "victim", executor contracts "A" and "B"), precompile calls reaching the
// staking / cross-chain precompile through user->P, user->A->P, user->A->B->P with any of the four call
// instructions at the last hop, share allowances set by the owners' own approveShares, the governance
// switch set by MsgUpdateSwitchParams through the message router.  The frames between the transaction and the
// precompile may be reverted after the precompile returned (op field "fate"), validator 0 may be slashed by one half
// (op "Slash": the staking keeper's Slash as the evidence handler calls it when a block begins).
package caller

import (
	"encoding/hex"
	"encoding/json"
	"fmt"
	"math/big"
	"os"
	"strings"
	"testing"
	"time"

	sdkmath "cosmossdk.io/math"
	storetypes "cosmossdk.io/store/types"
	sdk "github.com/cosmos/cosmos-sdk/types"
	distrkeeper "github.com/cosmos/cosmos-sdk/x/distribution/keeper"
	distrtypes "github.com/cosmos/cosmos-sdk/x/distribution/types"
	govtypes "github.com/cosmos/cosmos-sdk/x/gov/types"
	stakingtypes "github.com/cosmos/cosmos-sdk/x/staking/types"
	"github.com/ethereum/go-ethereum/common"

	"github.com/functionx/fx-core/v8/testutil/helpers"
	fxtypes "github.com/functionx/fx-core/v8/types"
	cctypes "github.com/functionx/fx-core/v8/x/crosschain/types"
	fxgovtypes "github.com/functionx/fx-core/v8/x/gov/types"

	"verifharness/evmasm"
	"verifharness/graph"
	"verifharness/pcenv"
	"verifharness/world"
)

type Consts struct {
	Method []string `json:"Method"`
}

var Acc = []string{"A", "B", "user", "victim"}

const (
	S, Fee, Dep = 2, 1, 3
	gasLimit    = 8_000_000
)

var privKey = []byte{0xFE, 'c', '1', '0'}

// sdk.DefaultPowerReduction of fxcore: one unit of consensus power = 100 FX
var powerUnit = pcenv.Unit.MulRaw(100)

type Adapter struct {
	W      *world.W
	E      *pcenv.Env
	C      Consts
	key    map[string]*helpers.Signer // EOAs
	addr   map[string]common.Address
	name   map[common.Address]string
	poolTx map[string]uint64
	claim  map[string]uint64
	dest   string
	root   sdk.Context
	skey   storetypes.StoreKey
	gkey   storetypes.StoreKey
	debug  bool
}

func New(t *testing.T, c Consts) *Adapter {
	w := world.New(t, 3)
	e := pcenv.New(t, w)
	a := &Adapter{W: w, E: e, C: c, key: map[string]*helpers.Signer{}, addr: map[string]common.Address{}, name: map[common.Address]string{},
		poolTx: map[string]uint64{}, claim: map[string]uint64{}, debug: os.Getenv("VERIF_DEBUG") != ""}
	a.skey, a.gkey = w.App.GetKey(pcenv.Chain), w.App.GetKey(govtypes.StoreKey)
	ctx := w.Ctx
	a.dest = world.DetExt("c10/dest")
	a.key["user"], a.key["victim"] = w.Key("c10/user"), w.Key("c10/victim")
	a.addr["user"], a.addr["victim"] = a.key["user"].Address(), a.key["victim"].Address()
	w.Fund(ctx, a.key["user"].AccAddress(), 5000)
	w.Fund(ctx, a.key["victim"].AccAddress(), 5000)
	a.addr["A"], a.addr["B"] = e.Deploy(ctx, nil), e.Deploy(ctx, nil)
	for n, x := range a.addr {
		a.name[x] = n
	}
	st, cc := pcenv.StakingAddr, pcenv.CrosschainAddr
	for _, n := range Acc {
		x := a.addr[n]
		if a.key[n] == nil {
			w.Fund(ctx, sdk.AccAddress(x.Bytes()), 5000)
		}
		e.GiveToken(ctx, x, pcenv.Units(100))
		// the account's own acts: token approval for the cross-chain precompile, a delegation, a pooled FX transfer
		a.own(ctx, n, pcenv.Call(e.Token, pcenv.TokenApprove(cc, pcenv.Units(1_000_000))))
		a.own(ctx, n, pcenv.Call(st, pcenv.DelegateV2(e.Val[0], pcenv.Units(16))))
		a.poolTx[n] = a.seq(ctx, cctypes.KeyLastTxPoolID)
		s := pcenv.Call(cc, pcenv.CrossChain(common.Address{}, a.dest, pcenv.Units(4), pcenv.Units(1)))
		s.Value = pcenv.Units(5)
		a.own(ctx, n, s)
		a.claim[n] = e.Park(ctx, e.TokU, sdk.AccAddress(x.Bytes()), pcenv.Units(Dep))
		// land on exactly 1000 FX
		bal := w.App.BankKeeper.GetBalance(ctx, x.Bytes(), fxtypes.DefaultDenom).Amount
		extra := bal.Sub(pcenv.Unit.MulRaw(1000))
		pcenv.Mustf(extra.IsPositive(), "account %s has only %s", n, bal)
		pcenv.Must(w.App.BankKeeper.SendCoins(ctx, x.Bytes(), w.Key("c10/sink").AccAddress(), sdk.NewCoins(sdk.NewCoin(fxtypes.DefaultDenom, extra))))
	}
	// validator 0's stake is brought to a whole multiple of 400 FX (a third party's delegation), so that slashing
	// one half of its consensus power (an integer number of 100 FX) twice halves its tokens exactly
	val, err := w.App.StakingKeeper.GetValidator(ctx, e.Val[0])
	pcenv.Must(err)
	round := powerUnit.MulRaw(4)
	if r := val.Tokens.Mod(round); !r.IsZero() {
		filler := w.Key("c10/filler").AccAddress()
		w.Fund(ctx, filler, 1000)
		pcenv.Must(w.Handle(ctx, &stakingtypes.MsgDelegate{DelegatorAddress: filler.String(), ValidatorAddress: e.Val[0].String(),
			Amount: sdk.NewCoin(fxtypes.DefaultDenom, round.Sub(r))}))
	}
	ctx = e.RewardBlock(ctx, 5000)
	a.putN(ctx, 0)
	a.root = ctx
	w.Ctx = ctx
	return a
}

// own executes one call step as account n's own act (EOA: a transaction to the target; contract: the
// deployer-independent path user -> contract -> target).
func (a *Adapter) own(ctx sdk.Context, n string, s evmasm.Step) {
	ok, msg := a.ownTry(ctx, n, s)
	pcenv.Mustf(ok, "setup act of %s: %s", n, msg)
}

func (a *Adapter) ownTry(ctx sdk.Context, n string, s evmasm.Step) (bool, string) {
	to := common.BytesToAddress(s.To[:])
	if k := a.key[n]; k != nil {
		res, err := a.W.EthTx(ctx, k, &to, s.Value, gasLimit, s.Data)
		if err != nil {
			return false, err.Error()
		}
		return !res.Failed(), res.VmError
	}
	return a.W.EthCall(ctx, a.key["user"], a.addr[n], gasLimit, pcenv.Prog(s))
}

func (a *Adapter) seq(ctx sdk.Context, key []byte) uint64 {
	bz := ctx.KVStore(a.skey).Get(key)
	if len(bz) == 0 {
		return 1
	}
	return sdk.BigEndianToUint64(bz)
}

func (a *Adapter) putN(ctx sdk.Context, n int64) {
	ctx.KVStore(a.skey).Set(privKey, []byte(fmt.Sprint(n)))
}
func (a *Adapter) getN(ctx sdk.Context) int64 {
	var n int64
	fmt.Sscan(string(ctx.KVStore(a.skey).Get(privKey)), &n)
	return n
}

func callerOf(chain string) string {
	switch chain {
	case "user->P":
		return "user"
	case "user->A->P":
		return "A"
	}
	return "B"
}

func named(naming, c string) string {
	switch naming {
	case "caller":
		return c
	case "victim":
		return "victim"
	}
	if c == "user" {
		return "A"
	}
	return "user"
}

// callData: the precompile call of method m by direct caller c naming account nm.
func (a *Adapter) callData(m, c, nm string) (to common.Address, data []byte, value *big.Int) {
	e := a.E
	v0, v1 := e.Val[0], e.Val[1]
	amt := pcenv.Units(S)
	N, C := a.addr[nm], a.addr[c]
	switch m {
	case "delegateV2":
		return pcenv.StakingAddr, pcenv.DelegateV2(v0, amt), nil
	case "undelegateV2":
		return pcenv.StakingAddr, pcenv.UndelegateV2(v0, amt), nil
	case "redelegateV2":
		return pcenv.StakingAddr, pcenv.RedelegateV2(v0, v1, amt), nil
	case "withdraw":
		return pcenv.StakingAddr, pcenv.Withdraw(v0), nil
	case "approveShares":
		return pcenv.StakingAddr, pcenv.ApproveShares(v0, N, amt), nil
	case "transferShares":
		return pcenv.StakingAddr, pcenv.TransferShares(v0, N, amt), nil
	case "transferFromShares":
		return pcenv.StakingAddr, pcenv.TransferFromShares(v0, N, C, amt), nil
	case "delegation":
		return pcenv.StakingAddr, pcenv.Delegation(v0, N), nil
	case "crossChain":
		return pcenv.CrosschainAddr, pcenv.CrossChain(e.Token, a.dest, amt, pcenv.Units(Fee)), nil
	case "bridgeCall":
		return pcenv.CrosschainAddr, pcenv.BridgeCall(N, []common.Address{e.Token}, []*big.Int{amt}, common.HexToAddress(a.dest)), nil
	case "cancelSendToExternal":
		return pcenv.CrosschainAddr, pcenv.CancelSendToExternal(a.poolTx[nm]), nil
	case "increaseBridgeFee":
		return pcenv.CrosschainAddr, pcenv.IncreaseBridgeFee(a.poolTx[nm], common.Address{}, amt), amt
	case "executeClaim":
		return pcenv.CrosschainAddr, pcenv.ExecuteClaimData(a.claim[nm]), nil
	}
	panic("method " + m)
}

func kindOf(k string) byte {
	switch k {
	case "CALL":
		return evmasm.KindCall
	case "STATICCALL":
		return evmasm.KindStaticCall
	case "DELEGATECALL":
		return evmasm.KindDelegateCall
	case "CALLCODE":
		return evmasm.KindCallCode
	}
	panic("kind " + k)
}

// switchEntry: the SwitchParams.DisablePrecompiles entry of a model entry ("staking" / "crosschain" = the
// whole precompile address, otherwise a method: address/method id).
func switchEntry(x string) string {
	switch x {
	case "staking":
		return strings.ToLower(pcenv.StakingAddr.Hex())
	case "crosschain":
		return strings.ToLower(pcenv.CrosschainAddr.Hex())
	}
	return strings.ToLower(pcenv.PrecompileOf(x).Hex()) + "/" + hex.EncodeToString(pcenv.MethodID(x))
}

var switchNames = append([]string{"staking", "crosschain", "delegation"}, append(append([]string{}, pcenv.StakingMethods...), pcenv.CrosschainMethods...)...)

func (a *Adapter) Apply(ctx sdk.Context, op graph.Op) (sdk.Context, string) {
	w := a.W
	switch op.Name() {
	case "SetSwitch":
		var list []string
		xs, _ := op["x"].([]any)
		for _, x := range xs {
			name, _ := x.(string)
			list = append(list, switchEntry(name))
		}
		p := fxgovtypes.SwitchParams{DisablePrecompiles: list}
		if bz := ctx.KVStore(a.gkey).Get(fxgovtypes.FxSwitchParamsKey); bz != nil {
			var cur fxgovtypes.SwitchParams
			w.App.AppCodec().MustUnmarshal(bz, &cur)
			p.DisableMsgTypes = cur.DisableMsgTypes
		}
		if err := w.Handle(ctx, &fxgovtypes.MsgUpdateSwitchParams{Authority: world.GovAddr(), Params: p}); err != nil {
			if a.debug {
				fmt.Println("DEBUG SetSwitch:", err)
			}
			return ctx, "rej"
		}
		return ctx, "ok"
	case "Slash":
		// the next block begins with evidence against validator 0: one half of its consensus power is slashed
		val, err := w.App.StakingKeeper.GetValidator(ctx, a.E.Val[0])
		pcenv.Must(err)
		cons, err := val.GetConsAddr()
		pcenv.Must(err)
		nctx := ctx.WithBlockHeight(ctx.BlockHeight() + 1).WithBlockTime(ctx.BlockTime().Add(5 * time.Second))
		power := val.Tokens.Quo(powerUnit).Int64()
		if _, err = w.App.StakingKeeper.Slash(nctx, cons, nctx.BlockHeight(), power, sdkmath.LegacyNewDecWithPrec(5, 1)); err != nil {
			if a.debug {
				fmt.Println("DEBUG Slash:", err)
			}
			return ctx, "rej"
		}
		return nctx, "ok"
	case "Approve":
		o, s, n := op.Str("o"), op.Str("s"), op.Int("n")
		br, write := ctx.CacheContext()
		ok, msg := a.ownTry(br, o, pcenv.Call(pcenv.StakingAddr, pcenv.ApproveShares(a.E.Val[0], a.addr[s], pcenv.Units(n))))
		if !ok {
			if a.debug {
				fmt.Printf("DEBUG %v: %s\n", op, msg)
			}
			return ctx, "rej"
		}
		write()
		return ctx, "ok"
	case "Call":
		m, chain, kind, naming, fate := op.Str("m"), op.Str("chain"), op.Str("kind"), op.Str("naming"), op.Str("fate")
		c := callerOf(chain)
		nm := named(naming, c)
		to, data, value := a.callData(m, c, nm)
		user := a.key["user"]
		var res bool
		var msg string
		br, write := ctx.CacheContext()
		switch chain {
		case "user->P":
			pcenv.Mustf(kind == "CALL" && fate == "commit", "a transaction is a CALL whose frame is the transaction")
			r, err := w.EthTx(br, user, &to, value, gasLimit, data)
			if err != nil {
				res, msg = false, err.Error()
			} else {
				res, msg = !r.Failed(), r.VmError
			}
		default:
			step := evmasm.Step{Kind: kindOf(kind), To: evmasm.Addr(to.Bytes()), Data: data}
			if kind == "CALL" || kind == "CALLCODE" {
				step.Value = value
			}
			// the direct caller's program: the precompile call, then STOP - or REVERT (fates "revert", "caught")
			prog := evmasm.Program{Steps: []evmasm.Step{step}}
			if fate == "revert" || fate == "caught" {
				prog.End = evmasm.KindRevert
			}
			if chain == "user->A->B->P" {
				// A calls B; A catches B's failure ("caught") or reverts itself after B completed ("outer")
				prog = evmasm.Program{Steps: []evmasm.Step{{Kind: evmasm.KindCall, Catch: fate == "caught", To: evmasm.Addr(a.addr["B"].Bytes()), Data: prog.Encode()}}}
				if fate == "outer" {
					prog.End = evmasm.KindRevert
				}
			} else {
				pcenv.Mustf(fate == "commit" || fate == "revert", "fate %s needs two contracts", fate)
			}
			res, msg = w.EthCall(br, user, a.addr["A"], gasLimit, prog.Encode())
			if fate == "caught" {
				// the transaction completes, the frame that called the precompile was reverted: the call did not take place
				if !res && a.debug {
					fmt.Printf("DEBUG %v: the catching transaction failed: %s\n", op, msg)
				}
				res, msg = false, "frame reverted (caught): "+msg
			}
		}
		if !res {
			if a.debug {
				why := ""
				if chain != "user->P" {
					why = a.E.Reason(ctx, a.addr[c], to, data)
				}
				fmt.Printf("DEBUG %v: %s %s\n", op, msg, why)
			}
			// a failed transaction is written too (it is what the chain does); it must not have changed anything
			write()
			return ctx, "rej"
		}
		write()
		if m != "delegation" || true {
			a.putN(ctx, a.getN(ctx)+1)
		}
		return ctx, "ok"
	}
	panic("unknown op " + op.Name())
}

// ---------------------------------------------------------------------------------------------

type poolRec struct {
	N   int64 `json:"n"`
	Amt int64 `json:"amt"`
	Fee int64 `json:"fee"`
}

const bad = -777

func units(x sdkmath.Int) int64 {
	q := x.Quo(pcenv.Unit)
	if !q.Mul(pcenv.Unit).Equal(x) || !q.IsInt64() {
		return bad
	}
	return q.Int64()
}

// Project reads every account's portfolio from the real stores (bank balances, ERC-20 balanceOf, staking
// delegations / unbonding / redelegation records, distribution rewards, allowance prefix 0x90 via the
// staking keeper's getter, crosschain pool 0x18, outgoing bridge calls 0x48, parked claims 0x54, gov 0x92).
func (a *Adapter) Project(ctx sdk.Context) any {
	w, e := a.W, a.E
	cdc := w.App.AppCodec()
	fx, frac, tok, coin := map[string]int64{}, map[string]bool{}, map[string]int64{}, map[string]int64{}
	sh, sh1, rew := map[string]int64{}, map[string]int64{}, map[string]bool{}
	allow := map[string]map[string]int64{}
	ubd, red, calls, parked := map[string]int64{}, map[string]int64{}, map[string]int64{}, map[string]int64{}
	pool := map[string]*poolRec{}
	dec := func(d sdkmath.LegacyDec) int64 {
		if !d.IsInteger() {
			return bad
		}
		return units(d.TruncateInt())
	}
	for _, n := range Acc {
		x := a.addr[n]
		acc := sdk.AccAddress(x.Bytes())
		bal := w.App.BankKeeper.GetBalance(ctx, acc, fxtypes.DefaultDenom).Amount
		fx[n] = bal.Quo(pcenv.Unit).Int64()
		frac[n] = !bal.Mod(pcenv.Unit).IsZero()
		tok[n] = units(sdkmath.NewIntFromBigInt(e.TokenBalance(ctx, x)))
		coin[n] = units(w.App.BankKeeper.GetBalance(ctx, acc, "usdt").Amount)
		sh[n], sh1[n] = 0, 0
		if d, err := w.App.StakingKeeper.GetDelegation(ctx, acc, e.Val[0]); err == nil {
			sh[n] = dec(d.Shares)
		}
		if d, err := w.App.StakingKeeper.GetDelegation(ctx, acc, e.Val[1]); err == nil {
			sh1[n] = dec(d.Shares)
		}
		rew[n] = a.owed(ctx, acc)
		allow[n] = map[string]int64{}
		for _, s := range Acc {
			allow[n][s] = units(sdkmath.NewIntFromBigInt(w.App.StakingKeeper.GetAllowance(ctx, e.Val[0], acc, a.addr[s].Bytes())))
		}
		sum := sdkmath.ZeroInt()
		if u, err := w.App.StakingKeeper.GetUnbondingDelegation(ctx, acc, e.Val[0]); err == nil {
			for _, en := range u.Entries {
				sum = sum.Add(en.Balance)
			}
		}
		ubd[n] = units(sum)
		sum = sdkmath.ZeroInt()
		if r, err := w.App.StakingKeeper.GetRedelegation(ctx, acc, e.Val[0], e.Val[1]); err == nil {
			for _, en := range r.Entries {
				sum = sum.Add(en.InitialBalance)
			}
		}
		red[n] = units(sum)
		pool[n] = &poolRec{}
		calls[n], parked[n] = 0, 0
	}
	st := ctx.KVStore(a.skey)
	who := func(bech string) string {
		addr, err := sdk.AccAddressFromBech32(bech)
		if err != nil {
			return ""
		}
		return a.name[common.BytesToAddress(addr.Bytes())]
	}
	it := storetypes.KVStorePrefixIterator(st, cctypes.OutgoingTxPoolKey)
	for ; it.Valid(); it.Next() {
		var tx cctypes.OutgoingTransferTx
		cdc.MustUnmarshal(it.Value(), &tx)
		if n := who(tx.Sender); n != "" {
			pool[n].N++
			pool[n].Amt += units(tx.Token.Amount)
			pool[n].Fee += units(tx.Fee.Amount)
		}
	}
	it.Close()
	it = storetypes.KVStorePrefixIterator(st, cctypes.OutgoingBridgeCallNonceKey)
	for ; it.Valid(); it.Next() {
		var oc cctypes.OutgoingBridgeCall
		cdc.MustUnmarshal(it.Value(), &oc)
		n := a.name[common.HexToAddress(oc.Sender)]
		if n == "" {
			continue
		}
		for _, t := range oc.Tokens {
			calls[n] += units(t.Amount)
		}
	}
	it.Close()
	it = storetypes.KVStorePrefixIterator(st, cctypes.PendingExecuteClaimKey)
	for ; it.Valid(); it.Next() {
		var cl cctypes.ExternalClaim
		pcenv.Must(cdc.UnmarshalInterface(it.Value(), &cl))
		if d, ok := cl.(*cctypes.MsgSendToFxClaim); ok {
			if n := who(d.Receiver); n != "" {
				parked[n]++
			}
		}
	}
	it.Close()
	sw := []string{} // the list as stored (gov store key 0x92), entry by entry, in order
	if bz := ctx.KVStore(a.gkey).Get(fxgovtypes.FxSwitchParamsKey); bz != nil {
		var p fxgovtypes.SwitchParams
		cdc.MustUnmarshal(bz, &p)
		for _, entry := range p.DisablePrecompiles {
			name := "?" + entry
			for _, x := range switchNames {
				if switchEntry(x) == strings.ToLower(entry) {
					name = x
				}
			}
			sw = append(sw, name)
		}
	}
	// validator 0's exchange rate: delegator shares = 2^slashed * tokens
	slashed := int64(bad)
	if val, err := w.App.StakingKeeper.GetValidator(ctx, e.Val[0]); err == nil && val.Tokens.IsPositive() {
		t := sdkmath.LegacyNewDecFromInt(val.Tokens)
		for k := int64(0); k <= 8; k++ {
			if t.Equal(val.DelegatorShares) {
				slashed = k
				break
			}
			t = t.MulInt64(2)
		}
	}
	return map[string]any{"slashed": slashed, "fx": fx, "frac": frac, "tok": tok, "coin": coin, "sh": sh, "sh1": sh1, "rew": rew, "allow": allow,
		"ubd": ubd, "red": red, "pool": pool, "calls": calls, "parked": parked, "switch": sw, "ncall": a.getN(ctx)}
}

// owed: the account has un-withdrawn rewards on its validator-0 delegation.
func (a *Adapter) owed(ctx sdk.Context, acc sdk.AccAddress) (yes bool) {
	defer func() {
		if r := recover(); r != nil {
			yes = true
		}
	}()
	if _, err := a.W.App.StakingKeeper.GetDelegation(ctx, acc, a.E.Val[0]); err != nil {
		return false
	}
	cctx, _ := ctx.CacheContext()
	res, err := distrkeeper.NewQuerier(a.W.App.DistrKeeper).DelegationRewards(cctx, &distrtypes.QueryDelegationRewardsRequest{
		DelegatorAddress: acc.String(), ValidatorAddress: a.E.Val[0].String()})
	if err != nil {
		return true
	}
	return res.Rewards.AmountOf(fxtypes.DefaultDenom).IsPositive()
}

var _ = json.Marshal
