package caller

import (
	"testing"

	"verifharness/graph"
	"verifharness/pcenv"
)

// operations that lead to other states (SetSwitch, Approve) are replayed by every shard, the calls are spread
func shardKey(op graph.Op) string {
	if op.Name() != "Call" {
		return ""
	}
	return op.Str("m") + op.Str("chain") + op.Str("kind") + op.Str("naming")
}

func TestReplay(t *testing.T) {
	var c Consts
	graph.Const(&c)
	a := New(t, c)
	pcenv.RunReplaySharded(t, a, a.root, shardKey)
}

func TestPath(t *testing.T) {
	var c Consts
	graph.Const(&c)
	a := New(t, c)
	graph.RunPath(t, a, a.root)
}
