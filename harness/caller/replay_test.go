package caller

import (
	"testing"

	"verifharness/graph"
	"verifharness/pcenv"
)

func TestReplay(t *testing.T) {
	var c Consts
	graph.Const(&c)
	a := New(t, c)
	pcenv.RunReplaySharded(t, a, a.root, nil) // sharded by state (switch setting x allowance grants)
}

func TestPath(t *testing.T) {
	var c Consts
	graph.Const(&c)
	a := New(t, c)
	graph.RunPath(t, a, a.root)
}
