package migrate

import (
	"testing"

	"verifharness/graph"
)

func TestReplay(t *testing.T) {
	var c Consts
	graph.Const(&c)
	a := New(t, c)
	graph.RunReplay(t, a, a.Root, nil)
}

func TestPath(t *testing.T) {
	var c Consts
	graph.Const(&c)
	a := New(t, c)
	graph.RunPath(t, a, a.Root)
}
