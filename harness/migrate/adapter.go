// Package migrate binds spec/Migrate.tla (property C14) to the real x/migrate, x/staking,
// x/distribution, x/bank and x/gov keepers of fx-core.
package migrate

import (
	"bytes"
	"crypto/ecdsa"
	"crypto/sha256"
	"encoding/binary"
	"encoding/hex"
	"fmt"
	"os"
	"sort"
	"strings"
	"testing"
	"time"

	"cosmossdk.io/collections"
	sdkmath "cosmossdk.io/math"
	storetypes "cosmossdk.io/store/types"
	abci "github.com/cometbft/cometbft/abci/types"
	"github.com/cosmos/cosmos-sdk/crypto/keys/ed25519"
	"github.com/cosmos/cosmos-sdk/crypto/keys/secp256k1"
	sdk "github.com/cosmos/cosmos-sdk/types"
	authtypes "github.com/cosmos/cosmos-sdk/x/auth/types"
	banktypes "github.com/cosmos/cosmos-sdk/x/bank/types"
	distr "github.com/cosmos/cosmos-sdk/x/distribution"
	distrkeeper "github.com/cosmos/cosmos-sdk/x/distribution/keeper"
	distrtypes "github.com/cosmos/cosmos-sdk/x/distribution/types"
	govtypes "github.com/cosmos/cosmos-sdk/x/gov/types"
	govv1 "github.com/cosmos/cosmos-sdk/x/gov/types/v1"
	stakingtypes "github.com/cosmos/cosmos-sdk/x/staking/types"
	"github.com/ethereum/go-ethereum/common"
	"github.com/ethereum/go-ethereum/crypto"
	"github.com/evmos/ethermint/crypto/ethsecp256k1"

	fxtypes "github.com/functionx/fx-core/v8/types"
	migratetypes "github.com/functionx/fx-core/v8/x/migrate/types"

	"verifharness/graph"
	"verifharness/world"
)

const rwdDenom = "rwd"

var (
	unit     = sdkmath.NewInt(1_000_000_000_000_000_000)
	baseTime = time.Unix(1_700_000_000, 0).UTC()
	debug    = os.Getenv("VERIF_DEBUG") != ""
)

type Consts struct {
	Src        []string         `json:"Src"`
	Tgt        []string         `json:"Tgt"`
	Val        []string         `json:"Val"`
	OpFrom     string           `json:"OpFrom"`
	OpTo       string           `json:"OpTo"`
	InitCoins  map[string]int64 `json:"InitCoins"`
	MinDeposit int64            `json:"MinDeposit"`
	UnbondH    int64            `json:"UnbondH"`
	DepositH   int64            `json:"DepositH"`
	VotingH    int64            `json:"VotingH"`
}

// epochKey carries, in the context, the instant the model's hour 0 corresponds to (TimePasses moves it along with
// the block time, so that the model's clock does not advance by a jump after which nothing time-dependent is left).
type epochKey struct{}

func epoch(ctx sdk.Context) time.Time {
	if v, ok := ctx.Value(epochKey{}).(time.Time); ok {
		return v
	}
	return baseTime
}

type Adapter struct {
	W     *world.W
	C     Consts
	Addrs []string // Src ++ Tgt (portfolio holders), sorted as given
	All   []string // Addrs ++ OpFrom, OpTo

	addr    map[string]sdk.AccAddress   // label -> 20 bytes
	name    map[string]string           // string(20 bytes) -> label
	ethKey  map[string]*ecdsa.PrivateKey // ethereum keys (targets, OpTo)
	val     map[string]sdk.ValAddress   // v1, v2
	valName map[string]string           // string(bytes) -> v1/v2
	votes   []abci.VoteInfo

	ut       time.Duration // unbonding period
	passHrs  int64         // hours a TimePasses jumps
	baseTok  map[string]sdkmath.Int
	baseBond sdkmath.Int
	baseUnb  sdkmath.Int
	baseGov  sdkmath.Int

	Root sdk.Context
}

func must(err error) {
	if err != nil {
		panic(err)
	}
}

func secpKey(label string) *secp256k1.PrivKey {
	h := sha256.Sum256([]byte("verif-key/secp256k1/" + label))
	return &secp256k1.PrivKey{Key: h[:]}
}

func fx(n int64) sdk.Coin { return sdk.NewCoin(fxtypes.DefaultDenom, unit.MulRaw(n)) }

// New builds the world of Migrate.tla's Init.
func New(t *testing.T, c Consts) *Adapter {
	w := world.New(t, len(c.Val))
	a := &Adapter{W: w, C: c, addr: map[string]sdk.AccAddress{}, name: map[string]string{}, ethKey: map[string]*ecdsa.PrivateKey{},
		val: map[string]sdk.ValAddress{}, valName: map[string]string{}, baseTok: map[string]sdkmath.Int{}}
	a.Addrs = append(append([]string{}, c.Src...), c.Tgt...)
	a.All = append(append([]string{}, a.Addrs...), c.OpFrom, c.OpTo)
	ctx := nextBlock(w.Ctx.WithBlockTime(baseTime).WithBlockHeight(w.Ctx.BlockHeight()+9), 0)

	for i, v := range c.Val {
		a.val[v] = w.ValAddr[i]
		a.valName[string(w.ValAddr[i])] = v
	}
	// sources: secp256k1 accounts whose public key is on the account (as after their first transaction)
	for _, s := range c.Src {
		k := secpKey(s)
		ad := sdk.AccAddress(k.PubKey().Address())
		acc := w.App.AccountKeeper.NewAccountWithAddress(ctx, ad)
		must(acc.SetPubKey(k.PubKey()))
		w.App.AccountKeeper.SetAccount(ctx, acc)
		a.addr[s] = ad
	}
	// targets and the eth-key operator: ethereum keys
	for _, x := range append(append([]string{}, c.Tgt...), c.OpTo) {
		k := w.Key("c14/" + x)
		ek, err := k.PrivKey().(*ethsecp256k1.PrivKey).ToECDSA()
		must(err)
		a.ethKey[x] = ek
		a.addr[x] = k.AccAddress()
	}
	a.addr[c.OpFrom] = sdk.AccAddress(w.ValAddr[0])
	for l, ad := range a.addr {
		a.name[string(ad)] = l
	}
	for _, x := range a.Addrs {
		if n := c.InitCoins[x]; n > 0 {
			w.MintCoins(ctx, a.addr[x], fx(n))
		}
	}

	// staking: a validator operated by the ethereum key OpTo (stays outside the active set)
	w.MintCoins(ctx, a.addr[c.OpTo], fx(50))
	cons := ed25519.GenPrivKeyFromSecret([]byte("verif-cons/" + c.OpTo))
	cv, err := stakingtypes.NewMsgCreateValidator(sdk.ValAddress(a.addr[c.OpTo]).String(), cons.PubKey(), fx(50),
		stakingtypes.Description{Moniker: "tv"}, stakingtypes.NewCommissionRates(sdkmath.LegacyZeroDec(), sdkmath.LegacyOneDec(), sdkmath.LegacyOneDec()), sdkmath.NewInt(1))
	must(err)
	must(w.Handle(ctx, cv))

	// governance: deposits of 1 FX, voting starts at MinDeposit FX; periods shorter than the unbonding period
	gp, err := w.App.GovKeeper.Params.Get(ctx)
	must(err)
	gp.MinDeposit = sdk.NewCoins(fx(c.MinDeposit))
	gp.ExpeditedMinDeposit = sdk.NewCoins(fx(c.MinDeposit * 5))
	gp.MinInitialDepositRatio = "0"
	gp.MinDepositRatio = "0"
	if c.DepositH == 0 {
		c.DepositH, c.VotingH = 48, 96
	}
	a.C = c
	dp, vp, evp := time.Duration(c.DepositH)*time.Hour, time.Duration(c.VotingH)*time.Hour, 24*time.Hour
	gp.MaxDepositPeriod, gp.VotingPeriod, gp.ExpeditedVotingPeriod = &dp, &vp, &evp
	must(w.Handle(ctx, &govv1.MsgUpdateParams{Authority: world.GovAddr(), Params: gp}))

	a.ut, err = w.App.StakingKeeper.UnbondingTime(ctx)
	must(err)
	a.passHrs = int64(a.ut/time.Hour) + 2
	if a.ut%time.Hour != 0 || (c.UnbondH != 0 && c.UnbondH != int64(a.ut/time.Hour)) {
		panic(fmt.Sprintf("unbonding period %v differs from the model's UnbondH=%d", a.ut, c.UnbondH))
	}
	if vp >= a.ut {
		panic("voting period must be shorter than the unbonding period")
	}

	// vote infos of the genesis validators for the distribution begin blocker
	for _, v := range c.Val {
		vv, err := w.App.StakingKeeper.GetValidator(ctx, a.val[v])
		must(err)
		ca, err := vv.GetConsAddr()
		must(err)
		a.votes = append(a.votes, abci.VoteInfo{Validator: abci.Validator{Address: ca, Power: vv.ConsensusPower(sdk.DefaultPowerReduction)}})
		a.baseTok[v] = vv.Tokens
	}
	a.baseBond = a.modBal(ctx, stakingtypes.BondedPoolName)
	a.baseUnb = a.modBal(ctx, stakingtypes.NotBondedPoolName)
	a.baseGov = a.modBal(ctx, govtypes.ModuleName)
	a.Root = ctx
	return a
}

// nextBlock derives the context of the next block, dt later: block header and header info agree, as baseapp sets them
// (staking's redelegation queue reads HeaderInfo().Time, the unbonding queue BlockHeader().Time).
func nextBlock(ctx sdk.Context, dt time.Duration) sdk.Context {
	t := ctx.BlockTime().Add(dt)
	out := ctx.WithBlockHeight(ctx.BlockHeight() + 1).WithBlockTime(t)
	hi := out.HeaderInfo()
	hi.Height, hi.Time, hi.ChainID = out.BlockHeight(), out.BlockTime(), out.ChainID()
	return out.WithHeaderInfo(hi)
}

func (a *Adapter) modBal(ctx sdk.Context, module string) sdkmath.Int {
	return a.W.App.BankKeeper.GetBalance(ctx, authtypes.NewModuleAddress(module), fxtypes.DefaultDenom).Amount
}

func (a *Adapter) bech(l string) string { return a.addr[l].String() }

// migrateMsg builds MsgMigrateAccount{from, to} carrying the signature of key `signer` over (from, to).
func (a *Adapter) migrateMsg(from, to, signer string) *migratetypes.MsgMigrateAccount {
	f := a.addr[from]
	t := common.BytesToAddress(a.addr[to])
	sig, err := crypto.Sign(migratetypes.MigrateAccountSignatureHash(f, t.Bytes()), a.ethKey[signer])
	must(err)
	return migratetypes.NewMsgMigrateAccount(f, t, hex.EncodeToString(sig))
}

// Apply implements graph.Adapter.
func (a *Adapter) Apply(ctx sdk.Context, op graph.Op) (out sdk.Context, res string) {
	w := a.W
	var err error
	out = ctx
	switch op.Name() {
	case "Delegate":
		err = w.Handle(ctx, &stakingtypes.MsgDelegate{DelegatorAddress: a.bech(op.Str("a")), ValidatorAddress: a.val[op.Str("v")].String(), Amount: fx(op.Int("n"))})
	case "Undelegate":
		err = w.Handle(ctx, &stakingtypes.MsgUndelegate{DelegatorAddress: a.bech(op.Str("a")), ValidatorAddress: a.val[op.Str("v")].String(), Amount: fx(op.Int("n"))})
	case "Redelegate":
		err = w.Handle(ctx, &stakingtypes.MsgBeginRedelegate{DelegatorAddress: a.bech(op.Str("a")), ValidatorSrcAddress: a.val[op.Str("v")].String(),
			ValidatorDstAddress: a.val[op.Str("w")].String(), Amount: fx(op.Int("n"))})
	case "WithdrawRewards":
		err = w.Handle(ctx, &distrtypes.MsgWithdrawDelegatorReward{DelegatorAddress: a.bech(op.Str("a")), ValidatorAddress: a.val[op.Str("v")].String()})
	case "RewardTick":
		// next block, one hour later: fees (reward denomination) collected, distribution's real begin blocker
		// allocates them to the validators that signed
		out = nextBlock(ctx, time.Hour).WithVoteInfos(a.votes)
		fees := sdk.NewCoins(sdk.NewCoin(rwdDenom, unit.MulRaw(1000)))
		must(w.App.BankKeeper.MintCoins(out, "mint", fees))
		must(w.App.BankKeeper.SendCoinsFromModuleToModule(out, "mint", authtypes.FeeCollectorName, fees))
		err = distr.BeginBlocker(out, w.App.DistrKeeper)
		if err != nil {
			panic(fmt.Sprintf("distribution begin blocker: %v", err))
		}
	case "TimePasses":
		// a block beyond the unbonding period (and beyond deposit and voting periods): the application's real end blocker
		out = nextBlock(ctx, time.Duration(a.passHrs)*time.Hour)
		out = out.WithValue(epochKey{}, epoch(ctx).Add(time.Duration(a.passHrs)*time.Hour))
		err = world.Atomic(out, func(c sdk.Context) error {
			_, e := w.App.EndBlocker(c)
			return e
		})
	case "BeginBlockExact":
		// a new block whose time is exactly the completion time of the oldest entry that is not yet mature; no end blocker
		next, found := a.oldestPending(ctx)
		if !found {
			return ctx, "rej"
		}
		out = nextBlock(ctx, next.Sub(ctx.BlockTime()))
	case "BeginBlockLater":
		out = nextBlock(ctx, time.Duration(a.passHrs)*time.Hour)
	case "EndBlock":
		// the application's real end blocker at the current block time
		err = world.Atomic(ctx, func(c sdk.Context) error {
			_, e := w.App.EndBlocker(c)
			return e
		})
		if err != nil {
			panic(fmt.Sprintf("end blocker failed: %v", err))
		}
	case "SubmitProposal":
		var m *govv1.MsgSubmitProposal
		m, err = govv1.NewMsgSubmitProposal(nil, sdk.NewCoins(fx(1)), a.bech(op.Str("a")), "text proposal", "C14", "text proposal of "+op.Str("a"), false)
		must(err)
		err = w.Handle(ctx, m)
	case "Deposit":
		err = w.Handle(ctx, govv1.NewMsgDeposit(a.addr[op.Str("a")], uint64(op.Int("p")), sdk.NewCoins(fx(1))))
	case "Vote":
		err = w.Handle(ctx, govv1.NewMsgVote(a.addr[op.Str("a")], uint64(op.Int("p")), govv1.OptionYes, ""))
	case "Migrate":
		msg := a.migrateMsg(op.Str("a"), op.Str("b"), op.Str("s"))
		// the transaction carrying the message must be signed by `from` (signing context of the application)
		signers, _, e := w.App.AppCodec().GetMsgV1Signers(msg)
		must(e)
		if len(signers) != 1 || !bytes.Equal(signers[0], a.addr[op.Str("a")]) {
			panic(fmt.Sprintf("signing context: required signers %x, expected %x", signers, a.addr[op.Str("a")]))
		}
		err = w.Handle(ctx, msg)
	default:
		panic("unknown op " + op.Name())
	}
	if err != nil {
		if debug {
			fmt.Printf("DEBUG %v -> %v\n", op, err)
		}
		return ctx, "rej"
	}
	return out, "ok"
}

// oldestPending returns the earliest completion time, after the current block time, of any unbonding or
// redelegation entry in the staking store.
func (a *Adapter) oldestPending(ctx sdk.Context) (best time.Time, found bool) {
	cdc := a.W.App.AppCodec()
	sst := ctx.KVStore(a.W.App.GetKey(stakingtypes.StoreKey))
	see := func(t time.Time) {
		if t.After(ctx.BlockTime()) && (!found || t.Before(best)) {
			best, found = t, true
		}
	}
	prefixIter(sst, stakingtypes.UnbondingDelegationKey, func(_, v []byte) {
		for _, e := range stakingtypes.MustUnmarshalUBD(cdc, v).Entries {
			see(e.CompletionTime)
		}
	})
	prefixIter(sst, stakingtypes.RedelegationKey, func(_, v []byte) {
		for _, e := range stakingtypes.MustUnmarshalRED(cdc, v).Entries {
			see(e.CompletionTime)
		}
	})
	return best, found
}

func (a *Adapter) nm(b []byte) string {
	if n, ok := a.name[string(b)]; ok {
		return n
	}
	return "?" + hex.EncodeToString(b)
}

func (a *Adapter) nmBech(s string) string {
	b, err := sdk.AccAddressFromBech32(s)
	if err != nil {
		return "?" + s
	}
	return a.nm(b)
}

func (a *Adapter) vnm(s string) string {
	b, err := sdk.ValAddressFromBech32(s)
	if err != nil {
		return "?" + s
	}
	if n, ok := a.valName[string(b)]; ok {
		return n
	}
	return "?" + s
}

// whole FX units of x; -1 when x is not a whole number of units (never produced by the model's operations)
func units(x sdkmath.Int) int64 {
	if !x.Mod(unit).IsZero() {
		return -1
	}
	return x.Quo(unit).Int64()
}

func (a *Adapter) slot(ctx sdk.Context, completion time.Time) int64 {
	return int64(completion.Add(-a.ut).Sub(epoch(ctx)) / time.Hour)
}

type pairKey = collections.Pair[uint64, sdk.AccAddress]

func collectionsPrefix(id uint64) collections.Ranger[pairKey] {
	return collections.NewPrefixedPairRange[uint64, sdk.AccAddress](id)
}

type entry struct {
	Amt  int64 `json:"amt"`
	Slot int64 `json:"slot"`
}

func prefixIter(st storetypes.KVStore, p []byte, f func(k, v []byte)) {
	it := storetypes.KVStorePrefixIterator(st, p)
	defer it.Close()
	for ; it.Valid(); it.Next() {
		f(it.Key(), it.Value())
	}
}

// Project reads the real stores into Migrate.tla's Abs.
func (a *Adapter) Project(ctx sdk.Context) any {
	app := a.W.App
	cdc := app.AppCodec()
	sst := ctx.KVStore(app.GetKey(stakingtypes.StoreKey))
	dst := ctx.KVStore(app.GetKey(distrtypes.StoreKey))
	bst := ctx.KVStore(app.GetKey(banktypes.StoreKey))
	mst := ctx.KVStore(app.GetKey(migratetypes.StoreKey))

	var bad, qbad []string // inconsistencies found by the raw scans

	coins, rwd := map[string]int64{}, map[string]bool{}
	deleg, pend := map[string]map[string]int64{}, map[string]map[string]bool{}
	ubd := map[string]map[string][]entry{}
	red := map[string]map[string]map[string][]entry{}
	for _, x := range a.Addrs {
		coins[x] = units(app.BankKeeper.GetBalance(ctx, a.addr[x], fxtypes.DefaultDenom).Amount)
		rwd[x] = app.BankKeeper.GetBalance(ctx, a.addr[x], rwdDenom).Amount.IsPositive()
		deleg[x], pend[x], ubd[x], red[x] = map[string]int64{}, map[string]bool{}, map[string][]entry{}, map[string]map[string][]entry{}
		for _, v := range a.C.Val {
			deleg[x][v], pend[x][v], ubd[x][v] = 0, false, []entry{}
			red[x][v] = map[string][]entry{}
			for _, u := range a.C.Val {
				if u != v {
					red[x][v][u] = []entry{}
				}
			}
		}
	}

	// ---- delegations (0x31) with by-validator index (0x71) and distribution starting info (0x04)
	type dv struct{ d, v string }
	delRec := map[dv]bool{}
	prefixIter(sst, stakingtypes.DelegationKey, func(k, v []byte) {
		d := stakingtypes.MustUnmarshalDelegation(cdc, v)
		db, _ := sdk.AccAddressFromBech32(d.DelegatorAddress)
		vb, _ := sdk.ValAddressFromBech32(d.ValidatorAddress)
		if !bytes.Equal(k, stakingtypes.GetDelegationKey(db, vb)) {
			bad = append(bad, "delegation record "+hex.EncodeToString(k)+" names "+d.DelegatorAddress)
		}
		delRec[dv{string(db), string(vb)}] = true
		if !sst.Has(stakingtypes.GetDelegationsByValKey(vb, db)) {
			bad = append(bad, "delegation "+a.nm(db)+"/"+a.vnm(d.ValidatorAddress)+" without by-validator index entry")
		}
		if !dst.Has(distrtypes.GetDelegatorStartingInfoKey(vb, db)) {
			bad = append(bad, "delegation "+a.nm(db)+"/"+a.vnm(d.ValidatorAddress)+" without distribution starting info")
		}
		dn, vn := a.nm(db), a.vnm(d.ValidatorAddress)
		if m, ok := deleg[dn]; ok {
			if _, ok2 := m[vn]; ok2 {
				if !d.Shares.IsInteger() {
					m[vn] = -1
				} else {
					m[vn] = units(d.Shares.TruncateInt())
				}
			}
		}
	})
	prefixIter(sst, stakingtypes.DelegationByValIndexKey, func(k, _ []byte) {
		vb, db, err := stakingtypes.ParseDelegationsByValKey(k)
		if err != nil || !delRec[dv{string(db), string(vb)}] {
			bad = append(bad, "by-validator delegation index entry "+hex.EncodeToString(k)+" ("+a.nm(db)+") without delegation")
		}
	})
	prefixIter(dst, distrtypes.DelegatorStartingInfoPrefix, func(k, _ []byte) {
		vb, db := distrtypes.GetDelegatorStartingInfoAddresses(k)
		if !delRec[dv{string(db), string(vb)}] {
			bad = append(bad, "distribution starting info "+hex.EncodeToString(k)+" ("+a.nm(db)+") without delegation")
		}
	})

	// ---- unbonding delegations (0x32), index (0x33), unbonding-id index (0x38), time queue (0x41)
	type ent struct {
		key  string // record key
		id   uint64
		time int64 // completion, unix nano
	}
	ubdRec := map[dv][]ent{}
	idOwner := map[uint64]string{} // unbonding id -> key of the record that holds the entry
	prefixIter(sst, stakingtypes.UnbondingDelegationKey, func(k, v []byte) {
		u := stakingtypes.MustUnmarshalUBD(cdc, v)
		db, _ := sdk.AccAddressFromBech32(u.DelegatorAddress)
		vb, _ := sdk.ValAddressFromBech32(u.ValidatorAddress)
		if !bytes.Equal(k, stakingtypes.GetUBDKey(db, vb)) {
			bad = append(bad, "unbonding record "+hex.EncodeToString(k)+" names "+u.DelegatorAddress)
		}
		if !sst.Has(stakingtypes.GetUBDByValIndexKey(db, vb)) {
			bad = append(bad, "unbonding "+a.nm(db)+"/"+a.vnm(u.ValidatorAddress)+" without by-validator index entry")
		}
		dn, vn := a.nm(db), a.vnm(u.ValidatorAddress)
		for _, e := range u.Entries {
			ubdRec[dv{string(db), string(vb)}] = append(ubdRec[dv{string(db), string(vb)}], ent{string(k), e.UnbondingId, e.CompletionTime.UnixNano()})
			idOwner[e.UnbondingId] = string(k)
			if m, ok := ubd[dn]; ok {
				if _, ok2 := m[vn]; ok2 {
					m[vn] = append(m[vn], entry{units(e.Balance), a.slot(ctx, e.CompletionTime)})
				}
			}
		}
	})
	prefixIter(sst, stakingtypes.UnbondingDelegationByValIndexKey, func(k, _ []byte) {
		// key: 0x33 | len | val | len | del
		vl := int(k[1])
		vb := k[2 : 2+vl]
		db := k[3+vl:]
		if _, ok := ubdRec[dv{string(db), string(vb)}]; !ok {
			bad = append(bad, "by-validator unbonding index entry "+hex.EncodeToString(k)+" ("+a.nm(db)+") without record")
		}
	})

	// ---- redelegations (0x34), indexes (0x35, 0x36), unbonding-id index, time queue (0x42)
	type dvv struct{ d, s, t string }
	redRec := map[dvv][]ent{}
	prefixIter(sst, stakingtypes.RedelegationKey, func(k, v []byte) {
		r := stakingtypes.MustUnmarshalRED(cdc, v)
		db, _ := sdk.AccAddressFromBech32(r.DelegatorAddress)
		sb, _ := sdk.ValAddressFromBech32(r.ValidatorSrcAddress)
		tb, _ := sdk.ValAddressFromBech32(r.ValidatorDstAddress)
		if !bytes.Equal(k, stakingtypes.GetREDKey(db, sb, tb)) {
			bad = append(bad, "redelegation record "+hex.EncodeToString(k)+" names "+r.DelegatorAddress)
		}
		if !sst.Has(stakingtypes.GetREDByValSrcIndexKey(db, sb, tb)) || !sst.Has(stakingtypes.GetREDByValDstIndexKey(db, sb, tb)) {
			bad = append(bad, "redelegation of "+a.nm(db)+" without by-validator index entries")
		}
		dn, sn, tn := a.nm(db), a.vnm(r.ValidatorSrcAddress), a.vnm(r.ValidatorDstAddress)
		for _, e := range r.Entries {
			redRec[dvv{string(db), string(sb), string(tb)}] = append(redRec[dvv{string(db), string(sb), string(tb)}], ent{string(k), e.UnbondingId, e.CompletionTime.UnixNano()})
			idOwner[e.UnbondingId] = string(k)
			if m, ok := red[dn]; ok {
				if m2, ok2 := m[sn]; ok2 {
					if _, ok3 := m2[tn]; ok3 {
						m2[tn] = append(m2[tn], entry{units(e.InitialBalance), a.slot(ctx, e.CompletionTime)})
					}
				}
			}
		}
	})
	for _, p := range [][]byte{stakingtypes.RedelegationByValSrcIndexKey, stakingtypes.RedelegationByValDstIndexKey} {
		p := p
		prefixIter(sst, p, func(k, _ []byte) {
			var rk []byte
			if p[0] == stakingtypes.RedelegationByValSrcIndexKey[0] {
				rk = stakingtypes.GetREDKeyFromValSrcIndexKey(k)
			} else {
				rk = stakingtypes.GetREDKeyFromValDstIndexKey(k)
			}
			if !sst.Has(rk) {
				bad = append(bad, "by-validator redelegation index entry "+hex.EncodeToString(k)+" without record")
			}
		})
	}
	// unbonding-id index: id -> key of the record holding the entry with that id
	prefixIter(sst, stakingtypes.UnbondingIndexKey, func(k, v []byte) {
		id := binary.BigEndian.Uint64(k[1:])
		if o, ok := idOwner[id]; ok {
			if o != string(v) {
				bad = append(bad, fmt.Sprintf("unbonding-id index %d points to %x, the entry is held by record %x", id, v, o))
			}
			delete(idOwner, id)
		} else if len(v) > 0 && (v[0] == stakingtypes.UnbondingDelegationKey[0] || v[0] == stakingtypes.RedelegationKey[0]) {
			bad = append(bad, fmt.Sprintf("unbonding-id index %d points to %x which holds no such entry", id, v))
		}
	})
	for id, o := range idOwner {
		bad = append(bad, fmt.Sprintf("entry with unbonding id %d of record %x has no unbonding-id index entry", id, o))
	}
	// time queues: every (time, delegator, validator[s]) of a queue names a record with an entry completing at that
	// time, and every entry has its queue element
	ubdQ := map[string]bool{}
	prefixIter(sst, stakingtypes.UnbondingQueueKey, func(k, v []byte) {
		ts, err := sdk.ParseTimeBytes(k[1:])
		must(err)
		var ps stakingtypes.DVPairs
		cdc.MustUnmarshal(v, &ps)
		for _, p := range ps.Pairs {
			db, _ := sdk.AccAddressFromBech32(p.DelegatorAddress)
			vb, _ := sdk.ValAddressFromBech32(p.ValidatorAddress)
			found := false
			for _, e := range ubdRec[dv{string(db), string(vb)}] {
				if e.time == ts.UnixNano() {
					found = true
				}
			}
			if !found {
				qbad = append(qbad, "unbonding queue element "+a.nmBech(p.DelegatorAddress)+"/"+a.vnm(p.ValidatorAddress)+" without entry")
			}
			ubdQ[fmt.Sprintf("%d|%s|%s", ts.UnixNano(), string(db), string(vb))] = true
		}
	})
	for k, es := range ubdRec {
		for _, e := range es {
			if !ubdQ[fmt.Sprintf("%d|%s|%s", e.time, k.d, k.v)] {
				qbad = append(qbad, "unbonding entry of "+a.nm([]byte(k.d))+" without queue element")
			}
		}
	}
	redQ := map[string]bool{}
	prefixIter(sst, stakingtypes.RedelegationQueueKey, func(k, v []byte) {
		ts, err := sdk.ParseTimeBytes(k[1:])
		must(err)
		var ps stakingtypes.DVVTriplets
		cdc.MustUnmarshal(v, &ps)
		for _, p := range ps.Triplets {
			db, _ := sdk.AccAddressFromBech32(p.DelegatorAddress)
			sb, _ := sdk.ValAddressFromBech32(p.ValidatorSrcAddress)
			tb, _ := sdk.ValAddressFromBech32(p.ValidatorDstAddress)
			found := false
			for _, e := range redRec[dvv{string(db), string(sb), string(tb)}] {
				if e.time == ts.UnixNano() {
					found = true
				}
			}
			if !found {
				qbad = append(qbad, "redelegation queue element of "+a.nmBech(p.DelegatorAddress)+" without entry")
			}
			redQ[fmt.Sprintf("%d|%s|%s|%s", ts.UnixNano(), string(db), string(sb), string(tb))] = true
		}
	})
	for k, es := range redRec {
		for _, e := range es {
			if !redQ[fmt.Sprintf("%d|%s|%s|%s", e.time, k.d, k.s, k.t)] {
				qbad = append(qbad, "redelegation entry of "+a.nm([]byte(k.d))+" without queue element")
			}
		}
	}

	// ---- pending rewards: distribution's own query (period increment + reward calculation on a branch)
	q := distrkeeper.NewQuerier(app.DistrKeeper)
	for _, x := range a.Addrs {
		for _, v := range a.C.Val {
			if deleg[x][v] == 0 {
				continue
			}
			func() {
				defer func() {
					if r := recover(); r != nil {
						bad = append(bad, fmt.Sprintf("rewards of %s/%s cannot be computed: %v", x, v, r))
					}
				}()
				cc, _ := ctx.CacheContext()
				r, err := q.DelegationRewards(cc, &distrtypes.QueryDelegationRewardsRequest{DelegatorAddress: a.bech(x), ValidatorAddress: a.val[v].String()})
				if err != nil {
					bad = append(bad, fmt.Sprintf("rewards of %s/%s cannot be computed: %v", x, v, err))
					return
				}
				pend[x][v] = r.Rewards.AmountOf(rwdDenom).IsPositive()
			}()
		}
	}

	// ---- migration records (0x01 | addr -> flag | peer | height; direction markers 0x02, 0x03)
	migTo, migFrom := map[string]string{}, map[string]string{}
	var migrated [][]byte
	for _, x := range a.All {
		migTo[x], migFrom[x] = "none", "none"
	}
	prefixIter(mst, migratetypes.KeyPrefixMigratedRecord, func(k, v []byte) {
		self := a.nm(k[1:])
		peer := "?short"
		if len(v) >= 21 {
			peer = a.nm(v[1:21])
		}
		switch {
		case len(v) > 0 && v[0] == migratetypes.ValuePrefixMigrateFromFlag[0]:
			if !mst.Has(migratetypes.GetMigratedDirectionFrom(k[1:])) {
				peer += "!direction"
			}
			if _, ok := migTo[self]; ok {
				migTo[self] = peer
			} else {
				migTo[a.All[0]] = "?" + self + ">" + peer
			}
			migrated = append(migrated, append([]byte{}, k[1:]...))
		default:
			if !mst.Has(migratetypes.GetMigratedDirectionTo(common.BytesToAddress(k[1:]))) {
				peer += "!direction"
			}
			if _, ok := migFrom[self]; ok {
				migFrom[self] = peer
			} else {
				migFrom[a.All[0]] = "?" + self + "<" + peer
			}
		}
	})

	// ---- governance
	props := []map[string]any{}
	next, err := app.GovKeeper.ProposalID.Peek(ctx)
	must(err)
	for id := uint64(1); id < next; id++ {
		dep, vote := map[string]int64{}, map[string]bool{}
		for _, x := range a.Addrs {
			dep[x], vote[x] = 0, false
		}
		pr := map[string]any{"phase": "closed", "t": int64(0), "proposer": "none", "dep": dep, "vote": vote}
		if p, err := app.GovKeeper.Proposals.Get(ctx, id); err == nil {
			switch p.Status {
			case govv1.StatusDepositPeriod:
				pr["phase"] = "deposit"
				if p.SubmitTime != nil && p.DepositEndTime != nil && p.DepositEndTime.Sub(*p.SubmitTime) == time.Duration(a.C.DepositH)*time.Hour {
					pr["t"] = int64(p.SubmitTime.Sub(epoch(ctx)) / time.Hour)
				} else {
					pr["t"] = int64(-1)
				}
			case govv1.StatusVotingPeriod:
				pr["phase"] = "voting"
				if p.VotingStartTime != nil && p.VotingEndTime != nil && p.VotingEndTime.Sub(*p.VotingStartTime) == time.Duration(a.C.VotingH)*time.Hour {
					pr["t"] = int64(p.VotingStartTime.Sub(epoch(ctx)) / time.Hour)
				} else {
					pr["t"] = int64(-1)
				}
			}
			if pr["phase"] != "closed" {
				pr["proposer"] = a.nmBech(p.Proposer)
			}
		}
		rng := collectionsPrefix(id)
		must(app.GovKeeper.Deposits.Walk(ctx, rng, func(_ pairKey, d govv1.Deposit) (bool, error) {
			n := a.nmBech(d.Depositor)
			if _, ok := dep[n]; !ok {
				n = a.Addrs[0]
				dep[n] += 1000
			}
			dep[n] += units(sdk.NewCoins(d.Amount...).AmountOf(fxtypes.DefaultDenom))
			return false, nil
		}))
		must(app.GovKeeper.Votes.Walk(ctx, rng, func(_ pairKey, vt govv1.Vote) (bool, error) {
			if _, ok := vote[a.nmBech(vt.Voter)]; ok {
				vote[a.nmBech(vt.Voter)] = true
			}
			return false, nil
		}))
		props = append(props, pr)
	}

	// ---- totals
	vtok := map[string]int64{}
	for _, v := range a.C.Val {
		vv, err := app.StakingKeeper.GetValidator(ctx, a.val[v])
		must(err)
		vtok[v] = units(vv.Tokens.Sub(a.baseTok[v]))
	}

	// ---- leftover: keys / values of the staking, distribution and bank stores that still embed a migrated source
	leftover := 0
	var left []string
	for _, src := range migrated {
		bech := []byte(sdk.AccAddress(src).String())
		for name, st := range map[string]storetypes.KVStore{"staking": sst, "distribution": dst, "bank": bst} {
			prefixIter(st, nil, func(k, v []byte) {
				if bytes.Contains(k, src) || bytes.Contains(v, src) || bytes.Contains(v, bech) {
					leftover++
					if debug {
						left = append(left, fmt.Sprintf("%s %x=%x", name, k, v))
					}
				}
			})
		}
	}

	// ---- the SDK's registered invariants
	inv := "ok"
	var broken []string
	ic, _ := ctx.CacheContext()
	for _, r := range app.CrisisKeeper.Routes() {
		func() {
			defer func() {
				if rec := recover(); rec != nil {
					broken = append(broken, r.ModuleName+"/"+r.Route+"(panic)")
				}
			}()
			if msg, stop := r.Invar(ic); stop {
				broken = append(broken, r.ModuleName+"/"+r.Route)
				if debug {
					fmt.Println("DEBUG invariant:", msg)
				}
			}
		}()
	}
	if len(broken) > 0 {
		sort.Strings(broken)
		inv = strings.Join(broken, ",")
	}
	if debug && (len(bad) > 0 || len(qbad) > 0 || len(left) > 0) {
		fmt.Println("DEBUG idxBad:", bad, "qBad:", qbad, "leftover:", left)
	}
	hours := int64(ctx.BlockTime().Sub(epoch(ctx)) / time.Hour)
	return map[string]any{
		"coins": coins, "rwd": rwd, "deleg": deleg, "pend": pend, "ubd": ubd, "red": red,
		"migTo": migTo, "migFrom": migFrom, "props": props, "now": hours,
		"vtok": vtok, "bonded": units(a.modBal(ctx, stakingtypes.BondedPoolName).Sub(a.baseBond)),
		"unbonding": units(a.modBal(ctx, stakingtypes.NotBondedPoolName).Sub(a.baseUnb)),
		"govBal":    units(a.modBal(ctx, govtypes.ModuleName).Sub(a.baseGov)),
		"idxBad":    len(bad), "qBad": len(qbad), "leftover": leftover, "inv": inv,
	}
}
