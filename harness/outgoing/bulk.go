package outgoing

import (
	"fmt"
	"os"
	"time"

	storetypes "cosmossdk.io/store/types"
	sdk "github.com/cosmos/cosmos-sdk/types"

	fxtypes "github.com/functionx/fx-core/v8/types"
	"github.com/functionx/fx-core/v8/x/crosschain/types"

	"verifharness/graph"
	"verifharness/world"
)

// Bulk binds spec/OutgoingBulk.tla: many pending transfers around the batch size limit.
type Bulk struct{ *Adapter }

func (b *Bulk) Apply(ctx sdk.Context, op graph.Op) (sdk.Context, string) {
	a, w, ch := b.Adapter, b.W, b.C.Chain
	u := a.user(a.C.User[0]).AccAddress().String()
	var err error
	switch op.Name() {
	case "SendN":
		k := int(op.Int("k"))
		err = world.Atomic(ctx, func(c sdk.Context) error {
			for i := 0; i < k; i++ {
				if e := w.Handle(c, &types.MsgSendToExternal{ChainName: ch, Sender: u, Dest: a.dest, Amount: a.coin(1), BridgeFee: a.coin(1)}); e != nil {
					return e
				}
			}
			return nil
		})
	case "RequestBatch":
		if a.K.GetLastObservedBlockHeight(ctx).ExternalBlockHeight == 0 {
			a.K.SetLastObservedBlockHeight(ctx, 100, uint64(ctx.BlockHeight())) // an external height has been observed (Outgoing.tla covers the refusal before that)
		}
		err = w.Handle(ctx, &types.MsgRequestBatch{ChainName: ch, Sender: a.bridger.AccAddress().String(), Denom: a.bridgeDen,
			MinimumFee: unit, FeeReceive: world.DetExt(ch + "/feereceive"), BaseFee: unit.MulRaw(0)})
	case "FxBlock":
		err = world.Atomic(ctx, func(c sdk.Context) error { _, e := w.App.EndBlocker(c); return e })
		if err == nil {
			next := ctx.WithBlockHeight(ctx.BlockHeight() + 1).WithBlockTime(ctx.BlockTime().Add(5 * time.Second))
			if e := world.Atomic(next, func(c sdk.Context) error { _, e := w.App.BeginBlocker(c); return e }); e != nil {
				err = e
			} else {
				return next, "ok"
			}
		}
	default:
		panic("unknown op " + op.Name())
	}
	if err != nil {
		if os.Getenv("VERIF_DEBUG") != "" {
			fmt.Printf("DEBUG %v -> %v\n", op, err)
		}
		return ctx, "rej"
	}
	return ctx, "ok"
}

func (b *Bulk) Project(ctx sdk.Context) any {
	a := b.Adapter
	st := ctx.KVStore(a.storeKey)
	cdc := a.W.App.AppCodec()
	seen := map[uint64]int{}
	pooled := 0
	it := storetypes.KVStorePrefixIterator(st, types.OutgoingTxPoolKey)
	for ; it.Valid(); it.Next() {
		var tx types.OutgoingTransferTx
		cdc.MustUnmarshal(it.Value(), &tx)
		seen[tx.Id]++
		pooled++
	}
	it.Close()
	byNonce := map[uint64]int{}
	var maxNonce uint64
	it = storetypes.KVStorePrefixIterator(st, types.OutgoingTxBatchKey)
	for ; it.Valid(); it.Next() {
		var bt types.OutgoingTxBatch
		cdc.MustUnmarshal(it.Value(), &bt)
		byNonce[bt.BatchNonce] = len(bt.Transactions)
		if bt.BatchNonce > maxNonce {
			maxNonce = bt.BatchNonce
		}
		for _, tx := range bt.Transactions {
			seen[tx.Id]++
		}
	}
	it.Close()
	batch := []int{}
	for n := uint64(1); n <= maxNonce; n++ {
		batch = append(batch, byNonce[n])
	}
	sent := seq(st, types.KeyLastTxPoolID)
	if sent > 0 {
		sent--
	}
	for _, c := range seen {
		if c > 1 {
			pooled += 100000 // the same id in two places
		}
	}
	bal := units(a.W.App.BankKeeper.GetBalance(ctx, a.user(a.C.User[0]).AccAddress(), fxtypes.DefaultDenom).Amount)
	return map[string]any{"bal": bal, "sent": sent, "pooled": pooled, "batch": batch, "fxH": ctx.BlockHeight() - a.base}
}
