package outgoing

import (
	"encoding/json"
	"fmt"
	"os"
	"testing"
	"time"

	sdkmath "cosmossdk.io/math"
	storetypes "cosmossdk.io/store/types"
	codectypes "github.com/cosmos/cosmos-sdk/codec/types"
	sdk "github.com/cosmos/cosmos-sdk/types"
	"github.com/ethereum/go-ethereum/common"

	fxtypes "github.com/functionx/fx-core/v8/types"
	"github.com/functionx/fx-core/v8/x/crosschain/types"
	erc20types "github.com/functionx/fx-core/v8/x/erc20/types"

	"verifharness/graph"
	"verifharness/world"
)

// Tok binds spec/OutgoingTok.tla: the outgoing pool with TWO tokens (FX = "x", a module-owned ERC-20 pair = "y").
type Tok struct {
	*Adapter
	tokY    string
	denomY  string
	bridgeY string
	erc20Y  common.Address
}

type tokEvent struct {
	T   string `json:"t"`
	H   int64  `json:"h"`
	A   int64  `json:"a"`
	K   string `json:"k"`
	Amt int64  `json:"amt"`
}

type tokEnv struct {
	ExtH   int64            `json:"extH"`
	Queue  []tokEvent       `json:"queue"`
	Xbt    []string         `json:"xbt"`
	Xlast  map[string]int64 `json:"xlast"`
	ObsOut map[string]int64 `json:"obsOut"`
}

var tokEnvKey = []byte{0xFE, 't', 'o', 'k'}

func NewTok(t *testing.T, c Consts) *Tok {
	c.Token = "FX"
	a := New(t, c)
	b := &Tok{Adapter: a}
	w, ctx := a.W, a.W.Ctx
	b.tokY = world.DetExt(c.Chain + "/token/TUSD")
	b.bridgeY = types.NewBridgeDenom(c.Chain, b.tokY)
	md := fxtypes.GetCrossChainMetadataManyToOne("Test USD", "TUSD", 18, b.bridgeY)
	must(w.Handle(ctx, &erc20types.MsgRegisterCoin{Authority: world.GovAddr(), Metadata: md}))
	must(a.K.AddBridgeTokenExecuted(ctx, &types.MsgBridgeTokenClaim{ChainName: c.Chain, TokenContract: b.tokY, Name: "Test USD", Symbol: "TUSD", Decimals: 18}))
	b.denomY = md.Base
	pair, ok := w.App.Erc20Keeper.GetTokenPair(ctx, b.denomY)
	if !ok {
		panic("pair not registered")
	}
	b.erc20Y = pair.GetERC20Contract()
	must(w.App.BankKeeper.MintCoins(ctx, c.Chain, sdk.NewCoins(sdk.NewCoin(b.bridgeY, unit.MulRaw(c.InitBal*int64(len(c.User)))))))
	for _, u := range c.User {
		w.MintCoins(ctx, a.user(u).AccAddress(), sdk.NewCoin(b.denomY, unit.MulRaw(c.InitBal)))
	}
	a.K.SetLastObservedBlockHeight(ctx, 10, uint64(ctx.BlockHeight()))
	env := tokEnv{ExtH: 10, Queue: []tokEvent{}, Xbt: fill(c.MaxBatch + 1), Xlast: map[string]int64{"x": 0, "y": 0}, ObsOut: map[string]int64{"x": 0, "y": 0}}
	b.putTokEnv(ctx, &env)
	return b
}

func (b *Tok) getTokEnv(ctx sdk.Context) *tokEnv {
	var e tokEnv
	must(json.Unmarshal(ctx.KVStore(b.storeKey).Get(tokEnvKey), &e))
	return &e
}

func (b *Tok) putTokEnv(ctx sdk.Context, e *tokEnv) {
	bz, err := json.Marshal(e)
	must(err)
	ctx.KVStore(b.storeKey).Set(tokEnvKey, bz)
}

func (b *Tok) denomOf(k string) string {
	if k == "y" {
		return b.denomY
	}
	return fxtypes.DefaultDenom
}

func (b *Tok) contractOf(k string) string {
	if k == "y" {
		return b.tokY
	}
	return b.tok
}

func (b *Tok) tokenName(contract string) string {
	switch contract {
	case b.tok:
		return "x"
	case b.tokY:
		return "y"
	}
	return "?" + contract
}

func (b *Tok) Apply(ctx sdk.Context, op graph.Op) (sdk.Context, string) {
	a, w, ch := b.Adapter, b.W, b.C.Chain
	var err error
	switch op.Name() {
	case "Send":
		d := b.denomOf(op.Str("k"))
		err = w.Handle(ctx, &types.MsgSendToExternal{ChainName: ch, Sender: a.user(op.Str("u")).AccAddress().String(), Dest: a.dest,
			Amount: sdk.NewCoin(d, unit), BridgeFee: sdk.NewCoin(d, unit)})
	case "Cancel":
		err = w.Handle(ctx, &types.MsgCancelSendToExternal{ChainName: ch, Sender: a.user(op.Str("u")).AccAddress().String(), TransactionId: uint64(op.Int("id"))})
	case "RequestBatch":
		den := fxtypes.DefaultDenom
		if op.Str("k") == "y" {
			den = b.bridgeY
		}
		err = w.Handle(ctx, &types.MsgRequestBatch{ChainName: ch, Sender: a.bridger.AccAddress().String(), Denom: den,
			MinimumFee: unit, FeeReceive: world.DetExt(ch + "/feereceive"), BaseFee: sdkmath.ZeroInt()})
	case "FxBlock":
		err = world.Atomic(ctx, func(c sdk.Context) error { _, e := w.App.EndBlocker(c); return e })
		if err == nil {
			next := ctx.WithBlockHeight(ctx.BlockHeight() + 1).WithBlockTime(ctx.BlockTime().Add(5 * time.Second))
			if e := world.Atomic(next, func(c sdk.Context) error { _, e := w.App.BeginBlocker(c); return e }); e != nil {
				err = e
			} else {
				return next, "ok"
			}
		}
	case "ExtBlock":
		e := b.getTokEnv(ctx)
		e.ExtH++
		b.putTokEnv(ctx, e)
	case "ExtOther":
		e := b.getTokEnv(ctx)
		e.Queue = append(e.Queue, tokEvent{T: "other", H: e.ExtH, K: "none"})
		b.putTokEnv(ctx, e)
	case "ExtExecBatch":
		e := b.getTokEnv(ctx)
		n := op.Int("id")
		var batch *types.OutgoingTxBatch
		for _, c := range []string{b.tok, b.tokY} {
			if x := a.K.GetOutgoingTxBatch(ctx, c, uint64(n)); x != nil {
				batch = x
			}
		}
		if batch == nil {
			return ctx, "rej"
		}
		k := b.tokenName(batch.TokenContract)
		if e.Xbt[n-1] != "none" || n <= e.Xlast[k] || e.ExtH >= int64(batch.BatchTimeout) {
			return ctx, "rej"
		}
		e.Xbt[n-1], e.Xlast[k] = "exec", n
		e.Queue = append(e.Queue, tokEvent{T: "batch", H: e.ExtH, A: n, K: k, Amt: a.batchValue(batch)})
		b.putTokEnv(ctx, e)
	case "Observe":
		e := b.getTokEnv(ctx)
		n := a.K.GetLastObservedEventNonce(ctx) + 1
		if len(e.Queue) == 0 || int(n) > a.C.MaxEv {
			return ctx, "rej"
		}
		ev := e.Queue[0]
		bridger := a.bridger.AccAddress().String()
		var claim types.ExternalClaim
		if ev.T == "batch" {
			claim = &types.MsgSendToExternalClaim{ChainName: ch, BridgerAddress: bridger, EventNonce: n, BlockHeight: uint64(ev.H), BatchNonce: uint64(ev.A), TokenContract: b.contractOf(ev.K)}
		} else {
			// an unrelated event: a bridge token registration that fails in its handler (already registered) but is observed
			claim = &types.MsgBridgeTokenClaim{ChainName: ch, BridgerAddress: bridger, EventNonce: n, BlockHeight: uint64(ev.H), TokenContract: b.tok,
				Name: "Function X", Symbol: fxtypes.DefaultDenom, Decimals: 18}
		}
		any, e2 := codectypes.NewAnyWithValue(claim)
		must(e2)
		err = w.Handle(ctx, &types.MsgClaim{ChainName: ch, BridgerAddress: bridger, Claim: any})
		if err != nil {
			break
		}
		e.Queue = e.Queue[1:]
		if ev.T == "batch" {
			e.ObsOut[ev.K] += ev.Amt
		}
		b.putTokEnv(ctx, e)
	default:
		panic("unknown op " + op.Name())
	}
	if err != nil {
		if os.Getenv("VERIF_DEBUG") != "" {
			fmt.Printf("DEBUG %v -> %v\n", op, err)
		}
		return ctx, "rej"
	}
	return ctx, "ok"
}

type tokTx struct {
	St string `json:"st"`
	U  string `json:"u"`
	K  string `json:"k"`
	B  int64  `json:"b"`
}
type tokBt struct {
	St      string `json:"st"`
	K       string `json:"k"`
	Timeout int64  `json:"timeout"`
	Block   int64  `json:"block"`
}

func (b *Tok) Project(ctx sdk.Context) any {
	a, c := b.Adapter, b.C
	st := ctx.KVStore(a.storeKey)
	cdc := a.W.App.AppCodec()
	last := func(key []byte) int64 {
		if n := seq(st, key); n > 0 {
			return n - 1
		}
		return 0
	}
	ntx, nbt := last(types.KeyLastTxPoolID), last(types.KeyLastOutgoingBatchID)
	txs := make([]tokTx, c.MaxTx+1)
	for i := range txs {
		txs[i] = tokTx{St: "none", U: "none", K: "none"}
		if int64(i+1) <= ntx {
			txs[i].St = "gone"
		}
	}
	place := func(tx *types.OutgoingTransferTx, stt string, bn int64) {
		i := int(tx.Id) - 1
		if i < 0 || i >= len(txs) {
			return
		}
		if txs[i].St == "pool" || txs[i].St == "batch" {
			txs[i].St = "dup"
			return
		}
		k := b.tokenName(tx.Token.Contract)
		if tx.Fee.Contract != tx.Token.Contract || units(tx.Token.Amount) != 1 || units(tx.Fee.Amount) != 1 || tx.DestAddress != a.dest {
			k += "!record"
		}
		txs[i] = tokTx{St: stt, U: a.userName(sdk.MustAccAddressFromBech32(tx.Sender)), K: k, B: bn}
	}
	it := storetypes.KVStorePrefixIterator(st, types.OutgoingTxPoolKey)
	for ; it.Valid(); it.Next() {
		var tx types.OutgoingTransferTx
		cdc.MustUnmarshal(it.Value(), &tx)
		place(&tx, "pool", 0)
	}
	it.Close()
	bts := make([]tokBt, c.MaxBatch+1)
	for i := range bts {
		bts[i] = tokBt{St: "none", K: "none"}
		if int64(i+1) <= nbt {
			bts[i].St = "gone"
		}
	}
	it = storetypes.KVStorePrefixIterator(st, types.OutgoingTxBatchKey)
	for ; it.Valid(); it.Next() {
		var bt types.OutgoingTxBatch
		cdc.MustUnmarshal(it.Value(), &bt)
		i := int(bt.BatchNonce) - 1
		if i >= 0 && i < len(bts) {
			bts[i] = tokBt{St: "open", K: b.tokenName(bt.TokenContract), Timeout: int64(bt.BatchTimeout), Block: int64(bt.Block) - a.base}
		}
		for _, tx := range bt.Transactions {
			place(tx, "batch", int64(bt.BatchNonce))
		}
	}
	it.Close()
	bal := map[string]map[string]int64{}
	for _, u := range c.User {
		addr := a.user(u)
		y := a.W.App.BankKeeper.GetBalance(ctx, addr.AccAddress(), b.denomY).Amount.Add(a.W.App.BankKeeper.GetBalance(ctx, addr.AccAddress(), b.bridgeY).Amount)
		eb, err := a.W.App.EvmKeeper.ERC20BalanceOf(ctx, b.erc20Y, addr.Address())
		must(err)
		bal[u] = map[string]int64{"x": units(a.W.App.BankKeeper.GetBalance(ctx, addr.AccAddress(), fxtypes.DefaultDenom).Amount), "y": units(y.Add(sdkmath.NewIntFromBigInt(eb)))}
	}
	var lobh types.LastObservedBlockHeight
	if bz := st.Get(types.LastObservedBlockHeightKey); len(bz) > 0 {
		cdc.MustUnmarshal(bz, &lobh)
	}
	e := b.getTokEnv(ctx)
	return map[string]any{"bal": bal, "tx": txs, "bt": bts, "ntx": ntx, "nbt": nbt, "fxH": ctx.BlockHeight() - a.base,
		"obsExt": int64(lobh.ExternalBlockHeight), "obsFx": int64(lobh.BlockHeight) - a.base, "lastObs": seq(st, types.LastObservedEventNonceKey),
		"extH": e.ExtH, "queue": e.Queue, "xbt": e.Xbt, "xlast": e.Xlast, "obsOut": e.ObsOut}
}

// WithinBounds keeps the recorder inside the projection's tables.
func (b *Tok) WithinBounds(ctx sdk.Context, op graph.Op) bool {
	st := ctx.KVStore(b.storeKey)
	next := func(key []byte) int64 {
		if n := seq(st, key); n > 0 {
			return n
		}
		return 1
	}
	switch op.Name() {
	case "Send":
		return next(types.KeyLastTxPoolID) <= int64(b.C.MaxTx)
	case "RequestBatch":
		return next(types.KeyLastOutgoingBatchID) <= int64(b.C.MaxBatch)
	case "ExtExecBatch", "ExtOther":
		e := b.getTokEnv(ctx)
		return int(seq(st, types.LastObservedEventNonceKey))+len(e.Queue) < b.C.MaxEv
	}
	return true
}
