// Package outgoing binds spec/Outgoing.tla to the real crosschain keeper (pool, batches, outgoing
// bridge calls, timeouts, parked claims) with a simulated external chain whose state travels inside
// the branch (a harness-private key in the module's store).
package outgoing

import (
	"encoding/binary"
	"encoding/json"
	"fmt"
	"math/big"
	"os"
	"testing"
	"time"

	sdkmath "cosmossdk.io/math"
	storetypes "cosmossdk.io/store/types"
	codectypes "github.com/cosmos/cosmos-sdk/codec/types"
	sdk "github.com/cosmos/cosmos-sdk/types"
	"github.com/ethereum/go-ethereum/common"

	"github.com/functionx/fx-core/v8/contract"
	"github.com/functionx/fx-core/v8/testutil/helpers"
	fxtypes "github.com/functionx/fx-core/v8/types"
	crosschainkeeper "github.com/functionx/fx-core/v8/x/crosschain/keeper"
	"github.com/functionx/fx-core/v8/x/crosschain/precompile"
	"github.com/functionx/fx-core/v8/x/crosschain/types"
	erc20types "github.com/functionx/fx-core/v8/x/erc20/types"

	"verifharness/graph"
	"verifharness/world"
)

const t0 = 3_600_001 // average block time = average external block time (ms): one block per block

var unit = sdkmath.NewInt(1_000_000_000_000_000_000)
var envKey = []byte{0xFE, 'e', 'n', 'v'}

const callData, callMemo = "a1b2c3", "0d0e"

type Consts struct {
	Chain    string   `json:"chain"`
	Token    string   `json:"Token"` // "FX" (default) or "module": a module-owned ERC-20 pair with a bridge denomination
	User     []string `json:"User"`
	MaxTx    int      `json:"MaxTx"`
	MaxBatch int      `json:"MaxBatch"`
	MaxCall  int      `json:"MaxCall"`
	MaxEv    int      `json:"MaxEv"`
	InitBal  int64    `json:"InitBal"`
	KB       uint64   `json:"KB"`
	KC       uint64   `json:"KC"`
}

type Event struct {
	T   string `json:"t"`
	H   int64  `json:"h"`
	A   int64  `json:"a"`
	U   string `json:"u"`
	Amt int64  `json:"amt"`
	Ok  bool   `json:"ok"`
}

var nilEv = Event{T: "none", U: "none"}

// Env is the external chain + the environment's ledgers.
type Env struct {
	ExtH   int64    `json:"extH"`
	Queue  []Event  `json:"queue"`
	Xbt    []string `json:"xbt"`
	Xlast  int64    `json:"xlast"`
	Xcl    []string `json:"xcl"`
	Cobs   []string `json:"cobs"`
	Ndep   int64    `json:"ndep"`
	ObsDep int64    `json:"obsDep"`
	ObsOut int64    `json:"obsOut"`
	ExtIn  int64    `json:"extIn"`
	ExtOut int64    `json:"extOut"`
}

type Adapter struct {
	W          *world.W
	C          Consts
	K          crosschainkeeper.Keeper
	storeKey   storetypes.StoreKey
	tok        string
	base       int64 // real height of model height 0
	oracle     *helpers.Signer
	bridger    *helpers.Signer
	relayer    *helpers.Signer
	dest       string
	otherDenom string
	denom      string         // base denomination users hold and send
	bridgeDen  string         // the chain's bridge denomination of the token
	erc20      common.Address // the pair's ERC-20 contract (module kind)
}

func must(err error) {
	if err != nil {
		panic(err)
	}
}

func (a *Adapter) user(u string) *helpers.Signer { return a.W.Key(a.C.Chain + "/user/" + u) }
func (a *Adapter) userName(addr sdk.AccAddress) string {
	for _, u := range a.C.User {
		if a.user(u).AccAddress().Equals(addr) {
			return u
		}
	}
	return "?" + addr.String()
}

func New(t *testing.T, c Consts) *Adapter {
	w := world.New(t, 2)
	a := &Adapter{W: w, C: c}
	switch c.Chain {
	case "eth":
		a.K = w.App.EthKeeper
	case "bsc":
		a.K = w.App.BscKeeper
	default:
		panic("chain " + c.Chain)
	}
	a.storeKey = w.App.GetKey(c.Chain)
	ctx := w.Ctx
	p := a.K.GetParams(ctx)
	p.DelegateThreshold = types.NewDelegateAmount(sdkmath.NewInt(1e18).MulRaw(100))
	p.DelegateMultiple = 1000
	p.AverageBlockTime = t0
	p.AverageExternalBlockTime = t0
	p.ExternalBatchTimeout = t0 * c.KB
	p.BridgeCallTimeout = t0 * c.KC
	must(w.Handle(ctx, &types.MsgUpdateParams{ChainName: c.Chain, Authority: world.GovAddr(), Params: p}))
	a.oracle, a.bridger, a.relayer = w.Key(c.Chain+"/oracle"), w.Key(c.Chain+"/bridger"), w.Key(c.Chain+"/relayer")
	w.Fund(ctx, a.oracle.AccAddress(), 1_000_000)
	w.Fund(ctx, a.bridger.AccAddress(), 1000)
	w.Fund(ctx, a.relayer.AccAddress(), 100_000)
	must(w.Handle(ctx, &types.MsgUpdateChainOracles{ChainName: c.Chain, Authority: world.GovAddr(), Oracles: []string{a.oracle.AccAddress().String()}}))
	must(w.Handle(ctx, &types.MsgBondedOracle{ChainName: c.Chain, OracleAddress: a.oracle.AccAddress().String(), BridgerAddress: a.bridger.AccAddress().String(),
		ExternalAddress: world.DetExt(c.Chain + "/ext/oracle"), ValidatorAddress: w.ValAddr[0].String(),
		DelegateAmount: types.NewDelegateAmount(sdkmath.NewInt(1e18).MulRaw(1000))}))
	a.dest = world.DetExt(c.Chain + "/dest")
	a.denom = fxtypes.DefaultDenom
	if c.Token == "module" {
		// registered through the governance-authority message; the bridge token as an observed MsgBridgeTokenClaim does it
		a.tok = world.DetExt(c.Chain + "/token/TUSD")
		a.bridgeDen = types.NewBridgeDenom(c.Chain, a.tok)
		md := fxtypes.GetCrossChainMetadataManyToOne("Test USD", "TUSD", 18, a.bridgeDen)
		must(w.Handle(ctx, &erc20types.MsgRegisterCoin{Authority: world.GovAddr(), Metadata: md}))
		must(a.K.AddBridgeTokenExecuted(ctx, &types.MsgBridgeTokenClaim{ChainName: c.Chain, TokenContract: a.tok, Name: "Test USD", Symbol: "TUSD", Decimals: 18}))
		a.denom = md.Base
		pair, ok := w.App.Erc20Keeper.GetTokenPair(ctx, a.denom)
		if !ok {
			panic("pair not registered")
		}
		a.erc20 = pair.GetERC20Contract()
		// holdings that were bridged in earlier: base coins with the users, the matching bridge coins kept by the module
		total := unit.MulRaw(c.InitBal * int64(len(c.User)))
		must(w.App.BankKeeper.MintCoins(ctx, c.Chain, sdk.NewCoins(sdk.NewCoin(a.bridgeDen, total))))
	} else {
		a.tok = world.DetExt(c.Chain + "/token/FX")
		a.bridgeDen = fxtypes.DefaultDenom
		must(a.K.AddBridgeTokenExecuted(ctx, &types.MsgBridgeTokenClaim{ChainName: c.Chain, TokenContract: a.tok, Name: "Function X", Symbol: fxtypes.DefaultDenom, Decimals: 18}))
		// FX previously bridged out and locked in the module: liquidity for deposits
		must(w.App.BankKeeper.MintCoins(ctx, "mint", sdk.NewCoins(world.FX(1000))))
		must(w.App.BankKeeper.SendCoinsFromModuleToModule(ctx, "mint", c.Chain, sdk.NewCoins(world.FX(1000))))
	}
	// a second bridged token of the same chain, held by every user (only ever offered as a fee for FX transfers)
	other := world.DetExt(c.Chain + "/token/OTHER")
	must(a.K.AddBridgeTokenExecuted(ctx, &types.MsgBridgeTokenClaim{ChainName: c.Chain, TokenContract: other, Name: "Other", Symbol: "OTH", Decimals: 18}))
	a.otherDenom = types.NewBridgeDenom(c.Chain, other)
	for _, u := range c.User {
		if c.Token == "module" {
			w.Fund(ctx, a.user(u).AccAddress(), 100) // gas money only; the token is not FX
			w.MintCoins(ctx, a.user(u).AccAddress(), sdk.NewCoin(a.denom, unit.MulRaw(c.InitBal)))
		} else {
			w.Fund(ctx, a.user(u).AccAddress(), c.InitBal)
		}
		w.MintCoins(ctx, a.user(u).AccAddress(), sdk.NewCoin(a.otherDenom, unit.MulRaw(10)))
	}
	// fxcore's own height is far above every external height used: a timeout wrongly judged by
	// fxcore's clock would fire immediately
	w.Ctx = ctx.WithBlockHeight(1_000_000)
	ctx = w.Ctx
	a.base = ctx.BlockHeight()
	env := Env{ExtH: 10, Queue: []Event{}, Xbt: fill(c.MaxBatch + 1), Xcl: fill(c.MaxCall + 1), Cobs: fill(c.MaxCall + 1)}
	a.putEnv(ctx, &env)
	return a
}

func fill(n int) []string {
	s := make([]string, n)
	for i := range s {
		s[i] = "none"
	}
	return s
}

func (a *Adapter) getEnv(ctx sdk.Context) *Env {
	var e Env
	must(json.Unmarshal(ctx.KVStore(a.storeKey).Get(envKey), &e))
	return &e
}

func (a *Adapter) putEnv(ctx sdk.Context, e *Env) {
	b, err := json.Marshal(e)
	must(err)
	ctx.KVStore(a.storeKey).Set(envKey, b)
}

func fx(n int64) sdk.Coin { return sdk.NewCoin(fxtypes.DefaultDenom, unit.MulRaw(n)) }

func (a *Adapter) coin(n int64) sdk.Coin { return sdk.NewCoin(a.denom, unit.MulRaw(n)) }

func units(x sdkmath.Int) int64 {
	q := x.Quo(unit)
	if !q.Mul(unit).Equal(x) {
		return -777 // not a whole number of model units: something moved a fraction
	}
	return q.Int64()
}

func (a *Adapter) batchValue(b *types.OutgoingTxBatch) int64 {
	v := sdkmath.ZeroInt()
	for _, tx := range b.Transactions {
		v = v.Add(tx.Token.Amount).Add(tx.Fee.Amount)
	}
	return units(v)
}

func (a *Adapter) claim(ctx sdk.Context, c types.ExternalClaim) error {
	any, err := codectypes.NewAnyWithValue(c)
	must(err)
	return a.W.Handle(ctx, &types.MsgClaim{ChainName: a.C.Chain, BridgerAddress: a.bridger.AccAddress().String(), Claim: any})
}

func (a *Adapter) Apply(ctx sdk.Context, op graph.Op) (sdk.Context, string) {
	w, ch := a.W, a.C.Chain
	var err error
	switch op.Name() {
	case "Send":
		u := a.user(op.Str("u"))
		if op.Str("e") == "evm" {
			// the same request entered through the crossChain precompile: convert to ERC-20, approve, crossChain
			// (one atomic unit: if the precompile call fails nothing of the preparation remains)
			total := unit.MulRaw(op.Int("a") + op.Int("f"))
			err = world.Atomic(ctx, func(c sdk.Context) error {
				if e := w.Handle(c, &erc20types.MsgConvertCoin{Coin: sdk.NewCoin(a.denom, total), Receiver: u.Address().Hex(), Sender: u.AccAddress().String()}); e != nil {
					return e
				}
				appr, e := contract.GetFIP20().ABI.Pack("approve", types.GetAddress(), total.BigInt())
				must(e)
				if ok, msg := w.EthCall(c, u, a.erc20, 1_000_000, appr); !ok {
					return fmt.Errorf("approve: %s", msg)
				}
				data, e := precompile.NewCrossChainMethod(nil).PackInput(types.CrossChainArgs{Token: a.erc20, Receipt: a.dest, Amount: unit.MulRaw(op.Int("a")).BigInt(),
					Fee: unit.MulRaw(op.Int("f")).BigInt(), Target: fxtypes.MustStrToByte32(ch), Memo: ""})
				must(e)
				if ok, msg := w.EthCall(c, u, types.GetAddress(), 3_000_000, data); !ok {
					return fmt.Errorf("crossChain: %s", msg)
				}
				return nil
			})
			break
		}
		err = w.Handle(ctx, &types.MsgSendToExternal{ChainName: ch, Sender: u.AccAddress().String(), Dest: a.dest,
			Amount: a.coin(op.Int("a")), BridgeFee: a.coin(op.Int("f"))})
	case "Cancel":
		u := a.user(op.Str("u"))
		if op.Str("e") == "evm" {
			data, e := precompile.NewCancelSendToExternalMethod(nil).PackInput(ch, big.NewInt(op.Int("id")))
			must(e)
			if ok, msg := w.EthCall(ctx, u, types.GetAddress(), 3_000_000, data); !ok {
				err = fmt.Errorf("cancelSendToExternal: %s", msg)
			}
			break
		}
		err = w.Handle(ctx, &types.MsgCancelSendToExternal{ChainName: ch, Sender: u.AccAddress().String(), TransactionId: uint64(op.Int("id"))})
	case "IncreaseFee":
		fee := sdk.NewCoin(a.bridgeDen, unit.MulRaw(op.Int("f")))
		if op.Str("e") == "other" {
			fee = sdk.NewCoin(a.otherDenom, unit.MulRaw(op.Int("f"))) // another bridged token of the same chain
		}
		err = w.Handle(ctx, &types.MsgIncreaseBridgeFee{ChainName: ch, Sender: a.user(op.Str("u")).AccAddress().String(), TransactionId: uint64(op.Int("id")),
			AddBridgeFee: fee})
	case "RequestBatch":
		err = w.Handle(ctx, &types.MsgRequestBatch{ChainName: ch, Sender: a.bridger.AccAddress().String(), Denom: a.bridgeDen,
			MinimumFee: unit.MulRaw(op.Int("f")), FeeReceive: world.DetExt(ch + "/feereceive"), BaseFee: unit.MulRaw(op.Int("a"))})
	case "BridgeCall":
		u := a.user(op.Str("u")).AccAddress().String()
		r := a.user(op.Str("e")).AccAddress().String()
		err = w.Handle(ctx, &types.MsgBridgeCall{ChainName: ch, Sender: u, Refund: r, Coins: sdk.NewCoins(a.coin(op.Int("a"))), To: a.dest, Data: callData, Value: sdkmath.ZeroInt(), Memo: callMemo})
	case "FxBlock":
		// end of this block, begin of the next one, through the application's real begin/end blockers
		err = world.Atomic(ctx, func(c sdk.Context) error {
			_, e := w.App.EndBlocker(c)
			return e
		})
		if err != nil {
			break
		}
		next := ctx.WithBlockHeight(ctx.BlockHeight() + 1).WithBlockTime(ctx.BlockTime().Add(5 * time.Second))
		if e := world.Atomic(next, func(c sdk.Context) error {
			_, e := w.App.BeginBlocker(c)
			return e
		}); e != nil {
			err = e
			break
		}
		return next, "ok"
	case "ExtBlock":
		e := a.getEnv(ctx)
		e.ExtH++
		a.putEnv(ctx, e)
	case "ExtDeposit":
		e := a.getEnv(ctx)
		e.Queue = append(e.Queue, Event{T: op.Str("e"), H: e.ExtH, A: 0, U: op.Str("u"), Amt: op.Int("a"), Ok: true})
		e.Ndep++
		e.ExtIn += op.Int("a")
		a.putEnv(ctx, e)
	case "ExtExecBatch":
		// FxBridgeLogic.submitBatch: known batch (signatures exist), nonce above the last executed one, block.number < timeout
		e := a.getEnv(ctx)
		b := op.Int("id")
		batch := a.K.GetOutgoingTxBatch(ctx, a.tok, uint64(b))
		if batch == nil || e.Xbt[b-1] != "none" || b <= e.Xlast || e.ExtH >= int64(batch.BatchTimeout) {
			return ctx, "rej"
		}
		v := a.batchValue(batch)
		e.Xbt[b-1], e.Xlast = "exec", b
		e.ExtOut += v
		e.Queue = append(e.Queue, Event{T: "batch", H: e.ExtH, A: b, U: "none", Amt: v, Ok: true})
		a.putEnv(ctx, e)
	case "ExtExecCall":
		e := a.getEnv(ctx)
		c := op.Int("id")
		call, found := a.K.GetOutgoingBridgeCallByNonce(ctx, uint64(c))
		if !found || e.Xcl[c-1] != "none" || e.ExtH >= int64(call.Timeout) {
			return ctx, "rej"
		}
		amt := int64(0)
		for _, t := range call.Tokens {
			amt += units(t.Amount)
		}
		good := op.Int("a") == 1
		if good {
			e.Xcl[c-1] = "succ"
			e.ExtOut += amt
		} else {
			e.Xcl[c-1] = "fail"
		}
		e.Queue = append(e.Queue, Event{T: "call", H: e.ExtH, A: c, U: "none", Amt: amt, Ok: good})
		a.putEnv(ctx, e)
	case "Observe":
		e := a.getEnv(ctx)
		n := a.K.GetLastObservedEventNonce(ctx) + 1
		if len(e.Queue) == 0 || int(n) > a.C.MaxEv {
			return ctx, "rej"
		}
		ev := e.Queue[0]
		bridger := a.bridger.AccAddress().String()
		switch ev.T {
		case "dep":
			err = a.claim(ctx, &types.MsgSendToFxClaim{ChainName: ch, BridgerAddress: bridger, EventNonce: n, BlockHeight: uint64(ev.H), TokenContract: a.tok,
				Amount: unit.MulRaw(ev.Amt), Sender: world.DetExt(ch + "/extsender"), Receiver: a.user(ev.U).AccAddress().String()})
		case "depc":
			// an inbound bridge call that carries tokens to an account (no contract at the target)
			ext := world.DetExt(ch + "/extsender")
			err = a.claim(ctx, &types.MsgBridgeCallClaim{ChainName: ch, BridgerAddress: bridger, EventNonce: n, BlockHeight: uint64(ev.H), Sender: ext, Refund: ext,
				To: a.user(ev.U).Address().Hex(), TokenContracts: []string{a.tok}, Amounts: []sdkmath.Int{unit.MulRaw(ev.Amt)}, Data: "", Value: sdkmath.ZeroInt(),
				Memo: "", TxOrigin: ext})
		case "batch":
			err = a.claim(ctx, &types.MsgSendToExternalClaim{ChainName: ch, BridgerAddress: bridger, EventNonce: n, BlockHeight: uint64(ev.H), BatchNonce: uint64(ev.A), TokenContract: a.tok})
		case "call":
			err = a.claim(ctx, &types.MsgBridgeCallResultClaim{ChainName: ch, BridgerAddress: bridger, EventNonce: n, BlockHeight: uint64(ev.H), Nonce: uint64(ev.A),
				TxOrigin: world.DetExt(ch + "/txorigin"), Success: ev.Ok, Cause: ""})
		}
		if err != nil {
			break
		}
		e.Queue = e.Queue[1:]
		switch ev.T {
		case "dep", "depc":
			e.ObsDep += ev.Amt
		case "batch":
			e.ObsOut += ev.Amt
		case "call":
			if ev.Ok {
				e.Cobs[ev.A-1] = "succ"
				e.ObsOut += ev.Amt
			} else {
				e.Cobs[ev.A-1] = "fail"
			}
		}
		a.putEnv(ctx, e)
	case "ExecuteClaim":
		data, e := precompile.NewExecuteClaimMethod(nil).PackInput(types.ExecuteClaimArgs{Chain: ch, EventNonce: big.NewInt(op.Int("id"))})
		must(e)
		ok, msg := w.EthCall(ctx, a.relayer, types.GetAddress(), 3_000_000, data)
		if !ok {
			err = fmt.Errorf("%s", msg)
		}
	default:
		panic("unknown op " + op.Name())
	}
	if err != nil {
		if os.Getenv("VERIF_DEBUG") != "" {
			fmt.Printf("DEBUG %v -> %v\n", op, err)
		}
		return ctx, "rej"
	}
	return ctx, "ok"
}

type txRec struct {
	St  string `json:"st"`
	U   string `json:"u"`
	Amt int64  `json:"amt"`
	Fee int64  `json:"fee"`
	B   int64  `json:"b"`
}
type btRec struct {
	St      string `json:"st"`
	Timeout int64  `json:"timeout"`
	Block   int64  `json:"block"`
}
type clRec struct {
	St      string `json:"st"`
	U       string `json:"u"`
	R       string `json:"r"`
	Amt     int64  `json:"amt"`
	Timeout int64  `json:"timeout"`
}

func seq(st storetypes.KVStore, key []byte) int64 {
	bz := st.Get(key)
	if len(bz) == 0 {
		return 0
	}
	return int64(binary.BigEndian.Uint64(bz))
}

// Project reads prefixes 0x18 (pool) 0x20 (batches) 0x48 (calls) 0x25 (sequences) 0x24 0x32 0x54, bank balances and the environment.
func (a *Adapter) Project(ctx sdk.Context) any {
	st := ctx.KVStore(a.storeKey)
	cdc := a.W.App.AppCodec()
	c := a.C
	// the sequence keys hold the NEXT id to issue (absent = 1): last issued = next - 1
	last := func(key []byte) int64 {
		if n := seq(st, key); n > 0 {
			return n - 1
		}
		return 0
	}
	ntx, nbt, ncl := last(types.KeyLastTxPoolID), last(types.KeyLastOutgoingBatchID), last(types.KeyLastBridgeCallID)
	txs := make([]txRec, c.MaxTx+1)
	for i := range txs {
		txs[i] = txRec{St: "none", U: "none"}
		if int64(i+1) <= ntx {
			txs[i].St = "gone"
		}
	}
	place := func(tx *types.OutgoingTransferTx, stt string, b int64) {
		i := int(tx.Id) - 1
		if i < 0 || i >= len(txs) {
			return
		}
		if txs[i].St == "pool" || txs[i].St == "batch" {
			txs[i].St = "dup" // the same id in two places
			return
		}
		if tx.Token.Contract != a.tok || tx.Fee.Contract != a.tok {
			stt = "badtoken"
		}
		txs[i] = txRec{St: stt, U: a.userName(sdk.MustAccAddressFromBech32(tx.Sender)), Amt: units(tx.Token.Amount), Fee: units(tx.Fee.Amount), B: b}
		if tx.DestAddress != a.dest {
			txs[i].U += "!dest"
		}
	}
	it := storetypes.KVStorePrefixIterator(st, types.OutgoingTxPoolKey)
	for ; it.Valid(); it.Next() {
		var tx types.OutgoingTransferTx
		cdc.MustUnmarshal(it.Value(), &tx)
		place(&tx, "pool", 0)
	}
	it.Close()
	bts := make([]btRec, c.MaxBatch+1)
	for i := range bts {
		bts[i] = btRec{St: "none"}
		if int64(i+1) <= nbt {
			bts[i].St = "gone"
		}
	}
	it = storetypes.KVStorePrefixIterator(st, types.OutgoingTxBatchKey)
	for ; it.Valid(); it.Next() {
		var b types.OutgoingTxBatch
		cdc.MustUnmarshal(it.Value(), &b)
		i := int(b.BatchNonce) - 1
		if i >= 0 && i < len(bts) {
			bts[i] = btRec{St: "open", Timeout: int64(b.BatchTimeout), Block: int64(b.Block) - a.base}
			// the by-block index must hold the same batch
			if bz := st.Get(types.GetOutgoingTxBatchBlockKey(b.Block)); bz == nil {
				bts[i].St = "open!noblockindex"
			}
		}
		for _, tx := range b.Transactions {
			place(tx, "batch", int64(b.BatchNonce))
		}
	}
	it.Close()
	cls := make([]clRec, c.MaxCall+1)
	for i := range cls {
		cls[i] = clRec{St: "none", U: "none", R: "none"}
		if int64(i+1) <= ncl {
			cls[i].St = "gone"
		}
	}
	it = storetypes.KVStorePrefixIterator(st, types.OutgoingBridgeCallNonceKey)
	for ; it.Valid(); it.Next() {
		var oc types.OutgoingBridgeCall
		cdc.MustUnmarshal(it.Value(), &oc)
		i := int(oc.Nonce) - 1
		if i >= 0 && i < len(cls) {
			amt := int64(0)
			for _, t := range oc.Tokens {
				amt += units(t.Amount)
			}
			u := a.userName(types.ExternalAddrToAccAddr(c.Chain, oc.Sender))
			r := a.userName(types.ExternalAddrToAccAddr(c.Chain, oc.Refund))
			// what is queued for the external chain carries exactly what the creator supplied
			if oc.To != a.dest || oc.Data != callData || oc.Memo != callMemo {
				u += "!payload"
			}
			cls[i] = clRec{St: "open", U: u, R: r, Amt: amt, Timeout: int64(oc.Timeout)}
		}
	}
	it.Close()
	bal := map[string]int64{}
	for _, u := range c.User {
		total := a.W.App.BankKeeper.GetBalance(ctx, a.user(u).AccAddress(), a.denom).Amount
		if c.Token == "module" { // every representation of the token the user can hold
			total = total.Add(a.W.App.BankKeeper.GetBalance(ctx, a.user(u).AccAddress(), a.bridgeDen).Amount)
			eb, err := a.W.App.EvmKeeper.ERC20BalanceOf(ctx, a.erc20, a.user(u).Address())
			must(err)
			total = total.Add(sdkmath.NewIntFromBigInt(eb))
		}
		bal[u] = units(total)
	}
	var lobh types.LastObservedBlockHeight
	if bz := st.Get(types.LastObservedBlockHeightKey); len(bz) > 0 {
		cdc.MustUnmarshal(bz, &lobh)
	}
	obsFx := int64(0)
	if lobh.ExternalBlockHeight > 0 {
		obsFx = int64(lobh.BlockHeight) - a.base
	}
	parked := make([]Event, c.MaxEv)
	for n := 1; n <= c.MaxEv; n++ {
		parked[n-1] = nilEv
		bz := st.Get(types.GetPendingExecuteClaimKey(uint64(n)))
		if len(bz) == 0 {
			continue
		}
		var cl types.ExternalClaim
		must(cdc.UnmarshalInterface(bz, &cl))
		switch x := cl.(type) {
		case *types.MsgSendToFxClaim:
			parked[n-1] = Event{T: "dep", H: int64(x.BlockHeight), A: 0, U: a.userName(sdk.MustAccAddressFromBech32(x.Receiver)), Amt: units(x.Amount), Ok: true}
		case *types.MsgBridgeCallClaim:
			amt := int64(0)
			for _, x := range x.Amounts {
				amt += units(x)
			}
			parked[n-1] = Event{T: "depc", H: int64(x.BlockHeight), A: 0, U: a.userName(x.GetToAddr().Bytes()), Amt: amt, Ok: true}
		case *types.MsgBridgeCallResultClaim:
			amt := int64(-1)
			if oc, found := a.K.GetOutgoingBridgeCallByNonce(ctx, x.Nonce); found {
				amt = 0
				for _, t := range oc.Tokens {
					amt += units(t.Amount)
				}
			}
			parked[n-1] = Event{T: "call", H: int64(x.BlockHeight), A: int64(x.Nonce), U: "none", Amt: amt, Ok: x.Success}
		default:
			parked[n-1] = Event{T: "?", U: "none"}
		}
	}
	e := a.getEnv(ctx)
	return map[string]any{
		"bal": bal, "tx": txs, "bt": bts, "cl": cls, "ntx": ntx, "nbt": nbt, "ncl": ncl,
		"fxH": ctx.BlockHeight() - a.base, "obsExt": int64(lobh.ExternalBlockHeight), "obsFx": obsFx,
		"lastObs": seq(st, types.LastObservedEventNonceKey), "parked": parked,
		"extH": e.ExtH, "queue": e.Queue, "xbt": e.Xbt, "xlast": e.Xlast, "xcl": e.Xcl, "cobs": e.Cobs, "ndep": e.Ndep,
		"obsDep": e.ObsDep, "obsOut": e.ObsOut, "extIn": e.ExtIn, "extOut": e.ExtOut,
	}
}

// WithinBounds keeps the recorder inside the projection's tables (ids up to MaxTx/MaxBatch/MaxCall, events up to MaxEv).
func (a *Adapter) WithinBounds(ctx sdk.Context, op graph.Op) bool {
	st := ctx.KVStore(a.storeKey)
	next := func(key []byte) int64 {
		if n := seq(st, key); n > 0 {
			return n
		}
		return 1
	}
	switch op.Name() {
	case "Send":
		return next(types.KeyLastTxPoolID) <= int64(a.C.MaxTx)
	case "RequestBatch":
		return next(types.KeyLastOutgoingBatchID) <= int64(a.C.MaxBatch)
	case "BridgeCall":
		return next(types.KeyLastBridgeCallID) <= int64(a.C.MaxCall)
	case "ExtDeposit", "ExtExecBatch", "ExtExecCall":
		e := a.getEnv(ctx)
		return int(seq(st, types.LastObservedEventNonceKey))+len(e.Queue) < a.C.MaxEv
	}
	return true
}
