package outgoing

import (
	"testing"

	"verifharness/graph"
)

func TestReplay(t *testing.T) {
	var c Consts
	graph.Const(&c)
	a := New(t, c)
	graph.RunReplay(t, a, a.W.Ctx, nil)
}

func TestPath(t *testing.T) {
	var c Consts
	graph.Const(&c)
	a := New(t, c)
	graph.RunPath(t, a, a.W.Ctx)
}

func TestWalks(t *testing.T) {
	var c Consts
	graph.Const(&c)
	a := New(t, c)
	graph.RunWalks(t, a, a.W.Ctx, a.W.DumpHash)
}

func TestRecord(t *testing.T) {
	var c Consts
	graph.Const(&c)
	a := New(t, c)
	graph.RunRecord(t, a, a.W.Ctx)
}

func TestReplayBulk(t *testing.T) {
	var c Consts
	graph.Const(&c)
	a := New(t, c)
	graph.RunReplay(t, &Bulk{a}, a.W.Ctx, nil)
}

func TestPathBulk(t *testing.T) {
	var c Consts
	graph.Const(&c)
	a := New(t, c)
	graph.RunPath(t, &Bulk{a}, a.W.Ctx)
}

func TestReplayTok(t *testing.T) {
	var c Consts
	graph.Const(&c)
	a := NewTok(t, c)
	graph.RunReplay(t, a, a.W.Ctx, nil)
}

func TestPathTok(t *testing.T) {
	var c Consts
	graph.Const(&c)
	a := NewTok(t, c)
	graph.RunPath(t, a, a.W.Ctx)
}

func TestRecordTok(t *testing.T) {
	var c Consts
	graph.Const(&c)
	a := NewTok(t, c)
	graph.RunRecord(t, a, a.W.Ctx)
}
