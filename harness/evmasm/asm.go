// Package evmasm is a tiny EVM assembler (no Solidity compiler is installed) plus the generic
// "executor" contract the precompile checks (C09 Frames, C10 Caller) use as adversarial caller.
//
// Pure Go, no dependency on the chain: opcodes are written with their numeric values so that the
// package cannot drift with a go-ethereum fork (the unit test runs the result on the real EVM).
package evmasm

import (
	"encoding/binary"
	"fmt"
	"math/big"
)

// Opcodes used by the harness.
const (
	STOP         = 0x00
	ADD          = 0x01
	SUB          = 0x03
	LT           = 0x10
	GT           = 0x11
	EQ           = 0x14
	ISZERO       = 0x15
	AND          = 0x16
	OR           = 0x17
	SHL          = 0x1b
	SHR          = 0x1c
	ADDRESS      = 0x30
	CALLER       = 0x33
	CALLVALUE    = 0x34
	CALLDATALOAD = 0x35
	CALLDATASIZE = 0x36
	CALLDATACOPY = 0x37
	CODESIZE     = 0x38
	CODECOPY     = 0x39
	RETURNDATASIZE = 0x3d
	RETURNDATACOPY = 0x3e
	POP          = 0x50
	MLOAD        = 0x51
	MSTORE       = 0x52
	SLOAD        = 0x54
	SSTORE       = 0x55
	JUMP         = 0x56
	JUMPI        = 0x57
	GAS          = 0x5a
	JUMPDEST     = 0x5b
	PUSH1        = 0x60
	DUP1         = 0x80
	SWAP1        = 0x90
	CALL         = 0xf1
	CALLCODE     = 0xf2
	RETURN       = 0xf3
	DELEGATECALL = 0xf4
	STATICCALL   = 0xfa
	REVERT       = 0xfd
	INVALID      = 0xfe
)

// Asm accumulates code; jump targets are labels resolved by Bytes (always PUSH2).
type Asm struct {
	code   []byte
	labels map[string]int
	fixups map[int]string // position of the 2-byte operand -> label
}

func New() *Asm { return &Asm{labels: map[string]int{}, fixups: map[int]string{}} }

// Op appends plain opcodes.
func (a *Asm) Op(ops ...byte) *Asm {
	a.code = append(a.code, ops...)
	return a
}

// Push appends the shortest PUSHn for v (PUSH1 0 for zero).
func (a *Asm) Push(v uint64) *Asm {
	return a.PushBig(new(big.Int).SetUint64(v))
}

func (a *Asm) PushBig(v *big.Int) *Asm {
	b := v.Bytes()
	if len(b) == 0 {
		b = []byte{0}
	}
	if len(b) > 32 {
		panic("push > 32 bytes")
	}
	a.code = append(a.code, byte(PUSH1+len(b)-1))
	a.code = append(a.code, b...)
	return a
}

// PushBytes appends PUSHn with exactly the given bytes (n = len(b), 1..32).
func (a *Asm) PushBytes(b []byte) *Asm {
	if len(b) == 0 || len(b) > 32 {
		panic("bad push length")
	}
	a.code = append(a.code, byte(PUSH1+len(b)-1))
	a.code = append(a.code, b...)
	return a
}

// Push2 appends PUSH2 with a fixed-width operand (sizes/offsets patched later by callers).
func (a *Asm) Push2(v int) *Asm {
	a.code = append(a.code, PUSH1+1, byte(v>>8), byte(v))
	return a
}

// PushLabel appends PUSH2 <address of label>.
func (a *Asm) PushLabel(l string) *Asm {
	a.code = append(a.code, PUSH1+1, 0, 0)
	a.fixups[len(a.code)-2] = l
	return a
}

// Label defines a jump target here (emits JUMPDEST).
func (a *Asm) Label(l string) *Asm {
	if _, dup := a.labels[l]; dup {
		panic("duplicate label " + l)
	}
	a.labels[l] = len(a.code)
	a.code = append(a.code, JUMPDEST)
	return a
}

// Mark defines a label WITHOUT emitting a JUMPDEST (data offsets).
func (a *Asm) Mark(l string) *Asm {
	if _, dup := a.labels[l]; dup {
		panic("duplicate label " + l)
	}
	a.labels[l] = len(a.code)
	return a
}

func (a *Asm) Jump(l string) *Asm  { return a.PushLabel(l).Op(JUMP) }
func (a *Asm) JumpI(l string) *Asm { return a.PushLabel(l).Op(JUMPI) }
func (a *Asm) Dup(n int) *Asm      { return a.Op(byte(DUP1 + n - 1)) }
func (a *Asm) Swap(n int) *Asm     { return a.Op(byte(SWAP1 + n - 1)) }

// Data appends raw bytes (after the last instruction).
func (a *Asm) Data(b []byte) *Asm {
	a.code = append(a.code, b...)
	return a
}

func (a *Asm) Len() int { return len(a.code) }

// Bytes resolves labels.
func (a *Asm) Bytes() []byte {
	out := append([]byte{}, a.code...)
	for pos, l := range a.fixups {
		t, ok := a.labels[l]
		if !ok {
			panic("undefined label " + l)
		}
		if t > 0xffff {
			panic("label out of PUSH2 range")
		}
		binary.BigEndian.PutUint16(out[pos:], uint16(t))
	}
	return out
}

// InitCode wraps runtime code into deployment code:
//
//	PUSH2 size PUSH2 offset PUSH1 0 CODECOPY PUSH2 size PUSH1 0 RETURN <runtime>
func InitCode(runtime []byte) []byte {
	if len(runtime) > 0xffff {
		panic("runtime too large")
	}
	a := New()
	a.Push2(len(runtime)).PushLabel("rt").Push(0).Op(CODECOPY)
	a.Push2(len(runtime)).Push(0).Op(RETURN)
	a.Mark("rt").Data(runtime)
	return a.Bytes()
}

// Disasm renders code for debugging (PUSH operands inline).
func Disasm(code []byte) string {
	s := ""
	for i := 0; i < len(code); i++ {
		op := code[i]
		if op >= PUSH1 && op <= PUSH1+31 {
			n := int(op-PUSH1) + 1
			end := i + 1 + n
			if end > len(code) {
				end = len(code)
			}
			s += fmt.Sprintf("%04x PUSH%d %x\n", i, n, code[i+1:end])
			i += n
			continue
		}
		s += fmt.Sprintf("%04x %02x\n", i, op)
	}
	return s
}
