package evmasm

import (
	"encoding/binary"
	"math/big"
)

// The executor is ONE contract whose runtime interprets a PROGRAM: a list of call steps followed by
// a terminator.  The program is taken from the transaction/call data; when the executor is called
// with empty call data it runs the default program embedded at the end of its own code.  A step
// that targets another deployed executor carries that executor's program as its call data, so a
// nested program is a call tree.
//
// Encoding of a step (64-byte header + data):
//
//	byte 0      kind   2 CALL, 3 STATICCALL, 4 DELEGATECALL, 5 CALLCODE
//	byte 1      mode   0 PROPAGATE (a failing call reverts this frame), 1 CATCH (continue)
//	bytes 2-5   gas to forward (0xffffffff = everything the EVM allows, i.e. 63/64)
//	bytes 6-7   length of the call data
//	bytes 12-31 target address
//	bytes 32-63 value (CALL / CALLCODE only)
//	bytes 64-   call data
//
// Terminators (one byte): 0 STOP (also implied by the end of the program), 1 REVERT(0,0),
// 6 INVALID (exceptional halt, consumes all gas of the frame).
const (
	KindStop         = 0
	KindRevert       = 1
	KindCall         = 2
	KindStaticCall   = 3
	KindDelegateCall = 4
	KindCallCode     = 5
	KindInvalid      = 6

	AllGas = 0xffffffff
	header = 64
)

type Step struct {
	Kind  byte
	Catch bool
	To    [20]byte
	Gas   uint32 // 0 or AllGas = forward all
	Value *big.Int
	Data  []byte
}

// Program is a list of call steps and a terminator (KindStop, KindRevert or KindInvalid).
type Program struct {
	Steps []Step
	End   byte
}

func Addr(b []byte) (a [20]byte) {
	copy(a[20-len(b):], b)
	return a
}

// Encode renders the program in the executor's wire format.
func (p Program) Encode() []byte {
	var out []byte
	for _, s := range p.Steps {
		if s.Kind < KindCall || s.Kind > KindCallCode {
			panic("bad step kind")
		}
		if len(s.Data) > 0xffff {
			panic("call data too long")
		}
		h := make([]byte, header)
		h[0] = s.Kind
		if s.Catch {
			h[1] = 1
		}
		g := s.Gas
		if g == 0 {
			g = AllGas
		}
		binary.BigEndian.PutUint32(h[2:], g)
		binary.BigEndian.PutUint16(h[6:], uint16(len(s.Data)))
		copy(h[12:32], s.To[:])
		if s.Value != nil {
			s.Value.FillBytes(h[32:64])
		}
		out = append(out, h...)
		out = append(out, s.Data...)
	}
	out = append(out, p.End)
	return out
}

// field extracts (w >> shift) & mask from the word on top of the stack (replacing it).
func (a *Asm) field(shift uint64, mask []byte) *Asm {
	return a.Push(shift).Op(SHR).PushBytes(mask).Op(AND)
}

var (
	maskLen  = []byte{0xff, 0xff}
	maskGas  = []byte{0xff, 0xff, 0xff, 0xff}
	maskMode = []byte{0xff}
	maskAddr = func() []byte {
		b := make([]byte, 20)
		for i := range b {
			b[i] = 0xff
		}
		return b
	}()
)

// ExecutorRuntime assembles the interpreter; def is the default program run on empty call data
// (may be nil).
func ExecutorRuntime(def []byte) []byte {
	a := New()
	// ---- load the program to memory[0..)
	a.Op(CALLDATASIZE, ISZERO).JumpI("fromcode")
	a.Op(CALLDATASIZE).Push(0).Push(0).Op(CALLDATACOPY)
	a.Jump("start")
	a.Label("fromcode")
	a.Push2(len(def)).PushLabel("prog").Push(0).Op(CODECOPY)
	a.Label("start")
	a.Push(0) // [pc]
	// ---- dispatch
	a.Label("loop")
	a.Dup(1).Op(MLOAD)           // [pc, w]
	a.Dup(1).Push(248).Op(SHR)   // [pc, w, op]
	a.Dup(1).Op(ISZERO).JumpI("stop")
	a.Dup(1).Push(KindRevert).Op(EQ).JumpI("revert")
	a.Dup(1).Push(KindCall).Op(EQ).JumpI("call")
	a.Dup(1).Push(KindStaticCall).Op(EQ).JumpI("static")
	a.Dup(1).Push(KindDelegateCall).Op(EQ).JumpI("delegate")
	a.Dup(1).Push(KindCallCode).Op(EQ).JumpI("callcode")
	a.Op(INVALID)
	withValue := func(label string, op byte) {
		a.Label(label).Op(POP)                 // [pc, w]
		a.Push(0).Push(0)                      // retLen retOff
		a.Dup(3).field(192, maskLen)           // argsLen
		a.Dup(5).Push(header).Op(ADD)          // argsOff = pc + 64
		a.Dup(6).Push(32).Op(ADD, MLOAD)       // value = mem[pc+32]
		a.Dup(6).PushBytes(maskAddr).Op(AND)   // addr
		a.Dup(7).field(208, maskGas)           // gas
		a.Op(op)                               // [pc, w, success]
		a.Jump("after")
	}
	noValue := func(label string, op byte) {
		a.Label(label).Op(POP)
		a.Push(0).Push(0)
		a.Dup(3).field(192, maskLen)
		a.Dup(5).Push(header).Op(ADD)
		a.Dup(5).PushBytes(maskAddr).Op(AND)
		a.Dup(6).field(208, maskGas)
		a.Op(op)
		a.Jump("after")
	}
	withValue("call", CALL)
	withValue("callcode", CALLCODE)
	noValue("static", STATICCALL)
	noValue("delegate", DELEGATECALL)
	// ---- after a call: [pc, w, success]
	a.Label("after")
	a.Op(ISZERO)                          // failed
	a.Dup(2).field(240, maskMode)         // mode
	a.Op(ISZERO, AND).JumpI("revert")     // failed && PROPAGATE
	a.field(192, maskLen)                 // [pc, len]
	a.Op(ADD).Push(header).Op(ADD)        // pc += 64 + len
	a.Jump("loop")
	a.Label("stop").Op(STOP)
	a.Label("revert").Push(0).Push(0).Op(REVERT)
	a.Mark("prog").Data(def)
	return a.Bytes()
}

// ExecutorInit is the deployment code of an executor with default program def.
func ExecutorInit(def []byte) []byte { return InitCode(ExecutorRuntime(def)) }

// Unrolled assembles the straight-line variant: a runtime with the program compiled into its code
// (for each step: CODECOPY of the call data to memory 0, the call, a conditional jump to the
// common REVERT).  Used by the unit test as an independent cross-check of the interpreter.
func Unrolled(p Program) []byte {
	a := New()
	type blob struct {
		label string
		data  []byte
	}
	var blobs []blob
	for i, s := range p.Steps {
		l := "d" + string(rune('a'+i))
		blobs = append(blobs, blob{l, s.Data})
		a.Push2(len(s.Data)).PushLabel(l).Push(0).Op(CODECOPY)
		g := s.Gas
		pushGas := func() {
			if g == 0 || g == AllGas {
				a.Op(GAS)
			} else {
				a.Push(uint64(g))
			}
		}
		a.Push(0).Push(0).Push2(len(s.Data)).Push(0)
		switch s.Kind {
		case KindCall, KindCallCode:
			v := s.Value
			if v == nil {
				v = new(big.Int)
			}
			a.PushBig(v).PushBytes(s.To[:])
			pushGas()
			if s.Kind == KindCall {
				a.Op(CALL)
			} else {
				a.Op(CALLCODE)
			}
		case KindStaticCall:
			a.PushBytes(s.To[:])
			pushGas()
			a.Op(STATICCALL)
		case KindDelegateCall:
			a.PushBytes(s.To[:])
			pushGas()
			a.Op(DELEGATECALL)
		}
		if s.Catch {
			a.Op(POP)
		} else {
			a.Op(ISZERO).JumpI("fail")
		}
	}
	switch p.End {
	case KindRevert:
		a.Jump("fail")
	case KindInvalid:
		a.Op(INVALID)
	default:
		a.Op(STOP)
	}
	a.Label("fail").Push(0).Push(0).Op(REVERT)
	for _, b := range blobs {
		a.Mark(b.label).Data(b.data)
	}
	return a.Bytes()
}
