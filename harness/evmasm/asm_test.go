package evmasm_test

import (
	"math/big"
	"testing"

	sdk "github.com/cosmos/cosmos-sdk/types"
	"github.com/ethereum/go-ethereum/common"

	"github.com/functionx/fx-core/v8/contract"
	fxtypes "github.com/functionx/fx-core/v8/types"
	stakingprecompile "github.com/functionx/fx-core/v8/x/staking/precompile"
	fxstakingtypes "github.com/functionx/fx-core/v8/x/staking/types"

	"verifharness/evmasm"
	"verifharness/pcenv"
	"verifharness/world"
)

func transferData(to common.Address, amt *big.Int) []byte {
	d, err := contract.GetFIP20().ABI.Pack("transfer", to, amt)
	pcenv.Must(err)
	return d
}

// The assembled executor runs on the real EVM of the real application: ERC-20 transfers, nested
// executors with caught and propagated reverts, the four call kinds, fixed gas, value, the
// embedded default program, and a precompile call.
func TestExecutorOnRealEVM(t *testing.T) {
	w := world.New(t, 2)
	e := pcenv.New(t, w)
	ctx := w.Ctx
	user := w.Key("asm/user")
	w.Fund(ctx, user.AccAddress(), 1000)
	sink := common.HexToAddress(world.DetExt("asm/sink"))
	sink2 := common.HexToAddress(world.DetExt("asm/sink2"))

	A := e.Deploy(ctx, nil)
	B := e.Deploy(ctx, nil)
	e.GiveToken(ctx, A, pcenv.Units(100))
	e.GiveToken(ctx, B, pcenv.Units(100))
	bal := func(a common.Address) int64 { return new(big.Int).Quo(e.TokenBalance(ctx, a), pcenv.Unit.BigInt()).Int64() }
	if bal(A) != 100 || bal(B) != 100 {
		t.Fatalf("setup balances %d %d", bal(A), bal(B))
	}
	tok := evmasm.Addr(e.Token.Bytes())
	run := func(to common.Address, p evmasm.Program, gas uint64) bool {
		ok, _ := w.EthCall(ctx, user, to, gas, p.Encode())
		return ok
	}
	xfer := func(to common.Address, n int64, catch bool) evmasm.Step {
		return evmasm.Step{Kind: evmasm.KindCall, Catch: catch, To: tok, Data: transferData(to, pcenv.Units(n))}
	}

	// 1. one ERC-20 transfer
	if !run(A, evmasm.Program{Steps: []evmasm.Step{xfer(sink, 1, false)}}, 1_000_000) {
		t.Fatal("transfer program failed")
	}
	if bal(A) != 99 || bal(sink) != 1 {
		t.Fatalf("after transfer: A=%d sink=%d", bal(A), bal(sink))
	}
	// 2. transfer then REVERT: nothing moves, tx fails
	if run(A, evmasm.Program{Steps: []evmasm.Step{xfer(sink, 2, false)}, End: evmasm.KindRevert}, 1_000_000) {
		t.Fatal("reverting program succeeded")
	}
	if bal(A) != 99 || bal(sink) != 1 {
		t.Fatalf("after reverted transfer: A=%d sink=%d", bal(A), bal(sink))
	}
	// 3. nested: A transfers 4, calls B (catch) which transfers 8 and reverts, then A transfers 16
	sub := evmasm.Program{Steps: []evmasm.Step{xfer(sink2, 8, false)}, End: evmasm.KindRevert}
	p := evmasm.Program{Steps: []evmasm.Step{
		xfer(sink, 4, false),
		{Kind: evmasm.KindCall, Catch: true, To: evmasm.Addr(B.Bytes()), Data: sub.Encode()},
		xfer(sink, 16, false),
	}}
	if !run(A, p, 2_000_000) {
		t.Fatal("nested program failed")
	}
	if bal(A) != 79 || bal(B) != 100 || bal(sink) != 21 || bal(sink2) != 0 {
		t.Fatalf("nested/catch: A=%d B=%d sink=%d sink2=%d", bal(A), bal(B), bal(sink), bal(sink2))
	}
	// 4. same with PROPAGATE: whole transaction fails, nothing moves
	p.Steps[1].Catch = false
	if run(A, p, 2_000_000) {
		t.Fatal("propagating program succeeded")
	}
	if bal(A) != 79 || bal(sink) != 21 {
		t.Fatalf("nested/propagate: A=%d sink=%d", bal(A), bal(sink))
	}
	// 5. B succeeds: both keep; INVALID in a caught sub-frame with FIXED gas leaves the parent alive
	good := evmasm.Program{Steps: []evmasm.Step{xfer(sink2, 8, false)}}
	bad := evmasm.Program{Steps: []evmasm.Step{xfer(sink2, 32, false)}, End: evmasm.KindInvalid}
	p = evmasm.Program{Steps: []evmasm.Step{
		{Kind: evmasm.KindCall, To: evmasm.Addr(B.Bytes()), Data: good.Encode()},
		{Kind: evmasm.KindCall, Catch: true, Gas: 200_000, To: evmasm.Addr(B.Bytes()), Data: bad.Encode()},
		xfer(sink, 1, false),
	}}
	if !run(A, p, 1_000_000) {
		t.Fatal("program 5 failed")
	}
	if bal(A) != 78 || bal(B) != 92 || bal(sink) != 22 || bal(sink2) != 8 {
		t.Fatalf("program 5: A=%d B=%d sink=%d sink2=%d", bal(A), bal(B), bal(sink), bal(sink2))
	}
	// 6. STATICCALL to a state-changing token method fails (caught: the transaction continues); DELEGATECALL /
	// CALLCODE run the token PROXY's code on the executor's own storage (no implementation there: an empty
	// call that succeeds and moves nothing)
	s6 := xfer(sink, 1, false)
	s6.Kind = evmasm.KindStaticCall
	if run(A, evmasm.Program{Steps: []evmasm.Step{s6}}, 1_000_000) {
		t.Fatal("STATICCALL transfer unexpectedly succeeded")
	}
	s6.Catch = true
	if !run(A, evmasm.Program{Steps: []evmasm.Step{s6, xfer(sink, 1, false)}}, 1_000_000) {
		t.Fatal("caught STATICCALL failed the transaction")
	}
	for _, k := range []byte{evmasm.KindDelegateCall, evmasm.KindCallCode} {
		s := xfer(sink, 1, false)
		s.Kind = k
		if !run(A, evmasm.Program{Steps: []evmasm.Step{s, xfer(sink, 1, false)}}, 1_000_000) {
			t.Fatalf("call kind %d failed", k)
		}
	}
	if bal(A) != 75 || bal(sink) != 25 {
		t.Fatalf("after kinds: A=%d sink=%d", bal(A), bal(sink))
	}
	// 7. embedded default program (empty call data) and the unrolled straight-line variant agree
	def := evmasm.Program{Steps: []evmasm.Step{xfer(sink, 2, false)}}
	C := e.Deploy(ctx, def.Encode())
	D := e.DeployCode(ctx, evmasm.InitCode(evmasm.Unrolled(def)))
	e.GiveToken(ctx, C, pcenv.Units(10))
	e.GiveToken(ctx, D, pcenv.Units(10))
	for _, x := range []common.Address{C, D} {
		if ok, msg := w.EthCall(ctx, user, x, 1_000_000, nil); !ok {
			t.Fatalf("default program: %s", msg)
		}
		if bal(x) != 8 {
			t.Fatalf("default program: balance %d", bal(x))
		}
	}
	if bal(sink) != 29 {
		t.Fatalf("sink=%d", bal(sink))
	}
	// 8. value: A forwards 3 FX to B with a plain call (B's program = STOP)
	w.Fund(ctx, sdk.AccAddress(A.Bytes()), 10)
	fx := func(a common.Address) int64 {
		return w.App.BankKeeper.GetBalance(ctx, a.Bytes(), fxtypes.DefaultDenom).Amount.Quo(pcenv.Unit).Int64()
	}
	stop := evmasm.Program{}
	if !run(A, evmasm.Program{Steps: []evmasm.Step{{Kind: evmasm.KindCall, To: evmasm.Addr(B.Bytes()), Value: pcenv.Units(3), Data: stop.Encode()}}}, 1_000_000) {
		t.Fatal("value call failed")
	}
	if fx(A) != 7 || fx(B) != 3 {
		t.Fatalf("value: A=%d B=%d", fx(A), fx(B))
	}
	// 9. a precompile: A delegates 5 FX to validator 0; the delegation belongs to A
	data, err := stakingprecompile.NewDelegateV2Method(nil).PackInput(fxstakingtypes.DelegateV2Args{Validator: w.ValAddr[0].String(), Amount: pcenv.Units(5)})
	pcenv.Must(err)
	if !run(A, evmasm.Program{Steps: []evmasm.Step{{Kind: evmasm.KindCall, To: evmasm.Addr(fxstakingtypes.GetAddress().Bytes()), Data: data}}}, 1_000_000) {
		t.Fatal("delegateV2 through the executor failed")
	}
	del, err := w.App.StakingKeeper.GetDelegation(ctx, A.Bytes(), w.ValAddr[0])
	if err != nil || !del.Shares.TruncateInt().Equal(pcenv.Unit.MulRaw(5)) {
		t.Fatalf("delegation of A: %v %v", del, err)
	}
	// 10. the frame tracer sees the call tree of program 3 (root, transfer, B, B's transfer, transfer)
	p = evmasm.Program{Steps: []evmasm.Step{
		xfer(sink, 1, false),
		{Kind: evmasm.KindCall, Catch: true, To: evmasm.Addr(B.Bytes()), Data: sub.Encode()},
	}}
	tr, err := e.TraceMsg(ctx, user.Address(), A, nil, 2_000_000, p.Encode())
	pcenv.Must(err)
	n := 0
	for _, f := range tr.Frames {
		if f.Depth <= 1 {
			n++
		}
	}
	if n != 3 || tr.Failed || tr.Frames[0].Err != "" {
		t.Fatalf("trace: %+v", tr)
	}
}
