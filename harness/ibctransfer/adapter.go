// Package ibctransfer binds spec/IbcTransfer.tla to the real IBC stack of fxcore: IBC core message
// handlers (MsgRecvPacket / MsgAcknowledgement / MsgTimeout through the message router), the ICS-20
// transfer application wrapped by fx's IBC middleware, the crossChain precompile (real EVM
// transactions) and MsgTransfer.
//
// The counterparty chain is played by the harness over ibc-go's localhost client: every channel
// "ours" (channel-0, channel-2) is OPEN/UNORDERED over connection-localhost with a counterparty
// channel end "theirs" (channel-1, channel-3) that lives in the same store.  What the other chain
// would have written (packet commitments of the packets it sends, receipts and acknowledgements of
// the packets it receives) is written by the harness under THEIR channel's paths; the sentinel proof
// of the localhost client is then verified by the real IBC core against these paths.  fxcore's side
// is never written by the harness.
//
// Harness-private bookkeeping (the data of every packet sent/received, needed to rebuild packets for
// acknowledgements and replays) lives under key prefix 0xFE of the erc20 store, so it follows the
// branch; every logged outbound packet is checked against the commitment IBC core stored.
package ibctransfer

import (
	"bytes"
	"crypto/sha256"
	"encoding/json"
	"fmt"
	"math/big"
	"os"
	"strings"
	"testing"
	"time"

	sdkmath "cosmossdk.io/math"
	storetypes "cosmossdk.io/store/types"
	sdk "github.com/cosmos/cosmos-sdk/types"
	authtypes "github.com/cosmos/cosmos-sdk/x/auth/types"
	banktypes "github.com/cosmos/cosmos-sdk/x/bank/types"
	capabilitytypes "github.com/cosmos/ibc-go/modules/capability/types"
	transfertypes "github.com/cosmos/ibc-go/v8/modules/apps/transfer/types"
	clienttypes "github.com/cosmos/ibc-go/v8/modules/core/02-client/types"
	channeltypes "github.com/cosmos/ibc-go/v8/modules/core/04-channel/types"
	host "github.com/cosmos/ibc-go/v8/modules/core/24-host"
	"github.com/cosmos/ibc-go/v8/modules/core/exported"
	localhost "github.com/cosmos/ibc-go/v8/modules/light-clients/09-localhost"
	"github.com/ethereum/go-ethereum/common"
	"github.com/ethereum/go-ethereum/crypto"

	"github.com/functionx/fx-core/v8/contract"
	"github.com/functionx/fx-core/v8/testutil/helpers"
	fxtypes "github.com/functionx/fx-core/v8/types"
	"github.com/functionx/fx-core/v8/x/crosschain/precompile"
	crosschaintypes "github.com/functionx/fx-core/v8/x/crosschain/types"
	erc20types "github.com/functionx/fx-core/v8/x/erc20/types"
	ibcmwtypes "github.com/functionx/fx-core/v8/x/ibc/middleware/types"

	"verifharness/graph"
	"verifharness/world"
)

const (
	port      = "transfer"
	baseT     = "usdt"                  // fxcore base denom of the bridged token T
	theirT    = "uusdt"                 // T's denom on the other chain
	theirV    = "uvvv"                  // the other chain's denom whose voucher is registered one-to-one on fxcore (token V)
	theirW    = "FX"                    // a token of the OTHER chain that happens to be named like fxcore's native coin (token W)
	theirHop  = "transfer/channel-9/FX" // the same name at the end of a multi-hop path (never registered)
	theirJunk = "ufoo"                  // a denom of the other chain nobody registered on fxcore
	extPrefix = "cosmos"
)

var unit = sdkmath.NewInt(1_000_000_000_000_000_000)

type Consts struct {
	Acct     []string `json:"Acct"`
	Chan     []string `json:"Chan"` // our channel ids, e.g. ["channel-0","channel-2"]
	MaxSeq   int      `json:"MaxSeq"`
	MaxIn    int      `json:"MaxIn"`
	InitFx   int64    `json:"InitFx"`
	InitCoin int64    `json:"InitCoin"`
	InitErc  int64    `json:"InitErc"`
	InitEsc  int64    `json:"InitEsc"`
	InitPool int64    `json:"InitPool"`
	WChan    []string `json:"WChan"` // channels on which the voucher of the foreign token named "FX" has a registered pair
}

// OutRec is the harness' record of a packet fxcore sent (everything needed to rebuild it).
type OutRec struct {
	U        string `json:"u"`
	Tok      string `json:"tok"`
	A        int64  `json:"a"`
	Evm      bool   `json:"evm"`
	Denom    string `json:"denom"`
	Amount   string `json:"amount"`
	Sender   string `json:"sender"`
	Receiver string `json:"receiver"`
	Memo     string `json:"memo"`
	Timeout  uint64 `json:"timeout"`
}

type Adapter struct {
	W        *world.W
	C        Consts
	erc20Key storetypes.StoreKey
	ibcKey   storetypes.StoreKey
	tokT     common.Address            // ERC-20 contract of T
	tokV     map[string]common.Address // per channel: ERC-20 contract of V
	tokW     map[string]common.Address // per channel in WChan: ERC-20 contract of W
	Recorder common.Address            // stores CALLER in slot 0
	Reverter common.Address            // SSTORE(1,1) then REVERT
	treasury *helpers.Signer
	relayer  *helpers.Signer
	extAddr  string            // an address on the other chain
	baseSeq  map[string]uint64 // per our channel: sequences consumed by world building (outbound)
	baseIn   map[string]uint64 // per our channel: inbound sequences consumed by world building
	okAck    []byte
	// DumpFilter support for the C18 package
	LastAck    []byte
	LastErr    string
	LastEvents sdk.Events
}

func must(err error) {
	if err != nil {
		panic(err)
	}
}

func mustf(ok bool, f string, a ...any) {
	if !ok {
		panic(fmt.Sprintf(f, a...))
	}
}

func (a *Adapter) User(u string) *helpers.Signer { return a.W.Key("ibc/user/" + u) }

// Their returns the counterparty channel id of one of our channels (channel-2k <-> channel-2k+1).
func Their(ch string) string {
	var n int
	_, err := fmt.Sscanf(ch, "channel-%d", &n)
	must(err)
	return fmt.Sprintf("channel-%d", n+1)
}

func voucherTrace(ch, base string) transfertypes.DenomTrace {
	return transfertypes.DenomTrace{Path: port + "/" + ch, BaseDenom: base}
}

// VoucherV is the voucher denom of the other chain's "uvvv" over our channel ch (registered one-to-one).
func VoucherV(ch string) string { return voucherTrace(ch, theirV).IBCDenom() }

// VoucherW is the voucher of the other chain's own token named "FX" over our channel ch.
func VoucherW(ch string) string { return voucherTrace(ch, theirW).IBCDenom() }

// VoucherT is the IBC voucher denom T has when it arrives over our channel ch (an alias of baseT).
func VoucherT(ch string) string { return voucherTrace(ch, theirT).IBCDenom() }

func fx(n int64) sdk.Coin    { return sdk.NewCoin(fxtypes.DefaultDenom, unit.MulRaw(n)) }
func tcoin(n int64) sdk.Coin { return sdk.NewCoin(baseT, unit.MulRaw(n)) }

func units(x sdkmath.Int) int64 {
	q := x.Quo(unit)
	if !q.Mul(unit).Equal(x) {
		return -777
	}
	return q.Int64()
}

// IntermediateSender computed from its definition (ADR-028 hash of "port/channel" and the sender
// string, last 20 bytes), independently of x/ibc/middleware/types.
func derivedSender(srcPort, srcChannel, sender string) common.Address {
	th := sha256.Sum256([]byte(srcPort + "/" + srcChannel))
	h := sha256.New()
	h.Write(th[:])
	h.Write([]byte(sender))
	return common.BytesToAddress(h.Sum(nil))
}

func New(t *testing.T, c Consts) *Adapter { return NewOn(world.New(t, 2), c) }

// NewOn builds the IBC world on an existing chain (it runs one real block first).
func NewOn(w *world.W, c Consts) *Adapter {
	a := &Adapter{W: w, C: c, baseSeq: map[string]uint64{}, baseIn: map[string]uint64{}}
	a.erc20Key = w.App.GetKey(erc20types.StoreKey)
	a.ibcKey = w.App.GetKey(exported.StoreKey)
	a.okAck = channeltypes.NewResultAcknowledgement([]byte{byte(1)}).Acknowledgement()
	a.treasury, a.relayer = w.Key("ibc/treasury"), w.Key("ibc/relayer")
	a.extAddr = sdk.MustBech32ifyAddressBytes(extPrefix, w.Key("ibc/ext").AccAddress())

	// ---- localhost client allowed, one real block so that the localhost client state is at the current height
	p := w.App.IBCKeeper.ClientKeeper.GetParams(w.Ctx)
	p.AllowedClients = append(p.AllowedClients, exported.Localhost)
	w.App.IBCKeeper.ClientKeeper.SetParams(w.Ctx, p)
	_, err := w.Block(5 * time.Second)
	must(err)
	ctx := w.Ctx
	ck := w.App.IBCKeeper.ChannelKeeper
	// ---- channel ends: ours <-> theirs over connection-localhost
	for _, ch := range c.Chan {
		th := Their(ch)
		for _, pr := range [][2]string{{ch, th}, {th, ch}} {
			ck.SetChannel(ctx, port, pr[0], channeltypes.NewChannel(channeltypes.OPEN, channeltypes.UNORDERED,
				channeltypes.NewCounterparty(port, pr[1]), []string{exported.LocalhostConnectionID}, transfertypes.Version))
			ck.SetNextSequenceSend(ctx, port, pr[0], 1)
			ck.SetNextSequenceRecv(ctx, port, pr[0], 1)
			ck.SetNextSequenceAck(ctx, port, pr[0], 1)
			path := host.ChannelCapabilityPath(port, pr[0])
			cp, e := w.App.ScopedIBCKeeper.NewCapability(ctx, path)
			must(e)
			must(w.App.ScopedTransferKeeper.ClaimCapability(ctx, capabilitytypes.NewCapability(cp.Index), path))
		}
	}
	ck.SetNextChannelSequence(ctx, 64)

	// ---- accounts
	w.Fund(ctx, a.treasury.AccAddress(), 1_000_000)
	w.Fund(ctx, a.relayer.AccAddress(), 1_000)
	for _, u := range c.Acct {
		w.Fund(ctx, a.User(u).AccAddress(), c.InitFx)
	}
	// ---- token T: a coin registered by governance (base "usdt") whose aliases are the vouchers it has on our channels
	var aliases []string
	for _, ch := range c.Chan {
		aliases = append(aliases, VoucherT(ch))
	}
	must(w.Handle(ctx, &erc20types.MsgRegisterCoin{Authority: world.GovAddr(), Metadata: fxtypes.GetCrossChainMetadataManyToOne("Tether USD", "USDT", 18, aliases...)}))
	pair, found := w.App.Erc20Keeper.GetTokenPair(ctx, baseT)
	mustf(found, "token pair of %s missing", baseT)
	a.tokT = pair.GetERC20Contract()
	// ---- token V: the voucher of the other chain's "uvvv" on each channel, registered one-to-one (base = ibc/hash)
	a.tokV = map[string]common.Address{}
	for i, ch := range c.Chan {
		sym := fmt.Sprintf("VVV%d", i)
		md := banktypes.Metadata{Description: "voucher registered one-to-one", Base: VoucherV(ch), Display: sym, Name: "V over " + ch, Symbol: sym,
			DenomUnits: []*banktypes.DenomUnit{{Denom: VoucherV(ch), Exponent: 0}, {Denom: sym, Exponent: 18}}}
		must(w.Handle(ctx, &erc20types.MsgRegisterCoin{Authority: world.GovAddr(), Metadata: md}))
		pv, ok := w.App.Erc20Keeper.GetTokenPair(ctx, VoucherV(ch))
		mustf(ok, "token pair of V missing")
		a.tokV[ch] = pv.GetERC20Contract()
	}

	// ---- token W: the voucher of the other chain's own "FX", registered one-to-one on the channels in WChan
	a.tokW = map[string]common.Address{}
	for i, ch := range c.WChan {
		sym := fmt.Sprintf("XFX%d", i)
		md := banktypes.Metadata{Description: "foreign token named FX", Base: VoucherW(ch), Display: sym, Name: "foreign FX over " + ch, Symbol: sym,
			DenomUnits: []*banktypes.DenomUnit{{Denom: VoucherW(ch), Exponent: 0}, {Denom: sym, Exponent: 18}}}
		must(w.Handle(ctx, &erc20types.MsgRegisterCoin{Authority: world.GovAddr(), Metadata: md}))
		pw, ok := w.App.Erc20Keeper.GetTokenPair(ctx, VoucherW(ch))
		mustf(ok, "token pair of W missing")
		a.tokW[ch] = pw.GetERC20Contract()
	}

	// ---- contracts for memo calls
	a.Recorder = a.Deploy(ctx, common.FromHex("3360005500"))           // CALLER PUSH1 0 SSTORE STOP
	a.Reverter = a.Deploy(ctx, common.FromHex("600160015560006000fd")) // PUSH1 1 PUSH1 1 SSTORE PUSH1 0 PUSH1 0 REVERT

	// ---- T that arrived earlier over every channel.  WORLD SHORTCUT (see assumptions): on this tree ibc-go writes
	// bank metadata for every voucher it mints, after which crosschain.ManyToOne takes the voucher for a base denom
	// and the conversion voucher -> usdt can no longer happen; a state with parked vouchers is therefore the
	// state of a chain whose vouchers arrived under an earlier version.  It is produced with the real conversion
	// code (IBCCoinToEvm) from vouchers minted to the treasury, with the denom trace set and no voucher metadata.
	for _, ch := range c.Chan {
		w.App.IBCTransferKeeper.SetDenomTrace(ctx, voucherTrace(ch, theirT))
		v := sdk.NewCoin(VoucherT(ch), unit.MulRaw(c.InitPool))
		w.MintCoins(ctx, a.treasury.AccAddress(), v)
		must(w.App.EthKeeper.IBCCoinToEvm(ctx, v, a.treasury.AccAddress()))
		mustf(!w.App.BankKeeper.HasDenomMetaData(ctx, VoucherT(ch)), "voucher metadata exists")
	}
	// ... and is handed to the accounts: ERC-20 transfers, then MsgConvertERC20 for the coin form
	total := (c.InitErc + c.InitCoin) * int64(len(c.Acct))
	mustf(total <= c.InitPool*int64(len(c.Chan)), "InitPool too small")
	for _, u := range c.Acct {
		usr := a.User(u)
		if c.InitErc+c.InitCoin > 0 {
			data, e := contract.GetFIP20().ABI.Pack("transfer", usr.Address(), unit.MulRaw(c.InitErc+c.InitCoin).BigInt())
			must(e)
			ok, msg := w.EthCall(ctx, a.treasury, a.tokT, 500_000, data)
			mustf(ok, "world: erc20 transfer: %s", msg)
		}
		if c.InitCoin > 0 {
			must(w.Handle(ctx, &erc20types.MsgConvertERC20{ContractAddress: a.tokT.Hex(), Amount: unit.MulRaw(c.InitCoin), Receiver: usr.AccAddress().String(), Sender: usr.Address().Hex()}))
		}
		// the precompile pulls ERC-20 with transferFrom: allowance for the crossChain precompile
		data, e := contract.GetFIP20().ABI.Pack("approve", crosschaintypes.GetAddress(), new(big.Int).Lsh(big.NewInt(1), 200))
		must(e)
		ok, msg := w.EthCall(ctx, usr, a.tokT, 500_000, data)
		mustf(ok, "world: approve: %s", msg)
	}
	// ---- the derived senders of memo calls must exist as accounts (keeper CallEVM refuses unknown senders):
	// anybody can create them with a bank transfer
	for _, ch := range c.Chan {
		for _, m := range []string{"good", "goodAs"} {
			imd := derivedSender(port, Their(ch), a.senderOf(m))
			must(w.Handle(ctx, banktypes.NewMsgSend(a.treasury.AccAddress(), imd.Bytes(), sdk.NewCoins(sdk.NewCoin(fxtypes.DefaultDenom, sdkmath.NewInt(1))))))
		}
	}
	// ---- FX that left earlier over every channel (escrowed): real MsgTransfer by the treasury, acknowledged
	for _, ch := range c.Chan {
		if c.InitEsc > 0 {
			_, res := a.sendCosmos(ctx, a.treasury.AccAddress(), "treasury", "FX", ch, c.InitEsc)
			mustf(res == "ok", "world: escrow transfer: %s", a.LastErr)
			_, res = a.settle(ctx, "AckSuccess", ch, 1, false)
			mustf(res == "ok", "world: escrow ack: %s", a.LastErr)
		}
		a.baseSeq[ch] = a.nextSend(ctx, ch) - 1
		a.baseIn[ch] = a.nextSend(ctx, Their(ch)) - 1
	}
	return a
}

func (a *Adapter) nextSend(ctx sdk.Context, ch string) uint64 {
	n, ok := a.W.App.IBCKeeper.ChannelKeeper.GetNextSequenceSend(ctx, port, ch)
	mustf(ok, "no send sequence for %s", ch)
	return n
}

// Deploy creates a contract with the given runtime code (CODECOPY/RETURN init header) from the treasury.
func (a *Adapter) Deploy(ctx sdk.Context, runtime []byte) common.Address {
	mustf(len(runtime) < 256, "runtime too long")
	n := byte(len(runtime))
	// PUSH1 n  DUP1  PUSH1 0x0b  PUSH1 0  CODECOPY  PUSH1 0  RETURN  (11 bytes), then the runtime code
	init := []byte{0x60, n, 0x80, 0x60, 0x0b, 0x60, 0x00, 0x39, 0x60, 0x00, 0xf3}
	init = append(init, runtime...)
	from := a.treasury.Address()
	nonce := a.W.App.EvmKeeper.GetNonce(ctx, from)
	res, err := a.W.App.EvmKeeper.CallEVMWithoutGas(ctx, from, nil, nil, init, true)
	must(err)
	mustf(!res.Failed(), "deploy: %s", res.VmError)
	addr := crypto.CreateAddress(from, nonce)
	code := a.W.App.EvmKeeper.GetCode(ctx, common.BytesToHash(a.W.App.EvmKeeper.GetAccount(ctx, addr).CodeHash))
	mustf(bytes.Equal(code, runtime), "deployed code %x != %x", code, runtime)
	return addr
}

// ---- harness-private log (0xFE prefix of the erc20 store; follows the branch)

func logKey(kind, ch string, seq uint64) []byte {
	return append([]byte{0xFE}, []byte(fmt.Sprintf("%s/%s/%d", kind, ch, seq))...)
}

func (a *Adapter) putLog(ctx sdk.Context, kind, ch string, seq uint64, v any) {
	b, err := json.Marshal(v)
	must(err)
	ctx.KVStore(a.erc20Key).Set(logKey(kind, ch, seq), b)
}

func (a *Adapter) getOut(ctx sdk.Context, ch string, seq uint64) (OutRec, bool) {
	var r OutRec
	bz := ctx.KVStore(a.erc20Key).Get(logKey("out", ch, seq))
	if bz == nil {
		return r, false
	}
	must(json.Unmarshal(bz, &r))
	return r, true
}

func (a *Adapter) getIn(ctx sdk.Context, ch string, seq uint64) (channeltypes.Packet, bool) {
	var p channeltypes.Packet
	bz := ctx.KVStore(a.erc20Key).Get(logKey("in", ch, seq))
	if bz == nil {
		return p, false
	}
	must(a.W.App.AppCodec().Unmarshal(bz, &p))
	return p, true
}

func (r OutRec) packet(ch string, seq uint64) channeltypes.Packet {
	data := transfertypes.NewFungibleTokenPacketData(r.Denom, r.Amount, r.Sender, r.Receiver, r.Memo)
	return channeltypes.NewPacket(data.GetBytes(), seq, port, ch, port, Their(ch), clienttypes.ZeroHeight(), r.Timeout)
}

// route sends msg through the application's message router like world.Handle, and returns the response.
func (a *Adapter) route(ctx sdk.Context, msg sdk.Msg) (resp any, err error) {
	a.LastEvents = nil
	defer func() {
		if r := recover(); r != nil {
			resp, err = nil, fmt.Errorf("PANIC: %v", r)
		}
	}()
	if v, ok := msg.(sdk.HasValidateBasic); ok {
		if err = v.ValidateBasic(); err != nil {
			return nil, err
		}
	}
	h := a.W.App.MsgServiceRouter().Handler(msg)
	if h == nil {
		return nil, fmt.Errorf("no handler for %T", msg)
	}
	cctx, write := ctx.CacheContext()
	res, err := h(cctx, msg)
	if err != nil {
		return nil, err
	}
	write()
	a.LastEvents = res.GetEvents()
	if len(res.MsgResponses) > 0 {
		resp = res.MsgResponses[0].GetCachedValue()
	}
	return resp, nil
}

func (a *Adapter) fail(err error) string {
	a.LastErr = err.Error()
	return "rej"
}

// ---- the operations (each writes into ctx; callers give them a cache that is kept only on "ok")

func (a *Adapter) sendCosmos(ctx sdk.Context, from sdk.AccAddress, u, tok, ch string, n int64) (uint64, string) {
	coin := fx(n)
	if tok == "T" {
		coin = tcoin(n)
	}
	seq := a.nextSend(ctx, ch)
	timeout := uint64(ctx.BlockTime().UnixNano()) + uint64(12*time.Hour)
	msg := transfertypes.NewMsgTransfer(port, ch, coin, from.String(), a.extAddr, clienttypes.ZeroHeight(), timeout, "")
	if _, err := a.route(ctx, msg); err != nil {
		return 0, a.fail(err)
	}
	a.putLog(ctx, "out", ch, seq, OutRec{U: u, Tok: tok, A: n, Evm: false, Denom: coin.Denom, Amount: coin.Amount.String(),
		Sender: from.String(), Receiver: a.extAddr, Memo: "", Timeout: timeout})
	return seq, "ok"
}

func (a *Adapter) sendEvm(ctx sdk.Context, usr *helpers.Signer, u, tok, ch string, n int64) (uint64, string) {
	var chn int
	_, err := fmt.Sscanf(ch, "channel-%d", &chn)
	must(err)
	target := fmt.Sprintf("ibc/%d/%s", chn, extPrefix)
	amt := unit.MulRaw(n).BigInt()
	args := crosschaintypes.CrossChainArgs{Receipt: a.extAddr, Amount: amt, Fee: big.NewInt(0), Target: fxtypes.MustStrToByte32(target), Memo: ""}
	var value *big.Int
	denom := fxtypes.DefaultDenom
	if tok == "T" {
		args.Token = a.tokT
		denom = voucherTrace(ch, theirT).GetFullDenomPath()
	} else {
		value = amt
	}
	data, err := precompile.NewCrossChainMethod(nil).PackInput(args)
	must(err)
	seq := a.nextSend(ctx, ch)
	to := crosschaintypes.GetAddress()
	res, err := a.W.EthTx(ctx, usr, &to, value, 3_000_000, data)
	if err != nil {
		return 0, a.fail(err)
	}
	if res.VmError != "" {
		return 0, a.fail(fmt.Errorf("vm: %s", res.VmError))
	}
	timeout := uint64(ctx.BlockTime().UnixNano()) + uint64(a.W.App.Erc20Keeper.GetIbcTimeout(ctx))
	a.putLog(ctx, "out", ch, seq, OutRec{U: u, Tok: tok, A: n, Evm: true, Denom: denom, Amount: unit.MulRaw(n).String(),
		Sender: usr.AccAddress().String(), Receiver: a.extAddr, Memo: "", Timeout: timeout})
	return seq, "ok"
}

// settle delivers what the other chain answers for the packet (ch, seq): a success or error
// acknowledgement, or (nothing received until the timeout) a timeout.  The counterparty's side of the
// story (receipt + acknowledgement under THEIR channel) is written only while fxcore still holds the
// commitment, as an honest counterparty would produce exactly one of them.
func (a *Adapter) settle(ctx sdk.Context, kind, ch string, seq uint64, rel bool) (sdk.Context, string) {
	ck := a.W.App.IBCKeeper.ChannelKeeper
	if rel {
		seq += a.baseSeq[ch]
	}
	rec, logged := a.getOut(ctx, ch, seq)
	if !logged { // never sent: a packet fxcore cannot have committed to
		rec = OutRec{Denom: fxtypes.DefaultDenom, Amount: unit.String(), Sender: a.treasury.AccAddress().String(), Receiver: a.extAddr, Timeout: uint64(ctx.BlockTime().UnixNano()) + 1}
	}
	packet := rec.packet(ch, seq)
	open := len(ck.GetPacketCommitment(ctx, port, ch, seq)) > 0
	signer := a.relayer.AccAddress().String()
	height := clienttypes.GetSelfHeight(ctx)
	var resp any
	var err error
	switch kind {
	case "AckSuccess", "AckError":
		ack := a.okAck
		if kind == "AckError" {
			ack = channeltypes.NewErrorAcknowledgement(fmt.Errorf("refused by the other chain")).Acknowledgement()
		}
		if open {
			if _, answered := ck.GetPacketAcknowledgement(ctx, port, Their(ch), seq); !answered {
				ck.SetPacketReceipt(ctx, port, Their(ch), seq)
				ck.SetPacketAcknowledgement(ctx, port, Their(ch), seq, channeltypes.CommitAcknowledgement(ack))
			}
		}
		resp, err = a.route(ctx, channeltypes.NewMsgAcknowledgement(packet, ack, localhost.SentinelProof, height, signer))
		if err == nil && resp.(*channeltypes.MsgAcknowledgementResponse).Result == channeltypes.NOOP {
			err = fmt.Errorf("no-op")
		}
	case "Timeout":
		// the relayer waits until the other chain's clock has passed the packet's timeout
		late := ctx.WithBlockTime(time.Unix(0, int64(rec.Timeout)).Add(time.Second))
		if late.BlockTime().Before(ctx.BlockTime()) {
			late = ctx
		}
		resp, err = a.route(late, channeltypes.NewMsgTimeout(packet, 1, localhost.SentinelProof, height, signer))
		if err == nil && resp.(*channeltypes.MsgTimeoutResponse).Result == channeltypes.NOOP {
			err = fmt.Errorf("no-op")
		}
	default:
		panic(kind)
	}
	if err != nil {
		return ctx, a.fail(err)
	}
	return ctx, "ok"
}

// Recv lets the other chain send a packet over THEIR end of ch (commitment + sequence written as
// the other chain would) and relays it to fxcore with the real MsgRecvPacket.
func (a *Adapter) Recv(ctx sdk.Context, ch, receiver, denom string, n int64, sender, memo string) (uint64, string) {
	ck := a.W.App.IBCKeeper.ChannelKeeper
	th := Their(ch)
	seq := a.nextSend(ctx, th)
	data := transfertypes.NewFungibleTokenPacketData(denom, unit.MulRaw(n).String(), sender, receiver, memo)
	timeout := uint64(ctx.BlockTime().UnixNano()) + uint64(1000*time.Hour)
	packet := channeltypes.NewPacket(data.GetBytes(), seq, port, th, port, ch, clienttypes.ZeroHeight(), timeout)
	ck.SetPacketCommitment(ctx, port, th, seq, channeltypes.CommitPacket(a.W.App.AppCodec(), packet))
	ck.SetNextSequenceSend(ctx, port, th, seq+1)
	bz, err := a.W.App.AppCodec().Marshal(&packet)
	must(err)
	ctx.KVStore(a.erc20Key).Set(logKey("in", ch, seq), bz)
	return seq, a.relayRecv(ctx, packet)
}

func (a *Adapter) relayRecv(ctx sdk.Context, packet channeltypes.Packet) string {
	resp, err := a.route(ctx, channeltypes.NewMsgRecvPacket(packet, localhost.SentinelProof, clienttypes.GetSelfHeight(ctx), a.relayer.AccAddress().String()))
	if err == nil && resp.(*channeltypes.MsgRecvPacketResponse).Result == channeltypes.NOOP {
		err = fmt.Errorf("no-op")
	}
	if err != nil {
		return a.fail(err)
	}
	a.LastAck = nil
	for _, ev := range a.LastEvents {
		if os.Getenv("VERIF_DEBUG") == "2" {
			fmt.Printf("EVENT %s %v\n", ev.Type, ev.Attributes)
		}
		if ev.Type == channeltypes.EventTypeWriteAck {
			for _, at := range ev.Attributes {
				if at.Key == channeltypes.AttributeKeyAck { //nolint:staticcheck
					a.LastAck = []byte(at.Value)
				}
			}
		}
	}
	return "ok"
}

// theirFx is the FX the other chain holds as vouchers of ch: the channel's escrow minus what is in flight.
func (a *Adapter) theirFx(ctx sdk.Context, ch string) int64 {
	n := units(a.W.App.BankKeeper.GetBalance(ctx, transfertypes.GetEscrowAddress(port, ch), fxtypes.DefaultDenom).Amount)
	ibc := ctx.KVStore(a.ibcKey)
	for seq := a.baseSeq[ch] + 1; seq < a.nextSend(ctx, ch); seq++ {
		if rec, ok := a.getOut(ctx, ch, seq); ok && rec.Tok == "FX" && len(ibc.Get(host.PacketCommitmentKey(port, ch, seq))) > 0 {
			n -= rec.A
		}
	}
	return n
}

// Memo builds the memo of a packet class.
func (a *Adapter) Memo(class string) string {
	call := func(to common.Address) string {
		bz, err := a.W.App.AppCodec().MarshalInterfaceJSON(&ibcmwtypes.IbcCallEvmPacket{To: to.Hex(), Value: sdkmath.ZeroInt(), Data: ""})
		must(err)
		return string(bz)
	}
	switch class {
	case "none":
		return ""
	case "junk":
		return `{"wasm":{"contract":"x","msg":{}}}`
	case "good", "goodAs":
		return call(a.Recorder)
	case "bad":
		return call(a.Reverter)
	}
	panic("memo class " + class)
}

func (a *Adapter) senderOf(memo string) string {
	if memo == "goodAs" { // the other chain names a LOCAL account's address as the sender
		return a.User(a.C.Acct[0]).AccAddress().String()
	}
	return a.extAddr
}

func (a *Adapter) Apply(ctx sdk.Context, op graph.Op) (sdk.Context, string) {
	cctx, write := ctx.CacheContext()
	a.LastErr = ""
	res := "rej"
	ch := op.Str("ch")
	switch op.Name() {
	case "SendFromEvm":
		_, res = a.sendEvm(cctx, a.User(op.Str("u")), op.Str("u"), op.Str("tok"), ch, op.Int("a"))
	case "SendFromCosmos":
		_, res = a.sendCosmos(cctx, a.User(op.Str("u")).AccAddress(), op.Str("u"), op.Str("tok"), ch, op.Int("a"))
	case "AckSuccess", "AckError", "Timeout":
		_, res = a.settle(cctx, op.Name(), ch, uint64(op.Int("s")), true)
	case "Recv":
		usr := a.User(op.Str("u"))
		receiver := usr.AccAddress().String()
		if op.Str("rf") == "hex" {
			receiver = usr.Address().Hex()
		}
		var denom string
		switch op.Str("dn") {
		case "fx": // FX that left over this channel comes home - if the other chain has that much (escrowed, not in flight)
			denom = port + "/" + Their(ch) + "/" + fxtypes.DefaultDenom
			if a.theirFx(cctx, ch) < op.Int("a") {
				a.LastErr = "environment: the other chain does not hold that much FX"
				return ctx, "rej"
			}
		case "tb":
			denom = theirT
		case "t1":
			denom = theirV
		case "f1":
			denom = theirW
		case "fh":
			denom = theirHop
		case "vx":
			denom = theirJunk
		default:
			panic("denom class")
		}
		_, res = a.Recv(cctx, ch, receiver, denom, op.Int("a"), a.senderOf(op.Str("memo")), a.Memo(op.Str("memo")))
	case "RecvReplay":
		seq := uint64(op.Int("s")) + a.baseIn[ch]
		packet, logged := a.getIn(cctx, ch, seq)
		if !logged { // a packet the other chain never sent
			data := transfertypes.NewFungibleTokenPacketData(theirT, unit.String(), a.extAddr, a.User(a.C.Acct[0]).Address().Hex(), "")
			packet = channeltypes.NewPacket(data.GetBytes(), seq, port, Their(ch), port, ch, clienttypes.ZeroHeight(), uint64(ctx.BlockTime().UnixNano())+uint64(time.Hour))
		}
		res = a.relayRecv(cctx, packet)
	default:
		panic("unknown op " + op.Name())
	}
	if res == "ok" {
		write()
	} else if os.Getenv("VERIF_DEBUG") != "" {
		fmt.Printf("DEBUG %v -> %s\n", op, a.LastErr)
	}
	return ctx, res
}

// AckOf classifies the acknowledgement fxcore stored for inbound packet (ch, seq): "none", "ok"
// (the ICS-20 success acknowledgement) or "err".
func (a *Adapter) AckOf(ctx sdk.Context, ch string, seq uint64) string {
	st := ctx.KVStore(a.ibcKey)
	bz := st.Get(host.PacketAcknowledgementKey(port, ch, seq))
	rcpt := st.Has(host.PacketReceiptKey(port, ch, seq))
	switch {
	case bz == nil && !rcpt:
		return "none"
	case bz == nil || !rcpt:
		return "?receipt-without-ack"
	case bytes.Equal(bz, channeltypes.CommitAcknowledgement(a.okAck)):
		return "ok"
	}
	return "err"
}

type outAbs struct {
	St  string `json:"st"`
	U   string `json:"u"`
	Tok string `json:"tok"`
	Amt int64  `json:"amt"`
	Evm bool   `json:"evm"`
}

// Project reads bank balances, ERC-20 balanceOf, the IBC core store (sequences, commitments,
// receipts, acknowledgements), the erc20 store prefix 0x04 and the recorder contract's slot 0.
func (a *Adapter) Project(ctx sdk.Context) any {
	w, c := a.W, a.C
	bank := w.App.BankKeeper
	ibc := ctx.KVStore(a.ibcKey)
	coin := map[string]map[string]int64{"FX": {}, "T": {}}
	erc, other := map[string]int64{}, map[string]int64{}
	for _, u := range c.Acct {
		addr := a.User(u).AccAddress()
		coin["FX"][u] = units(bank.GetBalance(ctx, addr, fxtypes.DefaultDenom).Amount)
		coin["T"][u] = units(bank.GetBalance(ctx, addr, baseT).Amount)
		erc[u] = a.BalanceOf(ctx, a.tokT, a.User(u).Address())
		o := int64(0)
		for _, b := range bank.GetAllBalances(ctx, addr) {
			if b.Denom != fxtypes.DefaultDenom && b.Denom != baseT {
				o += units(b.Amount)
			}
		}
		other[u] = o
	}
	nseq, nin := map[string]int64{}, map[string]int64{}
	out, rel, ack := map[string][]outAbs{}, map[string][]bool{}, map[string][]string{}
	esc, pool := map[string]map[string]int64{}, map[string]int64{}
	vrc, vpool := map[string]map[string]int64{}, map[string]int64{}
	tm := authtypes.NewModuleAddress(transfertypes.ModuleName)
	relKeys := map[string]bool{}
	it := storetypes.KVStorePrefixIterator(ctx.KVStore(a.erc20Key), erc20types.KeyPrefixIBCTransfer)
	for ; it.Valid(); it.Next() {
		relKeys[string(it.Key()[1:])] = true
	}
	it.Close()
	for _, ch := range c.Chan {
		nseq[ch] = int64(a.nextSend(ctx, ch)-1) - int64(a.baseSeq[ch])
		nin[ch] = int64(a.nextSend(ctx, Their(ch))-1) - int64(a.baseIn[ch])
		outs, rels := make([]outAbs, c.MaxSeq+1), make([]bool, c.MaxSeq+1)
		for i := range outs {
			seq := a.baseSeq[ch] + uint64(i+1)
			outs[i] = outAbs{St: "none", U: "none", Tok: "none"}
			cm := ibc.Get(host.PacketCommitmentKey(port, ch, seq))
			rec, logged := a.getOut(ctx, ch, seq)
			switch {
			case len(cm) > 0 && logged && bytes.Equal(cm, channeltypes.CommitPacket(w.App.AppCodec(), rec.packet(ch, seq))):
				outs[i] = outAbs{St: "open", U: rec.U, Tok: rec.Tok, Amt: rec.A, Evm: rec.Evm}
			case len(cm) > 0:
				outs[i].St = "?commitment-differs-from-log"
			case int64(i+1) <= nseq[ch]:
				outs[i].St = "done"
			}
			k := fmt.Sprintf("%s/%d", ch, seq)
			rels[i] = relKeys[k]
			delete(relKeys, k)
		}
		out[ch], rel[ch] = outs, rels
		acks := make([]string, c.MaxIn+1)
		for i := range acks {
			acks[i] = a.AckOf(ctx, ch, a.baseIn[ch]+uint64(i+1))
		}
		ack[ch] = acks
		ea := transfertypes.GetEscrowAddress(port, ch)
		esc[ch] = map[string]int64{"FX": units(bank.GetBalance(ctx, ea, fxtypes.DefaultDenom).Amount), "T": units(bank.GetBalance(ctx, ea, baseT).Amount)}
		pool[ch] = units(bank.GetBalance(ctx, tm, VoucherT(ch)).Amount)
		// registered vouchers: V, and W where it has a pair (ERC-20 balances and parked vouchers summed)
		vpool[ch] = units(bank.GetBalance(ctx, tm, VoucherV(ch)).Amount) + units(bank.GetBalance(ctx, tm, VoucherW(ch)).Amount)
		vrc[ch] = map[string]int64{}
		for _, u := range c.Acct {
			vrc[ch][u] = a.BalanceOf(ctx, a.tokV[ch], a.User(u).Address())
			if tw, ok := a.tokW[ch]; ok {
				vrc[ch][u] += a.BalanceOf(ctx, tw, a.User(u).Address())
			}
		}
	}
	return map[string]any{"coin": coin, "erc": erc, "other": other, "nseq": nseq, "out": out, "rel": rel, "relx": int64(len(relKeys)),
		"nin": nin, "ack": ack, "esc": esc, "pool": pool, "vrc": vrc, "vpool": vpool, "caller": a.caller(ctx)}
}

// BalanceOf is an ERC-20 balance in whole units.
func (a *Adapter) BalanceOf(ctx sdk.Context, token, who common.Address) int64 {
	var out struct{ Value *big.Int }
	from := common.BytesToAddress(authtypes.NewModuleAddress("evm"))
	must(a.W.App.EvmKeeper.QueryContract(ctx, from, token, contract.GetFIP20().ABI, "balanceOf", &out, who))
	return units(sdkmath.NewIntFromBigInt(out.Value))
}

// caller renders slot 0 of the recorder contract: who the EVM saw as msg.sender of the last memo call.
func (a *Adapter) caller(ctx sdk.Context) string {
	v := a.W.App.EvmKeeper.GetState(ctx, a.Recorder, common.Hash{})
	if v == (common.Hash{}) {
		return "none"
	}
	addr := common.BytesToAddress(v.Bytes())
	for _, u := range a.C.Acct {
		if addr == a.User(u).Address() {
			return u
		}
	}
	for _, ch := range a.C.Chan {
		for _, m := range []string{"good", "goodAs"} {
			if addr == derivedSender(port, Their(ch), a.senderOf(m)) {
				return "imd/" + ch + "/" + m
			}
		}
	}
	return "?" + strings.ToLower(addr.Hex())
}

// ---- accessors used by the C18 package (harness/tolerated), which reuses this world

func (a *Adapter) ExtAddr() string                          { return a.extAddr }
func (a *Adapter) TokV(ch string) common.Address            { return a.tokV[ch] }
func (a *Adapter) NextIn(ctx sdk.Context, ch string) uint64 { return a.nextSend(ctx, Their(ch)) }
func (a *Adapter) BaseIn(ch string) uint64                  { return a.baseIn[ch] }

// CallMemo is the memo of an IBC call to an arbitrary contract.
func (a *Adapter) CallMemo(to string) string {
	bz, err := a.W.App.AppCodec().MarshalInterfaceJSON(&ibcmwtypes.IbcCallEvmPacket{To: to, Value: sdkmath.ZeroInt(), Data: ""})
	must(err)
	return string(bz)
}

// DenomOf maps a denom class of IbcTransfer.tla to the packet denom over our channel ch.
func DenomOf(class, ch string) string {
	switch class {
	case "fx":
		return port + "/" + Their(ch) + "/" + fxtypes.DefaultDenom
	case "tb":
		return theirT
	case "t1":
		return theirV
	case "f1":
		return theirW
	case "fh":
		return theirHop
	case "vx":
		return theirJunk
	}
	panic("denom class " + class)
}
