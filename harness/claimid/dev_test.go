package claimid

import (
	"encoding/json"
	"fmt"
	"os"
	"testing"
)

// TestTable prints the variant table of every claim type (development aid; also used to keep
// bin/spec_claimid.py in sync).
func TestTable(t *testing.T) {
	chain := os.Getenv("VERIF_CHAIN")
	if chain == "" {
		chain = "eth"
	}
	out := map[string]any{}
	for _, ct := range []string{"SendToFx", "BridgeCall", "BridgeCallResult", "SendToExternal", "BridgeToken", "OracleSet"} {
		if only := os.Getenv("VERIF_CLAIMTYPE"); only != "" && only != ct {
			continue
		}
		a := New(t, Consts{Chain: chain, ClaimType: ct, Oracle: []string{"o1", "o2", "o3"}, Stake: map[string]int64{"o1": 34, "o2": 33, "o3": 33}})
		out[ct] = map[string]any{"Variant": a.C.Variant, "BadVariant": a.C.BadVariant}
		// collisions of the real ClaimHash between variants
		for i := range a.variants {
			for j := i + 1; j < len(a.variants); j++ {
				if string(a.variants[i].claim.ClaimHash()) == string(a.variants[j].claim.ClaimHash()) {
					fmt.Printf("COLLISION %s %s: %s == %s\n", chain, ct, a.variants[i].name, a.variants[j].name)
				}
			}
		}
	}
	b, _ := json.Marshal(out)
	fmt.Println("TABLE", string(b))
}
