// Package claimid binds spec/ClaimId.tla (C03: the executed event is field-for-field the event the
// quorum voted for) to the real crosschain keeper of one chain module.
//
// The model's Variant names are mapped to real claim objects by the tables in variants.go.  Every
// variant passes the real ValidateBasic (asserted in New; anything else is an infrastructure error).
package claimid

import (
	"bytes"
	"crypto/sha256"
	"encoding/hex"
	"errors"
	"fmt"
	"math/big"
	"os"
	"sort"
	"strings"
	"testing"

	sdkmath "cosmossdk.io/math"
	storetypes "cosmossdk.io/store/types"
	codectypes "github.com/cosmos/cosmos-sdk/codec/types"
	sdk "github.com/cosmos/cosmos-sdk/types"
	"github.com/cosmos/gogoproto/proto"
	"github.com/ethereum/go-ethereum/common"
	"github.com/ethereum/go-ethereum/crypto"

	"github.com/functionx/fx-core/v8/testutil/helpers"
	fxtypes "github.com/functionx/fx-core/v8/types"
	crosschainkeeper "github.com/functionx/fx-core/v8/x/crosschain/keeper"
	"github.com/functionx/fx-core/v8/x/crosschain/precompile"
	"github.com/functionx/fx-core/v8/x/crosschain/types"
	erc20types "github.com/functionx/fx-core/v8/x/erc20/types"

	"verifharness/graph"
	"verifharness/world"
)

var powerUnit = sdkmath.NewInt(1).MulRaw(1e18).MulRaw(100) // sdk.DefaultPowerReduction in fxcore = 1e20

// markerPrefix: harness-private bookkeeping inside the crosschain KV store (unused prefix on this
// tree): 0xFE | oracle address -> name of the variant the oracle submitted.  Branches of the replay
// are cache contexts of the multistore, so the marker follows the branch it was written in.
var markerPrefix = []byte{0xFE}

type Consts struct {
	Chain      string           `json:"chain"`
	ClaimType  string           `json:"ClaimType"`
	Oracle     []string         `json:"Oracle"`
	Variant    []string         `json:"Variant"`
	BadVariant []string         `json:"BadVariant"`
	Stake      map[string]int64 `json:"Stake"`
}

type variant struct {
	name  string
	claim types.ExternalClaim // bridger address empty
	bad   bool                // execution panics in the handler
	bz    []byte              // marshalled claim with empty bridger
}

type Adapter struct {
	W        *world.W
	C        Consts
	Chain    string
	K        crosschainkeeper.Keeper
	storeKey storetypes.StoreKey
	Root     sdk.Context
	user     *helpers.Signer
	nonce    uint64 // the real event nonce under test (model: the one nonce)
	parked   bool

	// world
	tokFX, tokU, tokNew, tokNew2 string
	rec1, rec2                   common.Address
	osMembers                    []types.BridgeValidator // stored oracle set nonce 1
	batchFX1, batchFX2, batchU   uint64
	call1, call2                 uint64

	variants []variant
	byName   map[string]*variant
	ref0     string
	refObs   map[string]string
	refExec  map[string]string
}

func (a *Adapter) oracleKey(o string) *helpers.Signer  { return a.W.Key(a.Chain + "/oracle/" + o) }
func (a *Adapter) bridgerKey(o string) *helpers.Signer { return a.W.Key(a.Chain + "/bridger/" + o) }

// ext returns a deterministic valid external address of this chain for a label.
func (a *Adapter) ext(label string) string {
	return a.fmtExt(common.HexToAddress(world.DetExt(a.Chain + "/" + label)))
}

func (a *Adapter) fmtExt(addr common.Address) string {
	if a.Chain == "tron" {
		return helpers.HexAddrToTronAddr(addr.Hex())
	}
	return addr.Hex()
}

func keeperOf(w *world.W, chain string) crosschainkeeper.Keeper {
	switch chain {
	case "eth":
		return w.App.EthKeeper
	case "bsc":
		return w.App.BscKeeper
	case "polygon":
		return w.App.PolygonKeeper
	case "avalanche":
		return w.App.AvalancheKeeper
	case "arbitrum":
		return w.App.ArbitrumKeeper
	case "optimism":
		return w.App.OptimismKeeper
	case "layer2":
		return w.App.Layer2Keeper
	case "tron":
		return w.App.TronKeeper
	}
	panic("unknown chain " + chain)
}

func must(err error) {
	if err != nil {
		panic(err)
	}
}

func mustf(ok bool, f string, args ...any) {
	if !ok {
		panic(fmt.Sprintf("claimid setup: "+f, args...))
	}
}

func fx(n int64) sdkmath.Int { return sdkmath.NewInt(n).MulRaw(1e18) }

// withBridger returns a copy of claim naming bridger as the claimer.
func withBridger(claim types.ExternalClaim, bridger string) types.ExternalClaim {
	c := cloneClaim(claim)
	switch m := c.(type) {
	case *types.MsgSendToFxClaim:
		m.BridgerAddress = bridger
	case *types.MsgBridgeCallClaim:
		m.BridgerAddress = bridger
	case *types.MsgBridgeCallResultClaim:
		m.BridgerAddress = bridger
	case *types.MsgSendToExternalClaim:
		m.BridgerAddress = bridger
	case *types.MsgBridgeTokenClaim:
		m.BridgerAddress = bridger
	case *types.MsgOracleSetUpdatedClaim:
		m.BridgerAddress = bridger
	default:
		panic(fmt.Sprintf("unknown claim %T", c))
	}
	return c
}

// cloneClaim: deep copy through the wire format.
func cloneClaim(claim types.ExternalClaim) types.ExternalClaim {
	bz, err := proto.Marshal(claim)
	must(err)
	var out types.ExternalClaim
	switch claim.(type) {
	case *types.MsgSendToFxClaim:
		out = &types.MsgSendToFxClaim{}
	case *types.MsgBridgeCallClaim:
		out = &types.MsgBridgeCallClaim{}
	case *types.MsgBridgeCallResultClaim:
		out = &types.MsgBridgeCallResultClaim{}
	case *types.MsgSendToExternalClaim:
		out = &types.MsgSendToExternalClaim{}
	case *types.MsgBridgeTokenClaim:
		out = &types.MsgBridgeTokenClaim{}
	case *types.MsgOracleSetUpdatedClaim:
		out = &types.MsgOracleSetUpdatedClaim{}
	default:
		panic(fmt.Sprintf("unknown claim %T", claim))
	}
	must(proto.Unmarshal(bz, out))
	return out
}

func marshalNoBridger(claim types.ExternalClaim) []byte {
	bz, err := proto.Marshal(withBridger(claim, ""))
	must(err)
	return append([]byte(proto.MessageName(claim)+"|"), bz...)
}

// voteMsg: MsgClaim signed by o's bridger wrapping claim (with o's bridger as claimer).
func (a *Adapter) voteMsg(o string, claim types.ExternalClaim) *types.MsgClaim {
	b := a.bridgerKey(o).AccAddress().String()
	anyc, err := codectypes.NewAnyWithValue(withBridger(claim, b))
	must(err)
	return &types.MsgClaim{ChainName: a.Chain, BridgerAddress: b, Claim: anyc}
}

func (a *Adapter) execute(ctx sdk.Context, nonce uint64) error {
	data, e := precompile.NewExecuteClaimMethod(nil).PackInput(types.ExecuteClaimArgs{Chain: a.Chain, EventNonce: new(big.Int).SetUint64(nonce)})
	must(e)
	// atomic: a refused executeClaim leaves no trace on the branch
	return world.Atomic(ctx, func(c sdk.Context) error {
		ok, msg := a.W.EthCall(c, a.user, types.GetAddress(), 8_000_000, data)
		if !ok {
			return errors.New(msg)
		}
		return nil
	})
}

// observeAll: world building through the public claim path: all oracles vote the same claim.
func (a *Adapter) observeAll(ctx sdk.Context, claim types.ExternalClaim) {
	for _, o := range a.C.Oracle {
		must(a.W.Handle(ctx, a.voteMsg(o, claim)))
	}
	mustf(a.lastObserved(ctx) == claim.GetEventNonce(), "setup claim %d not observed", claim.GetEventNonce())
}

func (a *Adapter) lastObserved(ctx sdk.Context) uint64 {
	bz := ctx.KVStore(a.storeKey).Get(types.LastObservedEventNonceKey)
	if len(bz) == 0 {
		return 0
	}
	return sdk.BigEndianToUint64(bz)
}

// New builds the world of ClaimId.tla's Init: the oracles bonded with the given stakes, two bridge
// tokens (FX and a registered coin USDT), outgoing batches and bridge calls, recorder contracts; all
// through governance-authority messages, user messages and unanimously observed claims.
func New(t *testing.T, c Consts) *Adapter {
	w := world.New(t, 2)
	a := &Adapter{W: w, C: c, Chain: c.Chain, K: keeperOf(w, c.Chain)}
	chain := c.Chain
	a.storeKey = w.App.GetKey(chain)
	a.parked = c.ClaimType == "SendToFx" || c.ClaimType == "BridgeCall" || c.ClaimType == "BridgeCallResult"
	ctx := w.Ctx
	next := func() { ctx = ctx.WithBlockHeight(ctx.BlockHeight() + 1) }

	// ---- params, oracles
	p := a.K.GetParams(ctx)
	p.DelegateThreshold = types.NewDelegateAmount(powerUnit)
	p.DelegateMultiple = 1000
	must(w.Handle(ctx, &types.MsgUpdateParams{ChainName: chain, Authority: world.GovAddr(), Params: p}))
	var all []string
	for _, o := range c.Oracle {
		w.Fund(ctx, a.oracleKey(o).AccAddress(), 10_000_000)
		w.Fund(ctx, a.bridgerKey(o).AccAddress(), 1000)
		all = append(all, a.oracleKey(o).AccAddress().String())
	}
	must(w.Handle(ctx, &types.MsgUpdateChainOracles{ChainName: chain, Authority: world.GovAddr(), Oracles: all}))
	bond := func(o string) {
		must(w.Handle(ctx, &types.MsgBondedOracle{
			ChainName: chain, OracleAddress: a.oracleKey(o).AccAddress().String(), BridgerAddress: a.bridgerKey(o).AccAddress().String(),
			ExternalAddress: a.ext("ext/" + o), ValidatorAddress: w.ValAddr[0].String(),
			DelegateAmount: types.NewDelegateAmount(powerUnit.MulRaw(c.Stake[o])),
		}))
	}
	mustf(len(c.Oracle) >= 3, "need three oracles")
	bond(c.Oracle[0])
	bond(c.Oracle[1])
	// the module's end blocker creates oracle set request nonce 1 = {o1, o2}
	a.K.EndBlocker(ctx)
	os1 := a.K.GetOracleSet(ctx, 1)
	mustf(os1 != nil && len(os1.Members) == 2, "oracle set 1 not created")
	a.osMembers = os1.Members
	next()
	for _, o := range c.Oracle[2:] {
		bond(o)
	}
	a.user = w.Key(chain + "/user")
	w.Fund(ctx, a.user.AccAddress(), 1_000_000)

	// ---- bridge tokens through observed claims: FX and USDT (a coin registered by governance)
	a.tokFX, a.tokU, a.tokNew, a.tokNew2 = a.ext("token/FX"), a.ext("token/USDT"), a.ext("token/NEW"), a.ext("token/NEW2")
	n := uint64(0)
	nextNonce := func() uint64 { n++; return n }
	a.observeAll(ctx, &types.MsgBridgeTokenClaim{ChainName: chain, EventNonce: nextNonce(), BlockHeight: 100, TokenContract: a.tokFX,
		Name: "Function X", Symbol: fxtypes.DefaultDenom, Decimals: 18})
	md := fxtypes.GetCrossChainMetadataManyToOne("Tether USD", "USDT", 18, types.NewBridgeDenom(chain, a.tokU))
	must(w.Handle(ctx, &erc20types.MsgRegisterCoin{Authority: world.GovAddr(), Metadata: md}))
	a.observeAll(ctx, &types.MsgBridgeTokenClaim{ChainName: chain, EventNonce: nextNonce(), BlockHeight: 101, TokenContract: a.tokU,
		Name: "Tether USD", Symbol: "USDT", Decimals: 18})
	// a USDT deposit to the user (parked, executed)
	dep := &types.MsgSendToFxClaim{ChainName: chain, EventNonce: nextNonce(), BlockHeight: 102, TokenContract: a.tokU, Amount: fx(10_000),
		Sender: a.ext("extsender"), Receiver: a.user.AccAddress().String()}
	a.observeAll(ctx, dep)
	must(a.execute(ctx, dep.EventNonce))
	mustf(w.App.BankKeeper.GetBalance(ctx, a.user.AccAddress(), "usdt").Amount.Equal(fx(10_000)), "user has no usdt")

	// ---- outgoing transfers and batches: (FX, b1) (FX, b2) (USDT, b3); FX locked in the module is the liquidity deposits pay from
	send := func(denom string, amt, fee int64) {
		must(w.Handle(ctx, &types.MsgSendToExternal{ChainName: chain, Sender: a.user.AccAddress().String(), Dest: a.ext("dest"),
			Amount: sdk.NewCoin(denom, fx(amt)), BridgeFee: sdk.NewCoin(denom, fx(fee))}))
	}
	batch := func(denom, token string) uint64 {
		next()
		msg := &types.MsgRequestBatch{ChainName: chain, Sender: a.bridgerKey(c.Oracle[0]).AccAddress().String(), Denom: denom,
			MinimumFee: sdkmath.NewInt(1), FeeReceive: a.ext("feereceive"), BaseFee: sdkmath.ZeroInt()}
		must(w.Handle(ctx, msg))
		b := a.K.GetLastOutgoingBatchByToken(ctx, token)
		mustf(b != nil, "no batch for %s", denom)
		return b.BatchNonce
	}
	send(fxtypes.DefaultDenom, 5000, 1)
	a.batchFX1 = batch(fxtypes.DefaultDenom, a.tokFX)
	send(fxtypes.DefaultDenom, 5000, 2)
	a.batchFX2 = batch(fxtypes.DefaultDenom, a.tokFX)
	send("usdt", 100, 1)
	a.batchU = batch(types.NewBridgeDenom(chain, a.tokU), a.tokU)
	mustf(a.batchFX1 != a.batchFX2 && a.batchFX2 != a.batchU, "batch nonces %d %d %d", a.batchFX1, a.batchFX2, a.batchU)

	// ---- outgoing bridge calls 1 (FX) and 2 (USDT) from messages
	for i, coin := range []sdk.Coin{sdk.NewCoin(fxtypes.DefaultDenom, fx(5)), sdk.NewCoin("usdt", fx(7))} {
		must(w.Handle(ctx, &types.MsgBridgeCall{ChainName: chain, Sender: a.user.AccAddress().String(), Refund: a.user.AccAddress().String(),
			Coins: sdk.NewCoins(coin), To: a.ext("callto"), Value: sdkmath.ZeroInt()}))
		mustf(a.K.HasOutgoingBridgeCall(ctx, uint64(i+1)), "outgoing bridge call %d missing", i+1)
	}
	a.call1, a.call2 = 1, 2

	// ---- recorder contracts: slot0 = keccak(calldata), slot1 = callvalue
	runtime := common.FromHex("36600060003736600020600055346001550000")
	initCode := append(common.FromHex("601380600b6000396000f3"), runtime...)
	deploy := func() common.Address {
		nonce := w.App.EvmKeeper.GetNonce(ctx, a.user.Address())
		res, err := w.EthTx(ctx, a.user, nil, nil, 1_000_000, initCode)
		must(err)
		mustf(res.VmError == "", "deploy: %s", res.VmError)
		addr := crypto.CreateAddress(a.user.Address(), nonce)
		mustf(w.App.EvmKeeper.IsContract(ctx, addr), "recorder contract not deployed")
		return addr
	}
	a.rec1, a.rec2 = deploy(), deploy()
	// value > 0 is paid by the callback sender
	w.Fund(ctx, a.K.GetCallbackFrom().Bytes(), 1000)

	a.nonce = n + 1
	mustf(a.lastObserved(ctx) == n, "last observed %d != %d", a.lastObserved(ctx), n)
	a.Root = ctx

	// ---- variants
	a.variants = a.table()
	a.byName = map[string]*variant{}
	var names, bad []string
	seen := map[string]string{}
	for i := range a.variants {
		v := &a.variants[i]
		names = append(names, v.name)
		if v.bad {
			bad = append(bad, v.name)
		}
		a.byName[v.name] = v
		v.bz = marshalNoBridger(v.claim)
		if other, dup := seen[string(v.bz)]; dup {
			panic(fmt.Sprintf("claimid setup: variants %s and %s are the same claim", other, v.name))
		}
		seen[string(v.bz)] = v.name
		mustf(v.claim.GetEventNonce() == a.nonce, "variant %s has nonce %d", v.name, v.claim.GetEventNonce())
		for _, o := range c.Oracle {
			if err := a.voteMsg(o, v.claim).ValidateBasic(); err != nil {
				panic(fmt.Sprintf("claimid setup: variant %s does not pass ValidateBasic: %v", v.name, err))
			}
		}
	}
	if len(c.Variant) == 0 { // development: take the table as it is
		a.C.Variant, a.C.BadVariant = names, bad
		c = a.C
	}
	mustf(sameSet(names, c.Variant), "Variant constant %v differs from the adapter's table %v for %s", c.Variant, names, c.ClaimType)
	mustf(sameSet(bad, c.BadVariant), "BadVariant constant %v differs from the adapter's table %v for %s", c.BadVariant, bad, c.ClaimType)
	a.references()
	return a
}

func sameSet(x, y []string) bool {
	a, b := append([]string{}, x...), append([]string{}, y...)
	sort.Strings(a)
	sort.Strings(b)
	return strings.Join(a, "\x00") == strings.Join(b, "\x00")
}

// references computes, per variant, the fingerprint of the state after a UNANIMOUS quorum for that
// variant (and after executeClaim for parked claim types): "the effect of the event v".  The
// projection identifies the effect found on a branch by comparing with these references.
func (a *Adapter) references() {
	a.ref0 = a.fingerprint(a.Root)
	a.refObs, a.refExec = map[string]string{}, map[string]string{}
	ors := a.C.Oracle
	for i := range a.variants {
		v := &a.variants[i]
		run := func(order []string) (obs, exec string) {
			br, _ := a.Root.CacheContext()
			_, r := a.Apply(br, graph.Op{"name": "Vote", "o": order[0], "v": v.name})
			mustf(r == "ok", "reference %s: first vote refused", v.name)
			mustf(a.fingerprint(br) == a.ref0, "reference %s: a single vote changes the effect fingerprint:\n%s", v.name, a.diff(a.Root, br))
			_, r = a.Apply(br, graph.Op{"name": "Vote", "o": order[1], "v": v.name})
			if v.bad {
				mustf(r == "rej", "reference %s: declared bad but the crossing vote is accepted", v.name)
				return "", ""
			}
			mustf(r == "ok", "reference %s: crossing vote refused", v.name)
			mustf(a.lastObserved(br) == a.nonce, "reference %s: not observed after two votes", v.name)
			obs = a.fingerprint(br)
			if a.parked {
				_, r = a.Apply(br, graph.Op{"name": "Execute"})
				mustf(r == "ok", "reference %s: executeClaim refused", v.name)
				exec = a.fingerprint(br)
				mustf(exec != obs, "reference %s: executeClaim has no effect", v.name)
			}
			_, r = a.Apply(br, graph.Op{"name": "Vote", "o": order[2], "v": v.name})
			mustf(r == "ok", "reference %s: third vote refused", v.name)
			if a.parked {
				mustf(a.fingerprint(br) == exec, "reference %s: a late vote changes the effect fingerprint", v.name)
			} else {
				mustf(a.fingerprint(br) == obs, "reference %s: a late vote changes the effect fingerprint", v.name)
			}
			return obs, exec
		}
		obs, exec := run([]string{ors[0], ors[1], ors[2]})
		obs2, exec2 := run([]string{ors[2], ors[0], ors[1]})
		mustf(obs == obs2 && exec == exec2, "reference %s: effect fingerprint depends on who votes", v.name)
		if v.bad {
			continue
		}
		mustf(obs != a.ref0, "reference %s: observation has no effect", v.name)
		a.refObs[v.name], a.refExec[v.name] = obs, exec
	}
	if debug() {
		groups := map[string][]string{}
		for _, v := range a.variants {
			f := a.refObs[v.name] + a.refExec[v.name]
			groups[f] = append(groups[f], v.name)
		}
		for _, g := range groups {
			fmt.Printf("DEBUG %s/%s variants with identical effect: %v\n", a.Chain, a.C.ClaimType, g)
		}
	}
}

func debug() bool { return os.Getenv("VERIF_DEBUG") != "" }

// excluded: attestation bookkeeping and harness markers are not "effects of the event".
func (a *Adapter) excluded(store string, key []byte) bool {
	if store != a.Chain || len(key) == 0 {
		return false
	}
	switch key[0] {
	case types.OracleAttestationKey[0], types.LastEventNonceByOracleKey[0], types.LastEventBlockHeightByOracleKey[0],
		types.PendingExecuteClaimKey[0], markerPrefix[0]:
		return true
	}
	return false
}

// fingerprint: digest of every KV store of the application except the attestation bookkeeping.
func (a *Adapter) fingerprint(ctx sdk.Context) string {
	h := sha256.New()
	for _, k := range a.W.StoreKeys() {
		st := ctx.KVStore(k)
		it := st.Iterator(nil, nil)
		for ; it.Valid(); it.Next() {
			if a.excluded(k.Name(), it.Key()) {
				continue
			}
			fmt.Fprintf(h, "%s|%x=%x\n", k.Name(), it.Key(), it.Value())
		}
		it.Close()
	}
	return hex.EncodeToString(h.Sum(nil)[:12])
}

func (a *Adapter) diff(x, y sdk.Context) string {
	dx, dy := a.W.Dump(x), a.W.Dump(y)
	var out []string
	for _, l := range world.DiffDump(dx, dy) {
		i := strings.Index(l, ": ")
		store, rest := l[:i], l[i+3:]
		kb, _ := hex.DecodeString(strings.SplitN(rest, "=", 2)[0])
		if a.excluded(store, kb) {
			continue
		}
		out = append(out, l)
	}
	return strings.Join(out, "\n")
}

// Apply implements graph.Adapter.
func (a *Adapter) Apply(ctx sdk.Context, op graph.Op) (sdk.Context, string) {
	var err error
	switch op.Name() {
	case "Vote":
		o, vn := op.Str("o"), op.Str("v")
		v := a.byName[vn]
		if v == nil {
			panic("unknown variant " + vn)
		}
		msg := a.voteMsg(o, v.claim)
		signers, _, e := a.W.App.AppCodec().GetMsgV1Signers(msg)
		must(e)
		if len(signers) != 1 || !sdk.AccAddress(signers[0]).Equals(a.bridgerKey(o).AccAddress()) {
			panic(fmt.Sprintf("signing context: required signers %x, harness signer %s", signers, o))
		}
		err = a.W.Handle(ctx, msg)
		if err == nil {
			ctx.KVStore(a.storeKey).Set(append(append([]byte{}, markerPrefix...), a.oracleKey(o).AccAddress()...), []byte(vn))
		}
	case "Execute":
		err = a.execute(ctx, a.nonce)
	default:
		panic("unknown op " + op.Name())
	}
	if err != nil {
		if debug() {
			fmt.Printf("DEBUG %v -> %v\n", op, err)
		}
		return ctx, "rej"
	}
	return ctx, "ok"
}

func (a *Adapter) match(claim types.ExternalClaim) string {
	bz := marshalNoBridger(claim)
	for i := range a.variants {
		if bytes.Equal(a.variants[i].bz, bz) {
			return a.variants[i].name
		}
	}
	return "?" + hex.EncodeToString(claim.ClaimHash())[:8]
}

// Project reads the crosschain store raw (0x17 attestations, 0x24 last observed nonce, 0x54 parked
// claim, 0xFE harness markers) and the effect fingerprint into ClaimId.tla's Abs.
func (a *Adapter) Project(ctx sdk.Context) any {
	st := ctx.KVStore(a.storeKey)
	cdc := a.W.App.AppCodec()
	name := map[string]string{}
	submitted := map[string]string{}
	for _, o := range a.C.Oracle {
		addr := a.oracleKey(o).AccAddress()
		name[addr.String()] = o
		submitted[o] = "none"
		if bz := st.Get(append(append([]byte{}, markerPrefix...), addr...)); bz != nil {
			submitted[o] = string(bz)
		}
	}
	bucket := map[string][]string{}
	for _, v := range a.variants {
		bucket[v.name] = []string{}
	}
	mixed := false
	observed := "none"
	crossing := "" // what the last voter of the observed record submitted
	it := storetypes.KVStorePrefixIterator(st, types.OracleAttestationKey)
	for ; it.Valid(); it.Next() {
		var att types.Attestation
		cdc.MustUnmarshal(it.Value(), &att)
		claim, e := types.UnpackAttestationClaim(cdc, &att)
		must(e)
		if claim.GetEventNonce() != a.nonce {
			continue
		}
		sv := a.match(claim)
		first := ""
		for i, s := range att.Votes {
			nm, ok := name[s]
			if !ok {
				nm = "?" + s
			}
			bucket[sv] = append(bucket[sv], nm)
			sub := submitted[nm]
			if i == 0 {
				first = sub
			} else if sub != first {
				mixed = true
			}
		}
		if att.Observed {
			if observed != "none" {
				observed = "?two-observed"
			} else {
				observed = sv
				if len(att.Votes) > 0 {
					crossing = submitted[name[att.Votes[len(att.Votes)-1]]]
				}
			}
		}
	}
	it.Close()
	pending := "none"
	if bz := st.Get(types.GetPendingExecuteClaimKey(a.nonce)); len(bz) > 0 {
		var claim types.ExternalClaim
		must(cdc.UnmarshalInterface(bz, &claim))
		pending = a.match(claim)
	}
	// the effect actually applied
	executed := "none"
	f := a.fingerprint(ctx)
	ref := a.refObs
	if a.parked {
		ref = a.refExec
	}
	switch {
	case a.ref0 == "" || f == a.ref0:
	case a.parked && inValues(a.refObs, f):
		// observation-level effects only (last observed nonce / block heights); nothing executed yet
	default:
		var cands []string
		for _, v := range a.variants {
			if ref[v.name] == f {
				cands = append(cands, v.name)
			}
		}
		switch {
		case len(cands) == 0:
			executed = "?effect-" + f[:8]
			if debug() {
				fmt.Printf("DEBUG unknown effect; diff to root:\n%s\n", a.diff(a.Root, ctx))
			}
		case contains(cands, observed): // effects indistinguishable: the recorded claim decides
			executed = observed
		case contains(cands, crossing):
			executed = crossing
		default:
			executed = cands[0]
		}
	}
	return map[string]any{
		"bucket": bucket, "submitted": submitted, "mixed": mixed,
		"observedVariant": observed, "pendingVariant": pending, "executedVariant": executed,
	}
}

func inValues(m map[string]string, f string) bool {
	for _, x := range m {
		if x == f {
			return true
		}
	}
	return false
}

func contains(l []string, s string) bool {
	for _, x := range l {
		if x == s {
			return true
		}
	}
	return false
}
