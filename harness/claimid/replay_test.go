package claimid

import (
	"runtime"
	"testing"

	"verifharness/graph"
)

func TestReplay(t *testing.T) {
	runtime.GOMAXPROCS(2) // many shards run in parallel processes
	var c Consts
	graph.Const(&c)
	a := New(t, c)
	graph.RunReplay(t, a, a.Root, nil)
}

func TestPath(t *testing.T) {
	var c Consts
	graph.Const(&c)
	a := New(t, c)
	graph.RunPath(t, a, a.Root)
}
