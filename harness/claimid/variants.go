package claimid

import (
	"encoding/hex"

	sdkmath "cosmossdk.io/math"

	fxtypes "github.com/functionx/fx-core/v8/types"
	"github.com/functionx/fx-core/v8/x/crosschain/types"
)

// table: the model's Variant names -> real claim objects of a.C.ClaimType for the nonce under test.
// "base" plus one variant per (field, value class); every variant differs from base in exactly one
// field (list fields: one list operation; re-splits: the same concatenation of two adjacent
// free-form fields split elsewhere).  bridger_address and chain_name are the only fields that do
// not identify the event.
func (a *Adapter) table() []variant {
	chain, n := a.Chain, a.nonce
	var out []variant
	add := func(name string, c types.ExternalClaim) { out = append(out, variant{name: name, claim: c}) }
	bad := func(name string, c types.ExternalClaim) { out = append(out, variant{name: name, claim: c, bad: true}) }
	hx := func(s string) string { return hex.EncodeToString([]byte(s)) }
	switch a.C.ClaimType {
	case "SendToFx":
		base := types.MsgSendToFxClaim{ChainName: chain, EventNonce: n, BlockHeight: 1000, TokenContract: a.tokFX, Amount: fx(3),
			Sender: a.ext("sender/1"), Receiver: a.W.Key(chain + "/recv/1").AccAddress().String(), TargetIbc: ""}
		mk := func(f func(c *types.MsgSendToFxClaim)) types.ExternalClaim { c := base; f(&c); return &c }
		add("base", mk(func(c *types.MsgSendToFxClaim) {}))
		add("height", mk(func(c *types.MsgSendToFxClaim) { c.BlockHeight = 1001 }))
		add("token", mk(func(c *types.MsgSendToFxClaim) { c.TokenContract = a.tokU }))
		add("amount", mk(func(c *types.MsgSendToFxClaim) { c.Amount = fx(4) }))
		add("amount_zero", mk(func(c *types.MsgSendToFxClaim) { c.Amount = sdkmath.ZeroInt() }))
		add("sender", mk(func(c *types.MsgSendToFxClaim) { c.Sender = a.ext("sender/2") }))
		add("receiver", mk(func(c *types.MsgSendToFxClaim) { c.Receiver = a.W.Key(chain + "/recv/2").AccAddress().String() }))
		add("target_erc20", mk(func(c *types.MsgSendToFxClaim) { c.TargetIbc = hx(fxtypes.ERC20Target) }))
		add("target_other", mk(func(c *types.MsgSendToFxClaim) { c.TargetIbc = hx("chain/" + chain) }))
	case "BridgeCall":
		base := types.MsgBridgeCallClaim{ChainName: chain, EventNonce: n, BlockHeight: 1000,
			Sender: a.ext("sender/1"), Refund: a.ext("refund/1"), To: a.fmtExt(a.rec1), TxOrigin: a.ext("origin/1"),
			TokenContracts: []string{a.tokFX, a.tokU}, Amounts: []sdkmath.Int{fx(3), fx(4)},
			Data: "aa01", Value: sdkmath.ZeroInt(), Memo: ""}
		mk := func(f func(c *types.MsgBridgeCallClaim)) types.ExternalClaim {
			c := *cloneClaim(&base).(*types.MsgBridgeCallClaim)
			f(&c)
			return &c
		}
		add("base", mk(func(c *types.MsgBridgeCallClaim) {}))
		add("height", mk(func(c *types.MsgBridgeCallClaim) { c.BlockHeight = 1001 }))
		add("sender", mk(func(c *types.MsgBridgeCallClaim) { c.Sender = a.ext("sender/2") }))
		add("refund", mk(func(c *types.MsgBridgeCallClaim) { c.Refund = a.ext("refund/2") }))
		add("to", mk(func(c *types.MsgBridgeCallClaim) { c.To = a.fmtExt(a.rec2) }))
		add("to_eoa", mk(func(c *types.MsgBridgeCallClaim) { c.To = a.ext("to/eoa") }))
		add("tx_origin", mk(func(c *types.MsgBridgeCallClaim) { c.TxOrigin = a.ext("origin/2") }))
		add("token_changed", mk(func(c *types.MsgBridgeCallClaim) { c.TokenContracts = []string{a.tokFX, a.tokFX} }))
		add("tokens_added", mk(func(c *types.MsgBridgeCallClaim) {
			c.TokenContracts = []string{a.tokFX, a.tokU, a.tokFX}
			c.Amounts = []sdkmath.Int{fx(3), fx(4), fx(1)}
		}))
		add("tokens_removed", mk(func(c *types.MsgBridgeCallClaim) {
			c.TokenContracts = []string{a.tokFX}
			c.Amounts = []sdkmath.Int{fx(3)}
		}))
		add("tokens_empty", mk(func(c *types.MsgBridgeCallClaim) { c.TokenContracts, c.Amounts = nil, nil }))
		add("tokens_reordered", mk(func(c *types.MsgBridgeCallClaim) { c.TokenContracts = []string{a.tokU, a.tokFX} }))
		add("amount_changed", mk(func(c *types.MsgBridgeCallClaim) { c.Amounts = []sdkmath.Int{fx(3), fx(5)} }))
		add("amounts_reordered", mk(func(c *types.MsgBridgeCallClaim) { c.Amounts = []sdkmath.Int{fx(4), fx(3)} }))
		add("data", mk(func(c *types.MsgBridgeCallClaim) { c.Data = "aa02" }))
		add("data_empty", mk(func(c *types.MsgBridgeCallClaim) { c.Data = "" }))
		add("memo", mk(func(c *types.MsgBridgeCallClaim) { c.Memo = "bb01" }))
		add("memo_sendcallto", mk(func(c *types.MsgBridgeCallClaim) { c.Memo = hex.EncodeToString(types.MemoSendCallTo.Bytes()) }))
		add("value", mk(func(c *types.MsgBridgeCallClaim) { c.Value = sdkmath.NewInt(7) }))
		// re-splits of data||memo = "aa01"
		add("resplit_data_memo_1", mk(func(c *types.MsgBridgeCallClaim) { c.Data, c.Memo = "aa", "01" }))
		add("resplit_data_memo_2", mk(func(c *types.MsgBridgeCallClaim) { c.Data, c.Memo = "", "aa01" }))
		// re-splits across every other boundary of the hash input whose two renderings can both stay valid:
		// element boundary inside the amounts list ("1 23" / "12 3")
		add("resplit_amounts_a", mk(func(c *types.MsgBridgeCallClaim) { c.Amounts = []sdkmath.Int{sdkmath.NewInt(1), sdkmath.NewInt(23)} }))
		add("resplit_amounts_b", mk(func(c *types.MsgBridgeCallClaim) { c.Amounts = []sdkmath.Int{sdkmath.NewInt(12), sdkmath.NewInt(3)} }))
		// last amount (decimal) | data (hex): "412"+"ab" / "4"+"12ab"
		add("resplit_amount_data_a", mk(func(c *types.MsgBridgeCallClaim) { c.Amounts, c.Data = []sdkmath.Int{fx(3), sdkmath.NewInt(412)}, "ab" }))
		add("resplit_amount_data_b", mk(func(c *types.MsgBridgeCallClaim) { c.Amounts, c.Data = []sdkmath.Int{fx(3), sdkmath.NewInt(4)}, "12ab" }))
		// data (hex) | value (decimal): "aa12"+"34" / "aa"+"1234", and with empty data ""+"1234" / "12"+"34"
		add("resplit_data_value_a", mk(func(c *types.MsgBridgeCallClaim) { c.Data, c.Value = "aa12", sdkmath.NewInt(34) }))
		add("resplit_data_value_b", mk(func(c *types.MsgBridgeCallClaim) { c.Data, c.Value = "aa", sdkmath.NewInt(1234) }))
		add("resplit_data_value_c", mk(func(c *types.MsgBridgeCallClaim) { c.Data, c.Value = "", sdkmath.NewInt(1234) }))
		add("resplit_data_value_d", mk(func(c *types.MsgBridgeCallClaim) { c.Data, c.Value = "12", sdkmath.NewInt(34) }))
		// value (decimal) | memo (hex): "12"+"34ab" / "1234"+"ab"
		add("resplit_value_memo_a", mk(func(c *types.MsgBridgeCallClaim) { c.Value, c.Memo = sdkmath.NewInt(12), "34ab" }))
		add("resplit_value_memo_b", mk(func(c *types.MsgBridgeCallClaim) { c.Value, c.Memo = sdkmath.NewInt(1234), "ab" }))
	case "BridgeCallResult":
		base := types.MsgBridgeCallResultClaim{ChainName: chain, EventNonce: n, BlockHeight: 1000, Nonce: a.call1,
			TxOrigin: a.ext("origin/1"), Success: false, Cause: "aa01"}
		mk := func(f func(c *types.MsgBridgeCallResultClaim)) types.ExternalClaim { c := base; f(&c); return &c }
		add("base", mk(func(c *types.MsgBridgeCallResultClaim) {}))
		add("height", mk(func(c *types.MsgBridgeCallResultClaim) { c.BlockHeight = 1001 }))
		add("call_nonce", mk(func(c *types.MsgBridgeCallResultClaim) { c.Nonce = a.call2 }))
		add("tx_origin", mk(func(c *types.MsgBridgeCallResultClaim) { c.TxOrigin = a.ext("origin/2") }))
		add("success", mk(func(c *types.MsgBridgeCallResultClaim) { c.Success = true }))
		add("cause", mk(func(c *types.MsgBridgeCallResultClaim) { c.Cause = "aa02" }))
		add("cause_empty", mk(func(c *types.MsgBridgeCallResultClaim) { c.Cause = "" }))
	case "SendToExternal":
		base := types.MsgSendToExternalClaim{ChainName: chain, EventNonce: n, BlockHeight: 1000, TokenContract: a.tokFX, BatchNonce: a.batchFX2}
		mk := func(f func(c *types.MsgSendToExternalClaim)) types.ExternalClaim { c := base; f(&c); return &c }
		add("base", mk(func(c *types.MsgSendToExternalClaim) {}))
		add("height", mk(func(c *types.MsgSendToExternalClaim) { c.BlockHeight = 1001 }))
		add("batch_nonce", mk(func(c *types.MsgSendToExternalClaim) { c.BatchNonce = a.batchFX1 }))
		// batch nonces are global: (USDT, nonce of the FX batch) does not exist -> the handler panics
		bad("token", mk(func(c *types.MsgSendToExternalClaim) { c.TokenContract = a.tokU }))
		bad("batch_nonce_unknown", mk(func(c *types.MsgSendToExternalClaim) { c.BatchNonce = a.batchU }))
	case "BridgeToken":
		base := types.MsgBridgeTokenClaim{ChainName: chain, EventNonce: n, BlockHeight: 1000, TokenContract: a.tokNew,
			Name: "x/y", Symbol: fxtypes.DefaultDenom, Decimals: 18, ChannelIbc: ""}
		mk := func(f func(c *types.MsgBridgeTokenClaim)) types.ExternalClaim { c := base; f(&c); return &c }
		add("base", mk(func(c *types.MsgBridgeTokenClaim) {}))
		add("height", mk(func(c *types.MsgBridgeTokenClaim) { c.BlockHeight = 1001 }))
		add("token", mk(func(c *types.MsgBridgeTokenClaim) { c.TokenContract = a.tokNew2 }))
		add("name", mk(func(c *types.MsgBridgeTokenClaim) { c.Name = "x/z" }))
		add("symbol", mk(func(c *types.MsgBridgeTokenClaim) { c.Symbol = "FY" }))
		add("decimals", mk(func(c *types.MsgBridgeTokenClaim) { c.Decimals = 6 }))
		add("channel_ibc", mk(func(c *types.MsgBridgeTokenClaim) { c.ChannelIbc = hx("transfer/channel-0") }))
		// re-splits of name "/" symbol = "x/y/FX" (the implementation joins the fields with "/")
		add("resplit_name_symbol", mk(func(c *types.MsgBridgeTokenClaim) { c.Name, c.Symbol = "x", "y/"+fxtypes.DefaultDenom }))
		// and of a concatenation in which the separator belongs to neither field
		add("name_with_slash_end", mk(func(c *types.MsgBridgeTokenClaim) { c.Name, c.Symbol = "x/y/", fxtypes.DefaultDenom }))
		add("symbol_with_slash_start", mk(func(c *types.MsgBridgeTokenClaim) { c.Name, c.Symbol = "x/y", "/"+fxtypes.DefaultDenom }))
		// symbol (free-form) | decimals (decimal): "FY1"+"8" against the variant "symbol" = "FY"+"18"
		add("resplit_symbol_decimals", mk(func(c *types.MsgBridgeTokenClaim) { c.Symbol, c.Decimals = "FY1", 8 }))
		// decimals (decimal) | channel_ibc (hex): "181"+"ab" / "1"+"81ab"
		add("resplit_decimals_channel_a", mk(func(c *types.MsgBridgeTokenClaim) { c.Decimals, c.ChannelIbc = 181, "ab" }))
		add("resplit_decimals_channel_b", mk(func(c *types.MsgBridgeTokenClaim) { c.Decimals, c.ChannelIbc = 1, "81ab" }))
	case "OracleSet":
		m := a.osMembers
		e3 := a.ext("ext/" + a.C.Oracle[2])
		base := types.MsgOracleSetUpdatedClaim{ChainName: chain, EventNonce: n, BlockHeight: 1000, OracleSetNonce: 0,
			Members: []types.BridgeValidator{m[0], m[1]}}
		mk := func(f func(c *types.MsgOracleSetUpdatedClaim)) types.ExternalClaim {
			c := *cloneClaim(&base).(*types.MsgOracleSetUpdatedClaim)
			f(&c)
			return &c
		}
		add("base", mk(func(c *types.MsgOracleSetUpdatedClaim) {}))
		add("height", mk(func(c *types.MsgOracleSetUpdatedClaim) { c.BlockHeight = 1001 }))
		// nonce 1 with exactly the stored members passes the handler's comparison
		add("set_nonce", mk(func(c *types.MsgOracleSetUpdatedClaim) { c.OracleSetNonce = 1 }))
		add("member_power", mk(func(c *types.MsgOracleSetUpdatedClaim) { c.Members[1].Power++ }))
		add("member_address", mk(func(c *types.MsgOracleSetUpdatedClaim) { c.Members[1].ExternalAddress = e3 }))
		add("member_added", mk(func(c *types.MsgOracleSetUpdatedClaim) {
			c.Members = append(c.Members, types.BridgeValidator{Power: 7, ExternalAddress: e3})
		}))
		add("member_removed", mk(func(c *types.MsgOracleSetUpdatedClaim) { c.Members = c.Members[:1] }))
		add("members_reordered", mk(func(c *types.MsgOracleSetUpdatedClaim) { c.Members = []types.BridgeValidator{m[1], m[0]} }))
		// block_height (decimal) | oracle_set_nonce (decimal): "11"+"1" / "1"+"11" (set 11 does not exist: the handler
		// returns an error, the event is observed without effect)
		add("resplit_height_setnonce_a", mk(func(c *types.MsgOracleSetUpdatedClaim) { c.BlockHeight, c.OracleSetNonce = 11, 1 }))
		add("resplit_height_setnonce_b", mk(func(c *types.MsgOracleSetUpdatedClaim) { c.BlockHeight, c.OracleSetNonce = 1, 11 }))
		// nonce 1 with other members than the stored set: "potential bridge highjacking" panic
		bad("set_nonce_wrong_members", mk(func(c *types.MsgOracleSetUpdatedClaim) {
			c.OracleSetNonce = 1
			c.Members[1].Power++
		}))
	default:
		panic("unknown claim type " + a.C.ClaimType)
	}
	return out
}

// Adjacent fields for which NO re-split exists, because one side has a rigid rendering: external
// addresses (exactly 42 checksummed / 34 base58check characters), booleans, and the event nonce
// (fixed for the nonce under test, and part of the attestation key besides the hash):
// height|event_nonce, event_nonce|token, event_nonce|call_nonce, set_nonce|event_nonce, every
// address|x and x|address boundary (incl. receiver|target_ibc: fxcore's address verifier only accepts
// 20-byte bech32 addresses, checked against the real ValidateBasic), tokens "[a b]" | amounts,
// success|cause, member power|address.
