------------------------------ MODULE ClaimIdMC ------------------------------
EXTENDS ClaimId
\* any two of three reach 66*100/100 = 66 (34+33, 33+33), one alone does not
StakeEdge3 == [o \in Oracle |-> CASE o = "o1" -> 34 [] o = "o2" -> 33 [] o = "o3" -> 33 [] OTHER -> 1]
\* equal unit stakes: 66*3/100 truncates to 1, a single vote reaches the bar
StakeEq    == [o \in Oracle |-> 1]
NoBad      == {}
=============================================================================
