------------------------------- MODULE GovMC -------------------------------
EXTENDS Gov
\* nothing to override: all constants of Gov.tla are sets of strings / numbers / booleans
=============================================================================
