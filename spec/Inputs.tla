------------------------------- MODULE Inputs -------------------------------
(***************************************************************************)
(* C20 part (b): hostile input is accepted or rejected, never a crash.     *)
(*                                                                         *)
(* From the property text: "Arbitrary bytes offered as any fxcore message, *)
(* claim, precompile call data, cross-chain target or address are either   *)
(* accepted or rejected with an error; stateless validation, the ante      *)
(* handler and precompile argument decoding never panic."                  *)
(*                                                                         *)
(* The specified behaviour is a TOTAL function Validate(input) with range  *)
(* {"accept","reject"}; which of the two is not this property's business.  *)
(* What an explicit specification can enumerate is a structured family of  *)
(* inputs: every input type is a list of fields, every field has a KIND,   *)
(* every kind a finite list of VALUE CLASSES (ClassTable below).  TLC      *)
(* enumerates, per type, the pairwise product of the classes (every pair   *)
(* of fields takes every pair of classes, all other fields at their valid  *)
(* baseline) or the full product where it is smaller than Limit; for       *)
(* precompile call data additionally every truncation of the well-formed   *)
(* argument blob at each 32-byte word boundary -1/0/+1 and every           *)
(* offset/length word replaced by each of WordClasses.                     *)
(*                                                                         *)
(* The field tables are DATA (constant Table): generated for every run     *)
(* from the real protobuf descriptors of every registered fx-core message  *)
(* type and the real ABIs of the precompiles, dumped by the harness; a     *)
(* kind that is not in ClassTable fails the ASSUME (incomplete run).       *)
(*                                                                         *)
(* Input groups: "msg" registered fx-core protobuf messages (wire bytes ->  *)
(* real decoder -> ValidateBasic -> check-tx), "tx" the parts of the       *)
(* transaction envelope the ante handler reads (TxBody, AuthInfo, TxRaw),  *)
(* "abi" precompile call data (real EVM transaction), "str" the target and *)
(* address parsers.                                                        *)
(*                                                                         *)
(* Outcome "panic: ..." on real behaviour: a panic escaping an fx-core     *)
(* function, or one the application recovered whose raise site is fx-core  *)
(* code.  A panic raised inside a dependency and turned into an error by   *)
(* fx-core's own ante-handler recovery is a rejection.                     *)
(*                                                                         *)
(* Scope: structured, specification-generated inputs; not byte-level       *)
(* fuzzing.                                                                *)
(***************************************************************************)
EXTENDS Integers, Sequences, FiniteSets, TLC, Json

CONSTANTS
  Table,   \* sequence of [name, group, fields: Seq([path, kind]), nwords, dynwords: Seq(Nat)]
  Mode,    \* "pairwise" | "full" (full product for types where it is < Limit, pairwise otherwise)
  Limit,
  TLo, THi \* this run enumerates the types Table[TLo..THi] (the runner splits the table over parallel TLC runs)

VARIABLES
  c,    \* the case: [type, fam, cls, k, d, v]
  out   \* the outcome: "accept" | "reject"   (on real behaviour possibly "panic: ...")
vars == <<c, out>>

(***************************************************************************)
(* Value classes per field kind.  The first class of every kind is "valid" *)
(* = the field keeps the value it has in the type's well-formed baseline.  *)
(***************************************************************************)
ClassTable == [
  \* cosmos.AddressString
  address   |-> <<"valid", "empty", "wrongprefix", "badchecksum", "toolong">>,
  \* free strings: addresses of every format in use, hex strings, separators, chain names, denominations
  string    |-> <<"valid", "empty", "fxaddr", "valaddr", "hexaddr", "hexaddr_badsum", "tronaddr", "wrongprefix",
                  "badchecksum", "toolong", "hexodd", "nonhex", "hexstr", "huge", "slash", "colon", "nul",
                  "chain_eth", "chain_tron", "unknownchain", "denom">>,
  \* sdkmath.Int
  int       |-> <<"valid", "absent", "negative", "zero", "u64", "u256max", "nonnumeric">>,
  intlist   |-> <<"valid", "empty", "nil_elem", "negative", "two", "u256max">>,
  \* sdkmath.LegacyDec
  dec       |-> <<"valid", "absent", "negative", "zero", "gt_one", "huge", "nonnumeric">>,
  coin      |-> <<"valid", "absent", "nil_amount", "negative", "zero", "bad_denom", "empty_denom", "u256max">>,
  coins     |-> <<"valid", "empty", "nil_amount", "negative", "zero", "bad_denom", "duplicate", "unsorted">>,
  any       |-> <<"valid", "absent", "wrong_type", "nested_wrong", "unknown_url", "empty_value", "garbage_value">>,
  anylist   |-> <<"valid", "empty", "wrong_type", "garbage_value", "dup", "eth_ext">>,
  strlist   |-> <<"valid", "empty", "dup", "empty_elem", "garbage", "two", "many">>,
  uintlist  |-> <<"valid", "empty", "zero", "max", "dup">>,
  sintlist  |-> <<"valid", "empty", "zero", "min", "max", "dup">>,
  byteslist |-> <<"valid", "empty", "empty_elem", "huge">>,
  uint      |-> <<"valid", "zero", "one", "max">>,
  sint      |-> <<"valid", "zero", "min", "max">>,
  bool      |-> <<"valid", "false", "true">>,
  enum      |-> <<"valid", "zero", "neg", "big">>,
  float     |-> <<"valid", "zero", "nan", "inf">>,
  bytes     |-> <<"valid", "empty", "one", "b20", "b32", "huge">>,
  \* a nested message / a list of nested messages (their own fields follow in the table as path.sub / path[].sub)
  presence  |-> <<"valid", "absent">>,
  listshape |-> <<"valid", "empty", "dup", "many">>,
  \* cross-chain target strings (types/target.go)
  target    |-> <<"valid", "empty", "legacy_evm", "chain_gravity", "chain_only", "ibc3", "ibc4", "ibc_only",
                  "ibc_empty_parts", "ibc_bad_channel", "ibc_blank_prefix", "slashes", "five_parts", "nul", "huge", "nonhex">>,
  \* precompile arguments (ABI values)
  abi_address  |-> <<"valid", "zero", "ones">>,
  abi_uint     |-> <<"valid", "zero", "one", "u64", "max">>,
  abi_uint8    |-> <<"valid", "zero", "one", "two", "max">>,
  abi_bool     |-> <<"valid", "false", "true">>,
  abi_bytes32  |-> <<"valid", "zero", "garbage">>,
  abi_bytes    |-> <<"valid", "empty", "one", "huge">>,
  abi_addrlist |-> <<"valid", "empty", "one", "two", "dup">>,
  abi_uintlist |-> <<"valid", "empty", "one", "two", "max_elem">>
]
Kinds == DOMAIN ClassTable

\* raw replacement values for the offset and length words of ABI-encoded call data
WordClasses == <<"0", "1", "31", "32", "2^31", "2^64-1", "2^256-1">>

ASSUME TableComplete ==
  \A t \in 1..Len(Table) : \A f \in 1..Len(Table[t].fields) : Table[t].fields[f].kind \in Kinds

(***************************************************************************)
(* Enumeration                                                             *)
(***************************************************************************)
NF(t)       == Len(Table[t].fields)
Cls(t, f)   == ClassTable[Table[t].fields[f].kind]
RECURSIVE ProdFrom(_, _)
ProdFrom(t, f) == IF f > NF(t) THEN 1 ELSE Len(Cls(t, f)) * ProdFrom(t, f + 1)
\* size of the full product, saturating at Limit (TLC integers are 32 bit)
RECURSIVE SizeFrom(_, _)
SizeFrom(t, f) == IF f > NF(t) THEN 1
                  ELSE LET r == SizeFrom(t, f + 1) IN IF r >= Limit THEN Limit ELSE Len(Cls(t, f)) * r
UseFull(t) == Mode = "full" /\ SizeFrom(t, 1) < Limit

\* m-th element of the full product (mixed radix)
FullVec(t, m) == [f \in 1..NF(t) |-> Cls(t, f)[((m \div ProdFrom(t, f + 1)) % Len(Cls(t, f))) + 1]]
PairVec(t, i, ci, j, cj) == [f \in 1..NF(t) |-> IF f = i THEN ci ELSE IF f = j THEN cj ELSE "valid"]

NoCase == [type |-> "none", fam |-> "none", cls |-> <<>>, k |-> 0, d |-> 0, v |-> "none"]
FieldCase(t, vec) == [type |-> Table[t].name, fam |-> "fields", cls |-> vec, k |-> 0, d |-> 0, v |-> "none"]
TruncCase(t, k, d) == [type |-> Table[t].name, fam |-> "trunc", cls |-> <<>>, k |-> k, d |-> d, v |-> "none"]
WordCase(t, k, v)  == [type |-> Table[t].name, fam |-> "word", cls |-> <<>>, k |-> k, d |-> 0, v |-> v]

\* the specified result: total, one of two values; which one is left open
Validate == {"accept", "reject"}

Gen(t) ==
  \/ /\ UseFull(t)
     /\ \E m \in 0..(ProdFrom(t, 1) - 1) : c' = FieldCase(t, FullVec(t, m))
  \/ /\ ~UseFull(t) /\ NF(t) >= 2
     /\ \E i \in 1..NF(t), j \in 1..NF(t) :
          /\ i < j
          /\ \E a \in 1..Len(Cls(t, i)), b \in 1..Len(Cls(t, j)) : c' = FieldCase(t, PairVec(t, i, Cls(t, i)[a], j, Cls(t, j)[b]))
  \/ /\ ~UseFull(t) /\ NF(t) = 1
     /\ \E a \in 1..Len(Cls(t, 1)) : c' = FieldCase(t, <<Cls(t, 1)[a]>>)
  \/ /\ ~UseFull(t) /\ NF(t) = 0
     /\ c' = FieldCase(t, <<>>)
  \* call data: truncation at every word boundary -1/0/+1 (k = number of argument words kept)
  \/ /\ Table[t].group = "abi"
     /\ \E k \in 0..Table[t].nwords, d \in {-1, 0, 1} : 32 * k + d >= 0 /\ c' = TruncCase(t, k, d)
  \* call data: every offset / length word replaced
  \/ /\ Table[t].group = "abi"
     /\ \E x \in 1..Len(Table[t].dynwords), w \in 1..Len(WordClasses) : c' = WordCase(t, Table[t].dynwords[x], WordClasses[w])

Init == c = NoCase /\ out = "none"
Next == /\ c = NoCase
        /\ \E t \in TLo..THi : t <= Len(Table) /\ Gen(t)
        /\ out' \in Validate
Spec == Init /\ [][Next]_vars

\* one line per case (generation run, one worker); the two specified results are one case
CaseDump == IF c' # NoCase /\ out' = "accept" THEN PrintT(<<"CASE", ToJson(c')>>) ELSE TRUE

(***************************************************************************)
(* C20 (never panics)                                                      *)
(***************************************************************************)
C20_NeverPanics == c # NoCase => out \in {"accept", "reject"}
=============================================================================
