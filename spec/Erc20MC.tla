------------------------------ MODULE Erc20MC ------------------------------
EXTENDS Erc20
S(k, n) == [k |-> k, n |-> n]
\* quick: every step kind, amounts 1 and 2 where the amount decides success
StepsQ == {S("tr", 1), S("tr", 2), S("ap", 2), S("tf", 1), S("cc", 1), S("cc", 2), S("bc", 1), S("bc", 2)}
\* thorough (length 3): one amount per kind except the conversions
StepsT == {S("tr", 1), S("ap", 2), S("tf", 1), S("cc", 1), S("bc", 1), S("bc", 2)}
\* tiny
StepsD == {S("tr", 1), S("ap", 2), S("cc", 1), S("bc", 1)}
=============================================================================
