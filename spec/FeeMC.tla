------------------------------- MODULE FeeMC -------------------------------
(* Constant definitions for TLC (records cannot be written in a cfg file). *)
EXTENDS Fee
\* exemption settings: none, one type, two types
ExemptSetsDef == { [t \in Types |-> FALSE],
                   [t \in Types |-> t = T1],
                   [t \in Types |-> t \in {T1, T2}] }
\* no minimum price, an integral price (what fxcored's start command accepts), a fractional price
\* (accepted by baseapp.SetMinGasPrices; exercises the ceiling)
PricesDef == { [num |-> 0, den |-> 1], [num |-> 3, den |-> 1], [num |-> 5, den |-> 2] }
PricesDev == { [num |-> 3, den |-> 1] }
=============================================================================
