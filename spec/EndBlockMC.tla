----------------------------- MODULE EndBlockMC -----------------------------
EXTENDS EndBlock
\* stake distributions (power units).  Skewed so that governance can remove the small oracle
\* (< 30% of the online power) and so that every membership change moves the power by >= 10%.
Stake2   == [o \in Oracle |-> CASE o = "o1" -> 4 [] o = "o2" -> 1 [] OTHER -> 1]
Stake3   == [o \in Oracle |-> CASE o = "o1" -> 5 [] o = "o2" -> 4 [] o = "o3" -> 1 [] OTHER -> 1]
StakeEq  == [o \in Oracle |-> 1]
\* unequal stakes of the size of real ones (100 units = 10000 FX): small additions move the normalised powers by
\* fractions with long binary expansions; +24 on o1 moves them by 9.78%, +25 by 10.14% (threshold 10%)
StakeBig == [o \in Oracle |-> CASE o = "o1" -> 100 [] o = "o2" -> 60 [] o = "o3" -> 45 [] OTHER -> 30]
=============================================================================
