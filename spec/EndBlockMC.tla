----------------------------- MODULE EndBlockMC -----------------------------
EXTENDS EndBlock
\* stake distributions (power units).  Skewed so that governance can remove the small oracle
\* (< 30% of the online power) and so that every membership change moves the power by >= 10%.
Stake2   == [o \in Oracle |-> CASE o = "o1" -> 4 [] o = "o2" -> 1 [] OTHER -> 1]
Stake3   == [o \in Oracle |-> CASE o = "o1" -> 5 [] o = "o2" -> 4 [] o = "o3" -> 1 [] OTHER -> 1]
StakeEq  == [o \in Oracle |-> 1]
\* unequal stakes of the size of real ones (1 unit = 100 FX): +1 unit moves the normalised powers by about 0.1%
\* (a fraction with a long binary expansion); +120 on o1 moves them by 9.78%, +126 by 10.2% (threshold 10%)
StakeBig == [o \in Oracle |-> CASE o = "o1" -> 500 [] o = "o2" -> 300 [] o = "o3" -> 225 [] OTHER -> 150]
\* stakes in TENTHS of a power unit (Unit = 10): o1 a regular oracle (4 power units), o2 and o3 below one power unit
\* (power 0: bonded and online once governance has lowered the delegate threshold, but without a say in the bridge);
\* +2 stake units lift o2 to exactly one power unit and leave the power of o1 unchanged
StakeSub == [o \in Oracle |-> CASE o = "o1" -> 40 [] o = "o2" -> 8 [] OTHER -> 6]
=============================================================================
