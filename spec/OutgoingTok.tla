----------------------------- MODULE OutgoingTok -----------------------------
(***************************************************************************)
(* Outgoing pool and batches of ONE bridge module with SEVERAL tokens       *)
(* (FX and a module-owned ERC-20 pair), several senders, and the external   *)
(* chain's per-token batch nonce rule.  It complements Outgoing.tla (one    *)
(* token, bridge calls, timeouts in depth) with everything that must be     *)
(* PER TOKEN: batch selection, "more profitable" rule, cancellation of      *)
(* older batches when a newer one is executed, timeouts, conservation.      *)
(* Properties: C04, C05, C06 (per-token clauses).                           *)
(***************************************************************************)
EXTENDS Integers, Sequences, FiniteSets, TLC, Json

CONSTANTS User, Token, MaxTx, MaxBatch, MaxFx, MaxExt, MaxEv, InitBal, KB
VARIABLES bal,      \* [User -> [Token -> Nat]]
          tx,       \* [1..MaxTx+1 -> [st, u, k, b]] amount 1 fee 1; st: "none" | "pool" | "batch" | "gone"
          bt,       \* [1..MaxBatch+1 -> [st, k, timeout, block]]
          ntx, nbt, fxH, obsExt, obsFx, lastObs,
          extH, queue, xbt, xlast,   \* external chain: xlast[k] = last executed batch nonce of token k
          obsOut,                    \* [Token -> value observed as executed]
          op
svars == <<bal, tx, bt, ntx, nbt, fxH, obsExt, obsFx, lastObs, extH, queue, xbt, xlast, obsOut>>
vars == <<svars, op>>
None == "none"
TxIds == 1..(MaxTx + 1)
BtIds == 1..(MaxBatch + 1)
Abs == [bal |-> bal, tx |-> tx, bt |-> bt, ntx |-> ntx, nbt |-> nbt, fxH |-> fxH, obsExt |-> obsExt, obsFx |-> obsFx,
        lastObs |-> lastObs, extH |-> extH, queue |-> queue, xbt |-> xbt, xlast |-> xlast, obsOut |-> obsOut]
Op(name, u, k, id, res) == [name |-> name, u |-> u, k |-> k, id |-> id, res |-> res]
NoTx == [st |-> None, u |-> None, k |-> None, b |-> 0]
NoBt == [st |-> None, k |-> None, timeout |-> 0, block |-> 0]
RECURSIVE SumSet(_, _)
SumSet(S, f) == IF S = {} THEN 0 ELSE LET x == CHOOSE y \in S : TRUE IN f[x] + SumSet(S \ {x}, f)

\* an external height is known from the start (the refusal before any observation is Outgoing.tla's subject)
Init == /\ bal = [u \in User |-> [k \in Token |-> InitBal]]
        /\ tx = [i \in TxIds |-> NoTx] /\ bt = [i \in BtIds |-> NoBt] /\ ntx = 0 /\ nbt = 0
        /\ fxH = 0 /\ obsExt = 10 /\ obsFx = 0 /\ lastObs = 0
        /\ extH = 10 /\ queue = <<>> /\ xbt = [i \in BtIds |-> None] /\ xlast = [k \in Token |-> 0]
        /\ obsOut = [k \in Token |-> 0]
        /\ op = Op("Init", None, None, 0, "ok")
Rej(o) == op' = [o EXCEPT !.res = "rej"] /\ UNCHANGED svars
TxOf(b) == {i \in TxIds : tx[i].st = "batch" /\ tx[i].b = b}

Send(u, k) == LET this == Op("Send", u, k, 0, "ok") IN
  IF bal[u][k] < 2 THEN Rej(this) ELSE
  /\ bal' = [bal EXCEPT ![u][k] = @ - 2] /\ ntx' = ntx + 1
  /\ tx' = [tx EXCEPT ![ntx + 1] = [st |-> "pool", u |-> u, k |-> k, b |-> 0]] /\ op' = this
  /\ UNCHANGED <<bt, nbt, fxH, obsExt, obsFx, lastObs, extH, queue, xbt, xlast, obsOut>>
Cancel(u, i) == LET this == Op("Cancel", u, None, i, "ok") IN
  IF ~(tx[i].st = "pool" /\ tx[i].u = u) THEN Rej(this) ELSE
  /\ bal' = [bal EXCEPT ![u][tx[i].k] = @ + 2] /\ tx' = [tx EXCEPT ![i] = [NoTx EXCEPT !.st = "gone"]] /\ op' = this
  /\ UNCHANGED <<bt, ntx, nbt, fxH, obsExt, obsFx, lastObs, extH, queue, xbt, xlast, obsOut>>
\* MsgRequestBatch for token k: all pooled transfers of THAT token; compared with the last open batch of THAT token
RequestBatch(k) == LET this == Op("RequestBatch", None, k, 0, "ok")
                       sel == {i \in TxIds : tx[i].st = "pool" /\ tx[i].k = k}
                       open == {b \in BtIds : bt[b].st = "open" /\ bt[b].k = k}
                       lastB == IF open = {} THEN 0 ELSE CHOOSE b \in open : \A c \in open : c <= b
                       okk == /\ sel # {} /\ (lastB # 0 => ~(Cardinality(TxOf(lastB)) > Cardinality(sel)))
                              /\ \A b \in BtIds : bt[b].st = "open" => bt[b].block # fxH   \* one batch per block, of any token
                   IN
  IF ~okk THEN Rej(this) ELSE
  /\ nbt' = nbt + 1 /\ bt' = [bt EXCEPT ![nbt + 1] = [st |-> "open", k |-> k, timeout |-> obsExt + (fxH - obsFx) + KB, block |-> fxH]]
  /\ tx' = [i \in TxIds |-> IF i \in sel THEN [tx[i] EXCEPT !.st = "batch", !.b = nbt + 1] ELSE tx[i]] /\ op' = this
  /\ UNCHANGED <<bal, ntx, fxH, obsExt, obsFx, lastObs, extH, queue, xbt, xlast, obsOut>>
FxBlock == /\ fxH' = fxH + 1 /\ op' = Op("FxBlock", None, None, 0, "ok")
           /\ UNCHANGED <<bal, tx, bt, ntx, nbt, obsExt, obsFx, lastObs, extH, queue, xbt, xlast, obsOut>>
ExtBlock == /\ extH' = extH + 1 /\ op' = Op("ExtBlock", None, None, 0, "ok")
            /\ UNCHANGED <<bal, tx, bt, ntx, nbt, fxH, obsExt, obsFx, lastObs, queue, xbt, xlast, obsOut>>
\* the contract: known batch, nonce above the last executed nonce OF ITS TOKEN, block.number < timeout
ExtExecBatch(b) == LET this == Op("ExtExecBatch", None, None, b, "ok")
                       okk == bt[b].st = "open" /\ xbt[b] = None /\ b > xlast[bt[b].k] /\ extH < bt[b].timeout
                   IN
  IF ~okk THEN Rej(this) ELSE
  /\ xbt' = [xbt EXCEPT ![b] = "exec"] /\ xlast' = [xlast EXCEPT ![bt[b].k] = b]
  /\ queue' = Append(queue, [t |-> "batch", h |-> extH, a |-> b, k |-> bt[b].k, amt |-> 2 * Cardinality(TxOf(b))]) /\ op' = this
  /\ UNCHANGED <<bal, tx, bt, ntx, nbt, fxH, obsExt, obsFx, lastObs, extH, obsOut>>
\* an unrelated external event (only moves the observed height)
ExtOther == /\ queue' = Append(queue, [t |-> "other", h |-> extH, a |-> 0, k |-> None, amt |-> 0]) /\ op' = Op("ExtOther", None, None, 0, "ok")
            /\ UNCHANGED <<bal, tx, bt, ntx, nbt, fxH, obsExt, obsFx, lastObs, extH, xbt, xlast, obsOut>>
Observe == LET this == Op("Observe", None, None, 0, "ok") IN
  IF queue = <<>> \/ lastObs >= MaxEv THEN Rej(this) ELSE
  LET e == Head(queue)
      execB == IF e.t = "batch" THEN e.a ELSE 0
      older == {b \in BtIds : execB # 0 /\ bt[b].st = "open" /\ b < execB /\ bt[b].k = e.k}   \* older batches OF THE SAME TOKEN
      timed == {b \in BtIds : bt[b].st = "open" /\ b # execB /\ b \notin older /\ bt[b].timeout < e.h}
      back == older \cup timed
  IN /\ queue' = Tail(queue) /\ lastObs' = lastObs + 1 /\ obsExt' = e.h /\ obsFx' = fxH
     /\ obsOut' = IF e.t = "batch" THEN [obsOut EXCEPT ![e.k] = @ + e.amt] ELSE obsOut
     /\ tx' = [i \in TxIds |-> IF tx[i].st = "batch" /\ tx[i].b = execB THEN [NoTx EXCEPT !.st = "gone"]
                               ELSE IF tx[i].st = "batch" /\ tx[i].b \in back THEN [tx[i] EXCEPT !.st = "pool", !.b = 0] ELSE tx[i]]
     /\ bt' = [b \in BtIds |-> IF b = execB \/ b \in back THEN [NoBt EXCEPT !.st = "gone"] ELSE bt[b]]
     /\ op' = this /\ UNCHANGED <<bal, ntx, nbt, fxH, extH, xbt, xlast>>
Probe == op' = Op("Probe", None, None, 0, "ok") /\ UNCHANGED svars
Next == \/ \E u \in User, k \in Token : Send(u, k)
        \/ \E u \in User, i \in 1..MaxTx : Cancel(u, i)
        \/ \E k \in Token : RequestBatch(k)
        \/ FxBlock \/ ExtBlock \/ ExtOther \/ Observe
        \/ \E b \in 1..MaxBatch : ExtExecBatch(b)
        \/ Probe
Spec == Init /\ [][Next]_vars

Do(e) ==
  CASE e.name = "Send"         -> Send(e.u, e.k)
    [] e.name = "Cancel"       -> Cancel(e.u, e.id)
    [] e.name = "RequestBatch" -> RequestBatch(e.k)
    [] e.name = "FxBlock"      -> FxBlock
    [] e.name = "ExtBlock"     -> ExtBlock
    [] e.name = "ExtOther"     -> ExtOther
    [] e.name = "ExtExecBatch" -> ExtExecBatch(e.id)
    [] e.name = "Observe"      -> Observe
    [] OTHER -> FALSE

\* ---- C04 per token
Present(i) == tx[i].st \in {"pool", "batch"}
InFlight(k) == 2 * Cardinality({i \in TxIds : Present(i) /\ tx[i].k = k})
C04_TokConservation == \A k \in Token : SumSet(User, [u \in User |-> bal[u][k]]) + InFlight(k) = InitBal * Cardinality(User) - obsOut[k]
\* ---- C05
C05_TokOnePlace == \A i \in TxIds : tx[i].st = "batch" => (tx[i].b \in BtIds /\ bt[tx[i].b].st = "open" /\ bt[tx[i].b].k = tx[i].k)
C05_TokNoEmptyBatch == \A b \in BtIds : bt[b].st = "open" => TxOf(b) # {}
A_C05_TokImmutable == \A i \in TxIds : (Present(i) /\ tx'[i].st \in {"pool", "batch"}) => (tx'[i].u = tx[i].u /\ tx'[i].k = tx[i].k)
C05_TokImmutable == [][A_C05_TokImmutable]_vars
A_C05_TokCancelExact == (op'.name = "Cancel" /\ op'.res = "ok") =>
   /\ tx[op'.id].st = "pool" /\ tx[op'.id].u = op'.u
   /\ bal' = [bal EXCEPT ![op'.u][tx[op'.id].k] = @ + 2]
C05_TokCancelExact == [][A_C05_TokCancelExact]_vars
\* ---- C05/C06: a batch is released only by its own observed execution, by the observed execution of a LATER batch of
\* the SAME token, or by an observed height beyond its timeout
A_C06_TokReleaseOnlyWhenProven ==
  \A b \in BtIds : (bt[b].st = "open" /\ bt'[b].st = "gone") =>
     /\ op'.name = "Observe" /\ Len(queue) > 0
     /\ \/ Head(queue).t = "batch" /\ Head(queue).a >= b /\ Head(queue).k = bt[b].k
        \/ Head(queue).h > bt[b].timeout
C06_TokReleaseOnlyWhenProven == [][A_C06_TokReleaseOnlyWhenProven]_vars
\* nothing the external chain can still run is cancellable by its sender: a transfer back in the pool belongs to no open batch the
\* external chain could execute (its former batch is gone for a proven reason)
View == svars
Bounded == ntx' <= MaxTx /\ nbt' <= MaxBatch /\ fxH' <= MaxFx /\ extH' <= 10 + MaxExt /\ lastObs' + Len(queue') <= MaxEv
EdgeDump == /\ IF op.name = "Init" \/ op'.res = "ok"
               THEN PrintT(<<"EDGE", ToJson([from |-> Abs, op |-> op', to |-> Abs'])>>)
               ELSE TRUE
            /\ Bounded
\* alphabet only: print every operation attempted in the initial state, expand nothing (recorder runs)
AlphabetDump == PrintT(<<"EDGE", ToJson([from |-> Abs, op |-> op', to |-> Abs'])>>) /\ FALSE
=============================================================================
