------------------------------- MODULE Attest -------------------------------
(***************************************************************************)
(* Oracle membership + claim attestation of ONE crosschain module          *)
(* (x/crosschain/keeper: msg_server.go Claim/BondedOracle/AddDelegate/     *)
(* EditBridger/UnbondedOracle, attestation.go Attest/TryAttestation,       *)
(* proposal.go UpdateProposalOracles, attestation_handler.go ExecuteClaim).*)
(*                                                                         *)
(* One action per entry point.  Every action is TOTAL: it is enabled for   *)
(* all arguments, decides `res` ("ok"/"rej") and leaves the state          *)
(* unchanged when rejected.  `last` records the operation just attempted   *)
(* (it is excluded from the VIEW) so that TLC can print every transition   *)
(* as a labelled edge for replay on the real keeper.                       *)
(*                                                                         *)
(* Properties: C01 (exactly once, in order) and C02 (66% quorum of         *)
(* distinct oracles, voter is an online oracle's registered bridger who    *)
(* signed, recorded total power covers online power).                      *)
(***************************************************************************)
EXTENDS Integers, Sequences, FiniteSets, TLC, Json

CONSTANTS Oracle,      \* set of strings
          Bridger,     \* set of strings (bridger addresses competing for registration)
          Variant,     \* competing claim variants per nonce
          MaxNonce,
          Stake,       \* [Oracle -> Nat] power bonded by Bond
          MaxMops,     \* bound on membership operations (slash, gov, add-delegate, edit-bridger)
          MaxBonds,    \* bound on the number of Bond operations
          Forger       \* a bridger-like address that signs claims naming somebody else

VARIABLES reg, online, approved, power, bridger, bidx, last, delegated, pen,
          totalPower, lastObs, obsExt, votes, observed, pending, effects, mops, bonds,
          op   \* the operation just attempted: [name, o, b, s, n, v, set, res]

svars == <<reg, online, approved, power, bridger, bidx, last, delegated, pen,
           totalPower, lastObs, obsExt, votes, observed, pending, effects, mops, bonds>>
vars  == <<svars, op>>

None  == "none"
Nonce == 1..MaxNonce

Abs == [reg |-> reg, online |-> online, approved |-> approved, power |-> power,
        bridger |-> bridger, bidx |-> bidx, last |-> last, delegated |-> delegated, pen |-> pen,
        totalPower |-> totalPower, lastObs |-> lastObs, obsExt |-> obsExt, votes |-> votes,
        observed |-> observed, pending |-> pending, effects |-> effects]

RECURSIVE SumSet(_, _)
SumSet(S, f) == IF S = {} THEN 0 ELSE LET x == CHOOSE y \in S : TRUE IN f[x] + SumSet(S \ {x}, f)

OnlineSum(on, rg, pw) == SumSet({o \in Oracle : rg[o] /\ on[o]}, pw)

Op(name, o, b, s, n, v, set, res) ==
  [name |-> name, o |-> o, b |-> b, s |-> s, n |-> n, v |-> v, set |-> set, res |-> res]

Init ==
  /\ reg = [o \in Oracle |-> FALSE] /\ online = [o \in Oracle |-> FALSE]
  /\ approved = [o \in Oracle |-> TRUE] /\ power = [o \in Oracle |-> 0]
  /\ bridger = [o \in Oracle |-> None] /\ bidx = [b \in Bridger |-> None]
  /\ last = [o \in Oracle |-> -1] /\ delegated = [o \in Oracle |-> FALSE] /\ pen = [o \in Oracle |-> FALSE]
  /\ totalPower = 0 /\ lastObs = 0 /\ obsExt = 0
  /\ votes = [n \in Nonce |-> [v \in Variant |-> <<>>]]
  /\ observed = [n \in Nonce |-> [v \in Variant |-> FALSE]]
  /\ pending = [n \in Nonce |-> FALSE] /\ effects = [n \in Nonce |-> [v \in Variant |-> 0]]
  /\ mops = 0 /\ bonds = 0
  /\ op = Op("Init", None, None, None, 0, None, <<>>, "ok")

Rej(o) == /\ op' = [o EXCEPT !.res = "rej"] /\ UNCHANGED svars

---------------------------------------------------------------------------
(* MsgBondedOracle: approved, not yet registered, bridger (and external   *)
(* address, tied 1:1 to the oracle here) unbound.                         *)
Bond(o, b) ==
  LET this == Op("Bond", o, b, None, 0, None, <<>>, "ok")
      okk  == approved[o] /\ ~reg[o] /\ bidx[b] = None
  IN IF ~okk THEN Rej(this) ELSE
     /\ reg' = [reg EXCEPT ![o] = TRUE] /\ online' = [online EXCEPT ![o] = TRUE]
     /\ power' = [power EXCEPT ![o] = Stake[o]]
     /\ bridger' = [bridger EXCEPT ![o] = b] /\ bidx' = [bidx EXCEPT ![b] = o]
     /\ delegated' = [delegated EXCEPT ![o] = TRUE]
     /\ totalPower' = OnlineSum(online', reg', power')
     /\ bonds' = bonds + 1
     /\ op' = this
     /\ UNCHANGED <<approved, last, pen, lastObs, obsExt, votes, observed, pending, effects, mops>>

(* MsgAddDelegate with an amount covering the accrued penalty plus `add`   *)
(* power units: re-activates an offline oracle and refreshes total power.  *)
AddDelegate(o, add) ==
  LET this == Op("AddDelegate", o, None, None, add, None, <<>>, "ok")
      okk  == approved[o] /\ reg[o]
              /\ (add > 0 \/ pen[o])          \* a zero amount is refused by stateless validation
              /\ (delegated[o] \/ add > 0)    \* stake a removal undelegated no longer counts: the new stake must reach the minimum
  IN IF ~okk THEN Rej(this) ELSE
     /\ online' = [online EXCEPT ![o] = TRUE]
     /\ pen' = [pen EXCEPT ![o] = FALSE]
     /\ power' = [power EXCEPT ![o] = (IF delegated[o] THEN @ ELSE 0) + add]
     /\ delegated' = [delegated EXCEPT ![o] = IF add > 0 THEN TRUE ELSE @]
     /\ totalPower' = OnlineSum(online', reg, power')
     /\ mops' = mops + 1 /\ op' = this
     /\ UNCHANGED <<reg, approved, bridger, bidx, last, lastObs, obsExt, votes, observed, pending, effects, bonds>>

(* end-block slashing of one oracle (cause modelled in EndBlock.tla):      *)
(* offline, total power refreshed.                                         *)
Slash(o) ==
  LET this == Op("Slash", o, None, None, 0, None, <<>>, "ok")
      okk  == reg[o] /\ online[o]
  IN IF ~okk THEN Rej(this) ELSE
     /\ online' = [online EXCEPT ![o] = FALSE]
     /\ pen' = [pen EXCEPT ![o] = TRUE]
     /\ totalPower' = OnlineSum(online', reg, power)
     /\ mops' = mops + 1 /\ op' = this
     /\ UNCHANGED <<reg, approved, power, bridger, bidx, last, delegated, lastObs, obsExt, votes, observed, pending, effects, bonds>>

(* MsgUpdateChainOracles(S): refused if the online power removed is > 0    *)
(* and >= 30% of the online power; removed registered oracles that were    *)
(* approved are undelegated (if anything is delegated) and go offline;     *)
(* the recorded total power is NOT refreshed (it can only be too high).    *)
GovSet(S) ==
  LET this    == Op("GovSet", None, None, None, 0, None, [o \in Oracle |-> o \in S], "ok")
      removed == {o \in Oracle : reg[o] /\ approved[o] /\ o \notin S}
      tot     == OnlineSum(online, reg, power)
      del     == SumSet({o \in removed : online[o]}, power)
      okk     == /\ S # {}                   \* an empty list is refused by stateless validation
                 /\ ~(del > 0 /\ del >= (30 * tot) \div 100)
  IN IF ~okk THEN Rej(this) ELSE
     /\ approved' = [o \in Oracle |-> o \in S]
     /\ online' = [o \in Oracle |-> IF o \in removed THEN FALSE ELSE online[o]]
     /\ delegated' = [o \in Oracle |-> IF o \in removed THEN FALSE ELSE delegated[o]]
     /\ mops' = mops + 1 /\ op' = this
     /\ UNCHANGED <<reg, power, pen, bridger, bidx, last, totalPower, lastObs, obsExt, votes, observed, pending, effects, bonds>>

(* MsgUnbondedOracle after the unbonding period: only for an oracle that   *)
(* governance removed.  Record and both indexes are deleted; the oracle's  *)
(* last voted nonce is KEPT so that a re-bonded oracle cannot vote again   *)
(* for a nonce it already voted for.                                       *)
Unbond(o) ==
  LET this == Op("Unbond", o, None, None, 0, None, <<>>, "ok")
      okk  == reg[o] /\ ~approved[o] /\ ~online[o]
  IN IF ~okk THEN Rej(this) ELSE
     /\ reg' = [reg EXCEPT ![o] = FALSE]
     /\ bidx' = [bidx EXCEPT ![bridger[o]] = None]
     /\ bridger' = [bridger EXCEPT ![o] = None]
     /\ power' = [power EXCEPT ![o] = 0]
     /\ pen' = [pen EXCEPT ![o] = FALSE]
     /\ op' = this
     /\ UNCHANGED <<online, approved, last, delegated, totalPower, lastObs, obsExt, votes, observed, pending, effects, mops, bonds>>

EditBridger(o, b) ==
  LET this == Op("EditBridger", o, b, None, 0, None, <<>>, "ok")
      okk  == reg[o] /\ online[o] /\ bridger[o] # b /\ bidx[b] = None
  IN IF ~okk THEN Rej(this) ELSE
     /\ bidx' = [bidx EXCEPT ![bridger[o]] = None, ![b] = o]
     /\ bridger' = [bridger EXCEPT ![o] = b]
     /\ mops' = mops + 1 /\ op' = this
     /\ UNCHANGED <<reg, online, approved, power, last, delegated, pen, totalPower, lastObs, obsExt, votes, observed, pending, effects, bonds>>

\* external block height carried by the claims for nonce n (harness: the same function)
\* variant "H" is the same event as "A" reported at a different external height
ClaimHeight(n, v) == IF v = "H" THEN 1050 + n ELSE 1000 + n

LastOf(o) == IF last[o] = -1 THEN (IF lastObs >= 1 THEN lastObs - 1 ELSE 0) ELSE last[o]

(* power of the registered oracles among the first k votes (with repeats, as the code sums) *)
RECURSIVE PrefixPower(_, _)
PrefixPower(s, k) == IF k = 0 THEN 0
                     ELSE PrefixPower(s, k - 1) + (IF reg[s[k]] THEN power[s[k]] ELSE 0)

(* MsgClaim signed by s, wrapping a claim that names bridger b, for nonce n variant v. *)
Claim(s, b, n, v) ==
  LET this == Op("Claim", None, b, s, n, v, <<>>, "ok")
      o    == bidx[b]
      okk  == /\ s = b                      \* the signer of the transaction is the claiming bridger
              /\ o # None /\ reg[o] /\ online[o]
              /\ n = LastOf(o) + 1
  IN IF ~okk THEN Rej(this) ELSE
     LET vs   == Append(votes[n][v], o)
         try  == ~observed[n][v] /\ n = lastObs + 1
         req  == (66 * totalPower) \div 100
         \* the loop passes the bar at the first registered voter whose running sum reaches req
         hit  == \E k \in 1..Len(vs) : reg[vs[k]] /\ PrefixPower(vs, k) >= req
         obs  == try /\ hit
     IN /\ votes' = [votes EXCEPT ![n][v] = vs]
        /\ observed' = [observed EXCEPT ![n][v] = IF obs THEN TRUE ELSE @]
        /\ lastObs' = IF obs THEN n ELSE lastObs
        /\ obsExt' = IF obs THEN ClaimHeight(n, v) ELSE obsExt   \* the external height is taken from the OBSERVED event only
        /\ pending' = [pending EXCEPT ![n] = IF obs THEN TRUE ELSE @]
        /\ last' = [last EXCEPT ![o] = n]
        /\ op' = this
        /\ UNCHANGED <<reg, online, approved, power, bridger, bidx, delegated, pen, totalPower, effects, mops, bonds>>

(* executeClaim(n) by anybody (precompile): delete the parked claim, run its effects. *)
Execute(n) ==
  LET this == Op("Execute", None, None, None, n, None, <<>>, "ok")
  IN IF ~pending[n] THEN Rej(this) ELSE
     /\ pending' = [pending EXCEPT ![n] = FALSE]
     /\ LET v == CHOOSE x \in Variant : observed[n][x] IN effects' = [effects EXCEPT ![n][v] = @ + 1]
     /\ op' = this
     /\ UNCHANGED <<reg, online, approved, power, bridger, bidx, last, delegated, pen, totalPower, lastObs, obsExt, votes, observed, mops, bonds>>

GovSets == SUBSET Oracle

(* marker: every state TLC expands has a Probe self-loop, so the replayer can tell an expanded   *)
(* state (all operations without an accepted edge are rejected there) from a frontier state cut  *)
(* off by the CONSTRAINT (nothing is known about its operations).                               *)
Probe == op' = Op("Probe", None, None, None, 0, None, <<>>, "ok") /\ UNCHANGED svars

Next ==
  \/ \E o \in Oracle, b \in Bridger : Bond(o, b) \/ EditBridger(o, b)
  \/ \E o \in Oracle, a \in {0, 1} : AddDelegate(o, a)
  \/ \E o \in Oracle : Slash(o) \/ Unbond(o)
  \/ \E S \in GovSets : GovSet(S)
  \/ \E b \in Bridger : \E s \in {b, Forger}, n \in Nonce, v \in Variant : Claim(s, b, n, v)
  \/ \E n \in Nonce : Execute(n)
  \/ Probe

Spec == Init /\ [][Next]_vars

---------------------------------------------------------------------------
(* Dispatch an operation record (trace validation). *)
Do(e) ==
  CASE e.name = "Bond"        -> Bond(e.o, e.b)
    [] e.name = "AddDelegate" -> AddDelegate(e.o, e.n)
    [] e.name = "Slash"       -> Slash(e.o)
    [] e.name = "GovSet"      -> GovSet({o \in Oracle : e.set[o]})
    [] e.name = "Unbond"      -> Unbond(e.o)
    [] e.name = "EditBridger" -> EditBridger(e.o, e.b)
    [] e.name = "Claim"       -> Claim(e.s, e.b, e.n, e.v)
    [] e.name = "Execute"     -> Execute(e.n)
    [] OTHER                  -> FALSE

---------------------------------------------------------------------------
(* PROPERTIES.  All are stated over the state variables and `op` only, so  *)
(* that TLC can evaluate them both on the model and on behaviours recorded *)
(* from the real keeper (AttestProp.tla).                                  *)

SeqToSet(s) == {s[i] : i \in 1..Len(s)}
Count(s, x) == Cardinality({i \in 1..Len(s) : s[i] = x})
VotesOf(n, o) == SumSet(Variant, [v \in Variant |-> Count(votes[n][v], o)])

\* ---- C01
A_C01_StepByOne ==
  lastObs' \in {lastObs, lastObs + 1}
C01_StepByOne == [][A_C01_StepByOne]_vars
C01_OneObservedPerNonce == \A n \in Nonce : Cardinality({v \in Variant : observed[n][v]}) <= 1
C01_ObservedInOrder == \A n \in Nonce : (\E v \in Variant : observed[n][v]) <=> n <= lastObs
C01_NoDoubleVote == \A n \in Nonce, o \in Oracle : VotesOf(n, o) <= 1
EffectsOf(n) == SumSet(Variant, effects[n])
C01_EffectsAtMostOnce == \A n \in Nonce : EffectsOf(n) + (IF pending[n] THEN 1 ELSE 0) <= 1
C01_EffectsOnlyWhenObserved == \A n \in Nonce : /\ pending[n] => n <= lastObs
                                                /\ \A v \in Variant : effects[n][v] >= 1 => observed[n][v]
\* an accepted vote is for exactly the nonce after the oracle's previous one (no skip, no repeat);
\* a vote is recorded only by an accepted Claim
A_C01_VoteContiguous ==
  \A o \in Oracle :
        last'[o] # last[o] =>
          /\ op'.name = "Claim" /\ op'.res = "ok" /\ bidx[op'.b] = o
          /\ last'[o] = LastOf(o) + 1
C01_VoteContiguous == [][A_C01_VoteContiguous]_vars
A_C01_VotesOnlyByClaim ==
  votes' # votes => op'.name = "Claim" /\ op'.res = "ok"
        /\ \E o \in Oracle : votes' = [votes EXCEPT ![op'.n][op'.v] = Append(@, o)] /\ last'[o] = op'.n
C01_VotesOnlyByClaim == [][A_C01_VotesOnlyByClaim]_vars
A_C01_ObservedStable ==
  \A n \in Nonce, v \in Variant : observed[n][v] => observed'[n][v]
C01_ObservedStable == [][A_C01_ObservedStable]_vars
A_C01_EffectsOnlyByExecute ==
  effects' # effects => op'.name = "Execute" /\ pending[op'.n] /\ ~pending'[op'.n]
        /\ \E v \in Variant : observed[op'.n][v] /\ effects' = [effects EXCEPT ![op'.n][v] = @ + 1]
C01_EffectsOnlyByExecute == [][A_C01_EffectsOnlyByExecute]_vars

\* ---- C02
DistinctRegPower(s) == SumSet({o \in SeqToSet(s) : reg[o]}, power)
A_C02_QuorumJustified ==
  \A n \in Nonce, v \in Variant :
        (~observed[n][v] /\ observed'[n][v]) =>
           /\ DistinctRegPower(votes'[n][v]) >= (66 * totalPower) \div 100
           /\ \E o \in SeqToSet(votes'[n][v]) : reg[o]
C02_QuorumJustified == [][A_C02_QuorumJustified]_vars
A_C02_VoterIsOnlineBridgerAndSigner ==
  votes' # votes =>
        /\ op'.name = "Claim" /\ op'.s = op'.b
        /\ bidx[op'.b] # None /\ reg[bidx[op'.b]] /\ online[bidx[op'.b]]
        /\ bridger[bidx[op'.b]] = op'.b
        /\ votes'[op'.n][op'.v] = Append(votes[op'.n][op'.v], bidx[op'.b])
C02_VoterIsOnlineBridgerAndSigner == [][A_C02_VoterIsOnlineBridgerAndSigner]_vars
C02_TotalPowerCoversOnline == totalPower >= OnlineSum(online, reg, power)
C02_NoOracleTwiceInTally == \A n \in Nonce, v \in Variant, o \in Oracle : Count(votes[n][v], o) <= 1

\* ---- C06 (clause: the observed external height comes from observed events only, never from a minority vote)
C06_HeightFromObservedOnly == IF lastObs = 0 THEN obsExt = 0
                              ELSE \E v \in Variant : observed[lastObs][v] /\ obsExt = ClaimHeight(lastObs, v)

\* ---- registry sanity used by both (index agrees with records)
IndexAgree == /\ \A o \in Oracle : reg[o] <=> bridger[o] # None
              /\ \A o \in Oracle : reg[o] => bidx[bridger[o]] = o
              /\ \A b \in Bridger : bidx[b] # None => (reg[bidx[b]] /\ bridger[bidx[b]] = b)

---------------------------------------------------------------------------
(* model-checking plumbing *)
View == svars
\* bounds are ACTION constraints: TLC evaluates them after generating (and, in the generation
\* run, printing) the transition, and does not expand the successor when they fail.
Bounded == /\ \A n \in Nonce, v \in Variant : Len(votes'[n][v]) <= Cardinality(Oracle) + 1
           /\ mops' <= MaxMops /\ bonds' <= MaxBonds
\* every accepted transition, plus every operation attempted in the initial state (= the alphabet:
\* all actions are total, so each operation occurs there); rejected operations elsewhere are
\* re-derived by the replayer as "alphabet minus accepted", i.e. they must leave the state unchanged.
EdgeDump == /\ IF op.name = "Init" \/ op'.res = "ok"
               THEN PrintT(<<"EDGE", ToJson([from |-> Abs, op |-> op', to |-> Abs'])>>)
               ELSE TRUE
            /\ Bounded
\* alphabet only: print every operation attempted in the initial state, expand nothing (recorder runs)
AlphabetDump == PrintT(<<"EDGE", ToJson([from |-> Abs, op |-> op', to |-> Abs'])>>) /\ FALSE
=============================================================================
