--------------------------- MODULE IbcTransferProp ---------------------------
(* Evaluates IbcTransfer.tla's property formulas on behaviours recorded from the real application
   (see AttestProp.tla for the scheme). *)
EXTENDS IbcTransferMC
CONSTANT TraceFile
VARIABLE l
Trace == ndJsonDeserialize(TraceFile)

Install(st) ==
  /\ coin' = st.coin /\ erc' = st.erc /\ other' = st.other /\ nseq' = st.nseq /\ out' = st.out /\ rel' = st.rel
  /\ relx' = st.relx /\ nin' = st.nin /\ ack' = st.ack /\ esc' = st.esc /\ pool' = st.pool /\ vrc' = st.vrc
  /\ vpool' = st.vpool /\ caller' = st.caller

PInit == Init /\ l = 1
PNext == /\ l <= Len(Trace) /\ l' = l + 1
         /\ Install(Trace[l].st) /\ op' = Trace[l].op
PSpec == PInit /\ [][PNext]_<<vars, l>>

R(A) == op'.name = "Reset" \/ A
P_C19_CreditExactOrNothing == [][R(A_C19_CreditExactOrNothing)]_<<vars, l>>
P_C19_SenderIsDerived      == [][R(A_C19_SenderIsDerived)]_<<vars, l>>
P_C19_RefundOnce           == [][R(A_C19_RefundOnce)]_<<vars, l>>
P_C19_SendExact            == [][R(A_C19_SendExact)]_<<vars, l>>

Consumed == TLCGet("stats").diameter - 1 = Len(Trace)
=============================================================================
