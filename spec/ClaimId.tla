------------------------------- MODULE ClaimId -------------------------------
(***************************************************************************)
(* Identity of an oracle claim (C03): which votes are tallied together,    *)
(* and which event is executed when the quorum is reached.                 *)
(*                                                                         *)
(* One event nonce, the oracles of Oracle already bonded (stake Stake[o]), *)
(* one claim type per configuration (ClaimType), and a finite set Variant  *)
(* of claim CONTENTS for that nonce: "base" plus one variant per           *)
(* (field, value class) of the claim type - a field that influences what   *)
(* is executed changed to another valid value, a list field with an        *)
(* element added / removed / reordered, empty <-> non-empty, and for       *)
(* adjacent free-form string fields every re-split of the same             *)
(* concatenation (the table variant -> real claim object is in             *)
(* harness/claimid/adapter.go; every variant passes the real               *)
(* ValidateBasic).  Two variants always differ in at least one field that  *)
(* influences execution, so in the DESIGN every variant is its own key:    *)
(* two votes are tallied together iff they are for the same variant.       *)
(*                                                                         *)
(*   x/crosschain/keeper/msg_server.go Claim -> attestation.go Attest      *)
(*   (attestation keyed by nonce || ClaimHash) -> TryAttestation ->        *)
(*   processAttestation -> AttestationHandler; SendToFx / BridgeCall /     *)
(*   BridgeCallResult claims are parked and run later by executeClaim.     *)
(*                                                                         *)
(* BadVariant: variants whose execution PANICS in the handler (unknown     *)
(* batch, oracle set not matching the stored one): the vote that would     *)
(* cross the threshold is refused as a whole (the transaction fails).      *)
(***************************************************************************)
EXTENDS Integers, Sequences, FiniteSets, TLC, Json

CONSTANTS Oracle,      \* set of strings
          Variant,     \* set of strings, contains "base"
          BadVariant,  \* subset of Variant: execution panics
          ClaimType,   \* "SendToFx" | "BridgeCall" | "BridgeCallResult" | "SendToExternal" | "BridgeToken" | "OracleSet"
          Stake,       \* [Oracle -> Nat]
          MaxOther     \* bound: number of distinct non-base variants voted for in one behaviour

VARIABLES bucket,           \* [Variant -> Seq(Oracle)]: the voters tallied for the event with content v, in vote order
          submitted,        \* [Oracle -> Variant \cup {"none"}]: what the oracle actually submitted
          mixed,            \* TRUE iff some tally contains two voters who submitted different contents
          observedVariant,  \* content recorded as observed for the nonce ("none" before)
          pendingVariant,   \* content of the parked claim awaiting executeClaim ("none" if nothing parked)
          executedVariant,  \* content whose effects have been applied ("none" before)
          op                \* the operation just attempted: [name, o, v, res]

svars == <<bucket, submitted, mixed, observedVariant, pendingVariant, executedVariant>>
vars  == <<svars, op>>

None == "none"
Parked == ClaimType \in {"SendToFx", "BridgeCall", "BridgeCallResult"}

Abs == [bucket |-> bucket, submitted |-> submitted, mixed |-> mixed, observedVariant |-> observedVariant,
        pendingVariant |-> pendingVariant, executedVariant |-> executedVariant]

RECURSIVE SumSet(_, _)
SumSet(S, f) == IF S = {} THEN 0 ELSE LET x == CHOOSE y \in S : TRUE IN f[x] + SumSet(S \ {x}, f)

SeqToSet(s)  == {s[i] : i \in 1..Len(s)}
TotalPower   == SumSet(Oracle, Stake)
Quorum       == (66 * TotalPower) \div 100      \* as the code truncates (C02's subject)
PowerOf(S)   == SumSet(S \cap Oracle, Stake)

Op(name, o, v, res) == [name |-> name, o |-> o, v |-> v, res |-> res]

Init ==
  /\ bucket = [v \in Variant |-> <<>>]
  /\ submitted = [o \in Oracle |-> None]
  /\ mixed = FALSE
  /\ observedVariant = None /\ pendingVariant = None /\ executedVariant = None
  /\ op = Op("Init", None, None, "ok")

Rej(o) == /\ op' = [o EXCEPT !.res = "rej"] /\ UNCHANGED svars

(* MsgClaim signed by o's bridger wrapping the claim object of content v. *)
Vote(o, v) ==
  LET this  == Op("Vote", o, v, "ok")
      vs    == Append(bucket[v], o)
      cross == observedVariant = None /\ PowerOf(SeqToSet(vs)) >= Quorum
      okk   == /\ submitted[o] = None            \* one vote per oracle and nonce
               /\ ~(cross /\ v \in BadVariant)   \* the handler panics: the whole message fails
  IN IF ~okk THEN Rej(this) ELSE
     /\ bucket' = [bucket EXCEPT ![v] = vs]
     /\ submitted' = [submitted EXCEPT ![o] = v]
     /\ observedVariant' = IF cross THEN v ELSE observedVariant
     /\ pendingVariant'  = IF cross /\ Parked THEN v ELSE pendingVariant
     /\ executedVariant' = IF cross /\ ~Parked THEN v ELSE executedVariant
     /\ op' = this
     /\ UNCHANGED mixed

(* executeClaim(nonce) by anybody (precompile): run the parked claim. *)
Execute ==
  LET this == Op("Execute", None, None, "ok")
  IN IF pendingVariant = None THEN Rej(this) ELSE
     /\ executedVariant' = pendingVariant
     /\ pendingVariant' = None
     /\ op' = this
     /\ UNCHANGED <<bucket, submitted, mixed, observedVariant>>

Probe == op' = Op("Probe", None, None, "ok") /\ UNCHANGED svars

Next ==
  \/ \E o \in Oracle, v \in Variant : Vote(o, v)
  \/ Execute
  \/ Probe

Spec == Init /\ [][Next]_vars

---------------------------------------------------------------------------
(* PROPERTIES (C03), stated over the state variables and `op` only, from   *)
(* the property text; evaluated by TLC on the model and on behaviours      *)
(* recorded from the real keeper (ClaimIdProp.tla).                        *)

Submitters(v) == {o \in Oracle : submitted[o] = v}

\* "Two oracle claims for the same event nonce are tallied together only if they agree on every
\*  field that influences what is executed": every voter tallied for content v submitted content v.
C03_TalliedTogetherOnlyIfEqual ==
  /\ ~mixed
  /\ \A v \in Variant : \A i \in 1..Len(bucket[v]) :
        bucket[v][i] \in Oracle => submitted[bucket[v][i]] = v

\* "the effect applied is exactly the one the quorum voted for, no matter which oracle's vote
\*  happens to cross the threshold": the observed / parked / executed content was SUBMITTED by at
\*  least a quorum of distinct oracles, and the three agree.
JustifiedByQuorum(x) == x # None => /\ x \in Variant
                                    /\ PowerOf(Submitters(x)) >= Quorum
                                    /\ PowerOf(Submitters(x)) > 0
C03_ExecutedIsWhatQuorumVotedFor ==
  /\ JustifiedByQuorum(observedVariant)
  /\ JustifiedByQuorum(pendingVariant)
  /\ JustifiedByQuorum(executedVariant)
  /\ pendingVariant # None => pendingVariant = observedVariant
  /\ executedVariant # None => executedVariant = observedVariant

\* a vote for content v is credited to the tally of v only, and tallies change only by votes
A_C03_NoCrossCredit ==
  bucket' # bucket =>
     /\ op'.name = "Vote" /\ op'.res = "ok"
     /\ op'.v \in DOMAIN bucket
     /\ bucket' = [bucket EXCEPT ![op'.v] = Append(@, op'.o)]
C03_NoCrossCredit == [][A_C03_NoCrossCredit]_vars

\* what was executed never changes afterwards (exactly the agreed event, once)
A_C03_ExecutedStable ==
  /\ executedVariant # None => executedVariant' = executedVariant
  /\ observedVariant # None => observedVariant' = observedVariant
C03_ExecutedStable == [][A_C03_ExecutedStable]_vars

---------------------------------------------------------------------------
(* model-checking plumbing *)
View == svars
Others(b) == {v \in Variant \ {"base"} : b[v] # <<>>}
Bounded == Cardinality(Others(bucket')) <= MaxOther
EdgeDump == /\ IF op.name = "Init" \/ op'.res = "ok"
               THEN PrintT(<<"EDGE", ToJson([from |-> Abs, op |-> op', to |-> Abs'])>>)
               ELSE TRUE
            /\ Bounded
=============================================================================
