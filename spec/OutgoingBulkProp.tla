-------------------------- MODULE OutgoingBulkProp --------------------------
EXTENDS OutgoingBulkMC
CONSTANT TraceFile
VARIABLE l
Trace == ndJsonDeserialize(TraceFile)
PInit == Init /\ l = 1
PNext == /\ l <= Len(Trace) /\ l' = l + 1
         /\ LET st == Trace[l].st IN
            bal' = st.bal /\ sent' = st.sent /\ pooled' = st.pooled /\ batch' = st.batch /\ fxH' = st.fxH /\ UNCHANGED <<lastBatchBlk, nsend>>
         /\ op' = Trace[l].op
PSpec == PInit /\ [][PNext]_<<vars, l>>
Consumed == TLCGet("stats").diameter - 1 = Len(Trace)
=============================================================================
