----------------------------- MODULE AttestProp -----------------------------
(***************************************************************************)
(* Evaluates the property formulas of Attest.tla on behaviours RECORDED    *)
(* FROM THE REAL KEEPER.  The next-state relation is not the               *)
(* specification's: each step simply installs the projected real state     *)
(* and the operation that produced it (line l of the trace file), so TLC   *)
(* evaluates every invariant on every real state and every action property *)
(* on every real step.  Lines whose op.name = "Reset" start a new recorded  *)
(* behaviour (many behaviours are concatenated in one file); action        *)
(* properties are not evaluated across a Reset.                            *)
(***************************************************************************)
EXTENDS AttestMC
CONSTANT TraceFile
VARIABLE l
Trace == ndJsonDeserialize(TraceFile)

Install(st) ==
  /\ reg' = st.reg /\ online' = st.online /\ approved' = st.approved /\ power' = st.power
  /\ bridger' = st.bridger /\ bidx' = st.bidx /\ last' = st.last /\ delegated' = st.delegated
  /\ pen' = st.pen /\ totalPower' = st.totalPower /\ lastObs' = st.lastObs /\ obsExt' = st.obsExt /\ votes' = st.votes
  /\ observed' = st.observed /\ pending' = st.pending /\ effects' = st.effects
  /\ UNCHANGED <<mops, bonds>>

PInit == Init /\ l = 1
PNext == /\ l <= Len(Trace) /\ l' = l + 1
         /\ Install(Trace[l].st) /\ op' = Trace[l].op
PSpec == PInit /\ [][PNext]_<<vars, l>>

R(A) == op'.name = "Reset" \/ A
P_C01_StepByOne            == [][R(A_C01_StepByOne)]_<<vars, l>>
P_C01_VoteContiguous       == [][R(A_C01_VoteContiguous)]_<<vars, l>>
P_C01_VotesOnlyByClaim     == [][R(A_C01_VotesOnlyByClaim)]_<<vars, l>>
P_C01_ObservedStable       == [][R(A_C01_ObservedStable)]_<<vars, l>>
P_C01_EffectsOnlyByExecute == [][R(A_C01_EffectsOnlyByExecute)]_<<vars, l>>
P_C02_QuorumJustified      == [][R(A_C02_QuorumJustified)]_<<vars, l>>
P_C02_VoterIsOnlineBridgerAndSigner == [][R(A_C02_VoterIsOnlineBridgerAndSigner)]_<<vars, l>>

\* all lines consumed
Consumed == TLCGet("stats").diameter - 1 = Len(Trace)
=============================================================================
