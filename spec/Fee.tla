-------------------------------- MODULE Fee --------------------------------
(***************************************************************************)
(* C20 part (a): the minimum-fee rule of a node's mempool (check-tx).      *)
(*                                                                         *)
(* Written from the property text, not from ante/fees.go:                  *)
(*   "A transaction skips the node's minimum gas price only if every one   *)
(*    of its messages is of a configured fee-exempt type and its gas limit *)
(*    is within the per-message allowance; any other transaction below the *)
(*    minimum price is refused entry to the mempool."                      *)
(*                                                                         *)
(*   Bypass(tx, cfg) == msgs # <<>> /\ \A m \in msgs: type(m) \in exempt   *)
(*                      /\ gas <= Len(msgs) * allowance                    *)
(*   Admit(tx, cfg)  == Bypass \/ fee >= ceil(minPrice * gas)              *)
(*                                                                         *)
(* The specification has no dynamics: a "behaviour" is one case (a node    *)
(* configuration and a transaction) and the verdict.  TLC enumerates ALL   *)
(* cases of the finite family below; each is printed (CaseDump) with the   *)
(* specified verdict, executed on the real code (real signed transaction,  *)
(* real CheckTx of an application constructed with that node               *)
(* configuration) and the property formula is evaluated by TLC on the      *)
(* recorded real outcome (FeeProp.tla).                                    *)
(***************************************************************************)
EXTENDS Integers, Sequences, FiniteSets, TLC, Json

CONSTANTS
  T1, T2,      \* message types (type URLs) a node operator may list as fee-exempt
  T3,          \* a message type that is never listed
  ExemptSets,  \* set of exemption settings, each a function [Types -> BOOLEAN]
  Allowances,  \* set of per-message gas allowances (msg-max-gas-usage) a node may configure
  Prices,      \* set of minimum gas prices [num, den] (price = num/den per unit of gas)
  A,           \* the allowance around whose multiples the gas boundaries are placed
  MaxLen,      \* message lists of length 0..MaxLen
  Huge,        \* a very large gas limit (above every multiple of the allowance)
  MaxGasWanted \* largest gas limit for which the fee rule is consulted at all (see Reachable)

Types == {T1, T2, T3}

VARIABLES
  c,    \* the case: [cfg |-> [exempt, allowance, price], msgs, gas, fee, denom]
  out   \* the verdict: [rule, checktx]
vars == <<c, out>>

NoCase == [cfg |-> [exempt |-> [t \in Types |-> FALSE], allowance |-> 0, price |-> [num |-> 0, den |-> 1]],
           msgs |-> <<>>, gas |-> 0, fee |-> 0, denom |-> "none"]
NoOut  == [rule |-> "none", checktx |-> "none"]

(***************************************************************************)
(* The rule                                                                *)
(***************************************************************************)
\* ceil(num * gas / den) without leaving TLC's 32-bit integers
Required(price, gas) ==
  LET q == gas \div price.den
      r == gas % price.den
  IN  q * price.num + ((r * price.num + price.den - 1) \div price.den)

AllExempt(cs)   == \A i \in 1..Len(cs.msgs) : cs.cfg.exempt[cs.msgs[i]]
WithinAllow(cs) == cs.gas <= Len(cs.msgs) * cs.cfg.allowance
Bypass(cs)      == cs.msgs # <<>> /\ AllExempt(cs) /\ WithinAllow(cs)

\* what the transaction offers in the denomination the node prices gas in
Paid(cs)  == IF cs.denom = "min" THEN cs.fee ELSE 0
Needs(cs) == Required(cs.cfg.price, cs.gas)
Admit(cs) == Bypass(cs) \/ Paid(cs) >= Needs(cs)

(***************************************************************************)
(* Where the rule is observable.  The fee rule is one stage of check-tx.   *)
(* A transaction may be refused for unrelated reasons first (no messages,  *)
(* gas limit too small to pay for its own signature check, gas limit above *)
(* the block limit): then the fee rule says nothing about it.  The rule    *)
(* itself (the fee checker the application installs) is consulted by the   *)
(* SDK only for 0 < gas <= MaxGasWanted.                                   *)
(***************************************************************************)
Reachable(cs) == cs.gas > 0 /\ cs.gas <= MaxGasWanted

RuleVerdict(cs) == IF ~Reachable(cs) THEN "unreachable" ELSE IF Admit(cs) THEN "admitted" ELSE "rejected"
\* complete check-tx: "other" = refused for a reason that is not the fee
CheckTxVerdicts(cs) == IF Admit(cs) THEN {"admitted", "other"} ELSE {"insufficient_fee", "other"}

(***************************************************************************)
(* The enumerated family                                                   *)
(***************************************************************************)
MsgLists == UNION {[1..n -> Types] : n \in 0..MaxLen}
GasVals  == {0, 1, Huge} \cup {k * A + d : k \in 1..(MaxLen + 1), d \in {-1, 0, 1}}
Cfgs     == [exempt : ExemptSets, allowance : Allowances, price : Prices]
FeeVals(price, gas) == LET r == Required(price, gas) IN {f \in {0, r - 1, r, r + 1} : f >= 0}
MkCase(cf, ms, g, f, d) == [cfg |-> cf, msgs |-> ms, gas |-> g, fee |-> f, denom |-> d]

Init == c = NoCase /\ out = NoOut
\* one step from the empty case to each case of the family (nested quantifiers: TLC enumerates them
\* without building the set of cases)
Next == /\ c = NoCase
        /\ \E cf \in Cfgs, ms \in MsgLists, g \in GasVals, d \in {"min", "other"} :
             \E f \in FeeVals(cf.price, g) :
               /\ c' = MkCase(cf, ms, g, f, d)
               /\ \E v \in CheckTxVerdicts(c') : out' = [rule |-> RuleVerdict(c'), checktx |-> v]
Spec == Init /\ [][Next]_vars

\* prints one line per case with the specified verdict (generation run, one worker)
CaseDump == IF c' # NoCase /\ out'.checktx # "other"
            THEN PrintT(<<"CASE", ToJson([case |-> c', admit |-> Admit(c'), bypass |-> Bypass(c'),
                                          required |-> Needs(c'), rule |-> out'.rule])>>)
            ELSE TRUE

(***************************************************************************)
(* C20 (fee part), stated from the property text over a case and an        *)
(* OBSERVED outcome `out` (in the model: the specified one; in FeeProp:    *)
(* the real one).                                                          *)
(***************************************************************************)
Below(cs) == Paid(cs) < Needs(cs)
Entitled(cs) == /\ Len(cs.msgs) > 0
                /\ \A i \in 1..Len(cs.msgs) : cs.cfg.exempt[cs.msgs[i]] = TRUE
                /\ cs.gas <= Len(cs.msgs) * cs.cfg.allowance

\* nothing enters the mempool below the minimum price unless entitled to skip it
C20_NoDodge ==
  c # NoCase => /\ (out.checktx = "admitted" /\ Below(c)) => Entitled(c)
                /\ (out.rule    = "admitted" /\ Below(c)) => Entitled(c)
\* the fee stage refuses exactly the transactions the rule refuses: an entitled or sufficiently
\* paying transaction is never refused FOR ITS FEE, and where the installed fee checker is
\* consulted its verdict is the specified one
C20_FeeRule ==
  c # NoCase => /\ out.checktx = "admitted"         => Admit(c)
                /\ out.checktx = "insufficient_fee" => ~Admit(c)
                /\ out.checktx \in {"admitted", "insufficient_fee", "other"}
                /\ Reachable(c)  => out.rule = (IF Admit(c) THEN "admitted" ELSE "rejected")
                /\ ~Reachable(c) => out.rule = "unreachable"
\* design sanity of the specification itself: paying more never hurts, exemption needs every message
C20_Sane ==
  c # NoCase => /\ Admit(c) => Admit([c EXCEPT !.fee = c.fee + 1])
                /\ (Bypass(c) /\ c.cfg.allowance = 0) => c.gas = 0
                /\ (\E i \in 1..Len(c.msgs) : c.msgs[i] = T3) => ~Bypass(c)
=============================================================================
