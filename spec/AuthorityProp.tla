--------------------------- MODULE AuthorityProp ---------------------------
(***************************************************************************)
(* Evaluates the C16 formulas of Authority.tla on behaviours RECORDED FROM  *)
(* THE REAL message router (each step installs the projected real state).   *)
(***************************************************************************)
EXTENDS AuthorityMC
CONSTANT TraceFile
VARIABLE l
Trace == ndJsonDeserialize(TraceFile)

Install(st) == applied' = st.applied /\ cleared' = st.cleared /\ dirty' = st.dirty

PInit == Init /\ l = 1
PNext == /\ l <= Len(Trace) /\ l' = l + 1
         /\ Install(Trace[l].st) /\ op' = Trace[l].op
PSpec == PInit /\ [][PNext]_<<vars, l>>

R(A) == op'.name = "Reset" \/ A
P_C16_OnlyGov                == [][R(A_C16_OnlyGov)]_<<vars, l>>
P_C16_OtherAuthorityRejected == [][R(A_C16_OtherAuthorityRejected)]_<<vars, l>>
P_C16_StoreCompareAndSet     == [][R(A_C16_StoreCompareAndSet)]_<<vars, l>>
P_C16_OnlyNamedKind          == [][R(A_C16_OnlyNamedKind)]_<<vars, l>>

Consumed == TLCGet("stats").diameter - 1 = Len(Trace)
=============================================================================
