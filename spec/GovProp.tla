------------------------------ MODULE GovProp ------------------------------
(***************************************************************************)
(* Evaluates the C15 formulas of Gov.tla on behaviours RECORDED FROM THE    *)
(* REAL gov module: each step installs the projected real state and the    *)
(* operation that produced it.  "Reset" lines start a new behaviour.        *)
(***************************************************************************)
EXTENDS GovMC
CONSTANT TraceFile
VARIABLE l
Trace == ndJsonDeserialize(TraceFile)

Install(st) ==
  /\ nid' = st.nid /\ ptype' = st.ptype /\ phase' = st.phase /\ ex' = st.ex /\ dep' = st.dep /\ tot' = st.tot
  /\ timer' = st.timer /\ per' = st.per /\ votes' = st.votes /\ custom' = st.custom /\ gov' = st.gov
  /\ bal' = st.bal /\ burned' = st.burned /\ pool' = st.pool /\ eff' = st.eff

PInit == Init /\ l = 1
PNext == /\ l <= Len(Trace) /\ l' = l + 1
         /\ Install(Trace[l].st) /\ op' = Trace[l].op
PSpec == PInit /\ [][PNext]_<<vars, l>>

R(A) == op'.name = "Reset" \/ A
P_C15_DepositSettledOnce       == [][R(A_C15_DepositSettledOnce)]_<<vars, l>>
P_C15_VotingOnlyWithMinDeposit == [][R(A_C15_VotingOnlyWithMinDeposit)]_<<vars, l>>
P_C15_PeriodAndQuorumByType    == [][R(A_C15_PeriodAndQuorumByType)]_<<vars, l>>
P_C15_MixedRefused             == [][R(A_C15_MixedRefused)]_<<vars, l>>

Consumed == TLCGet("stats").diameter - 1 = Len(Trace)
=============================================================================
