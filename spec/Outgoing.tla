------------------------------ MODULE Outgoing ------------------------------
(***************************************************************************)
(* Outgoing side of ONE bridge module for ONE token, together with an      *)
(* explicit model of the EXTERNAL chain (FxBridgeLogic.sol: a batch or     *)
(* bridge call runs only while block.number < timeout, batch nonces        *)
(* strictly increase per token, a bridge-call nonce runs at most once) and *)
(* of in-order event observation with parked claims.                       *)
(*                                                                         *)
(* Code: x/crosschain/keeper outgoing_pool.go, batch.go, batch_fee.go,     *)
(* bridge_call_out.go, bridge_call_refund.go, timeout_height.go, abci.go   *)
(* (cleanupTimedOutBatches / cleanupTimeOutBridgeCall), attestation.go     *)
(* (TryAttestation order: mark observed, run handler, cleanup),            *)
(* attestation_handler.go (parked claims + ExecuteClaim).                  *)
(*                                                                         *)
(* Properties: C04 (solvency), C05 (one place, settled once), C06          *)
(* (released only when the external chain can no longer run it).           *)
(***************************************************************************)
EXTENDS Integers, Sequences, FiniteSets, TLC, Json

CONSTANTS User,        \* set of strings
          MaxTx, MaxBatch, MaxCall, MaxDep, MaxFx, MaxExt, MaxEv,   \* bounds (action constraints)
          Amt, Fee,    \* amounts / fees users may choose
          BaseFees, MinFees,  \* arguments relayers may choose for RequestBatch
          InitBal,     \* initial holding of every user
          KB, KC,      \* batch / bridge-call timeout in external blocks (params)
          Entries,     \* entry points for send/cancel: subset of {"msg", "evm"} (Cosmos message / precompile in an EVM transaction)
          DepKinds,    \* kinds of inbound value: "dep" = SendToFx deposit, "depc" = inbound bridge call carrying tokens to an account
          FeeOps       \* whether increase-fee operations are in the alphabet (the entry point is dead for non-FX pairs on this tree)

VARIABLES bal,      \* [User -> Nat] holdings of the token on fxcore (all representations)
          tx,       \* [1..MaxTx+1 -> [st, u, amt, fee, b]]  st: "none" | "pool" | "batch" | "gone"
          bt,       \* [1..MaxBatch+1 -> [st, timeout, block]] st: "none" | "open" | "gone"
          cl,       \* [1..MaxCall+1 -> [st, u, amt, timeout]]  st: "none" | "open" | "gone"
          ntx, nbt, ncl,      \* id counters (last issued)
          fxH, obsExt, obsFx, \* fxcore height; last observed (external height, fxcore height)
          lastObs,            \* last observed event nonce
          parked,             \* [1..MaxEv -> event record or Nil] claims parked for executeClaim
          \* ---------------- external chain (environment) ----------------
          extH,               \* current external height
          queue,              \* events emitted by the external chain, not yet observed (in nonce order)
          xbt,                \* [1..MaxBatch+1 -> "none" | "exec"]  batch executed externally
          xlast,              \* last executed batch nonce on the external chain
          xcl,                \* [1..MaxCall+1 -> "none" | "succ" | "fail"] bridge call run externally
          cobs,               \* [1..MaxCall+1 -> "none" | "succ" | "fail"] result observed on fxcore
          ndep,               \* deposits made
          \* ---------------- ledgers of the environment ----------------
          obsDep, obsOut,     \* value of deposits observed / withdrawals observed as executed
          extIn, extOut,      \* value locked / released on the external chain
          op

svars == <<bal, tx, bt, cl, ntx, nbt, ncl, fxH, obsExt, obsFx, lastObs, parked,
           extH, queue, xbt, xlast, xcl, cobs, ndep, obsDep, obsOut, extIn, extOut>>
vars == <<svars, op>>

None == "none"
TxIds == 1..(MaxTx + 1)
BtIds == 1..(MaxBatch + 1)
ClIds == 1..(MaxCall + 1)
EvIds == 1..MaxEv
NilEv == [t |-> None, h |-> 0, a |-> 0, u |-> None, amt |-> 0, ok |-> FALSE]

Abs == [bal |-> bal, tx |-> tx, bt |-> bt, cl |-> cl, ntx |-> ntx, nbt |-> nbt, ncl |-> ncl,
        fxH |-> fxH, obsExt |-> obsExt, obsFx |-> obsFx, lastObs |-> lastObs,
        parked |-> parked, extH |-> extH, queue |-> queue, xbt |-> xbt, xlast |-> xlast, xcl |-> xcl,
        cobs |-> cobs, ndep |-> ndep, obsDep |-> obsDep, obsOut |-> obsOut, extIn |-> extIn, extOut |-> extOut]

RECURSIVE SumSet(_, _)
SumSet(S, f) == IF S = {} THEN 0 ELSE LET x == CHOOSE y \in S : TRUE IN f[x] + SumSet(S \ {x}, f)

Op(name, u, id, a, f, e, res) == [name |-> name, u |-> u, id |-> id, a |-> a, f |-> f, e |-> e, res |-> res]

NoTx == [st |-> None, u |-> None, amt |-> 0, fee |-> 0, b |-> 0]
NoBt == [st |-> None, timeout |-> 0, block |-> 0]
NoCl == [st |-> None, u |-> None, r |-> None, amt |-> 0, timeout |-> 0]

Init ==
  /\ bal = [u \in User |-> InitBal]
  /\ tx = [i \in TxIds |-> NoTx] /\ bt = [i \in BtIds |-> NoBt] /\ cl = [i \in ClIds |-> NoCl]
  /\ ntx = 0 /\ nbt = 0 /\ ncl = 0
  /\ fxH = 0 /\ obsExt = 0 /\ obsFx = 0
  /\ lastObs = 0 /\ parked = [n \in EvIds |-> NilEv]
  /\ extH = 10 /\ queue = <<>> /\ xbt = [i \in BtIds |-> None] /\ xlast = 0
  /\ xcl = [i \in ClIds |-> None] /\ cobs = [i \in ClIds |-> None] /\ ndep = 0
  /\ obsDep = 0 /\ obsOut = 0 /\ extIn = 0 /\ extOut = 0
  /\ op = Op("Init", None, 0, 0, 0, None, "ok")

Rej(o) == op' = [o EXCEPT !.res = "rej"] /\ UNCHANGED svars

TxOf(b) == {i \in TxIds : tx[i].st = "batch" /\ tx[i].b = b}
BatchFees(b) == SumSet(TxOf(b), [i \in TxIds |-> tx[i].fee])
BatchValue(b) == SumSet(TxOf(b), [i \in TxIds |-> tx[i].amt + tx[i].fee])
Timeout(k) == obsExt + (fxH - obsFx) + k     \* CalExternalTimeoutHeight with equal average block times

---------------------------------------------------------------------------
(* fxcore user operations *)

SendToExternal(u, a, f, e) ==
  LET this == Op("Send", u, 0, a, f, e, "ok")
  IN IF bal[u] < a + f THEN Rej(this) ELSE
     /\ bal' = [bal EXCEPT ![u] = @ - (a + f)]
     /\ ntx' = ntx + 1
     /\ tx' = [tx EXCEPT ![ntx + 1] = [st |-> "pool", u |-> u, amt |-> a, fee |-> f, b |-> 0]]
     /\ op' = this
     /\ UNCHANGED <<bt, cl, nbt, ncl, fxH, obsExt, obsFx, lastObs, parked, extH, queue, xbt, xlast, xcl, cobs, ndep, obsDep, obsOut, extIn, extOut>>

Cancel(u, i, e) ==
  LET this == Op("Cancel", u, i, 0, 0, e, "ok")
  IN IF ~(tx[i].st = "pool" /\ tx[i].u = u) THEN Rej(this) ELSE
     /\ bal' = [bal EXCEPT ![u] = @ + tx[i].amt + tx[i].fee]
     /\ tx' = [tx EXCEPT ![i] = [NoTx EXCEPT !.st = "gone"]]
     /\ op' = this
     /\ UNCHANGED <<bt, cl, ntx, nbt, ncl, fxH, obsExt, obsFx, lastObs, parked, extH, queue, xbt, xlast, xcl, cobs, ndep, obsDep, obsOut, extIn, extOut>>

\* anybody may add to the fee of a pooled transfer; it costs the payer exactly the added fee
IncreaseFee(u, i, f) ==
  LET this == Op("IncreaseFee", u, i, 0, f, None, "ok")
  IN IF ~(tx[i].st = "pool" /\ bal[u] >= f) THEN Rej(this) ELSE
     /\ bal' = [bal EXCEPT ![u] = @ - f]
     /\ tx' = [tx EXCEPT ![i].fee = @ + f]
     /\ op' = this
     /\ UNCHANGED <<bt, cl, ntx, nbt, ncl, fxH, obsExt, obsFx, lastObs, parked, extH, queue, xbt, xlast, xcl, cobs, ndep, obsDep, obsOut, extIn, extOut>>

\* the added fee must be paid in the transfer's own token: paying with ANOTHER bridged token of the same
\* chain is refused and changes nothing
IncreaseFeeOther(u, i, f) == Rej(Op("IncreaseFee", u, i, 0, f, "other", "ok"))

\* MsgRequestBatch by a bridger: all pooled transfers with fee >= baseFee
RequestBatch(base, minf) ==
  LET this == Op("RequestBatch", None, 0, base, minf, None, "ok")
      sel  == {i \in TxIds : tx[i].st = "pool" /\ tx[i].fee >= base}
      fees == SumSet(sel, [i \in TxIds |-> tx[i].fee])
      open == {b \in BtIds : bt[b].st = "open"}
      lastB == IF open = {} THEN 0 ELSE CHOOSE b \in open : \A c \in open : c <= b
      okk  == /\ obsExt > 0                                \* nothing can be batched before an external height is known
              /\ sel # {} /\ fees >= minf
              /\ (lastB # 0 => ~(BatchFees(lastB) > fees)) \* "new batch would not be more profitable"
              /\ \A b \in BtIds : bt[b].st = "open" => bt[b].block # fxH   \* one batch per block
  IN IF ~okk THEN Rej(this) ELSE
     /\ nbt' = nbt + 1
     /\ bt' = [bt EXCEPT ![nbt + 1] = [st |-> "open", timeout |-> Timeout(KB), block |-> fxH]]
     /\ tx' = [i \in TxIds |-> IF i \in sel THEN [tx[i] EXCEPT !.st = "batch", !.b = nbt + 1] ELSE tx[i]]
     /\ op' = this
     /\ UNCHANGED <<bal, cl, ntx, ncl, fxH, obsExt, obsFx, lastObs, parked, extH, queue, xbt, xlast, xcl, cobs, ndep, obsDep, obsOut, extIn, extOut>>

\* MsgBridgeCall by u with tokens and refund address r (op field e carries r)
BridgeCall(u, a, r) ==
  LET this == Op("BridgeCall", u, 0, a, 0, r, "ok")
  IN IF ~(obsExt > 0 /\ bal[u] >= a) THEN Rej(this) ELSE
     /\ bal' = [bal EXCEPT ![u] = @ - a]
     /\ ncl' = ncl + 1
     /\ cl' = [cl EXCEPT ![ncl + 1] = [st |-> "open", u |-> u, r |-> r, amt |-> a, timeout |-> Timeout(KC)]]
     /\ op' = this
     /\ UNCHANGED <<tx, bt, ntx, nbt, fxH, obsExt, obsFx, lastObs, parked, extH, queue, xbt, xlast, xcl, cobs, ndep, obsDep, obsOut, extIn, extOut>>

FxBlock ==
  /\ fxH' = fxH + 1 /\ op' = Op("FxBlock", None, 0, 0, 0, None, "ok")
  /\ UNCHANGED <<bal, tx, bt, cl, ntx, nbt, ncl, obsExt, obsFx, lastObs, parked, extH, queue, xbt, xlast, xcl, cobs, ndep, obsDep, obsOut, extIn, extOut>>

---------------------------------------------------------------------------
(* external chain *)
Emit(e) == queue' = Append(queue, e)

ExtBlock ==
  /\ extH' = extH + 1 /\ op' = Op("ExtBlock", None, 0, 0, 0, None, "ok")
  /\ UNCHANGED <<bal, tx, bt, cl, ntx, nbt, ncl, fxH, obsExt, obsFx, lastObs, parked, queue, xbt, xlast, xcl, cobs, ndep, obsDep, obsOut, extIn, extOut>>

IsDep(t) == t \in {"dep", "depc"}
ExtDeposit(u, a, k) ==
  /\ Emit([t |-> k, h |-> extH, a |-> 0, u |-> u, amt |-> a, ok |-> TRUE])
  /\ ndep' = ndep + 1 /\ extIn' = extIn + a
  /\ op' = Op("ExtDeposit", u, 0, a, 0, k, "ok")
  /\ UNCHANGED <<bal, tx, bt, cl, ntx, nbt, ncl, fxH, obsExt, obsFx, lastObs, parked, extH, xbt, xlast, xcl, cobs, obsDep, obsOut, extOut>>

\* the contract runs a batch that fxcore has created (the relayer holds its signatures), whose nonce
\* is above the last executed one, strictly before its timeout height.  The batch content is what
\* fxcore holds for it at this moment (it is immutable while the batch exists).
ExtExecBatch(b) ==
  LET this == Op("ExtExecBatch", None, b, 0, 0, None, "ok")
      okk  == bt[b].st = "open" /\ xbt[b] = None /\ b > xlast /\ extH < bt[b].timeout
  IN IF ~okk THEN Rej(this) ELSE
     /\ xbt' = [xbt EXCEPT ![b] = "exec"] /\ xlast' = b
     /\ extOut' = extOut + BatchValue(b)
     /\ Emit([t |-> "batch", h |-> extH, a |-> b, u |-> None, amt |-> BatchValue(b), ok |-> TRUE])
     /\ op' = this
     /\ UNCHANGED <<bal, tx, bt, cl, ntx, nbt, ncl, fxH, obsExt, obsFx, lastObs, parked, extH, xcl, cobs, ndep, obsDep, obsOut, extIn>>

ExtExecCall(c, good) ==
  LET this == Op("ExtExecCall", None, c, IF good THEN 1 ELSE 0, 0, None, "ok")
      okk  == cl[c].st = "open" /\ xcl[c] = None /\ extH < cl[c].timeout
  IN IF ~okk THEN Rej(this) ELSE
     /\ xcl' = [xcl EXCEPT ![c] = IF good THEN "succ" ELSE "fail"]
     /\ extOut' = extOut + (IF good THEN cl[c].amt ELSE 0)
     /\ Emit([t |-> "call", h |-> extH, a |-> c, u |-> None, amt |-> cl[c].amt, ok |-> good])
     /\ op' = this
     /\ UNCHANGED <<bal, tx, bt, cl, ntx, nbt, ncl, fxH, obsExt, obsFx, lastObs, parked, extH, xbt, xlast, cobs, ndep, obsDep, obsOut, extIn>>

---------------------------------------------------------------------------
(* observation of the next external event by the oracle quorum (in nonce order):                 *)
(*  1. last observed nonce / heights updated                                                      *)
(*  2. handler: deposit and bridge-call result are PARKED; an executed batch settles its         *)
(*     transfers, cancels every older open batch (their transfers return to the pool), is deleted *)
(*  3. batches whose timeout < observed external height are cancelled (transfers back to pool)    *)
(*  4. bridge calls in nonce order with timeout <= observed height are refunded, stopping at the  *)
(*     first one that has not timed out; a call whose result has been observed (parked) is NOT    *)
(*     refunded by timeout: the external chain has already run it.                                *)
CallsTimedOut(h) ==
  LET open == {c \in ClIds : cl[c].st = "open"}
      \* stops at the first open call (in nonce order) that has not timed out
      Blocked(c) == \E d \in open : d < c /\ cl[d].timeout > h
  IN {c \in open : cl[c].timeout <= h /\ ~Blocked(c) /\ cobs[c] = None}

Observe ==
  LET this == Op("Observe", None, 0, 0, 0, None, "ok")
  IN IF queue = <<>> \/ lastObs >= MaxEv THEN Rej(this) ELSE
     LET e == Head(queue)
         n == lastObs + 1
         h == e.h
         \* step 2
         execB == IF e.t = "batch" THEN e.a ELSE 0
         older == {b \in BtIds : execB # 0 /\ bt[b].st = "open" /\ b < execB}
         \* step 3 (on the batches that are still open after step 2)
         timedB == {b \in BtIds : bt[b].st = "open" /\ b # execB /\ b \notin older /\ bt[b].timeout < h}
         backToPool == older \cup timedB
         timedC == CallsTimedOut(h)
         refund(u) == SumSet({c \in timedC : cl[c].r = u}, [c \in ClIds |-> cl[c].amt])
     IN /\ queue' = Tail(queue) /\ lastObs' = n /\ obsExt' = h /\ obsFx' = fxH
        /\ parked' = [parked EXCEPT ![n] = IF IsDep(e.t) \/ e.t = "call" THEN e ELSE NilEv]
        /\ cobs' = [c \in ClIds |-> IF e.t = "call" /\ e.a = c THEN (IF e.ok THEN "succ" ELSE "fail") ELSE cobs[c]]
        /\ obsDep' = obsDep + (IF IsDep(e.t) THEN e.amt ELSE 0)
        /\ obsOut' = obsOut + (IF e.t = "batch" THEN e.amt ELSE IF e.t = "call" /\ e.ok THEN e.amt ELSE 0)
        /\ tx' = [i \in TxIds |->
                    IF tx[i].st = "batch" /\ tx[i].b = execB THEN [NoTx EXCEPT !.st = "gone"]
                    ELSE IF tx[i].st = "batch" /\ tx[i].b \in backToPool THEN [tx[i] EXCEPT !.st = "pool", !.b = 0]
                    ELSE tx[i]]
        /\ bt' = [b \in BtIds |-> IF b = execB \/ b \in backToPool THEN [NoBt EXCEPT !.st = "gone"] ELSE bt[b]]
        /\ cl' = [c \in ClIds |-> IF c \in timedC THEN [NoCl EXCEPT !.st = "gone"] ELSE cl[c]]
        /\ bal' = [u \in User |-> bal[u] + refund(u)]
        /\ op' = this
        /\ UNCHANGED <<ntx, nbt, ncl, fxH, extH, xbt, xlast, xcl, ndep, extIn, extOut>>

\* executeClaim(n) by anybody
ExecuteClaim(n) ==
  LET this == Op("ExecuteClaim", None, n, 0, 0, None, "ok")
      e == parked[n]
  IN IF e.t = None THEN Rej(this)
     ELSE IF IsDep(e.t) THEN
       /\ bal' = [bal EXCEPT ![e.u] = @ + e.amt]
       /\ parked' = [parked EXCEPT ![n] = NilEv]
       /\ op' = this
       /\ UNCHANGED <<tx, bt, cl, ntx, nbt, ncl, fxH, obsExt, obsFx, lastObs, extH, queue, xbt, xlast, xcl, cobs, ndep, obsDep, obsOut, extIn, extOut>>
     ELSE \* bridge call result: refund on failure, delete the record
       IF cl[e.a].st # "open" THEN Rej(this) ELSE
       /\ bal' = [bal EXCEPT ![cl[e.a].r] = @ + (IF e.ok THEN 0 ELSE cl[e.a].amt)]
       /\ cl' = [cl EXCEPT ![e.a] = [NoCl EXCEPT !.st = "gone"]]
       /\ parked' = [parked EXCEPT ![n] = NilEv]
       /\ op' = this
       /\ UNCHANGED <<tx, bt, ntx, nbt, ncl, fxH, obsExt, obsFx, lastObs, extH, queue, xbt, xlast, xcl, cobs, ndep, obsDep, obsOut, extIn, extOut>>

Probe == op' = Op("Probe", None, 0, 0, 0, None, "ok") /\ UNCHANGED svars

Next ==
  \/ \E u \in User, a \in Amt, f \in Fee, e \in Entries : SendToExternal(u, a, f, e)
  \/ \E u \in User, i \in 1..MaxTx, e \in Entries : Cancel(u, i, e)
  \/ (FeeOps /\ \E u \in User, i \in 1..MaxTx : IncreaseFee(u, i, 1) \/ IncreaseFeeOther(u, i, 1))
  \/ \E b \in BaseFees, m \in MinFees : RequestBatch(b, m)
  \/ \E u \in User, a \in Amt, r \in User : BridgeCall(u, a, r)
  \/ FxBlock \/ ExtBlock
  \/ \E u \in User, k \in DepKinds : ExtDeposit(u, 1, k)
  \/ \E b \in 1..MaxBatch : ExtExecBatch(b)
  \/ \E c \in 1..MaxCall, g \in BOOLEAN : ExtExecCall(c, g)
  \/ Observe
  \/ \E n \in EvIds : ExecuteClaim(n)
  \/ Probe

Spec == Init /\ [][Next]_vars

Do(e) ==
  CASE e.name = "Send"         -> SendToExternal(e.u, e.a, e.f, e.e)
    [] e.name = "Cancel"       -> Cancel(e.u, e.id, e.e)
    [] e.name = "IncreaseFee"  -> IF e.e = "other" THEN IncreaseFeeOther(e.u, e.id, e.f) ELSE IncreaseFee(e.u, e.id, e.f)
    [] e.name = "RequestBatch" -> RequestBatch(e.a, e.f)
    [] e.name = "BridgeCall"   -> BridgeCall(e.u, e.a, e.e)
    [] e.name = "FxBlock"      -> FxBlock
    [] e.name = "ExtBlock"     -> ExtBlock
    [] e.name = "ExtDeposit"   -> ExtDeposit(e.u, e.a, e.e)
    [] e.name = "ExtExecBatch" -> ExtExecBatch(e.id)
    [] e.name = "ExtExecCall"  -> ExtExecCall(e.id, e.a = 1)
    [] e.name = "Observe"      -> Observe
    [] e.name = "ExecuteClaim" -> ExecuteClaim(e.id)
    [] OTHER -> FALSE

---------------------------------------------------------------------------
(* PROPERTIES (stated over state variables and op only; evaluated by TLC on the model and on     *)
(* behaviours recorded from the real code)                                                        *)

Present(i) == tx[i].st \in {"pool", "batch"}
InFlightTx == SumSet({i \in TxIds : Present(i)}, [i \in TxIds |-> tx[i].amt + tx[i].fee])
\* an open call whose SUCCESS has been observed is no longer "in an outgoing bridge call": it is out
InFlightCl == SumSet({c \in ClIds : cl[c].st = "open" /\ cobs[c] # "succ"}, [c \in ClIds |-> cl[c].amt])
ParkedDep == SumSet({n \in EvIds : IsDep(parked[n].t)}, [n \in EvIds |-> parked[n].amt])
Holdings == SumSet(User, bal)

\* ---- C04
C04_Conservation == Holdings + InFlightTx + InFlightCl + ParkedDep = InitBal * Cardinality(User) + obsDep - obsOut
C04_NonNegative == \A u \in User : bal[u] >= 0
\* an operation changes only the balance of the account it names, by what it names
A_C04_NoThirdParty ==
  \A u \in User : bal'[u] # bal[u] =>
     \/ op'.name \in {"Send", "Cancel", "IncreaseFee", "BridgeCall"} /\ op'.u = u
     \/ op'.name = "Observe"        \* timeout refunds to the creators (checked by C05/C06 formulas)
     \/ op'.name = "ExecuteClaim"   \* deposit credit / failed-call refund
C04_NoThirdParty == [][A_C04_NoThirdParty]_vars
\* a holder's request to send any amount up to their balance is never refused
A_C04_Withdrawable ==
  (op'.name = "Send" /\ bal[op'.u] >= op'.a + op'.f) => op'.res = "ok"
C04_Withdrawable == [][A_C04_Withdrawable]_vars

\* ---- C05
C05_IdsFresh == /\ \A i \in TxIds : (tx[i].st # None) <=> i <= ntx
                /\ \A b \in BtIds : (bt[b].st # None) <=> b <= nbt
                /\ \A c \in ClIds : (cl[c].st # None) <=> c <= ncl
C05_StatesLegal == /\ \A i \in TxIds : tx[i].st \in {None, "pool", "batch", "gone"}
                   /\ \A b \in BtIds : bt[b].st \in {None, "open", "gone"}
                   /\ \A c \in ClIds : cl[c].st \in {None, "open", "gone"}
C05_OnePlace == \A i \in TxIds : tx[i].st = "batch" => (tx[i].b \in BtIds /\ bt[tx[i].b].st = "open")
C05_NoEmptyBatch == \A b \in BtIds : bt[b].st = "open" => TxOf(b) # {}
A_C05_CountersMonotone == ntx' >= ntx /\ nbt' >= nbt /\ ncl' >= ncl
C05_CountersMonotone == [][A_C05_CountersMonotone]_vars
\* settled is final: a transfer / call that is gone never comes back
A_C05_SettledOnce ==
  /\ \A i \in TxIds : tx[i].st = "gone" => tx'[i].st = "gone"
  /\ \A c \in ClIds : cl[c].st = "gone" => cl'[c].st = "gone"
  /\ \A b \in BtIds : bt[b].st = "gone" => bt'[b].st = "gone"
C05_SettledOnce == [][A_C05_SettledOnce]_vars
\* while it exists a transfer carries what its creator supplied; only IncreaseFee changes the fee
A_C05_QueuedAsSupplied ==
  /\ \A i \in TxIds : (Present(i) /\ tx'[i].st \in {"pool", "batch"}) =>
        /\ tx'[i].u = tx[i].u /\ tx'[i].amt = tx[i].amt
        /\ (tx'[i].fee # tx[i].fee => op'.name = "IncreaseFee" /\ op'.id = i /\ tx'[i].fee = tx[i].fee + op'.f)
  /\ \A c \in ClIds : (cl[c].st = "open" /\ cl'[c].st = "open") => cl'[c] = cl[c]
  /\ \A b \in BtIds : (bt[b].st = "open" /\ bt'[b].st = "open") => (bt'[b] = bt[b] /\ {i \in TxIds : tx'[i].st = "batch" /\ tx'[i].b = b} = TxOf(b))
C05_QueuedAsSupplied == [][A_C05_QueuedAsSupplied]_vars
\* cancel: only the creator, refund exactly amount + fee, nothing else moves
A_C05_CancelExact ==
  (op'.name = "Cancel" /\ op'.res = "ok") =>
     /\ tx[op'.id].st = "pool" /\ tx[op'.id].u = op'.u /\ tx'[op'.id].st = "gone"
     /\ bal' = [bal EXCEPT ![op'.u] = @ + tx[op'.id].amt + tx[op'.id].fee]
     /\ \A j \in TxIds \ {op'.id} : tx'[j] = tx[j]
C05_CancelExact == [][A_C05_CancelExact]_vars
\* a transfer disappears from the pool only by Cancel; from a batch only by an observed execution
A_C05_LeavesOnlyBySettlement ==
  \A i \in TxIds : (Present(i) /\ tx'[i].st = "gone") =>
     \/ op'.name = "Cancel" /\ op'.id = i /\ tx[i].st = "pool"
     \/ op'.name = "Observe" /\ tx[i].st = "batch" /\ Len(queue) > 0 /\ Head(queue).t = "batch" /\ Head(queue).a = tx[i].b
C05_LeavesOnlyBySettlement == [][A_C05_LeavesOnlyBySettlement]_vars
A_C05_FeeIncreaseExact ==
  (op'.name = "IncreaseFee" /\ op'.res = "ok") =>
     /\ op'.e # "other"     \* paid in the transfer's own token
     /\ bal' = [bal EXCEPT ![op'.u] = @ - op'.f] /\ tx' = [tx EXCEPT ![op'.id].fee = @ + op'.f]
C05_FeeIncreaseExact == [][A_C05_FeeIncreaseExact]_vars
\* a cancelled batch returns its transfers to the pool unchanged
A_C05_CancelBatchRestores ==
  \A b \in BtIds : (bt[b].st = "open" /\ bt'[b].st = "gone" /\ ~(Len(queue) > 0 /\ Head(queue).t = "batch" /\ Head(queue).a = b)) =>
     \A i \in TxOf(b) : tx'[i] = [tx[i] EXCEPT !.st = "pool", !.b = 0]
C05_CancelBatchRestores == [][A_C05_CancelBatchRestores]_vars
\* a bridge call is settled by its executed result or by a refund of exactly its amount to its creator
A_C05_CallSettlement ==
  \A c \in ClIds : (cl[c].st = "open" /\ cl'[c].st = "gone") =>
     \/ /\ op'.name = "ExecuteClaim" /\ parked[op'.id].t = "call" /\ parked[op'.id].a = c
        /\ bal' = [bal EXCEPT ![cl[c].r] = @ + (IF parked[op'.id].ok THEN 0 ELSE cl[c].amt)]   \* a failed call is refunded to its refund address
     \/ op'.name = "Observe"    \* timeout refund: exactness by C04_Conservation, legitimacy by C06
C05_CallSettlement == [][A_C05_CallSettlement]_vars
\* a timeout refund credits exactly the refund addresses of the calls that left, with exactly their amounts
A_C05_TimeoutRefundExact ==
  (op'.name = "Observe" /\ op'.res = "ok") =>
     LET left == {c \in ClIds : cl[c].st = "open" /\ cl'[c].st = "gone"}
     IN \A u \in User : bal'[u] = bal[u] + SumSet({c \in left : cl[c].r = u}, [c \in ClIds |-> cl[c].amt])
C05_TimeoutRefundExact == [][A_C05_TimeoutRefundExact]_vars
\* once its execution has been observed, a bridge call can no longer be refunded: it leaves only through
\* the execution of its parked result claim, and the creator is paid nothing for a successful one
A_C05_NoRefundAfterObservedExecution ==
  \A c \in ClIds : (cl[c].st = "open" /\ cobs[c] = "succ" /\ cl'[c].st = "gone") =>
     /\ op'.name = "ExecuteClaim" /\ parked[op'.id].t = "call" /\ parked[op'.id].a = c
     /\ bal'[cl[c].u] = bal[cl[c].u] /\ bal'[cl[c].r] = bal[cl[c].r]
C05_NoRefundAfterObservedExecution == [][A_C05_NoRefundAfterObservedExecution]_vars

\* ---- C06
\* a batch / call is released for timeout only in an Observe step whose event proves the height
A_C06_TimeoutOnlyWhenProven ==
  /\ \A b \in BtIds : (bt[b].st = "open" /\ bt'[b].st = "gone") =>
        /\ op'.name = "Observe" /\ Len(queue) > 0
        /\ \/ Head(queue).t = "batch" /\ Head(queue).a >= b      \* executed, or superseded by a later executed batch
           \/ Head(queue).h > bt[b].timeout                       \* external height proven beyond the timeout
  /\ \A c \in ClIds : (cl[c].st = "open" /\ cl'[c].st = "gone") =>
        \/ op'.name = "ExecuteClaim" /\ parked[op'.id].t = "call" /\ parked[op'.id].a = c
        \/ op'.name = "Observe" /\ Len(queue) > 0 /\ Head(queue).h >= cl[c].timeout
C06_TimeoutOnlyWhenProven == [][A_C06_TimeoutOnlyWhenProven]_vars
A_C06_NothingBeforeObservation ==
  (nbt' > nbt \/ ncl' > ncl) => obsExt > 0
C06_NothingBeforeObservation == [][A_C06_NothingBeforeObservation]_vars
\* timeouts are in the future of the last observed height
C06_TimeoutAfterObserved == /\ \A b \in BtIds : bt[b].st = "open" => bt[b].timeout > 0
                            /\ \A c \in ClIds : cl[c].st = "open" => cl[c].timeout > 0
\* cross-chain: value on fxcore + value locked outside is conserved; what the external chain has
\* released (extOut) is never also refunded on fxcore.  pendingSettle = records already run
\* externally but not yet settled on fxcore; inbound = deposits not yet credited.
PendingSettle == SumSet({b \in BtIds : xbt[b] = "exec" /\ bt[b].st = "open"}, [b \in BtIds |-> BatchValue(b)])
               + SumSet({c \in ClIds : xcl[c] = "succ" /\ cl[c].st = "open"}, [c \in ClIds |-> cl[c].amt])
AllCalls == SumSet({c \in ClIds : cl[c].st = "open"}, [c \in ClIds |-> cl[c].amt])
Inbound == SumSet({k \in 1..Len(queue) : IsDep(queue[k].t)}, [k \in 1..Len(queue) |-> queue[k].amt]) + ParkedDep
C06_NeverBoth == Holdings + InFlightTx + AllCalls - PendingSettle + Inbound = InitBal * Cardinality(User) + extIn - extOut

---------------------------------------------------------------------------
View == svars
Bounded == /\ ntx' <= MaxTx /\ nbt' <= MaxBatch /\ ncl' <= MaxCall /\ ndep' <= MaxDep
           /\ fxH' <= MaxFx /\ extH' <= 10 + MaxExt /\ lastObs' + Len(queue') <= MaxEv
           /\ \A i \in TxIds : tx'[i].fee <= 3
EdgeDump == /\ IF op.name = "Init" \/ op'.res = "ok"
               THEN PrintT(<<"EDGE", ToJson([from |-> Abs, op |-> op', to |-> Abs'])>>)
               ELSE TRUE
            /\ Bounded
\* alphabet only: print every operation attempted in the initial state, expand nothing (recorder runs)
AlphabetDump == PrintT(<<"EDGE", ToJson([from |-> Abs, op |-> op', to |-> Abs'])>>) /\ FALSE
=============================================================================
