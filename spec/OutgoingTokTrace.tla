-------------------------- MODULE OutgoingTokTrace --------------------------
(* Strict trace validation of OutgoingTok.tla (see AttestTrace.tla). *)
EXTENDS OutgoingTokMC
CONSTANT TraceFile
VARIABLE l
Trace == ndJsonDeserialize(TraceFile)

Install(st) ==
  /\ bal' = st.bal /\ tx' = st.tx /\ bt' = st.bt /\ ntx' = st.ntx /\ nbt' = st.nbt
  /\ fxH' = st.fxH /\ obsExt' = st.obsExt /\ obsFx' = st.obsFx /\ lastObs' = st.lastObs
  /\ extH' = st.extH /\ queue' = st.queue /\ xbt' = st.xbt /\ xlast' = st.xlast /\ obsOut' = st.obsOut

TInit == Init /\ l = 1
TNext == /\ l <= Len(Trace) /\ l' = l + 1
         /\ LET e == Trace[l] IN
            IF e.op.name = "Reset" THEN Install(e.st) /\ op' = e.op
            ELSE Do(e.op) /\ op'.res = e.op.res /\ Abs' = e.st
TSpec == TInit /\ [][TNext]_<<vars, l>>
Consumed == TLCGet("stats").diameter - 1 = Len(Trace)
=============================================================================
