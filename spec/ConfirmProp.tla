----------------------------- MODULE ConfirmProp -----------------------------
(***************************************************************************)
(* Evaluates the C12 formulas of Confirm.tla on behaviours RECORDED FROM   *)
(* THE REAL KEEPER: each step installs the projected real state and the    *)
(* operation (with the real result class) that produced it.  "Reset" lines *)
(* start a new behaviour.                                                  *)
(***************************************************************************)
EXTENDS ConfirmMC
CONSTANT TraceFile
VARIABLE l
Trace == ndJsonDeserialize(TraceFile)

Install(st) ==
  /\ stored' = st.stored /\ bridgerOf' = st.bridgerOf /\ bridgerIdx' = st.bridgerIdx /\ extOf' = st.extOf
  /\ confirms' = st.confirms /\ valid' = st.valid /\ stray' = st.stray
  /\ edits' = 0

PInit == Init /\ l = 1
PNext == /\ l <= Len(Trace) /\ l' = l + 1
         /\ Install(Trace[l].st) /\ op' = Trace[l].op
PSpec == PInit /\ [][PNext]_<<vars, l>>

R(A) == op'.name = "Reset" \/ A
P_C12_KeptOnce                   == [][R(A_C12_KeptOnce)]_<<vars, l>>
P_C12_OnlyBridgerOfThatOracle    == [][R(A_C12_OnlyBridgerOfThatOracle)]_<<vars, l>>
P_C12_BridgerReplacedOnlyByEdit  == [][R(A_C12_BridgerReplacedOnlyByEdit)]_<<vars, l>>
P_C12_NoCrossUse                 == [][R(A_C12_NoCrossUse)]_<<vars, l>>
P_C12_ConfirmTouchesOnlyConfirms == [][R(A_C12_ConfirmTouchesOnlyConfirms)]_<<vars, l>>

Consumed == TLCGet("stats").diameter - 1 = Len(Trace)
=============================================================================
