----------------------------- MODULE MigrateProp -----------------------------
(***************************************************************************)
(* Evaluates the C14 formulas of Migrate.tla on behaviours RECORDED FROM   *)
(* THE REAL KEEPERS: each step installs the projected real state and the   *)
(* operation that produced it (line l of the trace file).  Lines whose     *)
(* op.name = "Reset" start a new recorded behaviour.                        *)
(***************************************************************************)
EXTENDS MigrateMC
CONSTANT TraceFile
VARIABLE l
Trace == ndJsonDeserialize(TraceFile)

Install(st) ==
  /\ coins' = st.coins /\ rwd' = st.rwd /\ deleg' = st.deleg /\ pend' = st.pend
  /\ ubd' = st.ubd /\ red' = st.red
  /\ migTo' = st.migTo /\ migFrom' = st.migFrom /\ props' = st.props /\ now' = st.now
  /\ vtok' = st.vtok /\ bonded' = st.bonded /\ unbonding' = st.unbonding /\ govBal' = st.govBal
  /\ idxBad' = st.idxBad /\ qBad' = st.qBad /\ leftover' = st.leftover /\ inv' = st.inv
  /\ UNCHANGED <<nstake, npass, ngov, ntick, nbegin>>

PInit == Init /\ l = 1
PNext == /\ l <= Len(Trace) /\ l' = l + 1
         /\ Install(Trace[l].st) /\ op' = Trace[l].op
PSpec == PInit /\ [][PNext]_<<vars, l>>

R(A) == op'.name = "Reset" \/ A
P_C14_MovesEverything            == [][R(A_C14_MovesEverything)]_<<vars, l>>
P_C14_Once                       == [][R(A_C14_Once)]_<<vars, l>>
P_C14_NeedsTargetSignature       == [][R(A_C14_NeedsTargetSignature)]_<<vars, l>>
P_C14_NoOperatorNoStakedTarget   == [][R(A_C14_NoOperatorNoStakedTarget)]_<<vars, l>>
P_C14_RefusedWhileInOpenProposal == [][R(A_C14_RefusedWhileInOpenProposal)]_<<vars, l>>
P_C14_TargetActsAsSource         == [][R(A_C14_TargetActsAsSource)]_<<vars, l>>
P_C14_MaturedFundsArrive         == [][R(A_C14_MaturedFundsArrive)]_<<vars, l>>

Consumed == TLCGet("stats").diameter - 1 = Len(Trace)
=============================================================================
