-------------------------------- MODULE Multi --------------------------------
(***************************************************************************)
(* History generator for the determinism check (C17): operations that put  *)
(* SEVERAL entries at once through code that iterates over collections     *)
(* (governance oracle-list update dropping k oracles, a bridge call with k *)
(* different coins, a block end with many oracles: oracle-set creation and  *)
(* power-diff, a batch request over several pooled transfers).  It is not   *)
(* bound to a listed property by itself; Determinism.tla consumes the       *)
(* recordings of walks over its graph.                                      *)
(***************************************************************************)
EXTENDS Integers, Sequences, FiniteSets, TLC, Json
CONSTANTS N,          \* oracles bonded by BondAll (equal stake)
          Ks,         \* how many entries one operation handles at once
          MaxCalls, MaxBlocks, MaxSends
VARIABLES bonded, online, calls, sends, batches, blocks, op
svars == <<bonded, online, calls, sends, batches, blocks>>
vars == <<svars, op>>
Abs == [bonded |-> bonded, online |-> online, calls |-> calls, sends |-> sends, batches |-> batches, blocks |-> blocks]
Op(name, k, res) == [name |-> name, k |-> k, res |-> res]
Init == bonded = 0 /\ online = 0 /\ calls = 0 /\ sends = 0 /\ batches = 0 /\ blocks = 0 /\ op = Op("Init", 0, "ok")
Rej(o) == op' = [o EXCEPT !.res = "rej"] /\ UNCHANGED svars

BondAll == LET this == Op("BondAll", N, "ok") IN
  IF bonded # 0 THEN Rej(this) ELSE
  bonded' = N /\ online' = N /\ op' = this /\ UNCHANGED <<calls, sends, batches, blocks>>
\* MsgUpdateChainOracles dropping k online oracles at once (refused at >= 30% of the online power)
Drop(k) == LET this == Op("Drop", k, "ok") IN
  IF ~(online >= k + 1 /\ k * 100 < 30 * online) THEN Rej(this) ELSE
  online' = online - k /\ op' = this /\ UNCHANGED <<bonded, calls, sends, batches, blocks>>
\* MsgBridgeCall carrying k different coins
Call(k) == LET this == Op("Call", k, "ok") IN
  op' = this /\ calls' = calls + 1 /\ UNCHANGED <<bonded, online, sends, batches, blocks>>
\* k MsgSendToExternal of different senders and fees, then one MsgRequestBatch over them
SendMany(k) == LET this == Op("SendMany", k, "ok") IN
  op' = this /\ sends' = sends + k /\ UNCHANGED <<bonded, online, calls, batches, blocks>>
Batch == LET this == Op("Batch", 0, "ok") IN
  IF ~(sends > 0 /\ online > 0) THEN Rej(this) ELSE
  op' = this /\ sends' = 0 /\ batches' = batches + 1 /\ UNCHANGED <<bonded, online, calls, blocks>>
FxBlock == op' = Op("FxBlock", 0, "ok") /\ blocks' = blocks + 1 /\ UNCHANGED <<bonded, online, calls, sends, batches>>
Probe == op' = Op("Probe", 0, "ok") /\ UNCHANGED svars
Next == BondAll \/ (\E k \in Ks : Drop(k) \/ Call(k) \/ SendMany(k)) \/ Batch \/ FxBlock \/ Probe
Spec == Init /\ [][Next]_vars
View == svars
Bounded == calls' <= MaxCalls /\ blocks' <= MaxBlocks /\ sends' <= MaxSends /\ batches' <= 2
EdgeDump == /\ IF op.name = "Init" \/ op'.res = "ok"
               THEN PrintT(<<"EDGE", ToJson([from |-> Abs, op |-> op', to |-> Abs'])>>)
               ELSE TRUE
            /\ Bounded
=============================================================================
