-------------------------------- MODULE Multi --------------------------------
(***************************************************************************)
(* History generator for the determinism check (C17): operations that put  *)
(* SEVERAL entries at once through code that iterates over collections     *)
(* (governance oracle-list update dropping k oracles, a bridge call with k *)
(* different coins, a block end with many oracles: oracle-set creation and  *)
(* power-diff, a batch request over several pooled transfers), a parameter  *)
(* change that later operations of the same history depend on, and an       *)
(* inbound deposit forwarded over IBC (packet with a timeout).  It is not   *)
(* bound to a listed property by itself; Determinism.tla consumes the       *)
(* recordings of walks over its graph.                                      *)
(***************************************************************************)
EXTENDS Integers, Sequences, FiniteSets, TLC, Json
CONSTANTS N,          \* oracles bonded by BondAll (equal stake)
          Ks,         \* how many entries one operation handles at once
          MaxCalls, MaxBlocks, MaxSends, MaxIbc
VARIABLES bonded, online, calls, sends, batches, blocks,
          param,      \* the module's batch-timeout parameter, in units (1 = genesis value)
          ibc,        \* deposits forwarded over IBC
          op
svars == <<bonded, online, calls, sends, batches, blocks, param, ibc>>
vars == <<svars, op>>
Abs == [bonded |-> bonded, online |-> online, calls |-> calls, sends |-> sends, batches |-> batches, blocks |-> blocks, param |-> param, ibc |-> ibc]
Op(name, k, res) == [name |-> name, k |-> k, res |-> res]
Init == bonded = 0 /\ online = 0 /\ calls = 0 /\ sends = 0 /\ batches = 0 /\ blocks = 0 /\ param = 1 /\ ibc = 0 /\ op = Op("Init", 0, "ok")
Rej(o) == op' = [o EXCEPT !.res = "rej"] /\ UNCHANGED svars

BondAll == LET this == Op("BondAll", N, "ok") IN
  IF bonded # 0 THEN Rej(this) ELSE
  bonded' = N /\ online' = N /\ op' = this /\ UNCHANGED <<calls, sends, batches, blocks, param, ibc>>
\* MsgUpdateChainOracles dropping k online oracles at once (refused at >= 30% of the online power)
Drop(k) == LET this == Op("Drop", k, "ok") IN
  IF ~(online >= k + 1 /\ k * 100 < 30 * online) THEN Rej(this) ELSE
  online' = online - k /\ op' = this /\ UNCHANGED <<bonded, calls, sends, batches, blocks, param, ibc>>
\* MsgBridgeCall carrying k different coins
Call(k) == LET this == Op("Call", k, "ok") IN
  op' = this /\ calls' = calls + 1 /\ UNCHANGED <<bonded, online, sends, batches, blocks, param, ibc>>
\* k MsgSendToExternal of different senders and fees, then one MsgRequestBatch over them
SendMany(k) == LET this == Op("SendMany", k, "ok") IN
  op' = this /\ sends' = sends + k /\ UNCHANGED <<bonded, online, calls, batches, blocks, param, ibc>>
Batch == LET this == Op("Batch", 0, "ok") IN
  IF ~(sends > 0 /\ online > 0) THEN Rej(this) ELSE
  op' = this /\ sends' = 0 /\ batches' = batches + 1 /\ UNCHANGED <<bonded, online, calls, blocks, param, ibc>>
FxBlock == op' = Op("FxBlock", 0, "ok") /\ blocks' = blocks + 1 /\ UNCHANGED <<bonded, online, calls, sends, batches, param, ibc>>
\* MsgUpdateParams by the governance authority: the batch timeout becomes k units (later batches carry it)
SetParam(k) == LET this == Op("SetParam", k, "ok") IN
  IF param = k THEN Rej(this) ELSE
  op' = this /\ param' = k /\ UNCHANGED <<bonded, online, calls, sends, batches, blocks, ibc>>
\* a deposit observed by all online oracles whose target is an IBC channel: the module sends an IBC packet
DepositIbc == LET this == Op("DepositIbc", 0, "ok") IN
  IF online = 0 THEN Rej(this) ELSE
  op' = this /\ ibc' = ibc + 1 /\ UNCHANGED <<bonded, online, calls, sends, batches, blocks, param>>
Probe == op' = Op("Probe", 0, "ok") /\ UNCHANGED svars
Next == BondAll \/ (\E k \in Ks : Drop(k) \/ Call(k) \/ SendMany(k) \/ SetParam(k)) \/ Batch \/ FxBlock \/ DepositIbc \/ Probe
Spec == Init /\ [][Next]_vars
View == svars
Bounded == calls' <= MaxCalls /\ blocks' <= MaxBlocks /\ sends' <= MaxSends /\ batches' <= 2 /\ ibc' <= MaxIbc
EdgeDump == /\ IF op.name = "Init" \/ op'.res = "ok"
               THEN PrintT(<<"EDGE", ToJson([from |-> Abs, op |-> op', to |-> Abs'])>>)
               ELSE TRUE
            /\ Bounded
=============================================================================
