---------------------------- MODULE AuthorityMC ----------------------------
EXTENDS Authority
\* all constants are sets of strings / numbers filled in by bin/spec_authority.py from the real application
=============================================================================
