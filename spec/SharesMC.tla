------------------------------ MODULE SharesMC ------------------------------
EXTENDS Shares
\* delegations made (through delegateV2) while the world is built
Zero(d, v) == 0
InitNone == [d \in Delegator |-> [v \in Validator |-> 0]]
\* a holds 2 units at v1; b holds 1 unit at v1; nobody at v2
InitAB == [d \in Delegator |-> [v \in Validator |->
             CASE d = "a" /\ v = "v1" -> 2 [] d = "b" /\ v = "v1" -> 1 [] OTHER -> 0]]
\* a: 2@v1 ; b: 1@v1, 1@v2 ; c: none
InitABC == [d \in Delegator |-> [v \in Validator |->
             CASE d = "a" /\ v = "v1" -> 2 [] d = "b" /\ v = "v1" -> 1 [] d = "b" /\ v = "v2" -> 1 [] OTHER -> 0]]

FdenNone == [v \in Validator |-> 0]
FdenV1   == [v \in Validator |-> IF v = "v1" THEN 1 ELSE 0]   \* v1 slashed by 10% while the world is built

CapOf(del, und, red, wd, app, xfer, xfrom, tick, slash) ==
  [k \in Kinds |-> CASE k = "del" -> del [] k = "und" -> und [] k = "red" -> red [] k = "wd" -> wd
                     [] k = "app" -> app [] k = "xfer" -> xfer [] k = "xfrom" -> xfrom
                     [] k = "tick" -> tick [] k = "slash" -> slash]
CapDev      == CapOf(1, 1, 1, 1, 1, 1, 1, 1, 0)
CapQuick    == CapOf(1, 1, 1, 1, 1, 2, 1, 1, 1)
\* quick tier: (A) stake operations, transfers, rewards, slash; (B) allowances and transferFrom
CapQuickA   == CapOf(1, 1, 1, 1, 0, 2, 0, 1, 1)
CapQuickB   == CapOf(0, 0, 0, 1, 1, 1, 2, 1, 0)
\* family "tenth" (fractional shares): delegate after the 10% slash, transfer whole shares
CapFracQ    == CapOf(2, 0, 0, 1, 0, 2, 0, 1, 0)
CapFracT    == CapOf(2, 0, 0, 1, 1, 2, 1, 1, 0)
\* model checking only (no replay)
CapMC       == CapOf(1, 1, 1, 1, 1, 2, 1, 2, 1)
CapThoroughA == CapOf(1, 1, 1, 1, 0, 2, 0, 2, 1)
CapThoroughB == CapOf(0, 0, 0, 1, 2, 1, 2, 1, 0)
=============================================================================
