---------------------------- MODULE AbiCheckpoint ----------------------------
(***************************************************************************)
(* C12, part 2.  Solidity's abi.encode for the types FxBridgeLogic.sol     *)
(* uses in its three signed digests, defined from scratch as sequences of  *)
(* 32-byte WORDS, and the three digests' argument lists transcribed from   *)
(*                                                                         *)
(*   makeCheckpoint      keccak256(abi.encode(_fxBridgeId, methodName,     *)
(*                         _oracleSetNonce, _oracles, _powers))            *)
(*   submitBatch         keccak256(abi.encode(state_fxBridgeId,            *)
(*                         0x7472…("transactionBatch"), _amounts,          *)
(*                         _destinations, _fees, _nonceArray[1],           *)
(*                         _tokenContract, _batchTimeout, _feeReceive))    *)
(*   bridgeCallSigHash   keccak256(abi.encode(state_fxBridgeId,            *)
(*                         0x6272…("bridgeCall"), input.sender,            *)
(*                         input.refund, input.tokens, input.amounts,      *)
(*                         input.to, input.data, input.memo, nonce,        *)
(*                         input.timeout, input.eventNonce))               *)
(*                                                                         *)
(* (solidity/contracts/bridge/FxBridgeLogic.sol), NOT from go-ethereum's   *)
(* accounts/abi or gotron-sdk's abi package, which are what fx-core's      *)
(* GetCheckpoint functions use.                                            *)
(*                                                                         *)
(* ABI rules used (Solidity "Contract ABI Specification", strict mode):    *)
(*  - enc(X1..Xn) = head(X1) … head(Xn) tail(X1) … tail(Xn)                *)
(*  - static types (uint256, address, bytes32): head = the value in one    *)
(*    word (uint256 big-endian left-padded; address as uint160; bytes32    *)
(*    as is), tail = empty                                                 *)
(*  - dynamic types (T[], bytes): head = uint256 byte offset of the tail   *)
(*    from the start of the encoding, tail = enc of the value:             *)
(*      T[]   : length word, then the elements (static T: one word each)   *)
(*      bytes : length word, then the bytes right-padded to a multiple of  *)
(*              32                                                         *)
(*                                                                         *)
(* A word is a tagged record; the harness renders it to 32 bytes:          *)
(*   [t |-> "num",  v |-> "<decimal>"]  uint256, big-endian, left-padded   *)
(*   [t |-> "int",  v |-> n]            same, n computed here (offsets,    *)
(*                                      lengths)                           *)
(*   [t |-> "addr", v |-> tag]          12 zero bytes, then the 20 bytes   *)
(*   [t |-> "str",  v |-> s]            the characters of s, right-padded  *)
(*   [t |-> "hex",  v |-> h]            the 32 bytes written in hex        *)
(*   [t |-> "chunk", id, off, n]        bytes off..off+n-1 of byte string  *)
(*                                      `id`, right-padded with zeros      *)
(* Numbers that do not fit TLC's integers are decimal strings; addresses   *)
(* and byte strings are symbolic (tag / identifier and length).            *)
(***************************************************************************)
EXTENDS Integers, Sequences, FiniteSets, TLC, Json

---------------------------------------------------------------------------
(* values *)
U(v)      == [ty |-> "uint256",   v |-> v]
A(v)      == [ty |-> "address",   v |-> v]
B32Str(s) == [ty |-> "bytes32",   how |-> "str", v |-> s]
B32Hex(h) == [ty |-> "bytes32",   how |-> "hex", v |-> h]
UA(s)     == [ty |-> "uint256[]", v |-> s]
AA(s)     == [ty |-> "address[]", v |-> s]
Bytes(id, n) == [ty |-> "bytes",     id |-> id, len |-> n]

(* words *)
WNum(s)            == [t |-> "num",   v |-> s]
WInt(n)            == [t |-> "int",   v |-> n]
WAddr(a)           == [t |-> "addr",  v |-> a]
WStr(s)            == [t |-> "str",   v |-> s]
WHex(h)            == [t |-> "hex",   v |-> h]
WChunk(id, off, n) == [t |-> "chunk", id |-> id, off |-> off, n |-> n]

Dynamic(x) == x.ty \in {"uint256[]", "address[]", "bytes"}
Min(a, b)  == IF a < b THEN a ELSE b

(* enc of one value: the head word of a static value, the tail of a dynamic one *)
Enc(x) ==
  CASE x.ty = "uint256"   -> <<WNum(x.v)>>
    [] x.ty = "address"   -> <<WAddr(x.v)>>
    [] x.ty = "bytes32"   -> IF x.how = "hex" THEN <<WHex(x.v)>> ELSE <<WStr(x.v)>>
    [] x.ty = "uint256[]" -> <<WInt(Len(x.v))>> \o [i \in 1..Len(x.v) |-> WNum(x.v[i])]
    [] x.ty = "address[]" -> <<WInt(Len(x.v))>> \o [i \in 1..Len(x.v) |-> WAddr(x.v[i])]
    [] x.ty = "bytes"     -> <<WInt(x.len)>> \o
                             [i \in 1..((x.len + 31) \div 32) |-> WChunk(x.id, 32 * (i - 1), Min(32, x.len - 32 * (i - 1)))]

(* abi.encode(args[1], …, args[n]) *)
Encode(args) ==
  LET n       == Len(args)
      TailOf(i) == IF Dynamic(args[i]) THEN Enc(args[i]) ELSE <<>>
      RECURSIVE TailWordsBefore(_)
      TailWordsBefore(i) == IF i = 1 THEN 0 ELSE TailWordsBefore(i - 1) + Len(TailOf(i - 1))
      HeadOf(i) == IF Dynamic(args[i]) THEN <<WInt(32 * (n + TailWordsBefore(i)))>> ELSE Enc(args[i])
      RECURSIVE Heads(_), Tails(_)
      Heads(i) == IF i = 0 THEN <<>> ELSE Heads(i - 1) \o HeadOf(i)
      Tails(i) == IF i = 0 THEN <<>> ELSE Tails(i - 1) \o TailOf(i)
  IN Heads(n) \o Tails(n)

---------------------------------------------------------------------------
(* the three digests: argument lists exactly in the order of FxBridgeLogic.sol *)

\* bytes32 methodName = 0x636865636b706f696e7400…  ("checkpoint")
MethodCheckpoint == "636865636b706f696e7400000000000000000000000000000000000000000000"
\* 0x7472616e73616374696f6e426174636800…  ("transactionBatch")
MethodBatch      == "7472616e73616374696f6e426174636800000000000000000000000000000000"
\* 0x62726964676543616c6c00…  ("bridgeCall")
MethodBridgeCall == "62726964676543616c6c00000000000000000000000000000000000000000000"

Col(s, f) == [i \in 1..Len(s) |-> s[i][f]]

\* os: [nonce, members : Seq([addr, power])];  gid: the bridge id string stored as bytes32 (state_fxBridgeId)
OracleSetArgs(gid, os) ==
  <<B32Str(gid), B32Hex(MethodCheckpoint), U(os.nonce), AA(Col(os.members, "addr")), UA(Col(os.members, "power"))>>

\* b: [txs : Seq([amount, dest, fee]), nonce, token, timeout, feeReceive]
BatchArgs(gid, b) ==
  <<B32Str(gid), B32Hex(MethodBatch), UA(Col(b.txs, "amount")), AA(Col(b.txs, "dest")), UA(Col(b.txs, "fee")),
    U(b.nonce), A(b.token), U(b.timeout), A(b.feeReceive)>>

\* c: [sender, refund, tokens : Seq([contract, amount]), to, dataLen, memoLen, nonce, timeout, eventNonce]
BridgeCallArgs(gid, c) ==
  <<B32Str(gid), B32Hex(MethodBridgeCall), A(c.sender), A(c.refund), AA(Col(c.tokens, "contract")), UA(Col(c.tokens, "amount")),
    A(c.to), Bytes("data", c.dataLen), Bytes("memo", c.memoLen), U(c.nonce), U(c.timeout), U(c.eventNonce)>>

OracleSetWords(gid, os) == Encode(OracleSetArgs(gid, os))
BatchWords(gid, b)      == Encode(BatchArgs(gid, b))
BridgeCallWords(gid, c) == Encode(BridgeCallArgs(gid, c))

---------------------------------------------------------------------------
(* sanity of the definition itself (checked by TLC as ASSUMEs in the MC module):              *)
(* every encoding is a whole number of words, offsets point at the length word of their tail. *)
WellFormed(args) ==
  LET w == Encode(args) n == Len(args) IN
  \A i \in 1..n : Dynamic(args[i]) =>
      /\ w[i].t = "int" /\ w[i].v % 32 = 0 /\ w[i].v \div 32 >= n /\ w[i].v \div 32 < Len(w)
      /\ w[w[i].v \div 32 + 1] = Enc(args[i])[1]
=============================================================================
