----------------------------- MODULE InputsProp -----------------------------
(***************************************************************************)
(* Evaluates C20_NeverPanics on outcomes RECORDED FROM THE REAL CODE.      *)
(* Line l of the trace file is {case, real}: a case TLC generated from     *)
(* Inputs.tla and real.outcome = what the real decoder / ValidateBasic /   *)
(* check-tx / precompile did with the input built from it: "accept",       *)
(* "reject", or "panic: <value>" when the harness had to recover a panic   *)
(* in order to report it.                                                  *)
(***************************************************************************)
EXTENDS Inputs
CONSTANT TraceFile
VARIABLE l
Trace == ndJsonDeserialize(TraceFile)

PInit == Init /\ l = 1
PNext == /\ l <= Len(Trace) /\ l' = l + 1
         /\ c' = Trace[l].case
         /\ out' = Trace[l].real.outcome
PSpec == PInit /\ [][PNext]_<<vars, l>>

Consumed == TLCGet("stats").diameter - 1 = Len(Trace)
=============================================================================
