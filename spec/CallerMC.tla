------------------------------ MODULE CallerMC ------------------------------
EXTENDS Caller
(* Switch settings (sequences of entries, in list order).  Multi-entry lists put the entry that must block a
   call AFTER an entry of the same precompile that names another method / BEFORE it / after an entry of the
   other precompile, and combine a method entry with the whole address. *)
StakSeq  == <<"delegateV2", "undelegateV2", "redelegateV2", "withdraw", "approveShares", "transferShares", "transferFromShares", "delegation">>
CrossSeq == <<"crossChain", "bridgeCall", "cancelSendToExternal", "increaseBridgeFee", "executeClaim">>
Nxt(q, i) == q[(i % Len(q)) + 1]
Pairs(q)  == {<<q[i], Nxt(q, i)>> : i \in 1..Len(q)} \cup {<<Nxt(q, i), q[i]>> : i \in 1..Len(q)}

SwitchOff == {<<>>}
SwitchDev == {<<>>, <<"staking">>, <<"crossChain">>, <<"delegation", "transferFromShares">>, <<"transferFromShares", "crosschain">>}
SwitchQuick ==
  {<<>>, <<"staking">>, <<"crosschain">>, <<"transferFromShares">>, <<"crossChain">>,
   <<"delegateV2", "transferFromShares">>, <<"transferFromShares", "delegateV2">>,   \* P/other, P/called - and the reverse
   <<"delegateV2", "staking">>, <<"staking", "approveShares">>,                      \* P/other, P(address) - and the reverse
   <<"crosschain", "approveShares">>,                                                \* Q(address), P/called
   <<"bridgeCall", "crossChain">>, <<"crossChain", "bridgeCall">>,
   <<"executeClaim", "crosschain">>, <<"staking", "cancelSendToExternal">>,
   <<"withdraw", "bridgeCall", "transferShares", "increaseBridgeFee">>}              \* interleaved entries of both precompiles
SwitchThorough ==
  {<<>>} \cup {<<x>> : x \in AllMethod \cup {"staking", "crosschain"}} \cup Pairs(StakSeq) \cup Pairs(CrossSeq) \cup SwitchQuick \cup
  {<<"withdraw", "staking">>, <<"crossChain", "crosschain">>, <<"crosschain", "executeClaim">>, <<"staking", "bridgeCall">>,
   <<"delegateV2", "crosschain", "transferFromShares">>, <<"bridgeCall", "staking", "crossChain">>,
   <<"undelegateV2", "redelegateV2", "withdraw", "staking">>, <<"crossChain", "bridgeCall", "cancelSendToExternal", "increaseBridgeFee", "executeClaim">>}
=============================================================================
