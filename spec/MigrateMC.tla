------------------------------ MODULE MigrateMC ------------------------------
EXTENDS Migrate
\* s1: the rich source; s2: a second delegator/source; t1: fresh address without an account; t2: funded target
CoinsStd == [a \in Addr |-> CASE a = "s1" -> 4 [] a = "s2" -> 2 [] a = "t2" -> 2 [] OTHER -> 0]
CoinsGov == [a \in Addr |-> CASE a = "s1" -> 2 [] a = "s2" -> 1 [] a = "t2" -> 2 [] OTHER -> 0]
=============================================================================
