----------------------------- MODULE ClaimIdProp -----------------------------
(***************************************************************************)
(* Evaluates the C03 formulas of ClaimId.tla on behaviours RECORDED FROM   *)
(* THE REAL KEEPER: each step installs the projected real state and the    *)
(* operation that produced it (line l of the trace file).  Lines with      *)
(* op.name = "Reset" start a new recorded behaviour.                       *)
(***************************************************************************)
EXTENDS ClaimIdMC
CONSTANT TraceFile
VARIABLE l
Trace == ndJsonDeserialize(TraceFile)

Install(st) ==
  /\ bucket' = st.bucket /\ submitted' = st.submitted /\ mixed' = st.mixed
  /\ observedVariant' = st.observedVariant /\ pendingVariant' = st.pendingVariant
  /\ executedVariant' = st.executedVariant

PInit == Init /\ l = 1
PNext == /\ l <= Len(Trace) /\ l' = l + 1
         /\ Install(Trace[l].st) /\ op' = Trace[l].op
PSpec == PInit /\ [][PNext]_<<vars, l>>

R(A) == op'.name = "Reset" \/ A
P_C03_NoCrossCredit  == [][R(A_C03_NoCrossCredit)]_<<vars, l>>
P_C03_ExecutedStable == [][R(A_C03_ExecutedStable)]_<<vars, l>>

\* all lines consumed
Consumed == TLCGet("stats").diameter - 1 = Len(Trace)
=============================================================================
