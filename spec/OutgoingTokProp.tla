--------------------------- MODULE OutgoingTokProp ---------------------------
(* Evaluates OutgoingTok.tla's property formulas on behaviours recorded from the real keeper
   (see AttestProp.tla for the scheme). *)
EXTENDS OutgoingTokMC
CONSTANT TraceFile
VARIABLE l
Trace == ndJsonDeserialize(TraceFile)

Install(st) ==
  /\ bal' = st.bal /\ tx' = st.tx /\ bt' = st.bt /\ ntx' = st.ntx /\ nbt' = st.nbt
  /\ fxH' = st.fxH /\ obsExt' = st.obsExt /\ obsFx' = st.obsFx /\ lastObs' = st.lastObs
  /\ extH' = st.extH /\ queue' = st.queue /\ xbt' = st.xbt /\ xlast' = st.xlast /\ obsOut' = st.obsOut

PInit == Init /\ l = 1
PNext == /\ l <= Len(Trace) /\ l' = l + 1
         /\ Install(Trace[l].st) /\ op' = Trace[l].op
PSpec == PInit /\ [][PNext]_<<vars, l>>

R(A) == op'.name = "Reset" \/ A
P_C05_TokImmutable == [][R(A_C05_TokImmutable)]_<<vars, l>>
P_C05_TokCancelExact == [][R(A_C05_TokCancelExact)]_<<vars, l>>
P_C06_TokReleaseOnlyWhenProven == [][R(A_C06_TokReleaseOnlyWhenProven)]_<<vars, l>>

Consumed == TLCGet("stats").diameter - 1 = Len(Trace)
=============================================================================
