----------------------------- MODULE AttestTrace -----------------------------
(***************************************************************************)
(* Strict trace validation: every recorded step must be the step the        *)
(* specification takes for the logged operation, with the logged result     *)
(* class and the logged post-state (the system is deterministic, so no      *)
(* search is needed).  "Reset" lines start a new behaviour.                 *)
(***************************************************************************)
EXTENDS AttestMC
CONSTANT TraceFile
VARIABLE l
Trace == ndJsonDeserialize(TraceFile)

Install(st) ==
  /\ reg' = st.reg /\ online' = st.online /\ approved' = st.approved /\ power' = st.power
  /\ bridger' = st.bridger /\ bidx' = st.bidx /\ last' = st.last /\ delegated' = st.delegated
  /\ pen' = st.pen /\ totalPower' = st.totalPower /\ lastObs' = st.lastObs /\ obsExt' = st.obsExt /\ votes' = st.votes
  /\ observed' = st.observed /\ pending' = st.pending /\ effects' = st.effects
  /\ UNCHANGED <<mops, bonds>>

TInit == Init /\ l = 1
TNext == /\ l <= Len(Trace) /\ l' = l + 1
         /\ LET e == Trace[l] IN
            IF e.op.name = "Reset" THEN Install(e.st) /\ op' = e.op
            ELSE Do(e.op) /\ op'.res = e.op.res /\ Abs' = e.st
TSpec == TInit /\ [][TNext]_<<vars, l>>
Consumed == TLCGet("stats").diameter - 1 = Len(Trace)
=============================================================================
