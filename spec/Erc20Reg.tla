------------------------------ MODULE Erc20Reg ------------------------------
(***************************************************************************)
(* Registration of SEVERAL token pairs (x/erc20/keeper/proposals.go        *)
(* RegisterNativeCoin / RegisterNativeERC20 / UpdateDenomAliases,          *)
(* token_pairs.go indexes): two governance-registered coins c1, c2 (module-*)
(* owned ERC-20 deployed by the registration) and one externally-owned     *)
(* ERC-20 e, each registered with a set of alias / bridge denominations    *)
(* drawn from a shared pool, in any order, with alias updates in between.  *)
(* Clause of C08: "the denom, contract and alias indexes always describe   *)
(* the same set of pairs".  Companion of Erc20.tla (one pair, conversions).*)
(***************************************************************************)
EXTENDS Integers, Sequences, FiniteSets, TLC, Json

CONSTANTS Pair,      \* subset of {"c1", "c2", "e"}
          Free,      \* alias denominations nobody owns initially, e.g. {"x", "y"}
          MaxOps

VARIABLES reg,       \* [Pair -> BOOLEAN]           the pair record exists
          byDenom,   \* [Denom -> Pair \cup {none}]   index denom -> pair
          byTok,     \* [Pair -> Pair \cup {none}]    index (p's token address) -> pair
          aliasIdx,  \* [Denom -> Denom \cup {none}]  erc20 index alias -> base denom
          md,        \* [Pair -> [Denom -> BOOLEAN]] alias list in the bank metadata of p's base coin
          nops,
          op         \* [name, p, al, set, res]

svars == <<reg, byDenom, byTok, aliasIdx, md, nops>>
vars  == <<svars, op>>
None  == "none"
Base(p) == CASE p = "c1" -> "b1" [] p = "c2" -> "b2" [] OTHER -> "be"
Bases == {Base(p) : p \in Pair}
Denom == Bases \cup Free
Abs == [reg |-> reg, byDenom |-> byDenom, byTok |-> byTok, aliasIdx |-> aliasIdx, md |-> md]

Op(name, p, al, S, res) == [name |-> name, p |-> p, al |-> al, set |-> [d \in Denom |-> d \in S], res |-> res]

Init ==
  /\ reg = [p \in Pair |-> FALSE] /\ byDenom = [d \in Denom |-> None] /\ byTok = [p \in Pair |-> None]
  /\ aliasIdx = [d \in Denom |-> None] /\ md = [p \in Pair |-> [d \in Denom |-> FALSE]]
  /\ nops = 0 /\ op = Op("Init", None, None, {}, "ok")

Rej(o) == op' = [o EXCEPT !.res = "rej"] /\ UNCHANGED svars

(* MsgRegisterCoin (p in {c1, c2}) / MsgRegisterERC20 (p = e) with alias set S *)
Register(p, S) ==
  LET this == Op("Register", p, None, S, "ok")
      b    == Base(p)
      okk  == /\ ~reg[p] /\ byDenom[b] = None /\ byTok[p] = None
              /\ aliasIdx[b] = None                                   \* the base is nobody's alias
              /\ \A a \in S : a # b /\ byDenom[a] = None /\ aliasIdx[a] = None   \* no alias is a base or already taken
  IN IF ~okk THEN Rej(this) ELSE
     /\ reg' = [reg EXCEPT ![p] = TRUE] /\ byDenom' = [byDenom EXCEPT ![b] = p] /\ byTok' = [byTok EXCEPT ![p] = p]
     /\ aliasIdx' = [d \in Denom |-> IF d \in S THEN b ELSE aliasIdx[d]]
     /\ md' = [md EXCEPT ![p] = [d \in Denom |-> d \in S]]
     /\ nops' = nops + 1 /\ op' = this

(* MsgUpdateDenomAlias(denom = base of p, alias = al): add when unknown, remove when p's own *)
UpdateAlias(p, al) ==
  LET this == Op("UpdateAlias", p, al, {}, "ok")
      b    == Base(p)
      okk  == reg[p] /\ byDenom[b] = p /\ byDenom[al] = None /\ aliasIdx[al] \in {None, b}
  IN IF ~okk THEN Rej(this) ELSE
     /\ aliasIdx' = [aliasIdx EXCEPT ![al] = IF @ = None THEN b ELSE None]
     /\ md' = [md EXCEPT ![p][al] = aliasIdx[al] = None]
     /\ nops' = nops + 1 /\ op' = this
     /\ UNCHANGED <<reg, byDenom, byTok>>

Probe == op' = Op("Probe", None, None, {}, "ok") /\ UNCHANGED svars

\* alias sets offered to a registration: any set of free aliases, or a single base denomination (its own or another pair's)
AliasSets == SUBSET Free \cup {{b} : b \in Bases}
Next ==
  \/ \E p \in Pair, S \in AliasSets : Register(p, S)
  \/ \E p \in Pair, al \in Denom : UpdateAlias(p, al)
  \/ Probe
Spec == Init /\ [][Next]_vars

---------------------------------------------------------------------------
\* the denom, contract and alias indexes describe the same set of pairs: every pair is found under its denom and its
\* contract and nowhere else; every alias in a pair's metadata maps back to that pair; no alias belongs to two pairs;
\* every alias index entry is backed by the metadata of a registered pair
C08_IndexesAgree ==
  /\ \A p \in Pair : (reg[p] <=> byDenom[Base(p)] = p) /\ (reg[p] <=> byTok[p] = p)
  /\ \A d \in Denom : byDenom[d] # None => d \in Bases /\ Base(byDenom[d]) = d
  /\ \A p \in Pair : byTok[p] \in {None, p}
  /\ \A d \in Denom : aliasIdx[d] # None =>
        /\ byDenom[d] = None
        /\ \E p \in Pair : reg[p] /\ aliasIdx[d] = Base(p) /\ md[p][d]
  /\ \A p \in Pair, d \in Denom : md[p][d] => reg[p] /\ aliasIdx[d] = Base(p)
  /\ \A d \in Denom : Cardinality({p \in Pair : md[p][d]}) <= 1

A_C08_RefusedChangesNothing == op'.res = "rej" => UNCHANGED <<reg, byDenom, byTok, aliasIdx, md>>
C08_RefusedChangesNothing == [][A_C08_RefusedChangesNothing]_vars

View == svars
Bounded == nops' <= MaxOps
EdgeDump == /\ IF op.name = "Init" \/ op'.res = "ok"
               THEN PrintT(<<"EDGE", ToJson([from |-> Abs, op |-> op', to |-> Abs'])>>)
               ELSE TRUE
            /\ Bounded
=============================================================================
