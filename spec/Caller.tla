------------------------------- MODULE Caller -------------------------------
(***************************************************************************)
(* C10 - precompiles act only for their DIRECT caller and only in a         *)
(* writable call context.                                                   *)
(*                                                                         *)
(* Code: x/staking/precompile/contract.go, x/crosschain/precompile/         *)
(* contract.go (Run: readonly guard, governance switch, dispatch), every    *)
(* method's Run (contract.Caller() is the acting account),                  *)
(* transfer_shares.go (decrementAllowance), x/gov/keeper/keeper.go          *)
(* (CheckDisabledPrecompiles), go-ethereum core/vm/evm.go (CALLCODE,        *)
(* DELEGATECALL, STATICCALL reach a precompile with readonly = true).       *)
(*                                                                         *)
(* Four accounts with identical portfolios: the externally owned "user"     *)
(* and "victim", the executor contracts "A" and "B".  A Call reaches the    *)
(* precompile P through a chain user->P, user->A->P or user->A->B->P; the   *)
(* last hop uses one of the four call instructions; the arguments name the  *)
(* caller itself, the victim, or "the other party" (the user on whose       *)
(* behalf a contract was called / contract A for a direct user call).       *)
(* Share allowances are set by Approve (the owner's own approveShares), the *)
(* governance switch by SetSwitch (MsgUpdateSwitchParams).                  *)
(*                                                                         *)
(* Two further dimensions:                                                  *)
(*  - the FATE of the frames between the transaction and the precompile     *)
(*    after the precompile has returned: all complete ("commit"), the       *)
(*    direct caller's frame REVERTs and the failure reaches the top         *)
(*    ("revert"), the direct caller's frame REVERTs and the contract that   *)
(*    called it catches the failure and completes ("caught"), the direct    *)
(*    caller completes and the contract that called it REVERTs ("outer").   *)
(*    A call made in a frame that does not survive is no call at all: in    *)
(*    particular an approveShares of a reverted frame grants nothing.       *)
(*  - the exchange rate of validator 0: Slash halves the validator's        *)
(*    tokens (evidence at the beginning of a block), after `slashed`        *)
(*    halvings one token buys 2^slashed shares.  delegateV2 / undelegateV2  *)
(*    / redelegateV2 take TOKEN amounts, transferShares / approveShares /   *)
(*    transferFromShares and the allowances are in SHARES.                  *)
(***************************************************************************)
EXTENDS Integers, Sequences, FiniteSets, TLC, Json

CONSTANTS Method,       \* methods exercised (subset of AllMethod)
          SwitchVal,    \* settings of the governance switch: SEQUENCES of entries, an entry being "staking" /
                        \* "crosschain" (the whole precompile address) or a method name (address/method id);
                        \* <<>> = nothing disabled.  The order is the order of SwitchParams.DisablePrecompiles.
          ApproveAmt,   \* amounts an owner may approve (moved amount S = 2: 1 less, 2 equal, 3 more)
          MaxCall, MaxApprove,
          MaxSlash,     \* how often validator 0 may be slashed (each time by one half)
          SlashSwitchLen \* slashed states are combined with switch settings of at most this many entries

Acc      == {"user", "A", "B", "victim"}
Chains   == {"user->P", "user->A->P", "user->A->B->P"}
Kinds    == {"CALL", "STATICCALL", "DELEGATECALL", "CALLCODE"}
Namings  == {"caller", "victim", "other"}
Fates    == {"commit", "revert", "caught", "outer"}
StakingM == {"delegateV2", "undelegateV2", "redelegateV2", "withdraw", "approveShares", "transferShares", "transferFromShares"}
CrossM   == {"crossChain", "bridgeCall", "cancelSendToExternal", "increaseBridgeFee", "executeClaim"}
ReadM    == {"delegation"}
AllMethod == StakingM \cup CrossM \cup ReadM
S   == 2     \* amount every method moves
Fee == 1     \* bridge fee of crossChain
Dep == 3     \* amount of every parked deposit

VARIABLES fx,      \* [Acc -> Nat]  FX balance, whole units
          frac,    \* [Acc -> BOOLEAN] the balance carries a sub-unit part (= rewards were paid to this account)
          tok,     \* [Acc -> Nat]  ERC-20 (bridge token) balance
          coin,    \* [Acc -> Nat]  the same token as bank coin
          sh, sh1, \* [Acc -> Nat]  delegation shares with validator 0 / validator 1
          rew,     \* [Acc -> BOOLEAN] un-withdrawn rewards on the validator-0 delegation
          allow,   \* [Acc -> [Acc -> Nat]] share allowance owner -> spender (validator 0)
          ubd, red,\* [Acc -> Nat]  unbonding / redelegating amounts
          pool,    \* [Acc -> [n, amt, fee]] pooled outgoing transfers of the account
          calls,   \* [Acc -> Nat]  token amount in outgoing bridge calls of the account
          parked,  \* [Acc -> Nat]  parked deposits whose receiver is the account
          switch,  \* governance switch: sequence of disabled entries
          slashed, \* Nat: number of times validator 0 was slashed by one half (one token = 2^slashed shares)
          ncall, napp,
          op

pvars == <<fx, frac, tok, coin, sh, sh1, rew, allow, ubd, red, pool, calls, parked>>
svars == <<fx, frac, tok, coin, sh, sh1, rew, allow, ubd, red, pool, calls, parked, switch, slashed, ncall, napp>>
vars  == <<svars, op>>

Port == [fx |-> fx, frac |-> frac, tok |-> tok, coin |-> coin, sh |-> sh, sh1 |-> sh1, rew |-> rew, allow |-> allow,
         ubd |-> ubd, red |-> red, pool |-> pool, calls |-> calls, parked |-> parked]
Abs == [fx |-> fx, frac |-> frac, tok |-> tok, coin |-> coin, sh |-> sh, sh1 |-> sh1, rew |-> rew, allow |-> allow,
        ubd |-> ubd, red |-> red, pool |-> pool, calls |-> calls, parked |-> parked, switch |-> switch, slashed |-> slashed,
        ncall |-> ncall]

None == "none"
Op(name, m, chain, kind, naming, fate, o, s, n, x, res) ==
  [name |-> name, m |-> m, chain |-> chain, kind |-> kind, naming |-> naming, fate |-> fate, o |-> o, s |-> s, n |-> n, x |-> x, res |-> res]

Init ==
  /\ fx = [a \in Acc |-> 1000] /\ frac = [a \in Acc |-> FALSE]
  /\ tok = [a \in Acc |-> 100] /\ coin = [a \in Acc |-> 0]
  /\ sh = [a \in Acc |-> 16] /\ sh1 = [a \in Acc |-> 0] /\ rew = [a \in Acc |-> TRUE]
  /\ allow = [o \in Acc |-> [s \in Acc |-> 0]]
  /\ ubd = [a \in Acc |-> 0] /\ red = [a \in Acc |-> 0]
  /\ pool = [a \in Acc |-> [n |-> 1, amt |-> 4, fee |-> 1]]
  /\ calls = [a \in Acc |-> 0] /\ parked = [a \in Acc |-> 1]
  /\ switch = <<>> /\ slashed = 0 /\ ncall = 0 /\ napp = 0
  /\ op = Op("Init", None, None, None, None, None, None, None, 0, <<>>, "ok")

Rej(o) == op' = [o EXCEPT !.res = "rej"] /\ UNCHANGED svars

CallerOf(chain) == CASE chain = "user->P" -> "user" [] chain = "user->A->P" -> "A" [] OTHER -> "B"
Named(naming, c) == CASE naming = "caller" -> c [] naming = "victim" -> "victim" [] OTHER -> (IF c = "user" THEN "A" ELSE "user")
PrecompileOf(m) == IF m \in StakingM \cup ReadM THEN "staking" ELSE "crosschain"
\* disabled iff ANY entry names the method or its precompile's address, wherever it stands in the list
DisabledIn(sw, m) == \E i \in DOMAIN sw : sw[i] = PrecompileOf(m) \/ sw[i] = m

Install(r) ==
  /\ fx' = r.fx /\ frac' = r.frac /\ tok' = r.tok /\ coin' = r.coin /\ sh' = r.sh /\ sh1' = r.sh1 /\ rew' = r.rew
  /\ allow' = r.allow /\ ubd' = r.ubd /\ red' = r.red /\ pool' = r.pool /\ calls' = r.calls /\ parked' = r.parked

\* shares of validator 0 that S tokens buy / that have to be given up to take S tokens out
K  == 2 ^ slashed
SK == S * K

\* rewards of a on validator 0 are withdrawn to a
Paid(r, a) == [r EXCEPT !.rew[a] = FALSE, !.frac[a] = @ \/ r.rew[a]]

\* what the method needs from the state (beyond a writable context and an enabled switch)
Guard(m, c, nm) ==
  CASE m = "delegateV2"           -> fx[c] >= S
    [] m = "undelegateV2"         -> sh[c] >= SK
    [] m = "redelegateV2"         -> sh[c] >= SK
    [] m = "withdraw"             -> sh[c] > 0
    [] m = "approveShares"        -> TRUE
    [] m = "transferShares"       -> sh[c] >= S
    [] m = "transferFromShares"   -> allow[nm][c] >= S /\ sh[nm] >= S
    [] m = "crossChain"           -> tok[c] >= S + Fee
    [] m = "bridgeCall"           -> tok[c] >= S
    [] m = "cancelSendToExternal" -> nm = c /\ pool[c].n >= 1      \* only the sender of a pooled transfer cancels it
    [] m = "increaseBridgeFee"    -> fx[c] >= S /\ pool[nm].n >= 1 \* anybody may top up anybody's fee, at his own cost
    [] m = "executeClaim"         -> parked[nm] >= 1               \* anybody may execute; the deposit goes to its receiver
    [] OTHER                      -> TRUE

Effect(m, c, nm) ==
  LET r == Port IN
  CASE m = "delegateV2"           -> Paid([r EXCEPT !.fx[c] = @ - S, !.sh[c] = @ + SK], c)
    [] m = "undelegateV2"         -> Paid([r EXCEPT !.sh[c] = @ - SK, !.ubd[c] = @ + S], c)
    [] m = "redelegateV2"         -> Paid([r EXCEPT !.sh[c] = @ - SK, !.sh1[c] = @ + S, !.red[c] = @ + S], c)
    [] m = "withdraw"             -> Paid(r, c)
    [] m = "approveShares"        -> [r EXCEPT !.allow[c][nm] = S]
    [] m = "transferShares"       -> Paid(Paid([r EXCEPT !.sh[c] = @ - S, !.sh[nm] = @ + S], c), nm)
    [] m = "transferFromShares"   -> Paid(Paid([r EXCEPT !.allow[nm][c] = @ - S, !.sh[nm] = @ - S, !.sh[c] = @ + S], nm), c)
    [] m = "crossChain"           -> [r EXCEPT !.tok[c] = @ - (S + Fee), !.pool[c] = [n |-> @.n + 1, amt |-> @.amt + S, fee |-> @.fee + Fee]]
    [] m = "bridgeCall"           -> [r EXCEPT !.tok[c] = @ - S, !.calls[c] = @ + S]
    [] m = "cancelSendToExternal" -> [r EXCEPT !.pool[c] = [n |-> @.n - 1, amt |-> @.amt - 4, fee |-> @.fee - 1], !.fx[c] = @ + 5]
    [] m = "increaseBridgeFee"    -> [r EXCEPT !.fx[c] = @ - S, !.pool[nm].fee = @ + S]
    [] m = "executeClaim"         -> [r EXCEPT !.parked[nm] = @ - 1, !.coin[nm] = @ + Dep]
    [] OTHER                      -> r

\* a transfer of shares to oneself is C11's subject (Shares.tla), not exercised here
SelfTransfer(m, c, nm) == m \in {"transferShares", "transferFromShares"} /\ nm = c

\* the fates a chain admits: a transaction's own frame cannot "revert after the call"; catching needs two contracts
FateOK(chain, fate) == CASE fate = "commit" -> TRUE [] fate = "revert" -> chain # "user->P" [] OTHER -> chain = "user->A->B->P"

Call(m, chain, kind, naming, fate) ==
  LET this == Op("Call", m, chain, kind, naming, fate, None, None, 0, <<>>, "ok")
      c    == CallerOf(chain)
      nm   == Named(naming, c)
      okk  == /\ fate = "commit"                    \* what a frame that does not survive did is undone completely
              /\ ~DisabledIn(switch, m)
              /\ (m \notin ReadM => kind = "CALL")
              /\ Guard(m, c, nm)
  IN IF ~okk THEN Rej(this) ELSE
     /\ Install(Effect(m, c, nm))
     /\ ncall' = ncall + 1 /\ op' = this /\ UNCHANGED <<switch, slashed, napp>>

\* the owner's own approveShares(validator 0, spender, n) - an EOA transaction, or the contract calling the precompile
Approve(o, s, n) ==
  LET this == Op("Approve", None, None, None, None, None, o, s, n, <<>>, "ok")
  IN IF DisabledIn(switch, "approveShares") THEN Rej(this) ELSE
     /\ allow' = [allow EXCEPT ![o][s] = n]
     /\ napp' = napp + 1 /\ op' = this
     /\ UNCHANGED <<fx, frac, tok, coin, sh, sh1, rew, ubd, red, pool, calls, parked, switch, slashed, ncall>>

\* MsgUpdateSwitchParams by the governance authority
SetSwitch(x) ==
  /\ switch' = x /\ op' = Op("SetSwitch", None, None, None, None, None, None, None, 0, x, "ok")
  /\ UNCHANGED <<pvars, slashed, ncall, napp>>

\* a block begins with evidence against validator 0: half of its tokens are burnt, the delegators keep their shares
Slash ==
  /\ slashed' = slashed + 1 /\ op' = Op("Slash", None, None, None, None, None, None, None, 0, <<>>, "ok")
  /\ UNCHANGED <<pvars, switch, ncall, napp>>

Probe == op' = Op("Probe", None, None, None, None, None, None, None, 0, <<>>, "ok") /\ UNCHANGED svars

Next ==
  /\ ncall < MaxCall     \* horizon: nothing is claimed after MaxCall accepted calls (no Probe there: frontier)
  /\ \/ \E m \in Method, chain \in Chains, kind \in Kinds, naming \in Namings, fate \in Fates :
          /\ (chain = "user->P" => kind = "CALL")       \* a transaction's top-level call is always a CALL
          /\ FateOK(chain, fate)
          /\ (fate # "commit" => kind = "CALL")         \* (the other instructions fail at the precompile: nothing to revert)
          /\ ~SelfTransfer(m, CallerOf(chain), Named(naming, CallerOf(chain)))
          /\ Call(m, chain, kind, naming, fate)
     \/ \E o \in Acc, s \in {"user", "A", "B"}, n \in ApproveAmt : Approve(o, s, n)
     \/ \E x \in SwitchVal : SetSwitch(x)
     \/ Slash
     \/ Probe

Spec == Init /\ [][Next]_vars

---------------------------------------------------------------------------
(* PROPERTIES (from the property text; they do not mention Guard/Effect).  *)

\* the account that executed the call instruction to the precompile (the owner for Approve)
Actor(o) == CASE o.name = "Call" -> CallerOf(o.chain) [] o.name = "Approve" -> o.o [] OTHER -> None
Lost(f, a) == IF f'[a] < f[a] THEN f[a] - f'[a] ELSE 0

\* nothing of an account other than the direct caller is reduced, redirected or cancelled,
\* except shares moved through an allowance that account granted to the direct caller
A_C10_OnlyDirectCaller ==
  \A a \in Acc \ {Actor(op')} :
    /\ fx'[a] >= fx[a] /\ tok'[a] >= tok[a] /\ coin'[a] >= coin[a] /\ sh1'[a] >= sh1[a]
    /\ ubd'[a] >= ubd[a] /\ red'[a] >= red[a] /\ calls'[a] >= calls[a]
    /\ pool'[a].n >= pool[a].n /\ pool'[a].amt >= pool[a].amt /\ pool'[a].fee >= pool[a].fee   \* no queued withdrawal cancelled
    /\ (parked'[a] < parked[a] => coin'[a] >= coin[a] + Dep * (parked[a] - parked'[a]))          \* a deposit is delivered to its receiver
    /\ (rew[a] /\ ~rew'[a] => frac'[a])                                                         \* rewards go to their owner
    /\ (sh'[a] < sh[a] => Actor(op') # None /\ allow[a][Actor(op')] >= sh[a] - sh'[a])          \* only through an allowance
    /\ \A s \in Acc : allow'[a][s] # allow[a][s] => s = Actor(op') /\ allow'[a][s] < allow[a][s] \* a's grants: only used up by the grantee
C10_OnlyDirectCaller == [][A_C10_OnlyDirectCaller]_vars

\* at most the allowance is moved and it is reduced by exactly the amount moved; an allowance changes
\* only that way or by its owner's own approveShares
A_C10_AllowanceBound ==
  \A a \in Acc, s \in Acc :
    LET moved == IF a # Actor(op') /\ s = Actor(op') THEN Lost(sh, a) ELSE 0 IN
      /\ moved <= allow[a][s]
      /\ (a # Actor(op') => allow'[a][s] = allow[a][s] - moved)
C10_AllowanceBound == [][A_C10_AllowanceBound]_vars

\* a state-changing method has an effect only when the last hop is CALL
A_C10_WriteNeedsCall ==
  (op'.name = "Call" /\ op'.m \notin ReadM /\ op'.kind # "CALL") => (op'.res = "rej" /\ Port' = Port)
C10_WriteNeedsCall == [][A_C10_WriteNeedsCall]_vars

\* a disabled precompile address / method never executes (read-only methods included)
A_C10_DisabledNeverRuns ==
  /\ (op'.name = "Call" /\ DisabledIn(switch, op'.m)) => (op'.res = "rej" /\ Port' = Port)
  /\ (op'.name = "Approve" /\ DisabledIn(switch, "approveShares")) => (op'.res = "rej" /\ Port' = Port)
C10_DisabledNeverRuns == [][A_C10_DisabledNeverRuns]_vars

\* a precompile call whose frame (or an enclosing frame) is reverted afterwards has acted for nobody: nothing of it is
\* left, whoever catches the failure - in particular no allowance is granted by an approveShares that did not survive
A_C10_RevertedIsNoop ==
  (op'.name = "Call" /\ op'.fate # "commit") => (op'.res = "rej" /\ Port' = Port)
C10_RevertedIsNoop == [][A_C10_RevertedIsNoop]_vars

\* a refused call changes nothing at all; a read-only method never changes anything
A_C10_RefusedIsNoop ==
  /\ op'.res = "rej" => Port' = Port
  /\ (op'.name = "Call" /\ op'.m \in ReadM) => Port' = Port
C10_RefusedIsNoop == [][A_C10_RefusedIsNoop]_vars

---------------------------------------------------------------------------
View == svars
\* allowance grants are combined with the single-entry switch settings only (multi-entry lists are explored
\* from the grant-free state)
Bounded == /\ napp' <= MaxApprove /\ (napp' >= 1 => Len(switch') <= 1)
           /\ slashed' <= MaxSlash /\ (slashed' >= 1 => Len(switch') <= SlashSwitchLen)
EdgeDump == /\ IF op.name = "Init" \/ op'.res = "ok"
               THEN PrintT(<<"EDGE", ToJson([from |-> Abs, op |-> op', to |-> Abs'])>>)
               ELSE TRUE
            /\ Bounded
=============================================================================
