---------------------------- MODULE Determinism ----------------------------
(***************************************************************************)
(* C17.  The trace is the merge of k >= 3 recordings of THE SAME histories  *)
(* (seeded walks over TLC-generated transition graphs of the other          *)
(* specifications), executed by independent OS processes with different     *)
(* GOMAXPROCS and fresh map seeds.  Each line: spec, walk, step, run, the   *)
(* operation with its real result class, a digest of the complete           *)
(* multistore content after the step and a digest of all events emitted.    *)
(* The state machine consumes one line per step and remembers the first     *)
(* record seen for every (spec, walk, step); the invariant says every       *)
(* later record for the same key is identical.                              *)
(***************************************************************************)
EXTENDS Integers, Sequences, TLC, Json
CONSTANT TraceFile
VARIABLES l, seen
Trace == ndJsonDeserialize(TraceFile)
Key(e) == <<e.spec, e.walk, e.step>>
Rec(e) == [res |-> e.op.res, name |-> e.op.name, state |-> e.state, events |-> e.events, height |-> e.height]

Init == l = 1 /\ seen = <<>>
Next == /\ l <= Len(Trace) /\ l' = l + 1
        /\ LET e == Trace[l] IN
           seen' = IF Key(e) \in DOMAIN seen THEN seen ELSE (Key(e) :> Rec(e)) @@ seen
Spec == Init /\ [][Next]_<<l, seen>>

\* same genesis + same history => same state content, same results, same events, in every process
C17_SameHistorySameResult ==
  l > 1 => LET e == Trace[l - 1] IN seen[Key(e)] = Rec(e)
Consumed == TLCGet("stats").diameter - 1 = Len(Trace)
=============================================================================
