---------------------------- MODULE OutgoingProp ----------------------------
(* Evaluates Outgoing.tla's property formulas on behaviours recorded from the real keeper
   (see AttestProp.tla for the scheme). *)
EXTENDS OutgoingMC
CONSTANT TraceFile
VARIABLE l
Trace == ndJsonDeserialize(TraceFile)

Install(st) ==
  /\ bal' = st.bal /\ tx' = st.tx /\ bt' = st.bt /\ cl' = st.cl /\ ntx' = st.ntx /\ nbt' = st.nbt /\ ncl' = st.ncl
  /\ fxH' = st.fxH /\ obsExt' = st.obsExt /\ obsFx' = st.obsFx /\ lastObs' = st.lastObs /\ parked' = st.parked
  /\ extH' = st.extH /\ queue' = st.queue /\ xbt' = st.xbt /\ xlast' = st.xlast /\ xcl' = st.xcl /\ cobs' = st.cobs
  /\ ndep' = st.ndep /\ obsDep' = st.obsDep /\ obsOut' = st.obsOut /\ extIn' = st.extIn /\ extOut' = st.extOut

PInit == Init /\ l = 1
PNext == /\ l <= Len(Trace) /\ l' = l + 1
         /\ Install(Trace[l].st) /\ op' = Trace[l].op
PSpec == PInit /\ [][PNext]_<<vars, l>>

R(A) == op'.name = "Reset" \/ A
P_C04_NoThirdParty == [][R(A_C04_NoThirdParty)]_<<vars, l>>
P_C04_Withdrawable == [][R(A_C04_Withdrawable)]_<<vars, l>>
P_C05_CountersMonotone == [][R(A_C05_CountersMonotone)]_<<vars, l>>
P_C05_SettledOnce == [][R(A_C05_SettledOnce)]_<<vars, l>>
P_C05_QueuedAsSupplied == [][R(A_C05_QueuedAsSupplied)]_<<vars, l>>
P_C05_CancelExact == [][R(A_C05_CancelExact)]_<<vars, l>>
P_C05_LeavesOnlyBySettlement == [][R(A_C05_LeavesOnlyBySettlement)]_<<vars, l>>
P_C05_FeeIncreaseExact == [][R(A_C05_FeeIncreaseExact)]_<<vars, l>>
P_C05_CancelBatchRestores == [][R(A_C05_CancelBatchRestores)]_<<vars, l>>
P_C05_CallSettlement == [][R(A_C05_CallSettlement)]_<<vars, l>>
P_C05_TimeoutRefundExact == [][R(A_C05_TimeoutRefundExact)]_<<vars, l>>
P_C05_NoRefundAfterObservedExecution == [][R(A_C05_NoRefundAfterObservedExecution)]_<<vars, l>>
P_C06_TimeoutOnlyWhenProven == [][R(A_C06_TimeoutOnlyWhenProven)]_<<vars, l>>
P_C06_NothingBeforeObservation == [][R(A_C06_NothingBeforeObservation)]_<<vars, l>>

Consumed == TLCGet("stats").diameter - 1 = Len(Trace)
=============================================================================
