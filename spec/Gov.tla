--------------------------------- MODULE Gov ---------------------------------
(***************************************************************************)
(* Governance of fx-core (x/gov: msg_server.go SubmitProposal/Deposit/      *)
(* UpdateCustomParams, deposit.go AddDeposit/GetMinDepositAmountFrom-       *)
(* ProposalMsgs, proposal.go ActivateVotingPeriod/GetCustomMsgVotingPeriod/ *)
(* GetCustomMsgQuorum, tally.go Tally, abci.go EndBlocker; SDK x/gov Vote). *)
(*                                                                         *)
(* Time is counted in slots.  A block is: messages at block time T, then    *)
(* the gov EndBlocker at T, then T+1.  `Tick` is "EndBlocker, next slot".   *)
(* Timers are RELATIVE (end time - block time) so that the state space is   *)
(* finite without a clock bound.                                            *)
(*                                                                         *)
(* Fixed world (the harness builds exactly this through MsgUpdateParams /   *)
(* MsgUpdateCustomParams / MsgDelegate / MsgFundCommunityPool):             *)
(*   deposits in units; MinDeposit 2, ExpeditedMinDeposit 4,                *)
(*   MinInitialDepositRatio = MinDepositRatio = 0.5,                        *)
(*   MaxDepositPeriod = DepPeriod slots, VotingPeriod 2, Expedited 1,       *)
(*   Quorum 0.5, Threshold 0.5, ExpeditedThreshold 0.7, Veto 0.334,         *)
(*   custom variant A = (ratio .75, period 3, quorum .2),                   *)
(*                  B = (ratio .25, period 1, quorum .7),                   *)
(*   "spend" proposal = [pool -> X_p : 1, pool -> Y_p : 3] (requests 4),    *)
(*   "small" proposal = [pool -> X_p : 1] (requests 1, below the default    *)
(*   minimum; same message type and custom parameters as "spend"),          *)
(*   "custom" proposal = two MsgUpdateStore writing two fresh keys,         *)
(*   community pool 5 units,                                                *)
(*   voters: v1 = operator of validator 0 (self 100, delegated by d 50),    *)
(*           d  = delegator (50 to validator 0); validator 1 (100) silent.  *)
(***************************************************************************)
EXTENDS Integers, Sequences, FiniteSets, TLC, Json

CONSTANTS Submitter,   \* subset of Depositor: who submits
          Types,       \* subset of {"text","spend","small","custom","mixed"} offered to Submit
          ExpSet,      \* subset of BOOLEAN offered to Submit
          InitAmts,    \* initial deposits offered to Submit
          DepAmts,     \* amounts offered to Deposit
          Depositors,  \* subset of Depositor: who deposits (MsgDeposit)
          Voters,      \* subset of Voter: who votes
          Denoms,      \* subset of {"fx","other"} offered to Deposit
          VoteOpts,    \* subset of {"yes","no","veto","abstain","split"}
          Variants,    \* subset of {"A","B"} offered to SetCustom
          CTypes,      \* subset of {"spend","custom"} offered to SetCustom/RemoveCustom
          MaxProp,     \* the environment submits at most MaxProp proposals (the adapter refuses further ones too)
          MaxDep,      \* bound: one depositor's deposit on one proposal
          DepPeriod,   \* MaxDepositPeriod in slots
          BurnPrevote, BurnQuorum, BurnVeto   \* gov params burn_proposal_deposit_prevote / burn_vote_quorum / burn_vote_veto

VARIABLES nid,      \* proposals submitted so far (= last proposal id)
          ptype,    \* [Prop -> "none" | "text" | "spend" | "small" | "custom" | "mixed"]
          phase,    \* [Prop -> "none","deposit","voting","passed","rejected","failed","dropped"]
          ex,       \* [Prop -> BOOLEAN]  expedited
          dep,      \* [Prop -> [Depositor -> Nat]] stored deposit records
          tot,      \* [Prop -> Nat] Proposal.TotalDeposit
          timer,    \* [Prop -> Int] end of the current period minus block time (open proposals), else 0
          per,      \* [Prop -> Nat] voting period fixed at activation, kept for expedited proposals in voting (else 0)
          votes,    \* [Prop -> [Voter -> option | "none"]]
          custom,   \* [CustomizableType -> "none" | variant]
          gov,      \* gov module account balance minus its initial balance
          bal,      \* [Depositor -> Int] balance minus initial balance
          burned,   \* initial supply minus supply
          pool,     \* community pool
          eff,      \* [Prop -> [x, y]] what the proposal's two messages did
          op

svars == <<nid, ptype, phase, ex, dep, tot, timer, per, votes, custom, gov, bal, burned, pool, eff>>
vars  == <<svars, op>>

None      == "none"
Depositor == {"a", "b"}
Voter     == {"v1", "d"}
CustType  == {"spend", "custom"}
Prop      == 1..MaxProp

\* ---- fixed world
Min == 2      ExpMin == 4
VoteD == 2    VoteE == 1
QuorumD == 50
Pool0 == 5
SpendType == {"spend", "small"}          \* community-pool spends (one message type, two requested amounts)
Req(t) == IF t = "spend" THEN 4 ELSE 1   \* requested: >= default/ratio or inside [default, default/ratio) depending
                                         \* on the variant for "spend"; below the default minimum for "small"
PV1 == 100    PD == 50    PTotal == 250
VPeriod(v) == IF v = "A" THEN 3 ELSE 1
VQuorum(v) == IF v = "A" THEN 20 ELSE 70
VRatio(v)  == IF v = "A" THEN 75 ELSE 25

Abs == [nid |-> nid, ptype |-> ptype, phase |-> phase, ex |-> ex, dep |-> dep, tot |-> tot, timer |-> timer,
        per |-> per, votes |-> votes, custom |-> custom, gov |-> gov, bal |-> bal, burned |-> burned,
        pool |-> pool, eff |-> eff]

Op(name, a, p, t, e, n, dn, o, res) ==
  [name |-> name, a |-> a, p |-> p, t |-> t, e |-> e, n |-> n, dn |-> dn, o |-> o, res |-> res]

Zero    == [x |-> 0, y |-> 0]
Full(t) == CASE t = "spend" -> [x |-> 1, y |-> 3] [] t = "small" -> [x |-> 1, y |-> 0]
             [] t = "custom" -> [x |-> 1, y |-> 1] [] OTHER -> Zero
NoVotes == [v \in Voter |-> None]
Open(ph) == ph \in {"deposit", "voting"}
SumDep(d) == d["a"] + d["b"]

Init ==
  /\ nid = 0
  /\ ptype = [p \in Prop |-> None] /\ phase = [p \in Prop |-> None] /\ ex = [p \in Prop |-> FALSE]
  /\ dep = [p \in Prop |-> [a \in Depositor |-> 0]] /\ tot = [p \in Prop |-> 0]
  /\ timer = [p \in Prop |-> 0] /\ per = [p \in Prop |-> 0]
  /\ votes = [p \in Prop |-> NoVotes]
  /\ custom = [t \in CustType |-> None]
  /\ gov = 0 /\ bal = [a \in Depositor |-> 0] /\ burned = 0 /\ pool = Pool0
  /\ eff = [p \in Prop |-> Zero]
  /\ op = Op("Init", None, 0, None, FALSE, 0, None, None, "ok")

Rej(o) == /\ op' = [o EXCEPT !.res = "rej"] /\ UNCHANGED svars

---------------------------------------------------------------------------
(* the rules of the message type *)
CustOf(t, c) == IF t \in SpendType THEN c["spend"] ELSE IF t = "custom" THEN c["custom"] ELSE None

\* minimum total deposit that starts voting: default (expedited default) unless the proposal spends
\* from the community pool and the spend type has custom parameters with a non-zero ratio whose share
\* of the requested amount is not below the default
MinFor(t, e, c) ==
  LET def == IF e THEN ExpMin ELSE Min
      v   == CustOf(t, c)
      pct == VRatio(v) * Req(t)       \* share of the requested amount, in percent of a unit
  IN IF t \in SpendType /\ v # None
        THEN IF pct < def * 100 THEN def ELSE pct \div 100
        ELSE def

PeriodFor(t, e, c) == IF CustOf(t, c) # None THEN VPeriod(CustOf(t, c)) ELSE IF e THEN VoteE ELSE VoteD
QuorumFor(t, c)    == IF CustOf(t, c) # None THEN VQuorum(CustOf(t, c)) ELSE QuorumD

\* smallest single deposit accepted (min-deposit-ratio / min-initial-deposit-ratio 0.5 of the default minimum)
Need(e) == IF e THEN 2 ELSE 1

\* weights (percent) of a vote option on yes / no / veto / abstain
W(o) == CASE o = "yes"     -> [y |-> 100, n |-> 0,   v |-> 0,   a |-> 0]
          [] o = "no"      -> [y |-> 0,   n |-> 100, v |-> 0,   a |-> 0]
          [] o = "veto"    -> [y |-> 0,   n |-> 0,   v |-> 100, a |-> 0]
          [] o = "abstain" -> [y |-> 0,   n |-> 0,   v |-> 0,   a |-> 100]
          [] o = "split"   -> [y |-> 50,  n |-> 50,  v |-> 0,   a |-> 0]
          [] OTHER         -> [y |-> 0,   n |-> 0,   v |-> 0,   a |-> 0]

\* voting power: the validator operator carries its validator's stake minus what voting delegators carry themselves
Pow(vs, who) == IF vs[who] = None THEN 0
                ELSE IF who = "v1" THEN PV1 + (IF vs["d"] = None THEN PD ELSE 0) ELSE PD

\* result of a tally with quorum q (percent): [pass, burn]
Tally(vs, q, e) ==
  LET tp     == Pow(vs, "v1") + Pow(vs, "d")
      S(k)   == Pow(vs, "v1") * W(vs["v1"])[k] + Pow(vs, "d") * W(vs["d"])[k]     \* scale 100
      nonabs == tp * 100 - S("a")
  IN IF tp * 100 < q * PTotal            THEN [pass |-> FALSE, burn |-> BurnQuorum]
     ELSE IF nonabs = 0                  THEN [pass |-> FALSE, burn |-> FALSE]
     ELSE IF S("v") * 1000 > 334 * tp * 100 THEN [pass |-> FALSE, burn |-> BurnVeto]
     ELSE IF S("y") * 10 > (IF e THEN 7 ELSE 5) * nonabs THEN [pass |-> TRUE, burn |-> FALSE]
     ELSE [pass |-> FALSE, burn |-> FALSE]

---------------------------------------------------------------------------
(* MsgSubmitProposal by a with messages of type t (mixed = one spend + one store update), initial deposit n *)
Submit(a, t, e, n) ==
  LET this == Op("Submit", a, 0, t, e, n, "fx", None, "ok")
      p    == nid + 1
      okk  == nid < MaxProp           \* environment bound, mirrored by the adapter
              /\ t # "mixed" /\ n >= Need(e)
  IN IF ~okk THEN Rej(this) ELSE
     LET act == n >= MinFor(t, e, custom)
         pr  == PeriodFor(t, e, custom)
     IN /\ nid' = p
        /\ ptype' = [ptype EXCEPT ![p] = t] /\ ex' = [ex EXCEPT ![p] = e]
        /\ dep' = [dep EXCEPT ![p][a] = n] /\ tot' = [tot EXCEPT ![p] = n]
        /\ phase' = [phase EXCEPT ![p] = IF act THEN "voting" ELSE "deposit"]
        /\ timer' = [timer EXCEPT ![p] = IF act THEN pr ELSE DepPeriod]
        /\ per' = [per EXCEPT ![p] = IF act /\ e THEN pr ELSE 0]
        /\ gov' = gov + n /\ bal' = [bal EXCEPT ![a] = @ - n]
        /\ op' = this
        /\ UNCHANGED <<votes, custom, burned, pool, eff>>

(* MsgDeposit *)
Deposit(a, p, n, dn) ==
  LET this == Op("Deposit", a, p, None, FALSE, n, dn, None, "ok")
      okk  == p <= nid /\ Open(phase[p]) /\ dn = "fx" /\ n >= Need(ex[p])
  IN IF ~okk THEN Rej(this) ELSE
     LET total == tot[p] + n
         act   == phase[p] = "deposit" /\ total >= MinFor(ptype[p], ex[p], custom)
         pr    == PeriodFor(ptype[p], ex[p], custom)
     IN /\ dep' = [dep EXCEPT ![p][a] = @ + n] /\ tot' = [tot EXCEPT ![p] = total]
        /\ phase' = [phase EXCEPT ![p] = IF act THEN "voting" ELSE @]
        /\ timer' = [timer EXCEPT ![p] = IF act THEN pr ELSE @]
        /\ per' = [per EXCEPT ![p] = IF act /\ ex[p] THEN pr ELSE @]
        /\ gov' = gov + n /\ bal' = [bal EXCEPT ![a] = @ - n]
        /\ op' = this
        /\ UNCHANGED <<nid, ptype, ex, votes, custom, burned, pool, eff>>

(* MsgVote / MsgVoteWeighted: replaces the voter's previous vote *)
Vote(v, p, o) ==
  LET this == Op("Vote", v, p, None, FALSE, 0, None, o, "ok")
      okk  == p <= nid /\ phase[p] = "voting"
  IN IF ~okk THEN Rej(this) ELSE
     /\ votes' = [votes EXCEPT ![p][v] = o]
     /\ op' = this
     /\ UNCHANGED <<nid, ptype, phase, ex, dep, tot, timer, per, custom, gov, bal, burned, pool, eff>>

(* MsgUpdateCustomParams by the governance authority: set / remove the parameters of a message type *)
SetCustom(t, v) ==
  /\ custom' = [custom EXCEPT ![t] = v]
  /\ op' = Op("SetCustom", None, 0, t, FALSE, 0, None, v, "ok")
  /\ UNCHANGED <<nid, ptype, phase, ex, dep, tot, timer, per, votes, gov, bal, burned, pool, eff>>
RemoveCustom(t) ==
  /\ custom' = [custom EXCEPT ![t] = None]
  /\ op' = Op("RemoveCustom", None, 0, t, FALSE, 0, None, None, "ok")
  /\ UNCHANGED <<nid, ptype, phase, ex, dep, tot, timer, per, votes, gov, bal, burned, pool, eff>>

---------------------------------------------------------------------------
(* Tick = gov EndBlocker at the current block time, then the next slot.     *)
St == [ptype |-> ptype, phase |-> phase, ex |-> ex, dep |-> dep, tot |-> tot, timer |-> timer, per |-> per,
       votes |-> votes, gov |-> gov, bal |-> bal, burned |-> burned, pool |-> pool, eff |-> eff]

\* refund (to every depositor its own record) or burn all deposits of p; records deleted
Settle(s, p, burn) ==
  LET total == SumDep(s.dep[p])
  IN [s EXCEPT !.dep[p] = [a \in Depositor |-> 0],
               !.gov    = s.gov - total,
               !.bal    = IF burn THEN s.bal ELSE [a \in Depositor |-> s.bal[a] + s.dep[p][a]],
               !.burned = IF burn THEN s.burned + total ELSE s.burned]

\* deposit period over: proposal deleted, deposits refunded or burned
DropOne(s, p) ==
  LET s1 == Settle(s, p, BurnPrevote)
  IN [s1 EXCEPT !.phase[p] = "dropped", !.ptype[p] = None, !.ex[p] = FALSE, !.tot[p] = 0, !.timer[p] = 0]

\* voting period over: tally with the quorum of the message type; settle deposits (unless an expedited
\* proposal falls back to a regular one); execute the messages all-or-nothing
TallyOne(s, p) ==
  LET r    == Tally(s.votes[p], QuorumFor(s.ptype[p], custom), s.ex[p])
      conv == s.ex[p] /\ ~r.pass
      s1   == IF conv THEN s ELSE Settle(s, p, r.burn)
      s2   == [s1 EXCEPT !.votes[p] = NoVotes, !.per[p] = 0]
  IN IF r.pass
       THEN IF s.ptype[p] \in SpendType /\ s2.pool < Req(s.ptype[p])
              THEN [s2 EXCEPT !.phase[p] = "failed", !.timer[p] = 0]
              ELSE [s2 EXCEPT !.phase[p] = "passed", !.timer[p] = 0, !.eff[p] = Full(s.ptype[p]),
                              !.pool = IF s.ptype[p] \in SpendType THEN s2.pool - Req(s.ptype[p]) ELSE s2.pool]
     ELSE IF conv
       \* the code re-queues it at votingStart + DEFAULT voting period (whatever the type's custom period is)
       THEN [s2 EXCEPT !.ex[p] = FALSE, !.timer[p] = VoteD - s.per[p]]
     ELSE [s2 EXCEPT !.phase[p] = "rejected", !.timer[p] = 0]

\* queue order: (end time, id)
Key(s, p) == s.timer[p] * 10 + p
RECURSIVE FoldDrop(_, _)
FoldDrop(s, S) == IF S = {} THEN s
                  ELSE LET p == CHOOSE x \in S : \A y \in S : x <= y IN FoldDrop(DropOne(s, p), S \ {p})
RECURSIVE FoldTally(_, _, _)
FoldTally(s, s0, S) == IF S = {} THEN s
                       ELSE LET p == CHOOSE x \in S : \A y \in S : Key(s0, x) <= Key(s0, y)
                            IN FoldTally(TallyOne(s, p), s0, S \ {p})

Tick ==
  LET dueD == {p \in Prop : phase[p] = "deposit" /\ timer[p] <= 0}
      dueV == {p \in Prop : phase[p] = "voting" /\ timer[p] <= 0}
      s1   == FoldDrop(St, dueD)
      s2   == FoldTally(s1, St, dueV)
  IN /\ ptype' = s2.ptype /\ phase' = s2.phase /\ ex' = s2.ex /\ dep' = s2.dep /\ tot' = s2.tot /\ per' = s2.per
     /\ votes' = s2.votes /\ gov' = s2.gov /\ bal' = s2.bal /\ burned' = s2.burned /\ pool' = s2.pool /\ eff' = s2.eff
     /\ timer' = [p \in Prop |-> IF Open(s2.phase[p]) THEN s2.timer[p] - 1 ELSE 0]
     /\ op' = Op("Tick", None, 0, None, FALSE, 0, None, None, "ok")
     /\ UNCHANGED <<nid, custom>>

Probe == op' = Op("Probe", None, 0, None, FALSE, 0, None, None, "ok") /\ UNCHANGED svars

Next ==
  \/ \E a \in Submitter, t \in Types, e \in ExpSet, n \in InitAmts : Submit(a, t, e, n)
  \/ \E a \in Depositors, p \in 1..MaxProp, n \in DepAmts, dn \in Denoms : Deposit(a, p, n, dn)
  \/ \E v \in Voters, p \in 1..MaxProp, o \in VoteOpts : Vote(v, p, o)
  \/ \E t \in CTypes, v \in Variants : SetCustom(t, v)
  \/ \E t \in CTypes : RemoveCustom(t)
  \/ Tick
  \/ Probe

Spec == Init /\ [][Next]_vars

---------------------------------------------------------------------------
(* PROPERTIES (C15), written from the property text over the state variables and `op` only. *)

SumOver(S, f(_)) == LET g[T \in SUBSET S] == IF T = {} THEN 0
                                              ELSE LET x == CHOOSE y \in T : TRUE IN f(x) + g[T \ {x}]
                    IN g[S]

\* the governance module account holds exactly the deposits of the proposals that are still open
C15_GovHoldsOpenDeposits ==
  gov = SumOver({p \in Prop : Open(phase[p])}, LAMBDA p : SumDep(dep[p]))

\* a proposal that is not open has no deposit record left; an open one's total is the sum of its records
C15_DepositRecordsMatch ==
  \A p \in Prop : /\ ~Open(phase[p]) => \A a \in Depositor : dep[p][a] = 0
                  /\ Open(phase[p]) => tot[p] = SumDep(dep[p])

\* when proposals stop being open, every depositor gets back exactly its recorded deposit, or the
\* whole proposal's deposits are burned - nothing else moves depositor balances or the supply;
\* a closed proposal never opens again (so nothing can be settled twice)
A_C15_DepositSettledOnce ==
  LET Closed == {p \in Prop : Open(phase[p]) /\ ~Open(phase'[p])}
      Stay   == {p \in Prop : Open(phase'[p])}
  IN /\ \E R \in SUBSET Closed :
          /\ \A a \in Depositor :
               bal'[a] - bal[a] = SumOver(R, LAMBDA p : dep[p][a])
                                  - SumOver(Stay, LAMBDA p : dep'[p][a] - dep[p][a])
          /\ burned' - burned = SumOver(Closed \ R, LAMBDA p : SumDep(dep[p]))
     /\ \A p \in Closed : \A a \in Depositor : dep'[p][a] = 0
     /\ \A p \in Prop : (~Open(phase[p]) /\ phase[p] # None) => phase'[p] = phase[p]
     /\ \A p \in Stay, a \in Depositor : dep'[p][a] >= dep[p][a]
C15_DepositSettledOnce == [][A_C15_DepositSettledOnce]_vars

\* voting starts only through a deposit that brings the total to the minimum of the message type
A_C15_VotingOnlyWithMinDeposit ==
  \A p \in Prop : (phase'[p] = "voting" /\ phase[p] # "voting") =>
      /\ op'.name \in {"Submit", "Deposit"} /\ op'.res = "ok"
      /\ phase[p] \in {None, "deposit"}
      /\ SumDep(dep'[p]) >= MinFor(ptype'[p], ex'[p], custom)
C15_VotingOnlyWithMinDeposit == [][A_C15_VotingOnlyWithMinDeposit]_vars
C15_VotingHasBaseMin == \A p \in Prop : phase[p] = "voting" => SumDep(dep[p]) >= Min

\* (non-expedited proposals) the voting period fixed at activation is the one configured for the message
\* type at that moment; the proposal is tallied exactly when that period is over, with the quorum
\* configured for its message type at that moment
A_C15_PeriodAndQuorumByType ==
  \A p \in Prop :
    /\ (phase'[p] = "voting" /\ phase[p] # "voting" /\ ~ex'[p]) => timer'[p] = PeriodFor(ptype'[p], FALSE, custom)
    /\ (phase[p] = "voting" /\ phase'[p] # "voting") => (op'.name = "Tick" /\ timer[p] <= 0)
    /\ (phase[p] = "voting" /\ op'.name # "Tick") => (phase'[p] = "voting" /\ timer'[p] = timer[p])
    /\ (phase[p] = "voting" /\ op'.name = "Tick" /\ timer[p] > 0) => (phase'[p] = "voting" /\ timer'[p] = timer[p] - 1)
    /\ (phase[p] = "voting" /\ op'.name = "Tick" /\ timer[p] <= 0 /\ ~ex[p]) =>
          LET r == Tally(votes[p], QuorumFor(ptype[p], custom), FALSE)
              total == SumDep(dep[p])
          IN /\ r.pass  => phase'[p] \in {"passed", "failed"}
             /\ ~r.pass => phase'[p] = "rejected"
             /\ r.burn  => burned' - burned >= total
             /\ ~r.burn => SumOver(Depositor, LAMBDA a : bal'[a] - bal[a]) >= total
C15_PeriodAndQuorumByType == [][A_C15_PeriodAndQuorumByType]_vars

\* all messages of a proposal are of one type
C15_OneTypePerProposal == \A p \in Prop : ptype[p] # "mixed"
A_C15_MixedRefused == (op'.name = "Submit" /\ op'.t = "mixed") => (op'.res = "rej" /\ nid' = nid)
C15_MixedRefused == [][A_C15_MixedRefused]_vars

\* a passed proposal's messages took effect all together, any other proposal's not at all; the community
\* pool paid exactly the effects
C15_MessagesAllOrNothing ==
  /\ \A p \in Prop : IF phase[p] = "passed" THEN eff[p] = Full(ptype[p]) ELSE eff[p] = Zero
  /\ pool + SumOver({p \in Prop : ptype[p] \in SpendType}, LAMBDA p : eff[p].x + eff[p].y) = Pool0

---------------------------------------------------------------------------
View == svars
Bounded == /\ \A p \in Prop, a \in Depositor : dep'[p][a] <= MaxDep
EdgeDump == /\ IF op.name = "Init" \/ op'.res = "ok"
               THEN PrintT(<<"EDGE", ToJson([from |-> Abs, op |-> op', to |-> Abs'])>>)
               ELSE TRUE
            /\ Bounded
=============================================================================
