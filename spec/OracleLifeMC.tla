---------------------------- MODULE OracleLifeMC ----------------------------
EXTENDS OracleLife
\* amount sets used through `<-` overrides in the cfgs (coins; Thr = 2, Mult = 4 -> stake in [2, 8])
BondQuick == {0, 2, 8, 10}
BondFull  == {0, 2, 4, 8, 10}
AddQuick  == {0, 2, 6}
AddFull   == {-1, 0, 2, 6}
BondDev   == {2, 8}
AddDev    == {2}
=============================================================================
