------------------------------- MODULE Confirm -------------------------------
(***************************************************************************)
(* Confirmations of ONE crosschain module (x/crosschain/keeper/confirm.go: *)
(* ConfirmHandler, OracleSetConfirmHandler, BatchConfirmHandler,           *)
(* BridgeCallConfirmHandler, ValidateConfirmSign; msg_server.go Confirm =  *)
(* the MsgConfirm wrapper).  Property C12, part 1.                         *)
(*                                                                         *)
(* Objects are oracle sets ("os<n>"), outgoing batches ("tb<n>") and       *)
(* outgoing bridge calls ("bc<n>").  The oracle registry is part of the    *)
(* state: the external address of every oracle is fixed by the set-up, the *)
(* bridger of an oracle is replaced by EditBridger (msg_server.go          *)
(* EditBridger).  "That oracle's bridger" lives in two stores: the Oracle  *)
(* record (0x12, read by ValidateConfirmSign) and the bridger -> oracle    *)
(* index (0x14, read by claims and batch requests); both are projected.    *)
(*                                                                         *)
(* A signature is an ABSTRACT class (SigClass).  The harness realises a    *)
(* class with real secp256k1 signatures; which classes verify (under the   *)
(* key behind `ext`, over the checkpoint of exactly the named object, with *)
(* this module's gravity id and message prefix) is decided by an           *)
(* independent verifier in the harness (ecrecover over the prefixed digest *)
(* of a checkpoint recomputed by the harness's own ABI encoder, as         *)
(* FxBridgeLogic.verifySig does) and enters the model as the constant      *)
(* Verifying.                                                              *)
(***************************************************************************)
EXTENDS Integers, Sequences, FiniteSets, TLC, Json

CONSTANTS Oracle,      \* {"o1","o2"}
          Sender,      \* accounts that sign transactions: the bridgers and an unrelated account
          Ext,         \* external addresses: the registered ones and an unregistered one
          Object,      \* object names
          Late,        \* objects created by the Create operation (the others exist initially)
          BridgerOf,   \* [Oracle -> Sender]  registry built by the set-up (initial bridgers)
          ExtOf,       \* [Oracle -> Ext]
          SigClass,    \* abstract signature classes
          Verifying,   \* the classes that verify for exactly (ext's key, this object, this module)
          MaxConfirms, \* bound on the number of stored confirmations (action constraint)
          MaxEdits     \* bound on the number of bridger replacements (action constraint)

ASSUME Late \subseteq Object /\ Verifying \subseteq SigClass

VARIABLES stored,      \* [Object -> BOOLEAN]           the object exists in the module's store
          bridgerOf,   \* [Oracle -> Sender]            registered bridger (Oracle record)
          bridgerIdx,  \* [Sender -> Oracle \cup {"none"}] the oracle an account is bound to as bridger (bridger index)
          extOf,       \* [Oracle -> Ext]               registered external address
          confirms,    \* [Object -> [Oracle -> class]] the class of the stored signature, "none" if no confirmation
          valid,       \* [Object -> [Oracle -> BOOLEAN]] real state: the stored confirmation names this object and this
                       \*   oracle's external address and its signature recovers to that address over the object's
                       \*   checkpoint recomputed independently (TRUE when nothing is stored); model: always TRUE
          stray,       \* number of entries under the confirmation prefixes outside the slots (object, oracle); model: 0
          edits,       \* number of accepted EditBridger so far (bounding counter, not projected)
          op           \* the operation just attempted

None  == "none"
svars == <<stored, bridgerOf, bridgerIdx, extOf, confirms, valid, stray, edits>>
vars  == <<svars, op>>

Abs == [stored |-> stored, bridgerOf |-> bridgerOf, bridgerIdx |-> bridgerIdx, extOf |-> extOf, confirms |-> confirms, valid |-> valid, stray |-> stray]

Op(name, form, wsender, sender, ext, obj, sig, res) ==
  [name |-> name, form |-> form, wsender |-> wsender, sender |-> sender, oracle |-> None, ext |-> ext, obj |-> obj, sig |-> sig, res |-> res]

Init ==
  /\ stored = [ob \in Object |-> ob \notin Late]
  /\ bridgerOf = BridgerOf /\ extOf = ExtOf
  /\ bridgerIdx = [s \in Sender |-> IF \E o \in Oracle : BridgerOf[o] = s THEN CHOOSE o \in Oracle : BridgerOf[o] = s ELSE None]
  /\ edits = 0
  /\ confirms = [ob \in Object |-> [o \in Oracle |-> None]]
  /\ valid = [ob \in Object |-> [o \in Oracle |-> TRUE]]
  /\ stray = 0
  /\ op = Op("Init", None, None, None, None, None, None, "ok")

Rej(o) == /\ op' = [o EXCEPT !.res = "rej"] /\ UNCHANGED svars

OwnerOf(e) == {o \in Oracle : extOf[o] = e}

(* The transaction is signed by `sender` when the specific message is sent (its signer is its own     *)
(* bridger_address) and by `wsender` when the MsgConfirm wrapper is sent (its signer is the wrapper's *)
(* bridger_address; the wrapped confirm still names `sender` as its bridger_address).                 *)
SignerOf(form, wsender, sender) == IF form = "direct" THEN sender ELSE wsender

Confirm(form, wsender, sender, ext, ob, sig) ==
  LET this == Op("Confirm", form, wsender, sender, ext, ob, sig, "ok")
      own  == OwnerOf(ext)
      okk  == /\ stored[ob]
              /\ own # {}
              /\ LET o == CHOOSE x \in own : TRUE IN
                 /\ SignerOf(form, wsender, sender) = sender   \* who signs the transaction is the bridger the confirm names
                 /\ sender = bridgerOf[o]                      \* and that is the bridger of the oracle registered for ext
                 /\ sig \in Verifying                          \* the signature verifies for exactly this object / module / key
                 /\ confirms[ob][o] = None                     \* at most one confirmation per oracle and object
  IN IF ~okk THEN Rej(this) ELSE
     LET o == CHOOSE x \in own : TRUE IN
     /\ confirms' = [confirms EXCEPT ![ob][o] = sig]
     /\ op' = this
     /\ UNCHANGED <<stored, bridgerOf, bridgerIdx, extOf, valid, stray, edits>>

(* The object is created through the module's real entry points (MsgSendToExternal + MsgRequestBatch,  *)
(* MsgBridgeCall); it gets the next nonce of its kind.                                                 *)
Create(ob) ==
  LET this == Op("Create", None, None, None, None, ob, None, "ok")
  IN IF ~(ob \in Late /\ ~stored[ob]) THEN Rej(this) ELSE
     /\ stored' = [stored EXCEPT ![ob] = TRUE]
     /\ op' = this
     /\ UNCHANGED <<bridgerOf, bridgerIdx, extOf, confirms, valid, stray, edits>>

(* MsgEditBridger, signed by the oracle: the oracle replaces its bridger by an account that is not bound   *)
(* to any oracle.  The replaced account is unbound; confirmations already kept stay.                    *)
EditBridger(o, s) ==
  LET this == [Op("EditBridger", None, None, s, None, None, None, "ok") EXCEPT !.oracle = o]
      okk  == bridgerOf[o] # s /\ bridgerIdx[s] = None
  IN IF ~okk THEN Rej(this) ELSE
     /\ bridgerOf' = [bridgerOf EXCEPT ![o] = s]
     /\ bridgerIdx' = [bridgerIdx EXCEPT ![bridgerOf[o]] = None, ![s] = o]
     /\ edits' = edits + 1
     /\ op' = this
     /\ UNCHANGED <<stored, extOf, confirms, valid, stray>>

Probe == op' = Op("Probe", None, None, None, None, None, None, "ok") /\ UNCHANGED svars

Next ==
  \/ \E s \in Sender, e \in Ext, ob \in Object, sg \in SigClass :
        \/ Confirm("direct", None, s, e, ob, sg)
        \/ \E ws \in Sender : Confirm("wrapped", ws, s, e, ob, sg)
  \/ \E ob \in Late : Create(ob)
  \/ \E o \in Oracle, s \in Sender : EditBridger(o, s)
  \/ Probe

Spec == Init /\ [][Next]_vars

Do(e) ==
  CASE e.name = "Confirm" -> Confirm(e.form, e.wsender, e.sender, e.ext, e.obj, e.sig)
    [] e.name = "Create"  -> Create(e.obj)
    [] e.name = "EditBridger" -> EditBridger(e.oracle, e.sender)
    [] OTHER              -> FALSE

---------------------------------------------------------------------------
(* PROPERTIES (C12), over the state variables and `op` only.  They state   *)
(* the property text, not the actions above.                               *)

\* every stored confirmation belongs to a stored object and carries a signature that recovers to the
\* external address registered for that oracle over the checkpoint of exactly that object
C12_ConfirmsAreSigned ==
  \A ob \in Object, o \in Oracle : confirms[ob][o] # None => (stored[ob] /\ valid[ob][o])

\* nothing is kept under the confirmation prefixes except one slot per (object, oracle) ...
C12_OnePerOracleAndObject == stray = 0
\* ... an accepted Confirm fills an EMPTY slot of the named object and of the oracle registered for ext,
\* and a kept confirmation is never replaced or dropped by a later message (replay, malleated twin, …)
A_C12_KeptOnce ==
  /\ \A ob \in Object, o \in Oracle : confirms[ob][o] # None => confirms'[ob][o] = confirms[ob][o]
  /\ (op'.name = "Confirm" /\ op'.res = "ok") =>
        \E o \in OwnerOf(op'.ext) : confirms[op'.obj][o] = None /\ confirms'[op'.obj][o] # None
C12_KeptOnce == [][A_C12_KeptOnce]_vars

\* "that oracle's bridger" is well defined: the account the Oracle record names is bound to exactly that
\* oracle in the bridger index, and no other account is bound to it (after any number of replacements)
C12_BridgerIsWellDefined ==
  /\ \A o \in Oracle : bridgerOf[o] \in Sender /\ bridgerIdx[bridgerOf[o]] = o
  /\ \A s \in Sender : bridgerIdx[s] # None => (bridgerIdx[s] \in Oracle /\ bridgerOf[bridgerIdx[s]] = s)

\* a confirmation appears only by a Confirm for that object, naming the external address registered for
\* that oracle, in a transaction signed by that oracle's bridger, who is also the bridger the confirm names;
\* "that oracle's bridger" = the account the oracle's record names AND that is bound to the oracle (a replaced
\* bridger is neither)
A_C12_OnlyBridgerOfThatOracle ==
  \A ob \in Object, o \in Oracle :
     confirms'[ob][o] # confirms[ob][o] =>
        /\ op'.name = "Confirm" /\ op'.res = "ok"
        /\ op'.obj = ob /\ extOf[o] = op'.ext
        /\ op'.sender = bridgerOf[o]
        /\ op'.sender \in Sender /\ bridgerIdx[op'.sender] = o
        /\ SignerOf(op'.form, op'.wsender, op'.sender) = bridgerOf[o]
C12_OnlyBridgerOfThatOracle == [][A_C12_OnlyBridgerOfThatOracle]_vars

\* the registry changes only by an accepted EditBridger of that oracle: the named account becomes the
\* oracle's bridger (record and binding), the replaced account is unbound, nothing else moves; the
\* external addresses never change
A_C12_BridgerReplacedOnlyByEdit ==
  /\ extOf' = extOf
  /\ IF op'.name = "EditBridger" /\ op'.res = "ok" /\ op'.oracle \in Oracle /\ op'.sender \in Sender
      THEN LET o == op'.oracle  new == op'.sender  old == bridgerOf[o] IN
           /\ new # old /\ bridgerIdx[new] = None                     \* a different account, not bound to any oracle
           /\ bridgerOf' = [bridgerOf EXCEPT ![o] = new]
           /\ old \in Sender => bridgerIdx' = [bridgerIdx EXCEPT ![old] = None, ![new] = o]
      ELSE bridgerOf' = bridgerOf /\ bridgerIdx' = bridgerIdx
C12_BridgerReplacedOnlyByEdit == [][A_C12_BridgerReplacedOnlyByEdit]_vars

\* a signature made for another object, kind, gravity id, chain, prefix or key (or no signature at all) is
\* never accepted and never changes the confirmations; what gets stored is the signature that was sent
A_C12_NoCrossUse ==
  op'.name = "Confirm" =>
     /\ op'.sig \notin Verifying => (op'.res = "rej" /\ confirms' = confirms)
     /\ \A ob \in Object, o \in Oracle : confirms'[ob][o] # confirms[ob][o] => confirms'[ob][o] = op'.sig
C12_NoCrossUse == [][A_C12_NoCrossUse]_vars

\* objects and registry are not touched by confirmations
A_C12_ConfirmTouchesOnlyConfirms ==
  op'.name = "Confirm" => (stored' = stored /\ bridgerOf' = bridgerOf /\ bridgerIdx' = bridgerIdx /\ extOf' = extOf)
C12_ConfirmTouchesOnlyConfirms == [][A_C12_ConfirmTouchesOnlyConfirms]_vars

---------------------------------------------------------------------------
View == svars
NumConfirms(c) == Cardinality({p \in Object \X Oracle : c[p[1]][p[2]] # None})
Bounded == NumConfirms(confirms') <= MaxConfirms /\ edits' <= MaxEdits
EdgeDump == /\ IF op.name = "Init" \/ op'.res = "ok"
               THEN PrintT(<<"EDGE", ToJson([from |-> Abs, op |-> op', to |-> Abs'])>>)
               ELSE TRUE
            /\ Bounded
=============================================================================
