---------------------------- MODULE Erc20RegProp ----------------------------
(* Evaluates Erc20Reg.tla's formulas on behaviours recorded from the real application (see Erc20Prop.tla). *)
EXTENDS Erc20RegMC
CONSTANT TraceFile
VARIABLE l
Trace == ndJsonDeserialize(TraceFile)
Install(st) == /\ reg' = st.reg /\ byDenom' = st.byDenom /\ byTok' = st.byTok /\ aliasIdx' = st.aliasIdx /\ md' = st.md
               /\ UNCHANGED nops
PInit == Init /\ l = 1
PNext == /\ l <= Len(Trace) /\ l' = l + 1
         /\ Install(Trace[l].st) /\ op' = Trace[l].op
PSpec == PInit /\ [][PNext]_<<vars, l>>
R(A) == op'.name = "Reset" \/ A
P_C08_RefusedChangesNothing == [][R(A_C08_RefusedChangesNothing)]_<<vars, l>>
Consumed == TLCGet("stats").diameter - 1 = Len(Trace)
=============================================================================
