---------------------------- MODULE OutgoingBulk ----------------------------
(***************************************************************************)
(* Boundary family of the outgoing pool: MANY pending transfers of one     *)
(* token around the batch size limit (OutgoingTxBatchSize = 100).  A batch  *)
(* takes at most Limit transfers (highest fees first); the others stay in   *)
(* the pool; nothing is lost.  Counts only: pooled / batched per batch.     *)
(* Properties: C04 (nothing the users escrowed disappears) and C05 (every   *)
(* transfer is in exactly one place).                                       *)
(***************************************************************************)
EXTENDS Integers, Sequences, FiniteSets, TLC, Json
CONSTANTS Ks,        \* how many transfers one SendN creates
          Limit,     \* batch size limit of the implementation (100)
          MaxSent, MaxBatches, MaxBlocks, InitBal
VARIABLES bal, sent, pooled, batch, fxH, lastBatchBlk, nsend, op
svars == <<bal, sent, pooled, batch, fxH, lastBatchBlk, nsend>>
vars == <<svars, op>>
Abs == [bal |-> bal, sent |-> sent, pooled |-> pooled, batch |-> batch, fxH |-> fxH]
Op(name, k, res) == [name |-> name, k |-> k, res |-> res]
Init == bal = InitBal /\ sent = 0 /\ pooled = 0 /\ batch = <<>> /\ fxH = 0 /\ lastBatchBlk = -1 /\ nsend = 0 /\ op = Op("Init", 0, "ok")
Rej(o) == op' = [o EXCEPT !.res = "rej"] /\ UNCHANGED svars
Min(a, b) == IF a < b THEN a ELSE b
\* k transfers of amount 1 and fee 1 each by the same user
SendN(k) == LET this == Op("SendN", k, "ok") IN
  IF bal < 2 * k THEN Rej(this) ELSE
  bal' = bal - 2 * k /\ sent' = sent + k /\ pooled' = pooled + k /\ nsend' = nsend + 1 /\ op' = this /\ UNCHANGED <<batch, fxH, lastBatchBlk>>
\* MsgRequestBatch: at most Limit transfers leave the pool; the new batch must not be less profitable than the last one
RequestBatch == LET this == Op("RequestBatch", 0, "ok")
                    take == Min(pooled, Limit)
                    lastFees == IF batch = <<>> THEN 0 ELSE batch[Len(batch)]
                IN
  IF ~(pooled > 0 /\ lastBatchBlk # fxH /\ ~(lastFees > take)) THEN Rej(this) ELSE
  pooled' = pooled - take /\ batch' = Append(batch, take) /\ lastBatchBlk' = fxH /\ op' = this /\ UNCHANGED <<bal, sent, fxH, nsend>>
FxBlock == op' = Op("FxBlock", 0, "ok") /\ fxH' = fxH + 1 /\ UNCHANGED <<bal, sent, pooled, batch, lastBatchBlk, nsend>>
Probe == op' = Op("Probe", 0, "ok") /\ UNCHANGED svars
Next == (\E k \in Ks : SendN(k)) \/ RequestBatch \/ FxBlock \/ Probe
Spec == Init /\ [][Next]_vars

RECURSIVE SumSeq(_)
SumSeq(s) == IF s = <<>> THEN 0 ELSE Head(s) + SumSeq(Tail(s))
\* ---- C04: what the user escrowed is all still accounted for
C04_BulkConservation == bal + 2 * (pooled + SumSeq(batch)) = InitBal
\* ---- C05: every issued transfer is in the pool or in exactly one batch (none lost, none duplicated)
C05_BulkOnePlace == pooled + SumSeq(batch) = sent
C05_BulkBatchWithinLimit == \A i \in 1..Len(batch) : batch[i] >= 1 /\ batch[i] <= Limit
View == svars
Bounded == nsend' <= 3 /\ sent' <= MaxSent /\ Len(batch') <= MaxBatches /\ fxH' <= MaxBlocks
EdgeDump == /\ IF op.name = "Init" \/ op'.res = "ok"
               THEN PrintT(<<"EDGE", ToJson([from |-> Abs, op |-> op', to |-> Abs'])>>)
               ELSE TRUE
            /\ Bounded
=============================================================================
