------------------------------ MODULE Tolerated ------------------------------
(***************************************************************************)
(* C18: where fxcore deliberately continues after a failed sub-step, the   *)
(* state afterwards holds exactly the designated outcome of that failure   *)
(* and nothing written by the failed sub-step itself.                      *)
(*                                                                         *)
(* Four boundaries, one operation Step(b, fp, rf):                         *)
(*  att  - an observed event whose handler fails (processAttestation):     *)
(*         designated outcome = the event is marked observed               *)
(*  call - an inbound bridge call (observed MsgBridgeCallClaim of three    *)
(*         tokens, run by anybody through executeClaim) whose contract     *)
(*         call fails: designated outcome = a refund record (outgoing      *)
(*         bridge call to the refund address rf with exactly the tokens)   *)
(*  gov  - a passed proposal of three messages one of which fails:         *)
(*         designated outcome = the proposal is marked failed              *)
(*  ibc  - an IBC packet whose follow-up (conversion / memo call) fails:   *)
(*         designated outcome = an error acknowledgement                   *)
(* fp is the failure point ("none": no failure - the sub-step's effects    *)
(* are then visible, which shows that the observed components do move).    *)
(*                                                                         *)
(* A received packet has TWO follow-ups after the transfer application has *)
(* minted the voucher: the move of the coin into the EVM and the handling  *)
(* of the memo.  They are independent dimensions of the step: fp says what *)
(* becomes of the first (the coin / receiver class of the packet), mk what *)
(* becomes of the second (the kind of memo).  The step is a tolerated      *)
(* failure as soon as EITHER follow-up fails, whatever the other one does  *)
(* (no memo, a memo that is ignored by design, a call that would succeed,  *)
(* a call that fails too).                                                 *)
(*                                                                         *)
(* `residue` is what the differential oracle of the binding measures: the  *)
(* number of store keys in which the real state after the step differs     *)
(* from the designated outcome produced from the same pre-state by the     *)
(* same code with a sub-step that fails at once.  The design says 0.       *)
(***************************************************************************)
EXTENDS Integers, Sequences, FiniteSets, TLC, Json

CONSTANTS MaxSteps,   \* bound on the number of steps
          AttFp,      \* failure points per boundary (sets of strings, each containing "none")
          CallFp,     \*   "revert0" "revert1" "inv0" "inv1" "under" "jump" "loop" "sct0" "sct1" "gas<k>" "gaslow" "pair1..3" "unknown"
          GovFp,      \*   "first" "middle" "last" "midwrite"
          IbcFp,      \*   first follow-up of a packet (coin into the EVM): "none" voucher with a token pair, converted;
                      \*   "fx" the native coin, nothing to convert; failing: "alias" "unknown" "bech" "pairOff"
          IbcMemo,    \*   second follow-up of a packet (memo): "none" no memo; ignored by design: "text" free text, "json" JSON
                      \*   that is not an ibc call; "call" a call that succeeds; failing: "rev0" "rev1" reverting callee
                      \*   (at once / after a write), "invalid" call packet failing its validation
          Refund      \* refund addresses of inbound calls: "rA" holds nothing, "rB" holds tokens of its own

VARIABLES nobs,    \* events observed (attestation + bridge call claims)
          parked,  \* observed claims waiting to be executed
          nref,    \* refund records (outgoing bridge calls) created
          refs,    \* the refund records: [who, amt] per record
          held,    \* [holder -> Nat]: tokens (coin + ERC-20, all three tokens) held by the call targets and refund addresses
          wslot,   \* storage slots written by the successful call target
          rslot,   \* storage slots written by the targets that write and then revert / hit an invalid opcode
          ntok,    \* bridge tokens registered by successful attestation handlers
          np,      \* proposals decided
          pstat,   \* their final status
          gmark,   \* store keys written by proposal messages
          nin,     \* packets received
          ack,     \* acknowledgement written per packet
          vcred,   \* ERC-20 credited by received packets
          icall,   \* a memo call of a received packet has reached its (successful) callee
          residue, \* differential oracle (see above)
          steps,   \* bounding counter
          op

svars == <<nobs, parked, nref, refs, held, wslot, rslot, ntok, np, pstat, gmark, nin, ack, vcred, icall, residue, steps>>
vars  == <<svars, op>>

Slot    == 1..(MaxSteps + 1)
Holder  == {"worker", "rev0", "rev1", "rA", "rB", "sender", "inv0", "inv1", "under", "jump", "loop"}
CallAmt == <<1, 2, 3>>                 \* the three tokens of every inbound call
NoRef   == [who |-> "none", amt |-> <<0, 0, 0>>]

Abs == [nobs |-> nobs, parked |-> parked, nref |-> nref, refs |-> refs, held |-> held, wslot |-> wslot, rslot |-> rslot,
        ntok |-> ntok, np |-> np, pstat |-> pstat, gmark |-> gmark, nin |-> nin, ack |-> ack, vcred |-> vcred,
        icall |-> icall, residue |-> residue]

Op(name, b, fp, rf, mk, res) == [name |-> name, b |-> b, fp |-> fp, rf |-> rf, mk |-> mk, res |-> res]

\* classification of a packet by what its two follow-ups do (from the packet alone, not from the state)
IbcOkCv    == {"none", "fx"}                 \* coin classes whose move into the EVM succeeds (or is not needed)
IbcBadMemo == {"rev0", "rev1", "invalid"}    \* memo kinds whose handling fails
IbcFails(fp, mk) == fp \notin IbcOkCv \/ mk \in IbcBadMemo

Init ==
  /\ nobs = 0 /\ parked = 0 /\ nref = 0 /\ refs = [i \in Slot |-> NoRef]
  /\ held = [h \in Holder |-> IF h = "rB" THEN 30 ELSE 0]
  /\ wslot = 0 /\ rslot = 0 /\ ntok = 0
  /\ np = 0 /\ pstat = [i \in Slot |-> "none"] /\ gmark = 0
  /\ nin = 0 /\ ack = [i \in Slot |-> "none"] /\ vcred = 0 /\ icall = FALSE
  /\ residue = 0 /\ steps = 0
  /\ op = Op("Init", "none", "none", "none", "none", "ok")

Rej(o) == /\ op' = [o EXCEPT !.res = "rej"] /\ UNCHANGED svars

---------------------------------------------------------------------------
StepAtt(fp) ==
  /\ nobs' = nobs + 1
  /\ ntok' = IF fp = "none" THEN ntok + 1 ELSE ntok          \* the handler's effect only when it succeeds
  /\ UNCHANGED <<parked, nref, refs, held, wslot, rslot, np, pstat, gmark, nin, ack, vcred, icall>>

(* The deposit of the call's tokens and the conversion to ERC-20 belong to  *)
(* the call: when the contract call fails they go back out in the refund    *)
(* record; neither the target nor the refund address keeps or loses a token.*)
(* An unregistered token is not a tolerated failure: executeClaim is        *)
(* refused and the claim stays parked.                                      *)
StepCall(fp, rf) ==
  /\ nobs' = nobs + 1
  /\ CASE fp = "none" ->
            /\ held' = [held EXCEPT !["worker"] = @ + 6] /\ wslot' = 3
            /\ UNCHANGED <<parked, nref, refs>>
       [] fp = "unknown" ->
            /\ parked' = parked + 1
            /\ UNCHANGED <<nref, refs, held, wslot>>
       [] OTHER ->
            /\ nref' = nref + 1
            /\ refs' = [refs EXCEPT ![nref + 1] = [who |-> rf, amt |-> CallAmt]]
            /\ UNCHANGED <<parked, held, wslot>>
  /\ UNCHANGED <<rslot, ntok, np, pstat, gmark, nin, ack, vcred, icall>>

StepGov(fp) ==
  /\ np' = np + 1
  /\ pstat' = [pstat EXCEPT ![np + 1] = IF fp = "none" THEN "passed" ELSE "failed"]
  /\ gmark' = IF fp = "none" THEN gmark + 3 ELSE gmark
  /\ UNCHANGED <<nobs, parked, nref, refs, held, wslot, rslot, ntok, nin, ack, vcred, icall>>

(* Either follow-up failing turns the whole packet into an error            *)
(* acknowledgement: IBC core then discards everything the packet wrote -    *)
(* the voucher of the transfer step, a conversion that succeeded before a   *)
(* failing memo call; no memo call is made after a failed conversion.       *)
StepIbc(fp, mk) ==
  /\ nin' = nin + 1
  /\ ack' = [ack EXCEPT ![nin + 1] = IF IbcFails(fp, mk) THEN "err" ELSE "ok"]
  /\ vcred' = IF ~IbcFails(fp, mk) /\ fp = "none" THEN vcred + 1 ELSE vcred
  /\ icall' = (icall \/ (~IbcFails(fp, mk) /\ mk = "call"))
  /\ UNCHANGED <<nobs, parked, nref, refs, held, wslot, rslot, ntok, np, pstat, gmark>>

Step(b, fp, rf, mk) ==
  /\ CASE b = "att"  -> StepAtt(fp)
       [] b = "call" -> StepCall(fp, rf)
       [] b = "gov"  -> StepGov(fp)
       [] b = "ibc"  -> StepIbc(fp, mk)
  /\ residue' = 0
  /\ steps' = steps + 1
  /\ op' = Op("Step", b, fp, rf, mk, "ok")

Probe == op' = Op("Probe", "none", "none", "none", "none", "ok") /\ UNCHANGED svars

Next ==
  \/ \E fp \in AttFp : Step("att", fp, "none", "none")
  \/ \E fp \in CallFp, rf \in Refund : Step("call", fp, rf, "none")
  \/ \E fp \in GovFp : Step("gov", fp, "none", "none")
  \/ \E fp \in IbcFp, mk \in IbcMemo : Step("ibc", fp, "none", mk)
  \/ Probe

Spec == Init /\ [][Next]_vars

---------------------------------------------------------------------------
(* PROPERTIES (C18) *)

\* nothing of the failed sub-step is left in any store
C18_NoResidue == residue = 0

Failing == op'.name = "Step" /\ op'.fp # "none"       \* att / call / gov (a packet's two follow-ups: see IbcFails)
AttVars  == <<ntok>>
CallVars == <<parked, nref, refs, held, wslot, rslot>>
GovVars  == <<np, pstat, gmark>>
IbcVars  == <<nin, ack, vcred, icall>>

\* an observed event whose handler fails: never refused, marked observed, nothing else
A_C18_AttMarkedObserved ==
  (Failing /\ op'.b = "att") =>
     /\ op'.res = "ok" /\ nobs' = nobs + 1
     /\ UNCHANGED <<AttVars, CallVars, GovVars, IbcVars>>
C18_AttMarkedObserved == [][A_C18_AttMarkedObserved]_vars

\* an inbound call whose contract call fails: never refused and not left parked; exactly one refund record,
\* to the refund address, with exactly the call's tokens; no holder gains or loses a token; no contract storage written
A_C18_CallRefundExact ==
  (Failing /\ op'.b = "call" /\ op'.fp # "unknown") =>
     /\ op'.res = "ok" /\ nobs' = nobs + 1 /\ parked' = parked
     /\ nref' = nref + 1 /\ nref + 1 \in Slot
     /\ refs' = [refs EXCEPT ![nref + 1] = [who |-> op'.rf, amt |-> CallAmt]]
     /\ held' = held /\ wslot' = wslot /\ rslot' = rslot
     /\ UNCHANGED <<AttVars, GovVars, IbcVars>>
C18_CallRefundExact == [][A_C18_CallRefundExact]_vars

\* a passed proposal one of whose messages fails: marked failed, none of its messages' effects
A_C18_GovMarkedFailed ==
  (Failing /\ op'.b = "gov") =>
     /\ op'.res = "ok" /\ np' = np + 1 /\ np + 1 \in Slot
     /\ pstat' = [pstat EXCEPT ![np + 1] = "failed"] /\ gmark' = gmark
     /\ nobs' = nobs /\ UNCHANGED <<AttVars, CallVars, IbcVars>>
C18_GovMarkedFailed == [][A_C18_GovMarkedFailed]_vars

\* a packet one of whose follow-ups fails (the move into the EVM, the memo call - whatever the other one is or does):
\* error acknowledgement, nothing credited, no memo call executed
A_C18_IbcErrorAck ==
  (op'.name = "Step" /\ op'.b = "ibc" /\ IbcFails(op'.fp, op'.mk)) =>
     /\ op'.res = "ok" /\ nin' = nin + 1 /\ nin + 1 \in Slot
     /\ ack' = [ack EXCEPT ![nin + 1] = "err"] /\ vcred' = vcred /\ icall' = icall
     /\ nobs' = nobs /\ UNCHANGED <<AttVars, CallVars, GovVars>>
C18_IbcErrorAck == [][A_C18_IbcErrorAck]_vars

\* refund records are what the failed calls asked for, nothing is parked except calls naming an unregistered token
C18_RefundsWellFormed ==
  /\ \A i \in Slot : IF i <= nref THEN refs[i].who \in Refund /\ refs[i].amt = CallAmt ELSE refs[i] = NoRef
  /\ rslot = 0

---------------------------------------------------------------------------
View == svars
Bounded == steps' <= MaxSteps
EdgeDump == /\ IF op.name = "Init" \/ op'.res = "ok"
               THEN PrintT(<<"EDGE", ToJson([from |-> Abs, op |-> op', to |-> Abs'])>>)
               ELSE TRUE
            /\ Bounded
=============================================================================
