----------------------------- MODULE OracleLife -----------------------------
(***************************************************************************)
(* Life cycle of the oracles of ONE crosschain module and of their stake   *)
(* (x/crosschain/keeper: msg_server.go BondedOracle / AddDelegate /        *)
(* ReDelegate / EditBridger / WithdrawReward / UnbondedOracle, proposal.go *)
(* UpdateProposalOracles / UnbondedOracleFromProposal, oracle.go           *)
(* SlashOracle, abci.go slashing; the real staking, bank and distribution  *)
(* modules underneath).                                                    *)
(*                                                                         *)
(* The three stores of the registry are SEPARATE variables (record fields  *)
(* bridger/ext, index bidx, index eidx) so that disagreement between them  *)
(* is expressible.  Money is counted in "coins": one coin = one power      *)
(* unit = 1e20 base units of the staking token.  Per oracle the spec       *)
(* follows where its stake is: recorded in the oracle record (rec),        *)
(* really delegated by the oracle's keyless delegate address at the        *)
(* record's validator (deleg) or elsewhere (stray), in staking's unbonding *)
(* queue (unb), liquid at the delegate address (dbal), and the oracle      *)
(* account's balance relative to the start (bal).  burned = penalties      *)
(* destroyed so far (decrease of the total supply).                        *)
(*                                                                         *)
(* One action per entry point, every action TOTAL (see HOWTO.md).          *)
(* This module describes the CORRECT design.  Where the code differs the   *)
(* replay shows a deviation and TLC evaluates the C13 formulas on the      *)
(* recorded real behaviour.                                                *)
(***************************************************************************)
EXTENDS Integers, Sequences, FiniteSets, TLC, Json

CONSTANTS Oracle,      \* set of strings
          Bridger,     \* bridger addresses competing for registration
          Ext,         \* external addresses competing for registration (NOT tied to an oracle)
          Val,         \* validators
          BondVals,    \* validators Bond delegates to (subset of Val)
          BondAmts,    \* amounts tried by Bond (coins)
          AddAmts,     \* amounts tried by AddDelegate on top of the penalty owed (-1 = pay one coin less than the penalty)
          Thr, Mult,   \* delegate threshold (coins) and multiple: stake must be in [Thr, Thr*Mult]
          WithRewards, \* BOOLEAN: staking rewards are allocated (Reward)
          WithSlashOp, \* BOOLEAN: keeper-level Slash(o) is part of the alphabet
          WithObjects, \* BOOLEAN: ObjectAges (real end-block slashing path) is part of the alphabet
          MaxBonds, MaxGovs, MaxMops, MaxAges, MaxOps, MaxTime, MaxRewards   \* MaxOps bounds nm + na

VARIABLES reg, online, approved, bridger, ext, val, rec, slashTimes,   \* oracle records (0x12) + proposal list (0x38)
          bidx, eidx,                                                  \* reverse indexes (0x13, 0x14)
          deleg, stray, unb, dbal, bal, redelTo,                       \* staking / bank
          pend, drew, orew,                                            \* reward dust: pending in distribution / at delegate address / received by oracle
          burned, alien, odd,
          obj, late,                                                   \* an oracle-set request awaits its signed window / oracle joined after it
          nb, ng, nm, na, nt, nr,                                      \* bounding counters
          op   \* the operation just attempted: [name, o, b, e, v, n, set, res]

rvars == <<reg, online, approved, bridger, ext, val, rec, slashTimes, bidx, eidx>>
mvars == <<deleg, stray, unb, dbal, bal, redelTo, pend, drew, orew, burned, alien, odd>>
ovars == <<obj, late>>
cvars == <<nb, ng, nm, na, nt, nr>>
svars == <<rvars, mvars, ovars, cvars>>
vars  == <<svars, op>>

None == "none"

Abs == [reg |-> reg, online |-> online, approved |-> approved, bridger |-> bridger, ext |-> ext, val |-> val,
        rec |-> rec, slashTimes |-> slashTimes, bidx |-> bidx, eidx |-> eidx,
        deleg |-> deleg, stray |-> stray, unb |-> unb, dbal |-> dbal, bal |-> bal, redelTo |-> redelTo,
        pend |-> pend, drew |-> drew, orew |-> orew, burned |-> burned, alien |-> alien, odd |-> odd,
        obj |-> obj, late |-> late]

RECURSIVE SumSet(_, _)
SumSet(S, f) == IF S = {} THEN 0 ELSE LET x == CHOOSE y \in S : TRUE IN f[x] + SumSet(S \ {x}, f)
Min2(a, b) == IF a < b THEN a ELSE b

SlashNum == 1      \* params.SlashFraction = 1/2 (set through MsgUpdateParams by the harness)
SlashDen == 2
MaxStake == Thr * Mult

(* Oracle.GetSlashAmount: min(stake, trunc(stake * fraction * slashTimes)) *)
PenaltyOf(r, t) == IF t > 0 THEN Min2(r, (r * t * SlashNum) \div SlashDen) ELSE 0
Penalty(o) == PenaltyOf(rec[o], slashTimes[o])

Op(name, o, b, e, v, n, set, res) ==
  [name |-> name, o |-> o, b |-> b, e |-> e, v |-> v, n |-> n, set |-> set, res |-> res]
AsFun(S) == [o \in Oracle |-> o \in S]

Init ==
  /\ reg = [o \in Oracle |-> FALSE] /\ online = [o \in Oracle |-> FALSE]
  /\ approved = [o \in Oracle |-> TRUE]
  /\ bridger = [o \in Oracle |-> None] /\ ext = [o \in Oracle |-> None] /\ val = [o \in Oracle |-> None]
  /\ rec = [o \in Oracle |-> 0] /\ slashTimes = [o \in Oracle |-> 0]
  /\ bidx = [b \in Bridger |-> None] /\ eidx = [e \in Ext |-> None]
  /\ deleg = [o \in Oracle |-> 0] /\ stray = [o \in Oracle |-> 0] /\ unb = [o \in Oracle |-> 0]
  /\ dbal = [o \in Oracle |-> 0] /\ bal = [o \in Oracle |-> 0] /\ redelTo = [o \in Oracle |-> None]
  /\ pend = [o \in Oracle |-> FALSE] /\ drew = [o \in Oracle |-> FALSE] /\ orew = [o \in Oracle |-> FALSE]
  /\ burned = 0 /\ alien = 0 /\ odd = FALSE
  /\ obj = FALSE /\ late = [o \in Oracle |-> FALSE]
  /\ nb = 0 /\ ng = 0 /\ nm = 0 /\ na = 0 /\ nt = 0 /\ nr = 0
  /\ op = Op("Init", None, None, None, None, 0, <<>>, "ok")

Rej(o) == /\ op' = [o EXCEPT !.res = "rej"] /\ UNCHANGED svars

---------------------------------------------------------------------------
(* MsgBondedOracle: approved by governance, not registered yet, bridger    *)
(* and external address free, amount inside [Thr, Thr*Mult]; the amount    *)
(* moves oracle account -> delegate address -> delegation at validator v.  *)
Bond(o, b, e, a, v) ==
  LET this == Op("Bond", o, b, e, v, a, <<>>, "ok")
      okk  == approved[o] /\ ~reg[o] /\ bidx[b] = None /\ eidx[e] = None /\ a >= Thr /\ a <= MaxStake
  IN IF ~okk THEN Rej(this) ELSE
     /\ reg' = [reg EXCEPT ![o] = TRUE] /\ online' = [online EXCEPT ![o] = TRUE]
     /\ bridger' = [bridger EXCEPT ![o] = b] /\ ext' = [ext EXCEPT ![o] = e] /\ val' = [val EXCEPT ![o] = v]
     /\ rec' = [rec EXCEPT ![o] = a] /\ slashTimes' = [slashTimes EXCEPT ![o] = 0]
     /\ bidx' = [bidx EXCEPT ![b] = o] /\ eidx' = [eidx EXCEPT ![e] = o]
     /\ deleg' = [deleg EXCEPT ![o] = @ + a] /\ bal' = [bal EXCEPT ![o] = @ - a]
     /\ late' = [late EXCEPT ![o] = obj]       \* StartHeight = now: after every request created so far
     /\ nb' = nb + 1 /\ op' = this
     /\ UNCHANGED <<approved, stray, unb, dbal, redelTo, pend, drew, orew, burned, alien, odd, obj, ng, nm, na, nt, nr>>

(* MsgAddDelegate with amount = penalty owed + add.  The penalty is burned  *)
(* from the oracle account, `add` is delegated at the record's validator,   *)
(* the oracle is (re)activated, the slash counter cleared.  CORRECT DESIGN: *)
(* the recorded stake becomes what is really delegated afterwards (stake    *)
(* that governance removal undelegated earlier does not count any more).    *)
AddDelegate(o, add) ==
  LET this == Op("AddDelegate", o, None, None, None, add, <<>>, "ok")
      pen  == Penalty(o)
      new  == deleg[o] + add
      okk  == /\ approved[o] /\ reg[o]
              /\ add >= 0                \* paying less than the penalty is refused
              /\ pen + add > 0           \* a zero amount is refused by stateless validation
              /\ new >= Thr /\ new <= MaxStake
  IN IF ~okk THEN Rej(this) ELSE
     /\ online' = [online EXCEPT ![o] = TRUE] /\ slashTimes' = [slashTimes EXCEPT ![o] = 0]
     /\ rec' = [rec EXCEPT ![o] = new] /\ deleg' = [deleg EXCEPT ![o] = new]
     /\ bal' = [bal EXCEPT ![o] = @ - pen - add] /\ burned' = burned + pen
     \* delegating to an existing delegation pays out its pending rewards to the delegate address
     /\ drew' = [drew EXCEPT ![o] = @ \/ (add > 0 /\ pend[o])]
     /\ pend' = [pend EXCEPT ![o] = IF add > 0 THEN FALSE ELSE @]
     \* an oracle that comes back online (re)joins NOW, whatever took it offline (slash or governance removal)
     /\ late' = [late EXCEPT ![o] = IF online[o] THEN @ ELSE obj]
     /\ nm' = nm + 1 /\ op' = this
     /\ UNCHANGED <<reg, approved, bridger, ext, val, bidx, eidx, stray, unb, dbal, redelTo, orew, alien, odd, obj, nb, ng, na, nt, nr>>

(* MsgReDelegate: online oracle moves its whole delegation to validator v;  *)
(* staking refuses while the source validator still has an incoming         *)
(* (unmatured) redelegation of the same delegator.                          *)
ReDelegate(o, v) ==
  LET this == Op("ReDelegate", o, None, None, v, 0, <<>>, "ok")
      okk  == reg[o] /\ online[o] /\ val[o] # v /\ deleg[o] > 0 /\ redelTo[o] # val[o]
  IN IF ~okk THEN Rej(this) ELSE
     /\ val' = [val EXCEPT ![o] = v] /\ redelTo' = [redelTo EXCEPT ![o] = v]
     /\ drew' = [drew EXCEPT ![o] = @ \/ pend[o]] /\ pend' = [pend EXCEPT ![o] = FALSE]
     /\ nm' = nm + 1 /\ op' = this
     /\ UNCHANGED <<reg, online, approved, bridger, ext, rec, slashTimes, bidx, eidx, deleg, stray, unb, dbal, bal, orew,
                    burned, alien, odd, ovars, nb, ng, na, nt, nr>>

EditBridger(o, b) ==
  LET this == Op("EditBridger", o, b, None, None, 0, <<>>, "ok")
      okk  == reg[o] /\ online[o] /\ bridger[o] # b /\ bidx[b] = None
  IN IF ~okk THEN Rej(this) ELSE
     /\ bidx' = [bidx EXCEPT ![bridger[o]] = None, ![b] = o]
     /\ bridger' = [bridger EXCEPT ![o] = b]
     /\ nm' = nm + 1 /\ op' = this
     /\ UNCHANGED <<reg, online, approved, ext, val, rec, slashTimes, eidx, mvars, ovars, nb, ng, na, nt, nr>>

(* MsgWithdrawReward: online oracle with a delegation; pending rewards go   *)
(* to the delegate address, then EVERYTHING liquid there goes to the oracle *)
(* account (refused when that is nothing).                                  *)
WithdrawReward(o) ==
  LET this == Op("WithdrawReward", o, None, None, None, 0, <<>>, "ok")
      okk  == reg[o] /\ online[o] /\ deleg[o] > 0 /\ (dbal[o] > 0 \/ pend[o] \/ drew[o])
  IN IF ~okk THEN Rej(this) ELSE
     /\ bal' = [bal EXCEPT ![o] = @ + dbal[o]] /\ dbal' = [dbal EXCEPT ![o] = 0]
     /\ orew' = [orew EXCEPT ![o] = @ \/ pend[o] \/ drew[o]]
     /\ pend' = [pend EXCEPT ![o] = FALSE] /\ drew' = [drew EXCEPT ![o] = FALSE]
     /\ nm' = nm + 1 /\ op' = this
     /\ UNCHANGED <<rvars, deleg, stray, unb, redelTo, burned, alien, odd, ovars, nb, ng, na, nt, nr>>

(* MsgUpdateChainOracles(S) by the governance authority.  Refused if the    *)
(* online power removed is > 0 and >= 30% (truncated) of the online power.  *)
(* Registered oracles that leave the list are undelegated completely and go *)
(* offline; the record keeps its stake (it is still owed to the oracle).    *)
(* CORRECT DESIGN: an oracle with nothing delegated is simply set offline.  *)
GovSet(S) ==
  LET this    == Op("GovSet", None, None, None, None, 0, AsFun(S), "ok")
      removed == {o \in Oracle : reg[o] /\ approved[o] /\ o \notin S}
      tot     == SumSet({o \in Oracle : reg[o] /\ online[o]}, rec)
      del     == SumSet({o \in removed : online[o]}, rec)
      okk     == /\ S # {}                    \* an empty list is refused by stateless validation
                 /\ ~(del > 0 /\ del >= (30 * tot) \div 100)
  IN IF ~okk THEN Rej(this) ELSE
     /\ approved' = AsFun(S)
     /\ online' = [o \in Oracle |-> IF o \in removed THEN FALSE ELSE online[o]]
     /\ unb' = [o \in Oracle |-> IF o \in removed THEN unb[o] + deleg[o] ELSE unb[o]]
     /\ deleg' = [o \in Oracle |-> IF o \in removed THEN 0 ELSE deleg[o]]
     /\ drew' = [o \in Oracle |-> IF o \in removed /\ deleg[o] > 0 THEN drew[o] \/ pend[o] ELSE drew[o]]
     /\ pend' = [o \in Oracle |-> IF o \in removed /\ deleg[o] > 0 THEN FALSE ELSE pend[o]]
     /\ ng' = ng + 1 /\ op' = this
     /\ UNCHANGED <<reg, bridger, ext, val, rec, slashTimes, bidx, eidx, stray, dbal, bal, redelTo, orew, burned, alien, odd,
                    ovars, nb, nm, na, nt, nr>>

(* What end-block slashing does to ONE oracle (keeper level; its cause is   *)
(* EndBlock.tla's subject, one real path is ObjectAges below).              *)
Slash(o) ==
  LET this == Op("Slash", o, None, None, None, 0, <<>>, "ok")
      okk  == reg[o] /\ online[o]
  IN IF ~okk THEN Rej(this) ELSE
     /\ online' = [online EXCEPT ![o] = FALSE] /\ slashTimes' = [slashTimes EXCEPT ![o] = @ + 1]
     /\ nm' = nm + 1 /\ op' = this
     /\ UNCHANGED <<reg, approved, bridger, ext, val, rec, bidx, eidx, mvars, ovars, nb, ng, na, nt, nr>>

(* A real oracle-set request is created by the end blocker, the oracles in  *)
(* C confirm every request they are obliged to (created at or after they    *)
(* joined) with real signatures, more than the signed window passes and the *)
(* real end blocker runs: exactly the online oracles outside C go offline   *)
(* and are charged one penalty.  The end blocker of the later block creates *)
(* the next request (if anybody is online): it stays outstanding (obj) and  *)
(* everybody registered now has joined before it (late = FALSE).            *)
ObjectAges(C) ==
  LET this == Op("ObjectAges", None, None, None, None, 0, AsFun(C), "ok")
      hit  == {o \in Oracle : reg[o] /\ online[o] /\ o \notin C}
  IN /\ online' = [o \in Oracle |-> IF o \in hit THEN FALSE ELSE online[o]]
     /\ slashTimes' = [o \in Oracle |-> IF o \in hit THEN slashTimes[o] + 1 ELSE slashTimes[o]]
     /\ obj' = (\E o \in Oracle : reg[o] /\ online'[o])
     /\ late' = [o \in Oracle |-> FALSE]
     /\ na' = na + 1 /\ op' = this
     /\ UNCHANGED <<reg, approved, bridger, ext, val, rec, bidx, eidx, mvars, nb, ng, nm, nt, nr>>

(* The unbonding period passes and staking's end blocker runs: unbonding    *)
(* entries are paid to the delegate address, redelegations mature.          *)
TimePasses ==
  /\ dbal' = [o \in Oracle |-> dbal[o] + unb[o]] /\ unb' = [o \in Oracle |-> 0]
  /\ redelTo' = [o \in Oracle |-> None]
  /\ nt' = nt + 1 /\ op' = Op("TimePasses", None, None, None, None, 0, <<>>, "ok")
  /\ UNCHANGED <<rvars, deleg, stray, bal, pend, drew, orew, burned, alien, odd, ovars, nb, ng, nm, na, nr>>

(* Rewards are allocated to every validator (what distribution's begin      *)
(* blocker does with the collected fees): every existing delegation gets a  *)
(* pending reward (far less than one coin).                                 *)
Reward ==
  /\ pend' = [o \in Oracle |-> pend[o] \/ deleg[o] > 0]
  /\ nr' = nr + 1 /\ op' = Op("Reward", None, None, None, None, 0, <<>>, "ok")
  /\ UNCHANGED <<rvars, deleg, stray, unb, dbal, bal, redelTo, drew, orew, burned, alien, odd, ovars, nb, ng, nm, na, nt>>

(* MsgUnbondedOracle: only for an oracle governance removed, once nothing   *)
(* is unbonding any more: the penalty owed is burned from the delegate      *)
(* address, everything else there goes to the oracle account, record and    *)
(* both indexes are deleted.                                                *)
Unbond(o) ==
  LET this == Op("Unbond", o, None, None, None, 0, <<>>, "ok")
      pen  == Penalty(o)
      okk  == reg[o] /\ ~approved[o] /\ ~online[o] /\ unb[o] = 0 /\ dbal[o] >= pen
  IN IF ~okk THEN Rej(this) ELSE
     /\ reg' = [reg EXCEPT ![o] = FALSE]
     /\ bidx' = [bidx EXCEPT ![bridger[o]] = None] /\ eidx' = [eidx EXCEPT ![ext[o]] = None]
     /\ bridger' = [bridger EXCEPT ![o] = None] /\ ext' = [ext EXCEPT ![o] = None] /\ val' = [val EXCEPT ![o] = None]
     /\ rec' = [rec EXCEPT ![o] = 0] /\ slashTimes' = [slashTimes EXCEPT ![o] = 0]
     /\ burned' = burned + pen
     /\ bal' = [bal EXCEPT ![o] = @ + dbal[o] - pen] /\ dbal' = [dbal EXCEPT ![o] = 0]
     /\ orew' = [orew EXCEPT ![o] = @ \/ drew[o]] /\ drew' = [drew EXCEPT ![o] = FALSE]
     /\ late' = [late EXCEPT ![o] = FALSE]
     /\ op' = this
     /\ UNCHANGED <<online, approved, deleg, stray, unb, redelTo, pend, alien, odd, obj, cvars>>

GovSets == SUBSET Oracle

Probe == op' = Op("Probe", None, None, None, None, 0, <<>>, "ok") /\ UNCHANGED svars

Next ==
  \/ \E o \in Oracle, b \in Bridger, e \in Ext, a \in BondAmts, v \in BondVals : Bond(o, b, e, a, v)
  \/ \E o \in Oracle, a \in AddAmts : AddDelegate(o, a)
  \/ \E o \in Oracle, v \in Val : ReDelegate(o, v)
  \/ \E o \in Oracle, b \in Bridger : EditBridger(o, b)
  \/ \E o \in Oracle : WithdrawReward(o) \/ Unbond(o)
  \/ (WithSlashOp /\ \E o \in Oracle : Slash(o))
  \/ \E S \in GovSets : GovSet(S)
  \/ (WithObjects /\ \E C \in GovSets : ObjectAges(C))
  \/ TimePasses
  \/ (WithRewards /\ Reward)
  \/ Probe

Spec == Init /\ [][Next]_vars

---------------------------------------------------------------------------
(* PROPERTY C13, written from the property text; every formula is over the *)
(* state variables and `op` only, so TLC evaluates them on the model and on *)
(* behaviours recorded from the real keeper (OracleLifeProp.tla).           *)

\* -- "Each oracle, bridger address and external address belongs to at most one oracle record and
\*     the lookup indexes always agree with the records"
C13_IndexesOneToOne ==
  /\ alien = 0                                   \* no record / index entry outside the name space
  /\ \A o \in Oracle :
        IF reg[o]
        THEN /\ bridger[o] \in Bridger /\ ext[o] \in Ext
             /\ bidx[bridger[o]] = o /\ eidx[ext[o]] = o          \* total on records
        ELSE bridger[o] = None /\ ext[o] = None
  /\ \A b \in Bridger : bidx[b] # None =>                         \* empty elsewhere, agree with the record
        /\ bidx[b] \in Oracle /\ reg[bidx[b]] /\ bridger[bidx[b]] = b
  /\ \A e \in Ext : eidx[e] # None =>
        /\ eidx[e] \in Oracle /\ reg[eidx[e]] /\ ext[eidx[e]] = e
  /\ \A o1, o2 \in Oracle : (o1 # o2 /\ reg[o1] /\ reg[o2]) =>    \* injective
        /\ bridger[o1] # bridger[o2] /\ ext[o1] # ext[o2]

\* -- "only oracles approved by governance can bond, with stake inside the configured bounds"
A_C13_OnlyApprovedBond ==
  /\ (op'.name = "Bond" /\ op'.res = "ok") =>
        /\ approved[op'.o] /\ ~reg[op'.o] /\ reg'[op'.o]
        /\ op'.n >= Thr /\ op'.n <= MaxStake /\ rec'[op'.o] = op'.n
  /\ \A o \in Oracle : (~reg[o] /\ reg'[o]) =>                    \* a record appears only by an approved Bond
        /\ op'.name = "Bond" /\ op'.res = "ok" /\ op'.o = o /\ approved[o]
  /\ \A o \in Oracle : (reg'[o] /\ ~online[o] /\ online'[o]) =>   \* (re)activation only for an approved oracle
        /\ op'.name \in {"Bond", "AddDelegate"} /\ op'.res = "ok" /\ op'.o = o /\ approved[o]
C13_OnlyApprovedBond == [][A_C13_OnlyApprovedBond]_vars

C13_StakeInBounds == \A o \in Oracle : reg[o] => (rec[o] >= Thr /\ rec[o] <= MaxStake)

\* -- "The stake recorded for an oracle is exactly what it transferred and is delegated on its behalf"
\*    while something is delegated the record says exactly that; an oracle is online only with its
\*    stake delegated; after governance undelegated it the recorded stake is still held for it
\*    (unbonding or liquid at its delegate address).
C13_StakeMatchesDelegation ==
  \A o \in Oracle : reg[o] =>
     /\ stray[o] = 0
     /\ deleg[o] > 0 => rec[o] = deleg[o]
     /\ deleg[o] = 0 => (~online[o] /\ unb[o] + dbal[o] >= rec[o])

\* -- nothing is created, nothing disappears: every coin an oracle transferred is delegated, unbonding,
\*    liquid at its delegate address, back on its account, or was burned as a penalty
Held(o) == bal[o] + deleg[o] + stray[o] + unb[o] + dbal[o]
C13_NoValueCreated ==
  /\ ~odd
  /\ \A o \in Oracle : Held(o) <= 0
  /\ SumSet(Oracle, [o \in Oracle |-> Held(o)]) + burned = 0

\* -- "slashing penalties never exceed the stake and are charged once"
C13_PenaltyBounded == \A o \in Oracle : reg[o] => (Penalty(o) <= rec[o] /\ slashTimes[o] >= 0)
A_C13_PenaltyOnce ==
  LET d == burned' - burned IN
  /\ d >= 0
  /\ d > 0 => /\ op'.name \in {"AddDelegate", "Unbond"} /\ op'.res = "ok" /\ op'.o \in Oracle
              /\ LET o == op'.o IN
                 /\ reg[o] /\ slashTimes[o] > 0
                 /\ d = Penalty(o) /\ d <= rec[o]
                 /\ reg'[o] => slashTimes'[o] = 0             \* the same slash cannot be charged again
  /\ \A o \in Oracle : (reg[o] /\ reg'[o] /\ slashTimes'[o] < slashTimes[o]) =>     \* a slash is forgotten only when paid
        /\ op'.o = o /\ op'.res = "ok" /\ op'.name = "AddDelegate" /\ d = Penalty(o)
  /\ \A o \in Oracle : (reg[o] /\ ~reg'[o] /\ slashTimes[o] > 0) => d = Penalty(o)
C13_PenaltyOnce == [][A_C13_PenaltyOnce]_vars

\* -- "after governance removes an oracle and the unbonding period has passed the oracle can withdraw
\*     its stake minus penalties exactly once"
A_C13_RecoverableOnce ==
  /\ op'.name = "Unbond" =>
       LET o == op'.o IN
       \* must succeed: removed by governance, nothing unbonding any more
       /\ (reg[o] /\ ~approved[o] /\ unb[o] = 0) => op'.res = "ok"
       /\ op'.res = "ok" =>
            /\ reg[o] /\ ~approved[o] /\ ~reg'[o]
            /\ bal'[o] = bal[o] + dbal[o] - (burned' - burned)     \* stake minus penalty to the oracle account
            /\ burned' - burned = Penalty(o)
            /\ bridger[o] \in Bridger => bidx'[bridger[o]] = None   \* indexes deleted
            /\ ext[o] \in Ext => eidx'[ext[o]] = None
            /\ deleg'[o] = 0 /\ stray'[o] = 0 /\ unb'[o] = 0 /\ dbal'[o] = 0 /\ ~drew'[o] /\ ~pend'[o]
  \* the oracle account is paid only by its own Unbond / WithdrawReward, and only what sits at its delegate address
  /\ \A o \in Oracle : bal'[o] > bal[o] =>
       /\ op'.name \in {"Unbond", "WithdrawReward"} /\ op'.res = "ok" /\ op'.o = o
       /\ bal'[o] - bal[o] <= dbal[o] /\ dbal'[o] = 0
  \* a record disappears only by Unbond
  /\ \A o \in Oracle : (reg[o] /\ ~reg'[o]) => (op'.name = "Unbond" /\ op'.res = "ok" /\ op'.o = o)
C13_RecoverableOnce == [][A_C13_RecoverableOnce]_vars
\* nothing is left behind for an oracle without a record (it could never be claimed)
C13_NothingLeftBehind ==
  \A o \in Oracle : ~reg[o] => (deleg[o] = 0 /\ stray[o] = 0 /\ unb[o] = 0 /\ dbal[o] = 0 /\ ~drew[o] /\ ~pend[o])

\* governance can always remove oracles (the pre-condition of recoverability): a list update is refused
\* only for an empty list or for the 30% power-change cap
A_C13_RemovalNotBlocked ==
  (op'.name = "GovSet" /\ op'.res = "rej") =>
     LET removed == {o \in Oracle : reg[o] /\ approved[o] /\ ~op'.set[o]}
         tot     == SumSet({o \in Oracle : reg[o] /\ online[o]}, rec)
         del     == SumSet({o \in removed : online[o]}, rec)
     IN (\A o \in Oracle : ~op'.set[o]) \/ (del > 0 /\ del >= (30 * tot) \div 100)
C13_RemovalNotBlocked == [][A_C13_RemovalNotBlocked]_vars

\* -- "An oracle is taken offline and penalised only for [a request] that it left unconfirmed ...;
\*     an oracle that confirms in time is never penalised"
A_C13_ConfirmerNeverSlashed ==
  op'.name = "ObjectAges" =>
     \A o \in Oracle : (reg[o] /\ online[o] /\ op'.set[o]) => (online'[o] /\ slashTimes'[o] = slashTimes[o])
C13_ConfirmerNeverSlashed == [][A_C13_ConfirmerNeverSlashed]_vars
A_C13_OfflineOnlyForCause ==
  /\ \A o \in Oracle : (reg[o] /\ online[o] /\ reg'[o] /\ ~online'[o]) =>
        \/ (op'.name = "Slash" /\ op'.o = o)
        \/ (op'.name = "ObjectAges" /\ ~op'.set[o])
        \/ (op'.name = "GovSet" /\ op'.res = "ok" /\ approved[o] /\ ~op'.set[o])
  /\ \A o \in Oracle : (reg[o] /\ reg'[o] /\ slashTimes'[o] > slashTimes[o]) =>
        /\ slashTimes'[o] = slashTimes[o] + 1 /\ online[o] /\ ~online'[o]
        /\ \/ (op'.name = "Slash" /\ op'.o = o)
           \/ (op'.name = "ObjectAges" /\ ~op'.set[o])
C13_OfflineOnlyForCause == [][A_C13_OfflineOnlyForCause]_vars
\* -- "only for [a request] that was created after it joined": an oracle joins anew every time it is (re)activated
\*    (bonded, or brought back online after a slash OR after a governance removal): from then on it counts as having
\*    joined after every request still awaiting its signed window, and is not answerable for those.
\*    (late[o] is projected from the record's real StartHeight against the heights of the outstanding requests.)
A_C13_JoinedOnActivation ==
  /\ \A o \in Oracle : (reg'[o] /\ ~online[o] /\ online'[o]) => (late'[o] <=> obj')
  /\ \A o \in Oracle : late'[o] => (reg'[o] /\ obj')
C13_JoinedOnActivation == [][A_C13_JoinedOnActivation]_vars

---------------------------------------------------------------------------
(* model-checking plumbing *)
View == svars
Bounded == nb' <= MaxBonds /\ ng' <= MaxGovs /\ nm' <= MaxMops /\ na' <= MaxAges /\ nm' + na' <= MaxOps /\ nt' <= MaxTime /\ nr' <= MaxRewards
EdgeDump == /\ IF op.name = "Init" \/ op'.res = "ok"
               THEN PrintT(<<"EDGE", ToJson([from |-> Abs, op |-> op', to |-> Abs'])>>)
               ELSE TRUE
            /\ Bounded
=============================================================================
