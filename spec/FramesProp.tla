----------------------------- MODULE FramesProp -----------------------------
(* Evaluates Frames.tla's property formulas on behaviours recorded from the real application
   (see AttestProp.tla for the scheme). *)
EXTENDS FramesMC
CONSTANT TraceFile
VARIABLE l
Trace == ndJsonDeserialize(TraceFile)

Install(st) ==
  /\ nat' = st.nat /\ evm' = st.evm /\ status' = st.status /\ ntx' = st.ntx /\ leak' = st.leak /\ split' = st.split

PInit == Init /\ l = 1
PNext == /\ l <= Len(Trace) /\ l' = l + 1
         /\ Install(Trace[l].st) /\ op' = Trace[l].op
PSpec == PInit /\ [][PNext]_<<vars, l>>

R(A) == op'.name = "Reset" \/ A
P_C09_AllOrNothing      == [][R(A_C09_AllOrNothing)]_<<vars, l>>
P_C09_NothingWhenFailed == [][R(A_C09_NothingWhenFailed)]_<<vars, l>>
P_C09_Status            == [][R(A_C09_Status)]_<<vars, l>>
P_C09_InvalidNoEffect   == [][R(A_C09_InvalidNoEffect)]_<<vars, l>>
P_C09_AbortNoEffect     == [][R(A_C09_AbortNoEffect)]_<<vars, l>>

Consumed == TLCGet("stats").diameter - 1 = Len(Trace)
=============================================================================
