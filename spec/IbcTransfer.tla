----------------------------- MODULE IbcTransfer -----------------------------
(***************************************************************************)
(* ICS-20 transfers through fxcore's IBC middleware (x/ibc/middleware:     *)
(* OnRecvPacket / OnAcknowledgementPacket / OnTimeoutPacket, HandlerIbcCall;*)
(* x/crosschain/precompile crossChain with an IBC target; MsgTransfer;     *)
(* x/crosschain/keeper many_to_one.go IBCCoinToEvm / IBCCoinRefund /       *)
(* AfterIBCAckSuccess; x/erc20 transfer relation, store prefix 0x04).      *)
(*                                                                         *)
(* fxcore's side of every channel in Chan is modelled; the other chain is  *)
(* the environment: it sends packets (Recv), and answers fxcore's packets  *)
(* with a success acknowledgement, an error acknowledgement or not at all  *)
(* (Timeout).  Every answer and every packet may be relayed again.         *)
(*                                                                         *)
(* Tokens: FX (native), T (coin "usdt" registered by governance, with one  *)
(* IBC voucher alias per channel; the parked vouchers are `pool`), V (the  *)
(* voucher of a foreign denom registered one-to-one, per channel; only     *)
(* inbound).  Holdings of T: coin form `coin["T"]` and ERC-20 form `erc`.  *)
(*                                                                         *)
(* One action per entry point, total; op = the operation just attempted.   *)
(***************************************************************************)
EXTENDS Integers, Sequences, FiniteSets, TLC, Json

CONSTANTS Acct,      \* local key-controlled accounts (strings)
          Chan,      \* fxcore's channel ids (strings, e.g. "channel-0")
          Amt,       \* amounts a packet may carry
          MaxSeq,    \* bound: packets sent per channel
          MaxIn,     \* bound: packets received per channel
          InitFx, InitCoin, InitErc,   \* initial holdings per account: FX coin, T coin, T ERC-20
          InitEsc,   \* FX escrowed per channel at the start (left earlier)
          InitPool,  \* T vouchers parked per channel at the start (arrived earlier)
          Form,      \* receiver forms of inbound packets, subset of {"bech", "hex"}
          Dn,        \* denom classes of inbound packets, subset of {"fx", "tb", "t1", "vx", "f1", "fh"}:
                     \*   FX coming home / bridged alias of T / registered voucher V / unknown voucher /
                     \*   the other chain's OWN token named "FX" (a foreign voucher here) / the same name after a multi-hop path
          WChan,     \* channels on which the voucher of the foreign token named "FX" has a registered pair
          Memo       \* memo classes, subset of {"none", "junk", "good", "goodAs", "bad"}

VARIABLES coin,   \* [Tok -> [Acct -> Nat]]   bank balances (FX, T base coin)
          erc,    \* [Acct -> Nat]            ERC-20 balance of T
          other,  \* [Acct -> Nat]            bank balance in any other denom (vouchers) - stays 0
          nseq,   \* [Chan -> Nat]            packets sent so far
          out,    \* [Chan -> Seq(record)]    per sequence: [st, u, tok, amt, evm]; st in none/open/done
          rel,    \* [Chan -> Seq(BOOLEAN)]   erc20 store 0x04: transfer relation (channel, sequence)
          relx,   \* relation records outside the modelled sequences (stays 0)
          nin,    \* [Chan -> Nat]            packets the other chain has sent to us
          ack,    \* [Chan -> Seq(String)]    acknowledgement fxcore wrote per inbound sequence: none/ok/err
          esc,    \* [Chan -> [Tok -> Nat]]   escrow account of the channel
          pool,   \* [Chan -> Nat]            vouchers of T parked in the transfer module account
          vrc,    \* [Chan -> [Acct -> Nat]]  ERC-20 balance of V(channel)
          vpool,  \* [Chan -> Nat]            vouchers of V held by the transfer module account
          caller, \* msg.sender seen by the contract a memo call targets (last call)
          op

svars == <<coin, erc, other, nseq, out, rel, relx, nin, ack, esc, pool, vrc, vpool, caller>>
vars  == <<svars, op>>

Tok   == {"FX", "T"}
Calls == {"good", "goodAs"}          \* memo calls that succeed (goodAs: the packet names a LOCAL account as sender)
SeqNo == 1..(MaxSeq + 1)             \* one beyond the bound: the frontier state is still printed and replayed
InNo  == 1..(MaxIn + 1)

Abs == [coin |-> coin, erc |-> erc, other |-> other, nseq |-> nseq, out |-> out, rel |-> rel, relx |-> relx,
        nin |-> nin, ack |-> ack, esc |-> esc, pool |-> pool, vrc |-> vrc, vpool |-> vpool, caller |-> caller]

NoneRec == [st |-> "none", u |-> "none", tok |-> "none", amt |-> 0, evm |-> FALSE]
DoneRec == [NoneRec EXCEPT !.st = "done"]
Imd(ch, m) == "imd/" \o ch \o "/" \o m    \* IntermediateSender(port, counterparty channel of ch, sender named by m)

Op(name, ch, u, tok, a, s, rf, dn, memo, res) ==
  [name |-> name, ch |-> ch, u |-> u, tok |-> tok, a |-> a, s |-> s, rf |-> rf, dn |-> dn, memo |-> memo, res |-> res]

Init ==
  /\ coin = [t \in Tok |-> [u \in Acct |-> IF t = "FX" THEN InitFx ELSE InitCoin]]
  /\ erc = [u \in Acct |-> InitErc] /\ other = [u \in Acct |-> 0]
  /\ nseq = [c \in Chan |-> 0] /\ nin = [c \in Chan |-> 0]
  /\ out = [c \in Chan |-> [s \in SeqNo |-> NoneRec]]
  /\ rel = [c \in Chan |-> [s \in SeqNo |-> FALSE]] /\ relx = 0
  /\ ack = [c \in Chan |-> [i \in InNo |-> "none"]]
  /\ esc = [c \in Chan |-> [t \in Tok |-> IF t = "FX" THEN InitEsc ELSE 0]]
  /\ pool = [c \in Chan |-> InitPool]
  /\ vrc = [c \in Chan |-> [u \in Acct |-> 0]] /\ vpool = [c \in Chan |-> 0]
  /\ caller = "none"
  /\ op = Op("Init", "none", "none", "none", 0, 0, "none", "none", "none", "ok")

Rej(o) == /\ op' = [o EXCEPT !.res = "rej"] /\ UNCHANGED svars

---------------------------------------------------------------------------
(* crossChain precompile with an IBC target, in an EVM transaction of u.   *)
(* FX: msg.value (the "origin token": plain ICS-20 escrow, no relation).   *)
(* T : ERC-20 pulled and burnt, the base coin swapped for a parked voucher *)
(*     of the channel, the voucher sent (burnt by ICS-20); the relation    *)
(*     (channel, sequence) remembers that a refund must go back to ERC-20. *)
SendFromEvm(u, tok, ch, a) ==
  LET this == Op("SendFromEvm", ch, u, tok, a, 0, "none", "none", "none", "ok")
      s    == nseq[ch] + 1
      okk  == IF tok = "FX" THEN coin["FX"][u] >= a ELSE erc[u] >= a /\ pool[ch] >= a
  IN IF ~okk THEN Rej(this) ELSE
     /\ IF tok = "FX"
        THEN /\ coin' = [coin EXCEPT !["FX"][u] = @ - a] /\ esc' = [esc EXCEPT ![ch]["FX"] = @ + a]
             /\ UNCHANGED <<erc, pool, rel>>
        ELSE /\ erc' = [erc EXCEPT ![u] = @ - a] /\ pool' = [pool EXCEPT ![ch] = @ - a]
             /\ rel' = [rel EXCEPT ![ch][s] = TRUE]
             /\ UNCHANGED <<coin, esc>>
     /\ out' = [out EXCEPT ![ch][s] = [st |-> "open", u |-> u, tok |-> tok, amt |-> a, evm |-> TRUE]]
     /\ nseq' = [nseq EXCEPT ![ch] = s]
     /\ op' = this
     /\ UNCHANGED <<other, relx, nin, ack, vrc, vpool, caller>>

(* MsgTransfer of a coin: escrowed (both denoms are native to fxcore).     *)
SendFromCosmos(u, tok, ch, a) ==
  LET this == Op("SendFromCosmos", ch, u, tok, a, 0, "none", "none", "none", "ok")
      s    == nseq[ch] + 1
  IN IF coin[tok][u] < a THEN Rej(this) ELSE
     /\ coin' = [coin EXCEPT ![tok][u] = @ - a] /\ esc' = [esc EXCEPT ![ch][tok] = @ + a]
     /\ out' = [out EXCEPT ![ch][s] = [st |-> "open", u |-> u, tok |-> tok, amt |-> a, evm |-> FALSE]]
     /\ nseq' = [nseq EXCEPT ![ch] = s]
     /\ op' = this
     /\ UNCHANGED <<erc, other, rel, relx, nin, ack, pool, vrc, vpool, caller>>

(* MsgAcknowledgement with a success acknowledgement: the transfer is over, *)
(* its tracking record goes.  A replay (or an answer to a packet never     *)
(* sent) finds no commitment: nothing happens.                             *)
AckSuccess(ch, s) ==
  LET this == Op("AckSuccess", ch, "none", "none", 0, s, "none", "none", "none", "ok")
  IN IF out[ch][s].st # "open" THEN Rej(this) ELSE
     /\ out' = [out EXCEPT ![ch][s] = DoneRec]
     /\ rel' = [rel EXCEPT ![ch][s] = FALSE]
     /\ op' = this
     /\ UNCHANGED <<coin, erc, other, nseq, relx, nin, ack, esc, pool, vrc, vpool, caller>>

(* error acknowledgement / timeout: exactly the amount goes back to the    *)
(* sender, in the form it was taken from; the relation is consumed.        *)
Refund(name, ch, s) ==
  LET this == Op(name, ch, "none", "none", 0, s, "none", "none", "none", "ok")
      r    == out[ch][s]
  IN IF r.st # "open" THEN Rej(this) ELSE
     /\ IF r.tok = "T" /\ r.evm
        THEN /\ erc' = [erc EXCEPT ![r.u] = @ + r.amt] /\ pool' = [pool EXCEPT ![ch] = @ + r.amt]
             /\ UNCHANGED <<coin, esc>>
        ELSE /\ coin' = [coin EXCEPT ![r.tok][r.u] = @ + r.amt] /\ esc' = [esc EXCEPT ![ch][r.tok] = @ - r.amt]
             /\ UNCHANGED <<erc, pool>>
     /\ out' = [out EXCEPT ![ch][s] = DoneRec]
     /\ rel' = [rel EXCEPT ![ch][s] = FALSE]
     /\ op' = this
     /\ UNCHANGED <<other, nseq, relx, nin, vrc, vpool, ack, caller>>

RECURSIVE SumSet(_, _)
SumSet(S, f) == IF S = {} THEN 0 ELSE LET x == CHOOSE y \in S : TRUE IN f[x] + SumSet(S \ {x}, f)
OpenAmt(c, t, e) == SumSet({s \in SeqNo : out[c][s].st = "open" /\ out[c][s].tok = t /\ out[c][s].evm \in e},
                           [s \in SeqNo |-> out[c][s].amt])
\* FX the other chain holds as vouchers of channel c: escrowed here and not in flight
TheirFx(c) == esc[c]["FX"] - OpenAmt(c, "FX", BOOLEAN)

(* The other chain sends its next packet over ch: receiver u in bech32 or   *)
(* hex form, denom class dn, memo class, amount a; relayed with            *)
(* MsgRecvPacket.  Either everything (credit, conversion, memo call)       *)
(* succeeds and the success acknowledgement is written, or the error       *)
(* acknowledgement is written and nothing else changes.                    *)
(*   fx : FX that left over ch comes home - paid from the escrow as coin   *)
(*   tb : the voucher alias of T - on this tree it can never be converted  *)
(*        (ibc-go writes bank metadata for the voucher, after which        *)
(*        crosschain.ManyToOne takes it for a base denom): always refused  *)
(*   t1 : V - converted to ERC-20 for a hex receiver, refused for bech32   *)
(*   vx : unknown voucher - refused                                        *)
(*   f1 : the other chain's own token that is merely NAMED "FX": a foreign  *)
(*        voucher like V (ERC-20 for a hex receiver where it has a pair,    *)
(*        refused otherwise); fh: the same name behind a multi-hop path,    *)
(*        never registered - refused.  vrc/vpool count V and W together.    *)
Recv(ch, u, rf, dn, memo, a) ==
  LET this == Op("Recv", ch, u, "none", a, 0, rf, dn, memo, "ok")
      i    == nin[ch] + 1
      cred == CASE dn = "fx" -> TRUE
                [] dn = "t1" -> rf = "hex"
                [] dn = "f1" -> rf = "hex" /\ ch \in WChan
                [] OTHER     -> FALSE
      good == cred /\ memo # "bad"
      \* environment: an honest other chain can only send home FX it has received (escrowed and not in flight)
      envok == dn = "fx" => TheirFx(ch) >= a
  IN IF ~envok THEN Rej(this) ELSE
     /\ nin' = [nin EXCEPT ![ch] = i]
     /\ ack' = [ack EXCEPT ![ch][i] = IF good THEN "ok" ELSE "err"]
     /\ IF good /\ dn = "fx"
        THEN coin' = [coin EXCEPT !["FX"][u] = @ + a] /\ esc' = [esc EXCEPT ![ch]["FX"] = @ - a]
        ELSE UNCHANGED <<coin, esc>>
     /\ IF good /\ dn \in {"t1", "f1"}
        THEN vrc' = [vrc EXCEPT ![ch][u] = @ + a] /\ vpool' = [vpool EXCEPT ![ch] = @ + a]
        ELSE UNCHANGED <<vrc, vpool>>
     /\ caller' = IF good /\ memo \in Calls THEN Imd(ch, memo) ELSE caller
     /\ op' = this
     /\ UNCHANGED <<erc, other, nseq, out, rel, relx, pool>>

(* the i-th inbound packet relayed again (or a packet never sent): refused *)
RecvReplay(ch, i) ==
  Rej(Op("RecvReplay", ch, "none", "none", 0, i, "none", "none", "none", "ok"))

Probe == op' = Op("Probe", "none", "none", "none", 0, 0, "none", "none", "none", "ok") /\ UNCHANGED svars

Next ==
  \/ \E ch \in Chan, u \in Acct, tok \in Tok, a \in Amt : SendFromEvm(u, tok, ch, a) \/ SendFromCosmos(u, tok, ch, a)
  \/ \E ch \in Chan, s \in SeqNo : AckSuccess(ch, s) \/ Refund("AckError", ch, s) \/ Refund("Timeout", ch, s)
  \/ \E ch \in Chan, u \in Acct, rf \in Form, dn \in Dn, memo \in Memo, a \in Amt : Recv(ch, u, rf, dn, memo, a)
  \/ \E ch \in Chan, i \in InNo : RecvReplay(ch, i)
  \/ Probe

Spec == Init /\ [][Next]_vars

---------------------------------------------------------------------------
(* PROPERTIES (C19), stated over the state variables and op only; guarded   *)
(* so that they can be evaluated on any recorded real state.               *)

Hold == <<coin, erc, other, vrc>>            \* everything an account holds
Back == <<esc, pool, vpool>>                 \* what backs it
VOf(u) == SumSet(Chan, [c \in Chan |-> vrc[c][u]])
Worth(u) == coin["FX"][u] + coin["T"][u] + erc[u] + other[u] + VOf(u)
VOfP(u) == SumSet(Chan, [c \in Chan |-> vrc'[c][u]])
WorthP(u) == coin'["FX"][u] + coin'["T"][u] + erc'[u] + other'[u] + VOfP(u)
HoldOf(u) == <<coin["FX"][u], coin["T"][u], erc[u], other[u], [c \in Chan |-> vrc[c][u]]>>
HoldOfP(u) == <<coin'["FX"][u], coin'["T"][u], erc'[u], other'[u], [c \in Chan |-> vrc'[c][u]]>>

\* ---- a received packet credits exactly its amount to exactly its receiver and acknowledges success, or
\*      changes no holding (and nothing that backs holdings, and runs no call) and acknowledges an error.
\*      To a hex receiver every token except native FX arrives in ERC-20 form.
A_C19_CreditExactOrNothing ==
  op'.name = "Recv" =>
    LET ch == op'.ch  u == op'.u  a == op'.a  i == nin[ch] + 1 IN
      op'.res = "ok" =>
      /\ i \in InNo /\ nin'[ch] = i /\ ack[ch][i] = "none"
      /\ \/ /\ ack'[ch][i] = "ok"
            /\ WorthP(u) = Worth(u) + a
            /\ \A v \in Acct \ {u} : HoldOfP(v) = HoldOf(v)
            /\ (op'.dn = "fx") => (coin'["FX"][u] = coin["FX"][u] + a /\ esc'[ch]["FX"] = esc[ch]["FX"] - a)
            /\ (op'.dn # "fx" /\ op'.rf = "hex") => (coin' = coin /\ other' = other)
         \/ /\ ack'[ch][i] = "err"
            /\ Hold' = Hold /\ Back' = Back /\ caller' = caller
      /\ \A c \in Chan, j \in InNo : (c # ch \/ j # i) => ack'[c][j] = ack[c][j]
C19_CreditExactOrNothing == [][A_C19_CreditExactOrNothing]_vars

\* ---- the EVM sender of a memo call is the address derived from (port, channel, packet sender); it is
\*      never a local key-controlled account, whatever sender string the packet carries.
ImdSet == {Imd(c, m) : c \in Chan, m \in Calls}
C19_SenderNeverLocal == caller \notin Acct /\ caller \in ImdSet \cup {"none"}
A_C19_SenderIsDerived ==
  /\ (op'.name = "Recv" /\ op'.memo \in Calls /\ nin[op'.ch] + 1 \in InNo /\ ack'[op'.ch][nin[op'.ch] + 1] = "ok")
        => caller' = Imd(op'.ch, op'.memo)
  /\ caller' # caller => (op'.name = "Recv" /\ op'.memo \in Calls /\ caller' = Imd(op'.ch, op'.memo))
C19_SenderIsDerived == [][A_C19_SenderIsDerived]_vars

\* ---- an error acknowledgement or a timeout of a transfer in flight is never refused and returns exactly the
\*      amount to the original sender in the form it was taken from (ERC-20 iff an ERC-20 left through the
\*      EVM); on anything else (replay, never sent) it changes nothing.  A success acknowledgement pays nobody.
A_C19_RefundOnce ==
  /\ op'.name \in {"AckError", "Timeout"} =>
       LET ch == op'.ch  s == op'.s IN
       IF s \in SeqNo /\ out[ch][s].st = "open"
       THEN LET r == out[ch][s] IN
            /\ op'.res = "ok" /\ out'[ch][s].st = "done"
            /\ \A v \in Acct \ {r.u} : HoldOfP(v) = HoldOf(v)
            /\ other' = other /\ vrc' = vrc
            /\ IF r.tok = "T" /\ r.evm
               THEN erc'[r.u] = erc[r.u] + r.amt /\ coin' = coin
               ELSE coin'[r.tok][r.u] = coin[r.tok][r.u] + r.amt /\ erc' = erc
                    /\ \A t \in Tok \ {r.tok} : coin'[t] = coin[t]
       ELSE Hold' = Hold /\ Back' = Back /\ out' = out
  /\ op'.name = "AckSuccess" =>
       /\ Hold' = Hold /\ Back' = Back
       /\ (op'.s \in SeqNo /\ out[op'.ch][op'.s].st = "open") => (op'.res = "ok" /\ out'[op'.ch][op'.s].st = "done")
C19_RefundOnce == [][A_C19_RefundOnce]_vars

\* ---- a send takes exactly the amount from exactly the sender, in the form named, and records it as sent
A_C19_SendExact ==
  (op'.name \in {"SendFromEvm", "SendFromCosmos"} /\ op'.res = "ok") =>
    LET ch == op'.ch  u == op'.u  a == op'.a  s == nseq[ch] + 1  e == (op'.name = "SendFromEvm") IN
      /\ s \in SeqNo /\ nseq'[ch] = s
      /\ out'[ch][s] = [st |-> "open", u |-> u, tok |-> op'.tok, amt |-> a, evm |-> e]
      /\ \A v \in Acct \ {u} : HoldOfP(v) = HoldOf(v)
      /\ other' = other /\ vrc' = vrc
      /\ IF op'.tok = "T" /\ e
         THEN erc'[u] = erc[u] - a /\ coin' = coin
         ELSE coin'[op'.tok][u] = coin[op'.tok][u] - a /\ erc' = erc
C19_SendExact == [][A_C19_SendExact]_vars

\* ---- the tracking record exists exactly while an ERC-20 transfer started from the EVM is in flight:
\*      it is gone after success, failure and timeout alike, and nothing else ever creates one
C19_RelationGone ==
  /\ relx = 0
  /\ \A c \in Chan, s \in SeqNo : rel[c][s] => out[c][s].st = "open"
C19_RelationMarksErc20 ==
  \A c \in Chan, s \in SeqNo : out[c][s].st = "open" => (rel[c][s] <=> (out[c][s].evm /\ out[c][s].tok = "T"))

\* ---- conservation across holdings, escrow and parked vouchers
SumAcct(f) == SumSet(Acct, f)
SumChan(f) == SumSet(Chan, f)
TreasuryT == Cardinality(Chan) * InitPool - Cardinality(Acct) * (InitCoin + InitErc)
C19_Conservation ==
  /\ SumAcct(coin["FX"]) + SumChan([c \in Chan |-> esc[c]["FX"]]) = Cardinality(Acct) * InitFx + Cardinality(Chan) * InitEsc
  /\ SumAcct(coin["T"]) + SumAcct(erc) + SumChan([c \in Chan |-> esc[c]["T"]]) + TreasuryT = SumChan(pool)
  /\ \A c \in Chan : /\ esc[c]["FX"] >= OpenAmt(c, "FX", BOOLEAN)       \* escrow covers every refund still possible
                     /\ esc[c]["T"] >= OpenAmt(c, "T", {FALSE})
                     /\ SumAcct(vrc[c]) = vpool[c]
  /\ \A u \in Acct : other[u] = 0

---------------------------------------------------------------------------
View == svars
Bounded == \A c \in Chan : nseq'[c] <= MaxSeq /\ nin'[c] <= MaxIn
EdgeDump == /\ IF op.name = "Init" \/ op'.res = "ok"
               THEN PrintT(<<"EDGE", ToJson([from |-> Abs, op |-> op', to |-> Abs'])>>)
               ELSE TRUE
            /\ Bounded
=============================================================================
