----------------------------- MODULE SharesProp -----------------------------
(***************************************************************************)
(* Evaluates the C11 formulas of Shares.tla on behaviours RECORDED FROM    *)
(* THE REAL CODE: each step installs the projected real state and the      *)
(* operation that produced it (line l of the trace file).  Lines whose     *)
(* op.name = "Reset" start a new recorded behaviour; action properties are *)
(* not evaluated across a Reset.                                           *)
(***************************************************************************)
EXTENDS SharesMC
CONSTANT TraceFile
VARIABLE l
Trace == ndJsonDeserialize(TraceFile)

Install(st) ==
  /\ shares' = st.shares /\ valShares' = st.valShares /\ valTokens' = st.valTokens /\ den' = st.den
  /\ allow' = st.allow /\ accrued' = st.accrued /\ recv' = st.recv /\ ubd' = st.ubd
  /\ inv' = st.inv /\ pay' = st.pay /\ drain' = st.drain /\ exact' = st.exact
  /\ frac' = st.frac /\ valFrac' = st.valFrac /\ fden' = st.fden
  /\ UNCHANGED cnt

PInit == Init /\ l = 1
PNext == /\ l <= Len(Trace) /\ l' = l + 1
         /\ Install(Trace[l].st) /\ op' = Trace[l].op
PSpec == PInit /\ [][PNext]_<<vars, l>>

R(A) == op'.name = "Reset" \/ A
P_C11_TransferConserves     == [][R(A_C11_TransferConserves)]_<<vars, l>>
P_C11_BlockedWhileReceiving == [][R(A_C11_BlockedWhileReceiving)]_<<vars, l>>
P_C11_AllowanceExact        == [][R(A_C11_AllowanceExact)]_<<vars, l>>
P_C11_BothPaid              == [][R(A_C11_BothPaid)]_<<vars, l>>
P_C11_OnlyStakeOpsMoveStake == [][R(A_C11_OnlyStakeOpsMoveStake)]_<<vars, l>>
P_C11_EntitlementConserved  == [][R(A_C11_EntitlementConserved)]_<<vars, l>>

\* all lines consumed
Consumed == TLCGet("stats").diameter - 1 = Len(Trace)
=============================================================================
