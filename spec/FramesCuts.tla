----------------------------- MODULE FramesCuts -----------------------------
(* Placeholder: bin/spec_frames.py writes the out-of-gas classes MEASURED by the profiling pre-pass of a
   run into the work directory's copy of this module (operator CutsData: [case id -> set of patterns]). *)
CutsData == <<>>
=============================================================================
