------------------------------- MODULE Migrate -------------------------------
(***************************************************************************)
(* Account migration (x/migrate: msg_server.go MigrateAccount, bank.go,    *)
(* distr_staking.go, gov.go, types/msg.go ValidateBasic) together with the *)
(* staking / distribution / governance entry points that build the         *)
(* portfolio that is migrated and that act on it afterwards.               *)
(*                                                                         *)
(* One action per entry point, every action TOTAL ("ok"/"rej").  The model *)
(* states the CORRECT design of the property text (C14): a migration is    *)
(* refused while source or target is proposer/depositor/voter of a         *)
(* proposal that is still in its deposit or voting period, and it renames  *)
(* the source in EVERY staking/distribution/bank record and index.         *)
(*                                                                         *)
(* Time: `now` is the block time in hours; RewardTick is a block one hour  *)
(* later.  An unbonding or redelegation entry created at hour k carries    *)
(* slot k and is mature when k + UnbondH <= now; entries of the same hour  *)
(* share their completion time (and their time-queue slice) with every     *)
(* other delegator's entries of that hour.  TimePasses jumps beyond the    *)
(* unbonding, deposit and voting periods and runs the end blocker in one   *)
(* step.  BeginBlockExact / BeginBlockLater start a block whose time is    *)
(* exactly / strictly after the completion time of the oldest pending      *)
(* entry WITHOUT running the end blocker: transactions (Migrate, ...) run   *)
(* in that block before EndBlock pays out what is mature.                  *)
(***************************************************************************)
EXTENDS Integers, Sequences, FiniteSets, TLC, Json

CONSTANTS Src,          \* secp256k1 accounts with a public key (legal migration sources)
          Tgt,          \* ethereum-key addresses (legal migration targets)
          Val,          \* genesis validators (bonded)
          OpFrom,       \* the secp256k1 account that operates a genesis validator
          OpTo,         \* an ethereum-key account that operates a validator
          InitCoins,    \* [Src \cup Tgt -> Nat], whole FX
          DelegateBy, UndelegateBy, RedelegateBy, WithdrawBy, GovBy,   \* who attempts what (alphabet)
          OpVal,        \* validators named by Delegate / Undelegate / WithdrawRewards (subset of Val)
          MigFrom, MigTo,                                              \* from / to arguments of Migrate
          DelAmt, UndAmt, RedAmt,                                      \* amounts used by the staking operations
          MinDeposit,   \* total deposit (whole FX) that starts the voting period; each deposit is 1 FX
          UnbondH, DepositH, VotingH,  \* unbonding, deposit and voting periods in hours (= ticks)
          BlockOps,     \* BOOLEAN: the alphabet contains BeginBlockExact / BeginBlockLater / EndBlock
          MaxStake, MaxTicks, MaxPasses, MaxProps, MaxGov, MaxEntries, MaxBegin  \* exploration bounds

VARIABLES coins,     \* [Addr -> Nat]          FX balance
          rwd,       \* [Addr -> BOOLEAN]      holds coins of the reward denomination (second denom)
          deleg,     \* [Addr -> [Val -> Nat]] delegation (shares = tokens, nobody is slashed)
          pend,      \* [Addr -> [Val -> BOOLEAN]] rewards accrued and not yet withdrawn
          ubd,       \* [Addr -> [Val -> Seq([amt, slot])]] unbonding entries
          red,       \* [Addr -> [v \in Val -> [Val \ {v} -> Seq([amt, slot])]]] redelegation entries (source, destination)
          migTo,     \* [AllAddr -> AllAddr \cup {"none"}] record "a was migrated to"
          migFrom,   \* [AllAddr -> AllAddr \cup {"none"}] record "a received the migration of"
          props,     \* Seq([phase, t, proposer, dep : [Addr -> Nat], vote : [Addr -> BOOLEAN]]); t = hour at which
                     \* the current phase began
          now,       \* block time in hours since the epoch (TimePasses moves the epoch along with the time)
          vtok,      \* [Val -> Nat] validator tokens above genesis
          bonded, unbonding, govBal,   \* pool / module balances above genesis
          idxBad,    \* number of index entries without record / records without index entry (raw scan of the
                     \* by-validator indexes, the unbonding-id index and the distribution starting infos)
          qBad,      \* number of entries without their maturation-queue entry / queue entries without entry
          leftover,  \* number of staking/distribution/bank keys or values still embedding a migrated source
          inv,       \* result of the SDK's registered crisis invariants
          nstake, npass, ngov, ntick, nbegin,   \* bounding counters
          op

base  == <<coins, rwd, deleg, pend, ubd, red, migTo, migFrom, props, now>>
deriv == <<vtok, bonded, unbonding, govBal, idxBad, qBad, leftover, inv>>
svars == <<base, deriv, nstake, npass, ngov, ntick, nbegin>>
vars  == <<svars, op>>

None    == "none"
Addr    == Src \cup Tgt
AllAddr == Addr \cup {OpFrom, OpTo}
Operators == {OpFrom, OpTo}

Abs == [coins |-> coins, rwd |-> rwd, deleg |-> deleg, pend |-> pend, ubd |-> ubd,
        red |-> red, migTo |-> migTo, migFrom |-> migFrom, props |-> props, now |-> now,
        vtok |-> vtok, bonded |-> bonded, unbonding |-> unbonding, govBal |-> govBal,
        idxBad |-> idxBad, qBad |-> qBad, leftover |-> leftover, inv |-> inv]

Op(name, a, b, s, v, w, n, p, res) ==
  [name |-> name, a |-> a, b |-> b, s |-> s, v |-> v, w |-> w, n |-> n, p |-> p, res |-> res]

RECURSIVE SumSet(_, _)
SumSet(S, f) == IF S = {} THEN 0 ELSE LET x == CHOOSE y \in S : TRUE IN f[x] + SumSet(S \ {x}, f)
RECURSIVE SumAmt(_)
SumAmt(s) == IF s = <<>> THEN 0 ELSE Head(s).amt + SumAmt(Tail(s))
Entry(n, k) == [amt |-> n, slot |-> k]

ZeroV  == [v \in Val |-> 0]
FalseV == [v \in Val |-> FALSE]
NoSeqV == [v \in Val |-> <<>>]
NoSeqVV == [v \in Val |-> [w \in Val \ {v} |-> <<>>]]

DelegOn(d, v)   == SumSet(Addr, [a \in Addr |-> d[a][v]])
UbdOf(u, a)     == SumSet(Val, [v \in Val |-> SumAmt(u[a][v])])
DepOf(pp, a)    == SumSet(1..Len(pp), [p \in 1..Len(pp) |-> pp[p].dep[a]])
DepTotal(pr)    == SumSet(Addr, pr.dep)
Open(ph)        == ph \in {"deposit", "voting"}

(* the components that are functions of the others; every accepted action ends with this conjunct *)
Derived ==
  /\ vtok' = [v \in Val |-> DelegOn(deleg', v)]
  /\ bonded' = SumSet(Val, [v \in Val |-> DelegOn(deleg', v)])
  /\ unbonding' = SumSet(Addr, [a \in Addr |-> UbdOf(ubd', a)])
  /\ govBal' = SumSet(Addr, [a \in Addr |-> DepOf(props', a)])
  /\ idxBad' = 0 /\ qBad' = 0 /\ leftover' = 0 /\ inv' = "ok"

Init ==
  /\ coins = InitCoins /\ rwd = [a \in Addr |-> FALSE]
  /\ deleg = [a \in Addr |-> ZeroV] /\ pend = [a \in Addr |-> FalseV]
  /\ ubd = [a \in Addr |-> NoSeqV] /\ red = [a \in Addr |-> NoSeqVV]
  /\ migTo = [a \in AllAddr |-> None] /\ migFrom = [a \in AllAddr |-> None]
  /\ props = <<>> /\ now = 0
  /\ vtok = ZeroV /\ bonded = 0 /\ unbonding = 0 /\ govBal = 0
  /\ idxBad = 0 /\ qBad = 0 /\ leftover = 0 /\ inv = "ok"
  /\ nstake = 0 /\ npass = 0 /\ ngov = 0 /\ ntick = 0 /\ nbegin = 0
  /\ op = Op("Init", None, None, None, None, None, 0, 0, "ok")

Rej(o) == /\ op' = [o EXCEPT !.res = "rej"] /\ UNCHANGED svars

---------------------------------------------------------------------------
(* staking / distribution entry points (MsgDelegate, MsgUndelegate, MsgBeginRedelegate,            *)
(* MsgWithdrawDelegatorReward).  Changing an existing delegation withdraws its accrued rewards.    *)

Delegate(a, v, n) ==
  LET this == Op("Delegate", a, None, None, v, None, n, 0, "ok")
      okk  == coins[a] >= n
  IN IF ~okk THEN Rej(this) ELSE
     /\ coins' = [coins EXCEPT ![a] = @ - n]
     /\ deleg' = [deleg EXCEPT ![a][v] = @ + n]
     /\ rwd'   = [rwd EXCEPT ![a] = @ \/ pend[a][v]]
     /\ pend'  = [pend EXCEPT ![a][v] = FALSE]
     /\ nstake' = nstake + 1
     /\ UNCHANGED <<ubd, red, migTo, migFrom, props, now, npass, ngov, ntick, nbegin>>
     /\ Derived /\ op' = this

Undelegate(a, v, n) ==
  LET this == Op("Undelegate", a, None, None, v, None, n, 0, "ok")
      u    == ubd[a][v]
      okk  == deleg[a][v] >= n
  IN IF ~okk THEN Rej(this) ELSE
     /\ deleg' = [deleg EXCEPT ![a][v] = @ - n]
     /\ rwd'   = [rwd EXCEPT ![a] = @ \/ pend[a][v]]
     /\ pend'  = [pend EXCEPT ![a][v] = FALSE]
        \* an entry of the same block (creation height and completion time) is topped up
     /\ ubd'   = [ubd EXCEPT ![a][v] = IF u # <<>> /\ u[Len(u)].slot = now
                                        THEN [u EXCEPT ![Len(u)].amt = @ + n]
                                        ELSE Append(u, Entry(n, now))]
     /\ nstake' = nstake + 1
     /\ UNCHANGED <<coins, red, migTo, migFrom, props, now, npass, ngov, ntick, nbegin>>
     /\ Derived /\ op' = this

Redelegate(a, v, w, n) ==
  LET this == Op("Redelegate", a, None, None, v, w, n, 0, "ok")
      okk  == /\ v # w /\ deleg[a][v] >= n
              /\ \A x \in Val \ {v} : red[a][x][v] = <<>>    \* no transitive redelegation
  IN IF ~okk THEN Rej(this) ELSE
     /\ deleg' = [deleg EXCEPT ![a][v] = @ - n, ![a][w] = @ + n]
     /\ rwd'   = [rwd EXCEPT ![a] = @ \/ pend[a][v] \/ pend[a][w]]
     /\ pend'  = [pend EXCEPT ![a][v] = FALSE, ![a][w] = FALSE]
     /\ red'   = [red EXCEPT ![a][v][w] = Append(@, Entry(n, now))]
     /\ nstake' = nstake + 1
     /\ UNCHANGED <<coins, ubd, migTo, migFrom, props, now, npass, ngov, ntick, nbegin>>
     /\ Derived /\ op' = this

WithdrawRewards(a, v) ==
  LET this == Op("WithdrawRewards", a, None, None, v, None, 0, 0, "ok")
  IN IF deleg[a][v] = 0 THEN Rej(this) ELSE
     /\ rwd'  = [rwd EXCEPT ![a] = @ \/ pend[a][v]]
     /\ pend' = [pend EXCEPT ![a][v] = FALSE]
     /\ UNCHANGED <<coins, deleg, ubd, red, migTo, migFrom, props, now, nstake, npass, ngov, ntick, nbegin>>
     /\ Derived /\ op' = this

(* one block: +1 h, fees in the reward denomination are allocated to the bonded validators *)
RewardTick ==
  /\ now' = now + 1 /\ ntick' = ntick + 1
  /\ pend' = [a \in Addr |-> [v \in Val |-> pend[a][v] \/ deleg[a][v] > 0]]
  /\ UNCHANGED <<coins, rwd, deleg, ubd, red, migTo, migFrom, props, nstake, npass, ngov, nbegin>>
  /\ Derived /\ op' = Op("RewardTick", None, None, None, None, None, 0, 0, "ok")

ClosedProp == [phase |-> "closed", t |-> 0, proposer |-> None, dep |-> [a \in Addr |-> 0], vote |-> [a \in Addr |-> FALSE]]

(* time beyond the unbonding period (and beyond deposit and voting periods) + end blocker:          *)
(* unbonding entries pay out to the delegator that holds them, redelegation entries complete, open   *)
(* proposals end (expired or rejected for lack of quorum) and refund their deposits.                *)
TimePasses ==
  /\ coins' = [a \in Addr |-> coins[a] + UbdOf(ubd, a)
                  + SumSet(1..Len(props), [p \in 1..Len(props) |-> IF Open(props[p].phase) THEN props[p].dep[a] ELSE 0])]
  /\ ubd' = [a \in Addr |-> NoSeqV] /\ red' = [a \in Addr |-> NoSeqVV]
  /\ props' = IF props = <<>> THEN <<>> ELSE [p \in 1..Len(props) |-> IF Open(props[p].phase) THEN ClosedProp ELSE props[p]]
  /\ npass' = npass + 1
  /\ UNCHANGED <<rwd, deleg, pend, migTo, migFrom, now, nstake, ngov, ntick, nbegin>>
  /\ Derived /\ op' = Op("TimePasses", None, None, None, None, None, 0, 0, "ok")

(* --- block boundaries without the end blocker, and the end blocker on its own ---------------------- *)
Mature(e, t)   == e.slot + UnbondH <= t
KeepYoung(s, t) == SelectSeq(s, LAMBDA e : ~Mature(e, t))
MatureAmt(s, t) == SumAmt(SelectSeq(s, LAMBDA e : Mature(e, t)))
AllSlots == UNION { {ubd[a][v][i].slot : i \in 1..Len(ubd[a][v])}
                     \cup UNION { {red[a][v][w][i].slot : i \in 1..Len(red[a][v][w])} : w \in Val \ {v} }
                   : a \in Addr, v \in Val }
YoungSlots == {k \in AllSlots : k + UnbondH > now}
MinOf(S) == CHOOSE x \in S : \A y \in S : x <= y
Expired(pr, t) == \/ pr.phase = "deposit" /\ pr.t + DepositH <= t
                  \/ pr.phase = "voting" /\ pr.t + VotingH <= t

(* a new block whose time is exactly the completion time of the oldest entry that is not yet mature *)
BeginBlockExact ==
  LET this == Op("BeginBlockExact", None, None, None, None, None, 0, 0, "ok")
  IN IF YoungSlots = {} THEN Rej(this) ELSE
     /\ now' = MinOf(YoungSlots) + UnbondH
     /\ nbegin' = nbegin + 1
     /\ UNCHANGED <<coins, rwd, deleg, pend, ubd, red, migTo, migFrom, props, nstake, npass, ngov, ntick>>
     /\ Derived /\ op' = this

(* a new block strictly after every completion time (and after every deposit / voting period) *)
BeginBlockLater ==
  /\ now' = now + UnbondH + 2
  /\ nbegin' = nbegin + 1
  /\ UNCHANGED <<coins, rwd, deleg, pend, ubd, red, migTo, migFrom, props, nstake, npass, ngov, ntick>>
  /\ Derived /\ op' = Op("BeginBlockLater", None, None, None, None, None, 0, 0, "ok")

(* the end blocker at the current block time: mature entries are paid to the delegator that holds them and *)
(* removed, proposals whose period is over end and refund                                                 *)
EndBlock ==
  /\ coins' = [a \in Addr |-> coins[a] + SumSet(Val, [v \in Val |-> MatureAmt(ubd[a][v], now)])
                  + SumSet(1..Len(props), [p \in 1..Len(props) |-> IF Expired(props[p], now) THEN props[p].dep[a] ELSE 0])]
  /\ ubd' = [a \in Addr |-> [v \in Val |-> KeepYoung(ubd[a][v], now)]]
  /\ red' = [a \in Addr |-> [v \in Val |-> [w \in Val \ {v} |-> KeepYoung(red[a][v][w], now)]]]
  /\ props' = IF props = <<>> THEN <<>> ELSE [p \in 1..Len(props) |-> IF Expired(props[p], now) THEN ClosedProp ELSE props[p]]
  /\ UNCHANGED <<rwd, deleg, pend, migTo, migFrom, now, nstake, npass, ngov, ntick, nbegin>>
  /\ Derived /\ op' = Op("EndBlock", None, None, None, None, None, 0, 0, "ok")

---------------------------------------------------------------------------
(* governance (MsgSubmitProposal with an initial deposit of 1 FX, MsgDeposit of 1 FX, MsgVote) *)

SubmitProposal(a) ==
  LET this == Op("SubmitProposal", a, None, None, None, None, 0, 0, "ok")
  IN IF coins[a] < 1 THEN Rej(this) ELSE
     /\ coins' = [coins EXCEPT ![a] = @ - 1]
     /\ props' = Append(props, [phase |-> IF MinDeposit <= 1 THEN "voting" ELSE "deposit", t |-> now, proposer |-> a,
                                dep |-> [x \in Addr |-> IF x = a THEN 1 ELSE 0], vote |-> [x \in Addr |-> FALSE]])
     /\ ngov' = ngov + 1
     /\ UNCHANGED <<rwd, deleg, pend, ubd, red, migTo, migFrom, now, nstake, npass, ntick, nbegin>>
     /\ Derived /\ op' = this

Deposit(a, p) ==
  LET this == Op("Deposit", a, None, None, None, None, 0, p, "ok")
      okk  == p <= Len(props) /\ Open(props[p].phase) /\ coins[a] >= 1
  IN IF ~okk THEN Rej(this) ELSE
     LET nd == [props[p].dep EXCEPT ![a] = @ + 1]
         ph == IF props[p].phase = "deposit" /\ SumSet(Addr, nd) >= MinDeposit THEN "voting" ELSE props[p].phase
     IN /\ coins' = [coins EXCEPT ![a] = @ - 1]
        /\ props' = [props EXCEPT ![p].dep = nd, ![p].phase = ph, ![p].t = IF ph # props[p].phase THEN now ELSE @]
        /\ ngov' = ngov + 1
        /\ UNCHANGED <<rwd, deleg, pend, ubd, red, migTo, migFrom, now, nstake, npass, ntick, nbegin>>
        /\ Derived /\ op' = this

Vote(a, p) ==
  LET this == Op("Vote", a, None, None, None, None, 0, p, "ok")
      okk  == p <= Len(props) /\ props[p].phase = "voting"
  IN IF ~okk THEN Rej(this) ELSE
     /\ props' = [props EXCEPT ![p].vote[a] = TRUE]
     /\ ngov' = ngov + 1
     /\ UNCHANGED <<coins, rwd, deleg, pend, ubd, red, migTo, migFrom, now, nstake, npass, ntick, nbegin>>
     /\ Derived /\ op' = this

---------------------------------------------------------------------------
(* MsgMigrateAccount{from, to, signature by key s over (from, to)} *)

NoStaking(a) == \A v \in Val : deleg[a][v] = 0 /\ ubd[a][v] = <<>> /\ \A w \in Val \ {v} : red[a][v][w] = <<>>
Involved(a)  == \E p \in 1..Len(props) :
                   Open(props[p].phase) /\ (props[p].proposer = a \/ props[p].dep[a] > 0 \/ props[p].vote[a])
Used(a)      == migTo[a] # None \/ migFrom[a] # None

Migrate(f, t, s) ==
  LET this == Op("Migrate", f, t, s, None, None, 0, 0, "ok")
      okk  == /\ s = t                                   \* signed by the target key over (from, to)
              /\ f # t                                   \* not the same 20 bytes
              /\ ~Used(f) /\ ~Used(t)                    \* neither address in any migration record
              /\ f \in Src                               \* an account with a secp256k1 public key that is no operator
              /\ t \in Tgt                               \* not a validator operator
              /\ NoStaking(t)                            \* target without delegation / unbonding / redelegation
              /\ ~Involved(f) /\ ~Involved(t)            \* not while taking part in an open proposal
  IN IF ~okk THEN Rej(this) ELSE
     /\ coins' = [coins EXCEPT ![t] = @ + coins[f], ![f] = 0]
     /\ rwd'   = [rwd EXCEPT ![t] = @ \/ rwd[f], ![f] = FALSE]
     /\ deleg' = [deleg EXCEPT ![t] = deleg[f], ![f] = ZeroV]
     /\ pend'  = [pend EXCEPT ![t] = pend[f], ![f] = FalseV]
     /\ ubd'   = [ubd EXCEPT ![t] = ubd[f], ![f] = NoSeqV]
     /\ red'   = [red EXCEPT ![t] = red[f], ![f] = NoSeqVV]
     /\ migTo' = [migTo EXCEPT ![f] = t] /\ migFrom' = [migFrom EXCEPT ![t] = f]
     /\ UNCHANGED <<props, now, nstake, npass, ngov, ntick, nbegin>>
     /\ Derived /\ op' = this

Forger(t) == CHOOSE x \in Tgt : x # t

Probe == op' = Op("Probe", None, None, None, None, None, 0, 0, "ok") /\ UNCHANGED svars

Next ==
  \/ \E a \in DelegateBy, v \in OpVal : Delegate(a, v, DelAmt)
  \/ \E a \in UndelegateBy, v \in OpVal : Undelegate(a, v, UndAmt)
  \/ \E a \in RedelegateBy, v \in Val : \E w \in Val \ {v} : Redelegate(a, v, w, RedAmt)
  \/ \E a \in WithdrawBy, v \in OpVal : WithdrawRewards(a, v)
  \/ RewardTick \/ TimePasses
  \/ (BlockOps /\ (BeginBlockExact \/ BeginBlockLater \/ EndBlock))
  \/ \E a \in GovBy : SubmitProposal(a)
  \/ \E a \in GovBy, p \in 1..MaxProps : Deposit(a, p) \/ Vote(a, p)
  \/ \E f \in MigFrom, t \in MigTo : \E s \in {t, Forger(t)} : Migrate(f, t, s)
  \/ Probe

Spec == Init /\ [][Next]_vars

---------------------------------------------------------------------------
(* PROPERTIES (C14), written from the property text over the state variables and `op` only, so    *)
(* that TLC evaluates them both on the model and on behaviours recorded from the real keepers.    *)

IsMigrateOk == op'.name = "Migrate" /\ op'.res = "ok"
InAddr(x)   == x \in Addr

\* --- moves everything: every component of the source's portfolio is the target's afterwards, the
\*     source is left with nothing, nobody else and no total changes
A_C14_MovesEverything ==
  IsMigrateOk =>
    LET f == op'.a  t == op'.b IN
    /\ InAddr(f) /\ InAddr(t) /\ f # t
    /\ coins'[t] = coins[t] + coins[f] /\ coins'[f] = 0
    /\ rwd'[t] = (rwd[t] \/ rwd[f]) /\ ~rwd'[f]
    /\ deleg'[t] = deleg[f] /\ pend'[t] = pend[f]
    /\ ubd'[t] = ubd[f] /\ red'[t] = red[f]
    /\ deleg'[f] = ZeroV /\ pend'[f] = FalseV /\ ubd'[f] = NoSeqV /\ red'[f] = NoSeqVV
    /\ \A x \in Addr \ {f, t} :
          /\ coins'[x] = coins[x] /\ rwd'[x] = rwd[x] /\ deleg'[x] = deleg[x] /\ pend'[x] = pend[x]
          /\ ubd'[x] = ubd[x] /\ red'[x] = red[x]
    /\ vtok' = vtok /\ bonded' = bonded /\ unbonding' = unbonding /\ govBal' = govBal
    /\ props' = props /\ now' = now
C14_MovesEverything == [][A_C14_MovesEverything]_vars

\* --- once: a migration writes exactly its own two records, only for addresses not yet in any record;
\*     records never change afterwards; the two directions agree and no address is on both sides
A_C14_Once ==
  /\ IsMigrateOk => /\ op'.a \in AllAddr /\ op'.b \in AllAddr
                    /\ migTo[op'.a] = None /\ migFrom[op'.a] = None
                    /\ migTo[op'.b] = None /\ migFrom[op'.b] = None
                    /\ migTo' = [migTo EXCEPT ![op'.a] = op'.b]
                    /\ migFrom' = [migFrom EXCEPT ![op'.b] = op'.a]
  /\ ~IsMigrateOk => migTo' = migTo /\ migFrom' = migFrom
C14_Once == [][A_C14_Once]_vars
C14_RecordsAgree ==
  /\ \A a \in AllAddr : migTo[a] # None => (migTo[a] \in AllAddr /\ migFrom[migTo[a]] = a /\ migFrom[a] = None)
  /\ \A a \in AllAddr : migFrom[a] # None => (migFrom[a] \in AllAddr /\ migTo[migFrom[a]] = a /\ migTo[a] = None)

\* --- authorisation and eligibility
A_C14_NeedsTargetSignature == IsMigrateOk => op'.s = op'.b
C14_NeedsTargetSignature == [][A_C14_NeedsTargetSignature]_vars
A_C14_NoOperatorNoStakedTarget ==
  IsMigrateOk => /\ op'.a \notin Operators /\ op'.b \notin Operators
                 /\ InAddr(op'.b) => NoStaking(op'.b)
C14_NoOperatorNoStakedTarget == [][A_C14_NoOperatorNoStakedTarget]_vars
A_C14_RefusedWhileInOpenProposal ==
  IsMigrateOk => /\ InAddr(op'.a) => ~Involved(op'.a)
                 /\ InAddr(op'.b) => ~Involved(op'.b)
C14_RefusedWhileInOpenProposal == [][A_C14_RefusedWhileInOpenProposal]_vars

\* --- afterwards the target can withdraw, undelegate and receive matured funds as the source could have
IsTarget(a) == a \in AllAddr /\ migFrom[a] # None
A_C14_TargetActsAsSource ==
  /\ (op'.name = "Undelegate" /\ IsTarget(op'.a) /\ InAddr(op'.a) /\ deleg[op'.a][op'.v] >= op'.n
        /\ Len(ubd[op'.a][op'.v]) < MaxEntries) =>
        /\ op'.res = "ok"
        /\ deleg'[op'.a][op'.v] = deleg[op'.a][op'.v] - op'.n
        /\ SumAmt(ubd'[op'.a][op'.v]) = SumAmt(ubd[op'.a][op'.v]) + op'.n
        /\ (pend[op'.a][op'.v] => rwd'[op'.a])
  /\ (op'.name = "WithdrawRewards" /\ IsTarget(op'.a) /\ InAddr(op'.a) /\ deleg[op'.a][op'.v] > 0) =>
        /\ op'.res = "ok" /\ ~pend'[op'.a][op'.v]
        /\ (pend[op'.a][op'.v] => rwd'[op'.a])
  /\ op'.name = "TimePasses" =>
        /\ op'.res = "ok"
        /\ \A a \in Addr : /\ coins'[a] >= coins[a] + UbdOf(ubd, a)
                           /\ ubd'[a] = NoSeqV /\ red'[a] = NoSeqVV
C14_TargetActsAsSource == [][A_C14_TargetActsAsSource]_vars
\* the end blocker pays every mature entry to the address that holds it (source before, target after a migration),
\* removes exactly the mature entries and never fails
A_C14_MaturedFundsArrive ==
  op'.name = "EndBlock" =>
     /\ op'.res = "ok"
     /\ \A a \in Addr :
           /\ coins'[a] >= coins[a] + SumSet(Val, [v \in Val |-> MatureAmt(ubd[a][v], now)])
           /\ \A v \in Val : /\ ubd'[a][v] = KeepYoung(ubd[a][v], now)
                              /\ \A w \in Val \ {v} : red'[a][v][w] = KeepYoung(red[a][v][w], now)
C14_MaturedFundsArrive == [][A_C14_MaturedFundsArrive]_vars

\* --- raw-store oracles carried in the projected state
C14_NoLeftover == leftover = 0
C14_IndexesConsistent == idxBad = 0
C14_InvariantsHold == inv = "ok"
\* every entry has its maturation-queue entry under the address that holds it, and vice versa
C14_QueuesMatch == qBad = 0
\* no total changes, ever: validator tokens and pools cover exactly the recorded positions, FX is conserved
C14_TotalsMatch ==
  /\ \A v \in Val : vtok[v] = DelegOn(deleg, v)
  /\ bonded = SumSet(Val, vtok)
  /\ unbonding = SumSet(Addr, [a \in Addr |-> UbdOf(ubd, a)])
  /\ SumSet(Addr, coins) + bonded + unbonding + govBal = SumSet(Addr, InitCoins)
\* a migrated source holds nothing
C14_SourceEmpty ==
  \A a \in Addr : migTo[a] # None => coins[a] = 0 /\ ~rwd[a] /\ NoStaking(a) /\ pend[a] = FalseV

---------------------------------------------------------------------------
View == svars
Bounded == /\ nstake' <= MaxStake /\ ntick' <= MaxTicks /\ npass' <= MaxPasses /\ nbegin' <= MaxBegin
           /\ Len(props') <= MaxProps /\ ngov' <= MaxGov
           /\ \A a \in Addr, v \in Val : /\ Len(ubd'[a][v]) <= MaxEntries
                                         /\ \A w \in Val \ {v} : Len(red'[a][v][w]) <= MaxEntries
EdgeDump == /\ IF op.name = "Init" \/ op'.res = "ok"
               THEN PrintT(<<"EDGE", ToJson([from |-> Abs, op |-> op', to |-> Abs'])>>)
               ELSE TRUE
            /\ Bounded
=============================================================================
