--------------------------- MODULE AbiCheckpointMC ---------------------------
(***************************************************************************)
(* The bounded family on which TLC evaluates AbiCheckpoint and prints, per *)
(* object, its fields and its word sequence (one JSON line each).          *)
(***************************************************************************)
EXTENDS AbiCheckpoint
CONSTANT Big          \* FALSE: quick family, TRUE: thorough family
VARIABLE done

SeqsUpTo(S, n) == UNION {[1..k -> S] : k \in 0..n}

N63m  == "9223372036854775807"   \* 2^63-1
N63   == "9223372036854775808"   \* 2^63
N64m  == "18446744073709551615"  \* 2^64-1
N64   == "18446744073709551616"  \* 2^64
N256m == "115792089237316195423570985008687907853269984665640564039457584007913129639935" \* 2^256-1
N32m  == "4294967295"

GravityIds == IF Big THEN {"fx-bridge-eth", "fx-tron-bridge", "fx-bsc-bridge", "g", "abcdefghijklmnopqrstuvwxyz012345"}
                     ELSE {"fx-bridge-eth", "fx-tron-bridge", "abcdefghijklmnopqrstuvwxyz012345"}
U64s == {"0", "1", N63m, N63, N64m}     \* fields that are uint64 in fx-core and uint256 in the contract

\* ---- oracle sets: all member lists of length 0..3 over Members, every nonce
Members == {[addr |-> "A1", power |-> "1"], [addr |-> "A2", power |-> N32m], [addr |-> "AF", power |-> N64m],
            [addr |-> "A0", power |-> "0"]}
           \cup (IF Big THEN {[addr |-> "AL", power |-> N63], [addr |-> "A1", power |-> N63m]} ELSE {})
OracleSets == {[nonce |-> n, members |-> m] : n \in U64s, m \in SeqsUpTo(Members, 3)}

\* ---- batches: all transfer lists of length 0..3 over Txs; scalar fields vary jointly (distinct values, so that a swap shows)
Txs == {[amount |-> "1", dest |-> "A1", fee |-> "2"], [amount |-> N256m, dest |-> "AF", fee |-> N64m],
        [amount |-> "0", dest |-> "A0", fee |-> "0"], [amount |-> N64, dest |-> "A2", fee |-> N256m]}
       \cup (IF Big THEN {[amount |-> N64m, dest |-> "AL", fee |-> "1"]} ELSE {})
BatchScalars == {[nonce |-> "1", token |-> "A3", timeout |-> "2", feeReceive |-> "A4"],
                 [nonce |-> "2", token |-> "A4", timeout |-> "1", feeReceive |-> "A3"],
                 [nonce |-> N64m, token |-> "AF", timeout |-> N63, feeReceive |-> "A0"],
                 [nonce |-> "0", token |-> "A0", timeout |-> N64m, feeReceive |-> "AL"],
                 [nonce |-> N63m, token |-> "AL", timeout |-> "0", feeReceive |-> "AF"]}
Batches == {[txs |-> t, nonce |-> s.nonce, token |-> s.token, timeout |-> s.timeout, feeReceive |-> s.feeReceive] :
              t \in SeqsUpTo(Txs, 3), s \in BatchScalars}

\* ---- bridge calls: token lists 0..3, data and memo of 0,1,31,32,33 bytes (and 64,65 in the big family)
Tokens == {[contract |-> "A3", amount |-> "1"], [contract |-> "AF", amount |-> N256m]}
          \cup (IF Big THEN {[contract |-> "A0", amount |-> "0"]} ELSE {})
ByteLens == {0, 1, 31, 32, 33} \cup (IF Big THEN {64, 65} ELSE {})
CallAddrs == {[sender |-> "A1", refund |-> "A2", to |-> "A5"], [sender |-> "A2", refund |-> "A1", to |-> "A5"],
              [sender |-> "AF", refund |-> "A0", to |-> "AL"]}
CallInts == {[nonce |-> "1", timeout |-> "2", eventNonce |-> "3"], [nonce |-> "3", timeout |-> "1", eventNonce |-> "2"],
             [nonce |-> N64m, timeout |-> "0", eventNonce |-> N63m], [nonce |-> "0", timeout |-> N63, eventNonce |-> N64m]}
BridgeCalls == {[sender |-> a.sender, refund |-> a.refund, to |-> a.to, tokens |-> t, dataLen |-> d, memoLen |-> m,
                 nonce |-> i.nonce, timeout |-> i.timeout, eventNonce |-> i.eventNonce] :
                  a \in CallAddrs, t \in SeqsUpTo(Tokens, 3), d \in ByteLens, m \in ByteLens, i \in CallInts}
CallGravityIds == IF Big THEN {"fx-bridge-eth", "fx-tron-bridge"} ELSE {"fx-bridge-eth"}

Emit ==
  /\ \A g \in GravityIds, x \in OracleSets :
        /\ WellFormed(OracleSetArgs(g, x))
        /\ PrintT(<<"ABI", ToJson([kind |-> "os", gid |-> g, obj |-> x, words |-> OracleSetWords(g, x)])>>)
  /\ \A g \in GravityIds, x \in Batches :
        /\ WellFormed(BatchArgs(g, x))
        /\ PrintT(<<"ABI", ToJson([kind |-> "tb", gid |-> g, obj |-> x, words |-> BatchWords(g, x)])>>)
  /\ \A g \in CallGravityIds, x \in BridgeCalls :
        /\ WellFormed(BridgeCallArgs(g, x))
        /\ PrintT(<<"ABI", ToJson([kind |-> "bc", gid |-> g, obj |-> x, words |-> BridgeCallWords(g, x)])>>)

\* hand-computed anchor: abi.encode(bytes32, uint256[] of 2, bytes of 33) has 3 head words, offsets 96 and 192
ASSUME LET w == Encode(<<B32Str("x"), UA(<<"7", "8">>), Bytes("d", 33)>>) IN
       /\ Len(w) = 3 + 3 + 3
       /\ w[2] = WInt(96) /\ w[3] = WInt(192)
       /\ w[4] = WInt(2) /\ w[5] = WNum("7") /\ w[6] = WNum("8")
       /\ w[7] = WInt(33) /\ w[8] = WChunk("d", 0, 32) /\ w[9] = WChunk("d", 32, 1)

Init == done = FALSE
Next == ~done /\ Emit /\ done' = TRUE
=============================================================================
