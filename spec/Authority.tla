------------------------------ MODULE Authority ------------------------------
(***************************************************************************)
(* C16: privileged messages take effect only when issued by the governance *)
(* authority (x/crosschain msg_server.go UpdateParams/UpdateChainOracles    *)
(* behind msg_server_router.go, x/erc20 msg_server.go UpdateParams/         *)
(* RegisterCoin/RegisterERC20/ToggleTokenConversion/UpdateDenomAlias,       *)
(* x/evm msg_server.go CallContract, x/gov msg_server.go UpdateStore/       *)
(* UpdateSwitchParams/UpdateCustomParams).                                  *)
(*                                                                         *)
(* Kind is NOT written here: bin/spec_authority.py fills it from the real   *)
(* application (every message type of the interface registry whose          *)
(* descriptor declares cosmos.msg.v1.signer = "authority"; crosschain types *)
(* once per chain module registered on the crosschain router).              *)
(*   Routable   : kinds with a handler on the message router                *)
(*   StoreKind  : raw store updates (compare-and-set on old values)         *)
(*   RejectOnly : third-party kinds the harness has no valid payload for:   *)
(*                only the "another authority is rejected" half is driven   *)
(*   ResetKind  : kinds that also have a delete / reset form (gov custom     *)
(*                params removal, erc20 alias removal, gov switch entry     *)
(*                removal, raw store overwrite of an existing value); the   *)
(*                world holds targets on which that form WOULD have an      *)
(*                effect; cleared[k] counts the targets it has consumed     *)
(* applied[k] counts how often kind k took effect; the adapter projects it  *)
(* from a kind-specific observable (parameter value, oracle list, token     *)
(* registered, switch list, store value, allowance set by the contract call)*)
(* dirty: a rejected operation changed some store byte (complete multistore *)
(* dump before/after); the specification never sets it.                     *)
(*                                                                         *)
(* Delivery (op.via): "router" = through the application's message router   *)
(* (stateless validation first, as a transaction or a proposal is run);     *)
(* "server" = the service implementation the module registered for the      *)
(* message type, invoked directly (as other modules, the repository's keeper *)
(* tests and in-process callers do): no stateless validation stands between  *)
(* the authority string and the handler's own check, so authority strings    *)
(* that are not account addresses of the chain reach it.                     *)
(*                                                                         *)
(* Raw store update (op.ent): the message is a LIST of entries              *)
(* [cell, old, new] over two cells a, b of the store with symbolic values    *)
(* cur (the value of the cell before the message), next (the value that      *)
(* counts as one more application), tmp and other (two further values).     *)
(* Several entries may name the same cell.  Holds(ent) - every entry's       *)
(* stated old value equals the value the cell has WHEN THE ENTRY IS REACHED  *)
(* (i.e. after the earlier entries of the same message) - is computed from   *)
(* the entries, not from the shape's name.                                   *)
(***************************************************************************)
EXTENDS Integers, Sequences, FiniteSets, TLC, Json

CONSTANTS Kind, Routable, StoreKind, RejectOnly, ResetKind,
          Shape,       \* names of the entry lists (DOMAIN of ShapeEntries) a raw store update is driven with
          Via,         \* subset of {"router", "server"}
          Auth,        \* subset of {"gov","othermodule","user","empty","gov-hex","gov-otherprefix","gov-suffix-21",
                       \* "gov-suffix-32","gov-prefix-32","user-hex","garbage"}; an authority is identified by the account it decodes
                       \* to, so other spellings of the gov bech32 address (upper case) are not a class of their
                       \* own, while longer addresses that merely CONTAIN the gov bytes are other accounts
          MaxApplied   \* bound on the total number of applications

VARIABLES applied, cleared, dirty, op
svars == <<applied, cleared, dirty>>
vars  == <<svars, op>>

None == "none"
Cell == {"a", "b"}
E(c, o, n) == [cell |-> c, old |-> o, new |-> n]
(* entry lists of a raw store update; every list whose stated old values all hold leaves both cells at "next" *)
ShapeEntries ==
  [ match              |-> << E("a","cur","next"),   E("b","cur","next") >>,
    mismatch_first     |-> << E("a","other","next"), E("b","cur","next") >>,
    mismatch_second    |-> << E("a","cur","next"),   E("b","other","next") >>,   \* fails after the first entry was reached
    \* the same cell twice: the later entry states the value the earlier entry wrote (current when it is reached)
    chained            |-> << E("a","cur","tmp"),    E("a","tmp","next"),  E("b","cur","next") >>,
    chained_apart      |-> << E("a","cur","tmp"),    E("b","cur","next"),  E("a","tmp","next") >>,
    \* the same cell twice: the later entry states the value from before the message, which is no longer current
    stale              |-> << E("a","cur","tmp"),    E("a","cur","next"),  E("b","cur","next") >>,
    stale_apart        |-> << E("a","cur","tmp"),    E("b","cur","next"),  E("a","cur","next") >>,
    stale_repeat       |-> << E("a","cur","next"),   E("b","cur","next"),  E("b","cur","next") >>,
    \* the later entry states a value that was current neither before the message nor when it is reached
    stale_back         |-> << E("a","cur","tmp"),    E("a","next","next"), E("b","cur","next") >> ]

(* value of every cell after the entries ent[1..n], starting from "cur" everywhere *)
RECURSIVE CellsAfter(_, _)
CellsAfter(ent, n) == IF n = 0 THEN [c \in Cell |-> "cur"]
                      ELSE [CellsAfter(ent, n - 1) EXCEPT ![ent[n].cell] = ent[n].new]
(* every stated old value equals the value of its cell when the entry is reached *)
Holds(ent) == \A i \in 1..Len(ent) : ent[i].cell \in Cell /\ ent[i].old = CellsAfter(ent, i - 1)[ent[i].cell]
ASSUME Shape \subseteq DOMAIN ShapeEntries
ASSUME \A s \in DOMAIN ShapeEntries : Holds(ShapeEntries[s]) => CellsAfter(ShapeEntries[s], Len(ShapeEntries[s])) = [c \in Cell |-> "next"]

Abs == [applied |-> applied, cleared |-> cleared, dirty |-> dirty]
Op(name, kind, auth, pay, old, via, res) ==
  [name |-> name, kind |-> kind, auth |-> auth, pay |-> pay, old |-> old, via |-> via,
   ent |-> IF old \in DOMAIN ShapeEntries THEN ShapeEntries[old] ELSE <<>>, res |-> res]

Init == /\ applied = [k \in Kind |-> 0] /\ cleared = [k \in Kind |-> 0] /\ dirty = FALSE
        /\ op = Op("Init", None, None, None, None, None, "ok")

Rej(o) == /\ op' = [o EXCEPT !.res = "rej"] /\ UNCHANGED svars

(* a privileged message of kind k with authority class au, payload class pay and (raw store update)  *)
(* entry list old, delivered via v                                                                   *)
Priv(k, au, pay, old, v) ==
  LET this == Op("Priv", k, au, pay, old, v, "ok")
      okk  == /\ k \in Routable /\ au = "gov"
              /\ (pay = "valid" \/ (pay = "reset" /\ k \in ResetKind))
              /\ (k \in StoreKind => Holds(this.ent))
  IN IF ~okk THEN Rej(this) ELSE
     /\ IF pay = "valid" THEN applied' = [applied EXCEPT ![k] = @ + 1] /\ UNCHANGED cleared
                         ELSE cleared' = [cleared EXCEPT ![k] = @ + 1] /\ UNCHANGED applied
     /\ UNCHANGED dirty /\ op' = this

Probe == op' = Op("Probe", None, None, None, None, None, "ok") /\ UNCHANGED svars

(* the payload class "invalid" is defined relative to the router (most invalid payloads fail its stateless     *)
(* validation), so direct delivery is driven with the valid and the reset payloads (and, for the third-party  *)
(* kinds, the empty body the router is driven with)                                                          *)
Next ==
  \/ \E k \in Kind \ RejectOnly, au \in Auth, v \in Via :
     \E pay \in (IF v = "router" THEN {"valid", "invalid"} ELSE {"valid"}) \cup (IF k \in ResetKind THEN {"reset"} ELSE {}) :
        IF k \in StoreKind THEN \E old \in Shape : Priv(k, au, pay, old, v) ELSE Priv(k, au, pay, None, v)
  \/ \E k \in RejectOnly, au \in Auth \ {"gov"}, v \in Via : Priv(k, au, "invalid", None, v)
  \/ Probe

Spec == Init /\ [][Next]_vars

---------------------------------------------------------------------------
(* PROPERTIES (C16) *)

\* a rejected privileged message leaves every store byte-for-byte unchanged
C16_RejectedLeavesNoTrace == ~dirty

\* an effect exists only for the governance authority
A_C16_OnlyGov == (applied' # applied \/ cleared' # cleared) => (op'.name = "Priv" /\ op'.auth = "gov" /\ op'.res = "ok")
C16_OnlyGov == [][A_C16_OnlyGov]_vars

\* with any other authority the message is rejected
A_C16_OtherAuthorityRejected == (op'.name = "Priv" /\ op'.auth # "gov") => (op'.res = "rej" /\ applied' = applied /\ cleared' = cleared)
C16_OtherAuthorityRejected == [][A_C16_OtherAuthorityRejected]_vars

\* a raw store update applies only if, for every entry, the current value (when the entry is reached) equals the
\* stated old value
A_C16_StoreCompareAndSet == \A k \in StoreKind : (applied'[k] # applied[k] \/ cleared'[k] # cleared[k]) => Holds(op'.ent)
C16_StoreCompareAndSet == [][A_C16_StoreCompareAndSet]_vars

\* only the named kind takes effect, once
A_C16_OnlyNamedKind ==
  \A k \in Kind :
    /\ (applied'[k] # applied[k]) => (op'.kind = k /\ op'.pay = "valid" /\ applied'[k] = applied[k] + 1)
    /\ (cleared'[k] # cleared[k]) => (op'.kind = k /\ op'.pay = "reset" /\ cleared'[k] = cleared[k] + 1)
C16_OnlyNamedKind == [][A_C16_OnlyNamedKind]_vars

---------------------------------------------------------------------------
RECURSIVE SumAll(_, _)
SumAll(S, f) == IF S = {} THEN 0 ELSE LET x == CHOOSE y \in S : TRUE IN f[x] + SumAll(S \ {x}, f)
View == svars
Bounded == SumAll(Kind, applied') + SumAll(Kind, cleared') <= MaxApplied
EdgeDump == /\ IF op.name = "Init" \/ op'.res = "ok"
               THEN PrintT(<<"EDGE", ToJson([from |-> Abs, op |-> op', to |-> Abs'])>>)
               ELSE TRUE
            /\ Bounded
=============================================================================
