------------------------------ MODULE Authority ------------------------------
(***************************************************************************)
(* C16: privileged messages take effect only when issued by the governance *)
(* authority (x/crosschain msg_server.go UpdateParams/UpdateChainOracles    *)
(* behind msg_server_router.go, x/erc20 msg_server.go UpdateParams/         *)
(* RegisterCoin/RegisterERC20/ToggleTokenConversion/UpdateDenomAlias,       *)
(* x/evm msg_server.go CallContract, x/gov msg_server.go UpdateStore/       *)
(* UpdateSwitchParams/UpdateCustomParams).                                  *)
(*                                                                         *)
(* Kind is NOT written here: bin/spec_authority.py fills it from the real   *)
(* application (every message type of the interface registry whose          *)
(* descriptor declares cosmos.msg.v1.signer = "authority"; crosschain types *)
(* once per chain module registered on the crosschain router).              *)
(*   Routable   : kinds with a handler on the message router                *)
(*   StoreKind  : raw store updates (compare-and-set on old values)         *)
(*   RejectOnly : third-party kinds the harness has no valid payload for:   *)
(*                only the "another authority is rejected" half is driven   *)
(*   ResetKind  : kinds that also have a delete / reset form (gov custom     *)
(*                params removal, erc20 alias removal, gov switch entry     *)
(*                removal, raw store overwrite of an existing value); the   *)
(*                world holds targets on which that form WOULD have an      *)
(*                effect; cleared[k] counts the targets it has consumed     *)
(* applied[k] counts how often kind k took effect; the adapter projects it  *)
(* from a kind-specific observable (parameter value, oracle list, token     *)
(* registered, switch list, store value, allowance set by the contract call)*)
(* dirty: a rejected operation changed some store byte (complete multistore *)
(* dump before/after); the specification never sets it.                     *)
(***************************************************************************)
EXTENDS Integers, Sequences, FiniteSets, TLC, Json

CONSTANTS Kind, Routable, StoreKind, RejectOnly, ResetKind,
          Auth,        \* subset of {"gov","othermodule","user","empty","gov-hex","gov-otherprefix","gov-suffix-21",
                       \* "gov-suffix-32","gov-prefix-32"}; an authority is identified by the account it decodes
                       \* to, so other spellings of the gov bech32 address (upper case) are not a class of their
                       \* own, while longer addresses that merely CONTAIN the gov bytes are other accounts
          MaxApplied   \* bound on the total number of applications

VARIABLES applied, cleared, dirty, op
svars == <<applied, cleared, dirty>>
vars  == <<svars, op>>

None == "none"
OldClass == {"match", "mismatch-first", "mismatch-second"}
Abs == [applied |-> applied, cleared |-> cleared, dirty |-> dirty]
Op(name, kind, auth, pay, old, res) == [name |-> name, kind |-> kind, auth |-> auth, pay |-> pay, old |-> old, res |-> res]

Init == /\ applied = [k \in Kind |-> 0] /\ cleared = [k \in Kind |-> 0] /\ dirty = FALSE
        /\ op = Op("Init", None, None, None, None, "ok")

Rej(o) == /\ op' = [o EXCEPT !.res = "rej"] /\ UNCHANGED svars

(* a privileged message of kind k with authority class au, payload class pay and (raw store update)  *)
(* old-value class old                                                                               *)
Priv(k, au, pay, old) ==
  LET this == Op("Priv", k, au, pay, old, "ok")
      okk  == /\ k \in Routable /\ au = "gov"
              /\ (pay = "valid" \/ (pay = "reset" /\ k \in ResetKind))
              /\ (k \in StoreKind => old = "match")
  IN IF ~okk THEN Rej(this) ELSE
     /\ IF pay = "valid" THEN applied' = [applied EXCEPT ![k] = @ + 1] /\ UNCHANGED cleared
                         ELSE cleared' = [cleared EXCEPT ![k] = @ + 1] /\ UNCHANGED applied
     /\ UNCHANGED dirty /\ op' = this

Probe == op' = Op("Probe", None, None, None, None, "ok") /\ UNCHANGED svars

Next ==
  \/ \E k \in Kind \ RejectOnly, au \in Auth :
     \E pay \in {"valid", "invalid"} \cup (IF k \in ResetKind THEN {"reset"} ELSE {}) :
        IF k \in StoreKind THEN \E old \in OldClass : Priv(k, au, pay, old) ELSE Priv(k, au, pay, None)
  \/ \E k \in RejectOnly, au \in Auth \ {"gov"} : Priv(k, au, "invalid", None)
  \/ Probe

Spec == Init /\ [][Next]_vars

---------------------------------------------------------------------------
(* PROPERTIES (C16) *)

\* a rejected privileged message leaves every store byte-for-byte unchanged
C16_RejectedLeavesNoTrace == ~dirty

\* an effect exists only for the governance authority
A_C16_OnlyGov == (applied' # applied \/ cleared' # cleared) => (op'.name = "Priv" /\ op'.auth = "gov" /\ op'.res = "ok")
C16_OnlyGov == [][A_C16_OnlyGov]_vars

\* with any other authority the message is rejected
A_C16_OtherAuthorityRejected == (op'.name = "Priv" /\ op'.auth # "gov") => (op'.res = "rej" /\ applied' = applied /\ cleared' = cleared)
C16_OtherAuthorityRejected == [][A_C16_OtherAuthorityRejected]_vars

\* a raw store update applies only if the current values equal the stated old values
A_C16_StoreCompareAndSet == \A k \in StoreKind : (applied'[k] # applied[k] \/ cleared'[k] # cleared[k]) => op'.old = "match"
C16_StoreCompareAndSet == [][A_C16_StoreCompareAndSet]_vars

\* only the named kind takes effect, once
A_C16_OnlyNamedKind ==
  \A k \in Kind :
    /\ (applied'[k] # applied[k]) => (op'.kind = k /\ op'.pay = "valid" /\ applied'[k] = applied[k] + 1)
    /\ (cleared'[k] # cleared[k]) => (op'.kind = k /\ op'.pay = "reset" /\ cleared'[k] = cleared[k] + 1)
C16_OnlyNamedKind == [][A_C16_OnlyNamedKind]_vars

---------------------------------------------------------------------------
RECURSIVE SumAll(_, _)
SumAll(S, f) == IF S = {} THEN 0 ELSE LET x == CHOOSE y \in S : TRUE IN f[x] + SumAll(S \ {x}, f)
View == svars
Bounded == SumAll(Kind, applied') + SumAll(Kind, cleared') <= MaxApplied
EdgeDump == /\ IF op.name = "Init" \/ op'.res = "ok"
               THEN PrintT(<<"EDGE", ToJson([from |-> Abs, op |-> op', to |-> Abs'])>>)
               ELSE TRUE
            /\ Bounded
=============================================================================
