------------------------------- MODULE Shares -------------------------------
(***************************************************************************)
(* Delegation shares moved through the staking precompile                  *)
(* (x/staking/precompile: delegateV2, undelegateV2, redelegateV2,          *)
(* withdraw, approveShares, transferShares, transferFromShares;            *)
(* x/staking/keeper/shares.go allowances) interleaved with reward-producing *)
(* blocks and validator slashing.                                          *)
(*                                                                         *)
(* Amounts: one model unit = 100 FX (= one unit of consensus power, so a   *)
(* 50% slash of the validator's power halves its tokens exactly).          *)
(*   shares[d][v], valShares[v]  delegation shares, in units               *)
(*   valTokens[v]                tokens backing valShares[v], in HALF units *)
(*                               (so that one 50% slash stays integral)    *)
(*   den[v]                      shares issued per token (1, 2 after slash) *)
(*   ubd[d][v]                   tokens in unbonding entries, in units      *)
(* valShares/valTokens are the part of the real validator contributed by   *)
(* the modelled delegators (the genesis self-delegation is subtracted).    *)
(*                                                                         *)
(* FRACTIONAL SHARES (family "tenth"): the world is built with validator   *)
(* v1 already slashed by 10% and one model unit = ONE base unit (1e-18 FX  *)
(* / one whole share).  A token then buys 1.111111111111111111 shares.     *)
(* Every share quantity is the pair (shares, frac) standing for            *)
(*      shares + frac * 0.111111111111111111                               *)
(* (frac[d][v], valFrac[v]; fden[v] = fractions issued per token).  Whole  *)
(* numbers of shares are transferable, the fraction stays with its owner.  *)
(* In all other families frac, valFrac and fden are constantly 0.          *)
(*                                                                         *)
(* REWARD ENTITLEMENT: accrued[d][v] = number of reward-producing blocks   *)
(* whose rewards the delegation of d at v has earned and not yet been paid. *)
(* Every operation that changes a delegation's shares pays it out first,   *)
(* so the delegation earned all of them ON ITS CURRENT SHARES: what d is   *)
(* owed at v is  shares[d][v] * (rewards one share of v earned in the last *)
(* accrued[d][v] reward blocks).  The rewards one share of v earns per     *)
(* block are measured on a REFERENCE delegation that no modelled operation *)
(* touches (the validator's genesis self-delegation); the projection       *)
(* yields -1 when the rewards the real distribution module owes are not    *)
(* such an amount for any whole number of blocks.                          *)
(*                                                                         *)
(* inv, pay, drain, exact are OBSERVATION registers: the harness evaluates *)
(* the SDK's registered crisis invariants, the reward pay-out equation of  *)
(* the last step and the "everybody withdraws and fully undelegates" drain *)
(* on the real state and projects the outcome ("exact": every projected    *)
(* amount is a whole number of units); in the design they are constantly   *)
(* "ok".                                                                   *)
(*                                                                         *)
(* One action per entry point, every action TOTAL (res "ok"/"rej").        *)
(* A transfer to oneself is specified as the identity.                     *)
(***************************************************************************)
EXTENDS Integers, Sequences, FiniteSets, TLC, Json

CONSTANTS Delegator,   \* set of strings
          Validator,   \* set of strings
          TokAmt,      \* token amounts (units) for delegate
          UndAmt,      \* token amounts (units) for undelegate / redelegate
          ShareAmt,    \* share amounts (units) for transfer / transferFrom
          AllowAmt,    \* allowance values for approve
          Spender,     \* subset of Delegator: accounts that are approved / sign transferFrom
          Slashable,   \* subset of Validator: validators the environment may slash
          InitShares,  \* [Delegator -> [Validator -> Nat]] delegations made while building the world
          InitFden,    \* [Validator -> Nat] 1 for a validator slashed by 10% while building the world, else 0
          Cap,         \* [kind -> Nat] bound on accepted operations per kind
          MaxSteps     \* bound on accepted operations in total

VARIABLES shares, valShares, valTokens, den, allow, accrued, recv, ubd, inv, pay, drain, exact,
          frac, valFrac, fden,
          cnt,  \* bounding counters [kind -> Nat]
          op    \* the operation just attempted: [name, d, v, w, f, t, n, res]

svars == <<shares, valShares, valTokens, den, allow, accrued, recv, ubd, inv, pay, drain, exact, frac, valFrac, fden, cnt>>
vars  == <<svars, op>>

None == "none"
Kinds == {"del", "und", "red", "wd", "app", "xfer", "xfrom", "tick", "slash"}

Abs == [shares |-> shares, valShares |-> valShares, valTokens |-> valTokens, den |-> den,
        allow |-> allow, accrued |-> accrued, recv |-> recv, ubd |-> ubd,
        inv |-> inv, pay |-> pay, drain |-> drain, exact |-> exact,
        frac |-> frac, valFrac |-> valFrac, fden |-> fden]

RECURSIVE SumSet(_, _)
SumSet(S, f) == IF S = {} THEN 0 ELSE LET x == CHOOSE y \in S : TRUE IN f[x] + SumSet(S \ {x}, f)

SharesAt(sh, v) == SumSet(Delegator, [d \in Delegator |-> sh[d][v]])

\* d = the signer of the EVM transaction; f/t = from/to (owner/spender for approve)
Op(name, d, v, w, f, t, n, res) ==
  [name |-> name, d |-> d, v |-> v, w |-> w, f |-> f, t |-> t, n |-> n, res |-> res]

Init ==
  /\ shares = InitShares
  /\ valShares = [v \in Validator |-> SharesAt(InitShares, v)]
  /\ valTokens = [v \in Validator |-> 2 * SharesAt(InitShares, v)]
  /\ den = [v \in Validator |-> 1]
  /\ allow = [v \in Validator |-> [o \in Delegator |-> [s \in Delegator |-> 0]]]
  /\ accrued = [d \in Delegator |-> [v \in Validator |-> 0]]
  /\ recv = [d \in Delegator |-> [v \in Validator |-> FALSE]]
  /\ ubd = [d \in Delegator |-> [v \in Validator |-> 0]]
  /\ inv = "ok" /\ pay = "ok" /\ drain = "ok" /\ exact = "ok"
  /\ frac = [d \in Delegator |-> [v \in Validator |-> 0]]
  /\ valFrac = [v \in Validator |-> 0]
  /\ fden = InitFden
  /\ cnt = [k \in Kinds |-> 0]
  /\ op = Op("Init", None, None, None, None, None, 0, "ok")

Rej(o) == /\ op' = [o EXCEPT !.res = "rej"] /\ UNCHANGED svars
Count(k) == cnt' = [cnt EXCEPT ![k] = @ + 1]
Obs == UNCHANGED <<inv, pay, drain, exact>>
NoFrac == UNCHANGED <<frac, valFrac, fden>>
Has(d, v) == shares[d][v] > 0 \/ frac[d][v] > 0    \* d has a delegation at v

---------------------------------------------------------------------------
(* delegateV2(v, n tokens): the delegators are funded amply, so only the   *)
(* stateless checks can refuse.  Existing rewards are paid by the          *)
(* distribution hook.                                                      *)
Delegate(d, v, n) ==
  LET this == Op("Delegate", d, v, None, None, None, n, "ok")
      okk  == n > 0
  IN IF ~okk THEN Rej(this) ELSE
     /\ shares' = [shares EXCEPT ![d][v] = @ + n * den[v]]
     /\ valShares' = [valShares EXCEPT ![v] = @ + n * den[v]]
     /\ valTokens' = [valTokens EXCEPT ![v] = @ + 2 * n]
     /\ frac' = [frac EXCEPT ![d][v] = @ + n * fden[v]]
     /\ valFrac' = [valFrac EXCEPT ![v] = @ + n * fden[v]]
     /\ accrued' = [accrued EXCEPT ![d][v] = 0]
     /\ Count("del") /\ op' = this /\ Obs
     /\ UNCHANGED <<den, fden, allow, recv, ubd>>

(* undelegateV2(v, n tokens): needs n*den shares.  (Not offered on a       *)
(* validator with fractional rate: UndAmt = {} in that family.)            *)
Undelegate(d, v, n) ==
  LET this == Op("Undelegate", d, v, None, None, None, n, "ok")
      okk  == n > 0 /\ shares[d][v] >= n * den[v]
  IN IF ~okk THEN Rej(this) ELSE
     /\ shares' = [shares EXCEPT ![d][v] = @ - n * den[v]]
     /\ valShares' = [valShares EXCEPT ![v] = @ - n * den[v]]
     /\ valTokens' = [valTokens EXCEPT ![v] = @ - 2 * n]
     /\ ubd' = [ubd EXCEPT ![d][v] = @ + n]
     /\ accrued' = [accrued EXCEPT ![d][v] = 0]
     /\ Count("und") /\ op' = this /\ Obs /\ NoFrac
     /\ UNCHANGED <<den, allow, recv>>

(* redelegateV2(v -> w, n tokens): refused for v = w, for insufficient     *)
(* shares and while d has an incoming redelegation at the source           *)
(* (transitive redelegation); d then has an incoming redelegation at w.    *)
Redelegate(d, v, w, n) ==
  LET this == Op("Redelegate", d, v, w, None, None, n, "ok")
      okk  == n > 0 /\ v # w /\ shares[d][v] >= n * den[v] /\ ~recv[d][v]
  IN IF ~okk THEN Rej(this) ELSE
     /\ shares' = [shares EXCEPT ![d][v] = @ - n * den[v], ![d][w] = @ + n * den[w]]
     /\ valShares' = [valShares EXCEPT ![v] = @ - n * den[v], ![w] = @ + n * den[w]]
     /\ valTokens' = [valTokens EXCEPT ![v] = @ - 2 * n, ![w] = @ + 2 * n]
     /\ recv' = [recv EXCEPT ![d][w] = TRUE]
     /\ accrued' = [accrued EXCEPT ![d][v] = 0, ![d][w] = 0]
     /\ Count("red") /\ op' = this /\ Obs /\ NoFrac
     /\ UNCHANGED <<den, allow, ubd>>

(* withdraw(v): needs a delegation. *)
Withdraw(d, v) ==
  LET this == Op("Withdraw", d, v, None, None, None, 0, "ok")
      okk  == Has(d, v)
  IN IF ~okk THEN Rej(this) ELSE
     /\ accrued' = [accrued EXCEPT ![d][v] = 0]
     /\ Count("wd") /\ op' = this /\ Obs /\ NoFrac
     /\ UNCHANGED <<shares, valShares, valTokens, den, allow, recv, ubd>>

(* approveShares(v, spender, n): sets the allowance, whatever the owner holds. *)
Approve(o, v, s, n) ==
  LET this == Op("Approve", o, v, None, o, s, n, "ok")
  IN /\ allow' = [allow EXCEPT ![v][o][s] = n]
     /\ Count("app") /\ op' = this /\ Obs /\ NoFrac
     /\ UNCHANGED <<shares, valShares, valTokens, den, accrued, recv, ubd>>

\* what a transfer of n shares of v from f needs / does (to oneself: nothing)
XferOk(f, v, n) == n > 0 /\ shares[f][v] >= n /\ ~recv[f][v]
XferEff(f, t, v, n) ==
  /\ IF f = t THEN UNCHANGED <<shares, accrued>>
     ELSE /\ shares' = [shares EXCEPT ![f][v] = @ - n, ![t][v] = @ + n]
          /\ accrued' = [accrued EXCEPT ![f][v] = 0, ![t][v] = 0]
  /\ UNCHANGED <<valShares, valTokens, den, recv, ubd>>

(* transferShares(v, to, n shares) signed by f. *)
Transfer(f, v, t, n) ==
  LET this == Op("Transfer", f, v, None, f, t, n, "ok")
  IN IF ~XferOk(f, v, n) THEN Rej(this) ELSE
     /\ XferEff(f, t, v, n)
     /\ Count("xfer") /\ op' = this /\ Obs /\ NoFrac
     /\ UNCHANGED allow

(* transferFromShares(v, from, to, n shares) signed by spender s. *)
TransferFrom(s, v, f, t, n) ==
  LET this == Op("TransferFrom", s, v, None, f, t, n, "ok")
  IN IF ~(allow[v][f][s] >= n /\ XferOk(f, v, n)) THEN Rej(this) ELSE
     /\ XferEff(f, t, v, n)
     /\ allow' = [allow EXCEPT ![v][f][s] = @ - n]
     /\ Count("xfrom") /\ op' = this /\ Obs /\ NoFrac

(* a block that allocates rewards to both validators: every existing       *)
(* delegation earns one more block's rewards on the shares it holds.       *)
RewardTick ==
  LET this == Op("RewardTick", None, None, None, None, None, 0, "ok")
  IN /\ accrued' = [d \in Delegator |-> [v \in Validator |-> IF Has(d, v) THEN accrued[d][v] + 1 ELSE 0]]
     /\ Count("tick") /\ op' = this /\ Obs /\ NoFrac
     /\ UNCHANGED <<shares, valShares, valTokens, den, allow, recv, ubd>>

(* a new block starts by slashing v by 50% of its power (infraction at     *)
(* the current height: unbonding entries / redelegations are not touched). *)
Slash(v) ==
  LET this == Op("Slash", None, v, None, None, None, 0, "ok")
  IN IF den[v] # 1 \/ fden[v] # 0 THEN Rej(this) ELSE   \* the environment slashes a validator at most once
     /\ valTokens' = [valTokens EXCEPT ![v] = @ \div 2]
     /\ den' = [den EXCEPT ![v] = @ * 2]
     /\ Count("slash") /\ op' = this /\ Obs /\ NoFrac
     /\ UNCHANGED <<shares, valShares, allow, accrued, recv, ubd>>

Probe == op' = Op("Probe", None, None, None, None, None, 0, "ok") /\ UNCHANGED svars

Next ==
  \/ \E d \in Delegator, v \in Validator, n \in TokAmt : Delegate(d, v, n)
  \/ \E d \in Delegator, v \in Validator, n \in UndAmt : Undelegate(d, v, n)
  \/ \E d \in Delegator, v \in Validator, w \in Validator, n \in UndAmt : Redelegate(d, v, w, n)
  \/ \E d \in Delegator, v \in Validator : Withdraw(d, v)
  \/ \E o \in Delegator, v \in Validator, s \in Spender, n \in AllowAmt : Approve(o, v, s, n)
  \/ \E f \in Delegator, v \in Validator, t \in Delegator, n \in ShareAmt : Transfer(f, v, t, n)
  \/ \E s \in Spender, v \in Validator, f \in Delegator, t \in Delegator, n \in ShareAmt : TransferFrom(s, v, f, t, n)
  \/ RewardTick
  \/ \E v \in Slashable : Slash(v)
  \/ Probe

Spec == Init /\ [][Next]_vars

---------------------------------------------------------------------------
(* PROPERTIES (C11), stated over the state variables and `op` only so that *)
(* TLC evaluates them on the model and on behaviours recorded from the     *)
(* real code (SharesProp.tla).                                             *)

IsXfer(o)  == o.name \in {"Transfer", "TransferFrom"}
OkXfer(o)  == IsXfer(o) /\ o.res = "ok"

\* every delegator's shares sum to the validator's total shares
C11_SharesSum == \A v \in Validator : SharesAt(shares, v) = valShares[v] /\ SharesAt(frac, v) = valFrac[v]

\* the validator's tokens back its shares at the validator's exchange rate
C11_StakeBacksShares == \A v \in Validator : /\ valTokens[v] * den[v] = 2 * valShares[v]
                                              /\ valTokens[v] * fden[v] = 2 * valFrac[v]

\* a transfer takes exactly n from the sender and gives exactly n to the recipient (to oneself:
\* nothing changes), touches nobody else, never more than the sender owns, and never changes
\* the validator's tokens, total shares, exchange rate or anybody's unbonding / redelegation
A_C11_TransferConserves ==
  OkXfer(op') =>
    LET f == op'.f  t == op'.t  v == op'.v  n == op'.n IN
      /\ n > 0 /\ shares[f][v] >= n
      /\ shares' = IF f = t THEN shares ELSE [shares EXCEPT ![f][v] = @ - n, ![t][v] = @ + n]
      /\ valShares' = valShares /\ valTokens' = valTokens /\ den' = den
      /\ ubd' = ubd /\ recv' = recv
      /\ frac' = frac /\ valFrac' = valFrac /\ fden' = fden   \* fractions of a share stay where they are
C11_TransferConserves == [][A_C11_TransferConserves]_vars

\* the sender of a transfer must not have an incoming redelegation at that validator
A_C11_BlockedWhileReceiving == OkXfer(op') => ~recv[op'.f][op'.v]
C11_BlockedWhileReceiving == [][A_C11_BlockedWhileReceiving]_vars

\* allowances: transferFrom moves at most the allowance and reduces it by exactly the amount;
\* nothing else but approve (which sets exactly what was asked) changes an allowance
A_C11_AllowanceExact ==
  /\ (op'.name = "TransferFrom" /\ op'.res = "ok") =>
        /\ allow[op'.v][op'.f][op'.d] >= op'.n
        /\ allow' = [allow EXCEPT ![op'.v][op'.f][op'.d] = @ - op'.n]
  /\ (op'.name = "Approve" /\ op'.res = "ok") => allow' = [allow EXCEPT ![op'.v][op'.f][op'.t] = op'.n]
  /\ allow' # allow => op'.res = "ok" /\ op'.name \in {"TransferFrom", "Approve"}
C11_AllowanceExact == [][A_C11_AllowanceExact]_vars

\* after a transfer neither party has rewards outstanding: each was paid what had accrued
A_C11_BothPaid ==
  (OkXfer(op') /\ op'.f # op'.t) => accrued'[op'.f][op'.v] = 0 /\ accrued'[op'.t][op'.v] = 0
C11_BothPaid == [][A_C11_BothPaid]_vars
\* ... and what each party received is exactly what it was owed (balance delta = rewards owed
\* before - rewards owed after), evaluated by the harness on the real step
C11_PaidExactly == pay = "ok"

\* reward entitlements follow the shares (staking and distribution bookkeeping agree): what a delegation
\* is owed is always what its CURRENT shares earned over a whole number of reward blocks (the projection
\* gives -1 otherwise), and nothing is owed where there is no delegation
C11_RewardsFollowShares ==
  \A d \in Delegator, v \in Validator : accrued[d][v] >= 0 /\ (~Has(d, v) => accrued[d][v] = 0)
\* entitlements are conserved: a reward block adds exactly one block's rewards on the shares held at that
\* moment to every delegation; any other operation leaves every entitlement as it is, except that the
\* delegations it acts on (delegator d at v / w, or from and to of a transfer) may be paid out in full
Party(o, d, v) ==
  \/ o.name \in {"Delegate", "Undelegate", "Withdraw"} /\ d = o.d /\ v = o.v
  \/ o.name = "Redelegate" /\ d = o.d /\ v \in {o.v, o.w}
  \/ IsXfer(o) /\ d \in {o.f, o.t} /\ v = o.v
A_C11_EntitlementConserved ==
  /\ (op'.name = "RewardTick" /\ op'.res = "ok") =>
        \A d \in Delegator, v \in Validator : accrued'[d][v] = IF Has(d, v) THEN accrued[d][v] + 1 ELSE 0
  /\ op'.name # "RewardTick" =>
        \A d \in Delegator, v \in Validator :
           \/ accrued'[d][v] = accrued[d][v]
           \/ accrued'[d][v] = 0 /\ op'.res = "ok" /\ Party(op', d, v)
C11_EntitlementConserved == [][A_C11_EntitlementConserved]_vars

\* only staking operations move stake; a refused operation changes nothing
A_C11_OnlyStakeOpsMoveStake ==
  /\ op'.res = "rej" => Abs' = Abs
  /\ op'.name \in {"Withdraw", "Approve", "RewardTick"} =>
        /\ shares' = shares /\ valShares' = valShares /\ valTokens' = valTokens /\ den' = den /\ ubd' = ubd
        /\ frac' = frac /\ valFrac' = valFrac /\ fden' = fden
  /\ op'.name = "Slash" => shares' = shares /\ valShares' = valShares /\ ubd' = ubd /\ frac' = frac /\ valFrac' = valFrac
C11_OnlyStakeOpsMoveStake == [][A_C11_OnlyStakeOpsMoveStake]_vars

\* all registered staking / distribution / bank / gov (crisis) invariants hold on the real state
C11_SdkInvariants == inv = "ok"
\* every delegator can withdraw its rewards and fully undelegate
C11_Drainable == drain = "ok"

---------------------------------------------------------------------------
(* model-checking plumbing *)
View == svars
Bounded == /\ \A k \in Kinds : cnt'[k] <= Cap[k]
           /\ SumSet(Kinds, cnt') <= MaxSteps
EdgeDump == /\ IF op.name = "Init" \/ op'.res = "ok"
               THEN PrintT(<<"EDGE", ToJson([from |-> Abs, op |-> op', to |-> Abs'])>>)
               ELSE TRUE
            /\ Bounded
=============================================================================
