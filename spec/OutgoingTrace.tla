---------------------------- MODULE OutgoingTrace ----------------------------
(* Strict trace validation of Outgoing.tla (see AttestTrace.tla). *)
EXTENDS OutgoingMC
CONSTANT TraceFile
VARIABLE l
Trace == ndJsonDeserialize(TraceFile)

Install(st) ==
  /\ bal' = st.bal /\ tx' = st.tx /\ bt' = st.bt /\ cl' = st.cl /\ ntx' = st.ntx /\ nbt' = st.nbt /\ ncl' = st.ncl
  /\ fxH' = st.fxH /\ obsExt' = st.obsExt /\ obsFx' = st.obsFx /\ lastObs' = st.lastObs /\ parked' = st.parked
  /\ extH' = st.extH /\ queue' = st.queue /\ xbt' = st.xbt /\ xlast' = st.xlast /\ xcl' = st.xcl /\ cobs' = st.cobs
  /\ ndep' = st.ndep /\ obsDep' = st.obsDep /\ obsOut' = st.obsOut /\ extIn' = st.extIn /\ extOut' = st.extOut

TInit == Init /\ l = 1
TNext == /\ l <= Len(Trace) /\ l' = l + 1
         /\ LET e == Trace[l] IN
            IF e.op.name = "Reset" THEN Install(e.st) /\ op' = e.op
            ELSE Do(e.op) /\ op'.res = e.op.res /\ Abs' = e.st
TSpec == TInit /\ [][TNext]_<<vars, l>>
Consumed == TLCGet("stats").diameter - 1 = Len(Trace)
=============================================================================
