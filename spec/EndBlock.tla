------------------------------ MODULE EndBlock ------------------------------
(***************************************************************************)
(* End-of-block logic of ONE crosschain module plus the gov end-blocker    *)
(* (x/crosschain/keeper/abci.go EndBlocker = slashing -> oracle-set        *)
(* request -> pruning; oracle.go SlashOracle; oracle_set.go                *)
(* GetCurrentOracleSet/AddOracleSetRequest; x/gov/abci.go EndBlocker), and *)
(* the operations of the environment that build the states a block can end *)
(* in: bonding, governance removal, batches, outgoing bridge calls,        *)
(* confirmations, an observed oracle-set update, proposals, and            *)
(* Tick(k) = k blocks pass.                                                *)
(*                                                                         *)
(* Heights are kept RELATIVE to the current block so that the model is     *)
(* finite without a time horizon (the code only ever compares differences  *)
(* of heights):                                                            *)
(*   x.age      = min(currentHeight - x.creationHeight, W + 1)             *)
(*   x.elig[o]  = o is registered and o.StartHeight <= x.creationHeight    *)
(*                (the startHeight exemption of the slashing loops)        *)
(*   p.left     = blocks until the proposal's deposit/voting period ends   *)
(* The code's conditions read, at the end of block `now`,                  *)
(*   oracle set  now - W >  h   <=> age >= W + 1                           *)
(*   batch       h <  now - W   <=> age >= W + 1                           *)
(*   bridge call h <= now - W   <=> age >= W      (one block earlier)      *)
(*   pruning     now - W >  h   <=> age >= W + 1                           *)
(* Stakes are counted in STAKE UNITS, Unit of which make one power unit    *)
(* (DelegateAmount = stake * 10^20 / Unit); an oracle's power is the whole *)
(* number of power units of its stake (stake div Unit: GetPower), so with  *)
(* Unit > 1 and a delegate threshold below Unit an oracle may be bonded and*)
(* online with power 0.  The delegate threshold (params.DelegateThreshold, *)
(* in stake units) is state: governance may change it (SetThreshold).  An  *)
(* oracle set records its members (the online oracles with power > 0) and  *)
(* their normalised powers, kept here at 20 bits:                          *)
(*   np[o] = floor(floor(p_o * (2^32-1) / total) / 4096)                   *)
(*         = (p_o * 2^20 - 1) div total          (TLC integers are 32 bit) *)
(* LastSlashedBatchBlock (a height) is represented by the nonce of the     *)
(* batch created at that height (at most one batch per block).             *)
(*                                                                         *)
(* Every action is TOTAL (res "ok"/"rej").  Tick has no "rej" outcome:     *)
(* block processing cannot fail in the design.  Where the code contradicts *)
(* that, the model keeps the CORRECT behaviour and the deviation shows.    *)
(***************************************************************************)
EXTENDS Integers, Sequences, FiniteSets, TLC, Json

CONSTANTS Oracle,        \* set of strings
          Unit,          \* stake units per power unit (>= 1)
          Stake,         \* [Oracle -> Nat] stake units an oracle bonds with
          AddSizes,      \* stake units an online oracle may add (MsgAddDelegate)
          MaxAdds,
          Threshold0,    \* params.DelegateThreshold in the initial state (stake units, > 0)
          Thresholds,    \* values governance may set it to (MsgUpdateParams)
          Multiple,      \* params.DelegateMultiple: a stake is at most threshold * Multiple
          W,             \* signed window (params.SignedWindow), >= 2
          Kinds,         \* subset of {"batch","call"}: which objects the environment creates
          MaxSets, MaxBatch, MaxCall,
          ObsSets,       \* oracle-set nonces for which an observed update may arrive
          Ticks,         \* set of k for Tick(k)
          Removable,     \* oracles governance may remove
          PropKind,      \* subset of GovKinds (below)
          MaxProps,
          DepositBlocks, VotingBlocks, ExpBlocks   \* periods in blocks (ExpBlocks < VotingBlocks)

VARIABLES reg, online, approved, stake, power, totalPower, adds, threshold,
          sets, latest, slashedSet, lastObsSet,
          batches, slashedBatch,
          calls, slashedCall,
          props,
          op   \* operation just attempted: [name, o, k, n, res]

svars == <<reg, online, approved, stake, power, totalPower, adds, threshold, sets, latest, slashedSet, lastObsSet,
           batches, slashedBatch, calls, slashedCall, props>>
vars  == <<svars, op>>

None == "none"

Abs == [reg |-> reg, online |-> online, approved |-> approved, stake |-> stake, power |-> power, totalPower |-> totalPower,
        threshold |-> threshold,
        sets |-> sets, latest |-> latest, slashedSet |-> slashedSet, lastObsSet |-> lastObsSet,
        batches |-> batches, slashedBatch |-> slashedBatch, calls |-> calls, slashedCall |-> slashedCall,
        props |-> props]

Op(name, o, k, n, res) == [name |-> name, o |-> o, k |-> k, n |-> n, res |-> res]

RECURSIVE SumSet(_, _)
SumSet(S, f) == IF S = {} THEN 0 ELSE LET x == CHOOSE y \in S : TRUE IN f[x] + SumSet(S \ {x}, f)
OnlineSum(on, rg, pw) == SumSet({o \in Oracle : rg[o] /\ on[o]}, pw)
MaxOf(S) == CHOOSE x \in S : \A y \in S : y <= x
Cap(a) == IF a >= W + 1 THEN W + 1 ELSE a
AllF == [o \in Oracle |-> FALSE]
All0 == [o \in Oracle |-> 0]
Idx(s) == 1..Len(s)

Init ==
  /\ reg = AllF /\ online = AllF /\ approved = [o \in Oracle |-> TRUE] /\ stake = All0 /\ power = All0 /\ totalPower = 0 /\ adds = 0
  /\ threshold = Threshold0
  /\ sets = <<>> /\ latest = 0 /\ slashedSet = 0 /\ lastObsSet = 0
  /\ batches = <<>> /\ slashedBatch = 0 /\ calls = <<>> /\ slashedCall = 0
  /\ props = <<>>
  /\ op = Op("Init", None, None, 0, "ok")

Rej(o) == /\ op' = [o EXCEPT !.res = "rej"] /\ UNCHANGED svars

---------------------------------------------------------------------------
(* objects created in the current block (age 0) have the same height as a  *)
(* bond made now: the new oracle is not exempt for them                    *)
EligNow(s, o) == [n \in Idx(s) |-> IF s[n].age = 0 THEN [s[n] EXCEPT !.elig[o] = TRUE] ELSE s[n]]

(* MsgBondedOracle: the stake must lie between the delegate threshold and threshold * DelegateMultiple *)
Bond(o) ==
  LET this == Op("Bond", o, None, 0, "ok")
      okk  == approved[o] /\ ~reg[o] /\ Stake[o] >= threshold /\ Stake[o] <= threshold * Multiple
  IN IF ~okk THEN Rej(this) ELSE
     /\ reg' = [reg EXCEPT ![o] = TRUE] /\ online' = [online EXCEPT ![o] = TRUE]
     /\ stake' = [stake EXCEPT ![o] = Stake[o]]
     /\ power' = [power EXCEPT ![o] = Stake[o] \div Unit]
     /\ totalPower' = OnlineSum(online', reg', power')
     /\ sets' = EligNow(sets, o) /\ batches' = EligNow(batches, o) /\ calls' = EligNow(calls, o)
     /\ op' = this
     /\ UNCHANGED <<approved, adds, threshold, latest, slashedSet, lastObsSet, slashedBatch, slashedCall, props>>

(* MsgUpdateChainOracles(approved \ {o}): refused when the online power removed is > 0 and     *)
(* >= 30% of the online power; a removed registered oracle goes offline (not slashed); the      *)
(* recorded total power is not refreshed.                                                       *)
GovRemove(o) ==
  LET this == Op("GovRemove", o, None, 0, "ok")
      tot  == OnlineSum(online, reg, power)
      del  == IF reg[o] /\ online[o] THEN power[o] ELSE 0
      okk  == approved[o] /\ ~(del > 0 /\ del >= (30 * tot) \div 100)
  IN IF ~okk THEN Rej(this) ELSE
     /\ approved' = [approved EXCEPT ![o] = FALSE]
     /\ online' = [online EXCEPT ![o] = FALSE]
     /\ op' = this
     /\ UNCHANGED <<reg, stake, power, totalPower, adds, threshold, sets, latest, slashedSet, lastObsSet, batches, slashedBatch, calls, slashedCall, props>>

(* MsgAddDelegate of `a` stake units by an approved, registered oracle.  An oracle that was slashed must  *)
(* first pay its penalty (80% of its stake: more than any amount used here), so only ONLINE oracles get *)
(* through; the new stake must lie between the threshold and threshold * DelegateMultiple; the recorded   *)
(* total power is refreshed.                                                                              *)
AddStake(o, a) ==
  LET this == Op("AddStake", o, None, a, "ok")
      okk  == approved[o] /\ reg[o] /\ online[o] /\ stake[o] + a >= threshold /\ stake[o] + a <= threshold * Multiple
  IN IF ~okk THEN Rej(this) ELSE
     /\ stake' = [stake EXCEPT ![o] = @ + a]
     /\ power' = [power EXCEPT ![o] = (stake[o] + a) \div Unit]
     /\ totalPower' = OnlineSum(online, reg, power')
     /\ adds' = adds + 1 /\ op' = this
     /\ UNCHANGED <<reg, online, approved, threshold, sets, latest, slashedSet, lastObsSet, batches, slashedBatch, calls, slashedCall, props>>

(* crosschain MsgUpdateParams by the governance authority changing DelegateThreshold to t stake units  *)
(* (Params.ValidateBasic only asks for a positive amount); stakes already bonded are not looked at     *)
SetThreshold(t) ==
  LET this == Op("SetThreshold", None, None, t, "ok")
      okk  == t > 0
  IN IF ~okk THEN Rej(this) ELSE
     /\ threshold' = t /\ op' = this
     /\ UNCHANGED <<reg, online, approved, stake, power, totalPower, adds, sets, latest, slashedSet, lastObsSet, batches, slashedBatch, calls, slashedCall, props>>

NewObj == [age |-> 0, conf |-> AllF, elig |-> reg]

(* MsgSendToExternal + MsgRequestBatch in one transaction: one batch per block *)
CreateBatch ==
  LET this == Op("CreateBatch", None, None, 0, "ok")
      okk  == \A n \in Idx(batches) : batches[n].age # 0
  IN IF ~okk THEN Rej(this) ELSE
     /\ batches' = Append(batches, NewObj) /\ op' = this
     /\ UNCHANGED <<reg, online, approved, stake, power, totalPower, adds, threshold, sets, latest, slashedSet, lastObsSet, slashedBatch, calls, slashedCall, props>>

(* MsgBridgeCall *)
CreateCall ==
  LET this == Op("CreateCall", None, None, 0, "ok")
  IN /\ calls' = Append(calls, NewObj) /\ op' = this
     /\ UNCHANGED <<reg, online, approved, stake, power, totalPower, adds, threshold, sets, latest, slashedSet, lastObsSet, batches, slashedBatch, slashedCall, props>>

(* MsgOracleSetConfirm / MsgConfirmBatch / MsgBridgeCallConfirm signed by o's external key:     *)
(* any REGISTERED oracle (online or not), object in store, not yet confirmed by o.              *)
Confirm(o, k, n) ==
  LET this == Op("Confirm", o, k, n, "ok")
      s    == CASE k = "set" -> sets [] k = "batch" -> batches [] OTHER -> calls
      okk  == reg[o] /\ n \in Idx(s) /\ (k = "set" => s[n].ex) /\ ~s[n].conf[o]
  IN IF ~okk THEN Rej(this) ELSE
     /\ sets'    = IF k = "set"   THEN [sets    EXCEPT ![n].conf[o] = TRUE] ELSE sets
     /\ batches' = IF k = "batch" THEN [batches EXCEPT ![n].conf[o] = TRUE] ELSE batches
     /\ calls'   = IF k = "call"  THEN [calls   EXCEPT ![n].conf[o] = TRUE] ELSE calls
     /\ op' = this
     /\ UNCHANGED <<reg, online, approved, stake, power, totalPower, adds, threshold, latest, slashedSet, lastObsSet, slashedBatch, slashedCall, props>>

(* an observed MsgOracleSetUpdatedClaim for oracle set n (which must still be in the store) *)
ObserveSet(n) ==
  LET this == Op("ObserveSet", None, None, n, "ok")
      okk  == n \in Idx(sets) /\ sets[n].ex
  IN IF ~okk THEN Rej(this) ELSE
     /\ lastObsSet' = n /\ op' = this
     /\ UNCHANGED <<reg, online, approved, stake, power, totalPower, adds, threshold, sets, latest, slashedSet, batches, slashedBatch, calls, slashedCall, props>>

(* MsgSubmitProposal followed by the votes of the two validators v0 v1 (v0 also carries the oracles'     *)
(* delegations, so v0 >= v1; quorum is 60% of the bonded stake, threshold 50%, veto 1/3).  Kinds:          *)
(*  dep  initial deposit below the minimum: stays in deposit period and is dropped when it ends            *)
(*  xy   x, y in {Y yes, N no, A abstain, V no-with-veto, - no vote}: vote of v0, vote of v1                *)
(*         YY passes; NN, NY rejected; VV vetoed (deposit burned); AA quorum reached but EVERY vote abstains *)
(*         (rejected); -A only the smaller validator abstains (below quorum); AY abstain + yes (passes);    *)
(*         -- nobody votes                                                                                  *)
(*  W    weighted votes: v0 {yes .5, no .5}, v1 {yes .5, abstain .5} (passes)                               *)
(*  bad  YY, but the message fails on execution (proposal FAILED, nothing written)                          *)
(*  exp  expedited with NY: fails as expedited, converted to a regular proposal, tallied again (votes are   *)
(*       gone by then) and rejected                                                                         *)
GovKinds  == {"dep", "YY", "NN", "NY", "VV", "AA", "-A", "AY", "--", "W", "bad", "exp"}
PassKinds == {"YY", "AY", "W"}
Submit(kind) ==
  LET this == Op("Submit", None, kind, 0, "ok")
      p    == CASE kind = "dep" -> [kind |-> kind, status |-> "deposit", left |-> DepositBlocks]
                [] kind = "exp" -> [kind |-> kind, status |-> "votingx", left |-> ExpBlocks]
                [] OTHER        -> [kind |-> kind, status |-> "voting",  left |-> VotingBlocks]
  IN /\ props' = Append(props, p) /\ op' = this
     /\ UNCHANGED <<reg, online, approved, stake, power, totalPower, adds, threshold, sets, latest, slashedSet, lastObsSet, batches, slashedBatch, calls, slashedCall>>

---------------------------------------------------------------------------
(* ONE BLOCK ENDS.  s is the record of the variables a block end can change. *)
Cur == [online |-> online, totalPower |-> totalPower, sets |-> sets, latest |-> latest, slashedSet |-> slashedSet,
        batches |-> batches, slashedBatch |-> slashedBatch, calls |-> calls, slashedCall |-> slashedCall, props |-> props]

\* normalised powers of the member set S with powers pw, as GetCurrentOracleSet computes them (at 20 bits, see
\* the header), and PowerDiff >= OracleSetUpdatePowerChangePercent (10%).  The 20-bit truncation moves the sum by
\* less than |Oracle| * 2^-20; the stake changes used are chosen at least 10^-3 away from the threshold.
NormP(S, pw) == LET tot == SumSet(S, pw) IN [o \in Oracle |-> IF o \in S /\ pw[o] > 0 /\ tot > 0 THEN (pw[o] * 1048576 - 1) \div tot ELSE 0]
AbsV(x) == IF x < 0 THEN 0 - x ELSE x
DiffGE(a, b) == LET d == [o \in Oracle |-> AbsV(a[o] - b[o])] IN SumSet(Oracle, d) * 10 >= 1048576

DueSets(s)    == {n \in Idx(s.sets)    : n > s.slashedSet   /\ s.sets[n].ex /\ s.sets[n].age >= W + 1}
DueBatches(s) == {n \in Idx(s.batches) : n > s.slashedBatch /\ s.batches[n].age >= W + 1}
\* GetUnSlashedBridgeCalls starts AT the last slashed nonce (it is looked at again every block)
DueCalls(s)   == {n \in Idx(s.calls)   : n >= s.slashedCall /\ s.calls[n].age >= W}

Missed(s, o) == \/ \E n \in DueSets(s)    : s.sets[n].elig[o]    /\ ~s.sets[n].conf[o]
                \/ \E n \in DueBatches(s) : s.batches[n].elig[o] /\ ~s.batches[n].conf[o]
                \/ \E n \in DueCalls(s)   : s.calls[n].elig[o]   /\ ~s.calls[n].conf[o]

GovStep(p) ==
  IF p.status \notin {"deposit", "voting", "votingx"} THEN p
  ELSE IF p.left > 0 THEN [p EXCEPT !.left = @ - 1]
  ELSE CASE p.status = "deposit" -> [kind |-> "gone", status |-> "gone", left |-> 0]     \* proposal deleted
         [] p.status = "votingx" -> [p EXCEPT !.status = "voting", !.left = VotingBlocks - ExpBlocks - 1]
         [] p.kind \in PassKinds -> [p EXCEPT !.status = "passed"]
         [] p.kind = "bad"       -> [p EXCEPT !.status = "failed"]
         [] OTHER                -> [p EXCEPT !.status = "rejected"]

EB(s) ==
  LET \* --- slashing (snapshot of the online oracles taken once)
      slashed == {o \in Oracle : reg[o] /\ s.online[o] /\ Missed(s, o)}
      on1     == [o \in Oracle |-> s.online[o] /\ o \notin slashed]
      tp1     == IF slashed # {} THEN OnlineSum(on1, reg, power) ELSE s.totalPower
      cs1     == MaxOf({s.slashedSet} \cup DueSets(s))
      cb1     == MaxOf({s.slashedBatch} \cup DueBatches(s))
      cc1     == MaxOf({s.slashedCall} \cup DueCalls(s))
      \* --- oracle set request
      members == {o \in Oracle : reg[o] /\ on1[o] /\ power[o] > 0}
      cur     == NormP(members, power)
      hasLat  == s.latest \in Idx(s.sets) /\ s.sets[s.latest].ex
      need    == \/ ~hasLat
                 \/ slashed # {}
                 \/ DiffGE(cur, s.sets[s.latest].np)
      create  == need /\ members # {}
      newset  == [ex |-> TRUE, age |-> 0, conf |-> AllF, elig |-> reg, mem |-> [o \in Oracle |-> o \in members], np |-> cur]
      sets1   == IF create THEN Append(s.sets, newset) ELSE s.sets
      lat1    == IF create THEN s.latest + 1 ELSE s.latest
      tp2     == IF create THEN OnlineSum(on1, reg, power) ELSE tp1
      \* --- pruning (needs an observed oracle set with a higher nonce), then the next block begins
      pruned(n) == sets1[n].ex /\ sets1[n].age >= W + 1 /\ lastObsSet > n
      sets2   == [n \in Idx(sets1) |->
                    IF pruned(n) THEN [ex |-> FALSE, age |-> W + 1, conf |-> AllF, elig |-> AllF, mem |-> AllF, np |-> All0]
                    ELSE [sets1[n] EXCEPT !.age = Cap(@ + 1)]]
      older(q) == [n \in Idx(q) |-> [q[n] EXCEPT !.age = Cap(@ + 1)]]
  IN [online |-> on1, totalPower |-> tp2, sets |-> sets2, latest |-> lat1, slashedSet |-> cs1,
      batches |-> older(s.batches), slashedBatch |-> cb1, calls |-> older(s.calls), slashedCall |-> cc1,
      props |-> [i \in Idx(s.props) |-> GovStep(s.props[i])]]

RECURSIVE Blocks(_, _)
Blocks(s, k) == IF k = 0 THEN s ELSE Blocks(EB(s), k - 1)

(* k blocks pass: EndBlocker of the current block, BeginBlocker of the next, k times.  Never fails. *)
Tick(k) ==
  LET this == Op("Tick", None, None, k, "ok")
      t    == Blocks(Cur, k)
  IN /\ online' = t.online /\ totalPower' = t.totalPower /\ sets' = t.sets /\ latest' = t.latest
     /\ slashedSet' = t.slashedSet /\ batches' = t.batches /\ slashedBatch' = t.slashedBatch
     /\ calls' = t.calls /\ slashedCall' = t.slashedCall /\ props' = t.props
     /\ op' = this
     /\ UNCHANGED <<reg, approved, stake, power, adds, threshold, lastObsSet>>

Probe == op' = Op("Probe", None, None, 0, "ok") /\ UNCHANGED svars

Next ==
  \/ \E o \in Oracle : Bond(o)
  \/ \E o \in Removable : GovRemove(o)
  \/ \E o \in Oracle, a \in AddSizes : AddStake(o, a)
  \/ \E t \in Thresholds : SetThreshold(t)
  \/ ("batch" \in Kinds /\ CreateBatch)
  \/ ("call" \in Kinds /\ CreateCall)
  \/ \E o \in Oracle, n \in 1..MaxSets : Confirm(o, "set", n)
  \/ ("batch" \in Kinds /\ \E o \in Oracle, n \in 1..MaxBatch : Confirm(o, "batch", n))
  \/ ("call" \in Kinds /\ \E o \in Oracle, n \in 1..MaxCall : Confirm(o, "call", n))
  \/ \E n \in ObsSets : ObserveSet(n)
  \/ \E kind \in PropKind : Submit(kind)
  \/ \E k \in Ticks : Tick(k)
  \/ Probe

Spec == Init /\ [][Next]_vars

---------------------------------------------------------------------------
(* PROPERTY C07.  Stated over the variables and `op` only, from the property text: block         *)
(* processing never fails, and what a block end must have done (so that "succeeds" cannot be      *)
(* satisfied by an end-blocker that skips its work).                                              *)

TickOk    == op'.name = "Tick" /\ op'.res = "ok"
OneTickOk == TickOk /\ op'.n = 1

\* block processing never halts
A_C07_TickNeverFails == op'.name = "Tick" => op'.res = "ok"
C07_TickNeverFails == [][A_C07_TickNeverFails]_vars

\* objects past the signed window that the slashing cursor has not passed yet (pre-state of a block end)
PastSets    == {n \in Idx(sets)    : sets[n].ex /\ n > slashedSet /\ sets[n].age > W}
PastBatches == {n \in Idx(batches) : n > slashedBatch /\ batches[n].age > W}
PastCalls   == {n \in Idx(calls)   : n > slashedCall /\ calls[n].age >= W}
\* o was obliged to sign such an object (joined at or before its height) and did not
Owes(o) == \/ \E n \in PastSets    : sets[n].elig[o]    /\ ~sets[n].conf[o]
           \/ \E n \in PastBatches : batches[n].elig[o] /\ ~batches[n].conf[o]
           \/ \E n \in PastCalls   : calls[n].elig[o]   /\ ~calls[n].conf[o]

\* after one block exactly the online oracles that owe a signature are offline; over several
\* blocks nobody comes back online and whoever owed is offline
A_C07_OfflineExactly ==
  /\ OneTickOk => \A o \in Oracle : online'[o] <=> (online[o] /\ ~(reg[o] /\ Owes(o)))
  /\ TickOk    => \A o \in Oracle : /\ online'[o] => online[o]
                                    /\ (reg[o] /\ Owes(o)) => ~online'[o]
C07_OfflineExactly == [][A_C07_OfflineExactly]_vars

\* nobody's online flag changes outside Bond / governance removal / block end; registrations only by Bond
A_C07_OnlineChangedOnlyBy ==
  /\ online' # online => op'.name \in {"Bond", "GovRemove", "Tick"}
  /\ (op'.name = "Bond" /\ online' # online) => online' = [online EXCEPT ![op'.o] = TRUE]
  /\ (op'.name = "GovRemove" /\ online' # online) => online' = [online EXCEPT ![op'.o] = FALSE]
  /\ reg' # reg => op'.name = "Bond"
C07_OnlineChangedOnlyBy == [][A_C07_OnlineChangedOnlyBy]_vars

\* an oracle's stake (hence its power) changes only by its own Bond / AddStake (by exactly that amount, within
\* the delegate threshold and threshold * multiple); AddStake is only accepted from an online oracle and refreshes
\* the recorded total power; the delegate threshold changes only by the governance operation
A_C07_PowerChangedOnlyBy ==
  /\ (stake' # stake \/ power' # power) =>
                        /\ op'.name \in {"Bond", "AddStake"} /\ op'.res = "ok"
                        /\ \A o \in Oracle : o # op'.o => stake'[o] = stake[o] /\ power'[o] = power[o]
  /\ (op'.name = "Bond" /\ op'.res = "ok") =>
        /\ stake'[op'.o] = Stake[op'.o] /\ stake'[op'.o] >= threshold /\ stake'[op'.o] <= threshold * Multiple
  /\ (op'.name = "AddStake" /\ op'.res = "ok") =>
        /\ online[op'.o] /\ stake'[op'.o] = stake[op'.o] + op'.n /\ online' = online
        /\ stake'[op'.o] >= threshold /\ stake'[op'.o] <= threshold * Multiple
        /\ totalPower' = OnlineSum(online', reg', power')
  /\ threshold' # threshold => op'.name = "SetThreshold" /\ op'.res = "ok" /\ threshold' = op'.n
C07_PowerChangedOnlyBy == [][A_C07_PowerChangedOnlyBy]_vars

\* cursors are monotone, move only at a block end, and after one block stand exactly behind the
\* last object that was past the window (nothing skipped, nothing slashed early)
A_C07_Cursors ==
  /\ slashedSet' >= slashedSet /\ slashedBatch' >= slashedBatch /\ slashedCall' >= slashedCall
  /\ <<slashedSet', slashedBatch', slashedCall'>> # <<slashedSet, slashedBatch, slashedCall>> => op'.name = "Tick"
  /\ OneTickOk => /\ slashedSet'   = MaxOf({slashedSet} \cup PastSets)
                  /\ slashedBatch' = MaxOf({slashedBatch} \cup PastBatches)
                  /\ slashedCall'  = MaxOf({slashedCall} \cup PastCalls)
C07_Cursors == [][A_C07_Cursors]_vars

\* whenever a block end put somebody offline the recorded total power is the online power afterwards
A_C07_PowerRefreshed ==
  (TickOk /\ \E o \in Oracle : online[o] /\ ~online'[o]) => totalPower' = OnlineSum(online', reg', power')
C07_PowerRefreshed == [][A_C07_PowerRefreshed]_vars

\* oracle-set request rule: a new request (height = the ending block, members = exactly the online oracles
\* that have power - an oracle whose stake is below one power unit has no say in the bridge -,
\* nobody confirmed yet, total power refreshed) iff there are members and (no request in store yet,
\* or somebody was slashed in this block, or the power moved by >= 10%)
MembersAfter == {o \in Oracle : reg[o] /\ online'[o] /\ power[o] > 0}
A_C07_SetRequest ==
  OneTickOk =>
    LET hasLat == latest \in Idx(sets) /\ sets[latest].ex
        need   == \/ ~hasLat
                  \/ \E o \in Oracle : online[o] /\ ~online'[o]
                  \/ DiffGE(NormP(MembersAfter, power), sets[latest].np)
    IN IF need /\ MembersAfter # {}
       THEN /\ Len(sets') = Len(sets) + 1 /\ latest' = Len(sets')
            /\ LET x == sets'[Len(sets')]
               IN /\ x.ex /\ x.age = 1 /\ x.conf = AllF /\ x.elig = reg
                  /\ x.mem = [o \in Oracle |-> o \in MembersAfter] /\ x.np = NormP(MembersAfter, power)
            /\ totalPower' = OnlineSum(online', reg', power')
       ELSE Len(sets') = Len(sets) /\ latest' = latest
C07_SetRequest == [][A_C07_SetRequest]_vars
\* requests appear only at block ends
A_C07_SetsOnlyByTick == Len(sets') # Len(sets) => op'.name = "Tick"
C07_SetsOnlyByTick == [][A_C07_SetsOnlyByTick]_vars

\* pruning: only at a block end, only requests older than the window that an observed update has
\* superseded and that slashing has accounted for; never the latest; after one block all of those
A_C07_Pruning ==
  \A n \in Idx(sets) : n \in Idx(sets') =>
    /\ (sets[n].ex /\ ~sets'[n].ex) => /\ op'.name = "Tick" /\ lastObsSet > n /\ n # latest' /\ n <= slashedSet'
                                       /\ sets'[n].conf = AllF
    /\ (OneTickOk /\ sets[n].ex /\ sets[n].age > W /\ lastObsSet > n) => ~sets'[n].ex
    /\ ~sets[n].ex => ~sets'[n].ex
C07_Pruning == [][A_C07_Pruning]_vars

\* gov end-blocker: a proposal whose period has ended is resolved by the block end (dropped /
\* passed / rejected / failed, or converted once from expedited to regular); resolved ones stay
Final == {"passed", "rejected", "failed", "gone"}
A_C07_GovResolved ==
  /\ Len(props') >= Len(props)
  /\ \A i \in Idx(props) : i \in Idx(props') =>
       /\ props[i].status \in Final => props'[i] = props[i]
       /\ (OneTickOk /\ props[i].left = 0 /\ props[i].status \notin Final) =>
             \/ props'[i].status \in Final
             \/ props[i].status = "votingx" /\ props'[i].status = "voting"
       /\ (OneTickOk /\ props[i].left > 0 /\ props[i].status \notin Final) =>
             props'[i] = [props[i] EXCEPT !.left = @ - 1]
       /\ props'[i] # props[i] => op'.name = "Tick"
C07_GovResolved == [][A_C07_GovResolved]_vars

\* state sanity
C07_Sane ==
  /\ latest = Len(sets) /\ slashedSet <= Len(sets) /\ slashedBatch <= Len(batches) /\ slashedCall <= Len(calls)
  /\ lastObsSet <= Len(sets)
  /\ \A o \in Oracle : online[o] => reg[o]
  /\ threshold > 0
  /\ \A o \in Oracle : power[o] = stake[o] \div Unit /\ (~reg[o] => stake[o] = 0)
  \* a stored oracle set is never empty and every member carries weight
  /\ \A n \in Idx(sets) : sets[n].ex => /\ \E o \in Oracle : sets[n].mem[o]
                                         /\ \A q \in Oracle : sets[n].mem[q] <=> sets[n].np[q] > 0
  /\ \A n \in Idx(sets) : /\ sets[n].age \in 0..(W + 1)
                          /\ (n > 1 => sets[n].age <= sets[n - 1].age)
                          /\ (n <= slashedSet => sets[n].age > W)
  /\ \A n \in Idx(batches) : /\ batches[n].age \in 0..(W + 1)
                             /\ (n > 1 => batches[n].age <= batches[n - 1].age)
                             /\ (n <= slashedBatch => batches[n].age > W)
  /\ \A n \in Idx(calls) : /\ calls[n].age \in 0..(W + 1)
                           /\ (n > 1 => calls[n].age <= calls[n - 1].age)
                           /\ (n <= slashedCall => calls[n].age >= W)

---------------------------------------------------------------------------
(* model-checking plumbing *)
View == svars
\* bounds and restrictions of the ENVIRONMENT are action constraints: the transition is generated
\* (and printed in the generation run) but its successor is not expanded
Bounded ==
  /\ adds' <= MaxAdds
  /\ Len(sets') <= MaxSets /\ Len(batches') <= MaxBatch /\ Len(calls') <= MaxCall /\ Len(props') <= MaxProps
  \* confirmations by offline oracles (never looked at again: nobody comes back online in this model), of
  \* objects the cursor has passed, or observing an older update, change nothing a block end reads
  /\ (op'.name = "Confirm" /\ op'.res = "ok") => online[op'.o]
  /\ (op'.name = "Confirm" /\ op'.res = "ok") =>
        CASE op'.k = "set"   -> op'.n > slashedSet
          [] op'.k = "batch" -> op'.n > slashedBatch
          [] OTHER           -> op'.n > slashedCall
  /\ (op'.name = "ObserveSet" /\ op'.res = "ok") => op'.n > lastObsSet

EdgeDump == /\ IF op.name = "Init" \/ op'.res = "ok"
               THEN PrintT(<<"EDGE", ToJson([from |-> Abs, op |-> op', to |-> Abs'])>>)
               ELSE TRUE
            /\ Bounded
=============================================================================
